package pmapset

import (
	"testing"

	"pgregory.net/rapid"
	"verif/elem"
	"verif/vk"
)

func init() {
	vk.Register("C18", "exh", runSet)
	vk.Register("C18", "hist", runSet)
}

func TestReplay(t *testing.T) { vk.ReplayMain(t) }

// ---------------------------------------------------------------------------
// exhaustive leg

// setValues lists nil, then every subset of {0..u-1} in order of size.
func setValues(u int) [][]int {
	out := [][]int{nil}
	for size := 0; size <= u; size++ {
		for mask := 0; mask < 1<<u; mask++ {
			xs := []int{}
			for b := 0; b < u; b++ {
				if mask>>b&1 == 1 {
					xs = append(xs, b)
				}
			}
			if len(xs) == size {
				out = append(out, xs)
			}
		}
	}
	return out
}

// argLists lists every item list over {0..u-1} of length <= maxLen, shortest first.
func argLists(u, maxLen int) [][]int {
	out := [][]int{nil}
	prev := [][]int{nil}
	for l := 1; l <= maxLen; l++ {
		var next [][]int
		for _, p := range prev {
			for x := 0; x < u; x++ {
				next = append(next, append(append([]int(nil), p...), x))
			}
		}
		out = append(out, next...)
		prev = next
	}
	return out
}

func seq(n int) []int {
	out := make([]int, n)
	for i := range out {
		out[i] = i
	}
	return out
}

// TestC18Exhaustive enumerates every one-operation history over a tiny
// universe: all operand combinations of every operation, nil included, for
// every element kind (the plain int instantiation first).
func TestC18Exhaustive(t *testing.T) {
	h := vk.Start(t, "C18", "exh")
	u := h.Pick(3, 4)        // universe {0..u-1}
	maxArgs := h.Pick(3, 4)  // item lists up to this length
	maxInter := h.Pick(3, 4) // Intersect argument lists up to this length
	longInter := h.Pick(12, 20)
	vals := setValues(u)
	lists := argLists(u, maxArgs)
	slot := h.Slot()
	kind := ""
	one := func(c Case) {
		if h.Failed() {
			return
		}
		c.Elem = kind
		if msg := vk.One(h, slot, c, runSet); msg != "" {
			p := h.Fail(c, msg)
			t.Fatalf("VK-VIOLATION property=C18 leg=exh replay=%s\n%s", p, msg)
		}
	}
	for _, kind = range append([]string{""}, elemKinds...) {
		exhaustiveOne(one, vals, lists, maxInter)
		exhaustiveLongIntersect(one, vals, maxInter+1, longInter, kind == "")
		if isByteKind(kind) {
			exhaustiveBytes(one, h.Thorough())
		}
	}
	// the zero-size element type has one value: universe {0}
	kind = kindUnit
	exhaustiveOne(one, setValues(1), argLists(1, maxArgs+1), maxInter+1)
	exhaustiveLongIntersect(one, setValues(1), maxInter+2, longInter, true)
	// directed sweep: near-equal operands of every size, every call repeated
	nNear := 0
	sweepNear(h.Thorough(), func(k string, c Case) {
		kind = k
		one(c)
		nNear++
	})
	if !h.Failed() {
		h.Exhaustive()
		h.Note("universe {0..%d}: %d set values (nil + %d subsets), item lists up to length %d (%d lists), Intersect argument lists up to length %d, and of %d..%d operands that are all the same value but one (every pair of values, the odd one at every position for Set[int], first and last for the other kinds); all of it for Set[int] and for each of the element kinds %v; for u8 and i8 also the operand pairs built from runs of 0, 1, 127..129, 255 and 256 consecutive values and their complements in the whole type; for Set[struct{}] (one value) the universe {0} with item lists up to length %d; NOT exhaustive, a directed sweep of %d multi-operation cases: for every size n in 0..%d and %v, a set A of n members and B = A / A with one member swapped for a fresh one / A less one / A plus one / n fresh members / n members of which one is shared, and Equals, IsSubset, Intersects, HasAll, HasAny (items = members of the other set), Intersect, Add, AddAll, Remove, RemoveAll on (A,B) and (B,A), each evaluated %d times per pair for n <= %d (fewer for the larger sizes) because map iteration order differs from call to call", u-1, len(vals), len(vals)-1, maxArgs, len(lists), maxInter, maxInter+1, longInter, elemKinds, maxArgs+1, nNear, nearSmall, nearLarge, nearReps(h.Thorough(), 1)+1, nearSmall)
	}
}

// exhaustiveOne is the enumeration for one element kind.
func exhaustiveOne(one func(Case), vals, lists [][]int, maxInter int) {
	// unary operations on every value
	for _, s := range vals {
		one(Case{Init: [][]int{s}, Ops: []Op{{K: "check"}}})
		for _, k := range []string{"clear", "pop", "setnil"} {
			one(Case{Init: [][]int{s}, Ops: []Op{{K: k, D: 0}}})
		}
		for b := 0; b < 3; b++ { // Clear with 1..3 NaN members besides s (Set[float64]; a plain Clear otherwise)
			one(Case{Init: [][]int{s}, Ops: []Op{{K: "nanclear", D: 0, B: b}}})
		}
		for _, k := range []string{"clone", "keysv", "rangev"} {
			one(Case{Init: [][]int{s}, Ops: []Op{{K: k, D: 1, S: []int{0}}}})
			one(Case{Init: [][]int{s}, Ops: []Op{{K: k, D: 0, S: []int{0}}}}) // result replaces its own source
		}
		// drain by Pop, one more Pop than there are members
		drain := Case{Init: [][]int{s}}
		for i := 0; i <= len(s)+1; i++ {
			drain.Ops = append(drain.Ops, Op{K: "pop", D: 0})
		}
		one(drain)
	}
	// binary operations: every ordered pair of values, and a value with itself
	binary := []string{"intersects", "issubset", "equals", "addall", "removeall"}
	for _, k := range binary {
		for _, s := range vals {
			one(Case{Init: [][]int{s}, Ops: []Op{{K: k, D: 0, S: []int{0}}}}) // same variable on both sides
			for _, u := range vals {
				one(Case{Init: [][]int{s, u}, Ops: []Op{{K: k, D: 0, S: []int{1}}}})
			}
		}
	}
	// Intersect: every argument list of values up to maxInter, shortest lists
	// first so that the first failure is minimal
	for l := 0; l <= maxInter; l++ {
		var exact func(cur [][]int)
		exact = func(cur [][]int) {
			if len(cur) == l {
				init := append([][]int(nil), cur...)
				one(Case{Init: init, Ops: []Op{{K: "intersect", D: 3, S: seq(l)}}})
				if l == 2 {
					// result assigned over its first operand
					one(Case{Init: init, Ops: []Op{{K: "intersect", D: 0, S: seq(l)}}})
				}
				return
			}
			for _, v := range vals {
				exact(append(cur, v))
			}
		}
		exact(nil)
	}
	// item-list operations: every receiver, every list
	for _, k := range []string{"hasall", "hasany", "add", "remove"} {
		for _, a := range lists {
			for _, s := range vals {
				one(Case{Init: [][]int{s}, Ops: []Op{{K: k, D: 0, A: a}}})
			}
		}
	}
	// constructors from item lists
	for _, k := range []string{"new", "keys", "values", "range"} {
		for _, a := range lists {
			one(Case{Init: [][]int{}, Ops: []Op{{K: k, D: 0, A: a}}})
			if k == "range" { // the same through a single-use sequence
				one(Case{Init: [][]int{}, Ops: []Op{{K: k, D: 0, A: a, B: 1}}})
			}
		}
	}
	one(Case{Init: [][]int{}, Ops: []Op{{K: "keys", D: 0, B: 1}}})   // nil map argument
	one(Case{Init: [][]int{}, Ops: []Op{{K: "values", D: 0, B: 1}}}) // nil map argument
}

// exhaustiveLongIntersect: Intersect with lo..hi operands.  All operands hold
// the value s except the one at position k, which holds u: every ordered pair
// of values; every position for Set[int], the first and the last position for
// the other element kinds.
func exhaustiveLongIntersect(one func(Case), vals [][]int, lo, hi int, everyPos bool) {
	for l := lo; l <= hi; l++ {
		for k := 0; k < l; k++ {
			if !everyPos && k != 0 && k != l-1 {
				continue
			}
			ss := make([]int, l)
			ss[k] = 1
			for _, s := range vals {
				for _, u := range vals {
					one(Case{Init: [][]int{s, u}, Ops: []Op{{K: "intersect", D: 3, S: ss}}})
				}
			}
		}
	}
}

// exhaustiveBytes is the part of the enumeration that needs an element type
// with few values (Set[uint8], Set[int8]): operands that hold most or all
// values of the type.  s is a run of n consecutive values; the other operand
// is its complement in the type (the two partition all 256 values), the
// complement less one value, the complement plus one value of s, or s itself.
func exhaustiveBytes(one func(Case), thorough bool) {
	los, ns := []int{0, 100, 255}, []int{0, 1, 127, 128, 129, 255, 256}
	if thorough {
		los, ns = []int{0, 1, 100, 127, 128, 200, 255}, []int{0, 1, 2, 3, 64, 127, 128, 129, 192, 253, 254, 255, 256}
	}
	for _, n := range ns {
		for _, lo := range los {
			s := span(lo, n, 256)
			co := complOf(s, 256)
			ts := [][]int{co, s}
			if len(co) > 0 {
				ts = append(ts, co[1:])
			}
			if len(s) > 0 {
				ts = append(ts, append([]int{s[len(s)/2]}, co...))
			}
			for _, u := range ts {
				for _, k := range []string{"intersects", "issubset", "equals", "addall", "removeall"} {
					one(Case{Init: [][]int{s, u}, Ops: []Op{{K: k, D: 0, S: []int{1}}}})
					one(Case{Init: [][]int{s, u}, Ops: []Op{{K: k, D: 1, S: []int{0}}}})
				}
				one(Case{Init: [][]int{s, u}, Ops: []Op{{K: "intersect", D: 3, S: []int{0, 1}}}})
				one(Case{Init: [][]int{s, u}, Ops: []Op{{K: "intersect", D: 3, S: []int{1, 0}}}})
				one(Case{Init: [][]int{s, u}, Ops: []Op{{K: "intersect", D: 0, S: []int{1, 0, 1}}}})
				for _, k := range []string{"hasall", "hasany", "add", "remove"} {
					one(Case{Init: [][]int{s}, Ops: []Op{{K: k, D: 0, A: u}}})
				}
			}
			one(Case{Init: [][]int{s}, Ops: []Op{{K: "compl", D: 1, S: []int{0}}}})
			one(Case{Init: [][]int{s}, Ops: []Op{{K: "compl", D: 0, S: []int{0}}}})
			for _, k := range []string{"clone", "keysv", "rangev"} {
				one(Case{Init: [][]int{s}, Ops: []Op{{K: k, D: 1, S: []int{0}}}})
			}
			for _, k := range []string{"new", "keys", "values", "range"} {
				one(Case{Init: [][]int{}, Ops: []Op{{K: k, D: 0, A: s}}})
			}
			drain := Case{Init: [][]int{s}}
			for i := 0; i <= len(s); i++ {
				drain.Ops = append(drain.Ops, Op{K: "pop", D: 0})
			}
			if lo == 0 {
				one(drain)
			}
		}
	}
}

// ---------------------------------------------------------------------------
// near-equal operands

// nearSmall: every size up to this one is swept; nearLarge are the other sizes.
const nearSmall = 70

var nearLarge = []int{127, 128, 129, 255, 256, 257, 1000}

// kindCap is the largest set of the kind that leaves room for one fresh value
// (u8/i8: that holds every value of the type).
func kindCap(kind string) int {
	switch {
	case kind == "":
		return 4000
	case kind == kindUnit:
		return 1
	case isByteKind(kind):
		return 256
	}
	return domHi - domLo - 2 // one value is the probe element
}

// nearBase lists n distinct model values of the kind, consecutive from off
// (wrapping around in the kind's domain, leaving out the probe element).
func nearBase(kind string, n, off int) []int {
	lo, hi := domLo, domHi
	switch {
	case kind == "":
		hi = 1 << 13
	case kind == kindUnit:
		lo, hi = 0, 1
	case isByteKind(kind):
		lo, hi = 0, 256
	}
	w := hi - lo
	out := make([]int, 0, n)
	for i := 0; i < w && len(out) < n; i++ {
		x := lo + ((off-lo)%w+w+i)%w
		if x == probe && !isByteKind(kind) && kind != kindUnit {
			continue
		}
		out = append(out, x)
	}
	return out
}

// nearReps is the number of extra evaluations of a predicate on operands of n
// members.
func nearReps(thorough bool, n int) int {
	r := 31
	switch {
	case n > 257:
		r = 3
	case n > 129:
		r = 7
	case n > nearSmall:
		r = 15
	}
	if thorough {
		r = r*8 + 7
	}
	return r
}

// nearBattery is the history for one pair: var1 becomes the near copy (mode,
// pick, start: see the near operation) of var0, then every binary operation is
// applied to (var0, var1) and to (var1, var0), the predicates rep+1 times, the
// others rep/4+1 times; the mutators work on var2, a copy of the receiver.
func nearBattery(mode, pick, start, rot, rep int) []Op {
	ops := []Op{{K: "near", D: 1, S: []int{0}, B: mode, A: []int{pick, start}}}
	rm := rep / 4
	for _, o := range [][2]int{{0, 1}, {1, 0}} {
		a, b := o[0], o[1]
		for _, k := range []string{"equals", "issubset", "intersects"} {
			ops = append(ops, Op{K: k, D: a, S: []int{b}, R: rep})
		}
		ops = append(ops,
			Op{K: "hasall", D: a, S: []int{b}, B: rot, R: rep},
			Op{K: "hasany", D: a, S: []int{b}, B: rot, R: rep},
			Op{K: "intersect", D: 3, S: []int{a, b}, R: rm})
		for _, k := range []string{"removeall", "remove", "addall", "add"} {
			ops = append(ops, Op{K: "near", D: 2, S: []int{a}}, Op{K: k, D: 2, S: []int{b}, B: rot, R: rm})
		}
	}
	return append(ops, Op{K: "intersect", D: 3, S: []int{0, 1, 0}, R: rm}, Op{K: "new", D: 3, S: []int{1}, B: rot})
}

// sweepNear emits the directed cases: every size 0..nearSmall and the sizes of
// nearLarge, every mode of the near operation, Set[int] and two more element
// kinds per size in turn (thorough: every kind that can hold the size).
func sweepNear(thorough bool, emit func(kind string, c Case)) {
	sizes := append(seq(nearSmall+1), nearLarge...)
	for _, n := range sizes {
		kinds := []string{""}
		for i, k := range elemKinds {
			if n <= kindCap(k) && (thorough || (n+i)%4 == 0 || (n > nearSmall && isByteKind(k))) {
				kinds = append(kinds, k)
			}
		}
		if n <= 1 {
			kinds = append(kinds, kindUnit)
		}
		for ki, k := range kinds {
			base := nearBase(k, n, 3*n+5*ki-7)
			for mode := 0; mode < 6; mode++ {
				pick, start, rot := 7*n+3*mode+ki, 11*n+mode, 5*n+mode+2*ki
				emit(k, Case{Init: [][]int{base}, Ops: nearBattery(mode, pick, start, rot, nearReps(thorough, n))})
			}
		}
	}
}

// ---------------------------------------------------------------------------
// rapid history leg

var histKinds = []string{
	"add", "add", "add", "addall", "addall", "addall", "remove", "remove", "removeall", "removeall",
	"pop", "pop", "clear", "nanclear", "setnil", "clone", "clone", "new", "intersect", "intersect", "intersect",
	"keysv", "keys", "values", "range", "rangev", "compl",
	"intersects", "intersects", "issubset", "issubset", "issubset", "equals", "equals", "hasall", "hasall", "hasany", "hasany",
}

func genItems(t *rapid.T, maxLen int) []int {
	hi := 5
	switch rapid.IntRange(0, 9).Draw(t, "wide") {
	case 0:
		hi = 7
	case 1: // large sets: dozens of members, large overlaps between operands
		n := rapid.IntRange(17, 48).Draw(t, "bigN")
		lo := rapid.IntRange(0, 6).Draw(t, "bigLo")
		items := make([]int, 0, n+2)
		for i := 0; i < n; i++ {
			items = append(items, lo+i)
		}
		if rapid.Bool().Draw(t, "bigExtra") {
			items = append(items, 90+rapid.IntRange(0, 5).Draw(t, "bigX"))
		}
		return items
	}
	return rapid.SliceOfN(rapid.IntRange(0, hi), 0, maxLen).Draw(t, "items")
}

func genValue(t *rapid.T) []int {
	switch rapid.IntRange(0, 7).Draw(t, "valKind") {
	case 0, 1:
		return nil
	case 2:
		return []int{}
	}
	// non-empty, sizes 1..6 so that operands of different sizes are common
	return rapid.SliceOfNDistinct(rapid.IntRange(0, 5), 1, 6, rapid.ID[int]).Draw(t, "elems")
}

func genVar(t *rapid.T, label string) int {
	// variable 3 (the spare result slot) is used less often
	return rapid.SampledFrom([]int{0, 0, 0, 1, 1, 1, 2, 2, 2, 3}).Draw(t, label)
}

func genOp(t *rapid.T) Op {
	op := Op{K: rapid.SampledFrom(histKinds).Draw(t, "k"), D: genVar(t, "d")}
	switch op.K {
	case "add", "remove", "hasall", "hasany", "new", "keys", "values", "range":
		op.A = genItems(t, 4)
		if (op.K == "keys" || op.K == "values") && len(op.A) == 0 {
			op.B = rapid.IntRange(0, 1).Draw(t, "nilmap")
		}
		if op.K == "range" {
			op.B = rapid.IntRange(0, 1).Draw(t, "singleUse")
		}
	case "addall", "removeall", "clone", "keysv", "rangev", "intersects", "issubset", "equals", "compl":
		op.S = []int{genVar(t, "s")}
	case "nanclear":
		op.B = rapid.IntRange(0, 2).Draw(t, "nans")
	case "intersect":
		n := rapid.IntRange(0, 4).Draw(t, "nsets")
		few := []int{0, 1, 2, 3}
		if rapid.IntRange(0, 4).Draw(t, "manySets") == 0 {
			// a long argument list; its first part is drawn from one or two of the
			// variables only, so that a member all of them hold can be missing from
			// an operand far down the list
			n = rapid.IntRange(5, 12).Draw(t, "nsetsMany")
			few = []int{genVar(t, "few0"), genVar(t, "few1")}
		}
		head := rapid.IntRange(0, n).Draw(t, "head")
		for i := 0; i < n; i++ {
			if i < head {
				op.S = append(op.S, rapid.SampledFrom(few).Draw(t, "s"))
			} else {
				op.S = append(op.S, genVar(t, "s"))
			}
		}
	}
	return op
}

var binaryKinds = []string{"intersects", "issubset", "equals", "addall", "removeall", "intersect"}

// genElem draws the element kind: half of the cases keep Set[int] with the
// ints themselves as members, the others are spread evenly over elemKinds.
func genElem(t *rapid.T) string {
	if !rapid.Bool().Draw(t, "otherElem") {
		return ""
	}
	if vk.Rare(t, "unitElem", 12) {
		return kindUnit
	}
	return rapid.SampledFrom(elemKinds).Draw(t, "elem")
}

func genHist(t *rapid.T) Case {
	c := Case{Init: [][]int{genValue(t), genValue(t), genValue(t)}, Elem: genElem(t)}
	c.Ops = rapid.SliceOfN(rapid.Custom(genOp), 0, 40).Draw(t, "ops")
	// Construction instead of rejection: most histories get a binary operation
	// applied in both operand orders (x op y, y op x) spliced in at drawn
	// positions, so both branches of each size-ordered shortcut are taken.
	if rapid.IntRange(0, 3).Draw(t, "structured") > 0 {
		x := rapid.IntRange(0, 2).Draw(t, "x")
		y := (x + rapid.IntRange(1, 2).Draw(t, "dy")) % 3
		ins := func(op Op) {
			i := rapid.IntRange(0, len(c.Ops)).Draw(t, "pos")
			c.Ops = append(c.Ops[:i], append([]Op{op}, c.Ops[i:]...)...)
		}
		k1 := rapid.SampledFrom(binaryKinds).Draw(t, "k1")
		k2 := rapid.SampledFrom(binaryKinds).Draw(t, "k2")
		mk := func(k string, a, b int) Op {
			if k == "intersect" {
				return Op{K: k, D: 3, S: []int{a, b}}
			}
			return Op{K: k, D: a, S: []int{b}}
		}
		ins(mk(k1, x, y))
		ins(mk(k2, y, x))
	}
	// Set[float64]: half of the histories get a Clear with NaN members at a
	// drawn position (by construction: the operation is one of 37 kinds)
	if c.Elem == elem.F64 && rapid.Bool().Draw(t, "nanclear") {
		i := rapid.IntRange(0, len(c.Ops)).Draw(t, "nanPos")
		op := Op{K: "nanclear", D: genVar(t, "nanVar"), B: rapid.IntRange(0, 2).Draw(t, "nans")}
		c.Ops = append(c.Ops[:i], append([]Op{op}, c.Ops[i:]...)...)
	}
	if isByteKind(c.Elem) {
		genBytes(t, &c)
	}
	if c.Elem == kindUnit {
		// one value in all: every member and item becomes 0
		for _, in := range c.Init {
			clear(in)
		}
		for _, op := range c.Ops {
			clear(op.A)
		}
	}
	if vk.Rare(t, "nearShape", 32) {
		genNear(t, &c)
	}
	return c
}

// genNear splices a group into the history: var x becomes a set of n members
// (any size up to nearSmall, or one of nearLarge if the kind can hold it), var
// y a near copy of it, then a few binary operations on the two follow, each
// evaluated repeatedly.
func genNear(t *rapid.T, c *Case) {
	n := rapid.IntRange(0, nearSmall).Draw(t, "nearN")
	if rapid.IntRange(0, 7).Draw(t, "nearBig") == 0 {
		if big := rapid.SampledFrom(nearLarge).Draw(t, "nearBigN"); big <= kindCap(c.Elem) {
			n = big
		}
	}
	n = min(n, kindCap(c.Elem))
	x := rapid.IntRange(0, 2).Draw(t, "nearX")
	y := (x + rapid.IntRange(1, 2).Draw(t, "nearDy")) % 3
	mode := rapid.SampledFrom([]int{0, 1, 1, 1, 2, 3, 4, 5}).Draw(t, "nearMode")
	pick := rapid.IntRange(0, max(n-1, 0)).Draw(t, "nearPick")
	start := rapid.IntRange(domLo, domHi).Draw(t, "nearStart")
	grp := []Op{
		{K: "new", D: x, A: nearBase(c.Elem, n, rapid.IntRange(domLo, domHi).Draw(t, "nearOff"))},
		{K: "near", D: y, S: []int{x}, B: mode, A: []int{pick, start}},
	}
	maxRep := nearReps(false, n)
	for k := rapid.IntRange(1, 6).Draw(t, "nearOps"); k > 0; k-- {
		a, b := x, y
		if rapid.Bool().Draw(t, "nearSwap") {
			a, b = y, x
		}
		op := Op{K: rapid.SampledFrom(nearKinds).Draw(t, "nearK"), D: a, S: []int{b}}
		op.R = rapid.SampledFrom([]int{0, 3, maxRep / 4, maxRep, maxRep}).Draw(t, "nearRep")
		switch op.K {
		case "intersect":
			op.D, op.S = 3, []int{a, b}
			if rapid.IntRange(0, 3).Draw(t, "nearThird") == 0 {
				op.S = append(op.S, genVar(t, "nearS3"))
			}
			op.R /= 4
		case "hasall", "hasany":
			op.B = rapid.IntRange(0, n).Draw(t, "nearRot")
		case "add", "remove", "addall", "removeall":
			// on a copy, so that the pair stays what it is for the operations after it
			grp = append(grp, Op{K: "near", D: 3, S: []int{a}})
			op.D, op.R = 3, op.R/4
		}
		grp = append(grp, op)
	}
	i := rapid.IntRange(0, len(c.Ops)).Draw(t, "nearPos")
	c.Ops = append(c.Ops[:i:i], append(grp, c.Ops[i:]...)...)
}

var nearKinds = []string{"equals", "equals", "issubset", "issubset", "intersects", "hasall", "hasall", "hasany", "intersect", "intersect", "add", "remove", "addall", "removeall"}

// genBytes adds what only the 1-byte kinds can have: sets that hold most or
// all values of their type, and operand pairs that partition the type.
func genBytes(t *rapid.T, c *Case) {
	genSpan := func(label string) []int {
		n := rapid.SampledFrom([]int{-1, 1, 2, 127, 128, 129, 254, 255, 256}).Draw(t, label+"N")
		if n < 0 {
			n = rapid.IntRange(0, 256).Draw(t, label+"AnyN")
		}
		return span(rapid.IntRange(0, 255).Draw(t, label+"Lo"), n, 256)
	}
	for i := range c.Init {
		if rapid.IntRange(0, 5).Draw(t, "bigInit") == 0 {
			c.Init[i] = genSpan("init")
		}
	}
	var itemOps []int
	for i, op := range c.Ops {
		switch op.K {
		case "add", "remove", "hasall", "hasany", "new", "keys", "values", "range":
			itemOps = append(itemOps, i)
		}
	}
	if len(itemOps) > 0 {
		for k := rapid.IntRange(0, 2).Draw(t, "bigLists"); k > 0; k-- {
			c.Ops[rapid.SampledFrom(itemOps).Draw(t, "bigListAt")].A = genSpan("items")
		}
	}
	// a set emptied by Clear (non-nil, empty) receives a long item list in ONE call
	if rapid.IntRange(0, 5).Draw(t, "refill") == 0 {
		d := rapid.IntRange(0, 3).Draw(t, "refillVar")
		n := rapid.SampledFrom([]int{7, 8, 9, 10, 16, 17, 33, 64, 65, 129}).Draw(t, "refillN")
		at := rapid.IntRange(0, len(c.Ops)).Draw(t, "refillAt")
		grp := []Op{{K: "add", D: d, A: []int{rapid.IntRange(0, 255).Draw(t, "refillSeed")}}, {K: "clear", D: d}, {K: "add", D: d, A: span(rapid.IntRange(0, 255).Draw(t, "refillLo"), n, 256)}}
		c.Ops = append(c.Ops[:at:at], append(grp, c.Ops[at:]...)...)
	}
	// var y becomes the complement of var x (optionally less or plus one value),
	// then the two meet in a binary operation in both operand orders
	if rapid.IntRange(0, 3).Draw(t, "partition") > 0 {
		x := rapid.IntRange(0, 3).Draw(t, "px")
		y := (x + rapid.IntRange(1, 3).Draw(t, "pdy")) % 4
		grp := []Op{{K: "compl", D: y, S: []int{x}}}
		switch e := rapid.IntRange(0, 255).Draw(t, "pe"); rapid.IntRange(0, 3).Draw(t, "near") {
		case 0:
			grp = append(grp, Op{K: "remove", D: y, A: []int{e}})
		case 1:
			grp = append(grp, Op{K: "add", D: y, A: []int{e}})
		}
		for _, o := range [][2]int{{x, y}, {y, x}} {
			if k := rapid.SampledFrom(binaryKinds).Draw(t, "pk"); k == "intersect" {
				grp = append(grp, Op{K: k, D: 3, S: []int{o[0], o[1]}})
			} else {
				grp = append(grp, Op{K: k, D: o[0], S: []int{o[1]}})
			}
		}
		i := rapid.IntRange(0, len(c.Ops)).Draw(t, "ppos")
		c.Ops = append(c.Ops[:i:i], append(grp, c.Ops[i:]...)...)
	}
}

func TestC18Hist(t *testing.T) {
	h := vk.Start(t, "C18", "hist")
	vk.Rapid(h, t, genHist, runSet)
}

// ---------------------------------------------------------------------------

// TestDoms: every element kind maps the model values one-to-one onto members
// and back (tableDom panics on a clash), and 0 onto the zero value.
func TestDoms(t *testing.T) {
	for _, k := range elemKinds {
		if isByteKind(k) {
			c := Case{Init: [][]int{span(0, 256, 256), {0, 127, 128, 255}}, Ops: []Op{{K: "compl", D: 2, S: []int{1}}, {K: "clone", D: 3, S: []int{0}}, {K: "pop", D: 0}, {K: "add", D: 1, A: []int{3, 4, 5}}}, Elem: k}
			if msg := vk.Guard(func() string { return runSet(c, &vk.Obs{}) }); msg != "" {
				t.Fatalf("kind %s: %s", k, msg)
			}
			continue
		}
		c := Case{Init: [][]int{{domLo, -1, 0, 1, domHi - 1}}, Ops: []Op{{K: "nanclear", D: 0}, {K: "add", D: 1, A: []int{3, 4, 5}}}, Elem: k}
		if msg := vk.Guard(func() string { return runSet(c, &vk.Obs{}) }); msg != "" {
			t.Fatalf("kind %s: %s", k, msg)
		}
	}
	roundTrip(t, intDom())
	roundTrip(t, strDom())
	roundTrip(t, i16Dom())
	roundTrip(t, wideDom())
	roundTrip(t, ptrDom())
	roundTrip(t, anyDom())
	roundTrip(t, f64Dom())
	for x := 0; x < 256; x++ {
		u, i := u8Dom(), i8Dom()
		if got, ok := u.val(u.of(x)); !ok || got != x || int(u.of(x)) != x {
			t.Fatalf("kind u8: %d -> %d -> %d", x, u.of(x), got)
		}
		if got, ok := i.val(i.of(x)); !ok || got != x || uint8(i.of(x)) != uint8(x) {
			t.Fatalf("kind i8: %d -> %d -> %d", x, i.of(x), got)
		}
	}
}

func roundTrip[T comparable](t *testing.T, d *dom[T]) {
	var zero T
	for x := domLo; x < domHi; x++ {
		e := d.of(x)
		if got, ok := d.val(e); !ok || got != x || e != d.of(x) || (x == 0) != (e == zero) {
			t.Fatalf("kind %s: %d -> %s -> %d (%v)", d.kind, x, d.repr(e), got, ok)
		}
	}
}
