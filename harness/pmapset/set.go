// Package pmapset holds the check for mapset.Set (C18).
//
// A case is a small history over four set variables (three initial values
// plus a result slot).  The exhaustive leg enumerates one-operation histories
// over every combination of operands drawn from a tiny universe, the rapid
// leg draws longer histories.  Both run through the same interpreter, which
// keeps a reference set per variable as a sorted slice of ints (never a Go
// map) and compares every variable with its reference after every step.
package pmapset

import (
	"fmt"
	"maps"
	"slices"
	"sort"
	"strings"

	"github.com/creachadair/mds/mapset"
	"verif/elem"
	"verif/vk"
)

// NV is the number of set variables of a history.
const NV = 4

// probe is an element outside every universe used by the generators; it is
// written into one map to see whether another map changes (aliasing).
const probe = 99

// hiElem bounds the elements whose membership is compared after every step.
const hiElem = 8

// Op is one step of a history.  D is the receiver (or the variable that is
// assigned the result of a constructor), S lists source variables, A is an
// item list, B a small extra argument.
//
// R asks for repetitions.  A Go map is iterated in a different order on every
// call, so an answer that depends on the order in which the library happens to
// walk an operand is wrong on SOME calls only: the predicates are evaluated
// R more times (every call must give the reference answer); Intersect is
// called R more times; Add, AddAll, Remove and RemoveAll are applied R more
// times to a fresh copy of the receiver (built with the built-in map
// operations) before they are applied to the variable itself.
//
// For the item-list operations (add, remove, hasall, hasany, new) a source
// variable in S means: the item list is the members of that variable (in
// reference order rotated by B), followed by A.
type Op struct {
	K string `json:"k"`
	D int    `json:"d"`
	S []int  `json:"s,omitempty"`
	A []int  `json:"a,omitempty"`
	B int    `json:"b,omitempty"`
	R int    `json:"r,omitempty"`
}

// maxRep bounds Op.R.
const maxRep = 1024

// Case is a history.  Init holds the initial value of variables 0..len-1 as
// element lists; JSON null means the nil set, [] the empty non-nil set.
// Variables without an initial value start nil.  Elem names the element type
// the sets are instantiated with ("" = int, the ints of the case are the
// members themselves; otherwise see kinds.go: the ints of the case are model
// values that a dom turns into members).
type Case struct {
	Init [][]int `json:"init"`
	Ops  []Op    `json:"ops"`
	Elem string  `json:"elem,omitempty"`
}

// rset is the reference: a strictly ascending slice.
type rset []int

func norm(xs []int) rset {
	out := append(rset(nil), xs...)
	sort.Ints(out)
	j := 0
	for i, x := range out {
		if i == 0 || x != out[j-1] {
			out[j] = x
			j++
		}
	}
	return out[:j]
}

func (r rset) has(x int) bool {
	i := sort.SearchInts(r, x)
	return i < len(r) && r[i] == x
}

func (r rset) union(o rset) rset { return norm(append(append([]int(nil), r...), o...)) }

func (r rset) minus(o rset) rset {
	var out rset
	for _, x := range r {
		if !o.has(x) {
			out = append(out, x)
		}
	}
	return out
}

func (r rset) inter(o rset) rset {
	var out rset
	for _, x := range r {
		if o.has(x) {
			out = append(out, x)
		}
	}
	return out
}

func (r rset) subsetOf(o rset) bool { return len(r.minus(o)) == 0 }
func (r rset) equal(o rset) bool    { return slices.Equal(r, o) }
func (r rset) String() string {
	var sb strings.Builder
	sb.WriteByte('{')
	for i := 0; i < len(r); i++ {
		if i > 0 {
			sb.WriteByte(',')
		}
		fmt.Fprint(&sb, r[i])
		if len(r) > 32 { // long sets: runs of consecutive values as lo..hi
			j := i
			for j+1 < len(r) && r[j+1] == r[j]+1 {
				j++
			}
			if j > i+1 {
				fmt.Fprintf(&sb, "..%d", r[j])
				i = j
			}
		}
	}
	sb.WriteByte('}')
	return sb.String()
}

// span lists n consecutive model values starting at lo, wrapping at univ.
func span(lo, n, univ int) []int {
	out := make([]int, 0, n)
	for i := 0; i < n; i++ {
		out = append(out, (lo+i)%univ)
	}
	return out
}

// complOf lists the values of 0..univ-1 that xs does not hold (never nil).
func complOf(xs []int, univ int) []int {
	in := norm(xs)
	out := make([]int, 0, univ)
	for x := 0; x < univ; x++ {
		if !in.has(x) {
			out = append(out, x)
		}
	}
	return out
}

// show renders a real set for messages: nil, or its sorted elements (as
// model values).
func (r *setRun[T]) show(s mapset.Set[T]) string {
	if s == nil {
		return "nil"
	}
	var xs []int
	stray := 0
	for e := range s {
		if x, ok := r.d.val(e); ok {
			xs = append(xs, x)
		} else {
			stray++
		}
	}
	out := norm(xs).String()
	if stray > 0 {
		out += fmt.Sprintf(" plus %d members the harness never made", stray)
	}
	return out
}

type setRun[T comparable] struct {
	handles int
	c     Case
	d     *dom[T]
	vars  [NV]mapset.Set[T]
	ref   [NV]rset
	step  int
	sweep []int // scratch of hasSweep
	// untouched[i]: the operation just applied did not name variable i (see checkVar)
	untouched [NV]bool

	// measurements for NT and the class histogram
	binDiffNonEmpty, binEmpty, binNil, recvLarger, recvSmaller int
	nilRecvMut, selfOperand, popNonEmpty, popEmpty, probes     int
	ctor, emptyIntersectArgs, nanCleared                       int
	manyOperands, partition, wholeType                         int
	near, repeated                                             int
	nearCase                                                   bool // the history has a near operation
}

// universe is what the compl operation complements in: every value of the
// element type for the 1-byte kinds, the model values 0..hiElem otherwise.
func (r *setRun[T]) universe() int {
	if r.d.univ > 0 {
		return r.d.univ
	}
	return hiElem + 1
}

// fresh returns a member that none of the given reference sets holds, for
// writing into a map directly.  It is the probe element for the kinds with an
// open universe; for the 1-byte kinds it is searched (false: the sets cover
// the whole type between them).
func (r *setRun[T]) fresh(refs ...rset) (T, bool) {
	if r.d.univ == 0 {
		return r.d.of(probe), true
	}
next:
	for i := 0; i < r.d.univ; i++ {
		x := (probe + i) % r.d.univ
		for _, ref := range refs {
			if ref.has(x) {
				continue next
			}
		}
		return r.d.of(x), true
	}
	var zero T
	return zero, false
}

// hasSweep lists the model values whose membership is compared after every
// step (Slice and Len are compared in full anyway).
func (r *setRun[T]) hasSweep() []int {
	if r.d.univ == 0 {
		return sweepOpen
	}
	// the 1-byte kinds: both ends and the middle of the type, the probe, and a
	// window of 8 values that moves with the step
	if r.d.univ < 256 {
		// the zero-size kind: one value in all
		r.sweep = r.sweep[:0]
		for x := 0; x < r.d.univ; x++ {
			r.sweep = append(r.sweep, x)
		}
		return r.sweep
	}
	r.sweep = append(r.sweep[:0], sweepByte...)
	for i := 0; i < 8; i++ {
		r.sweep = append(r.sweep, ((r.step+1)*8+i)&255)
	}
	return r.sweep
}

// domain is the half-open range of model values the element kind can express.
func (r *setRun[T]) domain() (lo, hi int) {
	switch {
	case r.d.univ > 0:
		return 0, r.d.univ
	case r.c.Elem == "":
		return domLo, 1 << 13 // the ints are the members
	}
	return domLo, domHi
}

// freshVals lists up to k model values of the kind's domain that ref does not
// hold (and that are not the probe element), searching upwards from start and
// wrapping around.
func (r *setRun[T]) freshVals(start, k int, ref rset) []int {
	lo, hi := r.domain()
	w := hi - lo
	off := ((start-lo)%w + w) % w
	out := make([]int, 0, k)
	for i := 0; i < w && len(out) < k; i++ {
		x := lo + (off+i)%w
		if ref.has(x) || (r.d.univ == 0 && x == probe) {
			continue
		}
		out = append(out, x)
	}
	return out
}

// holds reports whether s holds exactly the members of want; it uses the
// built-in map operations only.
func (r *setRun[T]) holds(s mapset.Set[T], want rset) bool {
	if len(s) != len(want) {
		return false
	}
	for e := range s {
		if x, ok := r.d.val(e); !ok || !want.has(x) {
			return false
		}
	}
	return true
}

// callNo says which of the repeated calls a message is about.
func callNo(i, nrep int) string {
	if nrep == 0 {
		return ""
	}
	return fmt.Sprintf(" (call %d of %d with the same operands)", i+1, nrep+1)
}

// reps is the number of extra evaluations an operation asks for.
func reps(op Op) int { return min(max(op.R, 0), maxRep) }

// brief renders an item list for a message.
func brief(xs []int) string {
	if len(xs) <= 32 {
		return fmt.Sprint(xs)
	}
	return fmt.Sprintf("[%d items, as a set %v]", len(xs), norm(xs))
}

var sweepOpen, sweepByte = func() (a, b []int) {
	for x := -1; x <= hiElem; x++ {
		a = append(a, x)
	}
	for x := 0; x <= hiElem; x++ {
		b = append(b, x, 255-x)
	}
	return a, append(b, 126, 127, 128, 129, probe)
}()

func (r *setRun[T]) errf(format string, args ...any) string {
	where := "init"
	if r.step >= len(r.c.Ops) {
		where = "final check"
	} else if r.step >= 0 {
		where = fmt.Sprintf("op#%d %s", r.step, r.opString(r.c.Ops[r.step]))
	}
	msg := fmt.Sprintf("%s: %s", where, fmt.Sprintf(format, args...))
	if r.c.Elem != "" {
		// the first line stays self-contained; the second says what the ints stand for
		msg = fmt.Sprintf("elem=%s %s\n%s", r.c.Elem, msg, r.d.legend(r.c))
	}
	return msg
}

func (r *setRun[T]) opString(op Op) string {
	if op.R != 0 {
		return fmt.Sprintf("{k:%s d:%d s:%v a:%s b:%d r:%d}", op.K, op.D, op.S, brief(op.A), op.B, op.R)
	}
	return fmt.Sprintf("{k:%s d:%d s:%v a:%s b:%d}", op.K, op.D, op.S, brief(op.A), op.B)
}

// nonneg folds a drawn int onto the non-negative ones.
func nonneg(i int) int {
	if i < 0 {
		i = -(i + 1)
	}
	return i
}

func vi(i int) int {
	if i < 0 {
		i = -i
	}
	return i % NV
}

// mkSet builds a real set from an element list WITHOUT going through the
// package under test.
func (r *setRun[T]) mkSet(xs []int) mapset.Set[T] {
	if xs == nil {
		return nil
	}
	m := make(map[T]struct{}, len(xs))
	for _, x := range xs {
		m[r.d.of(x)] = struct{}{}
	}
	return mapset.Set[T](m)
}

// copyOf builds a copy of variable d (nil for nil) from its reference with
// the built-in map operations.
func (r *setRun[T]) copyOf(d int) mapset.Set[T] {
	if r.vars[d] == nil {
		return nil
	}
	m := make(mapset.Set[T], len(r.ref[d]))
	for _, x := range r.ref[d] {
		m[r.d.of(x)] = struct{}{}
	}
	return m
}

// checkVar compares one variable with its reference through the public API.
func (r *setRun[T]) checkVar(i int) string {
	s, want := r.vars[i], r.ref[i]
	if got := s.Len(); got != len(want) {
		return r.errf("var%d: Len = %d, reference %v has %d (set is %s)", i, got, want, len(want), r.show(s))
	}
	if got := s.IsEmpty(); got != (len(want) == 0) {
		return r.errf("var%d: IsEmpty = %v, reference is %v", i, got, want)
	}
	for _, x := range r.hasSweep() {
		if got := s.Has(r.d.of(x)); got != want.has(x) {
			return r.errf("var%d: Has(%d) = %v, reference is %v", i, x, got, want)
		}
	}
	if r.d.univ == 0 && s.Has(r.d.of(probe)) {
		return r.errf("var%d: holds the probe element %d that was never added to it", i, probe)
	}
	if (r.d.univ > 0 && len(want) > 64 || r.nearCase && len(want) > 16) && r.untouched[i] && (r.step+i)%4 != 0 {
		// 1-byte kinds, a large set that the step did not name (and any set of
		// more than 16 members in a history with near copies, which is long and
		// names two variables per step): Len, IsEmpty and the Has sweep every
		// step, the full listing every fourth step
		return ""
	}
	sl := s.Slice()
	if !r.onceEach(sl, want) {
		return r.errf("var%d: Slice = %s, want each member of %v exactly once", i, r.d.list(sl), want)
	}
	// Append: the prefix is preserved, then each member exactly once.
	x7, x8 := r.d.univ-7, r.d.univ-8 // (model values -7, -8; 249, 248 for the 1-byte kinds)
	if r.d.univ > 0 && r.d.univ < 8 {
		x7, x8 = 0, 0 // the zero-size kind has one value
	}
	p7, p8 := r.d.of(x7), r.d.of(x8)
	pre := make([]T, 2, 2+(r.step+1+i)%3*len(want)) // spare capacity 0, 1x or 2x Len
	pre[0], pre[1] = p7, p8
	ap := s.Append(pre)
	if len(ap) < 2 || ap[0] != p7 || ap[1] != p8 || pre[0] != p7 || pre[1] != p8 {
		return r.errf("var%d: Append([-7 -8]) = %s, prefix not preserved", i, r.d.list(ap))
	}
	if !r.onceEach(ap[2:], want) {
		return r.errf("var%d: Append([-7 -8]) = %s, want the prefix then each member of %v exactly once", i, r.d.list(ap), want)
	}
	return ""
}

// onceEach reports whether es holds each member of want exactly once and
// nothing else.
func (r *setRun[T]) onceEach(es []T, want rset) bool {
	if len(es) != len(want) {
		return false
	}
	if r.d.univ > 0 {
		// few possible values: tick them off instead of sorting
		var seen [256]bool
		for _, e := range es {
			x, _ := r.d.val(e)
			if seen[x] {
				return false
			}
			seen[x] = true
		}
		for _, x := range want {
			if !seen[x] {
				return false
			}
		}
		return true
	}
	got, stray := r.d.vals(es)
	sort.Ints(got)
	return stray == 0 && slices.Equal(got, []int(want))
}

func (r *setRun[T]) checkAll() string {
	for i := 0; i < NV; i++ {
		if r.d.univ > 0 && len(r.ref[i]) == r.d.univ {
			r.wholeType++
		}
		if msg := r.checkVar(i); msg != "" {
			return msg
		}
	}
	return ""
}

// probeAlias detects behaviourally whether variable d shares storage with
// any other variable: an element written directly into one map must not
// appear in any other, in both directions.  The writes use the built-in map
// operations (documented as allowed), not the code under test.
func (r *setRun[T]) probeAlias(d int, what string) string {
	r.probes++
	if r.d.univ > 0 {
		return r.probeAliasFull(d, what)
	}
	pe := r.d.of(probe) // the probe as a member
	if r.vars[d] != nil {
		r.vars[d][pe] = struct{}{}
		for j := 0; j < NV; j++ {
			if j == d {
				continue
			}
			if _, ok := r.vars[j][pe]; ok {
				delete(r.vars[d], pe)
				return r.errf("%s: result aliases var%d: adding %d to the result made it appear in var%d", what, j, probe, j)
			}
			if len(r.vars[j]) != len(r.ref[j]) {
				delete(r.vars[d], pe)
				return r.errf("%s: mutating the result changed the size of var%d", what, j)
			}
		}
		delete(r.vars[d], pe)
	}
	for j := 0; j < NV; j++ {
		if j == d || r.vars[j] == nil {
			continue
		}
		r.vars[j][pe] = struct{}{}
		_, ok := r.vars[d][pe]
		delete(r.vars[j], pe)
		if ok {
			return r.errf("%s: result aliases var%d: adding %d to var%d made it appear in the result", what, j, probe, j)
		}
	}
	return ""
}

// probeAliasFull is probeAlias for the kinds without an element outside the
// universe.  Two variables that share storage have the same contents, so only
// the variables whose reference equals that of d need probing (the others are
// told apart by the comparison with the references after the step): with an
// element neither holds if there is one, else (both hold every value of the
// type) by deleting one member from one map and looking for it in the other.
func (r *setRun[T]) probeAliasFull(d int, what string) string {
	if r.vars[d] == nil {
		return ""
	}
	for j := 0; j < NV; j++ {
		if j == d || r.vars[j] == nil || !r.ref[j].equal(r.ref[d]) {
			continue
		}
		a, b := r.vars[d], r.vars[j]
		if pe, ok := r.fresh(r.ref[d]); ok {
			a[pe] = struct{}{}
			_, seen := b[pe]
			delete(a, pe)
			if !seen {
				b[pe] = struct{}{}
				_, seen = a[pe]
				delete(b, pe)
			}
			if seen {
				return r.errf("%s: result aliases var%d: adding %s to one of them made it appear in the other", what, j, r.d.one(pe))
			}
		} else {
			pe := r.d.of(probe % r.d.univ)
			delete(a, pe)
			_, still := b[pe]
			a[pe] = struct{}{}
			if !still {
				return r.errf("%s: result aliases var%d: deleting %d from the result made it disappear from var%d", what, j, probe%r.d.univ, j)
			}
		}
	}
	return ""
}

// noteBinary records the operand-size relation of a binary operation.
func (r *setRun[T]) noteBinary(recv, arg rset, recvNil, argNil bool) {
	if len(recv) > 0 && len(arg) > 0 && len(recv)+len(arg) == r.universe() && len(recv.inter(arg)) == 0 {
		r.partition++ // the operands partition the universe (the whole element type for the 1-byte kinds)
	}
	switch {
	case len(recv) == 0 || len(arg) == 0:
		r.binEmpty++
		if recvNil || argNil {
			r.binNil++
		}
	case len(recv) != len(arg):
		r.binDiffNonEmpty++
		if len(recv) > len(arg) {
			r.recvLarger++
		} else {
			r.recvSmaller++
		}
	}
}

func (r *setRun[T]) srcs(op Op) []int {
	out := make([]int, len(op.S))
	for i, s := range op.S {
		out[i] = vi(s)
	}
	return out
}

func (r *setRun[T]) apply(op Op) string {
	d := vi(op.D)
	ss := r.srcs(op)
	s0 := d
	if len(ss) > 0 {
		s0 = ss[0]
	}
	la := op.A // the item list of the item-list operations
	if len(ss) > 0 {
		switch op.K {
		case "add", "remove", "hasall", "hasany", "new":
			src := r.ref[s0]
			la = make([]int, 0, len(src)+len(op.A))
			for i := range src {
				la = append(la, src[(i+nonneg(op.B))%len(src)])
			}
			la = append(la, op.A...)
		}
	}
	items := norm(la)
	nrep := reps(op)
	if nrep > 0 {
		r.repeated++
	}
	// argsAt: the item list as members, for call i of the repeated calls.  An
	// item list has the order the caller gives it, so a list that stands for
	// the members of a variable is rotated a little further on every call (the
	// odd item out visits positions spread over the whole list).
	var dbl []T
	argsAt := func(i int) []T {
		if dbl == nil {
			dbl = append(r.d.ofs(la), r.d.ofs(la)...)
		}
		n := len(la)
		if i == 0 || n == 0 || len(ss) == 0 {
			return dbl[:n:n]
		}
		k := i * ((n + nrep) / (nrep + 1)) % n
		return dbl[k : k+n : k+n]
	}
	switch op.K {
	case "add":
		if r.vars[d] == nil {
			r.nilRecvMut++
		}
		r.noteBinary(r.ref[d], items, r.vars[d] == nil, false)
		args, want := argsAt(0), r.ref[d].union(items)
		for i := 0; i < nrep; i++ {
			cp := r.copyOf(d)
			if ret := cp.Add(argsAt(i + 1)...); !r.holds(ret, want) || !r.holds(cp, want) {
				return r.errf("call %d of %d on a copy of the receiver %v: Add(%s) gave %s, want %v", i+1, nrep+1, r.ref[d], brief(la), r.show(ret), want)
			}
		}
		ret := r.vars[d].Add(args...)
		r.ref[d] = want
		if r.vars[d] == nil {
			return r.errf("Add(%s) left the receiver nil", brief(la))
		}
		if len(ret) != len(r.ref[d]) {
			return r.errf("Add(%s) returned a set of %d elements, receiver should now be %v", brief(la), len(ret), r.ref[d])
		}
	case "addall":
		if r.vars[d] == nil {
			r.nilRecvMut++
		}
		if d == s0 {
			r.selfOperand++
		}
		r.noteBinary(r.ref[d], r.ref[s0], r.vars[d] == nil, r.vars[s0] == nil)
		want := r.ref[d].union(r.ref[s0])
		for i := 0; i < nrep && d != s0; i++ {
			cp := r.copyOf(d)
			if ret := cp.AddAll(r.vars[s0]); !r.holds(ret, want) || (cp != nil && !r.holds(cp, want)) {
				return r.errf("call %d of %d on a copy of the receiver %v: AddAll(var%d=%v) gave %s, want %v", i+1, nrep+1, r.ref[d], s0, r.ref[s0], r.show(ret), want)
			}
		}
		ret := r.vars[d].AddAll(r.vars[s0])
		r.ref[d] = want
		if len(ret) != len(r.ref[d]) {
			return r.errf("AddAll(var%d=%v) returned a set of %d elements, receiver should now be %v", s0, r.ref[s0], len(ret), r.ref[d])
		}
		// "After any sequence of … AddAll …": a later mutation of the receiver
		// must not show through the argument, so the two may not share storage.
		if d != s0 {
			if msg := r.probeAlias(d, fmt.Sprintf("AddAll(var%d)", s0)); msg != "" {
				return msg
			}
		}
	case "remove":
		r.noteBinary(r.ref[d], items, r.vars[d] == nil, false)
		args, want := argsAt(0), r.ref[d].minus(items)
		for i := 0; i < nrep; i++ {
			cp := r.copyOf(d)
			if ret := cp.Remove(argsAt(i + 1)...); !r.holds(ret, want) || !r.holds(cp, want) {
				return r.errf("call %d of %d on a copy of the receiver %v: Remove(%s) gave %s, want %v", i+1, nrep+1, r.ref[d], brief(la), r.show(ret), want)
			}
		}
		ret := r.vars[d].Remove(args...)
		r.ref[d] = want
		if len(ret) != len(r.ref[d]) {
			return r.errf("Remove(%s) returned a set of %d elements, receiver should now be %v", brief(la), len(ret), r.ref[d])
		}
	case "removeall":
		if d == s0 {
			r.selfOperand++
		}
		r.noteBinary(r.ref[d], r.ref[s0], r.vars[d] == nil, r.vars[s0] == nil)
		want := r.ref[d].minus(r.ref[s0])
		for i := 0; i < nrep && d != s0; i++ {
			cp := r.copyOf(d)
			if ret := cp.RemoveAll(r.vars[s0]); !r.holds(ret, want) || !r.holds(cp, want) {
				return r.errf("call %d of %d on a copy of the receiver %v: RemoveAll(var%d=%v) gave %s, want %v", i+1, nrep+1, r.ref[d], s0, r.ref[s0], r.show(ret), want)
			}
		}
		ret := r.vars[d].RemoveAll(r.vars[s0])
		r.ref[d] = want
		if len(ret) != len(r.ref[d]) {
			return r.errf("RemoveAll(var%d=%v) returned a set of %d elements, receiver should now be %v", s0, r.ref[s0], len(ret), r.ref[d])
		}
	case "pop":
		before := r.ref[d]
		e := r.vars[d].Pop()
		x, made := r.d.val(e)
		if len(before) == 0 {
			r.popEmpty++
			var zero T
			if e != zero {
				return r.errf("Pop on an empty set returned %s, want the zero value", r.d.one(e))
			}
		} else {
			r.popNonEmpty++
			if !made || !before.has(x) {
				return r.errf("Pop returned %s, which was not a member of %v", r.d.one(e), before)
			}
			r.ref[d] = before.minus(rset{x})
		}
	case "clear":
		r.vars[d].Clear()
		r.ref[d] = nil
	case "nanclear":
		// Clear is documented to remove ALL elements, whatever they are.  For
		// Set[float64] the variable first receives 1..3 NaN members through the
		// built-in map operation (nothing is asked of the package while it
		// holds them: a map can neither look up nor delete a NaN key); for the
		// other kinds this is a plain Clear.
		nan := 0
		if r.d.nan != nil {
			if r.vars[d] == nil {
				r.vars[d] = make(mapset.Set[T])
			}
			nan = 1 + vi(op.B)%3
			for i := 0; i < nan; i++ {
				r.vars[d][r.d.nan()] = struct{}{}
			}
			r.nanCleared++
		}
		r.vars[d].Clear()
		if n := r.vars[d].Len(); n != 0 {
			return r.errf("Clear of a set holding %v and %d NaN members left Len = %d, want 0", r.ref[d], nan, n)
		}
		r.ref[d] = nil
	case "compl":
		// var d becomes the complement of var s0 in the universe (for the 1-byte
		// kinds: every value of the type that s0 does not hold, so that the two
		// partition the type).  Built with the built-in map operations, not by
		// the package.
		co := complOf(r.ref[s0], r.universe())
		r.vars[d], r.ref[d] = r.mkSet(co), norm(co)
	case "near":
		// var d becomes a NEAR copy of var s0 (never nil), built with the built-in
		// map operations, not by the package.  B%6 says how near: 0 the same
		// members; 1 one member swapped for a fresh value (same size, one
		// difference each way); 2 one member less; 3 one fresh member more;
		// 4 as many fresh members and none in common; 5 as many members and
		// exactly one in common.  A[0] picks the member concerned (position in
		// the reference, modulo its length), A[1] says where the search for fresh
		// values starts.  When the element kind runs out of fresh values the
		// result just has fewer members.
		src := r.ref[s0]
		pick, start := 0, 0
		if len(op.A) > 0 {
			pick = op.A[0]
		}
		if len(op.A) > 1 {
			start = op.A[1]
		}
		if len(src) > 0 {
			pick = (pick%len(src) + len(src)) % len(src)
		}
		out := make([]int, 0, len(src)+1)
		switch mode := nonneg(op.B) % 6; mode {
		case 0, 3:
			out = append(out, src...)
			if mode == 3 {
				out = append(out, r.freshVals(start, 1, src)...)
			}
		case 1, 2:
			for i, x := range src {
				if i != pick {
					out = append(out, x)
				}
			}
			if mode == 1 {
				out = append(out, r.freshVals(start, 1, src)...)
			}
		case 4:
			out = append(out, r.freshVals(start, len(src), src)...)
		case 5:
			if len(src) > 0 {
				out = append(out, src[pick])
				out = append(out, r.freshVals(start, len(src)-1, src)...)
			}
		}
		r.near++
		r.vars[d], r.ref[d] = r.mkSet(out), norm(out)
	case "setnil":
		r.vars[d] = nil
		r.ref[d] = nil
	case "clone":
		r.ctor++
		res := r.vars[s0].Clone()
		if res == nil {
			return r.errf("Clone of var%d=%s returned nil", s0, r.show(r.vars[s0]))
		}
		r.vars[d], r.ref[d] = res, append(rset(nil), r.ref[s0]...)
		if msg := r.probeAlias(d, fmt.Sprintf("Clone(var%d)", s0)); msg != "" {
			return msg
		}
	case "new":
		r.ctor++
		args := r.d.ofs(la)
		res := mapset.New(args...)
		if res == nil {
			return r.errf("New(%s) returned nil", brief(la))
		}
		if !slices.Equal(args, r.d.ofs(la)) {
			return r.errf("New(%s) modified its argument slice to %s", brief(la), r.d.list(args))
		}
		r.vars[d], r.ref[d] = res, items
		if msg := r.probeAlias(d, "New"); msg != "" {
			return msg
		}
	case "intersect":
		r.ctor++
		args := make([]mapset.Set[T], len(ss))
		var want rset
		for i, s := range ss {
			args[i] = r.vars[s]
			if i == 0 {
				want = append(rset(nil), r.ref[s]...)
			} else {
				r.noteBinary(r.ref[ss[0]], r.ref[s], r.vars[ss[0]] == nil, r.vars[s] == nil)
				want = want.inter(r.ref[s])
			}
		}
		for i := 0; i < nrep && len(ss) > 0; i++ {
			if res := mapset.Intersect(args...); res == nil || !r.holds(res, want) {
				return r.errf("call %d of %d: Intersect of the variables %v gave %s, want %v", i+1, nrep+1, ss, r.show(res), want)
			}
		}
		res := mapset.Intersect(args...)
		if res == nil {
			return r.errf("Intersect of %d sets returned nil", len(args))
		}
		if len(ss) == 0 {
			// no set-theoretic answer is claimed for an empty argument list;
			// only non-nil-ness is.  Adopt whatever came back.
			r.emptyIntersectArgs++
			var xs []int
			for e := range res {
				x, made := r.d.val(e)
				if !made {
					return r.errf("Intersect of no sets returned a set holding %s", r.d.one(e))
				}
				xs = append(xs, x)
			}
			want = norm(xs)
		}
		if len(ss) > 4 {
			r.manyOperands++
		}
		r.vars[d], r.ref[d] = res, want
		if msg := r.probeAlias(d, "Intersect"); msg != "" {
			return msg
		}
	case "keysv":
		// the argument map IS the set variable's own map (U = struct{})
		r.ctor++
		res := mapset.Keys(map[T]struct{}(r.vars[s0]))
		if res == nil {
			return r.errf("Keys(map of var%d) returned nil", s0)
		}
		r.vars[d], r.ref[d] = res, append(rset(nil), r.ref[s0]...)
		if msg := r.probeAlias(d, fmt.Sprintf("Keys(map of var%d)", s0)); msg != "" {
			return msg
		}
	case "keys", "values":
		r.ctor++
		// keys: A[i] -> i ; values: i -> A[i].  B==1 with empty A passes a nil map.
		var mk map[T]int // the argument of Keys
		var mv map[int]T // the argument of Values
		if !(len(op.A) == 0 && op.B == 1) {
			mk, mv = make(map[T]int), make(map[int]T)
		}
		lastK, lastV := map[T]int{}, map[int]T{} // expected content of the argument, built the same way (argument, not reference set)
		lastX := map[int]int{}                   // the same in model values, for the message
		for i, a := range op.A {
			if e := r.d.of(a); op.K == "keys" {
				mk[e], lastK[e], lastX[a] = i, i, i
			} else {
				mv[i], lastV[i], lastX[i] = e, e, a
			}
		}
		var res mapset.Set[T]
		var n int
		var isNil bool
		if op.K == "keys" {
			res, n, isNil = mapset.Keys(mk), len(mk), mk == nil
		} else {
			res, n, isNil = mapset.Values(mv), len(mv), mv == nil
		}
		if res == nil {
			return r.errf("%s(map of %d entries, nil=%v) returned nil", op.K, n, isNil)
		}
		r.vars[d], r.ref[d] = res, items
		if msg := r.probeAlias(d, op.K); msg != "" {
			return msg
		}
		pe, ok := r.fresh(items)
		if ok {
			res[pe] = struct{}{}
		}
		same := maps.Equal(mk, lastK) && maps.Equal(mv, lastV)
		if ok {
			delete(res, pe)
		}
		if !same {
			now := map[int]int{}
			for e, i := range mk {
				x, _ := r.d.val(e)
				now[x] = i
			}
			for i, e := range mv {
				now[i], _ = r.d.val(e)
			}
			return r.errf("%s: the argument map changed (now %v, was %v)", op.K, now, lastX)
		}
	case "range":
		r.ctor++
		args := r.d.ofs(op.A)
		seq := slices.Values(args)
		if op.B%2 == 1 {
			// a single-use sequence (package iter: "other sequences are single-use"),
			// like one backed by a channel or a scanner: a second pass yields nothing
			used := false
			seq = func(yield func(T) bool) {
				if used {
					return
				}
				used = true
				for _, v := range args {
					if !yield(v) {
						return
					}
				}
			}
		}
		res := mapset.Range(seq)
		if res == nil {
			return r.errf("Range over %v returned nil", op.A)
		}
		r.vars[d], r.ref[d] = res, items
		if msg := r.probeAlias(d, "Range"); msg != "" {
			return msg
		}
	case "rangev":
		r.ctor++
		res := mapset.Range(maps.Keys(r.vars[s0]))
		if res == nil {
			return r.errf("Range over the elements of var%d returned nil", s0)
		}
		r.vars[d], r.ref[d] = res, append(rset(nil), r.ref[s0]...)
		if msg := r.probeAlias(d, fmt.Sprintf("Range(elements of var%d)", s0)); msg != "" {
			return msg
		}
	case "intersects", "issubset", "equals":
		if d == s0 {
			r.selfOperand++
		}
		r.noteBinary(r.ref[d], r.ref[s0], r.vars[d] == nil, r.vars[s0] == nil)
		var want bool
		switch op.K {
		case "intersects":
			want = len(r.ref[d].inter(r.ref[s0])) > 0
		case "issubset":
			want = r.ref[d].subsetOf(r.ref[s0])
		case "equals":
			want = r.ref[d].equal(r.ref[s0])
		}
		for i := 0; i <= nrep; i++ {
			var got bool
			switch op.K {
			case "intersects":
				got = r.vars[d].Intersects(r.vars[s0])
			case "issubset":
				got = r.vars[d].IsSubset(r.vars[s0])
			case "equals":
				got = r.vars[d].Equals(r.vars[s0])
			}
			if got != want {
				return r.errf("%s.%s(%s) = %v, want %v%s", r.show(r.vars[d]), op.K, r.show(r.vars[s0]), got, want, callNo(i, nrep))
			}
		}
	case "hasall", "hasany":
		r.noteBinary(r.ref[d], items, r.vars[d] == nil, false)
		want := items.subsetOf(r.ref[d])
		if op.K == "hasany" {
			want = len(items.inter(r.ref[d])) > 0
		}
		for i := 0; i <= nrep; i++ {
			var got bool
			if op.K == "hasall" {
				got = r.vars[d].HasAll(argsAt(i)...)
			} else {
				got = r.vars[d].HasAny(argsAt(i)...)
			}
			if got != want {
				return r.errf("%s.%s(%s) = %v, want %v%s", r.show(r.vars[d]), op.K, r.d.list(argsAt(i)), got, want, callNo(i, nrep))
			}
		}
	case "check":
		// no operation: only the per-step comparison of every variable
	default:
		return r.errf("VK-INFRA unknown op kind %q", op.K)
	}
	return ""
}

// runSet is the interpreter shared by both legs; it instantiates the sets
// with the element type the case names.
func runSet(c Case, o *vk.Obs) string {
	switch c.Elem {
	case "":
		return runSetOf(c, o, plainDom())
	case elem.Int:
		return runSetOf(c, o, intDom())
	case elem.Str:
		return runSetOf(c, o, strDom())
	case elem.I16:
		return runSetOf(c, o, i16Dom())
	case elem.Wide:
		return runSetOf(c, o, wideDom())
	case elem.Ptr:
		elem.ResetPtr()
		return runSetOf(c, o, ptrDom())
	case elem.Any:
		elem.ResetPtr()
		return runSetOf(c, o, anyDom())
	case elem.F64:
		return runSetOf(c, o, f64Dom())
	case kindU8:
		return runSetOf(c, o, u8Dom())
	case kindI8:
		return runSetOf(c, o, i8Dom())
	case kindUnit:
		return runSetOf(c, o, unitDom())
	}
	return fmt.Sprintf("VK-INFRA unknown element kind %q", c.Elem)
}

func runSetOf[T comparable](c Case, o *vk.Obs, d *dom[T]) string {
	r := &setRun[T]{c: c, d: d, step: -1}
	for _, op := range c.Ops {
		r.nearCase = r.nearCase || op.K == "near"
	}
	for i := 0; i < NV && i < len(c.Init); i++ {
		r.vars[i] = r.mkSet(c.Init[i])
		r.ref[i] = norm(c.Init[i])
	}
	if msg := r.checkAll(); msg != "" {
		return msg
	}
	for i, op := range c.Ops {
		o.Step() // interleaved execution (vk.Interleave) switches to the other case here
		r.step = i
		// another handle of the destination set: a Set is a map, so a copy of a
		// non-nil Set value IS the same set, and what a mutator does to the
		// receiver has to show through it (a by-value helper that calls Add, the
		// value an earlier Clear returned)
		var handle mapset.Set[T]
		mut := op.K == "add" || op.K == "addall" || op.K == "remove" || op.K == "removeall" || op.K == "pop" || op.K == "clear"
		if mut {
			handle = r.vars[vi(op.D)]
		}
		if msg := r.apply(op); msg != "" {
			return msg
		}
		if cur := r.vars[vi(op.D)]; mut && handle != nil && cur != nil {
			same := len(handle) == len(cur)
			if same && c.Elem != elem.F64 {
				for e := range cur {
					if !handle.Has(e) {
						same = false
						break
					}
				}
			}
			if !same {
				return r.errf("%s on the non-nil var%d changed the receiver but not the set itself: another handle of the same set (a copy of the Set value taken before the call) now has %d members, the receiver %d (%v)", op.K, vi(op.D), len(handle), len(cur), r.ref[vi(op.D)])
			}
			r.handles++
		}
		r.untouched = [NV]bool{true, true, true, true}
		r.untouched[vi(op.D)] = false
		for _, s := range op.S {
			r.untouched[vi(s)] = false
		}
		if msg := r.checkAll(); msg != "" {
			return msg
		}
	}
	r.step = len(c.Ops)
	r.untouched = [NV]bool{}
	if msg := r.checkAll(); msg != "" {
		return msg
	}
	r.retain(o)
	single := len(c.Ops) <= 1
	if single {
		// one-operation case (exhaustive leg): DESIGN's rule as stated
		if r.binDiffNonEmpty > 0 || r.binEmpty > 0 {
			o.NonTrivial()
		}
	} else if r.binDiffNonEmpty > 0 && r.binEmpty > 0 {
		// history: both kinds of asymmetric binary operation occur
		o.NonTrivial()
	}
	o.ClassIf(r.binDiffNonEmpty > 0, "binary_op_sizes_differ")
	o.ClassIf(r.recvLarger > 0, "receiver_larger")
	o.ClassIf(r.recvSmaller > 0, "receiver_smaller")
	o.ClassIf(r.binEmpty > 0, "binary_op_empty_operand")
	o.ClassIf(r.binNil > 0, "binary_op_nil_operand")
	o.ClassIf(r.nilRecvMut > 0, "add_on_nil_receiver")
	o.ClassIf(r.selfOperand > 0, "self_operand")
	o.ClassIf(r.popNonEmpty > 0, "pop_nonempty")
	o.ClassIf(r.popEmpty > 0, "pop_empty")
	o.ClassIf(r.ctor > 0, "constructor_alias_probe")
	o.ClassIf(r.handles > 0, "mutation_seen_through_a_second_handle")
	o.ClassIf(r.nanCleared > 0, "clear_with_nan_members")
	o.ClassIf(r.manyOperands > 0, "intersect_5_to_12_operands")
	o.ClassIf(r.partition > 0, "binary_op_operands_partition_the_universe")
	o.ClassIf(r.wholeType > 0, "set_holds_every_value_of_its_type")
	o.ClassIf(r.near > 0, "near_copy_operand")
	o.ClassIf(r.repeated > 0, "operation_repeated_on_the_same_operands")
	o.Class("elem=" + kindName(c.Elem))
	for _, op := range c.Ops {
		o.Class("op:" + op.K) // number of cases containing the operation
	}
	return ""
}

// retain registers the re-validation of what the case still holds at its end:
// the results of Slice, Append and Keys for every variable, each with a copy
// taken at once, and the variables themselves with their references.  The kit
// runs it after the next case (vk.Obs.Retain): results the library handed out
// must not change under the caller.
func (r *setRun[T]) retain(o *vk.Obs) {
	if o == nil {
		return
	}
	type kept struct {
		sl, slCopy, ap, apCopy []T
		keys                   mapset.Set[T]
	}
	var ks [NV]kept
	var zero T
	for i, s := range r.vars {
		k := &ks[i]
		k.sl = s.Slice()
		k.ap = s.Append([]T{zero})
		k.slCopy, k.apCopy = slices.Clone(k.sl), slices.Clone(k.ap)
		k.keys = mapset.Keys(map[T]struct{}(s))
	}
	o.Retain(func() string {
		r.step = len(r.c.Ops)
		for i := range ks {
			k, want := &ks[i], r.ref[i]
			if !slices.Equal(k.sl, k.slCopy) {
				return r.errf("var%d: the slice returned by Slice was %s and is now %s", i, r.d.list(k.slCopy), r.d.list(k.sl))
			}
			if !slices.Equal(k.ap, k.apCopy) {
				return r.errf("var%d: the slice returned by Append([0]) was %s and is now %s", i, r.d.list(k.apCopy), r.d.list(k.ap))
			}
			for w, s := range []mapset.Set[T]{r.vars[i], k.keys} {
				var got []int
				stray := 0
				for e := range s { // the built-in iteration, not the package
					if x, ok := r.d.val(e); ok {
						got = append(got, x)
					} else {
						stray++
					}
				}
				sort.Ints(got)
				if stray > 0 || !slices.Equal(got, []int(want)) {
					what := []string{"the variable", "the result of Keys(map of the variable)"}[w]
					return r.errf("var%d: %s held %v at the end of the case and holds %s now", i, what, want, r.show(s))
				}
			}
		}
		return ""
	})
}
