package pmapset

import (
	"fmt"
	"math"
	"strconv"
	"strings"

	"verif/elem"
)

// ---------------------------------------------------------------------------
// Element kinds.  The interpreter keeps its reference sets and every argument
// in ints, exactly as it did when the sets were instantiated with int only; a
// dom turns a model value x into THE member that stands for x in this case
// (the same member every time it is asked) and turns members that come back
// from the library into model values again.  Distinct model values give
// members that are distinct for ==, so the set algebra of the model carries
// over to every kind.  Model value 0 is the zero value of T for every kind
// (0, "", the zero struct, the nil pointer, the nil interface): a legitimate
// member, and what Pop returns on an empty set.
//
// The other members are spread so that a shortcut which is right for some
// instantiations only has something to trip over:
//
//	int     ends of the int range (MaxInt-q, MinInt+q) besides small values
//	i16     the same at the ends of int16: a 2-byte element
//	string  20-byte texts, the same text with a suffix, short decimal texts
//	wide    96-byte structs, neighbours differing in the Tag or the last word only
//	ptr     *elem.Cell: members are identities; model values 3q, 3q+1, 3q+2
//	        point to DEEPLY EQUAL cells {V:q} and are different members
//	any     MIXED dynamic types in one Set[any]: int q, the text of q, a *Cell
//	        {V:q}, float64 q, a second *Cell {V:q-1} (all print alike under %v)
//	f64     1, 2, ... / halves / -Inf and huge negatives / denormals; NaN is
//	        never a model member (see the nanclear operation)
//	u8, i8  uint8 / int8: 1-byte elements.  The model values are 0..255 and
//	        stand for ALL values of the type (x is uint8(x), resp. the int8
//	        with the same bits), so a set can hold every value there is and
//	        a set and its complement partition the whole type

// domLo..domHi-1 are the model values a dom can decode.
const (
	domLo = -16
	domHi = 128
)

// dom is the bijection between model values and members of one case.
type dom[T comparable] struct {
	kind string
	of   func(x int) T         // the member that stands for x
	val  func(e T) (int, bool) // its inverse; false for a member the harness never made
	repr func(e T) string      // short rendering for the legend of a message
	nan  func() T              // f64 only: a NaN, which is never a model member
	// univ > 0: the model values 0..univ-1 are ALL the values of T (1-byte
	// kinds).  There is then no element "outside every universe": the
	// interpreter picks its probes per use (see setRun.fresh).
	univ int
	note string // replaces the per-value legend
}

// Kind names of the 1-byte instantiations (local to this package).
const (
	kindU8 = "u8"
	kindI8 = "i8"
)

// kindUnit is Set[struct{}]: a zero-size element type with ONE value, so a set
// has at most one member.  The only model value is 0.
const kindUnit = "unit"

func unitDom() *dom[struct{}] {
	return &dom[struct{}]{kind: "struct{}", univ: 1,
		of: func(x int) struct{} {
			if x != 0 {
				panic(fmt.Sprintf("harness error: kind %s: model value %d, the type has one value", kindUnit, x))
			}
			return struct{}{}
		},
		val:  func(struct{}) (int, bool) { return 0, true },
		repr: func(struct{}) string { return "{}" },
		note: "the sets are Set[struct{}]; the zero-size type has ONE value, written 0: a set is nil, empty or {0}",
	}
}

func isByteKind(k string) bool { return k == kindU8 || k == kindI8 }

func byteOf(kind string, x int) uint8 {
	if x < 0 || x > 255 {
		panic(fmt.Sprintf("harness error: kind %s: model value %d outside [0,255]", kind, x))
	}
	return uint8(x)
}

func u8Dom() *dom[uint8] {
	return &dom[uint8]{kind: "uint8", univ: 256,
		of:   func(x int) uint8 { return byteOf(kindU8, x) },
		val:  func(e uint8) (int, bool) { return int(e), true },
		repr: func(e uint8) string { return strconv.Itoa(int(e)) },
		note: "the sets are Set[uint8]; model value x (0..255) stands for uint8(x): every value of the type is a possible member",
	}
}

func i8Dom() *dom[int8] {
	return &dom[int8]{kind: "int8", univ: 256,
		of:   func(x int) int8 { return int8(byteOf(kindI8, x)) },
		val:  func(e int8) (int, bool) { return int(uint8(e)), true },
		repr: func(e int8) string { return strconv.Itoa(int(e)) },
		note: "the sets are Set[int8]; model value x (0..255) stands for the int8 with the same bits (x for x < 128, x-256 above): every value of the type is a possible member",
	}
}

func (d *dom[T]) ofs(xs []int) []T {
	out := make([]T, len(xs))
	for i, x := range xs {
		out[i] = d.of(x)
	}
	return out
}

// vals decodes a list that came back; stray counts the members the harness
// never made (they are left out of the result).
func (d *dom[T]) vals(es []T) (xs []int, stray int) {
	xs = make([]int, 0, len(es))
	for _, e := range es {
		if x, ok := d.val(e); ok {
			xs = append(xs, x)
		} else {
			stray++
		}
	}
	return xs, stray
}

// one renders a member as the model value it stands for.
func (d *dom[T]) one(e T) string {
	if x, ok := d.val(e); ok {
		return strconv.Itoa(x)
	}
	return "?(" + d.repr(e) + ")"
}

// list renders a list of members the way %v renders the ints they stand for.
func (d *dom[T]) list(es []T) string {
	var sb strings.Builder
	sb.WriteByte('[')
	for i, e := range es {
		if i > 0 {
			sb.WriteByte(' ')
		}
		sb.WriteString(d.one(e))
	}
	sb.WriteByte(']')
	return sb.String()
}

// legend spells out the members behind the model values a message can mention.
func (d *dom[T]) legend(c Case) string {
	if d.note != "" {
		return d.note
	}
	seen := map[int]bool{}
	var xs []int
	add := func(x int) {
		if x >= domLo && x < domHi && !seen[x] {
			seen[x] = true
			xs = append(xs, x)
		}
	}
	for x := -1; x <= hiElem; x++ {
		add(x)
	}
	for _, in := range c.Init {
		for _, x := range in {
			add(x)
		}
	}
	for _, op := range c.Ops {
		for _, x := range op.A {
			add(x)
		}
	}
	add(probe)
	var sb strings.Builder
	fmt.Fprintf(&sb, "the sets are Set[%s]; members are written as the model values they stand for:", d.kind)
	for i, x := range norm(xs) {
		if i == 24 {
			sb.WriteString(" ...")
			break
		}
		fmt.Fprintf(&sb, " %d=%s", x, d.repr(d.of(x)))
	}
	return sb.String()
}

// plainDom is the original instantiation: the ints are the members.
func plainDom() *dom[int] {
	return &dom[int]{kind: "int",
		of:   func(x int) int { return x },
		val:  func(e int) (int, bool) { return e, true },
		repr: strconv.Itoa,
	}
}

// tableDom memoizes mk: x -> member is fixed for the life of the dom (one
// case), which matters for the kinds whose mk allocates.  mk is asked for
// y >= 1 only: 0 is the zero value, negative x is folded to 1000-x.
func tableDom[T comparable](kind string, mk func(y int) T, repr func(T) string) *dom[T] {
	var zero T
	fwd := make([]T, domHi-domLo)
	made := make([]bool, domHi-domLo)
	back := map[T]int{} // decodes results only; the reference sets are sorted slices
	d := &dom[T]{kind: kind, repr: repr}
	d.of = func(x int) T {
		if x == 0 {
			return zero
		}
		if x < domLo || x >= domHi {
			panic(fmt.Sprintf("harness error: model value %d outside [%d,%d)", x, domLo, domHi))
		}
		if made[x-domLo] {
			return fwd[x-domLo]
		}
		y := x
		if x < 0 {
			y = 1000 - x
		}
		e := mk(y)
		if prev, dup := back[e]; dup || e == zero || e != e {
			panic(fmt.Sprintf("harness error: kind %s: model value %d gives a member that is not new (%d, zero=%v)", kind, x, prev, e == zero))
		}
		fwd[x-domLo], made[x-domLo], back[e] = e, true, x
		return e
	}
	d.val = func(e T) (int, bool) {
		if e == zero {
			return 0, true
		}
		x, ok := back[e]
		return x, ok
	}
	return d
}

func intDom() *dom[int] {
	return tableDom(elem.Int, func(y int) int {
		switch q := y / 3; y % 3 {
		case 1:
			return math.MaxInt - q
		case 2:
			return math.MinInt + q
		default:
			return q
		}
	}, strconv.Itoa)
}

func i16Dom() *dom[int16] {
	k := elem.I16Kit()
	return tableDom(elem.I16, func(y int) int16 {
		switch q := y / 3; y % 3 {
		case 1:
			return k.Make(math.MaxInt16-q, 0)
		case 2:
			return k.Make(math.MinInt16+q, 0)
		default:
			return k.Make(q, 0)
		}
	}, func(e int16) string { return strconv.Itoa(int(e)) })
}

func strDom() *dom[string] {
	return tableDom(elem.Str, func(y int) string {
		switch q := y / 3; y % 3 {
		case 1:
			return elem.EncodeStr(q, 0)
		case 2:
			return elem.EncodeStr(q, 1) // the same 20 bytes, then "#1"
		default:
			return strconv.Itoa(q)
		}
	}, strconv.Quote)
}

func wideDom() *dom[elem.WideElem] {
	k := elem.WideKit()
	return tableDom(elem.Wide, func(y int) elem.WideElem {
		switch q := y / 3; y % 3 {
		case 1:
			return k.Make(q, 0)
		case 2:
			return k.Make(q, 1) // differs from the previous one in Tag only
		default:
			e := k.Make(q-1, 0) // differs from the one before that in the last word only
			e.Pad1[3] = -int64(y)
			return e
		}
	}, func(e elem.WideElem) string {
		if e == (elem.WideElem{}) {
			return "wide{}"
		}
		return fmt.Sprintf("wide{Val:%d Tag:%d Pad1[3]:%d}", e.Val, e.Tag, e.Pad1[3])
	})
}

func reprCell(c *elem.Cell) string {
	if c == nil {
		return "(*Cell)(nil)"
	}
	return fmt.Sprintf("&Cell{%d}", c.V) // no address: messages stay the same from run to run
}

// ptrDom: every member is a pointer of its own; three neighbours share the
// contents of their pointees.
func ptrDom() *dom[*elem.Cell] {
	k := elem.PtrKit()
	return tableDom(elem.Ptr, func(y int) *elem.Cell { return k.Make(y/3, y) }, reprCell)
}

// anyDom: one Set[any] holds members of five dynamic types (and nil).
func anyDom() *dom[any] {
	k := elem.PtrKit()
	return tableDom(elem.Any, func(y int) any {
		switch q := y / 5; y % 5 {
		case 1:
			return q
		case 2:
			return strconv.Itoa(q)
		case 3:
			return k.Make(q, y)
		case 4:
			return float64(q)
		default:
			return k.Make(q-1, y) // deeply equal to the *Cell two steps back
		}
	}, func(e any) string {
		switch v := e.(type) {
		case nil:
			return "nil"
		case int:
			return fmt.Sprintf("int(%d)", v)
		case string:
			return strconv.Quote(v)
		case float64:
			return fmt.Sprintf("float64(%g)", v)
		case *elem.Cell:
			return reprCell(v)
		}
		return fmt.Sprintf("%T(%v)", e, e)
	})
}

func f64Dom() *dom[float64] {
	k := elem.F64Kit()
	d := tableDom(elem.F64, func(y int) float64 {
		switch q := y / 4; y % 4 {
		case 1:
			return k.Make(q+1, 0)
		case 2:
			return float64(q) + 0.5
		case 3:
			if q == 0 {
				return math.Inf(-1)
			}
			return -math.Ldexp(float64(q), 1000)
		default:
			return math.Ldexp(float64(q), -1074) // denormals
		}
	}, func(e float64) string { return strconv.FormatFloat(e, 'g', -1, 64) })
	d.nan = math.NaN
	return d
}

// elemKinds are the kinds the generators draw besides "" (= int, the ints of
// the case are the members).
var elemKinds = []string{elem.Int, elem.Str, elem.I16, elem.Wide, elem.Ptr, elem.Any, elem.F64, kindU8, kindI8}

// kindName is the label of the elem=<kind> class.
func kindName(e string) string {
	if e == "" {
		return "int(plain)"
	}
	return e
}
