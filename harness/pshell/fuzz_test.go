package pshell

import (
	"bytes"
	"testing"

	"verif/vk"
)

// Native fuzz targets (thorough tier only; not reproducible by seed).

func FuzzSplit(f *testing.F) {
	for _, s := range []string{"", "a b", "'a b' \"c\\\"d\" e\\ f", "a\\\nb", "\"\\$x\" '", "a\t\tb\n\nc \\", "\"a'b\"'c\"d'"} {
		f.Add([]byte(s))
	}
	f.Fuzz(func(t *testing.T, data []byte) {
		if len(data) > 64 {
			data = data[:64]
		}
		vk.FuzzCheck(t, "C16", "rand", SplitCase{In: toInts(string(data)), Frag: []int{int(uint(len(data))%5) + 1, 0, 2}, Src: len(data) % 7}, runSplit)
	})
}

func FuzzQuoteSplit(f *testing.F) {
	for _, s := range []string{"", "a\xfeb", "'\xfe''\xfe\\'", "a b\xfe*?\xfe$x`y`", "\xfe\xfe", "it's\xfe\"q\"\xfe\n"} {
		f.Add([]byte(s))
	}
	f.Fuzz(func(t *testing.T, data []byte) {
		if len(data) > 96 {
			data = data[:96]
		}
		var ss []string
		if len(data) > 0 {
			for _, p := range bytes.Split(data, []byte{0xfe}) {
				ss = append(ss, string(p))
			}
		}
		vk.FuzzCheck(t, "C15", "lists", mkQuoteCase(ss...), runQuote)
	})
}
