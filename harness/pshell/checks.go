package pshell

import (
	"bufio"
	"bytes"
	"fmt"
	"io"
	"strconv"
	"strings"
	"sync"
	"sync/atomic"

	"github.com/creachadair/mds/shell"
	"verif/vk"
)

// QuoteCase is a list of byte strings (hex-free JSON: Go strings may hold any
// bytes; they are stored as arrays of byte values to survive JSON).
type QuoteCase struct {
	// Pad > 0 prepends Pad filler bytes to the FIRST string, so that the joined
	// text crosses internal buffer boundaries (bufio window, buffer growth).
	Pad int     `json:"pad,omitempty"`
	SS  [][]int `json:"ss"`
	// Rep > 1 repeats the list Rep times (lists of dozens to hundreds of
	// elements); Pre > 0 first performs a Join of about Pre bytes (and checks
	// it) in the same goroutine, so that pooled buffers have held something
	// big before the case proper runs.
	Rep int `json:"rep,omitempty"`
	Pre int `json:"pre,omitempty"`
	// Raw, when non-nil, holds the bytes of an arbitrary string (typically an
	// INCOMPLETE input: an open quotation or a dangling backslash) that is
	// passed to Split in the same goroutine first: whatever state that call
	// leaves in pooled scanners must not reach the calls of the case proper.
	Raw []int `json:"raw,omitempty"`
}

func toInts(s string) []int {
	out := make([]int, len(s))
	for i := 0; i < len(s); i++ {
		out[i] = int(s[i])
	}
	return out
}
func fromInts(v []int) string {
	b := make([]byte, len(v))
	for i, x := range v {
		b[i] = byte(x)
	}
	return string(b)
}
func (c QuoteCase) strings() []string {
	out := make([]string, len(c.SS))
	for i, v := range c.SS {
		out[i] = fromInts(v)
	}
	if c.Pad > 0 && len(out) > 0 {
		out[0] = strings.ReplaceAll(padding(c.Pad), " ", "b") + out[0]
	}
	if c.Rep > 1 && len(out) > 0 {
		base := out
		for i := 1; i < c.Rep; i++ {
			out = append(out, base...)
		}
	}
	return out
}
func mkQuoteCase(ss ...string) QuoteCase {
	c := QuoteCase{SS: make([][]int, len(ss))}
	for i, s := range ss {
		c.SS[i] = toInts(s)
	}
	return c
}

// ntQuote is the C15 non-triviality rule for one string.
func ntQuote(s string) bool {
	if s == "" {
		return true
	}
	for i := 0; i < len(s); i++ {
		if s[i] >= 0x80 {
			return true
		}
		if s[i] == '\'' {
			if i > 0 && strings.IndexByte(mustNotBeBare, s[i-1]) >= 0 && s[i-1] != '\'' {
				return true
			}
			if i+1 < len(s) && strings.IndexByte(mustNotBeBare, s[i+1]) >= 0 && s[i+1] != '\'' {
				return true
			}
		}
	}
	return false
}

// keeper remembers strings the package returned, each with a private copy
// taken at once (strings.Clone).  Go strings are immutable: a result that was
// right when it was returned must read the same after any number of later
// calls.  A result handed out over memory the package goes on using (a pooled
// buffer) passes every immediate comparison and changes only later.
type keeper struct {
	what []string // what the string is, e.g. "Quote(s)"
	idx  []int    // element / field index, -1 if none
	got  []string // the string as the package returned it
	cp   []string // strings.Clone(got), taken before any other call
}

func (k *keeper) add(what string, idx int, got string) {
	k.what, k.idx, k.got, k.cp = append(k.what, what), append(k.idx, idx), append(k.got, got), append(k.cp, strings.Clone(got))
}

func abbrev(s string) string {
	if len(s) > 96 {
		return fmt.Sprintf("%q…(%d bytes)…%q", s[:40], len(s), s[len(s)-24:])
	}
	return fmt.Sprintf("%q", s)
}

// check compares every kept string with its copy.
func (k *keeper) check() string {
	for i, g := range k.got {
		if g != k.cp[i] {
			what := k.what[i]
			if k.idx[i] >= 0 {
				what = fmt.Sprintf("%s [%d]", what, k.idx[i])
			}
			return fmt.Sprintf("the string returned as %s was %s when it was returned (and verified) and reads %s after later Quote/Join/Split calls: a returned string changed its content", what, abbrev(k.cp[i]), abbrev(g))
		}
	}
	return ""
}

// disturb makes a few calls that differ from everything a case does on its
// own behalf (other sizes, other bytes), so that memory the package recycles
// gets overwritten with something else.
func disturb() {
	shell.Quote("$HOME is 'here'")
	shell.Join([]string{"$HOME", "y z", "", "it's"})
	shell.Split(otherInput)
}

// Ownership of results.  A []string returned by Split or Scanner.Split belongs
// to the caller: sorting it, overwriting its elements or appending to r[:0] is
// ordinary use.  The equations of C15 / C16 hold for EVERY call, so the next
// call with the identical argument must again return the right fields, and a
// slice handed out earlier must not be written to by the package afterwards.

// repeatFully is the input size up to which the whole scribble-and-repeat
// programme runs; beyond it only the immediate repetition of the main Split
// call is made (every size gets that one).
const repeatFully = 4096

const (
	markA = "\x00<element overwritten by the caller>"
	markB = "<appended to r[:0] by the caller>"
)

// scribble overwrites every element of r over its whole capacity and then
// appends one element to r[:0].
func scribble(r []string) {
	full := r[:cap(r)]
	for i := range full {
		full[i] = markA
	}
	_ = append(r[:0], markB)
}

// scribbled reports whether r still holds what scribble put there.
func scribbled(r []string) bool {
	full := r[:cap(r)]
	for i, s := range full {
		if (i == 0 && s != markB) || (i > 0 && s != markA) {
			return false
		}
	}
	return true
}

func showFields(fs []string) string {
	n := 0
	for _, f := range fs {
		n += len(f)
	}
	if len(fs) > 16 || n > 600 {
		return fmt.Sprintf("%d fields ending in %q", len(fs), tailOf(fs))
	}
	return fmt.Sprintf("%q", fs)
}

// sibling returns a string of the same length as in that differs from it in
// one byte (first, middle or last, depending on the length); "x" for "".
func sibling(in string) string {
	if in == "" {
		return "x"
	}
	b := []byte(in)
	i := [3]int{0, len(b) / 2, len(b) - 1}[len(b)%3]
	if b[i] == 'z' {
		b[i] = 'y'
	} else {
		b[i] = 'z'
	}
	return string(b)
}

// splitRepeat is the "scribble and repeat" step for package Split.  r is what
// Split(in) has just returned; it was validated against want, wantOK (which
// must not share memory with r).  The caller's slice is overwritten, Split is
// called again with the identical argument - at once, and once more (with an
// equal string at another address) after other has made a call with a
// different argument - and each result is validated from scratch.  other
// returns a message if its own call went wrong; with other == nil (inputs of
// many kilobytes, to bound the cost) only the immediate repetition is made.
func splitRepeat(what, in string, r, want []string, wantOK bool, other func() string) string {
	prev := r
	for round := 0; round < 2 && (round == 0 || other != nil); round++ {
		scribble(prev)
		arg, when := in, "immediately"
		if round == 1 {
			if m := other(); m != "" {
				return m
			}
			arg, when = strings.Clone(in), "after one call with a different argument"
		}
		got, ok := shell.Split(arg)
		if ok != wantOK || !sameFields(got, want) {
			return fmt.Sprintf("%s = Split(%s) was right on the first call; the caller then overwrote the elements of the slice it had been given (a result belongs to the caller) and called Split with the identical argument again (call #%d, %s): it returns %s, %v; want %s, %v",
				what, abbrev(in), round+2, when, showFields(got), ok, showFields(want), wantOK)
		}
		if !scribbled(prev) {
			return fmt.Sprintf("%s = Split(%s): a later Split call (call #%d) wrote into the slice an earlier call had returned to the caller (the caller had overwritten its elements; they now read %s)", what, abbrev(in), round+2, showFields(prev[:cap(prev)]))
		}
		prev = got
	}
	scribble(prev)
	return ""
}

// checkQuoteKeep is O1 + O2 for a single string; the strings obtained go into keep.
func checkQuoteKeep(s string, keep *keeper, idx int) string {
	q := shell.Quote(s)
	if keep != nil {
		keep.add("Quote(element)", idx, q)
	}
	fs, ok := shell.Split(q)
	if keep != nil {
		for _, f := range fs {
			keep.add("the field of Split(Quote(element))", idx, f)
		}
	}
	if !ok || len(fs) != 1 || fs[0] != s {
		return fmt.Sprintf("Split(Quote(%q)) = %q, %v; want [%q], true (Quote gives %q)", s, fs, ok, s, q)
	}
	if len(q) <= repeatFully && (idx < 16 || idx%8 == 0) {
		// (longer elements, and most elements of lists of hundreds: the
		// repetition is made on the joined list, see runQuote)
		if m := splitRepeat("Split(Quote(s))", q, fs, []string{s}, true, func() string {
			sib := sibling(s)
			if fs, ok := shell.Split(shell.Quote(sib)); !ok || len(fs) != 1 || fs[0] != sib {
				return fmt.Sprintf("Split(Quote(%q)) = %q, %v; want [%q], true (called right after Split(Quote(%q)))", sib, fs, ok, sib, s)
			}
			return ""
		}); m != "" {
			return m
		}
	}
	un, bare, wellFormed := unquoteWord(q)
	if !wellFormed {
		return fmt.Sprintf("Quote(%q) = %q is not a well-formed shell word (unbalanced quote or dangling backslash)", s, q)
	}
	if bare != "" {
		return fmt.Sprintf("Quote(%q) = %q leaves the special character %s unquoted", s, q, bare)
	}
	if un != s {
		return fmt.Sprintf("Quote(%q) = %q means %q to a POSIX shell after quote removal", s, q, un)
	}
	return ""
}

// joinArgument is the mirror image of splitRepeat for the ARGUMENT of Join:
// the slice passed to Join is the caller's too.  Join is called on a copy of
// ss (equal list, other slice: equal result), the copy is then overwritten in
// place and joined again (same slice, other contents: the result must be the
// join of the NEW contents), then restored and joined once more.
func joinArgument(ss []string, j string, keep *keeper) string {
	arg := append(make([]string, 0, len(ss)), ss...)
	if jA := shell.Join(arg); jA != j {
		return fmt.Sprintf("Join(%q) = %q, but Join of an equal list held in another slice = %q", ss, j, jA)
	} else if keep != nil {
		keep.add("Join(copy of the list)", -1, jA)
	}
	for i := range arg {
		arg[i] = "it's $" + strconv.Itoa(i)
		if i%3 == 1 {
			arg[i] = ""
		}
	}
	jB := shell.Join(arg)
	if fs, ok := shell.Split(jB); !ok || !sameFields(fs, arg) {
		return fmt.Sprintf("the caller overwrote the elements of a slice it had passed to Join before (it held %q) with %q and joined it again: Join gives %q, and Split of that %q, %v; want the new elements and true", ss, arg, jB, fs, ok)
	}
	if keep != nil {
		keep.add("Join(overwritten list)", -1, jB)
	}
	copy(arg, ss)
	if jC := shell.Join(arg); jC != j {
		return fmt.Sprintf("Join(%q) = %q at first and %q after the same slice had meanwhile held (and been joined with) other elements", ss, j, jC)
	}
	if len(ss) == 0 {
		if fs, ok := shell.Split(shell.Join(nil)); !ok || len(fs) != 0 {
			return fmt.Sprintf("Split(Join(nil)) = %q, %v; want no fields and true", fs, ok)
		}
	}
	return ""
}

func runQuote(c QuoteCase, o *vk.Obs) string {
	if c.Raw != nil {
		raw := fromInts(c.Raw)
		ref := refSplit(raw)
		for rep := 0; rep < 2; rep++ { // twice: the second call meets the first one's leftovers
			fs, ok := shell.Split(raw)
			if ok != ref.Complete || !sameFields(fs, ref.Fields) {
				return fmt.Sprintf("Split(%q) = %s, %v (call %d of 2); the quoting rules give %s, %v", raw, showFields(fs), ok, rep+1, showFields(ref.Fields), ref.Complete)
			}
		}
		o.ClassIf(!ref.Complete, "after_a_Split_of_an_incomplete_input")
	}
	if c.Pre > 0 {
		// a big call first: its own round trip must hold, and it must not
		// disturb the calls that follow (pooled buffers)
		var big []string
		for n := 0; n < c.Pre; n += 40 {
			big = append(big, "it's a 'big' list $x *", "plain", "")
		}
		j := shell.Join(big)
		fs, ok := shell.Split(j)
		if !ok || !sameFields(fs, big) {
			return fmt.Sprintf("Split(Join(list of %d strings, %d bytes joined)) does not return the list (ok=%v, %d fields)", len(big), len(j), ok, len(fs))
		}
		scribble(fs)
		if c.Pre >= 70000 {
			// (the repetition at this size with the smallest Pre only)
		} else if fs2, ok := shell.Split(j); !ok || !sameFields(fs2, big) || !scribbled(fs) {
			return fmt.Sprintf("Split(Join(list of %d strings, %d bytes joined)) returned the list; after the caller overwrote the elements of that result, the identical call does not (ok=%v, %s)", len(big), len(j), ok, showFields(fs2))
		}
		if q := shell.Quote(j); len(q) < len(j) {
			return fmt.Sprintf("Quote of a %d-byte string returned %d bytes", len(j), len(q))
		}
	}
	ss := c.strings()
	keep := &keeper{}
	o.Step()
	j := shell.Join(ss)
	keep.add("Join(list)", -1, j)
	o.Step()
	fs, ok := shell.Split(j)
	for i, f := range fs {
		keep.add("field of Split(Join(list))", i, f)
	}
	o.Step()
	if !ok || !sameFields(fs, ss) {
		return fmt.Sprintf("Split(Join(%q)) = %q, %v; want the same list and true (Join gives %q)", ss, fs, ok, j)
	}
	other := func() string {
		more := append(append(make([]string, 0, len(ss)+1), ss...), "x y")
		if fs, ok := shell.Split(shell.Join(more)); !ok || !sameFields(fs, more) {
			return fmt.Sprintf("Split(Join(%q)) = %q, %v; want the same list and true", more, fs, ok)
		}
		return ""
	}
	if len(j) > repeatFully {
		other = nil
	}
	if m := splitRepeat("Split(Join(list))", j, fs, ss, true, other); m != "" {
		return m
	}
	if len(j) <= repeatFully {
		if m := joinArgument(ss, j, keep); m != "" {
			return m
		}
	}
	want := make([]string, len(ss))
	nt := len(ss) == 0
	for i, s := range ss {
		if m := checkQuoteKeep(s, keep, i); m != "" {
			return m
		}
		want[i] = shell.Quote(s)
		keep.add("Quote(element), second call", i, want[i])
		nt = nt || ntQuote(s)
	}
	if j != strings.Join(want, " ") {
		return fmt.Sprintf("Join(%q) = %q is not the quoted elements separated by single spaces %q", ss, j, strings.Join(want, " "))
	}
	// every string obtained above was right when it was returned; it must still
	// be after other calls - now, and after the next case has run (Retain)
	o.Step()
	disturb()
	if m := keep.check(); m != "" {
		return m
	}
	o.Retain(keep.check)
	if nt {
		o.NonTrivial()
	}
	big, run, maxRun := false, 1, 1
	for i, s := range ss {
		big = big || len(s) >= 4096
		if i > 0 && s == ss[i-1] && len(s) >= 16 {
			if run++; run > maxRun {
				maxRun = run
			}
		} else {
			run = 1
		}
	}
	o.ClassIf(big, "kept_Quote_result>=4096_rechecked_after_other_calls")
	o.ClassIf(maxRun >= 3, "run_of>=3_adjacent_equal_elements(>=16_bytes)")
	o.ClassIf(len(ss) == 0, "empty_list")
	o.ClassIf(len(ss) >= 2, "list>=2")
	o.ClassIf(c.Pad > 0, "long_string(crosses 4096)")
	o.ClassIf(len(ss) >= 65, "list>=65")
	o.ClassIf(c.Pre > 0, "after_a_big_call(>64KiB)")
	for _, s := range ss {
		if s == "" {
			o.Class("has_empty_string")
		}
		if strings.IndexByte(s, 0) >= 0 {
			o.Class("has_NUL")
		}
	}
	return ""
}

// ShellCase: one word evaluated by a real shell (replay form of leg shells).
type ShellCase struct {
	S     []int  `json:"s"`
	Shell string `json:"shell"`
}

func runShellCase(c ShellCase, o *vk.Obs) string {
	s := fromInts(c.S)
	dir, cleanup, err := tempShellDir()
	if err != nil {
		return "VK-INFRA " + err.Error()
	}
	defer cleanup()
	for _, sh := range availableShells() {
		if sh.name != c.Shell {
			continue
		}
		bad, got, err := shellCheck(sh, dir, []string{shell.Quote(s)}, [][]string{{s}})
		if err != nil {
			return "VK-INFRA " + err.Error()
		}
		if bad >= 0 {
			return fmt.Sprintf("%s evaluating `set -- %s` (Quote(%q)) obtains %q, want the single word %q", sh.name, shell.Quote(s), s, got, s)
		}
	}
	return ""
}

// ---------------------------------------------------------------------------
// C16

// SplitCase is one input for Split / Scanner, with a fragmentation plan.
type SplitCase struct {
	// Pad > 0 prepends Pad filler bytes ('a' with a blank every 61 bytes) so
	// that In lands on an internal buffer boundary (bufio's 4096-byte window).
	Pad int `json:"pad,omitempty"`
	// PadKind: 0 = words separated by blanks, 1 = one single-quoted run,
	// 2 = one double-quoted run, 3 = one long unquoted word (all followed by a blank).
	PadKind int `json:"padKind,omitempty"`
	// Fields > 0 prepends that many one-letter fields ("x y z ...").
	Fields int   `json:"fields,omitempty"`
	In     []int `json:"in"`
	Frag   []int `json:"frag,omitempty"` // fragment lengths for the chunked reader (cyclic); empty = one byte at a time
	// Src is the kind of io.Reader handed to NewScanner / Reset for the case's
	// own fragment plan: 0 the chunked reader itself, 1 *strings.Reader, 2
	// *bytes.Buffer, 3 bufio.NewReader(chunked) (4096 bytes: NewScanner adopts
	// it as its own buffer), 4 bufio.NewReaderSize(chunked, 65536), 5
	// bufio.NewReaderSize(chunked, 16), 6 the chunked reader behind io.LimitReader.
	Src int `json:"src,omitempty"`
}

// srcReader wraps base (the chunked reader over in) as source kind src.
func srcReader(src int, in string, base io.Reader) io.Reader {
	switch src % 7 {
	case 1:
		return strings.NewReader(in)
	case 2:
		return bytes.NewBufferString(in)
	case 3:
		return bufio.NewReader(base)
	case 4:
		return bufio.NewReaderSize(base, 65536)
	case 5:
		return bufio.NewReaderSize(base, 16)
	case 6:
		return io.LimitReader(base, int64(len(in))+10)
	}
	return base
}

// fragReader delivers its data in the prescribed fragments; zero-length
// fragments yield (0, nil) once, and the last fragment may come with io.EOF.
type fragReader struct {
	data    []byte
	frag    []int
	i       int
	eofWith bool // deliver io.EOF together with the last bytes
}

func (f *fragReader) Read(p []byte) (int, error) {
	if len(f.data) == 0 {
		return 0, io.EOF
	}
	n := 1
	if len(f.frag) > 0 {
		n = f.frag[f.i%len(f.frag)]
		f.i++
	}
	if n == 0 {
		return 0, nil
	}
	if n > len(f.data) {
		n = len(f.data)
	}
	if n > len(p) {
		n = len(p)
	}
	copy(p, f.data[:n])
	f.data = f.data[n:]
	if len(f.data) == 0 && f.eofWith {
		return n, io.EOF
	}
	return n, nil
}

func checkSplit(in string) (refResult, string) {
	ref := refSplit(in)
	fs, ok := shell.Split(in)
	if !sameFields(fs, ref.Fields) || ok != ref.Complete {
		return ref, fmt.Sprintf("Split(%q) = %q, %v; the reference tokenizer gives %q, %v", in, fs, ok, ref.Fields, ref.Complete)
	}
	other := func() string {
		sib := sibling(in)
		sref := refSplit(sib)
		if fs, ok := shell.Split(sib); !sameFields(fs, sref.Fields) || ok != sref.Complete {
			return fmt.Sprintf("Split(%q) = %q, %v; the reference tokenizer gives %q, %v (called right after Split(%q))", sib, fs, ok, sref.Fields, sref.Complete, in)
		}
		return ""
	}
	if len(in) > repeatFully/2 {
		other = nil
	}
	return ref, splitRepeat("the result", in, fs, ref.Fields, ref.Complete, other)
}

// checkScanner is O3 for one input and one fragmentation.
func checkScanner(in string, ref refResult, frag []int, eofWith bool, reuse *shell.Scanner, src int) string {
	// the reused-scanner variant of scribble-and-repeat: on short inputs with
	// every plan, on long (padded) ones with the whole-input plans only
	scanRepeat := len(in) <= 512 || (len(frag) == 1 && frag[0] >= 64)
	mk := func() io.Reader {
		return srcReader(src, in, &fragReader{data: []byte(in), frag: frag, eofWith: eofWith})
	}
	desc := fmt.Sprintf("input %q fragments %v eofWithData=%v", in, frag, eofWith)
	if src%7 != 0 {
		desc += fmt.Sprintf(" source kind %d (1 strings.Reader, 2 bytes.Buffer, 3 bufio.Reader, 4 bufio 64K, 5 bufio 16, 6 LimitReader)", src%7)
	}
	// Next/Text/Complete
	grow := &fragReader{data: []byte(in), frag: frag, eofWith: eofWith}
	sc := shell.NewScanner(srcReader(src, in, grow))
	var got []string
	for sc.Next() {
		got = append(got, sc.Text())
		if len(got) > len(in)+2 {
			return fmt.Sprintf("%s: Next keeps returning tokens (%d so far)", desc, len(got))
		}
	}
	if !sameFields(got, ref.Fields) {
		return fmt.Sprintf("%s: Next/Text yield %q, reference %q", desc, got, ref.Fields)
	}
	if sc.Complete() != ref.Complete {
		return fmt.Sprintf("%s: Complete() = %v after the last token, reference %v", desc, sc.Complete(), ref.Complete)
	}
	for k := 0; k < 3; k++ {
		if k == 1 {
			// a source that yields more bytes after it has reported io.EOF (a
			// buffer written to later, a file that grows): the scanner has
			// stopped and must stay stopped
			grow.data, grow.i = []byte("late 'tokens' x "), 0
		}
		if sc.Next() {
			return fmt.Sprintf("%s: Next returned true again after the end of input (token %q; from its second try on the source had more bytes to give after its io.EOF)", desc, sc.Text())
		}
	}
	// Each
	sc = shell.NewScanner(mk())
	got = nil
	sc.Each(func(tok string) bool { got = append(got, tok); return true })
	if !sameFields(got, ref.Fields) {
		return fmt.Sprintf("%s: Each yields %q, reference %q", desc, got, ref.Fields)
	}
	if len(ref.Fields) > 1 { // stoppable
		sc = shell.NewScanner(mk())
		calls := 0
		sc.Each(func(string) bool { calls++; return false })
		if calls != 1 {
			return fmt.Sprintf("%s: Each made %d callbacks after the callback returned false", desc, calls)
		}
	}
	// Scanner.Split
	sc = shell.NewScanner(mk())
	got = sc.Split()
	if !sameFields(got, ref.Fields) {
		return fmt.Sprintf("%s: Scanner.Split yields %q, reference %q", desc, got, ref.Fields)
	}
	// "the remaining tokens": none are left now
	if more := sc.Split(); len(more) != 0 {
		return fmt.Sprintf("%s: a second Scanner.Split on the same, exhausted scanner returns %q, want no tokens", desc, more)
	}
	// the slice is the caller's: overwrite it and split the same input again
	scribble(got)
	sc = shell.NewScanner(mk())
	if got2 := sc.Split(); !sameFields(got2, ref.Fields) || !scribbled(got) {
		return fmt.Sprintf("%s: after the caller overwrote the elements of the slice Scanner.Split had returned, Scanner.Split of a new scanner over the same input yields %q, reference %q (the overwritten slice now reads %q)", desc, got2, ref.Fields, got[:cap(got)])
	}
	if reuse != nil && scanRepeat {
		reuse.Reset(mk())
		g1 := reuse.Split()
		if !sameFields(g1, ref.Fields) {
			return fmt.Sprintf("%s: Scanner.Split of a reused scanner (after Reset) yields %q, reference %q", desc, g1, ref.Fields)
		}
		scribble(g1)
		reuse.Reset(mk())
		if g2 := reuse.Split(); !sameFields(g2, ref.Fields) || !scribbled(g1) {
			return fmt.Sprintf("%s: after the caller overwrote the elements of the slice Scanner.Split had returned, the same scanner (Reset to the same input) yields %q, reference %q (the overwritten slice now reads %q)", desc, g2, ref.Fields, g1[:cap(g1)])
		} else {
			scribble(g2)
		}
	}
	// Rest after j tokens
	for j := 0; j <= len(ref.Fields)+1; j++ {
		if len(ref.Fields) > 24 && j > 2 && j < len(ref.Fields)-8 {
			continue // long padded inputs: the first tokens and the last ones (around the boundary)
		}
		sc = shell.NewScanner(mk())
		if reuse != nil && j%3 == 2 {
			// the same programme on a scanner that is reused through Reset
			// (it has scanned other input before)
			reuse.Reset(mk())
			sc = reuse
		}
		ok := true
		for t := 0; t < j; t++ {
			ok = sc.Next()
		}
		want := in
		switch {
		case j == 0:
		case j <= len(ref.Fields):
			want = in[ref.Ends[j-1]:]
			if !ok {
				return fmt.Sprintf("%s: Next #%d returned false, reference has %d tokens", desc, j, len(ref.Fields))
			}
		default:
			want = ""
			if ok {
				return fmt.Sprintf("%s: Next #%d returned true, reference has %d tokens", desc, j, len(ref.Fields))
			}
		}
		rd := sc.Rest()
		if j%2 == 1 && sc.Next() { // "after calling Rest, Next will always return false" - also before the rest is read
			return fmt.Sprintf("%s: Next returned true (token %q) right after Rest() was called after %d tokens", desc, sc.Text(), j)
		}
		rest, err := io.ReadAll(rd)
		if err != nil {
			return fmt.Sprintf("%s: reading Rest() after %d tokens: %v", desc, j, err)
		}
		if string(rest) != want {
			return fmt.Sprintf("%s: Rest() after %d tokens = %q, want the unconsumed bytes %q", desc, j, rest, want)
		}
		if sc.Next() {
			return fmt.Sprintf("%s: Next returned true after Rest()", desc)
		}
	}
	// Reset and reuse: the same scanner must behave as a fresh one
	if reuse != nil {
		reuse.Reset(mk())
		if rest, err := io.ReadAll(reuse.Rest()); err != nil || string(rest) != in {
			return fmt.Sprintf("%s: Rest() right after Reset on a reused scanner = %q (err %v), want the whole input", desc, rest, err)
		}
		reuse.Reset(mk())
		var got []string
		for reuse.Next() {
			got = append(got, reuse.Text())
			if len(got) > len(in)+2 {
				break
			}
		}
		if !sameFields(got, ref.Fields) || reuse.Complete() != ref.Complete {
			return fmt.Sprintf("%s: a reused scanner (after Reset) yields %q complete=%v, reference %q complete=%v", desc, got, reuse.Complete(), ref.Fields, ref.Complete)
		}
	}
	return ""
}

func ntSplit(ref refResult) bool { return len(ref.Modes) >= 3 && ref.OddEnd }

var fragPlans = [][]int{nil, {2, 0, 1}, {3}, {1, 5, 0, 2}, {4096}}

func padding(n int) string {
	b := make([]byte, n)
	for i := range b {
		b[i] = 'a'
		if i%61 == 60 {
			b[i] = ' '
		}
	}
	return string(b)
}

func (c SplitCase) input() string {
	var sb strings.Builder
	for i := 0; i < c.Fields; i++ {
		sb.WriteByte(byte('a' + i%26))
		sb.WriteByte(' ')
	}
	if c.Pad > 0 {
		switch c.PadKind % 4 {
		case 1:
			sb.WriteString("'" + strings.ReplaceAll(padding(c.Pad), " ", "\t") + "' ")
		case 2:
			sb.WriteString("\"" + padding(c.Pad) + "\" ")
		case 3:
			sb.WriteString(strings.ReplaceAll(padding(c.Pad), " ", "b") + " ")
		default:
			sb.WriteString(padding(c.Pad))
		}
	}
	sb.WriteString(fromInts(c.In))
	return sb.String()
}

func tailOf(fs []string) []string {
	if len(fs) > 2 {
		fs = fs[len(fs)-2:]
	}
	out := make([]string, len(fs))
	for i, f := range fs {
		if len(f) > 40 {
			f = f[:16] + "…" + f[len(f)-16:]
		}
		out[i] = f
	}
	return out
}

// otherInput is split between a call and the re-inspection of its result.
const otherInput = "A B C D E F G H I J K L M N O P Q R S T U V W X Y Z 'q r' \"s t\""

func runSplit(c SplitCase, o *vk.Obs) string {
	in := c.input()
	if c.Pad >= 1<<19 {
		// inputs of a megabyte and more: the reference tokenizer, package Split
		// and a Scanner over the whole string (the per-fragment scanner checks
		// below read byte by byte and are kept for inputs of ordinary size)
		ref := refSplit(in)
		o.Step()
		fs, ok := shell.Split(in)
		if ok != ref.Complete || !sameFields(fs, ref.Fields) {
			return fmt.Sprintf("Split(%d bytes: %d bytes of padding of kind %d, then %q) = %d fields, %v; the reference tokenizer gives %d fields, %v (last fields %q vs %q)",
				len(in), c.Pad, c.PadKind%4, fromInts(c.In), len(fs), ok, len(ref.Fields), ref.Complete, tailOf(fs), tailOf(ref.Fields))
		}
		scribble(fs)
		if fs2, ok := shell.Split(in); ok != ref.Complete || !sameFields(fs2, ref.Fields) || !scribbled(fs) {
			return fmt.Sprintf("Split(%d bytes: %d bytes of padding of kind %d, then %q) was right on the first call; after the caller overwrote the elements of the slice it had been given, the identical call returns %s, %v; the reference tokenizer gives %s, %v",
				len(in), c.Pad, c.PadKind%4, fromInts(c.In), showFields(fs2), ok, showFields(ref.Fields), ref.Complete)
		}
		o.Step()
		sc := shell.NewScanner(strings.NewReader(in))
		if got := sc.Split(); !sameFields(got, ref.Fields) || sc.Complete() != ref.Complete {
			return fmt.Sprintf("Scanner.Split over %d bytes (%d bytes of padding of kind %d, then %q) gives %d fields, Complete = %v; reference %d fields, %v",
				len(in), c.Pad, c.PadKind%4, fromInts(c.In), len(got), sc.Complete(), len(ref.Fields), ref.Complete)
		} else {
			scribble(got)
		}
		sc = shell.NewScanner(strings.NewReader(in))
		if got := sc.Split(); !sameFields(got, ref.Fields) || sc.Complete() != ref.Complete {
			return fmt.Sprintf("Scanner.Split over %d bytes (%d bytes of padding of kind %d, then %q), repeated on a new scanner after the caller overwrote the first result, gives %s, Complete = %v; reference %s, %v",
				len(in), c.Pad, c.PadKind%4, fromInts(c.In), showFields(got), sc.Complete(), showFields(ref.Fields), ref.Complete)
		}
		if !ref.Complete {
			o.NonTrivial()
		}
		o.Class("input>=512KiB")
		o.ClassIf(len(in) >= 1<<20, "input>=1MiB")
		o.ClassIf(!ref.Complete, "incomplete")
		return ""
	}
	// results must stay what they were after later calls (pooled scanners)
	o.Step()
	first, firstOK := shell.Split(in)
	keep := append([]string(nil), first...)
	o.Step()
	shell.Split(otherInput)
	sc2 := shell.NewScanner(strings.NewReader(in))
	viaScanner := sc2.Split()
	keep2 := append([]string(nil), viaScanner...)
	sc2.Reset(strings.NewReader(otherInput))
	sc2.Split()
	if !sameFields(first, keep) || !sameFields(viaScanner, keep2) {
		return fmt.Sprintf("the fields returned for %q changed after a later Split call: now %q / %q, were %q", in, first, viaScanner, keep)
	}
	_ = firstOK
	scribble(first)
	scribble(viaScanner)
	ref, m := checkSplit(in)
	if m != "" {
		return m
	}
	reuse := shell.NewScanner(bytes.NewReader(nil))
	reuse.Next()
	plans := fragPlans
	if len(c.Frag) > 0 {
		plans = append([][]int{c.Frag}, fragPlans...)
	}
	for pi, fr := range plans {
		src := 0
		if pi == 0 {
			src = c.Src // the case's own plan (or the first standard plan) runs on the case's source kind
		}
		o.Step()
		if m := checkScanner(in, ref, fr, pi%2 == 1, reuse, src); m != "" {
			return m
		}
	}
	if ntSplit(ref) {
		o.NonTrivial()
	}
	o.ClassIf(!ref.Complete, "incomplete")
	o.ClassIf(c.Src%7 >= 3 && c.Src%7 <= 5, "source_is_a_bufio.Reader")
	o.ClassIf(c.Pad > 0, "input_crosses_4096_boundary")
	o.ClassIf(c.Pad > 0 && c.PadKind%4 == 1, "single_quoted_run>=4096")
	o.ClassIf(len(ref.Fields) >= 16, "fields>=16")
	o.ClassIf(ref.Modes["dq-escape"], "escape_in_double_quotes")
	o.ClassIf(ref.UnquotedNewline, "unquoted_newline")
	return ""
}

// ShellSplitCase: replay form of the real-shell word-splitting comparison.
type ShellSplitCase struct {
	In    []int  `json:"in"`
	Shell string `json:"shell"`
}

func runShellSplitCase(c ShellSplitCase, o *vk.Obs) string {
	in := fromInts(c.In)
	fs, _ := shell.Split(in)
	dir, cleanup, err := tempShellDir()
	if err != nil {
		return "VK-INFRA " + err.Error()
	}
	defer cleanup()
	for _, sh := range availableShells() {
		if sh.name != c.Shell {
			continue
		}
		bad, got, err := shellCheck(sh, dir, []string{in}, [][]string{fs})
		if err != nil {
			return "VK-INFRA " + err.Error()
		}
		if bad >= 0 {
			return fmt.Sprintf("%s splits `set -- %s` into %q but Split(%q) = %q", sh.name, in, got, in, fs)
		}
	}
	return ""
}

// ---------------------------------------------------------------------------
// C16, leg conc: several goroutines tokenize at the same time.

// ConcCase: one input per goroutine; every goroutine tokenizes its own input
// Iters times (package Split and a Scanner of its own, in alternation) while
// the others do the same with theirs.  Split is a function of its argument and
// a Scanner of the reader it was given: what other goroutines tokenize at the
// same moment must not matter (the package itself pools scanners with
// sync.Pool for concurrent callers).
type ConcCase struct {
	Ins   [][]int `json:"ins"`
	Iters int     `json:"iters"`
}

func scanAll(sc *shell.Scanner, limit int) ([]string, bool) {
	var got []string
	for sc.Next() {
		got = append(got, sc.Text())
		if len(got) > limit {
			break
		}
	}
	return got, sc.Complete()
}

func runConc(c ConcCase, o *vk.Obs) string {
	ins := make([]string, len(c.Ins))
	refs := make([]refResult, len(c.Ins))
	nt := false
	for g, v := range c.Ins {
		ins[g] = fromInts(v)
		// alone first: a discrepancy here has nothing to do with concurrency
		ref, m := checkSplit(ins[g])
		if m != "" {
			return m
		}
		got, complete := scanAll(shell.NewScanner(strings.NewReader(ins[g])), len(ins[g])+2)
		if !sameFields(got, ref.Fields) || complete != ref.Complete {
			return fmt.Sprintf("input %q: a Scanner yields %q, Complete = %v; reference %q, %v", ins[g], got, complete, ref.Fields, ref.Complete)
		}
		refs[g] = ref
		nt = nt || ntSplit(ref)
		o.ClassIf(ref.Modes["dq-escape"], "escape_in_double_quotes")
	}
	o.Step()
	msgs := make([]string, len(ins))
	var stop atomic.Bool
	var wg sync.WaitGroup
	start := make(chan struct{})
	for g := range ins {
		wg.Add(1)
		go func(g int) {
			defer wg.Done()
			in, ref := ins[g], refs[g]
			own := shell.NewScanner(strings.NewReader(""))
			<-start
			msgs[g] = vk.Guard(func() string {
				for it := 0; it < c.Iters && !stop.Load(); it++ {
					var got []string
					var complete bool
					how := "Split"
					switch it % 3 {
					case 0:
						got, complete = shell.Split(in)
					case 1:
						how = "a Scanner of its own (reused through Reset)"
						own.Reset(strings.NewReader(in))
						got, complete = scanAll(own, len(in)+2)
					default:
						how = "a new Scanner"
						got, complete = scanAll(shell.NewScanner(strings.NewReader(in)), len(in)+2)
					}
					if it%6 == 3 && complete == ref.Complete && sameFields(got, ref.Fields) {
						// the result is this goroutine's: overwrite it and
						// call again with the identical argument
						scribble(got)
						how = "Split, called again with the identical argument after the caller overwrote the elements of its first result,"
						got, complete = shell.Split(in)
					}
					if complete != ref.Complete || !sameFields(got, ref.Fields) {
						stop.Store(true)
						return fmt.Sprintf("while %d goroutines each tokenized an input of their own at the same time, %s over %q gave %q, %v (iteration %d of goroutine %d); alone, and by the reference tokenizer, it is %q, %v",
							len(ins), how, in, got, complete, it, g, ref.Fields, ref.Complete)
					}
					if it%3 == 0 {
						scribble(got) // Split's result: a []string of this goroutine's own
					}
				}
				return ""
			})
		}(g)
	}
	close(start)
	wg.Wait()
	for _, m := range msgs {
		if m != "" {
			return m
		}
	}
	if nt {
		o.NonTrivial()
	}
	o.Class(fmt.Sprintf("goroutines=%d", len(ins)))
	return ""
}
