// Package pshell holds the checks for shell.Quote/Join/Split (C15) and the
// tokenizer / Scanner (C16).
package pshell

import (
	"bytes"
	"fmt"
	"os"
	"os/exec"
	"path/filepath"
	"strconv"
)

// refResult is what the reference tokenizer reports for one input.
type refResult struct {
	Fields   []string
	Complete bool
	// Ends[j] is the number of input bytes consumed when token j is
	// delivered (the delimiter that ended it included).
	Ends []int
	// for classification
	Modes           map[string]bool
	UnquotedNewline bool // a newline acted as a separator (outside quotes, not escaped)
	OddEnd          bool // some token ended otherwise than by a blank right after a plain character
}

// refSplit tokenizes by the POSIX rules for blanks/newlines, backslash
// escapes (including line continuation), single quotes and double quotes.
// It is written as a mode loop, independently of the package's state table.
// End of input: a pending token is delivered; if a quotation or an escape is
// still open the token (possibly empty) is delivered and Complete is false.
func refSplit(in string) refResult {
	r := refResult{Complete: true, Modes: map[string]bool{}}
	var cur []byte
	have := false     // a token has been started
	lastPlain := true // the previous byte was an ordinary, unquoted character
	emit := func(end int, odd bool) {
		r.Fields = append(r.Fields, string(cur))
		r.Ends = append(r.Ends, end)
		cur, have = nil, false
		if odd {
			r.OddEnd = true
		}
	}
	const (
		unq = iota
		sq
		dq
	)
	mode := unq
	i := 0
	for i < len(in) {
		c := in[i]
		switch mode {
		case unq:
			switch {
			case c == ' ' || c == '\t' || c == '\n':
				if c == '\n' {
					r.UnquotedNewline = true
				}
				if have {
					emit(i+1, !lastPlain)
				}
				lastPlain = true
				i++
			case c == '\\':
				r.Modes["escape"] = true
				if i+1 == len(in) { // dangling escape
					r.Complete = false
					emit(len(in), true)
					return r
				}
				if in[i+1] == '\n' { // line continuation: both bytes vanish
					i += 2
					lastPlain = false
					continue
				}
				cur = append(cur, in[i+1])
				have, lastPlain = true, false
				r.Modes["word"] = true
				i += 2
			case c == '\'':
				mode, have, lastPlain = sq, true, false
				r.Modes["single"] = true
				i++
			case c == '"':
				mode, have, lastPlain = dq, true, false
				r.Modes["double"] = true
				i++
			default:
				cur = append(cur, c)
				have, lastPlain = true, true
				r.Modes["word"] = true
				i++
			}
		case sq:
			if c == '\'' {
				mode = unq
				r.Modes["word"] = true
			} else {
				cur = append(cur, c)
			}
			i++
		case dq:
			switch {
			case c == '"':
				mode = unq
				r.Modes["word"] = true
				i++
			case c == '\\':
				r.Modes["dq-escape"] = true
				if i+1 == len(in) {
					r.Complete = false
					emit(len(in), true)
					return r
				}
				n := in[i+1]
				switch n {
				case '"', '\\':
					cur = append(cur, n)
				case '\n': // line continuation
				default: // the backslash is kept before an ordinary character
					cur = append(cur, '\\', n)
				}
				i += 2
			default:
				cur = append(cur, c)
				i++
			}
		}
	}
	if mode != unq {
		r.Complete = false
		emit(len(in), true)
	} else if have {
		emit(len(in), true)
	}
	return r
}

// ---------------------------------------------------------------------------
// Independent POSIX scan of a quoted word (C15 O2).

// mustNotBeBare are the characters with special meaning to a POSIX shell
// (XCU 2.2: the always-special set and the conditionally special set).
const mustNotBeBare = "|&;<>()$`\\\"' \t\n*?[#~=%"

// unquoteWord removes quoting from w by the POSIX rules and reports the first
// special character found unquoted, if any.
func unquoteWord(w string) (out string, bare string, ok bool) {
	var b []byte
	i := 0
	for i < len(w) {
		c := w[i]
		switch c {
		case '\\':
			if i+1 >= len(w) {
				return "", "", false
			}
			if w[i+1] != '\n' {
				b = append(b, w[i+1])
			}
			i += 2
		case '\'':
			j := i + 1
			for j < len(w) && w[j] != '\'' {
				j++
			}
			if j >= len(w) {
				return "", "", false
			}
			b = append(b, w[i+1:j]...)
			i = j + 1
		case '"':
			j := i + 1
			for j < len(w) && w[j] != '"' {
				if w[j] == '\\' && j+1 < len(w) {
					switch w[j+1] {
					case '$', '`', '"', '\\':
						b = append(b, w[j+1])
						j += 2
						continue
					case '\n':
						j += 2
						continue
					}
				}
				if w[j] == '$' || w[j] == '`' {
					return "", fmt.Sprintf("%q inside double quotes", w[j]), true
				}
				b = append(b, w[j])
				j++
			}
			if j >= len(w) {
				return "", "", false
			}
			i = j + 1
		default:
			if bytes.IndexByte([]byte(mustNotBeBare), c) >= 0 {
				return "", fmt.Sprintf("%q at offset %d", c, i), true
			}
			b = append(b, c)
			i++
		}
	}
	return string(b), "", true
}

// ---------------------------------------------------------------------------
// Real shells.

type shellSpec struct {
	name string
	argv []string
}

// availableShells lists the POSIX shells used as oracles: dash, and bash with
// brace expansion (a bash extension) switched off.
func availableShells() []shellSpec {
	var out []shellSpec
	if p, err := exec.LookPath("dash"); err == nil {
		out = append(out, shellSpec{"dash", []string{p}})
	}
	if p, err := exec.LookPath("bash"); err == nil {
		out = append(out, shellSpec{"bash+B", []string{p, "+B"}})
	}
	return out
}

// shellDir prepares the working directory: files a b ab x 1 make an unquoted
// glob visible.
func shellDir(dir string) error {
	if err := os.MkdirAll(dir, 0o755); err != nil {
		return err
	}
	for _, f := range []string{"a", "b", "ab", "x", "1"} {
		if err := os.WriteFile(filepath.Join(dir, f), nil, 0o644); err != nil {
			return err
		}
	}
	return nil
}

// shellEval lets sh evaluate `set -- <word>` for every word and returns the
// resulting argument lists.  Records after a syntax error are missing.
func shellEval(sh shellSpec, dir string, words []string) ([][]string, error) {
	var script bytes.Buffer
	for _, w := range words {
		script.WriteString("set -- ")
		script.WriteString(w)
		script.WriteString("\nprintf '%s\\0' \"$#\" \"$@\"\n")
	}
	path := filepath.Join(dir, ".script")
	if err := os.WriteFile(path, script.Bytes(), 0o644); err != nil {
		return nil, err
	}
	cmd := exec.Command(sh.argv[0], append(sh.argv[1:], path)...)
	cmd.Dir = dir
	cmd.Env = []string{"LC_ALL=C", "PATH=/nonexistent", "HOME=/TILDE"}
	var stdout bytes.Buffer
	cmd.Stdout = &stdout
	_ = cmd.Run() // a non-zero status (syntax error) shows up as missing records
	parts := bytes.Split(stdout.Bytes(), []byte{0})
	var out [][]string
	i := 0
	for i < len(parts)-1 {
		n, err := strconv.Atoi(string(parts[i]))
		if err != nil || n < 0 || i+1+n > len(parts)-1 {
			break
		}
		rec := make([]string, n)
		for j := 0; j < n; j++ {
			rec[j] = string(parts[i+1+j])
		}
		out = append(out, rec)
		i += 1 + n
	}
	return out, nil
}

func sameFields(a, b []string) bool {
	if len(a) != len(b) {
		return false
	}
	for i := range a {
		if a[i] != b[i] {
			return false
		}
	}
	return true
}

// shellCheck compares, for every index, what sh makes of words[i] with
// want[i].  It returns the index of the first confirmed discrepancy (-1 if
// none); a discrepancy is confirmed by re-running that word alone.
func shellCheck(sh shellSpec, dir string, words []string, want [][]string) (int, []string, error) {
	lo := 0
	for lo < len(words) {
		got, err := shellEval(sh, dir, words[lo:])
		if err != nil {
			return -1, nil, err
		}
		k := 0
		for k < len(words)-lo && k < len(got) && sameFields(got[k], want[lo+k]) {
			k++
		}
		if lo+k == len(words) {
			return -1, nil, nil
		}
		// suspect: words[lo+k]; confirm alone
		alone, err := shellEval(sh, dir, words[lo+k:lo+k+1])
		if err != nil {
			return -1, nil, err
		}
		if len(alone) != 1 || !sameFields(alone[0], want[lo+k]) {
			var g []string
			if len(alone) == 1 {
				g = alone[0]
			} else {
				g = []string{"<shell reported a syntax error or produced no record>"}
			}
			return lo + k, g, nil
		}
		lo = lo + k + 1 // disturbed by batching only; continue after it
	}
	return -1, nil, nil
}

// tempShellDir creates a scratch working directory for the real shells.
func tempShellDir() (string, func(), error) {
	base := os.Getenv("VK_OUT")
	if base == "" {
		base = os.TempDir()
	}
	dir, err := os.MkdirTemp(base, "shellwork-")
	if err != nil {
		return "", nil, err
	}
	if err := shellDir(dir); err != nil {
		return "", nil, err
	}
	return dir, func() { os.RemoveAll(dir) }, nil
}

// shellSelfTest verifies that the real-shell oracle is alive and sensitive
// before it is trusted: an unquoted glob must expand against the scratch
// files, a quoted blank must not split, and a wrong expectation must be
// reported as a discrepancy.
func shellSelfTest(sh shellSpec, dir string) error {
	got, err := shellEval(sh, dir, []string{"*", "'a b'", "a\\ b \"$HOME\"", "~"})
	if err != nil {
		return err
	}
	if len(got) != 4 || len(got[0]) != 5 || !sameFields(got[1], []string{"a b"}) || !sameFields(got[2], []string{"a b", "/TILDE"}) || !sameFields(got[3], []string{"/TILDE"}) {
		return fmt.Errorf("%s does not behave as expected in the scratch directory: %q", sh.name, got)
	}
	if bad, _, err := shellCheck(sh, dir, []string{"a", "*"}, [][]string{{"a"}, {"*"}}); err != nil || bad != 1 {
		return fmt.Errorf("%s: a bare glob was not reported as a discrepancy (bad=%d, err=%v)", sh.name, bad, err)
	}
	return nil
}
