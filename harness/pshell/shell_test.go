package pshell

import (
	"fmt"
	"os"
	"path/filepath"
	"strings"
	"sync"
	"testing"

	"github.com/creachadair/mds/shell"
	"pgregory.net/rapid"
	"verif/vk"
)

// significant: the 24 shell-significant bytes + 'a' + a non-ASCII byte.
var significant = []byte("|&;<>()$`\\\"' \t\n*?[#~=%" + "{}!]" + "a\x80")

// enumStrings returns every string over alphabet with length in [0,maxLen], in size order.
func enumStrings(alphabet []byte, maxLen int) []string {
	out := []string{""}
	prev := []string{""}
	for l := 1; l <= maxLen; l++ {
		cur := make([]string, 0, len(prev)*len(alphabet))
		for _, p := range prev {
			for _, a := range alphabet {
				cur = append(cur, p+string([]byte{a}))
			}
		}
		out = append(out, cur...)
		prev = cur
	}
	return out
}

func quoteInputs(h *vk.H) []string {
	var in []string
	for b := 0; b < 256; b++ {
		in = append(in, string([]byte{byte(b)}))
	}
	in = append(in, enumStrings(significant, h.Pick(3, 4))...)
	return in
}

type slotT = interface {
	Enter(any)
	Leave()
}

func init() {
	vk.Register("C15", "exh", runQuote)
	vk.Register("C15", "lists", runQuote)
	vk.Register("C15", "pool", runQuote)
	vk.Register("C15", "shells", runShellCase)
	vk.Register("C16", "exh", runSplit)
	vk.Register("C16", "rand", runSplit)
	vk.Register("C16", "conc", runConc)
	vk.Register("C16", "shells", runShellSplitCase)
}

func TestC15Exhaustive(t *testing.T) {
	h := vk.Start(t, "C15", "exh")
	in := quoteInputs(h)
	nw := vk.Workers(len(in))
	tallies := make([]*vk.Tally, nw)
	slots := make([]slotT, nw)
	for i := range tallies {
		tallies[i], slots[i] = vk.NewTally(), h.Slot()
	}
	vk.Parallel(h, len(in), func(w, i int) {
		c := mkQuoteCase(in[i])
		o := &vk.Obs{}
		slots[w].Enter(c)
		msg := vk.Guard(func() string { return runQuote(c, o) })
		slots[w].Leave()
		if msg != "" {
			h.Fail(c, msg)
			return
		}
		tallies[w].AddObs(o)
		if i%4001 == 300 {
			h.Sample(c, o.NT)
		}
	})
	for _, tl := range tallies {
		h.MergeTally(tl)
	}
	h.Exhaustive()
	if h.Failed() {
		t.Fatalf("VK-VIOLATION property=C15 leg=exh (see replay)")
	}
}

// weighted alphabet for random strings
var genByte = rapid.OneOf(
	rapid.SampledFrom([]byte("|&;<>()$`\\\"' \t\n*?[#~=%")),
	rapid.SampledFrom([]byte("''''\\\\\"\"  \n")),
	rapid.SampledFrom([]byte("{}!^,:-ab01")),
	rapid.Byte(),
)

// magicTokens are byte sequences that text-handling code is tempted to treat
// specially: byte order marks, Unicode blanks and line separators, CR LF, a
// shebang, NUL.
var magicTokens = []string{"\xef\xbb\xbf", "\xff\xfe", "\xfe\xff", "\u00a0", "\u2028", "\u0085", "\u3000", "\r\n", "\r", "\v", "\f", "#!", "\x00", "--", "-n", "~"}

var genStr = rapid.Custom(func(t *rapid.T) string {
	switch rapid.IntRange(0, 19).Draw(t, "strKind") {
	case 0, 1:
		// magic tokens and ordinary bytes mixed; a token leads half of the time
		var sb strings.Builder
		for i, n := 0, rapid.IntRange(1, 4).Draw(t, "parts"); i < n; i++ {
			if i%2 == 0 == rapid.Bool().Draw(t, "tokenFirst") {
				sb.WriteString(rapid.SampledFrom(magicTokens).Draw(t, "token"))
			} else {
				sb.Write(rapid.SliceOfN(genByte, 0, 3).Draw(t, "bytes"))
			}
		}
		return sb.String()
	case 2:
		// a run of one character whose length sits at a power of two (counters
		// of 8 or 16 bits), optionally between plain letters
		c := rapid.SampledFrom([]byte("''\"\\ a$\n")).Draw(t, "runByte")
		n := rapid.SampledFrom([]int{255, 256, 256, 257, 511, 512, 513, 1024}).Draw(t, "runLen")
		if rapid.IntRange(0, 15).Draw(t, "run16") == 0 {
			n = rapid.SampledFrom([]int{65535, 65536, 65537}).Draw(t, "runLen16")
		}
		pre := rapid.SampledFrom([]string{"", "", "a", "ab"}).Draw(t, "runPre")
		post := rapid.SampledFrom([]string{"", "", "z", " "}).Draw(t, "runPost")
		return pre + strings.Repeat(string(c), n) + post
	}
	return string(rapid.SliceOfN(genByte, 0, 12).Draw(t, "s"))
})

// runLens are element lengths around the sizes at which code starts to treat
// a string as "long" (a word, two words, a cache line, a small buffer).
var runLens = []int{1, 3, 7, 8, 9, 15, 16, 16, 17, 18, 31, 32, 33, 63, 64, 64, 65, 127, 128, 129, 256}

// genRunElem: an element of exactly one of the runLens bytes, made of a short
// drawn core repeated as often as needed.
var genRunElem = rapid.Custom(func(t *rapid.T) string {
	core := rapid.SampledFrom([]string{"a", "ab", "it's ", "$x ", "'", "\\", " ", "\n", "\"q\" ", ""}).Draw(t, "core")
	if core == "" {
		core = string(rapid.SliceOfN(genByte, 1, 6).Draw(t, "coreBytes"))
	}
	n := rapid.SampledFrom(runLens).Draw(t, "elemLen")
	return strings.Repeat(core, n/len(core)+1)[:n]
})

// genRuns: a list made of runs of 2..5 ADJACENT copies of one element (argument
// lists repeat: "-v -v -v", the same path several times), optionally with
// other elements between the runs.
var genRuns = rapid.Custom(func(t *rapid.T) []string {
	var ss []string
	for i, n := 0, rapid.IntRange(1, 3).Draw(t, "nRuns"); i < n; i++ {
		if rapid.IntRange(0, 2).Draw(t, "between") == 0 {
			ss = append(ss, genStr.Draw(t, "other"))
		}
		el := genRunElem.Draw(t, "runElem")
		for k := rapid.IntRange(2, 5).Draw(t, "copies"); k > 0; k-- {
			ss = append(ss, el)
		}
	}
	if rapid.IntRange(0, 3).Draw(t, "tail") == 0 {
		ss = append(ss, genStr.Draw(t, "last"))
	}
	return ss
})

func TestC15Lists(t *testing.T) {
	h := vk.Start(t, "C15", "lists")
	vk.Rapid(h, t, func(t *rapid.T) QuoteCase {
		var c QuoteCase
		if rapid.IntRange(0, 7).Draw(t, "runs") == 0 {
			c = mkQuoteCase(genRuns.Draw(t, "runList")...)
		} else {
			c = mkQuoteCase(rapid.SliceOfN(genStr, 0, 5).Draw(t, "ss")...)
		}
		if len(c.SS) > 0 && rapid.IntRange(0, 9).Draw(t, "long") == 0 {
			base := rapid.SampledFrom([]int{64, 512, 4096, 4096, 8192}).Draw(t, "boundary")
			c.Pad = max(0, base-rapid.IntRange(0, len(c.SS[0])+4).Draw(t, "before"))
		}
		if len(c.SS) > 0 && rapid.IntRange(0, 11).Draw(t, "many") == 0 {
			c.Rep = rapid.SampledFrom([]int{13, 16, 17, 33, 64, 65, 66, 130}).Draw(t, "rep")
		}
		if rapid.IntRange(0, 29).Draw(t, "pre") == 0 {
			c.Pre = rapid.SampledFrom([]int{66000, 70000, 140000}).Draw(t, "preBytes")
		}
		if rapid.IntRange(0, 3).Draw(t, "raw") == 0 {
			// an incomplete (or any) input split first, in every state the scanner can end in
			head := rapid.SampledFrom([]string{"", "", "x", "a b", "a b ", "'q' ", "x'y'", "\"a\"b", "a\\ b"}).Draw(t, "rawHead")
			if rapid.IntRange(0, 4).Draw(t, "rawAny") == 0 {
				head = genStr.Draw(t, "rawStr")
			}
			tail := rapid.SampledFrom([]string{"\\", "\\", "'", "'z", "\"", "\"z", "\"z\\", "\"\\", "z\\", "'z'\\", "\"z\"\\", "\\\n", " \\", "#c", " #c\\", ""}).Draw(t, "rawTail")
			c.Raw = toInts(head + tail)
		}
		return c
	}, runQuote)
}

// TestC15Pool: thousands of consecutive calls and calls from 8 goroutines at
// once (Quote/Join/Split use pooled buffers and scanners) must give the
// sequential answers.
func TestC15Pool(t *testing.T) {
	h := vk.Start(t, "C15", "pool")
	n := h.Pick(4000, 60000)
	gen := rapid.Custom(func(t *rapid.T) []string { return rapid.SliceOfN(genStr, 0, 4).Draw(t, "ss") })
	base := int(h.Mix("pool") % (1 << 30))
	lists := make([][]string, n)
	want := make([]string, n)
	tl := vk.NewTally()
	slot := h.Slot()
	for i := range lists {
		lists[i] = gen.Example(base + i)
		c := mkQuoteCase(lists[i]...)
		o := &vk.Obs{}
		slot.Enter(c)
		msg := vk.Guard(func() string { return runQuote(c, o) })
		slot.Leave()
		if msg != "" {
			p := h.Fail(c, msg)
			t.Fatalf("VK-VIOLATION property=C15 leg=pool replay=%s\n%s", p, msg)
		}
		want[i] = shell.Join(lists[i])
		tl.AddObs(o)
	}
	var wg sync.WaitGroup
	var mu sync.Mutex
	bad := -1
	var badMsg string
	for g := 0; g < 8; g++ {
		wg.Add(1)
		go func(g int) {
			defer wg.Done()
			for i := g; i < n; i += 3 { // overlapping strides: the same inputs run concurrently
				j := shell.Join(lists[i])
				fs, ok := shell.Split(j)
				if j != want[i] || !ok || !sameFields(fs, lists[i]) {
					mu.Lock()
					if bad < 0 || i < bad {
						bad, badMsg = i, fmt.Sprintf("under 8 concurrent callers Join(%q) = %q (sequentially %q) and Split gives %q, %v", lists[i], j, want[i], fs, ok)
					}
					mu.Unlock()
					return
				}
				// the fields are this goroutine's own slice (other goroutines
				// split the same string at this moment): overwrite it
				scribble(fs)
			}
		}(g)
	}
	wg.Wait()
	if bad >= 0 {
		p := h.Fail(mkQuoteCase(lists[bad]...), badMsg)
		t.Fatalf("VK-VIOLATION property=C15 leg=pool replay=%s\n%s", p, badMsg)
	}
	tl.Classes["concurrent_join_split_calls"] = int64(8 * (n / 3))
	h.MergeTally(tl)
	h.Sample(mkQuoteCase(lists[0]...), true)
}

// TestC15Shells: O3, real shells evaluate `set -- Quote(s)`.
func TestC15Shells(t *testing.T) {
	h := vk.Start(t, "C15", "shells")
	shells := availableShells()
	if len(shells) == 0 {
		h.Note("no POSIX shell (dash, bash) found: real-shell oracle skipped")
		h.Count("skipped_no_shell", 1)
		return
	}
	var in []string
	for _, s := range quoteInputs(h) {
		if len(s) > 0 && containsNUL(s) {
			continue
		}
		in = append(in, s)
	}
	// random longer words
	gen := rapid.Custom(func(t *rapid.T) string { return genStr.Draw(t, "w") })
	base := int(h.Mix("words") % (1 << 30))
	for i := 0; i < h.Pick(3000, 50000); i++ {
		if s := gen.Example(base + i); !containsNUL(s) {
			in = append(in, s)
		}
	}
	words := make([]string, len(in))
	want := make([][]string, len(in))
	for i, s := range in {
		words[i] = shell.Quote(s)
		want[i] = []string{s}
	}
	root := filepath.Join(h.OutDir, "shellwork")
	defer os.RemoveAll(root)
	for _, sh := range shells {
		d := filepath.Join(root, "selftest")
		if err := shellDir(d); err != nil {
			t.Fatalf("VK-INFRA %v", err)
		}
		if err := shellSelfTest(sh, d); err != nil {
			t.Fatalf("VK-INFRA real-shell oracle self-test failed: %v", err)
		}
	}
	tl := vk.NewTally()
	var mu sync.Mutex
	const batch = 4000
	type job struct {
		sh     shellSpec
		lo, hi int
	}
	var jobs []job
	for _, sh := range shells {
		for lo := 0; lo < len(in); lo += batch {
			jobs = append(jobs, job{sh, lo, min(lo+batch, len(in))})
		}
	}
	vk.Parallel(h, len(jobs), func(w, ji int) {
		j := jobs[ji]
		dir := filepath.Join(root, fmt.Sprintf("w%d", w))
		if err := shellDir(dir); err != nil {
			h.Note("VK-INFRA %v", err)
			return
		}
		bad, got, err := shellCheck(j.sh, dir, words[j.lo:j.hi], want[j.lo:j.hi])
		if err != nil {
			h.Note("VK-INFRA %v", err)
			return
		}
		if bad >= 0 {
			s := in[j.lo+bad]
			h.Fail(ShellCase{S: toInts(s), Shell: j.sh.name}, fmt.Sprintf("%s evaluating `set -- %s` (Quote(%q)) obtains %q, want the single word %q", j.sh.name, words[j.lo+bad], s, got, s))
			return
		}
		mu.Lock()
		tl.Evals += int64(j.hi - j.lo)
		tl.Classes["words_evaluated_by_"+j.sh.name] += int64(j.hi - j.lo)
		mu.Unlock()
	})
	seen := map[string]bool{}
	for _, s := range in {
		if ntQuote(s) && !seen[s] {
			seen[s] = true
			tl.NT++
		}
	}
	h.MergeTally(tl)
	h.Sample(ShellCase{S: toInts(in[len(in)/2]), Shell: shells[0].name}, true)
	h.Sample(ShellCase{S: toInts(in[len(in)-1]), Shell: shells[0].name}, true)
	if h.Failed() {
		t.Fatalf("VK-VIOLATION property=C15 leg=shells (see replay)")
	}
}

func containsNUL(s string) bool {
	for i := 0; i < len(s); i++ {
		if s[i] == 0 {
			return true
		}
	}
	return false
}

// ---------------------------------------------------------------------------
// C16

var classReps1 = []byte("a \n\\'\"")
var classReps2 = []byte("a\xff \t\n\\'\"")

func splitInputs(h *vk.H) []string {
	in := enumStrings(classReps1, h.Pick(6, 7))
	seen := map[string]bool{}
	for _, s := range in {
		seen[s] = true
	}
	for _, s := range enumStrings(classReps2, h.Pick(4, 5)) {
		if !seen[s] {
			in = append(in, s)
		}
	}
	return in
}

func TestC16Exhaustive(t *testing.T) {
	h := vk.Start(t, "C16", "exh")
	in := splitInputs(h)
	nw := vk.Workers(len(in))
	tallies := make([]*vk.Tally, nw)
	slots := make([]slotT, nw)
	for i := range tallies {
		tallies[i], slots[i] = vk.NewTally(), h.Slot()
	}
	stride := len(in)/h.Pick(2500, 40000) + 1
	vk.Parallel(h, len(in), func(w, i int) {
		c := SplitCase{In: toInts(in[i]), Src: i % 7}
		o := &vk.Obs{}
		slots[w].Enter(c)
		var msg string
		if i%stride == 0 || len(in[i]) <= 4 {
			// full Scanner programme (every fragmentation, Rest at every token index)
			msg = vk.Guard(func() string { return runSplit(c, o) })
			tallies[w].Classes["with_scanner_fragmentations"]++
		} else {
			msg = vk.Guard(func() string {
				ref, m := checkSplit(in[i])
				if m == "" && ntSplit(ref) {
					o.NonTrivial()
				}
				return m
			})
		}
		slots[w].Leave()
		if msg != "" {
			h.Fail(c, msg)
			return
		}
		tallies[w].AddObs(o)
		if i%9973 == 500 {
			h.Sample(c, o.NT)
		}
	})
	for _, tl := range tallies {
		h.MergeTally(tl)
	}
	h.Exhaustive()
	if h.Failed() {
		t.Fatalf("VK-VIOLATION property=C16 leg=exh (see replay)")
	}
}

// escapable are the bytes an escape-heavy input puts after its backslashes.
var escapable = []byte("abcdefghijklmnopqrstuvwxyz$`*~ '\t#")

// genEscapes: an input dense with backslash escapes, most of them inside
// double quotes (where the backslash is retained unless it precedes \, " or a
// newline); each input escapes ONE drawn byte, so that two inputs tokenized at
// the same time (the kit runs every 16th case side by side with the three
// before it) differ in what follows their backslashes.
var genEscapes = rapid.Custom(func(t *rapid.T) []byte {
	x := rapid.SampledFrom(escapable).Draw(t, "escaped")
	units := []string{"\\" + string(x), "\\" + string(x), "\\" + string(x), string(x), "\\\\", "\\\"", "\\\n", " ", "a"}
	var b []byte
	for i, n := 0, rapid.IntRange(1, 4).Draw(t, "segments"); i < n; i++ {
		pat := strings.Join(rapid.SliceOfN(rapid.SampledFrom(units), 1, 4).Draw(t, "pattern"), "")
		body := strings.Repeat(pat, rapid.IntRange(1, 16).Draw(t, "times"))
		switch rapid.IntRange(0, 5).Draw(t, "segKind") {
		case 0, 1, 2:
			b = append(b, '"')
			b = append(b, body...)
			b = append(b, '"')
		case 3:
			b = append(b, body...)
		case 4:
			b = append(b, '\'')
			b = append(b, strings.ReplaceAll(body, "'", "q")...)
			b = append(b, '\'')
		default:
			b = append(b, " \n\t"[rapid.IntRange(0, 2).Draw(t, "blank")])
		}
		if rapid.Bool().Draw(t, "sep") {
			b = append(b, ' ')
		}
	}
	return b
})

// concInput builds the input of goroutine g for leg conc from r: dense with
// escapes of every kind, the escaped / ordinary bytes taken from a small set of
// its own so that bytes that wander from one goroutine's tokens into
// another's are visible.
func concInput(r *vk.RNG, g int, pure bool) string {
	own := []byte{byte('a' + g%26), byte('A' + g%26), byte('0' + g%10)}
	if pure {
		// one double-quoted word of a few hundred retained escapes
		return "\"" + strings.Repeat("\\"+string(own[0]), 100+r.Intn(200)) + "\""
	}
	var sb strings.Builder
	for seg, n := 0, 4+r.Intn(12); seg < n; seg++ {
		x := string(own[r.Intn(len(own))])
		units := []string{"\\" + x, "\\" + x, x, "\\\\", "\\\"", "\\\n", "\\ ", "\\'", " ", "\t"}
		var body strings.Builder
		for k, m := 0, 1+r.Intn(24); k < m; k++ {
			body.WriteString(units[r.Intn(len(units))])
		}
		switch r.Intn(6) {
		case 0, 1, 2:
			sb.WriteString("\"" + body.String() + "\"")
		case 3:
			sb.WriteString(body.String())
		case 4:
			sb.WriteString("'" + strings.ReplaceAll(body.String(), "'", x) + "'")
		default:
			sb.WriteString(x + "\n")
		}
		if r.Intn(2) == 0 {
			sb.WriteByte(' ')
		}
	}
	return sb.String()
}

// TestC16Conc: 8 goroutines tokenize inputs of their own at the same time,
// for a bounded number of iterations, and each must keep obtaining what the
// reference tokenizer (and the package, called alone) gives for its input.
func TestC16Conc(t *testing.T) {
	h := vk.Start(t, "C16", "conc")
	r := h.RNG("conc")
	slot := h.Slot()
	rounds, iters := h.Pick(12, 300), h.Pick(1500, 3000)
	for round := 0; round < rounds; round++ {
		c := ConcCase{Iters: iters}
		for g := 0; g < 8; g++ {
			c.Ins = append(c.Ins, toInts(concInput(r, g+8*(round%3), round%2 == 0)))
		}
		if msg := vk.One(h, slot, c, runConc); msg != "" {
			p := h.Fail(c, msg)
			t.Fatalf("VK-VIOLATION property=C16 leg=conc replay=%s\n%s", p, msg)
		}
	}
	h.Count("tokenizations_while_7_other_goroutines_tokenize", int64(rounds*iters*8))
}

func TestC16Rand(t *testing.T) {
	h := vk.Start(t, "C16", "rand")
	gb := rapid.OneOf(rapid.SampledFrom(classReps2), rapid.SampledFrom(classReps2), rapid.SampledFrom([]byte("\\\\''\"\" \n")), rapid.SampledFrom([]byte("abc$`*~")), rapid.Byte())
	vk.Rapid(h, t, func(t *rapid.T) SplitCase {
		var b []byte
		if rapid.IntRange(0, 6).Draw(t, "escapes") == 0 {
			b = genEscapes.Draw(t, "escapeHeavy")
		} else if rapid.IntRange(0, 4).Draw(t, "segs") == 0 {
			// segments: an atom (a separator, a line continuation, a quote, an
			// escape, a letter) repeated 1..65 times - long runs of ONE kind of
			// byte right after every kind of construct, where a bulk shortcut
			// for runs would be taken in a state it is not valid in
			for n := rapid.IntRange(2, 9).Draw(t, "nseg"); n > 0; n-- {
				atom := rapid.SampledFrom([]string{" ", " ", "\t", "\n", " \t", "\\\n", "\\\n", "\\", "'", "\"", "\"", "a", "a", "\\a", "\\ ", "#", "\\\\", "$"}).Draw(t, "atom")
				rep := rapid.SampledFrom([]int{1, 1, 1, 1, 2, 3, 7, 8, 9, 15, 16, 17, 31, 32, 33, 64, 65}).Draw(t, "atomRep")
				for ; rep > 0; rep-- {
					b = append(b, atom...)
				}
			}
		} else {
			b = rapid.SliceOfN(gb, 0, 40).Draw(t, "in")
		}
		c := SplitCase{In: make([]int, len(b))}
		for i, x := range b {
			c.In[i] = int(x)
		}
		if rapid.IntRange(0, 9).Draw(t, "long") == 0 {
			// place the interesting bytes across the 4096- or 8192-byte boundary
			base := rapid.SampledFrom([]int{4096, 4096, 8192}).Draw(t, "boundary")
			c.Pad = max(0, base-rapid.IntRange(0, len(b)+2).Draw(t, "before"))
			c.PadKind = rapid.IntRange(0, 3).Draw(t, "padKind")
		}
		if vk.Rare(t, "mega", 400) {
			// a megabyte and more
			c.Pad = rapid.SampledFrom([]int{1 << 19, 1 << 20, 1<<20 + 4096, 1 << 21}).Draw(t, "megaPad") - rapid.IntRange(0, len(b)+3).Draw(t, "megaBefore")
			c.PadKind = rapid.IntRange(0, 3).Draw(t, "megaKind")
		}
		if rapid.IntRange(0, 7).Draw(t, "manyFields") == 0 {
			c.Fields = rapid.SampledFrom([]int{14, 15, 16, 17, 31, 32, 33, 63, 64, 65}).Draw(t, "fields") - rapid.IntRange(0, 2).Draw(t, "fieldsOff")
		}
		c.Src = rapid.SampledFrom([]int{0, 0, 0, 1, 2, 3, 3, 4, 5, 6}).Draw(t, "src")
		c.Frag = rapid.SliceOfN(rapid.IntRange(0, 7), 0, 6).Draw(t, "frag")
		ok := false
		for _, f := range c.Frag {
			if f > 0 {
				ok = true
			}
		}
		if !ok {
			c.Frag = nil // a plan of only empty reads would never make progress
		} else {
			// never two empty reads in a row more than bufio tolerates: collapse runs of zeros
			var fr []int
			for i, f := range c.Frag {
				if f == 0 && i > 0 && c.Frag[i-1] == 0 {
					continue
				}
				fr = append(fr, f)
			}
			if len(fr) > 1 && fr[0] == 0 && fr[len(fr)-1] == 0 {
				fr = fr[1:]
			}
			c.Frag = fr
		}
		return c
	}, runSplit)
}

// TestC16Shells: O2, the complete inputs free of unquoted newlines are split
// by real shells.
func TestC16Shells(t *testing.T) {
	h := vk.Start(t, "C16", "shells")
	shells := availableShells()
	if len(shells) == 0 {
		h.Note("no POSIX shell (dash, bash) found: real-shell oracle skipped")
		h.Count("skipped_no_shell", 1)
		return
	}
	var in []string
	var want [][]string
	nt := int64(0)
	for _, s := range splitInputs(h) {
		ref := refSplit(s)
		if !ref.Complete || ref.UnquotedNewline {
			continue
		}
		fs, _ := shell.Split(s)
		in = append(in, s)
		want = append(want, fs)
		if ntSplit(ref) {
			nt++
		}
	}
	root := filepath.Join(h.OutDir, "shellwork")
	defer os.RemoveAll(root)
	for _, sh := range shells {
		d := filepath.Join(root, "selftest")
		if err := shellDir(d); err != nil {
			t.Fatalf("VK-INFRA %v", err)
		}
		if err := shellSelfTest(sh, d); err != nil {
			t.Fatalf("VK-INFRA real-shell oracle self-test failed: %v", err)
		}
	}
	tl := vk.NewTally()
	var mu sync.Mutex
	const batch = 4000
	type job struct {
		sh     shellSpec
		lo, hi int
	}
	var jobs []job
	for _, sh := range shells {
		for lo := 0; lo < len(in); lo += batch {
			jobs = append(jobs, job{sh, lo, min(lo+batch, len(in))})
		}
	}
	vk.Parallel(h, len(jobs), func(w, ji int) {
		j := jobs[ji]
		dir := filepath.Join(root, fmt.Sprintf("w%d", w))
		if err := shellDir(dir); err != nil {
			h.Note("VK-INFRA %v", err)
			return
		}
		bad, got, err := shellCheck(j.sh, dir, in[j.lo:j.hi], want[j.lo:j.hi])
		if err != nil {
			h.Note("VK-INFRA %v", err)
			return
		}
		if bad >= 0 {
			s := in[j.lo+bad]
			h.Fail(ShellSplitCase{In: toInts(s), Shell: j.sh.name}, fmt.Sprintf("%s splits `set -- %s` into %q but Split(%q) = %q", j.sh.name, s, got, s, want[j.lo+bad]))
			return
		}
		mu.Lock()
		tl.Evals += int64(j.hi - j.lo)
		tl.Classes["inputs_split_by_"+j.sh.name] += int64(j.hi - j.lo)
		mu.Unlock()
	})
	tl.NT = nt
	h.MergeTally(tl)
	h.Sample(ShellSplitCase{In: toInts(in[len(in)/2]), Shell: shells[0].name}, true)
	h.Sample(ShellSplitCase{In: toInts(in[len(in)-3]), Shell: shells[0].name}, true)
	if h.Failed() {
		t.Fatalf("VK-VIOLATION property=C16 leg=shells (see replay)")
	}
}

func TestReplay(t *testing.T) { vk.ReplayMain(t) }
