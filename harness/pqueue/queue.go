// Package pqueue holds the checks for queue.Queue (C07): the array-based
// ring-buffer deque must behave as a plain sequence across wrap-around and
// regrowth.
package pqueue

import (
	"fmt"
	"math"
	"runtime/debug"
	"strings"

	"github.com/creachadair/mds/queue"
	"verif/vk"
)

// Op is one step of a queue history.  A is a state-independent argument that
// the interpreter resolves against the current length.
type Op struct {
	K string `json:"k"`
	A int    `json:"a,omitempty"`
}

// Case is a complete history for one queue.
type Case struct {
	Ctor string `json:"ctor"`        // "zero" (var q Queue), "new" (New()), "size" (NewSize(N))
	N    int    `json:"n,omitempty"` // argument of NewSize
	Ops  []Op   `json:"ops"`
}

const maxRun = 20

// qrun interprets a Case.
type qrun struct {
	c      Case
	q      *queue.Queue[int]
	ref    []int // reference sequence, front first
	serial int   // values are 1,2,3,... so loss, duplication and reordering show
	step   int
	sub    int

	// Shadow of the documented ring-buffer algorithm (cap = len(sh), head, n).
	// It only LABELS cases (which path the history should have taken); it is
	// never compared with anything.  sh is a real []int grown by the same
	// append calls, so its capacity follows the runtime's growth rule for the
	// same element type.
	sh          []int
	shHead      int
	shN         int
	extremePeek int // Peek at an offset near math.MinInt / math.MaxInt
	rotAdd      int // Add on a full buffer with head > 0 (rotate, then grow)
	rotPush     int // Push on a full buffer with head > 0
	growAdd0    int // Add on a full buffer with head == 0 (plain append)
	growPush0   int // Push on a full buffer with head == 0
	wrapAdd     int // Add stored below head (tail wrapped)
	wrapPush    int // Push moved head from 0 to len-1
	wrapPopL    int // PopLast took an element stored below head
	headWrap    int // Pop moved head from len-1 to 0
	wrapPeek    int // contents straddled the end of the buffer at a check
	maxLen      int
	emptied     int // became empty by Pop/PopLast
	clears      int
}

func (r *qrun) errf(format string, args ...any) string {
	op := "constructor"
	if r.step >= len(r.c.Ops) {
		op = "final check"
	} else if r.step >= 0 {
		op = fmt.Sprintf("op#%d %+v", r.step, r.c.Ops[r.step])
	}
	ctor := r.c.Ctor
	if ctor == "size" {
		ctor = fmt.Sprintf("NewSize(%d)", r.c.N)
	}
	return fmt.Sprintf("%s (sub-step %d, queue %s): %s", op, r.sub, ctor, fmt.Sprintf(format, args...))
}

// ---- shadow (labels only) --------------------------------------------------

func (r *qrun) shGrow() {
	w := append(r.sh, 0)
	r.sh = w[:cap(w)]
}

func (r *qrun) shAdd() {
	if r.shN < len(r.sh) {
		if r.shHead+r.shN >= len(r.sh) {
			r.wrapAdd++
		}
		r.shN++
		return
	}
	if r.shHead > 0 {
		r.rotAdd++
		r.shHead = 0
	} else {
		r.growAdd0++
	}
	r.shGrow()
	r.shN++
}

func (r *qrun) shPush() {
	if r.shN < len(r.sh) {
		pos := r.shHead - 1
		if pos < 0 {
			pos = len(r.sh) - 1
			r.wrapPush++
		}
		r.shHead = pos
		r.shN++
		return
	}
	if r.shHead > 0 {
		r.rotPush++
		r.shHead = 0
	} else {
		r.growPush0++
	}
	r.shGrow()
	r.shHead = len(r.sh) - 1
	r.shN++
}

func (r *qrun) shPop() {
	if r.shN == 0 {
		return
	}
	r.shN--
	if r.shN == 0 {
		r.shHead = 0
		r.emptied++
		return
	}
	r.shHead++
	if r.shHead == len(r.sh) {
		r.shHead = 0
		r.headWrap++
	}
}

func (r *qrun) shPopLast() {
	if r.shN == 0 {
		return
	}
	if r.shHead+r.shN-1 >= len(r.sh) {
		r.wrapPopL++
	}
	r.shN--
	if r.shN == 0 {
		r.shHead = 0
		r.emptied++
	}
}

// ---- oracle ------------------------------------------------------------------

func brief(vs []int) string {
	if len(vs) > 24 {
		return fmt.Sprintf("%v…(%d)", vs[:24], len(vs))
	}
	return fmt.Sprint(vs)
}

// check compares every observer of the queue with the reference sequence.
func (r *qrun) check() string {
	q, ref := r.q, r.ref
	n := len(ref)
	if n > r.maxLen {
		r.maxLen = n
	}
	if r.shN > 0 && r.shHead+r.shN > len(r.sh) {
		r.wrapPeek++
	}
	if got := q.Len(); got != n {
		return r.errf("Len = %d, reference sequence has %d elements %s", got, n, brief(ref))
	}
	if got := q.IsEmpty(); got != (n == 0) {
		return r.errf("IsEmpty = %v, reference sequence has %d elements", got, n)
	}
	wantFront := 0
	if n > 0 {
		wantFront = ref[0]
	}
	if got := q.Front(); got != wantFront {
		return r.errf("Front = %d, want %d (reference %s)", got, wantFront, brief(ref))
	}
	sl := q.Slice()
	if n == 0 && sl != nil {
		return r.errf("Slice of an empty queue = %v (len %d), want nil", sl, len(sl))
	}
	if len(sl) != n {
		return r.errf("Slice = %s, reference %s", brief(sl), brief(ref))
	}
	for i := range sl {
		if sl[i] != ref[i] {
			return r.errf("Slice[%d] = %d, reference has %d: got %s want %s", i, sl[i], ref[i], brief(sl), brief(ref))
		}
	}
	i := 0
	bad := -1
	q.Each(func(v int) bool {
		if bad < 0 && (i >= n || v != ref[i]) {
			bad = i
		}
		i++
		return true
	})
	if bad >= 0 || i != n {
		var got []int
		q.Each(func(v int) bool { got = append(got, v); return len(got) < n+8 })
		return r.errf("Each lists %s, reference %s", brief(got), brief(ref))
	}
	for off := -n - 2; off <= n+2; off++ {
		if msg := r.checkPeek(off); msg != "" {
			return msg
		}
	}
	return ""
}

func (r *qrun) checkPeek(off int) string {
	n := len(r.ref)
	idx := off
	if idx < 0 {
		idx += n
	}
	got, ok := r.q.Peek(off)
	if idx < 0 || idx >= n {
		if ok {
			return r.errf("Peek(%d) = (%d, true) on a queue of %d elements, want ok = false", off, got, n)
		}
		return ""
	}
	if !ok || got != r.ref[idx] {
		return r.errf("Peek(%d) = (%d, %v), want (%d, true) (reference %s)", off, got, ok, r.ref[idx], brief(r.ref))
	}
	return ""
}

func (r *qrun) checkEachStop(j int) string {
	n := len(r.ref)
	if n == 0 {
		calls := 0
		r.q.Each(func(int) bool { calls++; return true })
		if calls != 0 {
			return r.errf("Each on an empty queue made %d callbacks", calls)
		}
		return ""
	}
	j = j%n + 1
	var got []int
	r.q.Each(func(v int) bool { got = append(got, v); return len(got) < j })
	if len(got) != j {
		return r.errf("Each made %d callbacks although the callback returned false at #%d", len(got), j)
	}
	for i := range got {
		if got[i] != r.ref[i] {
			return r.errf("Each[%d] = %d, reference has %d", i, got[i], r.ref[i])
		}
	}
	return ""
}

// ---- operations ----------------------------------------------------------------

func (r *qrun) doAdd() string {
	r.serial++
	r.q.Add(r.serial)
	r.ref = append(r.ref, r.serial)
	r.shAdd()
	return r.check()
}

func (r *qrun) doPush() string {
	r.serial++
	r.q.Push(r.serial)
	r.ref = append([]int{r.serial}, r.ref...)
	r.shPush()
	return r.check()
}

func (r *qrun) doPop() string {
	got, ok := r.q.Pop()
	if len(r.ref) == 0 {
		if ok || got != 0 {
			return r.errf("Pop on an empty queue = (%d, %v), want (0, false)", got, ok)
		}
	} else {
		want := r.ref[0]
		r.ref = r.ref[1:]
		if !ok || got != want {
			return r.errf("Pop = (%d, %v), want (%d, true); rest of the reference %s", got, ok, want, brief(r.ref))
		}
	}
	r.shPop()
	return r.check()
}

func (r *qrun) doPopLast() string {
	got, ok := r.q.PopLast()
	if len(r.ref) == 0 {
		if ok || got != 0 {
			return r.errf("PopLast on an empty queue = (%d, %v), want (0, false)", got, ok)
		}
	} else {
		want := r.ref[len(r.ref)-1]
		r.ref = r.ref[:len(r.ref)-1]
		if !ok || got != want {
			return r.errf("PopLast = (%d, %v), want (%d, true); rest of the reference %s", got, ok, want, brief(r.ref))
		}
	}
	r.shPopLast()
	return r.check()
}

func (r *qrun) apply(op Op) string {
	r.sub = 0
	rep := func(n int, f func() string) string {
		for i := 0; i < n; i++ {
			r.sub = i
			if msg := f(); msg != "" {
				return msg
			}
		}
		return ""
	}
	a := op.A
	if a < 0 {
		a = -a
	}
	switch op.K {
	case "add":
		return r.doAdd()
	case "push":
		return r.doPush()
	case "pop":
		return r.doPop()
	case "poplast":
		return r.doPopLast()
	case "clear":
		r.q.Clear()
		r.ref = nil
		r.sh, r.shHead, r.shN = nil, 0, 0
		r.clears++
		return r.check()
	case "front", "slice", "len":
		return r.check() // all three are part of the comparison after every step
	case "peek":
		n := len(r.ref)
		if a >= 380 { // offsets at the ends of the int range (negation and addition overflow)
			ext := []int{math.MinInt, math.MinInt + 1, -math.MaxInt + 1, math.MaxInt, math.MaxInt - 1, math.MinInt + n, math.MaxInt - n, -1 << 31, 1 << 31, -1 << 32, 1 << 32}
			r.extremePeek++
			return r.checkPeek(ext[a%len(ext)])
		}
		return r.checkPeek(a%(2*n+5) - n - 2)
	case "each":
		return r.checkEachStop(a)
	case "addRun":
		return rep(a%maxRun+1, r.doAdd)
	case "pushRun":
		return rep(a%maxRun+1, r.doPush)
	case "popRun":
		return rep(a%maxRun+1, r.doPop)
	case "popLastRun":
		return rep(a%maxRun+1, r.doPopLast)
	// long runs: hundreds of elements, several growth steps of the buffer
	case "addRunL":
		return rep(a%500+50, r.doAdd)
	case "pushRunL":
		return rep(a%500+50, r.doPush)
	case "popRunL":
		return rep(a%500+50, r.doPop)
	case "popLastRunL":
		return rep(a%500+50, r.doPopLast)
	}
	return r.errf("VK-INFRA unknown op kind %q", op.K)
}

// runQueue interprets c and returns the run (for classification) and "" or a
// violation message.
func runQueue(c Case) (r *qrun, msg string) {
	r = &qrun{c: c, step: -1}
	defer func() {
		// an unexpected panic of the queue is a violation; name the operation
		if p := recover(); p != nil {
			lines := strings.Split(string(debug.Stack()), "\n")
			if len(lines) > 24 {
				lines = lines[:24]
			}
			msg = r.errf("unexpected panic: %v (reference %s)", p, brief(r.ref)) + "\n" + strings.Join(lines, "\n")
		}
	}()
	switch c.Ctor {
	case "zero":
		var q queue.Queue[int]
		r.q = &q
	case "new":
		r.q = queue.New[int]()
	case "size":
		n := c.N
		if n < 0 {
			n = 0
		}
		r.q = queue.NewSize[int](n)
		r.sh = make([]int, n)
	default:
		return r, r.errf("VK-INFRA unknown constructor %q", c.Ctor)
	}
	if msg := r.check(); msg != "" {
		return r, msg
	}
	for i, op := range c.Ops {
		r.step = i
		if msg := r.apply(op); msg != "" {
			return r, msg
		}
	}
	r.step, r.sub = len(c.Ops), 0
	return r, r.check()
}

func (r *qrun) nonTrivial() bool { return r.rotAdd+r.rotPush > 0 }

func runC07(c Case, o *vk.Obs) string {
	r, msg := runQueue(c)
	if msg != "" {
		return msg
	}
	if r.nonTrivial() {
		o.NonTrivial()
	}
	o.Class("ctor=" + c.Ctor)
	o.ClassIf(r.extremePeek > 0, "peek_at_int_range_end")
	o.ClassIf(r.rotAdd > 0, "full_head>0_then_Add(shadow)")
	o.ClassIf(r.rotPush > 0, "full_head>0_then_Push(shadow)")
	o.ClassIf(r.rotAdd > 0 && r.rotPush > 0, "both_rotate_paths(shadow)")
	o.ClassIf(r.growAdd0 > 0, "full_head=0_then_Add(shadow)")
	o.ClassIf(r.growPush0 > 0, "full_head=0_then_Push(shadow)")
	o.ClassIf(r.wrapAdd > 0, "Add_wrapped_tail(shadow)")
	o.ClassIf(r.wrapPush > 0, "Push_wrapped_head_backwards(shadow)")
	o.ClassIf(r.wrapPopL > 0, "PopLast_from_wrapped_tail(shadow)")
	o.ClassIf(r.headWrap > 0, "Pop_wrapped_head_forwards(shadow)")
	o.ClassIf(r.wrapPeek > 0, "observed_while_contents_straddle_buffer_end(shadow)")
	o.ClassIf(r.emptied > 0, "emptied_by_pop")
	o.ClassIf(r.clears > 0, "has_clear")
	switch {
	case r.maxLen == 0:
		o.Class("maxlen=0")
	case r.maxLen <= 8:
		o.Class("maxlen=1..8")
	case r.maxLen <= 32:
		o.Class("maxlen=9..32")
	default:
		o.Class("maxlen>32")
	}
	return ""
}
