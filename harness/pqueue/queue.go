// Package pqueue holds the checks for queue.Queue (C07): the array-based
// ring-buffer deque must behave as a plain sequence across wrap-around and
// regrowth, whatever the element type it is instantiated with (Case.Elem).
package pqueue

import (
	"fmt"
	"math"
	"math/bits"
	"runtime/debug"
	"strconv"
	"strings"

	"github.com/creachadair/mds/queue"
	"verif/elem"
	"verif/vk"
)

// Op is one step of a queue history.  A is a state-independent argument that
// the interpreter resolves against the current length.
type Op struct {
	K string `json:"k"`
	A int    `json:"a,omitempty"`
}

// Case is a complete history for one queue.
type Case struct {
	Ctor string `json:"ctor"`        // "zero" (var q Queue), "new" (New()), "size" (NewSize(N))
	N    int    `json:"n,omitempty"` // argument of NewSize
	// Elem is the element kind the queue is instantiated with: "" (= "int",
	// Queue[int] holding the serial numbers themselves), "string", "i16",
	// "u8", "wide", "ptr", "bytes", "any" (see package elem and specs below).
	Elem string `json:"elem,omitempty"`
	// Ctor "edge": NewSize(N), filled exactly, with the head at offset g+Edge
	// where g is the number of slots append adds to a full buffer of N elements
	// of this element type (beyond 1024 elements the runtime grows by a factor
	// below 2, so g is neither N nor a power of two): the state in which growth
	// arithmetic that is off by one goes wrong.  The Ops follow.
	Edge int `json:"edge,omitempty"`
	// Head != 0 overrides the head offset of constructor "edge": Head > 0 is
	// the offset itself, Head < 0 counts from the end of the buffer (N+Head).
	Head int  `json:"head,omitempty"`
	Ops  []Op `json:"ops"`
}

const maxRun = 20

// KindU8 is a 1-byte element kind (uint8), which package elem does not have:
// the first allocation append makes for such a buffer has room for 8
// elements (4 for the 2-byte "i16"), so the ring starts with another shape
// than for elements of 8 bytes and more (1, 2, 4, ...).
const KindU8 = "u8"

// Kinds lists the element kinds besides "", in the order in which the
// generators cycle through them.
var Kinds = []string{elem.Str, elem.I16, KindU8, elem.Wide, elem.Ptr, elem.Bytes, elem.Any}

// spec says how one element kind carries the serial numbers 1,2,3,...
type spec[T any] struct {
	kit elem.Kit[T]
	// val gives the (V, ID) from which kit.Make builds the element with serial
	// number s:
	//   "" / "int"        V = s
	//   "i16", "u8"       V = s wrapped into 1..65535 (as int16) / 1..255, never the zero
	//                     value; the expected value at every position stays exact
	//   "string", "wide"  V = ID = s
	//   "ptr", "any"      V = parity of the number of one bits of s, ID = s: half of all
	//                     pointees are deeply equal to each other (and to whatever an
	//                     overwritten buffer slot held); the elements differ by identity
	//   "bytes"           one of four texts chosen by two such bits, every time in a new
	//                     backing array
	val func(s int) (v, id int)
	// named: messages call the element with serial number s "#s"; otherwise
	// the element is an integer and is printed as such.
	named  bool
	isZero func(T) bool
	// isSerial (integer kinds) reports whether x is kit.Make(val(s)).
	isSerial func(x T, s int) bool
	// intact checks the content of an element whose identity (kit.Same) is not
	// all there is to it (pointee, bytes); nil for the kinds compared with ==.
	intact func(x T, s int) bool
	// content numbers the (few) contents of such a kind: elements of equal
	// content number are deeply equal to each other.
	content func(s int) uint
}

func eqZero[T comparable](x T) bool { var z T; return x == z }

// parity is the Thue-Morse bit of s: it has no period, so it does not fall in
// step with the power-of-two strides at which ring slots are reused.
func parity(s int) int { return bits.OnesCount(uint(s)) & 1 }

func valSerial(s int) (int, int)       { return s, 0 }
func valBoth(s int) (int, int)         { return s, s }
func valI16(s int) (int, int)          { return int(int16(uint16(1 + (s-1)%65535))), 0 }
func valU8(s int) (int, int)           { return 1 + (s-1)%255, 0 }
func valParity(s int) (int, int)       { return parity(s), s }
func valBytes(s int) (int, int)        { return parity(s), 3 * parity(s>>1) }
func bytesText(s int) string           { return bytesTexts[contentBytes(s)] }
func contentParity(s int) uint         { return uint(parity(s)) }
func contentBytes(s int) uint          { return uint(parity(s) + 2*parity(s>>1)) }
func u8Make(v, _ int) uint8            { return uint8(v) }
func u8V(x uint8) int                  { return int(x) }
func u8ID(uint8) int                   { return 0 }
func u8Same(a, b uint8) bool           { return a == b }
func u8Cmp(a, b uint8) int             { return int(a) - int(b) }
func bytesZero(b []byte) bool          { return b == nil }
func bytesIntact(b []byte, s int) bool { return string(b) == bytesText(s) }

var bytesTexts = [4]string{elem.EncodeStr(0, 0), elem.EncodeStr(1, 0), elem.EncodeStr(0, 3), elem.EncodeStr(1, 3)}

// qstats is what a run reports for classification.
type qstats struct {
	// Labels from the shadow of the documented ring-buffer algorithm; see qrun.
	extremePeek int  // Peek at an offset near math.MinInt / math.MaxInt
	edged       bool // constructor "edge"
	rotAdd      int  // Add on a full buffer with head > 0 (rotate, then grow)
	rotPush     int  // Push on a full buffer with head > 0
	growAdd0    int  // Add on a full buffer with head == 0 (plain append)
	growPush0   int  // Push on a full buffer with head == 0
	wrapAdd     int  // Add stored below head (tail wrapped)
	wrapPush    int  // Push moved head from 0 to len-1
	wrapPopL    int  // PopLast took an element stored below head
	headWrap    int  // Pop moved head from len-1 to 0
	wrapPeek    int  // contents straddled the end of the buffer at a check
	maxLen      int
	emptied     int // became empty by Pop/PopLast
	clears      int
	equalStore  int // "ptr"/"any"/"bytes": an element deeply equal to an element supplied before it
}

// qrun interprets a Case with elements of type T.
type qrun[T any] struct {
	qstats
	c      Case
	sp     *spec[T]
	q      *queue.Queue[T]
	light  bool // see check
	lightN int
	ref    []int // reference sequence, front first
	refE   []T   // named kinds: the elements handed to the queue for ref, in step with it
	els    []T   // named kinds: els[s-1] is the element made for serial number s (for messages)
	seen   uint  // set of content numbers supplied so far
	serial int   // values are 1,2,3,... so loss, duplication and reordering show
	step   int
	sub    int

	// Shadow of the documented ring-buffer algorithm (cap = len(sh), head, n).
	// It only LABELS cases (which path the history should have taken); it is
	// never compared with anything.  sh is a real []T grown by the same
	// append calls, so its capacity follows the runtime's growth rule for the
	// same element type.
	sh     []T
	shHead int
	shN    int
}

func (r *qrun[T]) errf(format string, args ...any) string {
	op := "constructor"
	if r.step >= len(r.c.Ops) {
		op = "final check"
	} else if r.step >= 0 {
		op = fmt.Sprintf("op#%d %+v", r.step, r.c.Ops[r.step])
	}
	ctor := r.c.Ctor
	if ctor == "size" {
		ctor = fmt.Sprintf("NewSize(%d)", r.c.N)
	}
	if r.c.Elem != "" {
		ctor += " elem=" + r.c.Elem
		if r.sp.named {
			ctor += ", #k is the k-th element handed to Add/Push"
		}
	}
	return fmt.Sprintf("%s (sub-step %d, queue %s): %s", op, r.sub, ctor, fmt.Sprintf(format, args...))
}

// ---- shadow (labels only) --------------------------------------------------

func (r *qrun[T]) shGrow() {
	var zero T
	w := append(r.sh, zero)
	r.sh = w[:cap(w)]
}

func (r *qrun[T]) shAdd() {
	if r.shN < len(r.sh) {
		if r.shHead+r.shN >= len(r.sh) {
			r.wrapAdd++
		}
		r.shN++
		return
	}
	if r.shHead > 0 {
		r.rotAdd++
		r.shHead = 0
	} else {
		r.growAdd0++
	}
	r.shGrow()
	r.shN++
}

func (r *qrun[T]) shPush() {
	if r.shN < len(r.sh) {
		pos := r.shHead - 1
		if pos < 0 {
			pos = len(r.sh) - 1
			r.wrapPush++
		}
		r.shHead = pos
		r.shN++
		return
	}
	if r.shHead > 0 {
		r.rotPush++
		r.shHead = 0
	} else {
		r.growPush0++
	}
	r.shGrow()
	r.shHead = len(r.sh) - 1
	r.shN++
}

func (r *qrun[T]) shPop() {
	if r.shN == 0 {
		return
	}
	r.shN--
	if r.shN == 0 {
		r.shHead = 0
		r.emptied++
		return
	}
	r.shHead++
	if r.shHead == len(r.sh) {
		r.shHead = 0
		r.headWrap++
	}
}

func (r *qrun[T]) shPopLast() {
	if r.shN == 0 {
		return
	}
	if r.shHead+r.shN-1 >= len(r.sh) {
		r.wrapPopL++
	}
	r.shN--
	if r.shN == 0 {
		r.shHead = 0
		r.emptied++
	}
}

// ---- oracle ------------------------------------------------------------------

func briefNames(n int, name func(i int) string) string {
	names := make([]string, min(n, 24))
	for i := range names {
		names[i] = name(i)
	}
	s := "[" + strings.Join(names, " ") + "]"
	if n > 24 {
		return fmt.Sprintf("%s…(%d)", s, n)
	}
	return s
}

// want names the element with serial number s the way show does.
func (r *qrun[T]) want(s int) string {
	if r.sp.named {
		return "#" + strconv.Itoa(s)
	}
	v, _ := r.sp.val(s)
	return strconv.Itoa(v)
}

// zero names the zero value of T.
func (r *qrun[T]) zero() string {
	if r.sp.named {
		return "the zero value"
	}
	return "0"
}

// show names an element that came out of the queue: the integer itself, or #s
// for the element made for serial number s.
func (r *qrun[T]) show(x T) (out string) {
	defer func() {
		if recover() != nil {
			out = fmt.Sprintf("<%v, not an element handed to the queue>", any(x))
		}
	}()
	if !r.sp.named {
		return strconv.Itoa(r.sp.kit.V(x))
	}
	if r.sp.isZero(x) {
		return "<zero value>"
	}
	for i, e := range r.els {
		if r.sp.kit.Same(x, e) {
			if r.sp.intact != nil && !r.sp.intact(x, i+1) {
				return fmt.Sprintf("#%d(content changed to %v)", i+1, any(x))
			}
			return "#" + strconv.Itoa(i+1)
		}
	}
	if b, ok := any(x).([]byte); ok {
		return fmt.Sprintf("<%q, not an element handed to the queue>", b)
	}
	return fmt.Sprintf("<%v, not an element handed to the queue>", any(x))
}

func (r *qrun[T]) brief(ref []int) string {
	return briefNames(len(ref), func(i int) string { return r.want(ref[i]) })
}

func (r *qrun[T]) briefE(vs []T) string {
	return briefNames(len(vs), func(i int) string { return r.show(vs[i]) })
}

// is reports whether got is the element at position i of the reference: the
// very element that was handed to the queue (==; the same pointer; the same
// backing array), with its content untouched.  The integer kinds have no
// identity beyond the value, which follows from the serial number.
func (r *qrun[T]) is(got T, i int) bool {
	if !r.sp.named {
		return r.sp.isSerial(got, r.ref[i])
	}
	return r.sp.kit.Same(got, r.refE[i]) && (r.sp.intact == nil || r.sp.intact(got, r.ref[i]))
}

// check compares every observer of the queue with the reference sequence.
func (r *qrun[T]) check() string {
	q, ref := r.q, r.ref
	n := len(ref)
	if n > r.maxLen {
		r.maxLen = n
	}
	if r.light {
		// building a state of thousands of elements: Len and the two ends at
		// every step, the full comparison every 128th
		if r.lightN++; r.lightN%128 != 0 {
			if got := q.Len(); got != n {
				return r.errf("Len = %d, reference sequence has %d elements %s", got, n, r.brief(ref))
			}
			if n > 0 {
				if f, ok := q.Peek(0); !ok || !r.is(f, 0) {
					return r.errf("Peek(0) = (%s, %v), reference %s", r.show(f), ok, r.brief(ref))
				}
				if b, ok := q.Peek(-1); !ok || !r.is(b, n-1) {
					return r.errf("Peek(-1) = (%s, %v), reference %s", r.show(b), ok, r.brief(ref))
				}
			}
			return ""
		}
	}
	if r.shN > 0 && r.shHead+r.shN > len(r.sh) {
		r.wrapPeek++
	}
	if got := q.Len(); got != n {
		return r.errf("Len = %d, reference sequence has %d elements %s", got, n, r.brief(ref))
	}
	if got := q.IsEmpty(); got != (n == 0) {
		return r.errf("IsEmpty = %v, reference sequence has %d elements", got, n)
	}
	if got := q.Front(); n == 0 {
		if !r.sp.isZero(got) {
			return r.errf("Front = %s, want %s (reference %s)", r.show(got), r.zero(), r.brief(ref))
		}
	} else if !r.is(got, 0) {
		return r.errf("Front = %s, want %s (reference %s)", r.show(got), r.want(ref[0]), r.brief(ref))
	}
	sl := q.Slice()
	if n == 0 && sl != nil {
		return r.errf("Slice of an empty queue = %s (len %d), want nil", r.briefE(sl), len(sl))
	}
	if len(sl) != n {
		return r.errf("Slice = %s, reference %s", r.briefE(sl), r.brief(ref))
	}
	for i := range sl {
		if !r.is(sl[i], i) {
			return r.errf("Slice[%d] = %s, reference has %s: got %s want %s", i, r.show(sl[i]), r.want(ref[i]), r.briefE(sl), r.brief(ref))
		}
	}
	i := 0
	bad := -1
	q.Each(func(v T) bool {
		if bad < 0 && (i >= n || !r.is(v, i)) {
			bad = i
		}
		i++
		return true
	})
	if bad >= 0 || i != n {
		var got []T
		q.Each(func(v T) bool { got = append(got, v); return len(got) < n+8 })
		return r.errf("Each lists %s, reference %s", r.briefE(got), r.brief(ref))
	}
	for off := -n - 2; off <= n+2; off++ {
		if msg := r.checkPeek(off); msg != "" {
			return msg
		}
	}
	return ""
}

func (r *qrun[T]) checkPeek(off int) string {
	n := len(r.ref)
	idx := off
	if idx < 0 {
		idx += n
	}
	got, ok := r.q.Peek(off)
	if idx < 0 || idx >= n {
		if ok {
			return r.errf("Peek(%d) = (%s, true) on a queue of %d elements, want ok = false", off, r.show(got), n)
		}
		return ""
	}
	if !ok || !r.is(got, idx) {
		return r.errf("Peek(%d) = (%s, %v), want (%s, true) (reference %s)", off, r.show(got), ok, r.want(r.ref[idx]), r.brief(r.ref))
	}
	return ""
}

func (r *qrun[T]) checkEachStop(j int) string {
	n := len(r.ref)
	if n == 0 {
		calls := 0
		r.q.Each(func(T) bool { calls++; return true })
		if calls != 0 {
			return r.errf("Each on an empty queue made %d callbacks", calls)
		}
		return ""
	}
	j = j%n + 1
	var got []T
	r.q.Each(func(v T) bool { got = append(got, v); return len(got) < j })
	if len(got) != j {
		return r.errf("Each made %d callbacks although the callback returned false at #%d", len(got), j)
	}
	for i := range got {
		if !r.is(got[i], i) {
			return r.errf("Each[%d] = %s, reference has %s", i, r.show(got[i]), r.want(r.ref[i]))
		}
	}
	// a second Each (and a Slice) from inside the callback of the first, at
	// element j: both iterations must list the whole queue
	var outer, inner []T
	r.q.Each(func(v T) bool {
		if outer = append(outer, v); len(outer) == j {
			r.q.Each(func(w T) bool { inner = append(inner, w); return true })
			_ = r.q.Slice()
		}
		return true
	})
	for name, l := range map[string][]T{"outer": outer, "inner": inner} {
		if len(l) != n {
			return r.errf("Each with a second Each run inside its callback (at element %d): the %s iteration made %d callbacks, the queue holds %d", j, name, len(l), n)
		}
		for i := range l {
			if !r.is(l[i], i) {
				return r.errf("Each with a second Each run inside its callback (at element %d): %s[%d] = %s, reference has %s", j, name, i, r.show(l[i]), r.want(r.ref[i]))
			}
		}
	}
	return ""
}

// ---- operations ----------------------------------------------------------------

// next makes the element for the next serial number.  For the kinds with an
// identity every call gives a new element (a new pointer, a new backing
// array), also when its content equals that of an earlier one.
func (r *qrun[T]) next() T {
	r.serial++
	v, id := r.sp.val(r.serial)
	e := r.sp.kit.Make(v, id)
	if r.sp.content != nil {
		if bit := uint(1) << r.sp.content(r.serial); r.seen&bit != 0 {
			r.equalStore++
		} else {
			r.seen |= bit
		}
	}
	if r.sp.named {
		r.els = append(r.els, e)
	}
	return e
}

func (r *qrun[T]) doAdd() string {
	e := r.next()
	r.q.Add(e)
	r.ref = append(r.ref, r.serial)
	if r.sp.named {
		r.refE = append(r.refE, e)
	}
	r.shAdd()
	return r.check()
}

func (r *qrun[T]) doPush() string {
	e := r.next()
	r.q.Push(e)
	r.ref = append([]int{r.serial}, r.ref...)
	if r.sp.named {
		r.refE = append([]T{e}, r.refE...)
	}
	r.shPush()
	return r.check()
}

func (r *qrun[T]) doPop() string {
	got, ok := r.q.Pop()
	if len(r.ref) == 0 {
		if ok || !r.sp.isZero(got) {
			return r.errf("Pop on an empty queue = (%s, %v), want (%s, false)", r.show(got), ok, r.zero())
		}
	} else {
		match := r.is(got, 0)
		want := r.ref[0]
		r.ref = r.ref[1:]
		if r.sp.named {
			r.refE = r.refE[1:]
		}
		if !ok || !match {
			return r.errf("Pop = (%s, %v), want (%s, true); rest of the reference %s", r.show(got), ok, r.want(want), r.brief(r.ref))
		}
	}
	r.shPop()
	return r.check()
}

func (r *qrun[T]) doPopLast() string {
	got, ok := r.q.PopLast()
	if len(r.ref) == 0 {
		if ok || !r.sp.isZero(got) {
			return r.errf("PopLast on an empty queue = (%s, %v), want (%s, false)", r.show(got), ok, r.zero())
		}
	} else {
		last := len(r.ref) - 1
		match := r.is(got, last)
		want := r.ref[last]
		r.ref = r.ref[:last]
		if r.sp.named {
			r.refE = r.refE[:last]
		}
		if !ok || !match {
			return r.errf("PopLast = (%s, %v), want (%s, true); rest of the reference %s", r.show(got), ok, r.want(want), r.brief(r.ref))
		}
	}
	r.shPopLast()
	return r.check()
}

func (r *qrun[T]) apply(op Op) string {
	r.sub = 0
	rep := func(n int, f func() string) string {
		for i := 0; i < n; i++ {
			r.sub = i
			if msg := f(); msg != "" {
				return msg
			}
		}
		return ""
	}
	a := op.A
	if a < 0 {
		a = -a
	}
	switch op.K {
	case "add":
		return r.doAdd()
	case "push":
		return r.doPush()
	case "pop":
		return r.doPop()
	case "poplast":
		return r.doPopLast()
	case "clear":
		r.q.Clear()
		r.ref, r.refE = nil, nil
		r.sh, r.shHead, r.shN = nil, 0, 0
		r.clears++
		return r.check()
	case "front", "slice", "len":
		return r.check() // all three are part of the comparison after every step
	case "peek":
		n := len(r.ref)
		if a >= 380 { // offsets at the ends of the int range (negation and addition overflow)
			ext := []int{math.MinInt, math.MinInt + 1, -math.MaxInt + 1, math.MaxInt, math.MaxInt - 1, math.MinInt + n, math.MaxInt - n, -1 << 31, 1 << 31, -1 << 32, 1 << 32}
			r.extremePeek++
			return r.checkPeek(ext[a%len(ext)])
		}
		return r.checkPeek(a%(2*n+5) - n - 2)
	case "each":
		return r.checkEachStop(a)
	case "addRun":
		return rep(a%maxRun+1, r.doAdd)
	case "pushRun":
		return rep(a%maxRun+1, r.doPush)
	case "popRun":
		return rep(a%maxRun+1, r.doPop)
	case "popLastRun":
		return rep(a%maxRun+1, r.doPopLast)
	// long runs: hundreds of elements, several growth steps of the buffer
	case "addRunL":
		return rep(a%500+50, r.doAdd)
	case "pushRunL":
		return rep(a%500+50, r.doPush)
	case "popRunL":
		return rep(a%500+50, r.doPop)
	case "popLastRunL":
		return rep(a%500+50, r.doPopLast)
	}
	return r.errf("VK-INFRA unknown op kind %q", op.K)
}

// runQueueT interprets c with elements of type T and returns the run's labels
// (for classification) and "" or a violation message.
func runQueueT[T any](c Case, sp *spec[T], o *vk.Obs) (st *qstats, msg string) {
	r := &qrun[T]{c: c, sp: sp, step: -1}
	st = &r.qstats
	defer func() {
		// an unexpected panic of the queue is a violation; name the operation
		if p := recover(); p != nil {
			lines := strings.Split(string(debug.Stack()), "\n")
			if len(lines) > 24 {
				lines = lines[:24]
			}
			msg = r.errf("unexpected panic: %v (reference %s)", p, r.brief(r.ref)) + "\n" + strings.Join(lines, "\n")
		}
	}()
	switch c.Ctor {
	case "zero":
		var q queue.Queue[T]
		r.q = &q
	case "new":
		r.q = queue.New[T]()
	case "size":
		n := c.N
		if n < 0 {
			n = 0
		}
		r.q = queue.NewSize[T](n)
		r.sh = make([]T, n)
	case "edge":
		n := min(max(c.N, 2), 20000)
		r.q = queue.NewSize[T](n)
		r.sh = make([]T, n)
		var zero T
		g := cap(append(make([]T, n), zero)) - n
		h := g + c.Edge
		for h >= n {
			h -= n / 2
		}
		h = max(h, 1)
		if c.Head > 0 {
			h = min(c.Head, n-1)
		} else if c.Head < 0 {
			h = max(n+c.Head, 1)
		}
		r.light = true
		for i := 0; i < n+2*h && msg == ""; i++ {
			switch {
			case i < n, i >= n+h:
				msg = r.doAdd()
			default:
				msg = r.doPop()
			}
		}
		r.light = false
		if msg != "" {
			return st, msg
		}
		r.edged = true
	default:
		return st, r.errf("VK-INFRA unknown constructor %q", c.Ctor)
	}
	if msg := r.check(); msg != "" {
		return st, msg
	}
	for i, op := range c.Ops {
		o.Step() // interleaved execution (vk.Interleave) switches to the other case here
		r.step = i
		if msg := r.apply(op); msg != "" {
			return st, msg
		}
	}
	r.step, r.sub = len(c.Ops), 0
	return st, r.check()
}

// The specs of the element kinds (built once: the kits are stateless).
var (
	ptrKit, anyKit = elem.PtrKit(), elem.AnyKit()

	i16Kit, bytesKit = elem.I16Kit(), elem.BytesKit()

	specInt = spec[int]{kit: elem.IntKit(), val: valSerial, isZero: eqZero[int],
		isSerial: func(x int, s int) bool { return x == s }}
	specI16 = spec[int16]{kit: i16Kit, val: valI16, isZero: eqZero[int16],
		isSerial: func(x int16, s int) bool { v, _ := valI16(s); return x == i16Kit.Make(v, 0) }}
	specU8 = spec[uint8]{kit: elem.Kit[uint8]{Kind: KindU8, Make: u8Make, V: u8V, ID: u8ID, Same: u8Same, Cmp: u8Cmp}, val: valU8, isZero: eqZero[uint8],
		isSerial: func(x uint8, s int) bool { v, _ := valU8(s); return x == u8Make(v, 0) }}
	specStr  = spec[string]{kit: elem.StrKit(), val: valBoth, named: true, isZero: eqZero[string]}
	specWide = spec[elem.WideElem]{kit: elem.WideKit(), val: valBoth, named: true, isZero: eqZero[elem.WideElem]}
	specPtr  = spec[*elem.Cell]{kit: ptrKit, val: valParity, named: true, isZero: eqZero[*elem.Cell],
		intact: func(x *elem.Cell, s int) bool { return ptrKit.V(x) == parity(s) }, content: contentParity}
	specAny = spec[any]{kit: anyKit, val: valParity, named: true, isZero: eqZero[any],
		intact: func(x any, s int) bool { return anyKit.V(x) == parity(s) }, content: contentParity}
	specBytes = spec[[]byte]{kit: bytesKit, val: valBytes, named: true, isZero: bytesZero,
		intact: bytesIntact, content: contentBytes}
)

// runQueue instantiates the interpreter with the element kind of the case.
func runQueue(c Case, o *vk.Obs) (*qstats, string) {
	switch c.Elem {
	case "", elem.Int:
		return runQueueT(c, &specInt, o)
	case elem.I16:
		return runQueueT(c, &specI16, o)
	case KindU8:
		return runQueueT(c, &specU8, o)
	case elem.Str:
		return runQueueT(c, &specStr, o)
	case elem.Wide:
		return runQueueT(c, &specWide, o)
	case elem.Ptr:
		// The side table of IDs is shared by all goroutines, so it is reset but
		// never read here: identity is checked against the elements themselves.
		elem.ResetPtr()
		return runQueueT(c, &specPtr, o)
	case elem.Any:
		elem.ResetPtr()
		return runQueueT(c, &specAny, o)
	case elem.Bytes:
		return runQueueT(c, &specBytes, o)
	}
	return &qstats{}, fmt.Sprintf("constructor (queue %s): VK-INFRA unknown element kind %q", c.Ctor, c.Elem)
}

func capsOf[T any](n int) []int {
	var s []T
	var out []int
	for len(out) < n {
		var zero T
		w := append(s, zero)
		s = w[:cap(w)]
		out = append(out, len(s))
	}
	return out
}

// FirstCaps returns the first n buffer lengths a queue of the given element
// kind goes through when it grows from no storage the documented way (append,
// then use the whole capacity): 1, 2, 4, ... for elements of 8 bytes and
// more, 4, 8, ... for "i16", 8, 16, ... for "u8".  For the generators.
func FirstCaps(kind string, n int) []int {
	switch kind {
	case elem.I16:
		return capsOf[int16](n)
	case KindU8:
		return capsOf[uint8](n)
	case elem.Str:
		return capsOf[string](n)
	case elem.Wide:
		return capsOf[elem.WideElem](n)
	case elem.Ptr:
		return capsOf[*elem.Cell](n)
	case elem.Any:
		return capsOf[any](n)
	case elem.Bytes:
		return capsOf[[]byte](n)
	}
	return capsOf[int](n)
}

func (r *qstats) nonTrivial() bool { return r.rotAdd+r.rotPush > 0 }

func runC07(c Case, o *vk.Obs) string {
	r, msg := runQueue(c, o)
	if msg != "" {
		return msg
	}
	if r.nonTrivial() {
		o.NonTrivial()
	}
	o.Class("ctor=" + c.Ctor)
	o.Class("elem=" + elemLabel(c.Elem))
	o.ClassIf(r.nonTrivial(), "rotate_path(shadow)_with_elem="+elemLabel(c.Elem))
	o.ClassIf(r.equalStore > 0, "new_element_deeply_equal_to_an_earlier_one")
	o.ClassIf(r.extremePeek > 0, "peek_at_int_range_end")
	o.ClassIf(r.edged, "full_buffer_beyond_1024_with_head_at_the_growth_amount")
	o.ClassIf(r.rotAdd > 0, "full_head>0_then_Add(shadow)")
	o.ClassIf(r.rotPush > 0, "full_head>0_then_Push(shadow)")
	o.ClassIf(r.rotAdd > 0 && r.rotPush > 0, "both_rotate_paths(shadow)")
	o.ClassIf(r.growAdd0 > 0, "full_head=0_then_Add(shadow)")
	o.ClassIf(r.growPush0 > 0, "full_head=0_then_Push(shadow)")
	o.ClassIf(r.wrapAdd > 0, "Add_wrapped_tail(shadow)")
	o.ClassIf(r.wrapPush > 0, "Push_wrapped_head_backwards(shadow)")
	o.ClassIf(r.wrapPopL > 0, "PopLast_from_wrapped_tail(shadow)")
	o.ClassIf(r.headWrap > 0, "Pop_wrapped_head_forwards(shadow)")
	o.ClassIf(r.wrapPeek > 0, "observed_while_contents_straddle_buffer_end(shadow)")
	o.ClassIf(r.emptied > 0, "emptied_by_pop")
	o.ClassIf(r.clears > 0, "has_clear")
	switch {
	case r.maxLen == 0:
		o.Class("maxlen=0")
	case r.maxLen <= 8:
		o.Class("maxlen=1..8")
	case r.maxLen <= 32:
		o.Class("maxlen=9..32")
	default:
		o.Class("maxlen>32")
	}
	return ""
}

// elemLabel is the class label of an element kind.
func elemLabel(kind string) string {
	if kind == "" {
		return "default(int)"
	}
	return kind
}
