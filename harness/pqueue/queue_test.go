package pqueue

import (
	"fmt"
	"sync"
	"testing"
	"verif/elem"

	"pgregory.net/rapid"
	"verif/vk"
)

var opKinds = []string{
	"add", "add", "add", "add", "push", "push", "push", "pop", "pop", "pop", "poplast", "poplast", "poplast",
	"clear", "front", "peek", "peek", "each", "slice", "len",
	"addRun", "addRun", "pushRun", "pushRun", "popRun", "popRun", "popLastRun", "popLastRun",
}

// genOp draws one operation.  longMax bounds the argument of the long runs.
func genOp(t *rapid.T, longMax int) Op {
	k := rapid.SampledFrom(opKinds).Draw(t, "kind")
	op := Op{K: k}
	switch k {
	case "peek", "each":
		op.A = rapid.IntRange(0, 400).Draw(t, "a")
	case "addRun", "pushRun", "popRun", "popLastRun":
		op.A = rapid.IntRange(0, maxRun-1).Draw(t, "run")
	}
	if rapid.IntRange(0, 39).Draw(t, "longRun") == 0 {
		op = Op{K: rapid.SampledFrom([]string{"addRunL", "addRunL", "pushRunL", "pushRunL", "popRunL", "popLastRunL"}).Draw(t, "longKind"), A: rapid.IntRange(0, longMax).Draw(t, "longLen")}
	}
	return op
}

// genEdgeCase: a full buffer of more than 1024 elements whose head offset is
// within one of the amount append will add, followed by Add / Push and a few
// ordinary operations.
func genEdgeCase(t *rapid.T) Case {
	c := Case{Ctor: "edge",
		N:    rapid.SampledFrom([]int{1025, 1025, 1100, 1536, 2049, 2100, 3000, 4097}).Draw(t, "edgeN") + rapid.IntRange(0, 3).Draw(t, "edgeOff"),
		Edge: rapid.SampledFrom([]int{-1, 0, 0, 1, 1, 2}).Draw(t, "edge"),
		Elem: rapid.SampledFrom([]string{"", "", elem.Str, elem.I16, KindU8, elem.Wide, elem.Ptr}).Draw(t, "edgeElem")}
	if rapid.IntRange(0, 1).Draw(t, "edgeAbs") == 0 {
		// a full buffer of a round size (or one off) with the head a few slots from either end
		c.N = rapid.SampledFrom([]int{1024, 2048, 4096, 4096, 8192, 16384}).Draw(t, "edgeN2") + rapid.IntRange(-1, 1).Draw(t, "edgeOff2")
		c.Head = rapid.SampledFrom([]int{1, 2, 3, 4, 5, 7, 8, 9, 15, 16, 17, 31, 32, 33, 64, -1, -2, -3, -4, -5, -8, -16, -32}).Draw(t, "edgeHead")
	}
	c.Ops = append(c.Ops, Op{K: rapid.SampledFrom([]string{"add", "push"}).Draw(t, "edgeFirst")})
	c.Ops = append(c.Ops, rapid.SliceOfN(rapid.Custom(func(t *rapid.T) Op { return genOp(t, 0) }), 0, 6).Draw(t, "edgeOps")...)
	return c
}

func genCase(t *rapid.T) Case {
	if vk.Rare(t, "edgeCase", 150) {
		return genEdgeCase(t)
	}
	c := Case{Ctor: rapid.SampledFrom([]string{"zero", "new", "size", "size", "size"}).Draw(t, "ctor")}
	if c.Ctor == "size" {
		c.N = rapid.OneOf(rapid.IntRange(0, 17), rapid.IntRange(0, 17), rapid.SampledFrom([]int{31, 32, 33, 63, 64, 65, 100, 127, 128, 129, 255, 256, 257, 511, 512, 513, 1024, 1025, 1500, 2049})).Draw(t, "n") // also big, mostly empty buffers
	}
	// About half of the cases keep the original Queue[int]; the rest is spread
	// over the other element kinds.
	if rapid.Bool().Draw(t, "otherElem") {
		c.Elem = rapid.SampledFrom(Kinds).Draw(t, "elem")
	}
	// The comparison after every step costs time in proportion to the length
	// of the queue, and a multiple of it for the elements that are not plain
	// integers: three in four of their cases keep the long runs to 50..149
	// elements (several growth steps all the same), the others go up to 549
	// like the cases of Queue[int].
	longMax := 499
	if c.Elem != "" && rapid.IntRange(0, 3).Draw(t, "shortRuns") > 0 {
		longMax = 99
	}
	ops := rapid.SliceOfN(rapid.Custom(func(t *rapid.T) Op { return genOp(t, longMax) }), 0, 76).Draw(t, "ops")
	// Construction instead of rejection: most cases start with a prefix that
	// (by the documented algorithm) fills the buffer exactly while the head is
	// in the middle, followed by the Add or Push that has to rotate and grow.
	// The generator knows the capacity only for the constructor state, which
	// is why this is a prefix; the random tail reaches the same state later by
	// itself in a measured share of cases (see classes).
	var pre []Op
	run := func(kind string, n int) {
		for n > 0 {
			k := min(n, maxRun)
			pre = append(pre, Op{K: kind + "Run", A: k - 1})
			n -= k
		}
	}
	if rapid.IntRange(0, 3).Draw(t, "structured") > 0 {
		capacity := c.N
		if c.Ctor != "size" || capacity == 0 || rapid.Bool().Draw(t, "grown") {
			// fill from empty up to a capacity that append produces
			if c.Ctor == "size" && c.N > 0 {
				// NewSize(n): fill, grow once, then start over from nil storage
				run("add", c.N+1)
				pre = append(pre, Op{K: "clear"})
			}
			// (1, 2, 4, 8, 16 for most kinds; small elements start at 4 or 8)
			capacity = rapid.SampledFrom(FirstCaps(c.Elem, 5)).Draw(t, "cap")
			run("add", capacity) // full, head == 0
			j := rapid.IntRange(1, capacity).Draw(t, "popped")
			if rapid.Bool().Draw(t, "fromBack") {
				run("popLast", j)
				// refill from the front: head moves backwards past index 0
				run("push", j)
			} else {
				run("pop", j) // head == j (or 0 if emptied)
				pushes := rapid.IntRange(0, j).Draw(t, "pushes")
				run("add", j-pushes)
				run("push", pushes)
			}
		} else {
			// NewSize(capacity) is empty: Push wraps the head to the last slot
			a := rapid.IntRange(1, capacity).Draw(t, "pushes")
			run("push", a)
			run("add", capacity-a) // full with head == capacity-a
		}
		trig := Op{K: rapid.SampledFrom([]string{"add", "push", "addRun", "pushRun"}).Draw(t, "trigger")}
		if trig.K == "addRun" || trig.K == "pushRun" {
			trig.A = rapid.IntRange(0, maxRun-1).Draw(t, "triggerRun")
		}
		pre = append(pre, trig)
	}
	c.Ops = append(pre, ops...)
	return c
}

func init() {
	vk.Register("C07", "hist", runC07)
	vk.Register("C07", "exh", runC07)
}

func TestC07Hist(t *testing.T) {
	h := vk.Start(t, "C07", "hist")
	vk.Rapid(h, t, genCase, runC07)
}

var exhKinds = [4]string{"add", "push", "pop", "poplast"}

// elemClass and rotateClass map an element kind to its class labels.
var elemClass, rotateClass = func() (e, r map[string]string) {
	e, r = map[string]string{}, map[string]string{}
	for _, k := range append([]string{""}, Kinds...) {
		e[k] = "elem=" + elemLabel(k)
		r[k] = "rotate_path(shadow)_with_elem=" + elemLabel(k)
	}
	return e, r
}()

// TestC07Exh enumerates, in size order, every sequence over {Add, Push, Pop,
// PopLast} up to a length bound for each NewSize(n), n in 0..4, with the full
// comparison after every operation.  Up to the bound every case runs with the
// original Queue[int]; up to the bound less one every case runs a second time
// with one of the other element kinds, cycling through them by case index.
func TestC07Exh(t *testing.T) {
	h := vk.Start(t, "C07", "exh")
	maxLen := h.Pick(9, 11)
	sizes := 5
	type wstate struct {
		tl   *vk.Tally
		slot interface {
			Enter(any)
			Leave()
		}
	}
	var ws []*wstate
	var failMu sync.Mutex
	var failPath, failMsg string
	worker := func(w int) *wstate {
		return ws[w]
	}
	maxW := vk.Workers(1 << 30)
	for i := 0; i < maxW; i++ {
		ws = append(ws, &wstate{tl: vk.NewTally(), slot: h.Slot()})
	}
	mk := func(l, i int) Case {
		c := Case{Ctor: "size", N: i % sizes, Ops: make([]Op, l)}
		if space := sizes << (2 * l); i >= space { // second pass: another element kind
			i -= space // (a multiple of sizes: N stays)
			c.Elem = Kinds[i%len(Kinds)]
		}
		code := i / sizes
		for p := 0; p < l; p++ {
			c.Ops[p] = Op{K: exhKinds[code&3]}
			code >>= 2
		}
		return c
	}
	for l := 0; l <= maxLen && !h.Failed(); l++ {
		total := sizes << (2 * l)
		if l < maxLen {
			total *= 2
		}
		lenLabel := fmt.Sprintf("len=%d", l)
		vk.Parallel(h, total, func(w, i int) {
			st := worker(w)
			c := mk(l, i)
			st.slot.Enter(c)
			var r *qstats
			msg := vk.Guard(func() string { var m string; r, m = runQueue(c, nil); return m })
			st.slot.Leave()
			if msg != "" {
				p := h.Fail(c, msg)
				failMu.Lock()
				failPath, failMsg = p, msg
				failMu.Unlock()
				return
			}
			st.tl.Evals++
			if r.nonTrivial() {
				st.tl.NT++
			}
			if r.rotAdd > 0 {
				st.tl.Classes["full_head>0_then_Add(shadow)"]++
			}
			if r.rotPush > 0 {
				st.tl.Classes["full_head>0_then_Push(shadow)"]++
			}
			if r.wrapPush > 0 {
				st.tl.Classes["Push_wrapped_head_backwards(shadow)"]++
			}
			if r.wrapPopL > 0 {
				st.tl.Classes["PopLast_from_wrapped_tail(shadow)"]++
			}
			if r.headWrap > 0 {
				st.tl.Classes["Pop_wrapped_head_forwards(shadow)"]++
			}
			st.tl.Classes[lenLabel]++
			st.tl.Classes[elemClass[c.Elem]]++
			if r.nonTrivial() {
				st.tl.Classes[rotateClass[c.Elem]]++
			}
		})
	}
	for _, st := range ws {
		h.MergeTally(st.tl)
	}
	if h.Failed() {
		h.Flush()
		t.Fatalf("VK-VIOLATION property=C07 leg=exh replay=%s\n%s", failPath, failMsg)
	}
	// a few samples: the shortest sequence that takes each rotate path, plus two fixed ones
	h.Sample(Case{Ctor: "size", N: 2, Ops: []Op{{K: "add"}, {K: "add"}, {K: "pop"}, {K: "add"}, {K: "add"}}}, true)
	h.Sample(Case{Ctor: "size", N: 3, Ops: []Op{{K: "push"}, {K: "add"}, {K: "add"}, {K: "push"}}}, true)
	h.Sample(mk(4, 77), false)
	h.Sample(mk(5, sizes<<10+4321), false)
	h.Sample(mk(maxLen, 123457), false)
	h.Exhaustive()
}

func TestReplay(t *testing.T) { vk.ReplayMain(t) }
