package pcache

import (
	"fmt"
	"strconv"
	"strings"

	"github.com/creachadair/mds/cache"
	"verif/elem"
)

// ---------------------------------------------------------------------------
// Key and value kinds.  The interpreters keep their reference models in ints
// (keys) and Vals (a unique id and the size the value reports), exactly as
// they did when the cache was instantiated as Cache[int, Val] only; the kits
// below convert at the library boundary.
//
// Value kinds (field Elem of a case; "" = the struct Val itself):
//
//	ptr, any  *elem.Cell (for "any" inside an interface): the pointee holds the
//	          SIZE only, so the values of two Puts that report the same size
//	          are deeply equal although they are different elements; the id
//	          lives in elem's side table.  Size function: the pointee's V.
//	wide      elem.WideElem (96 bytes): Val = size, Tag = id.
//	string,   text / a byte slice whose LENGTH is its size, with cache.Length
//	bytes     as the size function.  So that the id fits into every non-empty
//	          value, lengths and the limit are multiples of lenScale (the
//	          arithmetic of the case is unchanged, everything is x8).  The
//	          empty value has size 0 and no identity: its model id is 0.
//
// Key kinds (field KElem; "" = int): string, wide, i16 through elem's kits.

// lenScale is the factor applied to the limit and to every size for the kinds
// whose size is their length.
const lenScale = 8

// noID is the model id of a value that cannot carry one (the empty string).
const noID = 0

var (
	valKinds = []string{elem.Ptr, elem.Any, elem.Wide, elem.Str, elem.Bytes}
	keyKinds = []string{elem.Str, elem.Wide, elem.I16}
)

// keyKit converts the interpreter's int keys to the cache's key type.  Key 0
// is the zero value of the key type ("" for string keys, the all-zero struct
// for wide ones): a legitimate key like any other.
type keyKit[K comparable] struct {
	kind string
	mk   func(int) K
	v    func(K) int
}

func keyKitOf[K comparable](k elem.Kit[K]) keyKit[K] {
	var zero K
	return keyKit[K]{kind: k.Kind,
		mk: func(x int) K {
			if x == 0 {
				return zero
			}
			return k.Make(x, 0)
		},
		v: func(x K) int {
			if x == zero {
				return 0
			}
			return k.V(x)
		},
	}
}

func intKeys() keyKit[int] { return keyKitOf(elem.IntKit()) }

// valKit converts the interpreter's Vals to the cache's value type.
type valKit[V any] struct {
	kind string
	// scale is lenScale for the kinds whose size is their length (and a size
	// function is in use), else 1.
	scale int64
	// hasID: an element can be told from another one of equal Val (same).
	hasID bool
	// mk returns the element for v.  For ptr/any/bytes every call allocates.
	mk func(Val) V
	// val recovers the Val of an element that came back from the cache.
	val  func(V) Val
	same func(a, b V) bool
	// size is what the case hands to WithSize.
	size func(V) int64
}

func structVals() valKit[Val] {
	return valKit[Val]{kind: "", scale: 1, hasID: true,
		mk:   func(v Val) Val { return v },
		val:  func(v Val) Val { return v },
		same: func(a, b Val) bool { return a == b },
		size: func(v Val) int64 { return v.Size },
	}
}

// cellVals adapts one of elem's kits: V of the element = the size, ID = the id.
func cellVals[T any](k elem.Kit[T]) valKit[T] {
	return valKit[T]{kind: k.Kind, scale: 1, hasID: k.HasID,
		mk:   func(v Val) T { return k.Make(int(v.Size), v.ID) },
		val:  func(x T) Val { return Val{ID: k.ID(x), Size: int64(k.V(x))} },
		same: k.Same,
		size: func(x T) int64 { return int64(k.V(x)) },
	}
}

// lenText is the text of a value of the length-sized kinds: 8 hex digits of
// the id, padded to the size; with no size function in use (unit) the padding
// is 0..60 characters chosen by the id: texts of many lengths, each of which
// counts as one entry like everything else.
func lenText(v Val, unit bool) string {
	if unit {
		return fmt.Sprintf("%08x", v.ID) + strings.Repeat(".", (v.ID*7)%61)
	}
	if v.Size == 0 {
		return ""
	}
	if v.Size < lenScale || v.Size > 1<<20 {
		panic(fmt.Sprintf("harness error: a value of size %d cannot be written as a text of that length", v.Size))
	}
	return fmt.Sprintf("%08x", v.ID) + strings.Repeat(".", int(v.Size)-lenScale)
}

func lenVal(s string, unit bool) Val {
	v := Val{ID: -1 << 40, Size: int64(len(s))} // -1<<40: a text the harness never made
	if unit {
		v.Size = 1
	}
	if len(s) == 0 && !unit {
		v.ID = noID
	} else if len(s) >= lenScale {
		if id, err := strconv.ParseUint(s[:lenScale], 16, 32); err == nil {
			v.ID = int(id)
		}
	}
	return v
}

func scaleOf(unit bool) int64 {
	if unit {
		return 1
	}
	return lenScale
}

func stringVals(unit bool) valKit[string] {
	return valKit[string]{kind: elem.Str, scale: scaleOf(unit), hasID: true,
		mk:   func(v Val) string { return lenText(v, unit) },
		val:  func(s string) Val { return lenVal(s, unit) },
		same: func(a, b string) bool { return a == b },
		size: cache.Length[string],
	}
}

func bytesVals(unit bool) valKit[[]byte] {
	return valKit[[]byte]{kind: elem.Bytes, scale: scaleOf(unit), hasID: true,
		mk:   func(v Val) []byte { return []byte(lenText(v, unit)) },
		val:  func(b []byte) Val { return lenVal(string(b), unit) },
		same: func(a, b []byte) bool { return len(a) == len(b) && (len(a) == 0 || &a[0] == &b[0]) },
		size: cache.Length[[]byte],
	}
}

// kindName is the label used in the elem=<kind> / kelem=<kind> classes.
func kindName(e, def string) string {
	if e == "" {
		return def
	}
	return e
}

func badKind(what, e string) string {
	return fmt.Sprintf("VK-INFRA unknown %s kind %q", what, e)
}

// usesCells reports whether the value kind draws on elem's pointer side table.
func usesCells(e string) bool { return e == elem.Ptr || e == elem.Any }

// kv is one (key, value) pair in the cache's own types.
type kv[K comparable, V any] struct {
	k K
	v V
}
