package pcache

import (
	"encoding/json"
	"fmt"
	"os"
	"path/filepath"
	"strconv"
	"sync"
	"testing"
	"time"

	"pgregory.net/rapid"
	"verif/elem"
	"verif/vk"
)

var wopKinds = []string{"put", "put", "put", "put", "get", "get", "has", "remove", "remove", "len", "size", "clear"}

var wopKindsFocus = []string{"put", "put", "put", "get", "get", "has", "has", "has", "remove", "len", "size"}

var genWorkload = rapid.Custom(func(t *rapid.T) Workload {
	w := Workload{
		Limit: rapid.IntRange(3, 5).Draw(t, "limit"),
		Procs: rapid.SampledFrom([]int{1, 2, 4, 16}).Draw(t, "procs"),
		Spin:  rapid.SampledFrom([]int{0, 0, 50, 500, 5000}).Draw(t, "spin"),
		Yield: rapid.IntRange(0, 7).Draw(t, "yield"),
	}
	if rapid.Bool().Draw(t, "kinded") {
		// half of the workloads keep Cache[int, Val]
		w.Elem = rapid.SampledFrom([]string{"", elem.Ptr, elem.Ptr, elem.Str}).Draw(t, "elem")
		w.KElem = rapid.SampledFrom([]string{"", elem.Str, elem.Wide}).Draw(t, "kelem")
	}
	if rapid.IntRange(0, 2).Draw(t, "store") == 0 {
		w.Store = "user"
	}
	if rapid.IntRange(0, 4).Draw(t, "sequential") == 0 {
		w.G = [][]WOp{genSequential(t, &w)}
		return w
	}
	ng := rapid.IntRange(2, 4).Draw(t, "ng")
	// Focus modes: a narrow key range and values nearly as large as the limit
	// keep the cache at one or two entries, so that replacing and
	// everything-evicting Puts overlap reads of the same key.  At most 5 keys:
	// zero-size values do not count against the limit, and the cache has to
	// stay at <= 5 entries (known finding F2).
	nkeys := rapid.SampledFrom([]int{5, 4, 4, 2, 2, 1}).Draw(t, "nkeys")
	bigVals := rapid.IntRange(0, 2).Draw(t, "bigvals") == 0
	kinds := wopKinds
	if nkeys <= 2 {
		kinds = wopKindsFocus
	}
	for g := 0; g < ng; g++ {
		n := rapid.IntRange(4, 12).Draw(t, "nops")
		var ops []WOp
		for i := 0; i < n; i++ {
			op := WOp{Kind: rapid.SampledFrom(kinds).Draw(t, "k")}
			switch op.Kind {
			case "put":
				op.K, op.S = rapid.IntRange(0, nkeys-1).Draw(t, "key"), rapid.SampledFrom([]int{1, 2, 3, 1, 2, 3, 0}).Draw(t, "s") // 0: cache.Length of an empty value
				if bigVals {
					op.S = min(3, w.Limit-rapid.IntRange(0, 1).Draw(t, "slack"))
				}
			case "get", "has", "remove":
				op.K = rapid.IntRange(0, nkeys-1).Draw(t, "key")
			}
			ops = append(ops, op)
		}
		w.G = append(w.G, ops)
	}
	return w
})

// genSequential draws the calls of a workload with ONE goroutine: no two calls
// overlap, so the linearizability check admits exactly one order and compares
// every result with the reference LRU.  The calls fill the cache to its limit
// (4 or 5 entries of size 1, so the recency heap has >= 4 slots), Remove one
// of the older entries (the heap moves its last entry into the hole), Get one
// of the others at once and then Put fresh keys until everything that was
// there has been evicted; random calls may precede and follow.  All sizes are
// 1: with more keys than the limit a zero-size value would let the cache grow
// beyond 5 entries.
func genSequential(t *rapid.T, w *Workload) []WOp {
	w.Limit = rapid.IntRange(4, 5).Draw(t, "seqLimit")
	nkeys := 2*w.Limit + 1
	key := rapid.IntRange(0, nkeys-1)
	random := func(label string, max int) []WOp {
		var ops []WOp
		for n := rapid.IntRange(0, max).Draw(t, label); n > 0; n-- {
			op := WOp{Kind: rapid.SampledFrom(wopKindsFocus).Draw(t, "k")}
			switch op.Kind {
			case "put":
				op.K, op.S = key.Draw(t, "key"), 1
			case "get", "has", "remove":
				op.K = key.Draw(t, "key")
			}
			ops = append(ops, op)
		}
		return ops
	}
	var ops []WOp
	if rapid.Bool().Draw(t, "prefix") {
		ops = random("npre", 6)
	}
	for k := 0; k < w.Limit; k++ {
		ops = append(ops, WOp{Kind: "put", K: k, S: 1})
	}
	ops = append(ops, WOp{Kind: "remove", K: rapid.IntRange(0, w.Limit-2).Draw(t, "rm")},
		WOp{Kind: "get", K: rapid.IntRange(0, w.Limit-1).Draw(t, "touch")})
	for k := 0; k < w.Limit+1; k++ {
		ops = append(ops, WOp{Kind: "put", K: w.Limit + k, S: 1})
	}
	return append(ops, random("npost", 8)...)
}

func init() {
	vk.Register("C09", "conc", runConcReplay)
	vk.Register("C09", "bigclear", runBigClear)
	vk.Register("C09", "multi", runMulti)
}

// MultiCase: several caches live at the same time, each used by ONE goroutine
// only.  Every cache must behave exactly like the sequential reference (the
// interpreter of C08 runs on each): caches share nothing a caller can see, so
// what other goroutines do with THEIR caches must not matter.  Package-level
// state shared by all caches (a clock, a pool) shows up here, and under the
// race build as a data race.
type MultiCase struct {
	Caches []CacheCase `json:"caches"`
}

func runMulti(c MultiCase, o *vk.Obs) string {
	msgs := make([]string, len(c.Caches))
	var wg sync.WaitGroup
	start := make(chan struct{})
	for i := range c.Caches {
		wg.Add(1)
		go func(i int) {
			defer wg.Done()
			<-start
			msgs[i] = vk.Guard(func() string { return runC08(c.Caches[i], &vk.Obs{}) })
		}(i)
	}
	close(start)
	allDone := make(chan struct{})
	go func() { wg.Wait(); close(allDone) }()
	if d := waitOrDeadlock(allDone); d != "" {
		return d
	}
	for i, m := range msgs {
		if m != "" {
			return fmt.Sprintf("cache %d of %d, each used by its own goroutine only: %s", i+1, len(c.Caches), m)
		}
	}
	if len(c.Caches) >= 2 {
		o.NonTrivial()
	}
	return ""
}

// TestC09Multi: 2..8 private caches driven concurrently.
func TestC09Multi(t *testing.T) {
	h := vk.Start(t, "C09", "multi")
	n := h.Pick(150, 6000)
	base := int(h.Mix("multi") % (1 << 30))
	gen := rapid.Custom(genCacheCase)
	tl := vk.NewTally()
	for i := 0; i < n && !h.Failed(); i++ {
		k := []int{2, 4, 8, 8}[i%4]
		var c MultiCase
		for j := 0; j < k; j++ {
			cc := gen.Example(base + i*8 + j)
			if i%3 == 0 { // small, busy caches: frequent evictions
				cc.Limit = 1 + (i+j)%3
			}
			if i%50 == 7 {
				// a hammer: 8 tiny caches, each with thousands of plain operations,
				// so that the goroutines really run at the same time for a while
				cc = CacheCase{Limit: 2 + j%2, SizeMode: "unit"}
				for e := 0; e < 60; e++ {
					for _, op := range gen.Example(base + 100000 + i*1000 + j*60 + e).Ops {
						if op.Kind != "churn" {
							cc.Ops = append(cc.Ops, op)
						}
					}
				}
			}
			c.Caches = append(c.Caches, cc)
		}
		b, _ := vk.Marshal(c)
		rf, _ := json.MarshalIndent(vk.ReplayFile{Property: "C09", Leg: "multi", Message: "caches that were in use when the race detector stopped the process", Case: b}, "", " ")
		os.WriteFile(filepath.Join(h.OutDir, "current.json"), rf, 0o644)
		o := &vk.Obs{}
		if msg := runMulti(c, o); msg != "" {
			p := h.Fail(c, msg)
			t.Fatalf("VK-VIOLATION property=C09 leg=multi replay=%s\n%s", p, msg)
		}
		tl.AddObs(o)
		tl.Classes[fmt.Sprintf("caches=%d", k)]++
		if i%29 == 5 {
			h.Sample(MultiCase{Caches: c.Caches[:1]}, true)
		}
	}
	h.MergeTally(tl)
}

// TestC09BigClear: one Clear of a large cache against concurrent readers.
func TestC09BigClear(t *testing.T) {
	h := vk.Start(t, "C09", "bigclear")
	n := h.Pick(60, 1500)
	rng := h.RNG("bigclear")
	tl := vk.NewTally()
	for i := 0; i < n && !h.Failed(); i++ {
		c := BigClearCase{
			N:       []int{7, 33, 64, 65, 100, 129, 200, 300, 513}[rng.Intn(9)],
			Readers: 1 + rng.Intn(3),
			Procs:   []int{2, 4, 16}[rng.Intn(3)],
			Spin:    []int{0, 50, 500, 3000}[rng.Intn(4)],
		}
		if i%2 == 1 { // every other case cycles through the kinds
			c.Elem = []string{elem.Ptr, elem.Str, ""}[(i/2)%3]
			c.KElem = []string{elem.Str, elem.Wide, "", elem.Wide}[(i/2)%4]
		}
		b, _ := json.Marshal(c)
		rf, _ := json.MarshalIndent(vk.ReplayFile{Property: "C09", Leg: "bigclear", Message: "workload that was executing when the race detector stopped the process", Case: b}, "", " ")
		os.WriteFile(filepath.Join(h.OutDir, "current.json"), rf, 0o644)
		msg, overlapped := executeBigClear(c)
		if msg != "" {
			p := h.Fail(c, msg)
			t.Fatalf("VK-VIOLATION property=C09 leg=bigclear replay=%s\n%s", p, msg)
		}
		tl.Evals++
		if overlapped {
			tl.Classes["a_reader_saw_both_states(overlap)"]++
		}
		tl.Classes[fmt.Sprintf("entries=%d", c.N)]++
		tl.Classes["elem="+kindName(c.Elem, "Val")]++
		tl.Classes["kelem="+kindName(c.KElem, elem.Int)]++
		if i%17 == 3 {
			h.Sample(c, overlapped)
		}
	}
	tl.NT = tl.Classes["a_reader_saw_both_states(overlap)"]
	h.MergeTally(tl)
}

// TestC09Conc draws workloads deterministically (rapid generator + Example
// seed), executes each several times in both modes and decides every recorded
// execution.  Schedules are sampled, not enumerated.
func TestC09Conc(t *testing.T) {
	h := vk.Start(t, "C09", "conc")
	n := h.Pick(300, 4000)
	if v, err := strconv.Atoi(os.Getenv("VK_C09_WORKLOADS")); err == nil {
		n = v
	}
	execs := h.Pick(4, 6)
	base := int(h.Mix("workloads") % (1 << 30))
	tl := vk.NewTally()
	unknown := 0
	for i := 0; i < n && !h.Failed(); i++ {
		w := genWorkload.Example(base + i)
		writeCurrent(h.OutDir, w)
		ntW := false
		for e := 0; e < execs; e++ {
			stamped := e%2 == 0
			cc, dl := execute(w, stamped)
			tl.Evals++
			if dl != "" {
				p := h.Fail(ConcCase{W: w}, dl)
				t.Fatalf("VK-VIOLATION property=C09 leg=conc replay=%s\n%s", p, dl)
			}
			v, msg := checkHistory(cc, 10*time.Second)
			switch v {
			case vViolation:
				p := h.Fail(cc, msg)
				t.Fatalf("VK-VIOLATION property=C09 leg=conc replay=%s\n%s", p, msg)
			case vUnknown:
				unknown++
			}
			if stamped {
				sk, eo := overlapNT(cc)
				if sk {
					tl.Classes["overlap_same_key"]++
				}
				if eo {
					tl.Classes["evicting_put_overlaps"]++
				}
				if sk || eo {
					ntW = true
				} else {
					tl.Classes["no_overlap(trivial)"]++
				}
				tl.Classes["stamped_executions"]++
			} else {
				tl.Classes["raw_executions(race detector only + accounting)"]++
			}
			if i%97 == 5 && e == 0 {
				h.Sample(cc, sk2(cc))
			}
		}
		if ntW {
			tl.NT++ // distinct workloads (distinct Example seeds) with at least one overlapping execution
		}
		tl.Classes[fmt.Sprintf("procs=%d", w.Procs)]++
		tl.Classes["elem="+kindName(w.Elem, "Val")]++
		tl.Classes["kelem="+kindName(w.KElem, elem.Int)]++
		tl.Classes["store="+kindName(w.Store, "LRU")]++
		if len(w.G) == 1 {
			tl.Classes["sequential_workload(one goroutine)"]++
		}
	}
	if unknown > 0 {
		tl.Classes["linearizability_unknown(timeout)"] = int64(unknown)
	}
	h.MergeTally(tl)
	h.Note("C09: goroutine schedules are sampled by re-executing each workload; they are not enumerated and a run is not bit-reproducible. The recorded history in a replay file is decided deterministically.")
}

func sk2(cc ConcCase) bool { a, b := overlapNT(cc); return a || b }
