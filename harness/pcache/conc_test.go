package pcache

import (
	"encoding/json"
	"fmt"
	"math"
	"os"
	"path/filepath"
	"strconv"
	"sync"
	"testing"
	"time"

	"pgregory.net/rapid"
	"verif/elem"
	"verif/vk"
)

var wopKinds = []string{"put", "put", "put", "put", "get", "get", "has", "remove", "remove", "len", "size", "clear"}

var wopKindsFocus = []string{"put", "put", "put", "get", "get", "has", "has", "has", "remove", "len", "size"}

var genWorkload = rapid.Custom(func(t *rapid.T) Workload {
	w := Workload{
		Limit: rapid.IntRange(3, 5).Draw(t, "limit"),
		Procs: rapid.SampledFrom([]int{1, 2, 4, 16}).Draw(t, "procs"),
		Spin:  rapid.SampledFrom([]int{0, 0, 50, 500, 5000}).Draw(t, "spin"),
		Yield: rapid.IntRange(0, 7).Draw(t, "yield"),
	}
	if rapid.Bool().Draw(t, "kinded") {
		// half of the workloads keep Cache[int, Val]
		w.Elem = rapid.SampledFrom([]string{"", elem.Ptr, elem.Ptr, elem.Str}).Draw(t, "elem")
		w.KElem = rapid.SampledFrom([]string{"", elem.Str, elem.Wide}).Draw(t, "kelem")
	}
	if rapid.IntRange(0, 2).Draw(t, "store") == 0 {
		w.Store = "user"
	}
	if rapid.IntRange(0, 4).Draw(t, "sequential") == 0 {
		w.G = [][]WOp{genSequential(t, &w)}
		drawBigWorkload(t, &w, 0)
		return w
	}
	ng := rapid.IntRange(2, 4).Draw(t, "ng")
	// Focus modes: a narrow key range and values nearly as large as the limit
	// keep the cache at one or two entries, so that replacing and
	// everything-evicting Puts overlap reads of the same key.  At most 5 keys:
	// zero-size values do not count against the limit, and the cache has to
	// stay at <= 5 entries (known finding F2).
	nkeys := rapid.SampledFrom([]int{5, 4, 4, 2, 2, 1}).Draw(t, "nkeys")
	bigVals := rapid.IntRange(0, 2).Draw(t, "bigvals") == 0
	kinds := wopKinds
	if nkeys <= 2 {
		kinds = wopKindsFocus
	}
	for g := 0; g < ng; g++ {
		n := rapid.IntRange(4, 12).Draw(t, "nops")
		var ops []WOp
		for i := 0; i < n; i++ {
			op := WOp{Kind: rapid.SampledFrom(kinds).Draw(t, "k")}
			switch op.Kind {
			case "put":
				op.K, op.S = rapid.IntRange(0, nkeys-1).Draw(t, "key"), rapid.SampledFrom([]int{1, 2, 3, 1, 2, 3, 0}).Draw(t, "s") // 0: cache.Length of an empty value
				if bigVals {
					op.S = min(3, w.Limit-rapid.IntRange(0, 1).Draw(t, "slack"))
				}
			case "get", "has", "remove":
				op.K = rapid.IntRange(0, nkeys-1).Draw(t, "key")
			}
			ops = append(ops, op)
		}
		w.G = append(w.G, ops)
	}
	drawBigWorkload(t, &w, nkeys)
	return w
})

// drawBigWorkload is drawn last (the other workloads stay what they were): for
// about one workload in six the limit and the sizes become huge numbers (see
// Workload.BigLimit).  The Puts have S <= 3, i.e. values of at most 3*Unit+2.
// Goroutine schedules cannot be steered, so Unit is constructed such that in
// EVERY schedule the sums the cache forms stay inside int64 (beyond that the
// documentation promises nothing):
//
//	roomy     nkeys * (3*Unit+2) <= limit: everything fits at once, no Put ever
//	          evicts another key, every sum is <= limit.  With limits near
//	          MaxInt64 this is the only possibility.
//	evicting  Unit = limit/Limit (the cache holds Limit units, as without
//	          BigLimit), provided that limit + 3*Unit+2 <= MaxInt64: the
//	          present entries are never more than the limit.
//
// nkeys == 0: a sequential workload (genSequential: 2*Limit+1 keys, all S = 1).
// It has to stay at <= Limit entries (known finding F2), so only "evicting"
// with Unit = limit/Limit exactly will do, and the limit is taken from those
// that leave room for limit + Unit + 2.
func drawBigWorkload(t *rapid.T, w *Workload, nkeys int) {
	if !vk.Rare(t, "big", 6) {
		return
	}
	if w.Elem == elem.Str {
		w.Elem = elem.Ptr
	}
	if nkeys == 0 {
		l := rapid.SampledFrom([]int64{1<<62 + 1, 1 << 62, 3 << 61, 1<<62 - 1, 5 << 60, 1<<53 + 1, 1<<32 + 1, 1 << 61, 1 << 53, 1 << 32, 1 << 31}).Draw(t, "bigSeqLimit")
		w.BigLimit, w.Unit = l, l/int64(w.Limit)
		return
	}
	l := rapid.SampledFrom(bigLimits).Draw(t, "bigLimit")
	switch rapid.IntRange(0, 5).Draw(t, "bigLimitKind") {
	case 0:
		l = rapid.Int64Range(1<<31, math.MaxInt64).Draw(t, "bigLimitAny")
	case 1:
		l -= rapid.Int64Range(0, 3).Draw(t, "bigLimitBelow")
	}
	roomy := l/(int64(nkeys)*3) - 1
	evicting := min(l/int64(w.Limit), (math.MaxInt64-l-2)/3)
	w.BigLimit, w.Unit = l, roomy
	if evicting >= roomy && rapid.IntRange(0, 2).Draw(t, "bigEvicting") > 0 {
		w.Unit = evicting
	}
}

func genSequential(t *rapid.T, w *Workload) []WOp {
	w.Limit = rapid.IntRange(4, 5).Draw(t, "seqLimit")
	nkeys := 2*w.Limit + 1
	key := rapid.IntRange(0, nkeys-1)
	random := func(label string, max int) []WOp {
		var ops []WOp
		for n := rapid.IntRange(0, max).Draw(t, label); n > 0; n-- {
			op := WOp{Kind: rapid.SampledFrom(wopKindsFocus).Draw(t, "k")}
			switch op.Kind {
			case "put":
				op.K, op.S = key.Draw(t, "key"), 1
			case "get", "has", "remove":
				op.K = key.Draw(t, "key")
			}
			ops = append(ops, op)
		}
		return ops
	}
	var ops []WOp
	if rapid.Bool().Draw(t, "prefix") {
		ops = random("npre", 6)
	}
	for k := 0; k < w.Limit; k++ {
		ops = append(ops, WOp{Kind: "put", K: k, S: 1})
	}
	ops = append(ops, WOp{Kind: "remove", K: rapid.IntRange(0, w.Limit-2).Draw(t, "rm")},
		WOp{Kind: "get", K: rapid.IntRange(0, w.Limit-1).Draw(t, "touch")})
	for k := 0; k < w.Limit+1; k++ {
		ops = append(ops, WOp{Kind: "put", K: w.Limit + k, S: 1})
	}
	return append(ops, random("npost", 8)...)
}

func init() {
	vk.Register("C09", "conc", runConcReplay)
	vk.Register("C09", "bigclear", runBigClear)
	vk.Register("C09", "multi", runMulti)
}

// MultiCase: several caches live at the same time, each used by ONE goroutine
// only.  Every cache must behave exactly like the sequential reference (the
// interpreter of C08 runs on each): caches share nothing a caller can see, so
// what other goroutines do with THEIR caches must not matter.  Package-level
// state shared by all caches (a clock, a pool) shows up here, and under the
// race build as a data race.
type MultiCase struct {
	Caches []CacheCase `json:"caches"`
}

func runMulti(c MultiCase, o *vk.Obs) string {
	msgs := make([]string, len(c.Caches))
	var wg sync.WaitGroup
	start := make(chan struct{})
	for i := range c.Caches {
		wg.Add(1)
		go func(i int) {
			defer wg.Done()
			<-start
			msgs[i] = vk.Guard(func() string { return runC08(c.Caches[i], &vk.Obs{}) })
		}(i)
	}
	close(start)
	allDone := make(chan struct{})
	go func() { wg.Wait(); close(allDone) }()
	if d := waitOrDeadlock(allDone); d != "" {
		return d
	}
	for i, m := range msgs {
		if m != "" {
			return fmt.Sprintf("cache %d of %d, each used by its own goroutine only: %s", i+1, len(c.Caches), m)
		}
	}
	if len(c.Caches) >= 2 {
		o.NonTrivial()
	}
	return ""
}

// TestC09Multi: 2..8 private caches driven concurrently.
func TestC09Multi(t *testing.T) {
	h := vk.Start(t, "C09", "multi")
	n := h.Pick(150, 6000)
	base := int(h.Mix("multi") % (1 << 30))
	gen := rapid.Custom(genCacheCase)
	tl := vk.NewTally()
	for i := 0; i < n && !h.Failed(); i++ {
		k := []int{2, 4, 8, 8}[i%4]
		var c MultiCase
		for j := 0; j < k; j++ {
			cc := gen.Example(base + i*8 + j)
			if i%3 == 0 { // small, busy caches: frequent evictions
				cc.Limit = 1 + (i+j)%3
			}
			if i%50 == 7 {
				// a hammer: 8 tiny caches, each with thousands of plain operations,
				// so that the goroutines really run at the same time for a while
				cc = CacheCase{Limit: 2 + j%2, SizeMode: "unit"}
				for e := 0; e < 60; e++ {
					for _, op := range gen.Example(base + 100000 + i*1000 + j*60 + e).Ops {
						if op.Kind != "churn" {
							cc.Ops = append(cc.Ops, op)
						}
					}
				}
			}
			c.Caches = append(c.Caches, cc)
		}
		b, _ := vk.Marshal(c)
		rf, _ := json.MarshalIndent(vk.ReplayFile{Property: "C09", Leg: "multi", Message: "caches that were in use when the race detector stopped the process", Case: b}, "", " ")
		os.WriteFile(filepath.Join(h.OutDir, "current.json"), rf, 0o644)
		o := &vk.Obs{}
		if msg := runMulti(c, o); msg != "" {
			p := h.Fail(c, msg)
			t.Fatalf("VK-VIOLATION property=C09 leg=multi replay=%s\n%s", p, msg)
		}
		tl.AddObs(o)
		tl.Classes[fmt.Sprintf("caches=%d", k)]++
		if i%29 == 5 {
			h.Sample(MultiCase{Caches: c.Caches[:1]}, true)
		}
	}
	h.MergeTally(tl)
}

// TestC09BigClear: one Clear of a large cache against concurrent readers.
func TestC09BigClear(t *testing.T) {
	h := vk.Start(t, "C09", "bigclear")
	n := h.Pick(60, 1500)
	rng := h.RNG("bigclear")
	tl := vk.NewTally()
	for i := 0; i < n && !h.Failed(); i++ {
		c := BigClearCase{
			N:       []int{7, 33, 64, 65, 100, 129, 200, 300, 513}[rng.Intn(9)],
			Readers: 1 + rng.Intn(3),
			Procs:   []int{2, 4, 16}[rng.Intn(3)],
			Spin:    []int{0, 50, 500, 3000}[rng.Intn(4)],
		}
		if i%2 == 1 { // every other case cycles through the kinds
			c.Elem = []string{elem.Ptr, elem.Str, ""}[(i/2)%3]
			c.KElem = []string{elem.Str, elem.Wide, "", elem.Wide}[(i/2)%4]
		}
		b, _ := json.Marshal(c)
		rf, _ := json.MarshalIndent(vk.ReplayFile{Property: "C09", Leg: "bigclear", Message: "workload that was executing when the race detector stopped the process", Case: b}, "", " ")
		os.WriteFile(filepath.Join(h.OutDir, "current.json"), rf, 0o644)
		msg, overlapped := executeBigClear(c)
		if msg != "" {
			p := h.Fail(c, msg)
			t.Fatalf("VK-VIOLATION property=C09 leg=bigclear replay=%s\n%s", p, msg)
		}
		tl.Evals++
		if overlapped {
			tl.Classes["a_reader_saw_both_states(overlap)"]++
		}
		tl.Classes[fmt.Sprintf("entries=%d", c.N)]++
		tl.Classes["elem="+kindName(c.Elem, "Val")]++
		tl.Classes["kelem="+kindName(c.KElem, elem.Int)]++
		if i%17 == 3 {
			h.Sample(c, overlapped)
		}
	}
	tl.NT = tl.Classes["a_reader_saw_both_states(overlap)"]
	h.MergeTally(tl)
}

// TestC09Conc draws workloads deterministically (rapid generator + Example
// seed), executes each several times in both modes and decides every recorded
// execution.  Schedules are sampled, not enumerated.
func TestC09Conc(t *testing.T) {
	h := vk.Start(t, "C09", "conc")
	n := h.Pick(300, 4000)
	if v, err := strconv.Atoi(os.Getenv("VK_C09_WORKLOADS")); err == nil {
		n = v
	}
	execs := h.Pick(4, 6)
	base := int(h.Mix("workloads") % (1 << 30))
	tl := vk.NewTally()
	unknown := 0
	for i := 0; i < n && !h.Failed(); i++ {
		w := genWorkload.Example(base + i)
		writeCurrent(h.OutDir, w)
		ntW := false
		for e := 0; e < execs; e++ {
			stamped := e%2 == 0
			cc, dl := execute(w, stamped)
			tl.Evals++
			if dl != "" {
				p := h.Fail(ConcCase{W: w}, dl)
				t.Fatalf("VK-VIOLATION property=C09 leg=conc replay=%s\n%s", p, dl)
			}
			v, msg := checkHistory(cc, 10*time.Second)
			switch v {
			case vViolation:
				p := h.Fail(cc, msg)
				t.Fatalf("VK-VIOLATION property=C09 leg=conc replay=%s\n%s", p, msg)
			case vUnknown:
				unknown++
			}
			if stamped {
				sk, eo := overlapNT(cc)
				if sk {
					tl.Classes["overlap_same_key"]++
				}
				if eo {
					tl.Classes["evicting_put_overlaps"]++
				}
				if sk || eo {
					ntW = true
				} else {
					tl.Classes["no_overlap(trivial)"]++
				}
				tl.Classes["stamped_executions"]++
			} else {
				tl.Classes["raw_executions(race detector only + accounting)"]++
			}
			if i%97 == 5 && e == 0 {
				h.Sample(cc, sk2(cc))
			}
		}
		if ntW {
			tl.NT++ // distinct workloads (distinct Example seeds) with at least one overlapping execution
		}
		tl.Classes[fmt.Sprintf("procs=%d", w.Procs)]++
		tl.Classes["elem="+kindName(w.Elem, "Val")]++
		tl.Classes["kelem="+kindName(w.KElem, elem.Int)]++
		tl.Classes["store="+kindName(w.Store, "LRU")]++
		if len(w.G) == 1 {
			tl.Classes["sequential_workload(one goroutine)"]++
		}
		if w.BigLimit != 0 {
			tl.Classes["big_limit_"+bigClass(w.BigLimit)]++
		}
	}
	if unknown > 0 {
		tl.Classes["linearizability_unknown(timeout)"] = int64(unknown)
	}
	h.MergeTally(tl)
	h.Note("C09: goroutine schedules are sampled by re-executing each workload; they are not enumerated and a run is not bit-reproducible. The recorded history in a replay file is decided deterministically.")
}

func sk2(cc ConcCase) bool { a, b := overlapNT(cc); return a || b }

func init() {
	vk.Register("C09", "steady", func(c SteadyCase, o *vk.Obs) string {
		// schedule dependent: a replay repeats the workload
		for i := 0; i < 20; i++ {
			if msg := runSteady(c); msg != "" {
				return msg
			}
		}
		return ""
	})
}

// TestC09Steady: replacing Puts against observers on a cache whose key set
// never changes (see SteadyCase).
func TestC09Steady(t *testing.T) {
	h := vk.Start(t, "C09", "steady")
	n := h.Pick(24, 200)
	rng := h.RNG("steady")
	tl := vk.NewTally()
	for i := 0; i < n && !h.Failed(); i++ {
		c := SteadyCase{
			Keys:    []int{1, 1, 1, 2, 3, 8}[rng.Intn(6)],
			Writers: 1 + rng.Intn(3),
			Readers: 1 + rng.Intn(4),
			Iters:   h.Pick(20000, 60000),
			Procs:   []int{2, 4, 8, 16}[rng.Intn(4)],
		}
		b, _ := json.Marshal(c)
		rf, _ := json.MarshalIndent(vk.ReplayFile{Property: "C09", Leg: "steady", Message: "workload that was executing when the race detector stopped the process", Case: b}, "", " ")
		os.WriteFile(filepath.Join(h.OutDir, "current.json"), rf, 0o644)
		if msg := runSteady(c); msg != "" {
			p := h.Fail(c, msg)
			t.Fatalf("VK-VIOLATION property=C09 leg=steady replay=%s\n%s", p, msg)
		}
		tl.Evals++
		tl.NT++
		tl.Classes[fmt.Sprintf("keys=%d", c.Keys)]++
		if i%7 == 0 {
			h.Sample(c, true)
		}
	}
	h.MergeTally(tl)
}
