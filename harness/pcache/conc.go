package pcache

import (
	"bytes"
	"encoding/json"
	"fmt"
	"os"
	"path/filepath"
	"runtime"
	"sort"
	"strconv"
	"strings"
	"sync"
	"sync/atomic"
	"time"

	"github.com/anishathalye/porcupine"
	"github.com/creachadair/mds/cache"
	"verif/elem"
	"verif/vk"
)

// WOp is one call of a concurrent workload.
type WOp struct {
	Kind string `json:"k"` // has get put remove len size clear
	K    int    `json:"key,omitempty"`
	S    int    `json:"s,omitempty"` // size of the value for put (1..3)
}

// Workload is a small concurrent programme against one cache.
type Workload struct {
	Limit int     `json:"limit"`
	Procs int     `json:"procs"` // GOMAXPROCS for the execution
	Spin  int     `json:"spin"`  // busy iterations inside the callbacks (stretches the critical section)
	Yield int     `json:"yield"` // bit 0: Gosched in the size func, bit 1: in the eviction callback, bit 2: between calls
	G     [][]WOp `json:"g"`
	// Elem / KElem: kinds of the values ("" = Val, ptr, string) and of the
	// keys ("" = int, string, wide); see kinds.go.
	Elem  string `json:"elem,omitempty"`
	KElem string `json:"kelem,omitempty"`
	// Store: "" = cache.LRU(); "user" = a Store of the harness's own handed in
	// through Config.WithStore (userStore below).
	Store string `json:"store,omitempty"`
	// BigLimit, when not 0, is the limit handed to cache.New (up to MaxInt64)
	// and Unit the factor of the sizes: a Put of S > 0 stores a value of size
	// S*Unit + (K+S)%3.  Limit then only steers the generator.  The generator
	// constructs Unit so that no sum the cache forms (size of the present
	// entries + size of the new value) leaves int64 in any schedule; see
	// bigUnit.  Not for the length-sized value kind.
	BigLimit int64 `json:"bigLimit,omitempty"`
	Unit     int64 `json:"unit,omitempty"`
}

// scale is lenScale when the values are strings sized by their length.
func (w Workload) scale() int64 {
	if w.Elem == elem.Str {
		return lenScale
	}
	return 1
}

// effLimit is the limit the cache is built with.
func (w Workload) effLimit() int64 {
	if w.BigLimit != 0 {
		return w.BigLimit
	}
	return int64(w.Limit) * w.scale()
}

// valFor is the value stored by call i of goroutine g.
func (w Workload) valFor(g, i int, op WOp) Val {
	v := Val{ID: 1000*(g+1) + i, Size: int64(op.S) * w.scale()}
	if w.BigLimit != 0 && op.S > 0 {
		v.Size = int64(op.S)*w.Unit + int64((op.K+op.S)%3)
	}
	if w.scale() > 1 && v.Size == 0 {
		v.ID = noID // the empty string
	}
	return v
}

// HistOp is one completed call with its invocation/response stamps.
type HistOp struct {
	G    int    `json:"g"`
	I    int    `json:"i"`
	Op   WOp    `json:"op"`
	V    Val    `json:"v"` // value stored by a put
	Call int64  `json:"call"`
	Ret  int64  `json:"ret"`
	Ok   bool   `json:"ok,omitempty"`
	Val  Val    `json:"val,omitempty"`
	N    int64  `json:"n,omitempty"` // Len or Size result
	Ev   []pair `json:"ev,omitempty"`
}

// ConcCase is the replayable unit of C09: a workload, and (when the failure
// was found in a recorded execution) the recorded history.
type ConcCase struct {
	W     Workload `json:"w"`
	Hist  []HistOp `json:"hist,omitempty"`
	Final []pair   `json:"final,omitempty"` // what the final sequential Clear reported
	FLen  int      `json:"flen,omitempty"`
	FSize int64    `json:"fsize,omitempty"`
	Mode  string   `json:"mode,omitempty"`
}

func goid() int64 {
	var buf [64]byte
	n := runtime.Stack(buf[:], false)
	// "goroutine 123 [running]:"
	f := bytes.Fields(buf[:n])
	if len(f) < 2 {
		return -1
	}
	id, _ := strconv.ParseInt(string(f[1]), 10, 64)
	return id
}

var sink uint64

func spin(n int) {
	x := uint64(n)
	for i := 0; i < n; i++ {
		x = x*6364136223846793005 + 1442695040888963407
	}
	if x == 42 {
		atomic.AddUint64(&sink, 1)
	}
}

// ---------------------------------------------------------------------------
// A user-supplied Store.  cache.Store's documentation: "A Cache will serialize
// access to the methods of Store, so it is not necessary for the
// implementation to do so separately".  userStore relies on exactly that: a
// recency list without any locking, and EVERY method - the read-only looking
// Check included - writes plain statistics fields.  If the cache lets two calls
// into the store at once, the race detector sees the unsynchronised writes
// (raw executions: the store uses no atomics at all there, so nothing orders
// the calls but the cache's own lock) or the inside counter sees the overlap
// (stamped executions).

type userStore[K comparable, V any] struct {
	list []kv[K, V] // least recently used first
	// statistics, written by every method
	calls, hits int
	lastCall    string

	detect  bool // count the calls that are inside (atomics)
	inside  atomic.Int32
	overlap atomic.Pointer[string]
	yield   bool
	spin    int
}

func (s *userStore[K, V]) enter(name string) {
	if s.detect {
		if n := s.inside.Add(1); n != 1 {
			m := fmt.Sprintf("%d calls were inside the user-supplied Store at the same time (%s entered while another method was running): the cache did not serialize access to the methods of its Store", n, name)
			s.overlap.CompareAndSwap(nil, &m)
		}
	}
	s.calls++
	s.lastCall = name
	if s.yield {
		runtime.Gosched()
	}
	spin(s.spin)
}

func (s *userStore[K, V]) leave() {
	s.calls++
	if s.detect {
		s.inside.Add(-1)
	}
}

func (s *userStore[K, V]) pos(key K) int {
	for i, e := range s.list {
		if e.k == key {
			return i
		}
	}
	return -1
}

func (s *userStore[K, V]) Check(key K) (V, bool) {
	s.enter("Check")
	defer s.leave()
	if i := s.pos(key); i >= 0 {
		s.hits++
		return s.list[i].v, true
	}
	var zero V
	return zero, false
}

func (s *userStore[K, V]) Access(key K) (V, bool) {
	s.enter("Access")
	defer s.leave()
	i := s.pos(key)
	if i < 0 {
		var zero V
		return zero, false
	}
	s.hits++
	e := s.list[i]
	s.list = append(append(s.list[:i:i], s.list[i+1:]...), e)
	return e.v, true
}

func (s *userStore[K, V]) Store(key K, val V) {
	s.enter("Store")
	defer s.leave()
	if s.pos(key) >= 0 {
		panic(fmt.Sprintf("user store: Store of key %v, which is present", key))
	}
	s.list = append(s.list, kv[K, V]{key, val})
}

func (s *userStore[K, V]) Remove(key K) {
	s.enter("Remove")
	defer s.leave()
	if i := s.pos(key); i >= 0 {
		s.list = append(s.list[:i:i], s.list[i+1:]...)
	}
}

func (s *userStore[K, V]) Evict() (K, V) {
	s.enter("Evict")
	defer s.leave()
	if len(s.list) == 0 {
		panic("user store: Evict on an empty store")
	}
	e := s.list[0]
	s.list = append([]kv[K, V](nil), s.list[1:]...)
	return e.k, e.v
}

// execute runs the workload once.  With stamps == true every call is bracketed
// by reads of one atomic counter (needed for the linearizability check); with
// stamps == false the goroutines share nothing but the cache, so the race
// detector sees every unsynchronised access pair.
func execute(w Workload, stamps bool) (cc ConcCase, deadlock string) {
	switch w.KElem {
	case "":
		return executeK(w, stamps, intKeys())
	case elem.Str:
		return executeK(w, stamps, keyKitOf(elem.StrKit()))
	case elem.Wide:
		return executeK(w, stamps, keyKitOf(elem.WideKit()))
	}
	return ConcCase{W: w}, badKind("key", w.KElem)
}

func executeK[K comparable](w Workload, stamps bool, kk keyKit[K]) (ConcCase, string) {
	switch w.Elem {
	case "":
		return executeG(w, stamps, kk, structVals())
	case elem.Ptr:
		return executeG(w, stamps, kk, cellVals(elem.PtrKit()))
	case elem.Str:
		return executeG(w, stamps, kk, stringVals(false))
	}
	return ConcCase{W: w}, badKind("value", w.Elem)
}

// rawRes is what one call returned, in the cache's own types.  It is
// converted to ints only after all goroutines have finished: the conversion
// of the ptr kind takes a lock, which would order the goroutines.
type rawRes[K comparable, V any] struct {
	val V
	ev  []kv[K, V]
}

func executeG[K comparable, V any](w Workload, stamps bool, kk keyKit[K], vt valKit[V]) (cc ConcCase, deadlock string) {
	cc.W = w
	cc.Mode = "raw"
	if stamps {
		cc.Mode = "stamped"
	}
	if usesCells(w.Elem) {
		elem.ResetPtr()
	}
	prev := runtime.GOMAXPROCS(w.Procs)
	defer runtime.GOMAXPROCS(prev)

	ng := len(w.G)
	recs := make([][]HistOp, ng)
	raws := make([][]rawRes[K, V], ng)
	cur := make([]*rawRes[K, V], ng) // the call in progress of each goroutine
	gidOf := map[int64]int{}         // written before the barrier, read-only afterwards
	var regMu sync.Mutex
	var clock atomic.Int64

	// keys and values are made before the goroutines start (see rawRes)
	keys := make([][]K, ng)
	vals := make([][]V, ng)
	made := map[int]V{}
	for g := 0; g < ng; g++ {
		recs[g] = make([]HistOp, len(w.G[g]))
		raws[g] = make([]rawRes[K, V], len(w.G[g]))
		keys[g] = make([]K, len(w.G[g]))
		vals[g] = make([]V, len(w.G[g]))
		for i, op := range w.G[g] {
			keys[g][i] = kk.mk(op.K)
			if op.Kind == "put" {
				v := w.valFor(g, i, op)
				recs[g][i].V = v
				vals[g][i] = vt.mk(v)
				made[v.ID] = vals[g][i]
			}
		}
	}

	if w.BigLimit != 0 && vt.scale != 1 {
		return cc, "VK-INFRA a workload with bigLimit needs a value kind whose size is not its length"
	}
	cfg := cache.LRU[K, V]()
	var store *userStore[K, V]
	if w.Store == "user" {
		store = &userStore[K, V]{detect: stamps, yield: w.Yield&3 != 0, spin: w.Spin}
		cfg = cache.Config[K, V]{}.WithStore(store)
	} else if w.Store != "" {
		return cc, badKind("store", w.Store)
	}
	cfg = cfg.
		WithSize(func(v V) int64 {
			if w.Yield&1 != 0 {
				runtime.Gosched()
			}
			spin(w.Spin)
			return vt.size(v)
		}).
		OnEvict(func(k K, v V) {
			if g, ok := gidOf[goid()]; ok && cur[g] != nil {
				cur[g].ev = append(cur[g].ev, kv[K, V]{k, v})
			}
			if w.Yield&2 != 0 {
				runtime.Gosched()
			}
			spin(w.Spin)
		})
	c := cache.New(w.effLimit(), cfg)

	start := make(chan struct{})
	var ready, done sync.WaitGroup
	finished := make([]atomic.Bool, ng)
	panics := make([]string, ng)
	gids := make([]int64, ng)
	for g := 0; g < ng; g++ {
		ready.Add(1)
		done.Add(1)
		go func(g int) {
			defer done.Done()
			defer func() {
				// a panic inside a cache call: record it, the history is decided as a violation
				if r := recover(); r != nil {
					panics[g] = fmt.Sprintf("goroutine %d: a cache call panicked: %v", g, r)
					finished[g].Store(true)
				}
			}()
			id := goid()
			regMu.Lock()
			gidOf[id] = g
			gids[g] = id
			regMu.Unlock()
			ready.Done()
			<-start
			for i, op := range w.G[g] {
				h := &recs[g][i]
				h.G, h.I, h.Op = g, i, op
				r := &raws[g][i]
				cur[g] = r
				if stamps {
					h.Call = clock.Add(1)
				}
				switch op.Kind {
				case "has":
					h.Ok = c.Has(keys[g][i])
				case "get":
					r.val, h.Ok = c.Get(keys[g][i])
				case "put":
					h.Ok = c.Put(keys[g][i], vals[g][i])
				case "remove":
					h.Ok = c.Remove(keys[g][i])
				case "len":
					h.N = int64(c.Len())
				case "size":
					h.N = c.Size()
				case "clear":
					c.Clear()
				}
				if stamps {
					h.Ret = clock.Add(1)
				}
				cur[g] = nil
				if w.Yield&4 != 0 {
					runtime.Gosched()
				}
			}
			finished[g].Store(true)
		}(g)
	}
	ready.Wait()
	close(start)
	allDone := make(chan struct{})
	go func() { done.Wait(); close(allDone) }()
	tk := time.NewTicker(3 * time.Second)
	defer tk.Stop()
wait:
	for {
		select {
		case <-allDone:
			break wait
		case <-tk.C:
			// State-based deadlock detection (not a timeout): every unfinished
			// worker is parked in sync.(*Mutex).Lock, so nobody can release it.
			if d := blockedOnMutex(gids, finished); d != "" {
				return cc, d
			}
		}
	}
	// back to ints; for the kinds with an identity an element that came out
	// must be the element that went in
	identity := ""
	back := func(x V, where string) Val {
		v := vt.val(x)
		if m, ok := made[v.ID]; ok && vt.hasID && v.ID != noID && !vt.same(x, m) && identity == "" {
			identity = fmt.Sprintf("%s: value #%d came back as a different element (a copy / another pointer) than the one handed to Put", where, v.ID)
		}
		return v
	}
	convert := func(h *HistOp, r *rawRes[K, V], where string) {
		if h.Op.Kind == "get" && h.Ok {
			h.Val = back(r.val, where)
		}
		for _, e := range r.ev {
			h.Ev = append(h.Ev, pair{kk.v(e.k), back(e.v, where+", eviction callback")})
		}
	}
	for g := range recs {
		for i := range recs[g] {
			convert(&recs[g][i], &raws[g][i], fmt.Sprintf("g%d.%d %s", g, i, recs[g][i].Op.Kind))
		}
		cc.Hist = append(cc.Hist, recs[g]...)
	}
	for _, p := range panics {
		if p != "" {
			cc.Hist = nil // replay by re-execution
			return cc, p
		}
	}
	// quiescence: sequential observation and final Clear
	cc.FLen, cc.FSize = c.Len(), c.Size()
	finRec, finRaw := &HistOp{}, &rawRes[K, V]{}
	regMu.Lock()
	gidOf[goid()] = 0
	regMu.Unlock()
	cur[0] = finRaw
	c.Clear()
	cur[0] = nil
	convert(finRec, finRaw, "final Clear")
	cc.Final = finRec.Ev
	if store != nil {
		if m := store.overlap.Load(); m != nil {
			return ConcCase{W: w, Mode: cc.Mode}, *m
		}
	}
	if identity != "" {
		return ConcCase{W: w, Mode: cc.Mode}, identity
	}
	return cc, ""
}

// waitOrDeadlock waits for done.  Every 3 s it looks at the goroutine dump:
// if, twice in a row, every goroutine that is inside a cache.Cache method is
// parked on a lock, none of them can ever be released (state-based, not a
// timeout: a slow machine shows running or runnable goroutines).
func waitOrDeadlock(done <-chan struct{}) string {
	tk := time.NewTicker(3 * time.Second)
	defer tk.Stop()
	strikes := 0
	for {
		select {
		case <-done:
			return ""
		case <-tk.C:
			buf := make([]byte, 1<<20)
			n := runtime.Stack(buf, true)
			inside, parked := 0, 0
			for _, b := range strings.Split(string(buf[:n]), "\n\n") {
				if !strings.Contains(b, "mds/cache.(*Cache") {
					continue
				}
				inside++
				head, _, _ := strings.Cut(b, "\n")
				if strings.Contains(head, "[sync.") || strings.Contains(head, "[semacquire") {
					parked++
				}
			}
			if inside > 0 && parked == inside {
				if strikes++; strikes >= 2 {
					return fmt.Sprintf("deadlock: all %d goroutines that are inside cache.Cache methods are parked on a lock (Mutex / RWMutex), so nobody can release it", inside)
				}
			} else {
				strikes = 0
			}
		}
	}
}

func blockedOnMutex(gids []int64, finished []atomic.Bool) string {
	buf := make([]byte, 1<<20)
	n := runtime.Stack(buf, true)
	blocks := strings.Split(string(buf[:n]), "\n\n")
	byID := map[int64]string{}
	for _, b := range blocks {
		f := strings.Fields(b)
		if len(f) >= 2 && f[0] == "goroutine" {
			id, _ := strconv.ParseInt(f[1], 10, 64)
			byID[id] = b
		}
	}
	unfinished := 0
	for g, id := range gids {
		if finished[g].Load() {
			continue
		}
		unfinished++
		b, ok := byID[id]
		parked := strings.Contains(b, "sync.(*Mutex).Lock") || strings.Contains(b, "sync.(*RWMutex).Lock") || strings.Contains(b, "sync.(*RWMutex).RLock") ||
			strings.Contains(b, "sync.(*Cond).Wait") || strings.Contains(b, "[semacquire") || strings.Contains(b, "[sync.Mutex.Lock") || strings.Contains(b, "[sync.RWMutex")
		if !ok || !parked || !strings.Contains(b, "mds/cache.(*Cache") {
			return ""
		}
	}
	if unfinished == 0 {
		return ""
	}
	return fmt.Sprintf("deadlock: all %d unfinished goroutines are parked on a lock (Mutex / RWMutex / Cond) inside cache.Cache methods, so nobody can release it", unfinished)
}

// ---------------------------------------------------------------------------
// Sequential specification for porcupine: the reference LRU of C08.

type specState string // "k:id:sz," least recently used first

func decode(s specState, limit int64) *refLRU {
	r := &refLRU{limit: limit}
	for _, part := range strings.Split(string(s), ",") {
		if part == "" {
			continue
		}
		var k, id int
		var sz int64
		fmt.Sscanf(part, "%d:%d:%d", &k, &id, &sz)
		r.list = append(r.list, &refEntry{k: k, v: Val{ID: id, Size: sz}})
		r.size += sz
	}
	return r
}
func encode(r *refLRU) specState {
	var sb strings.Builder
	for _, e := range r.list {
		fmt.Fprintf(&sb, "%d:%d:%d,", e.k, e.v.ID, e.v.Size)
	}
	return specState(sb.String())
}

func specModel(limit int64) porcupine.Model {
	return porcupine.Model{
		Init: func() interface{} { return specState("") },
		Step: func(state, input, output interface{}) (bool, interface{}) {
			r := decode(state.(specState), limit)
			h := output.(HistOp)
			switch h.Op.Kind {
			case "has":
				return r.has(h.Op.K) == h.Ok, state
			case "get":
				v, ok := r.get(h.Op.K)
				return ok == h.Ok && v == h.Val, encode(r)
			case "put":
				ok, ev := r.put(h.Op.K, h.V)
				return ok == h.Ok && samePairs(ev, h.Ev, false), encode(r)
			case "remove":
				ok, ev := r.remove(h.Op.K)
				return ok == h.Ok && samePairs(ev, h.Ev, false), encode(r)
			case "len":
				return int64(len(r.list)) == h.N, state
			case "size":
				return r.size == h.N && r.size <= limit, state
			case "clear":
				ev := r.clear()
				return samePairs(ev, h.Ev, true), encode(r)
			}
			return false, state
		},
		Equal: func(a, b interface{}) bool { return a.(specState) == b.(specState) },
		DescribeOperation: func(input, output interface{}) string {
			h := output.(HistOp)
			return fmt.Sprintf("g%d.%d %s(k=%d v=%v) -> ok=%v val=%v n=%d ev=%v", h.G, h.I, h.Op.Kind, h.Op.K, h.V, h.Ok, h.Val, h.N, h.Ev)
		},
	}
}

// verdicts of checkHistory
const (
	vOK = iota
	vViolation
	vUnknown
)

// checkHistory decides a recorded execution: linearizability against the LRU
// specification (stamped executions only) and the quiescence accounting.
func checkHistory(cc ConcCase, timeout time.Duration) (int, string) {
	limit := cc.W.effLimit()
	// ---- accounting at quiescence ------------------------------------------
	// Counted per (key, value): every value is stored at most once, except the
	// empty strings of the string kind, which share noID.
	stored := map[pair]int{}
	for _, h := range cc.Hist {
		if h.Op.Kind == "put" && h.Ok {
			stored[pair{h.Op.K, h.V}]++
		}
		if h.Op.Kind == "size" && h.N > limit {
			return vViolation, fmt.Sprintf("g%d.%d observed Size = %d above the limit %d", h.G, h.I, h.N, limit)
		}
		if h.Op.Kind == "put" && !h.Ok && h.V.Size <= limit {
			return vViolation, fmt.Sprintf("g%d.%d Put of a value of size %d was refused although the limit is %d", h.G, h.I, h.V.Size, limit)
		}
	}
	seen := map[pair]int{}
	seenAt := map[pair]string{}
	note := func(p pair, where string) string {
		if stored[p] == 0 {
			return fmt.Sprintf("the eviction callback reported %v (%s), which no successful Put stored", p, where)
		}
		if seen[p] >= stored[p] {
			return fmt.Sprintf("the eviction callback reported %v twice (%s and %s)", p, seenAt[p], where)
		}
		seen[p]++
		seenAt[p] = where
		return ""
	}
	for _, h := range cc.Hist {
		for _, p := range h.Ev {
			if m := note(p, fmt.Sprintf("during g%d.%d %s", h.G, h.I, h.Op.Kind)); m != "" {
				return vViolation, m
			}
		}
	}
	var fsize int64
	for _, p := range cc.Final {
		if m := note(p, "final Clear"); m != "" {
			return vViolation, m
		}
		fsize += p.V.Size
	}
	var missing []int
	for p, n := range stored {
		if seen[p] != n {
			missing = append(missing, p.V.ID)
		}
	}
	if len(missing) > 0 {
		sort.Ints(missing)
		return vViolation, fmt.Sprintf("values %v were stored successfully but never reported to the eviction callback, not even by the final Clear", missing)
	}
	if cc.FLen != len(cc.Final) || cc.FSize != fsize || fsize > limit {
		return vViolation, fmt.Sprintf("at quiescence Len=%d Size=%d (limit %d) but the final Clear released %d entries of total size %d", cc.FLen, cc.FSize, limit, len(cc.Final), fsize)
	}
	if len(cc.W.G) == 1 && len(cc.Hist) == len(cc.W.G[0]) {
		// One goroutine: the program order is the only order (stamped or not),
		// so the specification is stepped directly and the first call it does
		// not explain is named.
		m := specModel(limit)
		state := m.Init()
		for _, h := range cc.Hist {
			ok, next := m.Step(state, h, h)
			if !ok {
				return vViolation, fmt.Sprintf("sequential workload (one goroutine, no overlap): call %s is not what the reference LRU cache of C08 answers after the calls before it (recency list before the call, least recently used first, as key:id:size: %q)", m.DescribeOperation(h, h), state)
			}
			state = next
		}
		return vOK, ""
	}
	if cc.Mode != "stamped" {
		return vOK, ""
	}
	// ---- linearizability --------------------------------------------------------
	ops := make([]porcupine.Operation, 0, len(cc.Hist))
	for _, h := range cc.Hist {
		ops = append(ops, porcupine.Operation{ClientId: h.G, Input: h, Call: h.Call, Output: h, Return: h.Ret})
	}
	switch porcupine.CheckOperationsTimeout(specModel(limit), ops, timeout) {
	case porcupine.Ok:
		return vOK, ""
	case porcupine.Illegal:
		return vViolation, "the recorded results of the concurrent calls cannot be explained by any sequential order of the calls that respects real time and the LRU behaviour of C08 (porcupine: Illegal)"
	}
	return vUnknown, "linearizability checker timed out"
}

// overlapNT measures the non-triviality rule from the stamps.
func overlapNT(cc ConcCase) (sameKey, evictOverlap bool) {
	for i, a := range cc.Hist {
		for j, b := range cc.Hist {
			if i >= j || a.G == b.G {
				continue
			}
			if a.Call <= b.Ret && b.Call <= a.Ret { // closed intervals overlap
				keyed := func(h HistOp) bool { return h.Op.Kind != "len" && h.Op.Kind != "size" && h.Op.Kind != "clear" }
				if keyed(a) && keyed(b) && a.Op.K == b.Op.K {
					sameKey = true
				}
				if (a.Op.Kind == "put" && len(a.Ev) > 0) || (b.Op.Kind == "put" && len(b.Ev) > 0) {
					evictOverlap = true
				}
			}
		}
	}
	return
}

// runConcReplay is the replay entry.  A concurrent failure depends on the
// schedule, so the replay answers for the tree it is run against: the recorded
// workload is re-executed many times (alternating the two execution modes) and
// every execution is decided afresh.  The recorded history, when there is one,
// is re-decided too and the verdict printed, but a history that this tree does
// not produce again is not held against it.
func runConcReplay(cc ConcCase, o *vk.Obs) string {
	const attempts = 1000
	for i := 0; i < attempts; i++ {
		got, dl := execute(cc.W, i%2 == 0)
		if dl != "" {
			return dl
		}
		if v, msg := checkHistory(got, 20*time.Second); v == vViolation {
			return fmt.Sprintf("%s (re-execution %d of the recorded workload)", msg, i+1)
		}
	}
	if len(cc.Hist) > 0 {
		v, msg := checkHistory(cc, 60*time.Second)
		fmt.Printf("VK-NOTE the recorded workload was re-executed %d times on this tree without a violation; the recorded history itself is decided as: violation=%v %s\n", attempts, v == vViolation, msg)
	}
	return ""
}

func writeCurrent(dir string, w Workload) {
	if dir == "" {
		return
	}
	b, _ := json.Marshal(ConcCase{W: w})
	rf := vk.ReplayFile{Property: "C09", Leg: "conc", Message: "workload that was executing when the race detector stopped the process", Case: b}
	out, _ := json.MarshalIndent(rf, "", " ")
	os.WriteFile(filepath.Join(dir, "current.json"), out, 0o644)
}

// ---------------------------------------------------------------------------
// Large caches under concurrency (leg bigclear).  The general workloads above
// keep the cache at <= 5 entries (known finding F2 needs >= 6 entries and an
// interior removal).  Put of fresh keys, Has, Len, Size and Clear never remove
// from the interior of the recency heap, so with only those calls a large
// cache is safe to check strictly: N entries are stored sequentially, then ONE
// Clear runs while reader goroutines observe Len / Size / Has.  With a single
// Clear in flight every observation must be explained by "before the Clear"
// (Len = Size = N, every key present) or "after it" (0, 0, absent), a reader
// that has seen "after" must never see "before" again, and the callback must
// report each of the N entries exactly once.

// BigClearCase is the workload (its executions are schedule dependent).
type BigClearCase struct {
	N       int `json:"n"`
	Readers int `json:"readers"`
	Procs   int `json:"procs"`
	Spin    int `json:"spin"`
	// kinds of the values ("" = Val, ptr, string) and keys ("" = int, string, wide)
	Elem  string `json:"elem,omitempty"`
	KElem string `json:"kelem,omitempty"`
}

func runBigClear(c BigClearCase, o *vk.Obs) string {
	reps := 1
	if o.NoTriage || os.Getenv("VK_REPLAY") != "" {
		reps = 50
	}
	for r := 0; r < reps; r++ {
		if msg, _ := executeBigClear(c); msg != "" {
			return msg
		}
	}
	return ""
}

func executeBigClear(c BigClearCase) (msg string, overlapped bool) {
	switch c.KElem {
	case "":
		return executeBigClearK(c, intKeys())
	case elem.Str:
		return executeBigClearK(c, keyKitOf(elem.StrKit()))
	case elem.Wide:
		return executeBigClearK(c, keyKitOf(elem.WideKit()))
	}
	return badKind("key", c.KElem), false
}

func executeBigClearK[K comparable](c BigClearCase, kk keyKit[K]) (string, bool) {
	switch c.Elem {
	case "":
		return executeBigClearG(c, kk, structVals())
	case elem.Ptr:
		return executeBigClearG(c, kk, cellVals(elem.PtrKit()))
	case elem.Str:
		return executeBigClearG(c, kk, stringVals(true)) // the size function below counts entries
	}
	return badKind("value", c.Elem), false
}

func executeBigClearG[K comparable, V any](c BigClearCase, kk keyKit[K], vt valKit[V]) (msg string, overlapped bool) {
	if usesCells(c.Elem) {
		elem.ResetPtr()
	}
	prev := runtime.GOMAXPROCS(c.Procs)
	defer runtime.GOMAXPROCS(prev)
	var mu sync.Mutex
	reported := map[int]int{}
	cfg := cache.LRU[K, V]().
		WithSize(func(v V) int64 { spin(c.Spin); return 1 }).
		OnEvict(func(k K, v V) {
			mu.Lock()
			reported[vt.val(v).ID]++
			mu.Unlock()
			spin(c.Spin)
			runtime.Gosched()
		})
	cc := cache.New(int64(c.N), cfg)
	keys := make([]K, c.N) // made up front: the readers only look keys up
	for k := range keys {
		keys[k] = kk.mk(k)
	}
	for k := 0; k < c.N; k++ {
		if !cc.Put(keys[k], vt.mk(Val{ID: k + 1, Size: 1})) {
			return fmt.Sprintf("Put(%d) into a cache of limit %d with %d entries was refused", k, c.N, k), false
		}
	}
	mu.Lock()
	if len(reported) != 0 {
		mu.Unlock()
		return fmt.Sprintf("filling a cache of limit %d with %d unit entries evicted %d of them", c.N, c.N, len(reported)), false
	}
	mu.Unlock()
	var cleared atomic.Bool
	start := make(chan struct{})
	errs := make([]string, c.Readers)
	sawBoth := make([]bool, c.Readers)
	var wg sync.WaitGroup
	for g := 0; g < c.Readers; g++ {
		wg.Add(1)
		go func(g int) {
			defer wg.Done()
			defer func() {
				if r := recover(); r != nil {
					errs[g] = fmt.Sprintf("reader %d: a cache call panicked: %v", g, r)
				}
			}()
			<-start
			after, before := false, false
			for i := 0; i < 4000 && errs[g] == ""; i++ {
				wasCleared := cleared.Load() // Clear had returned before this observation started
				var what string
				var isBefore, isAfter bool
				switch (i + g) % 4 {
				case 0:
					n := cc.Len()
					what, isBefore, isAfter = fmt.Sprintf("Len() = %d", n), n == c.N, n == 0
				case 1:
					n := cc.Size()
					what, isBefore, isAfter = fmt.Sprintf("Size() = %d", n), n == int64(c.N), n == 0
				case 2:
					k := (i * 7) % c.N
					ok := cc.Has(keys[k])
					what, isBefore, isAfter = fmt.Sprintf("Has(%d) = %v", k, ok), ok, !ok
				default:
					k := c.N - 1 - (i*3)%c.N
					ok := cc.Has(keys[k])
					what, isBefore, isAfter = fmt.Sprintf("Has(%d) = %v", k, ok), ok, !ok
				}
				switch {
				case !isBefore && !isAfter:
					errs[g] = fmt.Sprintf("reader %d observed %s while a single Clear of a %d-entry cache was the only writer: neither the state before the Clear nor the state after it", g, what, c.N)
				case isBefore && (after || wasCleared):
					errs[g] = fmt.Sprintf("reader %d observed %s (the state before the Clear) after it had already observed the cleared cache / after Clear had returned", g, what)
				}
				before = before || isBefore
				if isAfter {
					after = true
				}
				if after && i%64 == 63 {
					break
				}
			}
			sawBoth[g] = before && after
		}(g)
	}
	close(start)
	runtime.Gosched()
	wg.Add(1)
	go func() {
		defer wg.Done()
		cc.Clear()
		cleared.Store(true)
	}()
	allDone := make(chan struct{})
	go func() { wg.Wait(); close(allDone) }()
	if d := waitOrDeadlock(allDone); d != "" {
		return d, true
	}
	for _, e := range errs {
		if e != "" {
			return e, true
		}
	}
	for _, b := range sawBoth {
		overlapped = overlapped || b
	}
	if n, s := cc.Len(), cc.Size(); n != 0 || s != 0 {
		return fmt.Sprintf("after Clear returned: Len = %d, Size = %d", n, s), overlapped
	}
	mu.Lock()
	defer mu.Unlock()
	for id := 1; id <= c.N; id++ {
		if reported[id] != 1 {
			return fmt.Sprintf("Clear of %d entries: value #%d was reported to the eviction callback %d times, want exactly once", c.N, id, reported[id]), overlapped
		}
	}
	if len(reported) != c.N {
		return fmt.Sprintf("Clear of %d entries reported %d distinct values", c.N, len(reported)), overlapped
	}
	return "", overlapped
}
