package pcache

import (
	"math"
	"os"
	"testing"

	"pgregory.net/rapid"
	"verif/elem"
	"verif/vk"
)

var copKinds = []string{"put", "put", "putNew", "putNew", "putNew", "putNew", "get", "get", "get", "has", "remove", "remove", "clear", "putSame", "putEq"}

// optOrders: the options in both orders, an option given twice, options set on
// a discarded copy, no callback, nothing at all (see CacheCase.Opts).
var optOrders = []string{"SE", "SE", "SE", "ES", "EES", "ESS", "SES", "ESE", "SSEE", "xE", "ExS", "SyE", "yxSE", "S", "-"}

func genCOp(kinds []string) *rapid.Generator[COp] {
	return rapid.Custom(func(t *rapid.T) COp {
		op := COp{Kind: rapid.SampledFrom(kinds).Draw(t, "k")}
		if op.Kind != "clear" {
			op.K = rapid.IntRange(0, 80).Draw(t, "key")
		}
		if op.Kind == "put" || op.Kind == "putNew" || op.Kind == "putSame" || op.Kind == "putEq" {
			op.S = rapid.IntRange(0, 32).Draw(t, "s")
		}
		return op
	})
}

// bigLimits: the limits of the cases with BigLimit: both sides of every power
// of two at which an integer of another width, a float64 mantissa or "half of
// the int64 range" ends, and the top of the range.
var bigLimits = []int64{math.MaxInt64, 1<<62 + 1, 1 << 62, math.MaxInt64 - 1, 1<<62 - 1, math.MaxInt64 - 1<<20, 3 << 61, 1<<53 + 1, 1<<32 + 1,
	5 << 60, 7 << 60, 1 << 61, 1 << 53, 1 << 32, 1 << 31, 1<<31 - 1}

// drawBig turns c into a case whose limit and sizes are huge numbers (see
// CacheCase.BigLimit).  Everything is constructed: whatever is drawn here is a
// legal case, the interpreter (fitBig) keeps the sums inside int64.
func drawBig(t *rapid.T, c *CacheCase) {
	if c.Elem == elem.Str || c.Elem == elem.Bytes {
		c.Elem = rapid.SampledFrom([]string{"", elem.Ptr, elem.Any, elem.Wide}).Draw(t, "bigElem")
	}
	c.SizeMode = rapid.SampledFrom([]string{"val", "val", "val", "val", "val", "val", "val", "val", "val", "unit"}).Draw(t, "bigSizeMode")
	l := rapid.SampledFrom(bigLimits).Draw(t, "bigLimit")
	switch rapid.IntRange(0, 5).Draw(t, "bigLimitKind") {
	case 0:
		l = rapid.Int64Range(1<<31, math.MaxInt64).Draw(t, "bigLimitAny")
	case 1:
		l -= rapid.Int64Range(0, 3).Draw(t, "bigLimitBelow")
	}
	c.BigLimit = l
	n := int64(c.Limit)
	units := []int64{l / n, l / n, l / n, l/n + 1, l/2 + 1, l/3 + 1, l - 1, l}
	for _, u := range []int64{1 << 30, 1 << 52, 1 << 58, 1 << 59, 3 << 59, 1 << 60, 3 << 60, 1 << 61, 1 << 62} {
		if u <= l {
			units = append(units, u)
		}
	}
	c.Unit = rapid.SampledFrom(units).Draw(t, "bigUnit")
	if rapid.IntRange(0, 7).Draw(t, "bigUnitAny") == 0 {
		c.Unit = rapid.Int64Range(1, l).Draw(t, "bigUnitAnyValue")
	}
}

func genCacheCase(t *rapid.T) CacheCase {
	c := CacheCase{
		Limit:    rapid.OneOf(rapid.IntRange(1, 12), rapid.IntRange(6, 12), rapid.IntRange(1, 12), rapid.IntRange(13, 70)).Draw(t, "limit"),
		SizeMode: rapid.SampledFrom([]string{"unit", "unit", "val"}).Draw(t, "sizeMode"),
	}
	if rapid.Bool().Draw(t, "kinded") {
		// half of the cases keep Cache[int, Val] and today's option order
		c.Elem = rapid.SampledFrom(append([]string{""}, valKinds...)).Draw(t, "elem")
		c.KElem = rapid.SampledFrom(append([]string{"", ""}, keyKinds...)).Draw(t, "kelem")
		if rapid.Bool().Draw(t, "reorder") {
			c.Opts = rapid.SampledFrom(optOrders).Draw(t, "opts")
		}
		c.Probe = rapid.Bool().Draw(t, "probe")
	}
	c.Ops = rapid.SliceOfN(genCOp(copKinds), 0, vk.MaxOps(t, 60, 500)).Draw(t, "ops")
	if c.Limit > 12 {
		// large caches: more operations so that the cache fills and cycles
		more := rapid.SliceOfN(genCOp(copKinds), c.Limit, 3*c.Limit).Draw(t, "moreOps")
		c.Ops = append(c.Ops, more...)
	}
	if vk.Rare(t, "marathon", 300) {
		i := rapid.IntRange(0, len(c.Ops)).Draw(t, "marathonAt")
		op := COp{Kind: "churn", K: rapid.IntRange(0, 80).Draw(t, "marathonKey"), S: rapid.IntRange(0, 11).Draw(t, "marathonKind")}
		c.Ops = append(c.Ops[:i], append([]COp{op}, c.Ops[i:]...)...)
	}
	if rapid.IntRange(0, 2).Draw(t, "structured") > 0 {
		// fill, touch a middle-aged key, remove a middle key, refill past the limit
		var pre []COp
		for k := 0; k < c.Limit+1; k++ {
			pre = append(pre, COp{Kind: "put", K: k, S: 1})
		}
		pre = append(pre, COp{Kind: "get", K: rapid.IntRange(0, 80).Draw(t, "touch")},
			COp{Kind: "remove", K: rapid.IntRange(0, 80).Draw(t, "rm")})
		mid := rapid.IntRange(0, len(c.Ops)).Draw(t, "mid")
		ops := append(append([]COp{}, pre...), c.Ops[:mid]...)
		for j := 0; j < 3; j++ {
			ops = append(ops, COp{Kind: "putNew", K: rapid.IntRange(0, 80).Draw(t, "refill"), S: 1})
		}
		c.Ops = append(ops, c.Ops[mid:]...)
	}
	if rapid.IntRange(0, 3).Draw(t, "newestRemoved") == 0 {
		// at the very start: fill exactly to the limit (keys 0..limit-1, key 0 is
		// the zero value of the key type), Remove the most recently used entry or
		// one of the older ones, Get an older one (often the oldest) at once, Put
		// absent keys until entries from both sides of the touched one are gone
		var pre []COp
		for k := 0; k < c.Limit; k++ {
			pre = append(pre, COp{Kind: "put", K: k, S: 1})
		}
		rm := c.Limit - 1
		if rapid.IntRange(0, 2).Draw(t, "rmOlder") == 0 {
			rm = rapid.IntRange(0, c.Limit-1).Draw(t, "rmKey")
		}
		touch := rapid.OneOf(rapid.Just(0), rapid.IntRange(0, max(0, c.Limit-2))).Draw(t, "touchOld")
		pre = append(pre, COp{Kind: "remove", K: rm}, COp{Kind: "get", K: touch})
		for j := 0; j < 3; j++ {
			pre = append(pre, COp{Kind: "putNew", K: c.Limit + j, S: 1})
		}
		c.Ops = append(pre, c.Ops...)
	} else if rapid.IntRange(0, 3).Draw(t, "stirAndFlush") == 0 {
		// at the very start: fill exactly to the limit, stir the recency order
		// with a few Gets, Removes and replacing Puts of present keys (each moves
		// entries inside the store), then flush everything with fresh keys, so
		// that the complete eviction order is observed
		var pre []COp
		for k := 0; k < c.Limit; k++ {
			pre = append(pre, COp{Kind: "put", K: k, S: 1})
		}
		for j := rapid.IntRange(2, 7).Draw(t, "stirs"); j > 0; j-- {
			kind := rapid.SampledFrom([]string{"get", "get", "remove", "put", "putNew"}).Draw(t, "stirKind")
			pre = append(pre, COp{Kind: kind, K: rapid.IntRange(0, c.Limit+2).Draw(t, "stirKey"), S: 1})
		}
		for j := 0; j < c.Limit+1 && j < 14; j++ {
			pre = append(pre, COp{Kind: "putNew", K: c.Limit + 3 + j, S: 1})
		}
		c.Ops = append(pre, c.Ops...)
	}
	// Drawn last, so that the other cases are the ones they were before this
	// existed.
	if vk.Rare(t, "big", 12) {
		drawBig(t, &c)
	}
	return c
}

func init() {
	vk.Register("C08", "hist", runC08)
	vk.Register("C08", "longrun", runLongRun)
}

// TestC08LongRun: billions of accesses on one cache (thorough tier; the quick
// tier runs a short version).  Shard k of the thorough tier takes the k-th length.
func TestC08LongRun(t *testing.T) {
	h := vk.Start(t, "C08", "longrun")
	h.Patience(30)
	cases := []LongRunCase{{Gets: 3_000_000}}
	if h.Thorough() {
		cases = []LongRunCase{{Gets: 1<<31 + 1000}, {Gets: 1<<32 + 1000}}
		cases = cases[h.Shard%len(cases) : h.Shard%len(cases)+1]
	}
	slot := h.Slot()
	tl := vk.NewTally()
	for _, c := range cases {
		o := &vk.Obs{}
		slot.Enter(c)
		msg := vk.Guard(func() string { return runLongRun(c, o) })
		slot.Leave()
		if msg != "" {
			p := h.Fail(c, msg)
			t.Fatalf("VK-VIOLATION property=C08 leg=longrun replay=%s\n%s", p, msg)
		}
		tl.AddObs(o)
		h.Sample(c, o.NT)
	}
	h.MergeTally(tl)
}

func TestC08Hist(t *testing.T) {
	h := vk.Start(t, "C08", "hist")
	vk.Rapid(h, t, genCacheCase, runC08)
}

// TestFindWitnessC08 (development aid, skipped unless WITNESS is set).
func TestFindWitnessC08(t *testing.T) {
	if os.Getenv("WITNESS") == "" {
		t.Skip()
	}
	h := vk.Start(t, "C08", "hist")
	vk.Rapid(h, t, func(rt *rapid.T) CacheCase {
		c := CacheCase{Limit: rapid.IntRange(6, 9).Draw(rt, "limit"), SizeMode: "unit"}
		c.Ops = rapid.SliceOfN(genCOp([]string{"put", "putNew", "putNew", "get", "remove"}), 0, 50).Draw(rt, "ops")
		return c
	}, func(c CacheCase, o *vk.Obs) string { o.NoTriage = true; return runC08(c, o) })
}

func TestReplay(t *testing.T) { vk.ReplayMain(t) }
