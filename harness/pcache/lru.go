// Package pcache holds the checks for cache.Cache with the LRU store:
// C08 (sequential behaviour) and C09 (concurrent use).
package pcache

import (
	"fmt"
	"math"
	"sort"

	"github.com/creachadair/mds/cache"
	"verif/devheap"
	"verif/vk"
)

// Val is the cached value type: a unique id and the size it reports.
type Val struct {
	ID   int   `json:"id"`
	Size int64 `json:"sz"`
}

// COp is one step of a cache history.
type COp struct {
	Kind string `json:"k"`
	K    int    `json:"key,omitempty"`
	S    int    `json:"s,omitempty"` // size selector for put
}

// CacheCase is a sequential history for one cache.
type CacheCase struct {
	Limit    int    `json:"limit"`
	SizeMode string `json:"sizeMode"` // "unit" (no size func), "val" (value-dependent 0..4, sometimes = limit or > limit)
	Ops      []COp  `json:"ops"`
}

type pair struct {
	K int
	V Val
}

// ---------------------------------------------------------------------------
// Reference LRU cache (pure recency list).

type refEntry struct {
	k         int
	v         Val
	touched   bool // re-ordered by a Get since it was stored
	nbRemoved bool // a neighbour in recency order was removed by Remove
}

type refLRU struct {
	limit  int64
	unit   bool
	list   []*refEntry // least recently used first
	size   int64
	ntEvic bool
}

func (r *refLRU) sizeOf(v Val) int64 {
	if r.unit {
		return 1
	}
	return v.Size
}
func (r *refLRU) idx(k int) int {
	for i, e := range r.list {
		if e.k == k {
			return i
		}
	}
	return -1
}
func (r *refLRU) put(k int, v Val) (ok bool, ev []pair) {
	sz := r.sizeOf(v)
	if sz > r.limit {
		return false, nil
	}
	if i := r.idx(k); i >= 0 {
		e := r.list[i]
		ev = append(ev, pair{e.k, e.v})
		r.size -= r.sizeOf(e.v)
		r.list = append(r.list[:i], r.list[i+1:]...)
	}
	for r.size+sz > r.limit {
		e := r.list[0]
		if e.touched || e.nbRemoved {
			r.ntEvic = true
		}
		ev = append(ev, pair{e.k, e.v})
		r.size -= r.sizeOf(e.v)
		r.list = r.list[1:]
	}
	r.list = append(r.list, &refEntry{k: k, v: v})
	r.size += sz
	return true, ev
}
func (r *refLRU) get(k int) (Val, bool) {
	i := r.idx(k)
	if i < 0 {
		return Val{}, false
	}
	e := r.list[i]
	if i != len(r.list)-1 {
		e.touched = true
	}
	r.list = append(append(r.list[:i:i], r.list[i+1:]...), e)
	return e.v, true
}
func (r *refLRU) has(k int) bool { return r.idx(k) >= 0 }
func (r *refLRU) remove(k int) (bool, []pair) {
	i := r.idx(k)
	if i < 0 {
		return false, nil
	}
	e := r.list[i]
	if i > 0 {
		r.list[i-1].nbRemoved = true
	}
	if i+1 < len(r.list) {
		r.list[i+1].nbRemoved = true
	}
	r.size -= r.sizeOf(e.v)
	r.list = append(r.list[:i:i], r.list[i+1:]...)
	return true, []pair{{e.k, e.v}}
}
func (r *refLRU) clear() []pair {
	var ev []pair
	for _, e := range r.list {
		ev = append(ev, pair{e.k, e.v})
	}
	r.list, r.size = nil, 0
	return ev
}

// ---------------------------------------------------------------------------
// Deviation model: cache.go + lru.go re-implemented over devheap with F2
// (the recency heap never sifts up after an interior removal).

type prio struct {
	at  int64
	key int
	val Val
}

type devLRU struct {
	limit int64
	unit  bool
	h     *devheap.Heap[prio]
	clock int64
	size  int64
}

func newDevLRU(limit int64, unit bool) *devLRU {
	return &devLRU{limit: limit, unit: unit, h: &devheap.Heap[prio]{F1: true, F2: true, Cmp: func(a, b prio) int {
		switch {
		case a.at < b.at:
			return -1
		case a.at > b.at:
			return 1
		}
		return 0
	}}}
}
func (d *devLRU) sizeOf(v Val) int64 {
	if d.unit {
		return 1
	}
	return v.Size
}
func (d *devLRU) pos(k int) int {
	for i, e := range d.h.Data {
		if e.key == k {
			return i
		}
	}
	return -1
}
func (d *devLRU) put(k int, v Val) (bool, []pair) {
	sz := d.sizeOf(v)
	if sz > d.limit {
		return false, nil
	}
	var ev []pair
	if p := d.pos(k); p >= 0 {
		old := d.h.Pop(p)
		ev = append(ev, pair{k, old.val})
		d.size -= d.sizeOf(old.val)
	}
	ns := d.size + sz
	for ns > d.limit {
		out := d.h.Pop(0)
		ev = append(ev, pair{out.key, out.val})
		ns -= d.sizeOf(out.val)
	}
	d.clock++
	d.h.Add(prio{at: d.clock, key: k, val: v})
	d.size = ns
	return true, ev
}
func (d *devLRU) get(k int) (Val, bool) {
	p := d.pos(k)
	if p < 0 {
		return Val{}, false
	}
	d.clock++
	out := d.h.Pop(p)
	out.at = d.clock
	d.h.Add(out)
	return out.val, true
}
func (d *devLRU) has(k int) bool { return d.pos(k) >= 0 }
func (d *devLRU) remove(k int) (bool, []pair) {
	p := d.pos(k)
	if p < 0 {
		return false, nil
	}
	old := d.h.Pop(p)
	d.size -= d.sizeOf(old.val)
	return true, []pair{{k, old.val}}
}
func (d *devLRU) clear() []pair {
	var ev []pair
	for len(d.h.Data) > 0 {
		out := d.h.Pop(0)
		ev = append(ev, pair{out.key, out.val})
	}
	d.size = 0
	return ev
}

func (r *refLRU) length() int  { return len(r.list) }
func (r *refLRU) total() int64 { return r.size }
func (d *devLRU) length() int  { return len(d.h.Data) }
func (d *devLRU) total() int64 { return d.size }

// ---------------------------------------------------------------------------

type opResult struct {
	ok   bool
	val  Val
	evs  []pair
	n    int
	size int64
}

func samePairs(a, b []pair, asMultiset bool) bool {
	if len(a) != len(b) {
		return false
	}
	if asMultiset {
		a, b = append([]pair(nil), a...), append([]pair(nil), b...)
		less := func(s []pair) func(i, j int) bool {
			return func(i, j int) bool { return s[i].V.ID < s[j].V.ID }
		}
		sort.Slice(a, less(a))
		sort.Slice(b, less(b))
	}
	for i := range a {
		if a[i] != b[i] {
			return false
		}
	}
	return true
}

func (c CacheCase) valFor(step int, op COp) Val {
	v := Val{ID: step + 1, Size: 1}
	if c.SizeMode != "unit" {
		switch {
		case op.S%11 == 9:
			v.Size = int64(c.Limit)
		case op.S%11 == 10 && op.S%2 == 0:
			v.Size = math.MaxInt64 - int64(op.S%3) // far too big: must be refused without any arithmetic going wrong
		case op.S%11 == 10:
			v.Size = int64(c.Limit) + 1 + int64(op.S%3)
		default:
			v.Size = int64(op.S % 5)
		}
	}
	return v
}

func runC08(c CacheCase, o *vk.Obs) string {
	unit := c.SizeMode == "unit"
	limit := int64(c.Limit)
	var evlog []pair
	cfg := cache.LRU[int, Val]().OnEvict(func(k int, v Val) { evlog = append(evlog, pair{k, v}) })
	if !unit {
		cfg = cfg.WithSize(func(v Val) int64 { return v.Size })
	}
	cc := cache.New(limit, cfg)
	ref := &refLRU{limit: limit, unit: unit}
	dev := newDevLRU(limit, unit)
	devAlive := true   // dev still coincides with the real cache on everything observed
	following := false // true once a divergence from pure LRU was explained by dev
	exposed := false
	knownHits := 0
	putOK := map[int]bool{}    // ids successfully stored
	reported := map[int]bool{} // ids seen by the callback
	refused, zeroSize, varSize := 0, 0, false

	errf := func(i int, op COp, format string, args ...any) string {
		return fmt.Sprintf("op#%d %s(key=%d) [limit %d, sizes %s]: %s", i, op.Kind, op.K, c.Limit, c.SizeMode, fmt.Sprintf(format, args...))
	}
	ops := append(append([]COp(nil), c.Ops...), COp{Kind: "clear"})
	for i, op := range ops {
		op.K = op.K % (c.Limit + 4) // key space scales with the limit so that evictions happen
		if op.Kind == "putNew" {    // a key that is not present (if any): forces an insertion
			for j := 0; j < c.Limit+4; j++ {
				if k := (op.K + j) % (c.Limit + 4); !cc.Has(k) {
					op.K = k
					break
				}
			}
			op.Kind = "put"
		}
		evlog = nil
		var got, wantRef, wantDev opResult
		lenBefore := cc.Len()
		multiset := false
		switch op.Kind {
		case "put":
			v := c.valFor(i, op)
			if v.Size != 1 {
				varSize = true
			}
			if !unit && v.Size == 0 {
				zeroSize++
			}
			if ref.has(op.K) && lenBefore >= 6 {
				exposed = true
			}
			got.ok = cc.Put(op.K, v)
			wantRef.ok, wantRef.evs = ref.put(op.K, v)
			wantDev.ok, wantDev.evs = dev.put(op.K, v)
			if got.ok {
				putOK[v.ID] = true
			} else {
				refused++
			}
		case "get":
			got.val, got.ok = cc.Get(op.K)
			if got.ok && lenBefore >= 6 {
				exposed = true
			}
			wantRef.val, wantRef.ok = ref.get(op.K)
			wantDev.val, wantDev.ok = dev.get(op.K)
		case "has":
			got.ok = cc.Has(op.K)
			wantRef.ok = ref.has(op.K)
			wantDev.ok = dev.has(op.K)
		case "remove":
			got.ok = cc.Remove(op.K)
			if got.ok && lenBefore >= 6 {
				exposed = true
			}
			wantRef.ok, wantRef.evs = ref.remove(op.K)
			wantDev.ok, wantDev.evs = dev.remove(op.K)
		case "clear":
			cc.Clear()
			wantRef.evs = ref.clear()
			wantDev.evs = dev.clear()
			multiset = true
		default:
			return errf(i, op, "VK-INFRA unknown op")
		}
		got.evs = evlog
		got.n, got.size = cc.Len(), cc.Size()
		wantRef.n, wantRef.size = ref.length(), ref.total()
		wantDev.n, wantDev.size = dev.length(), dev.total()

		// ---- clauses that are strict whatever the eviction choice -----------
		if got.size > limit {
			return errf(i, op, "Size = %d exceeds the limit %d", got.size, limit)
		}
		for _, p := range got.evs {
			if !putOK[p.V.ID] {
				return errf(i, op, "eviction callback reports %v which was never stored", p)
			}
			if reported[p.V.ID] {
				return errf(i, op, "eviction callback reports %v a second time", p)
			}
			reported[p.V.ID] = true
		}
		same := func(w opResult) bool {
			return got.ok == w.ok && got.val == w.val && got.n == w.n && got.size == w.size && samePairs(got.evs, w.evs, multiset)
		}
		if devAlive && !same(wantDev) {
			devAlive = false
		}
		if !following {
			if !same(wantRef) {
				if !o.NoTriage && exposed && devAlive {
					following = true
					knownHits++
				} else {
					msg := errf(i, op, "result differs from the reference LRU cache: got ok=%v val=%v Len=%d Size=%d callbacks=%v; want ok=%v val=%v Len=%d Size=%d callbacks=%v",
						got.ok, got.val, got.n, got.size, got.evs, wantRef.ok, wantRef.val, wantRef.n, wantRef.size, wantRef.evs)
					if exposed && !o.NoTriage {
						msg += " [history is exposed to known finding F2, but the deviation model does not reproduce the cache's behaviour: a different defect]"
					}
					return msg
				}
			}
		} else if !devAlive {
			return errf(i, op, "after an F2-explained divergence the cache no longer follows the deviation model: got ok=%v val=%v Len=%d Size=%d callbacks=%v; model ok=%v val=%v Len=%d Size=%d callbacks=%v",
				got.ok, got.val, got.n, got.size, got.evs, wantDev.ok, wantDev.val, wantDev.n, wantDev.size, wantDev.evs)
		}
	}
	// exactly-once over the whole history (the interpreter ends with Clear)
	for id := range putOK {
		if !reported[id] {
			return fmt.Sprintf("after the final Clear, value #%d was stored but never reported to the eviction callback [limit %d, sizes %s]", id, c.Limit, c.SizeMode)
		}
	}
	if cc.Len() != 0 || cc.Size() != 0 {
		return fmt.Sprintf("after the final Clear Len=%d Size=%d", cc.Len(), cc.Size())
	}
	if ref.ntEvic {
		o.NonTrivial()
	}
	o.ClassIf(exposed, "exposed_F2")
	o.ClassIf(!exposed, "unexposed(strict)")
	o.ClassIf(varSize, "variable_size")
	o.ClassIf(zeroSize > 0, "zero_size_value")
	o.ClassIf(refused > 0, "refused_put")
	o.ClassIf(c.Limit > 12, "limit>12")
	o.ClassIf(c.Limit >= 33, "limit>=33")
	o.ClassIf(ref.ntEvic, "eviction_after_reorder_or_remove")
	if knownHits > 0 {
		o.Class("known_hit_F2")
		o.Known("F2")
	}
	return ""
}
