// Package pcache holds the checks for cache.Cache with the LRU store:
// C08 (sequential behaviour) and C09 (concurrent use).
package pcache

import (
	"fmt"
	"math"
	"sort"
	"strings"

	"github.com/creachadair/mds/cache"
	"verif/devheap"
	"verif/elem"
	"verif/vk"
)

// Val is the cached value type: a unique id and the size it reports.
type Val struct {
	ID   int   `json:"id"`
	Size int64 `json:"sz"`
}

// COp is one step of a cache history.  Kinds: put, putNew (Put of a key that
// is absent), putSame (Put, under a present key, of the very element this
// history stored there last: for the pointer kinds the identical pointer),
// putEq (Put, under a present key, of a NEW element that reports the same size
// as the one stored there: for the pointer kinds a new pointer whose pointee
// is deeply equal), get, has, remove, clear.  putSame / putEq of an absent key
// are plain Puts.
type COp struct {
	Kind string `json:"k"`
	K    int    `json:"key,omitempty"`
	S    int    `json:"s,omitempty"` // size selector for put
}

// CacheCase is a sequential history for one cache.
type CacheCase struct {
	Limit    int    `json:"limit"`
	SizeMode string `json:"sizeMode"` // "unit" (no size func), "val" (value-dependent 0..4, sometimes = limit or > limit)
	Ops      []COp  `json:"ops"`
	// Elem is the kind of the cached values ("" = Val), KElem the kind of the
	// keys ("" = int); see kinds.go.
	Elem  string `json:"elem,omitempty"`
	KElem string `json:"kelem,omitempty"`
	// Opts is the order in which the options are applied to cache.LRU(), one
	// letter per call: E = OnEvict, S = WithSize (skipped when SizeMode is
	// "unit": no WithSize at all), x / y = WithSize / OnEvict with a decoy
	// whose RESULT IS DISCARDED (the options return copies).  An option given
	// twice: the last one is the one set, the earlier ones get decoys that must
	// never be called.  Without E there is no callback (its clauses are not
	// checked).  "" = "ES", today's order; "-" = no option at all.
	Opts string `json:"opts,omitempty"`
	// Probe: every step is bracketed by Has(key of the step) before and after
	// it, both compared with the models (Has is not a use, so the history is
	// the same with and without the probes).
	Probe bool `json:"probe,omitempty"`
	// BigLimit, when not 0, is the limit handed to cache.New (the whole int64
	// range: 2^31, 2^32, 2^53, 2^62, MaxInt64 and their neighbours) and Unit the
	// factor of the size selectors: a Put of selector s reports the size s*Unit
	// (+ a few low bits chosen by the key) instead of s.  Limit keeps its role
	// as the scale of the key space.  Sizes are just numbers the size function
	// returns, so this costs nothing.  The interpreter keeps every sum the
	// cache has to form (size of the present entries + size of the new value)
	// within int64: see fitBig.  Needs a value kind that carries an int64 size
	// (not the length-sized ones).
	BigLimit int64 `json:"bigLimit,omitempty"`
	Unit     int64 `json:"unit,omitempty"`
}

type pair struct {
	K int
	V Val
}

// ---------------------------------------------------------------------------
// Reference LRU cache (pure recency list).

type refEntry struct {
	k         int
	v         Val
	touched   bool // re-ordered by a Get since it was stored
	nbRemoved bool // a neighbour in recency order was removed by Remove
}

type refLRU struct {
	limit  int64
	unit   bool
	list   []*refEntry // least recently used first
	size   int64
	ntEvic bool
}

func (r *refLRU) sizeOf(v Val) int64 {
	if r.unit {
		return 1
	}
	return v.Size
}
func (r *refLRU) idx(k int) int {
	for i, e := range r.list {
		if e.k == k {
			return i
		}
	}
	return -1
}
func (r *refLRU) put(k int, v Val) (ok bool, ev []pair) {
	sz := r.sizeOf(v)
	if sz > r.limit {
		return false, nil
	}
	if i := r.idx(k); i >= 0 {
		e := r.list[i]
		ev = append(ev, pair{e.k, e.v})
		r.size -= r.sizeOf(e.v)
		r.list = append(r.list[:i], r.list[i+1:]...)
	}
	for r.size+sz > r.limit {
		e := r.list[0]
		if e.touched || e.nbRemoved {
			r.ntEvic = true
		}
		ev = append(ev, pair{e.k, e.v})
		r.size -= r.sizeOf(e.v)
		r.list = r.list[1:]
	}
	r.list = append(r.list, &refEntry{k: k, v: v})
	r.size += sz
	return true, ev
}
func (r *refLRU) get(k int) (Val, bool) {
	i := r.idx(k)
	if i < 0 {
		return Val{}, false
	}
	e := r.list[i]
	if i != len(r.list)-1 {
		e.touched = true
	}
	r.list = append(append(r.list[:i:i], r.list[i+1:]...), e)
	return e.v, true
}
func (r *refLRU) has(k int) bool { return r.idx(k) >= 0 }

// without is the total size of the entries other than the one of key k.
func (r *refLRU) without(k int) int64 {
	if i := r.idx(k); i >= 0 {
		return r.size - r.sizeOf(r.list[i].v)
	}
	return r.size
}
func (r *refLRU) remove(k int) (bool, []pair) {
	i := r.idx(k)
	if i < 0 {
		return false, nil
	}
	e := r.list[i]
	if i > 0 {
		r.list[i-1].nbRemoved = true
	}
	if i+1 < len(r.list) {
		r.list[i+1].nbRemoved = true
	}
	r.size -= r.sizeOf(e.v)
	r.list = append(r.list[:i:i], r.list[i+1:]...)
	return true, []pair{{e.k, e.v}}
}
func (r *refLRU) clear() []pair {
	var ev []pair
	for _, e := range r.list {
		ev = append(ev, pair{e.k, e.v})
	}
	r.list, r.size = nil, 0
	return ev
}

// ---------------------------------------------------------------------------
// Deviation model: cache.go + lru.go re-implemented over devheap with F2
// (the recency heap never sifts up after an interior removal).

type prio struct {
	at  int64
	key int
	val Val
}

type devLRU struct {
	limit int64
	unit  bool
	h     *devheap.Heap[prio]
	clock int64
	size  int64
}

func newDevLRU(limit int64, unit bool) *devLRU {
	return &devLRU{limit: limit, unit: unit, h: &devheap.Heap[prio]{F1: true, F2: true, Cmp: func(a, b prio) int {
		switch {
		case a.at < b.at:
			return -1
		case a.at > b.at:
			return 1
		}
		return 0
	}}}
}
func (d *devLRU) sizeOf(v Val) int64 {
	if d.unit {
		return 1
	}
	return v.Size
}
func (d *devLRU) pos(k int) int {
	for i, e := range d.h.Data {
		if e.key == k {
			return i
		}
	}
	return -1
}
func (d *devLRU) put(k int, v Val) (bool, []pair) {
	sz := d.sizeOf(v)
	if sz > d.limit {
		return false, nil
	}
	var ev []pair
	if p := d.pos(k); p >= 0 {
		old := d.h.Pop(p)
		ev = append(ev, pair{k, old.val})
		d.size -= d.sizeOf(old.val)
	}
	ns := d.size + sz
	for ns > d.limit {
		out := d.h.Pop(0)
		ev = append(ev, pair{out.key, out.val})
		ns -= d.sizeOf(out.val)
	}
	d.clock++
	d.h.Add(prio{at: d.clock, key: k, val: v})
	d.size = ns
	return true, ev
}
func (d *devLRU) get(k int) (Val, bool) {
	p := d.pos(k)
	if p < 0 {
		return Val{}, false
	}
	d.clock++
	out := d.h.Pop(p)
	out.at = d.clock
	d.h.Add(out)
	return out.val, true
}
func (d *devLRU) has(k int) bool { return d.pos(k) >= 0 }
func (d *devLRU) without(k int) int64 {
	if p := d.pos(k); p >= 0 {
		return d.size - d.sizeOf(d.h.Data[p].val)
	}
	return d.size
}
func (d *devLRU) remove(k int) (bool, []pair) {
	p := d.pos(k)
	if p < 0 {
		return false, nil
	}
	old := d.h.Pop(p)
	d.size -= d.sizeOf(old.val)
	return true, []pair{{k, old.val}}
}
func (d *devLRU) clear() []pair {
	var ev []pair
	for len(d.h.Data) > 0 {
		out := d.h.Pop(0)
		ev = append(ev, pair{out.key, out.val})
	}
	d.size = 0
	return ev
}

func (r *refLRU) length() int  { return len(r.list) }
func (r *refLRU) total() int64 { return r.size }
func (d *devLRU) length() int  { return len(d.h.Data) }
func (d *devLRU) total() int64 { return d.size }

// ---------------------------------------------------------------------------

type opResult struct {
	ok   bool
	val  Val
	evs  []pair
	n    int
	size int64
	// Has(key) before / after the step (cases with Probe)
	pre, post bool
}

func samePairs(a, b []pair, asMultiset bool) bool {
	if len(a) != len(b) {
		return false
	}
	if asMultiset {
		a, b = append([]pair(nil), a...), append([]pair(nil), b...)
		less := func(s []pair) func(i, j int) bool {
			return func(i, j int) bool {
				if s[i].V.ID != s[j].V.ID {
					return s[i].V.ID < s[j].V.ID
				}
				return s[i].K < s[j].K // ids are unique, except noID (empty values of the length-sized kinds)
			}
		}
		sort.Slice(a, less(a))
		sort.Slice(b, less(b))
	}
	for i := range a {
		if a[i] != b[i] {
			return false
		}
	}
	return true
}

// opts resolves the Opts field ("" = today's order).
func (c CacheCase) opts() string {
	if c.Opts == "" {
		return "ES"
	}
	return c.Opts
}

// unit reports whether the cache is built without a size function.
func (c CacheCase) unit() bool {
	return c.SizeMode == "unit" || !strings.Contains(c.opts(), "S")
}

// valFor returns the model value of the Put at step; scale is lenScale for
// the value kinds whose size is their length (see kinds.go), else 1.
func (c CacheCase) valFor(step int, op COp, scale int64) Val {
	v := Val{ID: step + 1, Size: 1}
	if c.BigLimit != 0 && !c.unit() {
		v.Size = c.bigSize(op)
		return v
	}
	if !c.unit() {
		switch {
		case op.S%11 == 9:
			v.Size = int64(c.Limit)
		case op.S%11 == 10 && op.S%2 == 0 && scale == 1:
			v.Size = math.MaxInt64 - int64(op.S%3) // far too big: must be refused without any arithmetic going wrong
		case op.S%11 == 10:
			v.Size = int64(c.Limit) + 1 + int64(op.S%3)
		default:
			v.Size = int64(op.S % 5)
		}
		v.Size *= scale
		if scale > 1 && v.Size == 0 {
			v.ID = noID // the empty string / slice
		}
	}
	return v
}

// bigSize is the size of the value of a Put in a case with BigLimit: selector
// 9 is exactly the limit, 10 more than the limit (a refused Put; the limit
// itself when the limit is MaxInt64: nothing is larger), 0 is size 0, the
// others s*Unit (saturating) plus 0..4 low bits that depend on the key and the
// selector, so that the size function is not constant per key and that the
// sizes are no round numbers.
func (c CacheCase) bigSize(op COp) int64 {
	limit := c.BigLimit
	switch s := int64(op.S % 5); {
	case op.S%11 == 9:
		return limit
	case op.S%11 == 10 && op.S%2 == 0:
		return max(limit, math.MaxInt64-int64(op.S%3))
	case op.S%11 == 10:
		return limit + min(math.MaxInt64-limit, 1+int64(op.S%3))
	case s == 0:
		return 0
	default:
		u := max(c.Unit, 1)
		low := int64((op.K*7 + op.S) % 5)
		if u > (math.MaxInt64-low)/s {
			return math.MaxInt64
		}
		return s*u + low
	}
}

// fitBig keeps a Put inside the arithmetic the cache is specified for: a value
// whose own size exceeds the limit is refused before anything is added up, but
// for one that fits the cache forms "size of the other entries + size of the
// value", and with limits above MaxInt64/2 that sum can leave int64 (undefined
// territory: the documentation promises nothing there).  others is the total
// of the present entries except the one under the key of the Put.  The size is
// cut down to what is left of the int64 range; the sum is then exactly
// MaxInt64, which still is above every limit but MaxInt64 itself (an evicting
// Put).
func fitBig(sz, limit, others int64) int64 {
	if sz <= limit && sz > math.MaxInt64-others {
		return math.MaxInt64 - others
	}
	return sz
}

// runC08 is the replay / rapid entry: it picks the instantiation.
func runC08(c CacheCase, o *vk.Obs) string {
	switch c.KElem {
	case "":
		return runC08K(c, o, intKeys())
	case elem.Str:
		return runC08K(c, o, keyKitOf(elem.StrKit()))
	case elem.Wide:
		return runC08K(c, o, keyKitOf(elem.WideKit()))
	case elem.I16:
		return runC08K(c, o, keyKitOf(elem.I16Kit()))
	}
	return badKind("key", c.KElem)
}

func runC08K[K comparable](c CacheCase, o *vk.Obs, kk keyKit[K]) string {
	switch c.Elem {
	case "":
		return runC08G(c, o, kk, structVals())
	case elem.Ptr:
		return runC08G(c, o, kk, cellVals(elem.PtrKit()))
	case elem.Any:
		return runC08G(c, o, kk, cellVals(elem.AnyKit()))
	case elem.Wide:
		return runC08G(c, o, kk, cellVals(elem.WideKit()))
	case elem.Str:
		return runC08G(c, o, kk, stringVals(c.unit()))
	case elem.Bytes:
		return runC08G(c, o, kk, bytesVals(c.unit()))
	}
	return badKind("value", c.Elem)
}

func runC08G[K comparable, V any](c CacheCase, o *vk.Obs, kk keyKit[K], vt valKit[V]) string {
	if usesCells(c.Elem) {
		elem.ResetPtr()
	}
	unit := c.unit()
	limit := int64(c.Limit) * vt.scale
	if c.BigLimit != 0 {
		if vt.scale != 1 {
			return "VK-INFRA a case with bigLimit needs a value kind whose size is not its length"
		}
		limit = c.BigLimit
	}
	var evlog []kv[K, V]
	decoy := "" // set when a function that a later option replaced (or that was set on a discarded copy) is called
	onEvict := func(k K, v V) { evlog = append(evlog, kv[K, V]{k, v}) }
	opts := c.opts()
	lastE, lastS := strings.LastIndexByte(opts, 'E'), strings.LastIndexByte(opts, 'S')
	hasCB := lastE >= 0
	cfg := cache.LRU[K, V]()
	for j, ch := range opts {
		switch {
		case ch == 'E' && j == lastE:
			cfg = cfg.OnEvict(onEvict)
		case ch == 'E':
			cfg = cfg.OnEvict(func(K, V) {
				decoy = "the eviction callback given to an earlier OnEvict was called although a later OnEvict replaced it"
			})
		case ch == 'S' && c.SizeMode == "unit":
			// no WithSize at all
		case ch == 'S' && j == lastS:
			cfg = cfg.WithSize(vt.size)
		case ch == 'S':
			cfg = cfg.WithSize(func(V) int64 {
				decoy = "the size function given to an earlier WithSize was called although a later WithSize replaced it"
				return 1 << 40
			})
		case ch == 'x':
			_ = cfg.WithSize(func(V) int64 {
				decoy = "a size function was called that was set on a copy of the Config which was then discarded"
				return 1 << 40
			})
		case ch == 'y':
			_ = cfg.OnEvict(func(K, V) {
				decoy = "an eviction callback was called that was set on a copy of the Config which was then discarded"
			})
		}
	}
	cc := cache.New(limit, cfg)
	ref := &refLRU{limit: limit, unit: unit}
	dev := newDevLRU(limit, unit)
	devAlive := true   // dev still coincides with the real cache on everything observed
	following := false // true once a divergence from pure LRU was explained by dev
	exposed := false
	knownHits := 0
	// putOK / reported count per value id: 1 and at most 1 for every id, except
	// that a putSame stores the value it replaces once more and that the empty
	// values of the length-sized kinds share noID.
	putOK := map[int]int{}    // ids successfully stored
	reported := map[int]int{} // ids seen by the callback
	made := map[int]V{}       // id -> the element handed to Put for it
	last := map[int]V{}       // key -> the element of the last successful Put under it
	lastVal := map[int]Val{}
	refused, zeroSize, varSize := 0, 0, false
	rePut, eqPut := 0, 0
	cutPut, hugeOne, hugeSum, bigEvict := 0, 0, 0, 0

	kinds := ""
	if c.Elem != "" || c.KElem != "" || c.Opts != "" {
		kinds = fmt.Sprintf(", values %s, keys %s, options %q", kindName(c.Elem, "Val"), kindName(c.KElem, elem.Int), opts)
		if vt.scale != 1 {
			kinds += fmt.Sprintf(" (sizes are lengths: limit and sizes x%d)", vt.scale)
		}
	}
	if c.BigLimit != 0 {
		kinds += fmt.Sprintf("; the limit given to New is %d (limit %d is the scale of the key space only), size selector s = size s*%d + 0..4", c.BigLimit, c.Limit, c.Unit)
	}
	errf := func(i int, op COp, format string, args ...any) string {
		return fmt.Sprintf("op#%d %s(key=%d) [limit %d, sizes %s%s]: %s", i, op.Kind, op.K, c.Limit, c.SizeMode, kinds, fmt.Sprintf(format, args...))
	}
	// back converts an element that came out of the cache and, for the kinds
	// with an identity, checks that it is the element that was put in.
	back := func(x V) (Val, string) {
		v := vt.val(x)
		if m, ok := made[v.ID]; ok && vt.hasID && v.ID != noID && !vt.same(x, m) {
			return v, fmt.Sprintf("value #%d came back as a different element (a copy / another pointer) than the one handed to Put", v.ID)
		}
		return v, ""
	}
	var ops []COp
	churned := 0
	for _, op := range c.Ops {
		if op.Kind != "churn" {
			ops = append(ops, op)
			continue
		}
		// a marathon: tens of thousands of replacing Puts / Remove+Put pairs on
		// one or two keys (counters and thresholds that only trip after very
		// many operations on ONE cache), every step checked like any other
		if churned++; churned > 1 {
			continue
		}
		n := []int{33000, 40000, 66000, 70000}[op.S%4]
		for j := 0; j < n; j++ {
			switch op.S / 4 % 3 {
			case 0:
				ops = append(ops, COp{Kind: "put", K: op.K, S: 1})
			case 1:
				ops = append(ops, COp{Kind: []string{"remove", "put"}[j%2], K: op.K, S: 1})
			default:
				ops = append(ops, COp{Kind: "put", K: op.K + j%2, S: 1 + j%2})
			}
		}
	}
	ops = append(ops, COp{Kind: "clear"})
	for i, op := range ops {
		o.Step()                    // interleaved execution (vk.Interleave) switches to the other case here
		op.K = op.K % (c.Limit + 4) // key space scales with the limit so that evictions happen
		if op.Kind == "putNew" {    // a key that is not present (if any): forces an insertion
			for j := 0; j < c.Limit+4; j++ {
				if k := (op.K + j) % (c.Limit + 4); !cc.Has(kk.mk(k)) {
					op.K = k
					break
				}
			}
			op.Kind = "put"
		}
		evlog = nil
		var got, wantRef, wantDev opResult
		lenBefore := cc.Len()
		multiset := false
		identity := ""
		if c.Probe {
			got.pre, wantRef.pre, wantDev.pre = cc.Has(kk.mk(op.K)), ref.has(op.K), dev.has(op.K)
		}
		switch op.Kind {
		case "put", "putSame", "putEq":
			v := c.valFor(i, op, vt.scale)
			var x V
			held, present := lastVal[op.K]
			present = present && op.Kind != "put" && cc.Has(kk.mk(op.K))
			switch {
			case present && op.Kind == "putSame":
				v, x = held, last[op.K] // the identical element once more
				rePut++
			case present:
				v.Size = held.Size // a new element (new id) that reports the same size
				if vt.scale > 1 && v.Size == 0 {
					v.ID = noID
				}
				x = vt.mk(v)
				eqPut++
			default:
				x = vt.mk(v)
			}
			if c.BigLimit != 0 && !unit {
				if sz := fitBig(v.Size, limit, max(ref.without(op.K), dev.without(op.K))); sz != v.Size {
					v.Size = sz
					x = vt.mk(v)
					cutPut++
				}
				if v.Size <= limit && v.Size > math.MaxInt64/2 {
					hugeOne++
				}
			}
			if v.Size != 1 {
				varSize = true
			}
			if !unit && v.Size == 0 {
				zeroSize++
			}
			if ref.has(op.K) && lenBefore >= 6 {
				exposed = true
			}
			got.ok = cc.Put(kk.mk(op.K), x)
			wantRef.ok, wantRef.evs = ref.put(op.K, v)
			wantDev.ok, wantDev.evs = dev.put(op.K, v)
			if got.ok {
				putOK[v.ID]++
				made[v.ID], last[op.K], lastVal[op.K] = x, x, v
			} else {
				refused++
			}
			if c.BigLimit != 0 && wantRef.ok {
				if ref.total() > math.MaxInt64/2 && len(ref.list) > 1 {
					hugeSum++
				}
				if len(wantRef.evs) > 0 && !(len(wantRef.evs) == 1 && wantRef.evs[0].K == op.K) {
					bigEvict++
				}
			}
		case "get":
			var x V
			x, got.ok = cc.Get(kk.mk(op.K))
			if got.ok {
				got.val, identity = back(x)
			}
			if got.ok && lenBefore >= 6 {
				exposed = true
			}
			wantRef.val, wantRef.ok = ref.get(op.K)
			wantDev.val, wantDev.ok = dev.get(op.K)
		case "has":
			got.ok = cc.Has(kk.mk(op.K))
			wantRef.ok = ref.has(op.K)
			wantDev.ok = dev.has(op.K)
		case "remove":
			got.ok = cc.Remove(kk.mk(op.K))
			if got.ok && lenBefore >= 6 {
				exposed = true
			}
			wantRef.ok, wantRef.evs = ref.remove(op.K)
			wantDev.ok, wantDev.evs = dev.remove(op.K)
		case "clear":
			cc.Clear()
			wantRef.evs = ref.clear()
			wantDev.evs = dev.clear()
			multiset = true
		default:
			return errf(i, op, "VK-INFRA unknown op")
		}
		if c.Probe {
			got.post, wantRef.post, wantDev.post = cc.Has(kk.mk(op.K)), ref.has(op.K), dev.has(op.K)
		}
		for _, e := range evlog {
			v, id := back(e.v)
			got.evs = append(got.evs, pair{kk.v(e.k), v})
			if identity == "" && id != "" {
				identity = "eviction callback: " + id
			}
		}
		got.n, got.size = cc.Len(), cc.Size()
		wantRef.n, wantRef.size = ref.length(), ref.total()
		wantDev.n, wantDev.size = dev.length(), dev.total()

		// ---- clauses that are strict whatever the eviction choice -----------
		if got.size > limit {
			return errf(i, op, "Size = %d exceeds the limit %d", got.size, limit)
		}
		if decoy != "" {
			return errf(i, op, "%s", decoy)
		}
		for _, p := range got.evs {
			if putOK[p.V.ID] == 0 {
				return errf(i, op, "eviction callback reports %v which was never stored", p)
			}
			if reported[p.V.ID] >= putOK[p.V.ID] {
				return errf(i, op, "eviction callback reports %v a second time", p)
			}
			reported[p.V.ID]++
		}
		if identity != "" {
			return errf(i, op, "%s", identity)
		}
		same := func(w opResult) bool {
			return got.ok == w.ok && got.val == w.val && got.n == w.n && got.size == w.size && (!hasCB || samePairs(got.evs, w.evs, multiset)) &&
				got.pre == w.pre && got.post == w.post
		}
		probes := func(w opResult) string {
			if !c.Probe {
				return ""
			}
			return fmt.Sprintf("; Has(%d) before / after the call: got %v / %v, want %v / %v", op.K, got.pre, got.post, w.pre, w.post)
		}
		if devAlive && !same(wantDev) {
			devAlive = false
		}
		if !following {
			if !same(wantRef) {
				if !o.NoTriage && exposed && devAlive {
					following = true
					knownHits++
				} else {
					msg := errf(i, op, "result differs from the reference LRU cache: got ok=%v val=%v Len=%d Size=%d callbacks=%v; want ok=%v val=%v Len=%d Size=%d callbacks=%v",
						got.ok, got.val, got.n, got.size, got.evs, wantRef.ok, wantRef.val, wantRef.n, wantRef.size, wantRef.evs) + probes(wantRef)
					if exposed && !o.NoTriage {
						msg += " [history is exposed to known finding F2, but the deviation model does not reproduce the cache's behaviour: a different defect]"
					}
					return msg
				}
			}
		} else if !devAlive {
			return errf(i, op, "after an F2-explained divergence the cache no longer follows the deviation model: got ok=%v val=%v Len=%d Size=%d callbacks=%v; model ok=%v val=%v Len=%d Size=%d callbacks=%v",
				got.ok, got.val, got.n, got.size, got.evs, wantDev.ok, wantDev.val, wantDev.n, wantDev.size, wantDev.evs) + probes(wantDev)
		}
	}
	// exactly-once over the whole history (the interpreter ends with Clear)
	for id, n := range putOK {
		if hasCB && reported[id] != n {
			if n > 1 || reported[id] > 0 {
				return fmt.Sprintf("after the final Clear, value #%d had been stored %d times but was reported to the eviction callback %d times [limit %d, sizes %s%s]", id, n, reported[id], c.Limit, c.SizeMode, kinds)
			}
			return fmt.Sprintf("after the final Clear, value #%d was stored but never reported to the eviction callback [limit %d, sizes %s%s]", id, c.Limit, c.SizeMode, kinds)
		}
	}
	if cc.Len() != 0 || cc.Size() != 0 {
		return fmt.Sprintf("after the final Clear Len=%d Size=%d", cc.Len(), cc.Size())
	}
	if ref.ntEvic {
		o.NonTrivial()
	}
	o.ClassIf(exposed, "exposed_F2")
	o.ClassIf(!exposed, "unexposed(strict)")
	o.ClassIf(varSize, "variable_size")
	o.ClassIf(zeroSize > 0, "zero_size_value")
	o.ClassIf(refused > 0, "refused_put")
	if c.BigLimit != 0 {
		o.Class("big_limit_" + bigClass(c.BigLimit))
		o.ClassIf(unit, "big_limit_without_size_function")
		o.ClassIf(hugeOne > 0, "big:one_value_above_2^62_stored")
		o.ClassIf(hugeSum > 0, "big:several_entries_total_above_2^62")
		o.ClassIf(bigEvict > 0, "big:put_evicts_others")
		o.ClassIf(cutPut > 0, "big:size_cut_to_keep_the_sum_within_int64")
	}
	o.ClassIf(c.Limit > 12, "limit>12")
	o.ClassIf(c.Limit >= 33, "limit>=33")
	o.ClassIf(ref.ntEvic, "eviction_after_reorder_or_remove")
	o.Class("elem=" + kindName(c.Elem, "Val"))
	o.Class("kelem=" + kindName(c.KElem, elem.Int))
	o.Class("opts=" + kindName(c.Opts, "ES(default)"))
	o.ClassIf(c.Probe, "has_probes_around_every_step")
	o.ClassIf(churned > 0, "marathon(>=33000_replacing_puts_or_removals)")
	o.ClassIf(rePut > 0, "put_of_the_element_already_held")
	o.ClassIf(eqPut > 0, "put_of_a_new_element_equal_to_the_one_held")
	if knownHits > 0 {
		o.Class("known_hit_F2")
		o.Known("F2")
	}
	return ""
}

// bigClass names the region of a BigLimit.
func bigClass(l int64) string {
	switch {
	case l == math.MaxInt64:
		return "MaxInt64"
	case l > 1<<62:
		return "(2^62,MaxInt64)"
	case l == 1<<62:
		return "2^62"
	case l >= 1<<53:
		return "[2^53,2^62)"
	case l >= 1<<31:
		return "[2^31,2^53)"
	}
	return "<2^31"
}

// LongRunCase: one cache of limit 2 (unit sizes): Put(1), Put(2), then Gets
// successful Get(1) calls, then Put(3), which must evict key 2 (key 1 is the
// most recently used however long that run of Gets was).  With Gets beyond
// 2^31 / 2^32 this crosses the range of a 32-bit access clock.
type LongRunCase struct {
	Gets uint64 `json:"gets"`
}

func runLongRun(c LongRunCase, o *vk.Obs) string {
	var evicted []int
	cc := cache.New(2, cache.LRU[int, int]().OnEvict(func(k, _ int) { evicted = append(evicted, k) }))
	cc.Put(1, 10)
	cc.Put(2, 20)
	for i := uint64(0); i < c.Gets; i++ {
		if i&0xffffff == 0 {
			o.Step()
		}
		if v, ok := cc.Get(1); !ok || v != 10 {
			return fmt.Sprintf("Get(1) #%d = (%d, %v), want (10, true)", i+1, v, ok)
		}
	}
	cc.Put(3, 30)
	if len(evicted) != 1 || evicted[0] != 2 || !cc.Has(1) || cc.Has(2) || !cc.Has(3) {
		return fmt.Sprintf("limit 2: Put(1), Put(2), %d x Get(1), Put(3): evicted %v, Has(1)=%v Has(2)=%v Has(3)=%v; want key 2 evicted (key 1 was used last)", c.Gets, evicted, cc.Has(1), cc.Has(2), cc.Has(3))
	}
	if c.Gets > 1<<31 {
		o.NonTrivial()
	}
	o.ClassIf(c.Gets > 1<<31, "more_than_2^31_accesses_on_one_cache")
	o.ClassIf(c.Gets > 1<<32, "more_than_2^32_accesses_on_one_cache")
	return ""
}
