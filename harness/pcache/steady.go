package pcache

import (
	"fmt"
	"runtime"
	"sync"
	"sync/atomic"

	"github.com/creachadair/mds/cache"
)

// SteadyCase: a cache that holds exactly Keys unit-size entries (limit = Keys)
// while Writers goroutines REPLACE the values of those keys (and Get them) and
// Readers goroutines observe.  No operation of the workload adds or removes a
// key - a replacing Put of a value of the same size fits without evicting - so
// at every possible linearization point the cache holds exactly those keys:
// whatever the schedule, every Has(k) and Get(k) must find k (Get: a value
// that was put for k), every Len must be Keys and every Size Keys, every Put
// must succeed, and the eviction callback must have reported exactly the
// replaced values, once each.  This is the consequence of the property for one
// particular workload; it is checked directly, call by call, which allows
// millions of observations per second where the linearizability checker decides
// histories of a few dozen calls.  A window of a few instructions in which a
// call can see a half-updated cache is found by sheer repetition.
type SteadyCase struct {
	Keys    int `json:"keys"`
	Writers int `json:"writers"`
	Readers int `json:"readers"`
	Iters   int `json:"iters"` // replacing Puts per writer
	Procs   int `json:"procs,omitempty"`
	Store   int `json:"store,omitempty"` // 0: default store of cache.LRU
}

type steadyVal struct{ K, Gen int }

func runSteady(c SteadyCase) string {
	keys := min(max(c.Keys, 1), 64)
	writers, readers := min(max(c.Writers, 1), 8), min(max(c.Readers, 1), 8)
	iters := min(max(c.Iters, 1), 5_000_000)
	if c.Procs > 0 {
		prev := runtime.GOMAXPROCS(c.Procs)
		defer runtime.GOMAXPROCS(prev)
	}
	var mu sync.Mutex
	reported := map[steadyVal]int{}
	cfg := cache.LRU[int, steadyVal]().
		WithSize(func(steadyVal) int64 { return 1 }).
		OnEvict(func(k int, v steadyVal) {
			mu.Lock()
			if v.K != k {
				reported[steadyVal{-1, -1}]++
			}
			reported[v]++
			mu.Unlock()
		})
	cc := cache.New(int64(keys), cfg)
	for k := 0; k < keys; k++ {
		if !cc.Put(k, steadyVal{k, 0}) {
			return fmt.Sprintf("filling: Put(%d) into a cache of limit %d holding %d unit entries was refused", k, keys, k)
		}
	}
	desc := fmt.Sprintf("cache of limit %d holding keys 0..%d (unit sizes); %d goroutines replace their values, %d observe; no call adds or removes a key", keys, keys-1, writers, readers)
	var stop atomic.Bool
	var firstErr atomic.Pointer[string]
	fail := func(s string) {
		firstErr.CompareAndSwap(nil, &s)
		stop.Store(true)
	}
	guard := func(who string) {
		if r := recover(); r != nil {
			fail(fmt.Sprintf("%s: %s: a cache call panicked: %v", desc, who, r))
		}
	}
	var gens atomic.Int64 // successful replacing Puts
	var wgW, wgR sync.WaitGroup
	start := make(chan struct{})
	for w := 0; w < writers; w++ {
		wgW.Add(1)
		go func(w int) {
			defer wgW.Done()
			defer guard(fmt.Sprintf("writer %d", w))
			<-start
			for i := 0; i < iters && !stop.Load(); i++ {
				k := (i + w) % keys
				// generations are unique per (writer, i): every replaced value is distinct
				if !cc.Put(k, steadyVal{k, 1 + w + i*writers}) {
					fail(fmt.Sprintf("%s: writer %d: Put(%d) replacing a unit entry by a unit entry was refused", desc, w, k))
					return
				}
				gens.Add(1)
				if i%3 == 0 {
					if v, ok := cc.Get(k); !ok || v.K != k {
						fail(fmt.Sprintf("%s: writer %d: Get(%d) = (%+v, %v) right after its own Put", desc, w, k, v, ok))
						return
					}
				}
			}
		}(w)
	}
	for r := 0; r < readers; r++ {
		wgR.Add(1)
		go func(r int) {
			defer wgR.Done()
			defer guard(fmt.Sprintf("reader %d", r))
			<-start
			for i := 0; !stop.Load(); i++ {
				k := (i + r) % keys
				switch (i / keys) % 4 {
				case 0, 1:
					if !cc.Has(k) {
						fail(fmt.Sprintf("%s: reader %d: Has(%d) = false (observation %d)", desc, r, k, i))
						return
					}
				case 2:
					if v, ok := cc.Get(k); !ok || v.K != k {
						fail(fmt.Sprintf("%s: reader %d: Get(%d) = (%+v, %v) (observation %d)", desc, r, k, v, ok, i))
						return
					}
				case 3:
					if n := cc.Len(); n != keys {
						fail(fmt.Sprintf("%s: reader %d: Len() = %d (observation %d)", desc, r, n, i))
						return
					}
					if n := cc.Size(); n != int64(keys) {
						fail(fmt.Sprintf("%s: reader %d: Size() = %d (observation %d)", desc, r, n, i))
						return
					}
				}
			}
		}(r)
	}
	close(start)
	done := make(chan struct{})
	go func() { wgW.Wait(); stop.Store(true); wgR.Wait(); close(done) }()
	if d := waitOrDeadlock(done); d != "" {
		stop.Store(true)
		return desc + ": " + d
	}
	if p := firstErr.Load(); p != nil {
		return *p
	}
	// every replaced value was reported exactly once, nothing else was
	mu.Lock()
	defer mu.Unlock()
	total := 0
	for v, n := range reported {
		if v.K < 0 {
			return fmt.Sprintf("%s: the eviction callback was called with a value stored under another key", desc)
		}
		if n != 1 {
			return fmt.Sprintf("%s: the eviction callback reported %+v %d times", desc, v, n)
		}
		total++
	}
	if want := int(gens.Load()); total != want {
		return fmt.Sprintf("%s: %d replacing Puts succeeded, the eviction callback reported %d values", desc, want, total)
	}
	if n := cc.Len(); n != keys {
		return fmt.Sprintf("%s: Len() = %d at the end", desc, n)
	}
	return ""
}
