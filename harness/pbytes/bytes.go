// Package pbytes holds the checks for mbits (LeadingZeroes, TrailingZeroes,
// Zero) and mstr (Trunc, CompareNatural): property C20.
package pbytes

import (
	"bytes"
	"encoding/hex"
	"fmt"
	"math/big"
	"strings"
	"unicode/utf8"
	"unsafe"

	"github.com/creachadair/mds/mbits"
	"github.com/creachadair/mds/mstr"
	"verif/vk"
)

// ---------------------------------------------------------------------------
// mbits

// BitsCase is one input of the mbits leg: the data bytes (hex) placed in a
// backing array so that the address of the first byte is Off modulo Align
// (a power of two <= 64; 0 means 8, the layout of the older replay files).
type BitsCase struct {
	Off   int    `json:"off"`
	Pat   string `json:"pat"`
	Align int    `json:"align,omitempty"`
}

// modOf normalises an Align field.
func modOf(align int) int {
	switch align {
	case 16, 32, 64:
		return align
	}
	return 8
}

const guardLen = 8 // guard bytes on each side of the slice (plus up to 7 of alignment padding)

// naive definitions
func leadingNaive(b []byte) int {
	n := 0
	for n < len(b) && b[n] == 0 {
		n++
	}
	return n
}

func trailingNaive(b []byte) int {
	n := 0
	for n < len(b) && b[len(b)-1-n] == 0 {
		n++
	}
	return n
}

// bitsBuf is a reusable backing array with a copy of its expected content.
type bitsBuf struct {
	back, want []byte
	start, n   int
	mod        int // address modulus of the placement (0 means 8)
}

// guards returns the modulus and the number of guard bytes on each side.
func (bb *bitsBuf) guards() (mod, g int) {
	mod = modOf(bb.mod)
	if mod > 8 {
		return mod, 64 + guardLen // block-wise code may stray by a whole block
	}
	return mod, guardLen
}

// place lays data out in the backing array, every other byte set to guard,
// and returns the sub-slice holding data whose address is off modulo bb.mod.  The
// slice keeps the capacity up to the end of the backing array, so a stray
// write lands in a guard byte instead of faulting.
func (bb *bitsBuf) place(data []byte, off int, guard byte) []byte {
	mod, g := bb.guards()
	total := g + mod + len(data) + g
	if cap(bb.back) < total {
		bb.back = make([]byte, total+64)
		bb.want = make([]byte, total+64)
	}
	bb.back, bb.want = bb.back[:total], bb.want[:total]
	base := int(uintptr(unsafe.Pointer(&bb.back[0])) & uintptr(mod-1)) // only to choose the alignment
	bb.start, bb.n = g+((off-base)%mod+mod)%mod, len(data)
	for i := range bb.back {
		bb.back[i] = guard
	}
	copy(bb.back[bb.start:], data)
	copy(bb.want, bb.back)
	return bb.back[bb.start : bb.start+bb.n]
}

// diff returns the offset (relative to the slice) of the first byte of the
// backing array that differs from its expected value, if any.
func (bb *bitsBuf) diff() (int, bool) {
	if bytes.Equal(bb.back, bb.want) {
		return 0, false
	}
	for i := range bb.back {
		if bb.back[i] != bb.want[i] {
			return i - bb.start, true
		}
	}
	return 0, false
}

// checkBits is the oracle for one (data, alignment), with both guard values.
func checkBits(bb *bitsBuf, data []byte, off int) string {
	wantL, wantT := leadingNaive(data), trailingNaive(data)
	for _, guard := range []byte{0x00, 0xFF} {
		sl := bb.place(data, off, guard)
		where := fmt.Sprintf("%d bytes at address %d mod %d, surrounding bytes %#02x", len(data), off, modOf(bb.mod), guard)
		var got int
		if pv := vk.PanicValue(func() { got = mbits.LeadingZeroes(sl) }); pv != nil {
			return fmt.Sprintf("LeadingZeroes(%s) panicked: %v", where, pv)
		}
		if got != wantL {
			return fmt.Sprintf("LeadingZeroes(%s) = %d, byte-by-byte count is %d", where, got, wantL)
		}
		if at, bad := bb.diff(); bad {
			return fmt.Sprintf("LeadingZeroes(%s) modified the byte at offset %d relative to the slice", where, at)
		}
		if pv := vk.PanicValue(func() { got = mbits.TrailingZeroes(sl) }); pv != nil {
			return fmt.Sprintf("TrailingZeroes(%s) panicked: %v", where, pv)
		}
		if got != wantT {
			return fmt.Sprintf("TrailingZeroes(%s) = %d, byte-by-byte count is %d", where, got, wantT)
		}
		if at, bad := bb.diff(); bad {
			return fmt.Sprintf("TrailingZeroes(%s) modified the byte at offset %d relative to the slice", where, at)
		}
		if pv := vk.PanicValue(func() { got = mbits.Zero(sl) }); pv != nil {
			return fmt.Sprintf("Zero(%s) panicked: %v", where, pv)
		}
		for i := 0; i < bb.n; i++ {
			bb.want[bb.start+i] = 0
		}
		if at, bad := bb.diff(); bad {
			if at >= 0 && at < bb.n {
				return fmt.Sprintf("Zero(%s) left byte %d = %#02x", where, at, bb.back[bb.start+at])
			}
			return fmt.Sprintf("Zero(%s) wrote outside the slice: the byte at offset %d relative to the slice is now %#02x", where, at, bb.back[bb.start+at])
		}
		if got != len(data) {
			return fmt.Sprintf("Zero(%s) returned %d, want %d", where, got, len(data))
		}
	}
	return ""
}

// Position sweep over large buffers.  A sweep input is described by (length,
// shape, p, v): one designated byte v != 0 at index p and
//
//	sweepZero    zeros everywhere else
//	sweepBefore  the bytes before p taken from rnd, zeros after p
//	sweepAfter   zeros before p, the bytes after p taken from rnd
//	sweepNone    all zero (p, v unused)
//	sweepAll     all bytes taken from rnd (p, v unused)
const (
	sweepZero = iota
	sweepBefore
	sweepAfter
	sweepNone
	sweepAll
)

var sweepClass = [...]string{"sweep_one_nonzero_byte", "sweep_random_bytes_then_nonzero_byte_then_zeros",
	"sweep_zeros_then_nonzero_byte_then_random_bytes", "sweep_all_zero", "sweep_random_bytes"}

// sweepData materialises one sweep input (for replay files and messages).
func sweepData(n, shape, p int, v byte, rnd []byte) []byte {
	data := make([]byte, n)
	switch shape {
	case sweepZero:
		data[p] = v
	case sweepBefore:
		copy(data[:p], rnd)
		data[p] = v
	case sweepAfter:
		data[p] = v
		copy(data[p+1:], rnd[p+1:])
	case sweepAll:
		copy(data, rnd)
	}
	return data
}

// sweeper runs sweep inputs of one (length, alignment, guard value) in place:
// the backing array is laid out once and only the bytes that differ from the
// previous input are rewritten, so that an input costs little more than the
// three library calls.  It checks a subset of what checkBits checks on the
// materialised input, which is how a failure is reported and replayed.
type sweeper struct {
	bb         *bitsBuf
	sl         []byte // the slice handed to the library
	rnd        []byte
	lzR, tzR   int // leading / trailing zero counts of rnd
	n, off     int
	guardValue byte
}

func newSweeper(bb *bitsBuf, n, off int, guard byte, rnd []byte) *sweeper {
	s := &sweeper{bb: bb, rnd: rnd, n: n, off: off, guardValue: guard, lzR: leadingNaive(rnd), tzR: trailingNaive(rnd)}
	s.sl = bb.place(make([]byte, n), off, guard)
	return s
}

// step runs one input; "" means it passed.
func (s *sweeper) step(shape, p int, v byte) (msg string) {
	defer func() {
		if r := recover(); r != nil {
			msg = fmt.Sprintf("panic: %v", r)
		}
	}()
	bb, n := s.bb, s.n
	back, want := bb.back[bb.start:bb.start+n], bb.want[bb.start:bb.start+n]
	// The previous step ended with the slice all zero in both arrays.
	wantL, wantT := n, n
	switch shape {
	case sweepZero:
		back[p], want[p] = v, v
		wantL, wantT = p, n-1-p
	case sweepBefore:
		copy(back[:p], s.rnd)
		copy(want[:p], s.rnd)
		back[p], want[p] = v, v
		wantL, wantT = min(s.lzR, p), n-1-p
	case sweepAfter:
		copy(back[p+1:], s.rnd[p+1:])
		copy(want[p+1:], s.rnd[p+1:])
		back[p], want[p] = v, v
		wantL, wantT = p, min(s.tzR, n-1-p)
	case sweepAll:
		copy(back, s.rnd)
		copy(want, s.rnd)
		wantL, wantT = min(s.lzR, n), min(s.tzR, n)
	}
	if got := mbits.LeadingZeroes(s.sl); got != wantL {
		return fmt.Sprintf("LeadingZeroes = %d, byte-by-byte count is %d", got, wantL)
	}
	if got := mbits.TrailingZeroes(s.sl); got != wantT {
		return fmt.Sprintf("TrailingZeroes = %d, byte-by-byte count is %d", got, wantT)
	}
	if !bytes.Equal(bb.back, bb.want) {
		return "LeadingZeroes or TrailingZeroes modified memory"
	}
	got := mbits.Zero(s.sl)
	switch shape { // back to all zero
	case sweepZero:
		want[p] = 0
	case sweepBefore:
		clear(want[:p+1])
	case sweepAfter:
		clear(want[p:])
	case sweepAll:
		clear(want)
	}
	if at, bad := bb.diff(); bad {
		return fmt.Sprintf("Zero: the byte at offset %d relative to the slice is wrong", at)
	}
	if got != n {
		return fmt.Sprintf("Zero returned %d, want %d", got, n)
	}
	return ""
}

// explain turns a failed step into the replay case and the message of the
// full oracle on the materialised input.
func (s *sweeper) explain(shape, p int, v byte, fast string) (BitsCase, string) {
	data := sweepData(s.n, shape, p, v, s.rnd)
	mod := modOf(s.bb.mod)
	c := BitsCase{Off: s.off, Align: mod, Pat: hex.EncodeToString(data)}
	msg := vk.Guard(func() string { return checkBits(&bitsBuf{mod: mod}, data, s.off) })
	if msg == "" {
		// only the in-place run saw it (it depends on what the previous inputs left behind)
		msg = fmt.Sprintf("%s (%d bytes at address %d mod %d, surrounding bytes %#02x, %s with p=%d v=%#02x, run in place after the preceding sweep inputs)",
			fast, s.n, s.off, mod, s.guardValue, sweepClass[shape], p, v)
	}
	return c, msg
}

// bitsNT is the non-triviality rule: length >= 8 and a non-zero byte that is
// neither in the first nor in the last 8-byte word.
func bitsNT(data []byte) bool {
	for i := 8; i < len(data)-8; i++ {
		if data[i] != 0 {
			return true
		}
	}
	return false
}

func runBits(c BitsCase, o *vk.Obs) string {
	data, err := hex.DecodeString(c.Pat)
	if err != nil {
		return "VK-INFRA bad hex in case: " + err.Error()
	}
	mod := modOf(c.Align)
	off := ((c.Off % mod) + mod) % mod
	if msg := checkBits(&bitsBuf{mod: mod}, data, off); msg != "" {
		return msg
	}
	if bitsNT(data) {
		o.NonTrivial()
	}
	return ""
}

// ---------------------------------------------------------------------------
// mstr.Trunc

// TruncCase is one input of the Trunc leg; S is hex so that invalid UTF-8
// survives JSON.
type TruncCase struct {
	S string `json:"s"`
	N int    `json:"n"`
}

// checkTrunc is the oracle; nt reports whether the cut point fell inside a
// multi-byte encoding.
func checkTrunc(s string, n int) (msg string, nt bool) {
	if n < 0 {
		return "", false // the property quantifies over n >= 0
	}
	got := mstr.Trunc(s, n)
	desc := func() string { return fmt.Sprintf("Trunc(%q, %d) = %q", s, n, got) }
	if !strings.HasPrefix(s, got) {
		return desc() + ": not a prefix of s", false
	}
	if len(got) > n {
		return desc() + fmt.Sprintf(": %d bytes, more than n", len(got)), false
	}
	if n >= len(s) && got != s {
		return desc() + ": n >= len(s), want s itself", false
	}
	if utf8.ValidString(s) {
		if !utf8.ValidString(got) {
			return desc() + ": s is valid UTF-8 but the result is not", false
		}
		if len(s) > n && n-len(got) > 4 {
			return desc() + fmt.Sprintf(": %d bytes shorter than n, more than one encoded character", n-len(got)), false
		}
	}
	nt = n < len(s) && n > 0 && s[n]&0xC0 == 0x80
	return "", nt
}

func runTrunc(c TruncCase, o *vk.Obs) string {
	b, err := hex.DecodeString(c.S)
	if err != nil {
		return "VK-INFRA bad hex in case: " + err.Error()
	}
	msg, nt := checkTrunc(string(b), c.N)
	if msg == "" && nt {
		o.NonTrivial()
	}
	return msg
}

// ---------------------------------------------------------------------------
// mstr.CompareNatural

// NatCase is a triple of strings.
type NatCase struct {
	A string `json:"a"`
	B string `json:"b"`
	C string `json:"c"`
}

// tok is one maximal run of digits or of non-digits.
type tok struct {
	digit bool
	text  string   // the run as written
	sig   string   // digit run without leading zeros ("0" for an all-zero run)
	val   *big.Int // value of a digit run
}

// maxSig is the longest digit run (not counting leading zeros) for which the
// property is claimed: 18 digits always fit in an int64.
const maxSig = 18

// tokenize is the independent tokeniser/normaliser of the oracle.
func tokenize(s string) []tok {
	var out []tok
	i := 0
	for i < len(s) {
		j := i
		isD := s[i] >= '0' && s[i] <= '9'
		for j < len(s) && (s[j] >= '0' && s[j] <= '9') == isD {
			j++
		}
		t := tok{digit: isD, text: s[i:j]}
		if isD {
			k := i
			for k < j-1 && s[k] == '0' {
				k++
			}
			t.sig = s[k:j]
			t.val, _ = new(big.Int).SetString(t.sig, 10)
		}
		out = append(out, t)
		i = j
	}
	return out
}

// normalForm is s with the leading zeros of every digit run removed.
func normalForm(ts []tok) string {
	var sb strings.Builder
	for _, t := range ts {
		if t.digit {
			sb.WriteString(t.sig)
		} else {
			sb.WriteString(t.text)
		}
	}
	return sb.String()
}

func overlong(ts []tok) bool {
	for _, t := range ts {
		if t.digit && len(t.sig) > maxSig {
			return true
		}
	}
	return false
}

// numericExpect looks at the first token pair that differs after
// normalisation; if both are digit runs it returns the sign of the numeric
// comparison and true.
func numericExpect(ta, tb []tok) (int, bool) {
	for i := 0; i < len(ta) && i < len(tb); i++ {
		x, y := ta[i], tb[i]
		if x.digit && y.digit {
			if c := x.val.Cmp(y.val); c != 0 {
				return c, true
			}
			continue
		}
		if !x.digit && !y.digit && x.text == y.text {
			continue
		}
		return 0, false
	}
	return 0, false
}

// nstr is a string with its pre-computed oracle data.
type nstr struct {
	s    string
	toks []tok
	norm string
}

func mkN(s string) nstr { t := tokenize(s); return nstr{s: s, toks: t, norm: normalForm(t)} }

// checkPair evaluates CompareNatural(a, b) and the pair-level clauses that do
// not need the opposite comparison; it returns the result.
func checkPair(a, b *nstr) (int, string) {
	c := mstr.CompareNatural(a.s, b.s)
	if c < -1 || c > 1 {
		return c, fmt.Sprintf("CompareNatural(%q, %q) = %d, not in {-1,0,1}", a.s, b.s, c)
	}
	if (c == 0) != (a.norm == b.norm) {
		return c, fmt.Sprintf("CompareNatural(%q, %q) = %d, but without the leading zeros of digit runs the strings are %q and %q (0 is required exactly when these are equal)", a.s, b.s, c, a.norm, b.norm)
	}
	if want, ok := numericExpect(a.toks, b.toks); ok && c != want {
		return c, fmt.Sprintf("CompareNatural(%q, %q) = %d, but the first differing tokens are digit runs whose numeric comparison gives %d", a.s, b.s, c, want)
	}
	return c, ""
}

// natStats is what runNat measured (for classes).
type natStats struct {
	zeroPair, numeric, longRun, skipped bool
}

// checkTriple checks every clause on the three strings: the pair clauses on
// all nine ordered pairs, antisymmetry, and transitivity of <= over all
// orderings of the triple.
func checkTriple(c NatCase) (natStats, string) {
	var st natStats
	xs := [3]nstr{mkN(c.A), mkN(c.B), mkN(c.C)}
	for i := range xs {
		if overlong(xs[i].toks) {
			st.skipped = true // outside the property's quantifier (a run would overflow int)
			return st, ""
		}
		for _, t := range xs[i].toks {
			if t.digit && len(t.sig) >= 10 {
				st.longRun = true
			}
		}
	}
	var m [3][3]int
	for i := 0; i < 3; i++ {
		for j := 0; j < 3; j++ {
			r, msg := checkPair(&xs[i], &xs[j])
			if msg != "" {
				return st, msg
			}
			m[i][j] = r
			if i != j && xs[i].s != xs[j].s && xs[i].norm == xs[j].norm {
				st.zeroPair = true
			}
			if _, ok := numericExpect(xs[i].toks, xs[j].toks); ok {
				st.numeric = true
			}
		}
	}
	for i := 0; i < 3; i++ {
		for j := 0; j < 3; j++ {
			if m[i][j] != -m[j][i] {
				return st, fmt.Sprintf("antisymmetry: CompareNatural(%q, %q) = %d but CompareNatural(%q, %q) = %d", xs[i].s, xs[j].s, m[i][j], xs[j].s, xs[i].s, m[j][i])
			}
		}
	}
	for i := 0; i < 3; i++ {
		for j := 0; j < 3; j++ {
			for k := 0; k < 3; k++ {
				if m[i][j] <= 0 && m[j][k] <= 0 {
					bad := m[i][k] > 0 || ((m[i][j] < 0 || m[j][k] < 0) && m[i][k] >= 0)
					if bad {
						return st, fmt.Sprintf("transitivity: CompareNatural(%q, %q) = %d and CompareNatural(%q, %q) = %d, but CompareNatural(%q, %q) = %d",
							xs[i].s, xs[j].s, m[i][j], xs[j].s, xs[k].s, m[j][k], xs[i].s, xs[k].s, m[i][k])
					}
				}
			}
		}
	}
	return st, ""
}

func runNat(c NatCase, o *vk.Obs) string {
	st, msg := checkTriple(c)
	if msg != "" {
		return msg
	}
	if st.skipped {
		o.Class("skipped_run_longer_than_18_digits")
		return ""
	}
	if st.zeroPair {
		o.NonTrivial()
	}
	o.ClassIf(st.zeroPair, "two_strings_differ_only_in_leading_zeros")
	o.ClassIf(st.numeric, "numeric_clause_applies")
	o.ClassIf(st.longRun, "digit_run>=10_digits")
	return ""
}
