package pbytes

import (
	"encoding/binary"
	"encoding/hex"
	"encoding/json"
	"fmt"
	"math"
	"math/bits"
	"strings"
	"sync/atomic"
	"testing"
	"unicode/utf8"

	"pgregory.net/rapid"
	"verif/vk"
)

func init() {
	vk.Register("C20", "mbits", runBits)
	vk.Register("C20", "mbitsval", runBits)
	vk.Register("C20", "trunc", runTrunc)
	vk.Register("C20", "natural", runNat)
	vk.Register("C20", "naturalrand", runNat)
}

func TestReplay(t *testing.T) { vk.ReplayMain(t) }

// liveBits / liveNat are what the exhaustive legs hand to the kit's watchdog:
// they serialise to the replay case that is being executed at the moment the
// watchdog looks (only if an operation does not return).
type liveBits struct {
	off  int
	data []byte
}

func (l *liveBits) MarshalJSON() ([]byte, error) {
	return json.Marshal(BitsCase{Off: l.off, Pat: hex.EncodeToString(l.data)})
}

// liveSweep is the sweep input being executed: (shape, p, v) packed in cur.
type liveSweep struct {
	n, off int
	rnd    []byte
	cur    atomic.Int64
}

func (l *liveSweep) set(shape, p int, v byte) { l.cur.Store(int64(shape)<<40 | int64(p)<<8 | int64(v)) }

func (l *liveSweep) MarshalJSON() ([]byte, error) {
	x := l.cur.Load()
	data := sweepData(l.n, int(x>>40), int(x>>8&(1<<32-1)), byte(x), l.rnd)
	return json.Marshal(BitsCase{Off: l.off, Align: 64, Pat: hex.EncodeToString(data)})
}

type liveNat struct {
	strs []string
	i    int
	j    atomic.Int64
}

func (l *liveNat) MarshalJSON() ([]byte, error) {
	b := l.strs[l.j.Load()]
	return json.Marshal(NatCase{A: l.strs[l.i], B: b, C: b})
}

// ---------------------------------------------------------------------------
// mbits: exhaustive over (length, alignment, pattern)

var nzVals = []byte{0x01, 0x80, 0xFF, 0x10}

// TestC20Bits enumerates, for every length and every address alignment 0..7:
// every zero/non-zero pattern (short lengths); all-zero, every single
// non-zero byte, every pair of non-zero bytes (medium lengths) or a sample of
// pairs, and seeded random patterns (long lengths).  Each input is run with
// the surrounding memory set to 0x00 and to 0xFF.
func TestC20Bits(t *testing.T) {
	h := vk.Start(t, "C20", "mbits")
	maxExh := h.Pick(12, 16)   // every pattern up to this length
	maxPairs := h.Pick(24, 40) // every pair of non-zero bytes up to this length
	maxLen := h.Pick(300, 1000)
	nRandom := h.Pick(4, 8)
	nw := vk.Workers((maxLen + 1) * 8)
	tallies := make([]*vk.Tally, nw)
	slots := make([]interface {
		Enter(any)
		Leave()
	}, nw)
	bufs := make([]*bitsBuf, nw)
	for i := range tallies {
		tallies[i], slots[i], bufs[i] = vk.NewTally(), h.Slot(), &bitsBuf{}
	}
	var failMsg atomic.Value
	vk.Parallel(h, (maxLen+1)*8, func(w, item int) {
		n, off := item/8, item%8
		tl, bb := tallies[w], bufs[w]
		data := make([]byte, n)
		rng := vk.NewRNG(h.Mix(fmt.Sprintf("bits/%d/%d", n, off)))
		slots[w].Enter(&liveBits{off: off, data: data})
		defer slots[w].Leave()
		run := func(class string) bool {
			msg := vk.Guard(func() string { return checkBits(bb, data, off) })
			if msg != "" {
				c := BitsCase{Off: off, Pat: hex.EncodeToString(data)}
				p := h.Fail(c, msg)
				failMsg.Store(fmt.Sprintf("VK-VIOLATION property=C20 leg=mbits replay=%s\n%s", p, msg))
				return false
			}
			tl.Evals++
			tl.Classes[class]++
			if bitsNT(data) {
				tl.NT++
			}
			return true
		}
		sample := func(nt bool) {
			if off == 3 && (n == 5 || n == 19 || n == 40) {
				h.Sample(BitsCase{Off: off, Pat: hex.EncodeToString(data)}, nt)
			}
		}
		clear := func() {
			for i := range data {
				data[i] = 0
			}
		}
		switch {
		case n <= maxExh:
			for mask := 0; mask < 1<<n; mask++ {
				for i := range data {
					data[i] = 0
					if mask>>i&1 == 1 {
						data[i] = nzVals[(i+mask)%4]
					}
				}
				if !run("every_pattern") {
					return
				}
				if mask == 5 {
					sample(false)
				}
			}
		default:
			clear()
			if !run("all_zero") {
				return
			}
			for i := 0; i < n; i++ {
				clear()
				data[i] = nzVals[(i+n)%4]
				if !run("one_nonzero_byte") {
					return
				}
				if i == 9 {
					sample(bitsNT(data))
				}
			}
			if n <= maxPairs {
				for i := 0; i < n; i++ {
					for j := i + 1; j < n; j++ {
						clear()
						data[i], data[j] = nzVals[(i+j)%4], nzVals[(j+n)%4]
						if !run("two_nonzero_bytes") {
							return
						}
					}
				}
			} else {
				// seeded random patterns with at least three non-zero bytes (so
				// they are distinct from the families above), no duplicates
				var seen []string
				for r := 0; r < nRandom; r++ {
					clear()
					density := []int{2, 8, 32, 64}[r%4] // expected non-zero bytes per 64
					nz := 0
					for i := range data {
						if rng.Intn(64) < density {
							data[i] = byte(1 + rng.Intn(255))
							nz++
						}
					}
					// half of them: long zero head and tail (the interesting shape for the counts)
					if r%2 == 1 {
						a, b := rng.Intn(n/2+1), rng.Intn(n/2+1)
						for i := 0; i < a; i++ {
							data[i] = 0
						}
						for i := 0; i < b; i++ {
							data[n-1-i] = 0
						}
						nz = 0
						for _, x := range data {
							if x != 0 {
								nz++
							}
						}
					}
					key := string(data)
					dup := nz < 3
					for _, s := range seen {
						dup = dup || s == key
					}
					if dup {
						continue
					}
					seen = append(seen, key)
					if !run("random_pattern") {
						return
					}
				}
			}
		}
	})
	if m, ok := failMsg.Load().(string); ok {
		t.Fatal(m)
	}
	sweepNote := bitsSweep(h, maxLen, tallies, &failMsg)
	if m, ok := failMsg.Load().(string); ok {
		t.Fatal(m)
	}
	for _, tl := range tallies {
		h.MergeTally(tl)
	}
	h.Exhaustive()
	h.Note("%s", sweepNote)
	h.Note("lengths 0..%d x 8 address alignments x {every zero/non-zero pattern (len <= %d); all-zero + every single non-zero byte (all lengths); every pair of non-zero bytes (len <= %d); %d seeded random patterns (longer)}; each with surrounding bytes 0x00 and 0xFF", maxLen, maxExh, maxPairs, nRandom)
}

// Lengths of the position sweep: around the powers of two at which an
// implementation may switch to a block loop (the functions of mbits may do so
// at any length; the property is stated for every length).
var (
	sweepLens    = []int{64, 65, 127, 128, 129, 255, 256, 257, 320, 384, 448, 511, 512, 513, 640, 768, 1023, 1024, 1031, 2048, 2049, 4096, 4099}
	sweepLensTh  = []int{1536, 3001, 8192, 8197, 16384, 16411}
	sweepBig     = []int{65541}
	sweepBigTh   = []int{32768, 262144 + 7, 1<<20 + 3}
	sweepOffs    = []int{0, 1, 2, 3, 4, 5, 6, 7, 8, 9, 10, 11, 12, 13, 14, 15, 31, 32, 33, 63}
	sweepOffsBig = []int{0, 1, 7, 8, 15, 32, 33, 63}
	sweepVals    = []byte{0x01, 0x80, 0xFF}
)

// bitsSweep is the second part of the mbits leg: for each sweep length, each
// address alignment modulo 64 (all of 0..15 and some above) and both guard
// values, EVERY position p of a single designated non-zero byte (values 01,
// 80, FF) with (a) zeros elsewhere, (b) random bytes before p, (c) random
// bytes after p; plus the all-zero and the all-random buffer.  For the big
// lengths the positions are the first and last 700, 200 around the middle
// and 100 seeded ones.
func bitsSweep(h *vk.H, maxLen int, tallies []*vk.Tally, failMsg *atomic.Value) string {
	type item struct {
		n, off int
		big    bool
		part   int // big lengths: this quarter of the positions
	}
	const parts = 4
	lens, bigs := append([]int(nil), sweepLens...), append([]int(nil), sweepBig...)
	if h.Thorough() {
		lens, bigs = append(lens, sweepLensTh...), append(bigs, sweepBigTh...)
	}
	var items []item
	for _, n := range lens { // cheap ones first: they make the small counterexamples
		if n < 2048 {
			for _, off := range sweepOffs {
				items = append(items, item{n, off, false, 0})
			}
		}
	}
	for _, n := range bigs {
		for _, off := range sweepOffsBig {
			for part := 0; part < parts; part++ {
				items = append(items, item{n, off, true, part})
			}
		}
	}
	for i := len(lens) - 1; i >= 0; i-- {
		for _, off := range sweepOffs {
			if lens[i] >= 2048 {
				items = append(items, item{lens[i], off, false, 0})
			}
		}
	}
	nw := len(tallies)
	slots := make([]interface {
		Enter(any)
		Leave()
	}, nw)
	bufs := make([]*bitsBuf, nw)
	for i := range slots {
		slots[i], bufs[i] = h.Slot(), &bitsBuf{mod: 64}
	}
	vk.Parallel(h, len(items), func(w, k int) {
		it := items[k]
		w %= nw
		tl, n := tallies[w], it.n
		rng := vk.NewRNG(h.Mix(fmt.Sprintf("bitsweep/%d/%d", n, it.off)))
		rnd := make([]byte, n)
		for i := range rnd {
			if rng.Intn(4) > 0 { // a quarter of the bytes are zero
				rnd[i] = byte(1 + rng.Intn(255))
			}
		}
		// zero runs of one to three words at both ends and inside
		for _, at := range []int{0, n - 8 - rng.Intn(17), rng.Intn(n - 24)} {
			if rng.Intn(2) == 0 {
				clear(rnd[at:min(n, at+8+rng.Intn(17))])
			}
		}
		var pos []int
		if it.big {
			seen := map[int]bool{}
			add := func(p int) {
				if p >= 0 && p < n && !seen[p] {
					seen[p] = true
					pos = append(pos, p)
				}
			}
			for i := 0; i < 700; i++ {
				add(i)
				add(n - 1 - i)
			}
			for i := -100; i < 100; i++ {
				add(n/2 + i)
			}
			for i := 0; i < 100; i++ {
				add(rng.Intn(n))
			}
			pos = pos[it.part*len(pos)/parts : (it.part+1)*len(pos)/parts]
		} else {
			pos = seqInts(n - 1)
		}
		live := &liveSweep{n: n, off: it.off, rnd: rnd}
		slots[w].Enter(live)
		defer slots[w].Leave()
		for _, guard := range []byte{0x00, 0xFF} {
			sw := newSweeper(bufs[w], n, it.off, guard, rnd)
			run := func(shape, p int, v byte) bool {
				live.set(shape, p, v)
				if fast := sw.step(shape, p, v); fast != "" {
					c, msg := sw.explain(shape, p, v, fast)
					path := h.Fail(c, msg)
					failMsg.Store(fmt.Sprintf("VK-VIOLATION property=C20 leg=mbits replay=%s\n%s", path, msg))
					return false
				}
				if guard == 0 {
					return true // one evaluation = the input under one or both guard values
				}
				if shape == sweepZero && n <= maxLen && it.off%16 >= 8 {
					return true // the first part of the leg has this (length, address, position)
				}
				tl.Evals++
				tl.Classes[sweepClass[shape]]++
				if shape == sweepAll || (shape != sweepNone && p >= 8 && p < n-8) {
					tl.NT++
				}
				return true
			}
			if it.part == 0 && (!run(sweepNone, 0, 0) || !run(sweepAll, 0, 0)) {
				return
			}
			for _, p := range pos {
				if guard == 0 && p >= 136 && p < n-136 {
					// what lies outside the slice matters near its ends; far
					// from them the input runs with non-zero surroundings only
					continue
				}
				rot := (p + p/8 + p/64) % 3
				for vi, v := range sweepVals {
					if vi != rot {
						if n < 2048 && !run(sweepZero, p, v) {
							return
						}
						continue
					}
					if !run(sweepZero, p, v) || !run(sweepBefore, p, v) || !run(sweepAfter, p, v) {
						return
					}
				}
			}
		}
	})
	return fmt.Sprintf("position sweep: lengths %v x addresses %v mod 64 (guards of 72 bytes, 0x00 and 0xFF): all-zero, all-random, and EVERY position p of one designated non-zero byte (01, 80, FF) with zeros elsewhere / random bytes before p / random bytes after p; lengths %v x addresses %v mod 64: the same for the first and last 700 positions, 200 around the middle and 100 seeded ones (one of the three values per position)",
		lens, sweepOffs, bigs, sweepOffsBig)
}

// TestC20BitsValues: the exhaustive leg varies WHERE the non-zero bytes are;
// this one varies their VALUES so that groups of 8-byte words cancel under
// addition or exclusive-or (a block test written as "w0+w1+w2+w3 != 0" or
// "w0^w1 != 0" sees zero where an OR would not), at every alignment, behind
// zero prefixes of 0..80 bytes; one case in sixteen is a large buffer (up to
// 6 KiB) in which the group coincides with a block counted from either end.
func TestC20BitsValues(t *testing.T) {
	h := vk.Start(t, "C20", "mbitsval")
	vk.Rapid(h, t, func(t *rapid.T) BitsCase {
		word := rapid.OneOf(
			rapid.SampledFrom([]uint64{0, 1, 0x80, 0xff, 1 << 63, 1 << 56, 1 << 32, 1<<32 - 1, math.MaxUint64, 0x0101010101010101, 0x8080808080808080}),
			rapid.Uint64())
		g := rapid.SampledFrom([]int{2, 2, 4, 4, 8}).Draw(t, "group")
		ws := rapid.SliceOfN(word, g-1, g-1).Draw(t, "words")
		var last uint64
		switch rapid.IntRange(0, 2).Draw(t, "cancel") {
		case 0: // the words sum to 0 modulo 2^64
			for _, w := range ws {
				last -= w
			}
		case 1: // the words xor to 0
			for _, w := range ws {
				last ^= w
			}
		default:
			last = word.Draw(t, "lastWord")
		}
		ws = append(ws, last)
		if rapid.Bool().Draw(t, "rotate") { // the cancelling word anywhere in the group
			k := rapid.IntRange(0, g-1).Draw(t, "rot")
			ws = append(ws[k:], ws[:k]...)
		}
		pre, suf := rapid.IntRange(0, 80), rapid.IntRange(0, 40)
		if vk.Rare(t, "big", 16) {
			// a large buffer whose group of words coincides with a 16-, 32- or
			// 64-byte block counted from the start and/or from the end
			blocks := rapid.Map(rapid.IntRange(0, 48), func(k int) int { return 64 * k })
			jitter := rapid.OneOf(rapid.Just(0), rapid.SampledFrom([]int{8, 16, 24, 32, 40, 48, 56}), rapid.IntRange(0, 63))
			pre = rapid.Custom(func(t *rapid.T) int { return blocks.Draw(t, "blocks") + jitter.Draw(t, "jitter") })
			suf = pre
		}
		np := pre.Draw(t, "zeroPrefix")
		data := make([]byte, np, np+200)
		for _, w := range ws {
			data = binary.LittleEndian.AppendUint64(data, w)
		}
		data = append(data, make([]byte, suf.Draw(t, "zeroSuffix"))...)
		if rapid.IntRange(0, 3).Draw(t, "ragged") == 0 { // a length that is not a multiple of 8
			data = data[:len(data)-rapid.IntRange(0, min(7, len(data))).Draw(t, "cut")]
		}
		c := BitsCase{Off: rapid.IntRange(0, 7).Draw(t, "off"), Pat: hex.EncodeToString(data)}
		if rapid.Bool().Draw(t, "align64") { // addresses 0..63 modulo 64 (the default layout reaches 8..15 modulo 16 only)
			c.Align, c.Off = 64, rapid.IntRange(0, 63).Draw(t, "off64")
		}
		return c
	}, runBits)
}

func seqInts(n int) []int {
	out := make([]int, n+1)
	for i := range out {
		out[i] = i
	}
	return out
}

// ---------------------------------------------------------------------------
// Trunc: exhaustive over mixed-width strings and every cut point

func TestC20Trunc(t *testing.T) {
	h := vk.Start(t, "C20", "trunc")
	maxRunes := h.Pick(5, 7)
	nInvalid := h.Pick(3000, 40000)
	alphabet := []string{"a", "é", "€", "😀"}
	slot := h.Slot()
	tl := vk.NewTally()
	one := func(s string, class string) bool {
		for _, n := range append(seqInts(len(s)+2), math.MaxInt, math.MaxInt-1, 1<<31, 1<<32+1) {
			slot.Enter(s)
			var nt bool
			msg := vk.Guard(func() string { m, x := checkTrunc(s, n); nt = x; return m })
			slot.Leave()
			if msg != "" {
				c := TruncCase{S: hex.EncodeToString([]byte(s)), N: n}
				p := h.Fail(c, msg)
				t.Fatalf("VK-VIOLATION property=C20 leg=trunc replay=%s\n%s", p, msg)
				return false
			}
			tl.Evals++
			tl.Classes[class]++
			if nt {
				tl.NT++
			}
			if (tl.Evals == 700 || tl.Evals == 7000) || (nt && tl.NT%5000 == 17) {
				h.Sample(TruncCase{S: hex.EncodeToString([]byte(s)), N: n}, nt)
			}
		}
		return true
	}
	// every string of up to maxRunes runes, shortest first
	level := []string{""}
	for l := 0; l <= maxRunes; l++ {
		var next []string
		for _, s := range level {
			if !one(s, "valid_utf8") {
				return
			}
			if l < maxRunes {
				for _, a := range alphabet {
					next = append(next, s+a)
				}
			}
		}
		level = next
	}
	// long valid strings (16..200 runes over a wider rune set incl. 2-byte
	// runes of every lead byte class), every cut point
	lrng := h.RNG("longvalid")
	wide := []string{"a", "b", "é", "ñ", "°", "ß", "\u07ff", "€", "\u0800", "\uffff", "😀", "\U00010000", "\U0010ffff", " "}
	for i, nl := 0, h.Pick(150, 3000); i < nl; i++ {
		var sb strings.Builder
		for r, nr := 0, 16+lrng.Intn(185); r < nr; r++ {
			if lrng.Intn(3) == 0 {
				sb.WriteString("a")
			} else {
				sb.WriteString(wide[lrng.Intn(len(wide))])
			}
		}
		if !one(sb.String(), "valid_utf8_long") {
			return
		}
	}
	// seeded invalid byte strings (only the UTF-8-independent clauses apply)
	rng := h.RNG("invalid")
	pool := []byte{'a', 'b', 0x80, 0xBF, 0x98, 0xC3, 0xA9, 0xE2, 0x82, 0xAC, 0xF0, 0x9F, 0xFF, 0xC0, 0xF8}
	seen := map[string]bool{}
	for i := 0; i < nInvalid; i++ {
		n := rng.Intn(13)
		b := make([]byte, n)
		for j := range b {
			b[j] = pool[rng.Intn(len(pool))]
		}
		s := string(b)
		if utf8.ValidString(s) || seen[s] {
			continue
		}
		seen[s] = true
		if !one(s, "invalid_utf8") {
			return
		}
	}
	h.MergeTally(tl)
	h.Exhaustive()
	h.Note("every string of <= %d runes over {a, é, €, 😀} and %d distinct seeded invalid byte strings of <= 12 bytes, each with every n in [0, len+2]", maxRunes, len(seen))
}

// ---------------------------------------------------------------------------
// CompareNatural: exhaustive pair matrix and all triples

const natAlphabet = "019/:a"

// natAlphabetHigh: non-ASCII bytes around the code points '0'|0x80 .. '9'|0x80
// (continuation bytes of ordinary UTF-8 text such as "°", "ñ") next to a digit.
const natAlphabetHigh = "9\xaf\xb0\xb9\xba"

func natStrings(maxLen int) []string {
	out := []string{""}
	seen := map[string]bool{"": true}
	for _, ab := range []struct {
		alpha string
		max   int
	}{{natAlphabet, maxLen}, {natAlphabetHigh, maxLen - 1}} {
		level := []string{""}
		for l := 1; l <= ab.max; l++ {
			var next []string
			for _, s := range level {
				for i := 0; i < len(ab.alpha); i++ {
					next = append(next, s+ab.alpha[i:i+1])
				}
			}
			for _, s := range next {
				if !seen[s] {
					seen[s] = true
					out = append(out, s)
				}
			}
			level = next
		}
	}
	return out
}

// TestC20Natural computes the full matrix of CompareNatural over every string
// up to a length bound over the alphabet 0 1 9 / : a, checks the pair clauses
// on every ordered pair, antisymmetry on every pair, and transitivity of <=
// on every ordered triple (i, j, k) through 64-wide bitset rows of the matrix:
// for every i <= j the row {k : j <= k} must be a subset of {k : i <= k}.
// (With antisymmetry, transitivity of <= implies the strict variants.)
func TestC20Natural(t *testing.T) {
	h := vk.Start(t, "C20", "natural")
	maxLen := h.Pick(4, 5)
	strs := natStrings(maxLen)
	n := len(strs)
	xs := make([]nstr, n)
	for i, s := range strs {
		xs[i] = mkN(s)
	}
	words := (n + 63) / 64
	m := make([][]int8, n)
	le := make([][]uint64, n)
	nw := vk.Workers(n)
	slots := make([]interface {
		Enter(any)
		Leave()
	}, nw)
	type counts struct{ zeroPairs, numeric, equalPairs int64 }
	cnt := make([]counts, nw)
	for i := range slots {
		slots[i] = h.Slot()
	}
	var failed atomic.Value
	fail := func(c NatCase, msg string) {
		p := h.Fail(c, msg)
		failed.Store(fmt.Sprintf("VK-VIOLATION property=C20 leg=natural replay=%s\n%s", p, msg))
	}
	// pass 1: the matrix and the pair clauses
	vk.Parallel(h, n, func(w, i int) {
		row := make([]int8, n)
		bitsRow := make([]uint64, words)
		live := &liveNat{strs: strs, i: i}
		slots[w].Enter(live)
		msg := vk.Guard(func() string {
			for j := 0; j < n; j++ {
				live.j.Store(int64(j))
				c, msg := checkPair(&xs[i], &xs[j])
				if msg != "" {
					fail(NatCase{A: strs[i], B: strs[j], C: strs[j]}, msg)
					return ""
				}
				row[j] = int8(c)
				if c <= 0 {
					bitsRow[j/64] |= 1 << (j % 64)
				}
				if c == 0 {
					cnt[w].equalPairs++
					if i != j {
						cnt[w].zeroPairs++
					}
				}
				if _, ok := numericExpect(xs[i].toks, xs[j].toks); ok {
					cnt[w].numeric++
				}
			}
			return ""
		})
		slots[w].Leave()
		if msg != "" {
			fail(NatCase{A: strs[i], B: strs[i], C: strs[i]}, msg)
		}
		m[i], le[i] = row, bitsRow
	})
	if s, ok := failed.Load().(string); ok {
		t.Fatal(s)
	}
	// pass 2: antisymmetry on every pair, transitivity on every triple
	vk.Parallel(h, n, func(w, i int) {
		for j := 0; j < n; j++ {
			if m[i][j] != -m[j][i] {
				_, msg := checkTriple(NatCase{A: strs[i], B: strs[j], C: strs[j]})
				if msg == "" {
					msg = fmt.Sprintf("antisymmetry: CompareNatural(%q, %q) = %d but CompareNatural(%q, %q) = %d", strs[i], strs[j], m[i][j], strs[j], strs[i], m[j][i])
				}
				fail(NatCase{A: strs[i], B: strs[j], C: strs[j]}, msg)
				return
			}
			if m[i][j] > 0 {
				continue
			}
			// i <= j: everything above-or-equal j must be above-or-equal i
			ri, rj := le[i], le[j]
			for x := 0; x < words; x++ {
				if bad := rj[x] &^ ri[x]; bad != 0 {
					k := x*64 + bits.TrailingZeros64(bad)
					c := NatCase{A: strs[i], B: strs[j], C: strs[k]}
					_, msg := checkTriple(c)
					if msg == "" {
						msg = fmt.Sprintf("transitivity: CompareNatural(%q, %q) = %d and CompareNatural(%q, %q) = %d, but CompareNatural(%q, %q) = %d", strs[i], strs[j], m[i][j], strs[j], strs[k], m[j][k], strs[i], strs[k], m[i][k])
					}
					fail(c, msg)
					return
				}
			}
		}
	})
	if s, ok := failed.Load().(string); ok {
		t.Fatal(s)
	}
	// accounting: a case is an ordered triple; it is non-trivial when two of
	// its strings are different spellings of the same normal form.
	classSize := map[string]int64{}
	for i := range xs {
		classSize[xs[i].norm]++
	}
	N := int64(n)
	var ntTriples int64
	for i := range xs {
		si := classSize[xs[i].norm] - 1 // other spellings of string i
		// ordered triples (i, j, k): count those with a "same normal form,
		// different string" pair among the three positions
		// = N*N - #(j,k) such that no such pair exists
		// no pair: j not in alt(i), k not in alt(i), and k not in alt(j)
		// sum over j outside alt(i) of (N - |alt(i) ∪ alt(j)|), where alt(j) ∩ alt(i) = ∅ unless j == i
		var none int64
		// j == i: k outside alt(i)
		none += N - si
		// j != i, j outside alt(i): j ranges over the other classes
		for norm, sz := range classSize {
			if norm == xs[i].norm {
				continue
			}
			// each j in that class: k must avoid alt(i) (si strings) and alt(j) (sz-1 strings)
			none += sz * (N - si - (sz - 1))
		}
		ntTriples += N*N - none
	}
	tl := vk.NewTally()
	tl.Evals = N * N * N
	tl.NT = ntTriples
	var tot counts
	for _, c := range cnt {
		tot.zeroPairs += c.zeroPairs
		tot.numeric += c.numeric
		tot.equalPairs += c.equalPairs
	}
	tl.Classes["ordered_pairs"] = N * N
	tl.Classes["pairs_comparing_equal_but_different_strings"] = tot.zeroPairs
	tl.Classes["pairs_where_numeric_clause_applies"] = tot.numeric
	tl.Classes["normal_forms"] = int64(len(classSize))
	h.MergeTally(tl)
	h.Exhaustive()
	for _, c := range []NatCase{{"a01", "a1", "a001"}, {"1:", "20", "1/"}, {"09", "9a", "10"}} {
		st, _ := checkTriple(c)
		h.Sample(c, st.zeroPair)
	}
	h.Note("all %d strings of length <= %d over %q: %d ordered pairs (pair clauses, antisymmetry), %d ordered triples (transitivity via bitset rows of the <= matrix)", n, maxLen, natAlphabet, N*N, N*N*N)
}

// ---------------------------------------------------------------------------
// CompareNatural: random longer strings (rapid)

const natSep = "/:a-z .A_b" + "\xaf\xb0\xb5\xb9\xba\x80\xff\xc3"

func genToken(t *rapid.T, digit bool) string {
	if digit {
		zeros := 0
		if rapid.IntRange(0, 2).Draw(t, "lz") == 0 {
			zeros = rapid.IntRange(1, 4).Draw(t, "zeros")
		}
		nd := rapid.IntRange(1, 17).Draw(t, "ndigits")
		if rapid.IntRange(0, 2).Draw(t, "short") > 0 {
			nd = rapid.IntRange(1, 3).Draw(t, "ndigits")
		}
		var sb strings.Builder
		sb.WriteString(strings.Repeat("0", zeros))
		for i := 0; i < nd; i++ {
			sb.WriteByte(byte('0' + rapid.IntRange(0, 9).Draw(t, "dg")))
		}
		return sb.String()
	}
	n := rapid.IntRange(1, 3).Draw(t, "nsep")
	var sb strings.Builder
	for i := 0; i < n; i++ {
		if rapid.IntRange(0, 9).Draw(t, "uni") == 0 {
			// characters that Unicode-aware code treats like the ASCII ones although
			// CompareNatural's digits are '0'..'9' only: decimal digits of other
			// scripts, fullwidth digits and letters, superscripts, Roman numerals
			sb.WriteString(rapid.SampledFrom(natUnicode).Draw(t, "uch"))
			continue
		}
		sb.WriteByte(natSep[rapid.IntRange(0, len(natSep)-1).Draw(t, "ch")])
	}
	return sb.String()
}

var natUnicode = []string{"\u0663", "\u0660", "\uff13", "\uff10", "\u0969", "\u00b2", "\u2167", "\uff41", "\u00bd", "\u1d7d3"[:3]}

func genTokens(t *rapid.T) []string {
	n := rapid.IntRange(0, 6).Draw(t, "ntok")
	if n == 0 && rapid.IntRange(0, 3).Draw(t, "allowEmpty") > 0 {
		n = 2
	}
	digit := rapid.Bool().Draw(t, "startDigit")
	var out []string
	for i := 0; i < n; i++ {
		out = append(out, genToken(t, digit))
		digit = !digit
	}
	return out
}

func isDigitTok(s string) bool { return s != "" && s[0] >= '0' && s[0] <= '9' }

// mutate returns a variation of toks (token kinds stay alternating).
func mutate(t *rapid.T, toks []string) []string {
	out := append([]string(nil), toks...)
	if len(out) == 0 {
		return genTokens(t)
	}
	i := rapid.IntRange(0, len(out)-1).Draw(t, "mtok")
	if !isDigitTok(out[i]) && len(out) > 1 && rapid.IntRange(0, 3).Draw(t, "preferDigits") > 0 {
		// the neighbour of a non-digit token is a digit token
		if i+1 < len(out) {
			i++
		} else {
			i--
		}
	}
	switch kind := rapid.IntRange(0, 6).Draw(t, "mkind"); {
	case kind <= 1 && isDigitTok(out[i]): // other spelling of the same number
		if rapid.Bool().Draw(t, "addZeros") {
			out[i] = strings.Repeat("0", rapid.IntRange(1, 3).Draw(t, "z")) + out[i]
		} else {
			s := strings.TrimLeft(out[i], "0")
			if s == "" {
				s = "0"
			}
			out[i] = s
		}
	case kind == 2 && isDigitTok(out[i]): // change one digit
		b := []byte(out[i])
		b[rapid.IntRange(0, len(b)-1).Draw(t, "pos")] = byte('0' + rapid.IntRange(0, 9).Draw(t, "dg"))
		out[i] = string(b)
	case kind == 3 && isDigitTok(out[i]): // one digit longer or shorter
		if len(strings.TrimLeft(out[i], "0")) < 17 && rapid.Bool().Draw(t, "longer") {
			out[i] += string(byte('0' + rapid.IntRange(0, 9).Draw(t, "dg")))
		} else if len(out[i]) > 1 {
			out[i] = out[i][:len(out[i])-1]
		}
	case kind == 4: // replace the token by a fresh one of the same kind
		out[i] = genToken(t, isDigitTok(out[i]))
	case kind == 5: // cut the tail
		out = out[:i+1]
	default: // append a token
		last := out[len(out)-1]
		out = append(out, genToken(t, !isDigitTok(last)))
	}
	return out
}

// respell changes only the leading zeros of digit runs (at least one run, if
// there is any): the result must compare equal to the input.
func respell(t *rapid.T, toks []string) []string {
	out := append([]string(nil), toks...)
	var digits []int
	for i, s := range out {
		if isDigitTok(s) {
			digits = append(digits, i)
		}
	}
	if len(digits) == 0 {
		return out
	}
	must := digits[rapid.IntRange(0, len(digits)-1).Draw(t, "respellTok")]
	for _, i := range digits {
		if i != must && rapid.Bool().Draw(t, "keep") {
			continue
		}
		sig := strings.TrimLeft(out[i], "0")
		if sig == "" {
			sig = "0"
		}
		z := rapid.IntRange(0, 4).Draw(t, "z")
		if strings.Repeat("0", z)+sig == out[i] {
			z++
		}
		out[i] = strings.Repeat("0", z) + sig
	}
	return out
}

func genNat(t *rapid.T) NatCase {
	a := genTokens(t)
	var b, c []string
	if rapid.IntRange(0, 3).Draw(t, "bIndep") == 0 {
		b = genTokens(t)
	} else {
		b = mutate(t, a)
	}
	// Construction instead of rejection: half of the triples contain two
	// different spellings of the same string (the non-triviality rule).
	switch rapid.IntRange(0, 7).Draw(t, "cFrom") {
	case 0:
		c = genTokens(t)
	case 1:
		c = mutate(t, a)
	case 2, 3:
		c = mutate(t, b)
	case 4, 5:
		c = respell(t, a)
	default:
		c = respell(t, b)
	}
	return NatCase{A: strings.Join(a, ""), B: strings.Join(b, ""), C: strings.Join(c, "")}
}

func TestC20NaturalRand(t *testing.T) {
	h := vk.Start(t, "C20", "naturalrand")
	vk.Rapid(h, t, genNat, runNat)
}
