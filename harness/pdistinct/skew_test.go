package pdistinct

import (
	"fmt"
	"math"
	"testing"

	"github.com/creachadair/mds/distinct"
)

func TestSkewScratch(t *testing.T) {
	for _, size := range []int{2, 3, 4, 8, 16, 64} {
		for _, mult := range []int{1, 2, 5, 10, 40} {
			d := size * mult
			const R = 200000
			var s1, s2, s3, s4 float64
			xs := make([]float64, R)
			for r := 0; r < R; r++ {
				c := distinct.NewCounter[int](size)
				for rep := 0; rep < 2; rep++ {
					for v := 0; v < d; v++ {
						c.Add(v)
					}
				}
				xs[r] = float64(c.Count())
				s1 += xs[r]
			}
			m := s1 / R
			for _, x := range xs {
				s2 += (x - m) * (x - m)
				s3 += (x - m) * (x - m) * (x - m)
				s4 += (x - m) * (x - m) * (x - m) * (x - m)
			}
			sd := math.Sqrt(s2 / R)
			fmt.Printf("size=%d d=%d mean=%.3f sd/d=%.3f skew=%.2f kurt=%.1f z=%.2f\n", size, d, m, sd/float64(d), s3/R/(sd*sd*sd), s4/R/(s2/R*s2/R), (m-float64(d))/(sd/math.Sqrt(R)))
		}
	}
}
