package pdistinct

import (
	"encoding/binary"
	"fmt"
	"math"
	"strconv"

	"verif/elem"
)

// ---------------------------------------------------------------------------
// Element kinds.  A stream is a list of ints and the reference model (which
// values were added since the last Reset) works on those ints, exactly as it
// did when the counter was instantiated with int only.  At the library
// boundary stream value x >= 0 is turned into an element of type T by
// elems.of, which is one-to-one with respect to ==: two stream values are
// equal iff their elements are equal for the counter.  Counter never hands an
// element back, so only this direction is needed.
//
// of(0) is the zero value of T (0, "", nil pointer, nil interface, all-zero
// struct / array) for every kind but "".  The other values are chosen so that
// elements which are distinct for == agree in whatever a type-specific
// shortcut is likely to look at instead:
//
//	int     ends of the int range; pairs that agree modulo 2^32; pairs above
//	        2^53 that agree after conversion to float64
//	i16     the four quarters of the int16 range, starting at both ends and at 0
//	string  "" and fixed-width decimal texts; pairs x, x+"#1" (common prefix)
//	wide    88-byte structs in triples that differ in one int field or in the
//	        last 8 bytes only
//	a64     [64]byte, a512 [512]byte (kinds of this package: an element of
//	        exactly 64 bytes, and one that a map stores indirectly); the value
//	        sits in the first or in the last 8 bytes
//	ptr     nil and *elem.Cell; the pointees of 2k and 2k+1 are deeply equal,
//	        the pointers are not: distinct pointers are distinct values
//	any     nil and interface values of four dynamic types: *elem.Cell (again
//	        with deeply equal pointees), int, int32 and string; int(k),
//	        int32(k) and the text of k print alike and are distinct values
//	f64     +0 and -0 in turn for stream value 0 (they are == and therefore ONE
//	        value), integers, negative fractions, denormals, the largest finite
//	        values.  NaN is not a stream value (it differs from itself, so "the
//	        number of distinct values" is not defined for it); it is used in
//	        one place only, see elems.nan.
//
// Kinds with FEW values (elems.card > 0).  T is any comparable type, also one
// with a single value or with two:
//
//	unit    struct{}: one value, zero bytes
//	zarr    [0]int: one value, zero bytes
//	znest   a struct of zero-size fields (an empty array of strings, an empty
//	        struct, an array of three empty structs): one value, zero bytes
//	bool    two values, one byte
//	u8      256 values, one byte
//
// Stream value x stands for element x mod card, and the reference model sees
// the stream after that reduction (collapse): a Counter[struct{}] has Count 1
// after any number of Adds and 0 after Reset, Len <= 1, whatever its buffer
// size; a Counter[bool] of size 2 leaves the exact regime with its second
// value like every other counter whose buffer fills.
const (
	kindA64   = "a64"
	kindA512  = "a512"
	kindUnit  = "unit"
	kindZArr  = "zarr"
	kindZNest = "znest"
	kindBool  = "bool"
	kindU8    = "u8"
)

// zNest has no bytes: every field is of size zero.
type zNest struct {
	A [0]string
	B struct{}
	C [3]struct{}
}

// baseKinds are the kinds with more values than any stream has: the stat and
// reuse generators draw them besides "".  detKinds adds the kinds with few
// values and is what the det generator draws.  (The huge leg lists its shapes,
// the long leg its kinds: streams of several hundred thousand values.)
var baseKinds = []string{elem.Int, elem.Str, elem.I16, elem.Wide, elem.Ptr, elem.Any, elem.F64, kindA64, kindA512}
var fewKinds = []string{kindUnit, kindZArr, kindZNest, kindBool, kindU8}
var detKinds = append(append([]string(nil), baseKinds...), fewKinds...)

// cardOf is the number of values of a kind with few values, 0 for the others.
func cardOf(kind string) int {
	switch kind {
	case kindUnit, kindZArr, kindZNest:
		return 1
	case kindBool:
		return 2
	case kindU8:
		return 256
	}
	return 0
}

// collapse returns the stream as the reference model has to see it: value x of
// a kind with few values is the value x mod card.  Negative entries (Reset,
// skipped values) stay.  The streams of the other kinds are returned as is.
func collapse(kind string, vs []int) []int {
	card := cardOf(kind)
	if card == 0 {
		return vs
	}
	out := make([]int, len(vs))
	for i, v := range vs {
		if v >= 0 {
			v %= card
		}
		out[i] = v
	}
	return out
}

type elems[T comparable] struct {
	kind string
	// of returns the element of stream value x, 0 <= x <= max.  It is called
	// from one goroutine only (the closures of ptr/any/f64 carry state).
	of  func(x int) T
	max int
	// nan, if not nil, is an element that differs from itself (float64 NaN).
	// Reset promises "as if freshly constructed" without reservation, so a
	// det stream of the f64 kind adds it once before a Reset while that cannot
	// trigger a halving pass, and only the state after the Reset is checked.
	nan *T
	// card > 0: the kind has card values only and of(x) is the element of
	// x mod card (see collapse).
	card int
}

// kindName is the label of the elem=<kind> class.
func kindName(e string) string {
	if e == "" {
		return "int(plain)"
	}
	return e
}

func badKind(e string) string {
	return fmt.Sprintf("VK-INFRA unknown element kind %q", e)
}

// stream converts the values of a stream; negative entries (Reset, skipped
// values) keep the zero value and are never added.
func (es *elems[T]) stream(vs []int) ([]T, string) {
	out := make([]T, len(vs))
	for i, v := range vs {
		if v < 0 {
			continue
		}
		if v > es.max {
			return nil, fmt.Sprintf("VK-INFRA stream value %d does not fit the element kind %q (at most %d)", v, es.kind, es.max)
		}
		out[i] = es.of(v)
	}
	return out, ""
}

// upto converts the stream 0, 1, …, d-1.
func (es *elems[T]) upto(d int) ([]T, string) {
	if d-1 > es.max {
		return nil, fmt.Sprintf("VK-INFRA %d distinct values do not fit the element kind %q (at most %d)", d, es.kind, es.max+1)
	}
	out := make([]T, max(d, 0))
	for v := range out {
		out[v] = es.of(v)
	}
	return out, ""
}

// show describes the element of a stream value for a violation message.
func show[T comparable](es *elems[T], e T) string {
	if es.kind == "" {
		return ""
	}
	s := fmt.Sprintf("%#v", e)
	if es.kind == elem.Any {
		s = fmt.Sprintf("%T(%s)", e, s) // 0, int32 0 and "0" are three values
	}
	if len(s) > 90 {
		s = s[:60] + "…" + s[len(s)-24:]
	}
	return fmt.Sprintf(" = %s element %s", es.kind, s)
}

// anyInt bounds the stream values of the kinds that have room for all of them.
const anyInt = math.MaxInt / 2

// plainInts is the kind "": the stream value itself, as before.
func plainInts() *elems[int] {
	return &elems[int]{kind: "", of: func(x int) int { return x }, max: math.MaxInt}
}

// quarter spreads 0, 1, 2, … over [lo, hi]: up from 0, down from -1, down from
// hi, up from lo.
func quarter(r, k, lo, hi int) int {
	switch r {
	case 0:
		return k
	case 1:
		return -1 - k
	case 2:
		return hi - k
	}
	return lo + k
}

func intElems() *elems[int] {
	// max keeps x/8 below 2^32, where case 4 would run into case 0
	return &elems[int]{kind: elem.Int, max: 1 << 34, of: func(x int) int {
		k := x / 8
		switch r := x % 8; r {
		case 4:
			return k + 1<<32 // agrees with case 0 in the low 32 bits
		case 5:
			return -1 - k - 1<<32
		case 6:
			return 1<<53 + 4*k // this and the next are one float64
		case 7:
			return 1<<53 + 4*k + 1
		default:
			return quarter(r, k, math.MinInt, math.MaxInt)
		}
	}}
}

func i16Elems() *elems[int16] {
	kit := elem.I16Kit()
	return &elems[int16]{kind: elem.I16, max: 1<<16 - 1, of: func(x int) int16 {
		return kit.Make(quarter(x%4, x/4, math.MinInt16, math.MaxInt16), 0)
	}}
}

func strElems() *elems[string] {
	kit := elem.StrKit()
	return &elems[string]{kind: elem.Str, max: anyInt, of: func(x int) string {
		if x == 0 {
			return ""
		}
		return kit.Make(x/2, x%2)
	}}
}

func wideElems() *elems[elem.WideElem] {
	kit := elem.WideKit()
	return &elems[elem.WideElem]{kind: elem.Wide, max: anyInt, of: func(x int) elem.WideElem {
		if x == 0 {
			return elem.WideElem{}
		}
		w := kit.Make(x/3, min(x%3, 1))
		if x%3 == 2 {
			w.Tag = 0
			w.Pad1[3]++ // differs from x-2 in the last 8 bytes only
		}
		return w
	}}
}

func a64Elems() *elems[[64]byte] {
	return &elems[[64]byte]{kind: kindA64, max: anyInt, of: func(x int) (a [64]byte) {
		if x > 0 {
			binary.LittleEndian.PutUint64(a[56*(x%2):], uint64(x+1)/2)
		}
		return a
	}}
}

func a512Elems() *elems[[512]byte] {
	return &elems[[512]byte]{kind: kindA512, max: anyInt, of: func(x int) (a [512]byte) {
		if x > 0 {
			binary.LittleEndian.PutUint64(a[504*(x%2):], uint64(x+1)/2)
		}
		return a
	}}
}

func unitElems() *elems[struct{}] {
	return &elems[struct{}]{kind: kindUnit, max: anyInt, card: 1, of: func(int) struct{} { return struct{}{} }}
}

func zarrElems() *elems[[0]int] {
	return &elems[[0]int]{kind: kindZArr, max: anyInt, card: 1, of: func(int) [0]int { return [0]int{} }}
}

func znestElems() *elems[zNest] {
	return &elems[zNest]{kind: kindZNest, max: anyInt, card: 1, of: func(int) zNest { return zNest{} }}
}

func boolElems() *elems[bool] {
	return &elems[bool]{kind: kindBool, max: anyInt, card: 2, of: func(x int) bool { return x%2 == 1 }}
}

func u8Elems() *elems[uint8] {
	return &elems[uint8]{kind: kindU8, max: anyInt, card: 256, of: func(x int) uint8 { return uint8(x % 256) }}
}

// ptrElems and anyElems keep the element made for a stream value: the second
// occurrence of a value has to be the same pointer.  Creating them starts a
// case as far as the identities of package elem are concerned.
func ptrElems() *elems[*elem.Cell] {
	elem.ResetPtr()
	kit := elem.PtrKit()
	made := map[int]*elem.Cell{}
	return &elems[*elem.Cell]{kind: elem.Ptr, max: anyInt, of: func(x int) *elem.Cell {
		if x == 0 {
			return nil
		}
		p, ok := made[x]
		if !ok {
			p = kit.Make(x/2, x)
			made[x] = p
		}
		return p
	}}
}

func anyElems() *elems[any] {
	elem.ResetPtr()
	kit := elem.AnyKit()
	made := map[int]any{}
	return &elems[any]{kind: elem.Any, max: math.MaxInt32, of: func(x int) any {
		k := x / 4
		switch x % 4 {
		case 1:
			return k
		case 2:
			return int32(k)
		case 3:
			return strconv.Itoa(k)
		}
		if x == 0 {
			return nil
		}
		p, ok := made[x]
		if !ok {
			p = kit.Make(k/2, x)
			made[x] = p
		}
		return p
	}}
}

func f64Elems() *elems[float64] {
	kit := elem.F64Kit()
	nan := math.NaN()
	negZero := false
	return &elems[float64]{kind: elem.F64, max: 1 << 50, nan: &nan, of: func(x int) float64 {
		k := x / 4
		switch x % 4 {
		case 1:
			return -0.5 - float64(k)
		case 2:
			return math.Float64frombits(uint64(k) + 1) // denormals
		case 3:
			return math.Float64frombits(math.Float64bits(math.MaxFloat64) - uint64(k))
		}
		if x == 0 {
			negZero = !negZero
			if !negZero {
				return math.Copysign(0, -1)
			}
		}
		return kit.Make(k, 0)
	}}
}
