package pdistinct

import (
	"testing"

	"verif/vk"
)

// oneToOne checks the harness itself: the elements of n stream values are
// pairwise distinct for ==, and a value gives an equal element every time.
func oneToOne[T comparable](t *testing.T, mk func() *elems[T], n int) {
	es := mk()
	n = min(n, es.max+1)
	first := make(map[T]int, n)
	for x := 0; x < n; x++ {
		e := es.of(x)
		if y, dup := first[e]; dup {
			t.Fatalf("kind %q: stream values %d and %d give the same element %#v", es.kind, y, x, e)
		}
		first[e] = x
	}
	for x := 0; x < n; x += 1 + x/7 {
		if y, ok := first[es.of(x)]; !ok || y != x {
			t.Fatalf("kind %q: stream value %d gives another element the second time", es.kind, x)
		}
	}
	if es.nan != nil && *es.nan == *es.nan {
		t.Fatalf("kind %q: nan is equal to itself", es.kind)
	}
	var zero T
	if es.kind != "" && es.of(0) != zero {
		t.Fatalf("kind %q: stream value 0 is not the zero value", es.kind)
	}
}

func TestKindsOneToOne(t *testing.T) {
	oneToOne(t, plainInts, 1<<17)
	oneToOne(t, intElems, 1<<17)
	oneToOne(t, i16Elems, 1<<17)
	oneToOne(t, strElems, 1<<17)
	oneToOne(t, wideElems, 1<<17)
	oneToOne(t, a64Elems, 1<<17)
	oneToOne(t, a512Elems, 1<<15)
	oneToOne(t, ptrElems, 1<<17)
	oneToOne(t, anyElems, 1<<17)
	oneToOne(t, f64Elems, 1<<17)
	for _, k := range detKinds {
		if msg := runDet(DetCase{Size: 4, Ops: []int{0, 1, 0, Reset, 2}, Elem: k}, &vk.Obs{}); msg != "" {
			t.Fatalf("kind %q: %s", k, msg)
		}
	}
}
