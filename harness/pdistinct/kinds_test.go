package pdistinct

import (
	"testing"

	"verif/vk"
)

// oneToOne checks the harness itself: the elements of n stream values are
// pairwise distinct for ==, and a value gives an equal element every time.
func oneToOne[T comparable](t *testing.T, mk func() *elems[T], n int) {
	es := mk()
	n = min(n, es.max+1)
	if es.card > 0 {
		n = min(n, es.card)
		for x := 0; x < 3*es.card; x++ {
			if es.of(x) != es.of(x%es.card) {
				t.Fatalf("kind %q: stream value %d is not the element of %d", es.kind, x, x%es.card)
			}
		}
		if c := cardOf(es.kind); c != es.card {
			t.Fatalf("kind %q: cardOf = %d, card = %d", es.kind, c, es.card)
		}
	}
	first := make(map[T]int, n)
	for x := 0; x < n; x++ {
		e := es.of(x)
		if y, dup := first[e]; dup {
			t.Fatalf("kind %q: stream values %d and %d give the same element %#v", es.kind, y, x, e)
		}
		first[e] = x
	}
	for x := 0; x < n; x += 1 + x/7 {
		if y, ok := first[es.of(x)]; !ok || y != x {
			t.Fatalf("kind %q: stream value %d gives another element the second time", es.kind, x)
		}
	}
	if es.nan != nil && *es.nan == *es.nan {
		t.Fatalf("kind %q: nan is equal to itself", es.kind)
	}
	var zero T
	if es.kind != "" && es.of(0) != zero {
		t.Fatalf("kind %q: stream value 0 is not the zero value", es.kind)
	}
}

func TestKindsOneToOne(t *testing.T) {
	oneToOne(t, plainInts, 1<<17)
	oneToOne(t, intElems, 1<<17)
	oneToOne(t, i16Elems, 1<<17)
	oneToOne(t, strElems, 1<<17)
	oneToOne(t, wideElems, 1<<17)
	oneToOne(t, a64Elems, 1<<17)
	oneToOne(t, a512Elems, 1<<15)
	oneToOne(t, ptrElems, 1<<17)
	oneToOne(t, anyElems, 1<<17)
	oneToOne(t, f64Elems, 1<<17)
	oneToOne(t, unitElems, 8)
	oneToOne(t, zarrElems, 8)
	oneToOne(t, znestElems, 8)
	oneToOne(t, boolElems, 8)
	oneToOne(t, u8Elems, 1<<10)
	for _, k := range detKinds {
		if msg := runDet(DetCase{Size: 4, Ops: []int{0, 1, 0, Reset, 2}, Elem: k}, &vk.Obs{}); msg != "" {
			t.Fatalf("kind %q: %s", k, msg)
		}
	}
}

// TestStudentBand pins the numbers quoted at studentBand: from 100 counters on
// the band of 8 standard errors keeps 7 normal deviations.
func TestStudentBand(t *testing.T) {
	for _, c := range []struct {
		R      int
		lo, hi float64
	}{{100, 7.9, 8.0}, {128, 7.7, 7.8}, {512, 7.1, 7.25}, {4000, 7.0, 7.05}, {50, 8.0, 9.5}} {
		if b := studentBand(c.R); !(b > c.lo && b <= c.hi) {
			t.Errorf("studentBand(%d) = %.4f, want in (%.2f, %.2f]", c.R, b, c.lo, c.hi)
		}
	}
	if b := studentBand(2); b < 1e300 {
		t.Errorf("studentBand(2) = %v, want +Inf", b)
	}
}
