package pdistinct

import (
	"math"
	"sync/atomic"
	"testing"

	"pgregory.net/rapid"
	"verif/vk"
)

func init() {
	vk.Register("C19", "huge", runHuge)
	vk.Register("C19", "nan", runNaN)
	vk.Register("C19", "reuse", runReuse)
	vk.Register("C19", "det", runDet)
	vk.Register("C19", "stat", runStat)
}

func TestReplay(t *testing.T) { vk.ReplayMain(t) }

// TestC19NaN: Add must return (and Reset must empty the counter) when the
// buffer fills up with values that cannot be deleted.
func TestC19NaN(t *testing.T) {
	h := vk.Start(t, "C19", "nan")
	vk.Rapid(h, t, func(t *rapid.T) NaNCase {
		size := rapid.SampledFrom([]int{2, 3, 4, 8, 16, 17, 64, 100}).Draw(t, "size")
		return NaNCase{Size: size, N: rapid.IntRange(1, 4*size).Draw(t, "n"), Mix: rapid.SampledFrom([]int{0, 0, 2, 3, 7}).Draw(t, "mix")}
	}, runNaN)
}

// hugeShape is one case of the huge leg with an element kind: which kind, and
// how many distinct values go into a buffer of which size (a little jitter is
// added to fill).
type hugeShape struct {
	elem             string
	size, fill, post int
	heavy            bool // more than 64 MiB of elements: not among the rotating extras of the quick tier
}

// hugeCore runs in both tiers.  Elements of 88, 64, 512 and 16 bytes fill
// more than 4, 16, 64 and 4 MiB while the counter must stay exact; all 65536
// values of a 2-byte type; buffer sizes beyond 2^32 whose low 32 bits are
// smaller than the stream.
var hugeCore = []hugeShape{
	{elem: "wide", size: 60000, fill: 56000, post: 1500},
	{elem: "a64", size: 300000, fill: 270000, post: 1500},
	{elem: "a512", size: 150000, fill: 135000, post: 300},
	{elem: "string", size: 300000, fill: 270000, post: 1500},
	{elem: "i16", size: 1<<17 + 1, fill: 1 << 16, post: 0},
	{elem: "", size: 1<<32 + 100000, fill: 150000, post: 1500},
	{elem: "int", size: 3 << 32, fill: 140000, post: 1500},
	// element types of size zero (one value): Count is 1 after any number of Adds
	{elem: kindUnit, size: 1<<17 + 1, fill: 150000, post: 1500},
	{elem: kindZArr, size: 1<<32 + 8, fill: 100000, post: 1500},
}

// hugeMore runs in the thorough tier; two of them (by seed) in the quick tier.
var hugeMore = []hugeShape{
	{elem: "wide", size: 220000, fill: 200000, post: 1500},                  // > 16 MiB
	{elem: "wide", size: 800000, fill: 770000, post: 1500, heavy: true},     // > 64 MiB
	{elem: "wide", size: 50000, fill: 75000, post: 1500},                    // halved
	{elem: "a64", size: 80000, fill: 70000, post: 1500},                     // > 4 MiB
	{elem: "a64", size: 1200000, fill: 1100000, post: 1500, heavy: true},    // > 64 MiB
	{elem: "a512", size: 10000, fill: 9000, post: 300},                      // > 4 MiB
	{elem: "a512", size: 40000, fill: 36000, post: 300},                     // > 16 MiB
	{elem: "a512", size: 30000, fill: 45000, post: 300},                     // halved
	{elem: "string", size: 1200000, fill: 1100000, post: 1500, heavy: true}, // > 16 MiB of string headers
	{elem: "any", size: 300000, fill: 280000, post: 1500},                   // > 4 MiB of interface words
	{elem: "ptr", size: 600000, fill: 560000, post: 1500},                   // > 4 MiB of pointers
	{elem: "f64", size: 600000, fill: 560000, post: 1500},
	{elem: "int", size: 600000, fill: 560000, post: 1500},
	{elem: "i16", size: 1 << 18, fill: 60000, post: 2000},
	{elem: "wide", size: 1 << 52, fill: 60000, post: 1500},
	{elem: "string", size: math.MaxInt, fill: 100000, post: 1500},
	{elem: "a64", size: 1 << 31, fill: 100000, post: 1500},
	{elem: "ptr", size: 1<<32 + 8, fill: 50000, post: 1500},
	{elem: "any", size: 1<<32 - 1, fill: 50000, post: 1500},
	{elem: "f64", size: 1<<40 + 70000, fill: 100000, post: 1500},
	{elem: "", size: math.MaxInt - 1, fill: 100000, post: 1500},
	{elem: kindZNest, size: math.MaxInt, fill: 100000, post: 1500},
	{elem: kindUnit, size: 2, fill: 300000, post: 1},
	{elem: kindZArr, size: 1 << 14, fill: 100000, post: 1500},
	{elem: kindBool, size: 300000, fill: 100000, post: 1500},
	{elem: kindU8, size: 1 << 18, fill: 100000, post: 1500},
}

// TestC19Huge: buffers of 2^17 .. 2^20 elements, filled, Reset and reused;
// then the shapes with an element kind.
func TestC19Huge(t *testing.T) {
	h := vk.Start(t, "C19", "huge")
	slot := h.Slot()
	tl := vk.NewTally()
	rng := h.RNG("huge")
	sizes := []int{1<<18 + 2, 300000, 1<<17 + 1, 1<<19 + 3, 1 << 20, 1<<18 - 1, 1 << 18, 1<<18 + 1}
	n := h.Pick(5, 80)
	run := func(i int, c HugeCase) {
		o := &vk.Obs{}
		slot.Enter(c)
		msg := vk.Guard(func() string { return runHuge(c, o) })
		slot.Leave()
		if msg != "" {
			p := h.Fail(c, msg)
			t.Fatalf("VK-VIOLATION property=C19 leg=huge replay=%s\n%s", p, msg)
		}
		tl.AddObs(o)
		if i%7 == 0 {
			h.Sample(c, o.NT)
		}
	}
	for i := 0; i < n && !h.Failed(); i++ {
		size := sizes[i%len(sizes)]
		c := HugeCase{Size: size, After: 3 + rng.Intn(2000)}
		switch i % 3 {
		case 0:
			c.Fill = size - 1 - rng.Intn(8)
		case 1:
			c.Fill = size/2 + rng.Intn(size/2)
		default:
			c.Fill = size + rng.Intn(size)
		}
		run(i, c)
	}
	// element kinds
	shapes := append([]hugeShape(nil), hugeCore...)
	if h.Thorough() {
		shapes = append(shapes, hugeMore...)
	} else {
		var light []hugeShape
		for _, s := range hugeMore {
			if !s.heavy {
				light = append(light, s)
			}
		}
		a := rng.Intn(len(light))
		b := (a + 1 + rng.Intn(len(light)-1)) % len(light)
		shapes = append(shapes, light[a], light[b])
	}
	for i, s := range shapes {
		if h.Failed() {
			break
		}
		c := HugeCase{Elem: s.elem, Size: s.size, Fill: s.fill, After: s.post}
		if s.elem != "i16" {
			c.Fill += rng.Intn(1000)
			c.After += rng.Intn(500)
		}
		run(n+i, c)
	}
	h.MergeTally(tl)
}

// TestC19Reuse: repeated runs through Reset on one counter.
func TestC19Reuse(t *testing.T) {
	h := vk.Start(t, "C19", "reuse")
	slot := h.Slot()
	tl := vk.NewTally()
	n := 0
	kindRot := h.RNG("kinds").Intn(len(baseKinds))
	for _, size := range []int{16, 32, 64, 100} {
		for _, mult := range []int{21, 33, 47} {
			for rep := 0; rep < h.Pick(2, 12); rep++ {
				c := ReuseCase{Size: size, D: size*mult + 1 + rep, M: 24}
				if n%2 == 1 { // every other case with an element kind, in turn
					c.Elem = baseKinds[(n/2+kindRot)%len(baseKinds)]
				}
				o := &vk.Obs{}
				slot.Enter(c)
				msg := vk.Guard(func() string { return runReuse(c, o) })
				slot.Leave()
				if msg != "" {
					p := h.Fail(c, msg)
					t.Fatalf("VK-VIOLATION property=C19 leg=reuse replay=%s\n%s", p, msg)
				}
				tl.AddObs(o)
				if n%9 == 0 {
					h.Sample(c, o.NT)
				}
				n++
			}
		}
	}
	h.MergeTally(tl)
}

var orders = []string{"shuffle", "rounds", "adjacent"}
var listedSizes = []int{2, 3, 4, 8, 16, 64}

// farSizes are buffer sizes no stream of the det leg can fill: a counter of
// such a size is exact throughout.  Around the powers of two at which a
// narrower representation of the size would wrap (16, 24, 31, 32 bits; the 53
// bits of a float64), and the ends of the int range.
var farSizes = []int{1 << 16, 1<<16 + 8, 1<<24 + 8, 1 << 31, 1<<31 + 5, 1<<32 - 1, 1 << 32, 1<<32 + 1, 1<<32 + 8, 1<<32 + 100,
	3 << 32, 1 << 40, 1 << 52, 1<<53 + 1, 1 << 62, math.MaxInt - 1, math.MaxInt}

// detKindsWeighted: the kinds with more values than a stream has twice each,
// those with few values (struct{}, [0]int, bool, ...) once: about a tenth of
// all det cases has one of the latter.
var detKindsWeighted = append(append(append([]string(nil), baseKinds...), baseKinds...), fewKinds...)

// genDet draws a stream for the deterministic leg.  Small streams are drawn
// element by element (they shrink well); large ones are expanded from a drawn
// descriptor (size, d, k, interleaving, seed) into the explicit value list,
// so the case is complete data either way.
//
// About half of the cases keep the plain ints, the others draw an element
// kind.  In about one case of ten (rapid favours small draws) the stream is laid out for the size drawn first and
// the counter then gets a size from farSizes.
func genDet(t *rapid.T) DetCase {
	c := genDetStream(t)
	if rapid.Bool().Draw(t, "elemKind") {
		c.Elem = rapid.SampledFrom(detKindsWeighted).Draw(t, "elem")
	}
	if rapid.IntRange(0, 49).Draw(t, "farSize") == 0 {
		c.Size = rapid.SampledFrom(farSizes).Draw(t, "far")
	}
	return c
}

func genDetStream(t *rapid.T) DetCase {
	c := DetCase{}
	if rapid.IntRange(0, 3).Draw(t, "listedSize") > 0 {
		c.Size = rapid.SampledFrom(listedSizes).Draw(t, "size")
	} else {
		c.Size = rapid.IntRange(2, 256).Draw(t, "size")
	}
	if rapid.IntRange(0, 2).Draw(t, "mode") == 0 {
		// direct: values over a domain of 1 .. 6*size values (at most 200)
		dom := rapid.IntRange(1, min(6*c.Size, 200)).Draw(t, "domain")
		elem := rapid.Custom(func(t *rapid.T) int {
			if rapid.IntRange(0, 39).Draw(t, "isReset") == 0 {
				return Reset
			}
			return rapid.IntRange(0, dom-1).Draw(t, "v")
		})
		c.Ops = rapid.SliceOfN(elem, 0, 300).Draw(t, "ops")
		c.Reps = rapid.SampledFrom([]int{1, 8, 32}).Draw(t, "reps")
		return c
	}
	// descriptor: d relative to the size, from 0 to 40*size
	var d int
	switch rapid.IntRange(0, 5).Draw(t, "dClass") {
	case 0:
		d = rapid.IntRange(0, c.Size-1).Draw(t, "d")
	case 1:
		d = c.Size + rapid.IntRange(-1, 1).Draw(t, "d")
	case 2, 3:
		d = rapid.IntRange(c.Size+1, 4*c.Size).Draw(t, "d")
	case 4:
		d = rapid.IntRange(4*c.Size, 20*c.Size).Draw(t, "d")
	default:
		d = rapid.IntRange(20*c.Size, 40*c.Size).Draw(t, "d")
	}
	k := rapid.IntRange(1, 4).Draw(t, "k")
	order := rapid.SampledFrom(orders).Draw(t, "order")
	seed := rapid.Uint64().Draw(t, "seed")
	c.Ops = buildStream(d, k, order, vk.NewRNG(seed))
	// Reset at drawn points; a second stream after the last Reset
	nres := rapid.IntRange(0, 2).Draw(t, "resets")
	for i := 0; i < nres; i++ {
		pos := rapid.IntRange(0, len(c.Ops)).Draw(t, "resetAt")
		c.Ops = append(c.Ops[:pos], append([]int{Reset}, c.Ops[pos:]...)...)
	}
	if nres > 0 && rapid.Bool().Draw(t, "tail") {
		d2 := rapid.IntRange(0, 3*c.Size).Draw(t, "d2")
		c.Ops = append(c.Ops, Reset)
		c.Ops = append(c.Ops, buildStream(d2, 2, "shuffle", vk.NewRNG(seed^0x5bd1e995))...)
	}
	if len(c.Ops) <= 4000 {
		c.Reps = rapid.SampledFrom([]int{1, 4, 8}).Draw(t, "reps")
	}
	return c
}

func TestC19Det(t *testing.T) {
	h := vk.Start(t, "C19", "det")
	vk.Rapid(h, t, genDet, runDet)
}

// statStreams builds the (at most 12) streams of one run: every listed size
// once near capacity (d = size-1, size, size+1 or 2*size) and once far above
// it (d = 5, 10, 20 or 40 times the size), with repeat factors and
// interleavings rotated by the seed.
func statStreams(h *vk.H, R int) []StatCase {
	rng := h.RNG("streams")
	rot := rng.Intn(1 << 20)
	var out []StatCase
	for i := 0; i < 12; i++ {
		size := listedSizes[i%6]
		var d int
		if i < 6 {
			d = []int{size - 1, size, size + 1, 2 * size}[(i+rot)%4]
		} else {
			d = []int{5, 10, 20, 40}[(i+rot/4)%4] * size
		}
		k := []int{2, 3, 5, 1, 2, 3, 4}[(i+rot/16)%7]
		order := orders[(i+rot/128)%3]
		vals := buildStream(d, k, order, rng)
		out = append(out, StatCase{Size: size, Vals: vals, Mid: len(vals) / 2, R: R})
	}
	// every other stream with an element kind; which streams and which kinds
	// turns with the seed (drawn last: the streams are those of the plain leg)
	krot := rng.Intn(2 * len(baseKinds))
	for i := range out {
		if (i+krot)%2 == 1 {
			out[i].Elem = baseKinds[(i/2+krot/2)%len(baseKinds)]
		}
	}
	return out
}

// bigR is the number of independent counters for a buffer of `size` elements
// and a stream of some 10*size values: R*size is held at `work` (the cost of
// the case), R stays within 128 .. most.  R >= 128 keeps the band of 8
// standard errors beyond 7 normal deviations (see studentBand).
func bigR(size, work, most int) int { return min(max(work/size, 128), most) }

// bigSizesQuick are the buffer sizes every quick run puts under the
// unbiasedness test besides the listed small ones; a run adds one size of
// midPoolQuick and one of bigPoolQuick, by the seed.  The thorough tier sweeps
// every power of two from 2^4 to 2^17 and the sizes half way between them, so
// that a path of the implementation that is taken from some buffer length on
// is exercised on both sides of wherever that length is.
var bigSizesQuick = []int{1 << 14, 20000, 1 << 15}
var midPoolQuick = []int{1024, 1536, 2048, 3000, 4096, 6000, 8192, 12000}
var bigPoolQuick = []int{1<<14 - 1, 1<<14 + 1, 24576, 40000, 50000, 1 << 16}

// bigStreams builds the streams for large buffers as descriptors: D = 5 .. 6
// times the size in the quick tier (3 eviction passes, each over a full
// buffer, two of them before the checkpoint in the middle of the stream), 4,
// 10 or 20 times the size in the thorough tier.
func bigStreams(h *vk.H) []StatCase {
	rng := h.RNG("big")
	var out []StatCase
	add := func(size, mult, k, R int, order, kind string) {
		c := StatCase{Size: size, R: R, Elem: kind, D: mult*size + rng.Intn(size), K: k, Order: order, Seed: rng.Uint64() | 1}
		c.Mid = len(c.expand().Vals) / 2
		out = append(out, c)
	}
	if !h.Thorough() {
		for _, size := range bigSizesQuick {
			add(size, 5, 1, 128, "rounds", "")
		}
		mid := midPoolQuick[rng.Intn(len(midPoolQuick))]
		add(mid, 5+rng.Intn(4), 1+rng.Intn(2), bigR(mid, 1<<20, 1024), orders[rng.Intn(2)], longKinds[rng.Intn(len(longKinds))])
		big := bigPoolQuick[rng.Intn(len(bigPoolQuick))]
		add(big, 5, 1, 128, orders[rng.Intn(2)], longKinds[rng.Intn(len(longKinds))])
		return out
	}
	var sizes []int
	for e := 4; e <= 17; e++ {
		sizes = append(sizes, 1<<e, 3<<(e-1))
	}
	sizes = append(sizes, 20000, 1<<14-1, 1<<14+1, 1<<16-1, 1<<16+1, 100000)
	for i, size := range sizes {
		if i%max(h.NShards, 1) != h.Shard%max(h.NShards, 1) {
			continue
		}
		mult := []int{10, 4, 20}[rng.Intn(3)]
		add(size, mult, 1+rng.Intn(3), bigR(size, 1<<22, 40000), orders[rng.Intn(2)], longKinds[rng.Intn(len(longKinds))])
	}
	return out
}

// TestC19Stat is the statistical leg: for each stream R independent counters
// (on all cores), mean of Count against the true distinct count.
func TestC19Stat(t *testing.T) {
	h := vk.Start(t, "C19", "stat")
	smallR := h.Pick(4000, 40000)
	slot := h.Slot()
	tl := vk.NewTally()
	maxAbsT, checkpoints := 0.0, 0
	// Every stream is evaluated; if several fail, the one that is off by the
	// most standard errors is reported (its replay, which draws fresh entropy,
	// then fails again most reliably).
	var worst *StatCase
	worstMsg, worstT := "", 0.0
	for _, compact := range append(statStreams(h, smallR), bigStreams(h)...) {
		// compact is what is recorded (a stream for a large buffer is a
		// descriptor); c has the explicit stream
		c, R := compact.expand(), clampR(compact.R)
		mids, ends := make([]float64, R), make([]float64, R)
		oneCounter, bad := statRunner(c)
		if bad != "" {
			t.Fatal(bad)
		}
		slot.Enter(compact)
		var pmsg atomic.Value
		vk.Parallel(h, R, func(worker, i int) {
			if m := vk.Guard(func() string { mids[i], ends[i] = oneCounter(); return "" }); m != "" {
				pmsg.Store(m)
			}
		})
		res, msg := evalStat(c, mids, ends)
		slot.Leave()
		if m, ok := pmsg.Load().(string); ok {
			p := h.Fail(compact, m)
			t.Fatalf("VK-VIOLATION property=C19 leg=stat replay=%s\n%s", p, m)
		}
		if msg != "" {
			sig := math.Max(math.Abs(res.TEnd), math.Abs(res.TMid)) // +Inf for a mismatch in the exact regime
			if worst == nil || sig > worstT {
				cc := compact
				worst, worstMsg, worstT = &cc, msg, sig
			}
			continue
		}
		size, d := c.Size, res.D
		repeats := len(c.Vals) > d
		nt := repeats && d > size
		tl.Evals++
		if nt {
			tl.NT++
		}
		switch {
		case d < size:
			tl.Classes["d<size"]++
		case d == size:
			tl.Classes["d==size"]++
		case d <= 4*size:
			tl.Classes["size<d<=4size"]++
		case d < 20*size:
			tl.Classes["4size<d<20size"]++
		default:
			tl.Classes["d>=20size"]++
		}
		if repeats {
			tl.Classes["has_repeats"]++
		}
		if size < 8 {
			tl.Classes["heavy_tailed_size<8"]++
		}
		switch {
		case size >= 1<<14:
			tl.Classes["buffer>=2^14"]++
		case size >= 1<<10:
			tl.Classes["buffer 2^10..2^14-1"]++
		case size > 64:
			tl.Classes["buffer 65..1023"]++
		}
		tl.Classes["elem="+kindName(c.Elem)]++
		for _, x := range []float64{res.TEnd, res.TMid} {
			if math.Abs(x) > maxAbsT {
				maxAbsT = math.Abs(x)
			}
		}
		checkpoints += 2
		h.Sample(compact, nt)
		h.Count("counter_runs", int64(R))
		h.Note("size %d, elem %s, %d values, %d distinct (mid %d): mean %.3f (t=%+.2f), mid mean %.3f (t=%+.2f), s/d=%.3f",
			size, kindName(c.Elem), len(c.Vals), d, res.DMid, res.End.Mean, res.TEnd, res.Mid.Mean, res.TMid, res.End.SD/math.Max(1, float64(d)))
	}
	if worst != nil {
		p := h.Fail(*worst, worstMsg)
		t.Fatalf("VK-VIOLATION property=C19 leg=stat replay=%s\n%s", p, worstMsg)
	}
	h.MergeTally(tl)
	h.Note("R = %d counters per stream of a listed size, 128..%d for the large buffers; largest |t| over %d checkpoints: %.2f (band +8 s.e.; -8 s.e. for size >= 8, -12 for sizes 4..7, -16 for sizes 2..3)", smallR, smallR, checkpoints, maxAbsT)
}
