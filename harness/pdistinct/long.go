package pdistinct

import (
	"fmt"
	"math"
	"math/bits"
	"runtime"
	"strings"
	"sync"
	"sync/atomic"

	"github.com/creachadair/mds/distinct"
	"verif/elem"
	"verif/vk"
)

// ---------------------------------------------------------------------------
// Very long streams (legs long and marathon).
//
// The number of eviction passes k grows like log2(distinct values / size): the
// streams of the det and stat legs (at most 40*size values) stay at k <= 7.
// Whatever the implementation keeps per pass (the fixed-point probability, a
// pass counter, coins cut from a roll) is exercised at k = 16 .. 20 only by a
// tiny buffer fed 2^19 .. 2^21 distinct values, and at k >= 32 only by some 2^32
// Adds on one counter.

// cvmSecondMoment[size] bounds c = E[Count^2] / n^2 of the CVM algorithm (the
// one the package documents: admit a value with probability 2^-k; when the
// buffer is full remove every element with probability 1/2 and increment k,
// again if nothing was removed) after n distinct values, n >= 4096, for the
// sizes where it is finite.  The exact values, from the recurrence over the
// states (k, Len) evaluated step by step in float64 (TestLawTable recomputes
// them), do not depend on n to 4 digits for 2^12 <= n <= 2^20:
//
//	size   3       4       5       6       7       8
//	c      2.4427  1.7213  1.4809  1.3607  1.2886  1.2406
//
// (E[Count] = n exactly; for size 2 the second moment is infinite: P(Count > x)
// decays like x^-size.)  The table rounds them up.
var cvmSecondMoment = map[int]float64{3: 2.45, 4: 1.73, 5: 1.49, 6: 1.37, 7: 1.30, 8: 1.25}

// longAlpha is the false-alarm probability of the mean check of one long case.
const longAlpha = 1e-10

// longThreshold returns the fraction T of the true count below which the mean
// of R independent Counts is a violation.
//
// For independent X_1..X_R >= 0 with E X_i = n and E X_i^2 = c n^2, and any
// s > 0:  P(sum X_i <= R n - L) <= e^(s (R n - L)) * prod E e^(-s X_i)
// <= exp(-s L + s^2 R c n^2 / 2)  (because e^-x <= 1 - x + x^2/2 for x >= 0),
// which at s = L / (R c n^2) is exp(-L^2 / (2 R c n^2)).  With L = (1-T) R n:
//
//	P(mean <= T n) <= exp(-R (1-T)^2 / (2 c)).
//
// No normal approximation and no bound on the (infinite, for sizes 3 and 4)
// higher moments is involved: the heavy UPPER tail of Count cannot pull the
// mean of non-negative values far below its expectation.  T is the largest
// value for which the bound is longAlpha; ok is false if R is too small for
// any check or the size has no finite second moment.
func longThreshold(size, R int) (T float64, ok bool) {
	c, have := cvmSecondMoment[size]
	if !have || R < 1 {
		return 0, false
	}
	T = 1 - math.Sqrt(2*c*math.Log(1/longAlpha)/float64(R))
	return T, T > 0
}

// LongCase: R independent counters of buffer size Size (3..8) are fed the N
// distinct values 0..N-1 (N >= 4096), each once.  On every counter the
// deterministic clauses are checked every 1024 Adds; at the end the mean of
// Count over the R counters must exceed longThreshold * N.
type LongCase struct {
	Size int    `json:"size"`
	N    int    `json:"n"`
	R    int    `json:"r"`
	Elem string `json:"elem,omitempty"` // element kind as in DetCase
}

func runLong(c LongCase, o *vk.Obs) string {
	switch c.Elem {
	case "":
		return longKind(c, o, plainInts())
	case elem.Int:
		return longKind(c, o, intElems())
	case elem.Str:
		return longKind(c, o, strElems())
	case elem.I16:
		return longKind(c, o, i16Elems())
	case elem.Wide:
		return longKind(c, o, wideElems())
	case elem.Ptr:
		return longKind(c, o, ptrElems())
	case elem.Any:
		return longKind(c, o, anyElems())
	case elem.F64:
		return longKind(c, o, f64Elems())
	case kindA64:
		return longKind(c, o, a64Elems())
	case kindA512:
		return longKind(c, o, a512Elems())
	}
	return badKind(c.Elem)
}

// powerOfTwoStep checks "Count is Len times a power of two that does not
// decrease" for one observation; prevQ is the last multiplier seen (1 at the
// start).  It returns the multiplier (prevQ when Len == 0) or a message.
func powerOfTwoStep(l int, n uint64, size int, prevQ uint64) (uint64, string) {
	if l < 0 || l > size {
		return prevQ, fmt.Sprintf("Len = %d exceeds the buffer size %d", l, size)
	}
	if l == 0 {
		if n != 0 {
			return prevQ, fmt.Sprintf("Len = 0 but Count = %d", n)
		}
		return prevQ, ""
	}
	if n%uint64(l) != 0 {
		return prevQ, fmt.Sprintf("Count = %d is not a multiple of Len = %d", n, l)
	}
	q := n / uint64(l)
	if q == 0 || bits.OnesCount64(q) != 1 {
		return prevQ, fmt.Sprintf("Count/Len = %d/%d = %d is not a power of two (previous multiplier %d)", n, l, q, prevQ)
	}
	if q < prevQ {
		return prevQ, fmt.Sprintf("Count/Len = %d/%d = %d decreased from %d without a Reset", n, l, q, prevQ)
	}
	return q, ""
}

func longKind[T comparable](c LongCase, o *vk.Obs, es *elems[T]) string {
	size, N, R := c.Size, c.N, c.R
	thr, ok := longThreshold(size, R)
	if !ok || N < 4096 || N > 1<<24 {
		return fmt.Sprintf("VK-INFRA long case out of range: size %d (3..8), n %d (4096..2^24), r %d (threshold %.3f)", size, N, R, thr)
	}
	elts, bad := es.upto(N) // made once, shared by the R counters
	if bad != "" {
		return bad
	}
	counts := make([]float64, R)
	maxQ := make([]uint64, R)
	var firstMsg atomic.Value
	one := func(i int) string {
		ctr := distinct.NewCounter[T](size)
		prevQ := uint64(1)
		for v := 0; v < N; v++ {
			ctr.Add(elts[v])
			if v&1023 == 1023 || v == N-1 {
				q, msg := powerOfTwoStep(ctr.Len(), ctr.Count(), size, prevQ)
				if msg != "" {
					return fmt.Sprintf("counter of size %d%s after %d distinct values: %s", size, hugeElem(es), v+1, msg)
				}
				prevQ = q
			}
		}
		counts[i], maxQ[i] = float64(ctr.Count()), prevQ
		return ""
	}
	w := min(runtime.GOMAXPROCS(0), R)
	var wg sync.WaitGroup
	for k := 0; k < w; k++ {
		wg.Add(1)
		go func(k int) {
			defer wg.Done()
			for i := k; i < R && firstMsg.Load() == nil; i += w {
				if m := vk.Guard(func() string { return one(i) }); m != "" {
					firstMsg.CompareAndSwap(nil, m)
				}
			}
		}(k)
	}
	wg.Wait()
	if m, bad := firstMsg.Load().(string); bad {
		return m
	}
	st := meanSD(counts)
	if st.Mean <= thr*float64(N) {
		return fmt.Sprintf("mean Count over %d independent counters of size %d%s fed %d distinct values = %.1f = %.3f of the true count (s = %.1f); for an unbiased Count with E[Count^2] <= %.2f n^2 a mean below %.3f n has probability < %.0e",
			R, size, hugeElem(es), N, st.Mean, st.Mean/float64(N), st.SD, cvmSecondMoment[size], thr, longAlpha)
	}
	top := uint64(1)
	for _, q := range maxQ {
		top = max(top, q)
	}
	passes := bits.Len64(top) - 1
	if N >= size<<16 {
		o.NonTrivial() // the typical counter needed 16 passes or more
	}
	o.ClassIf(passes >= 16, "some_counter_made>=16_passes")
	o.ClassIf(passes >= 20, "some_counter_made>=20_passes")
	o.Class(fmt.Sprintf("long size=%d", size))
	o.Class("elem=" + kindName(c.Elem))
	return ""
}

// ---------------------------------------------------------------------------
// marathon: the deterministic clauses beyond 2^Passes.

// MarathonCase: W (at least 1) independent counters of buffer size Size run in
// parallel, each fed the distinct values 0, 1, 2, ...; every 65536 Adds
// "Len <= size, Count = Len times a power of two that does not decrease" is
// checked.  All stop as soon as one of them shows a multiplier of 2^Passes or
// more with Len > 0, or after MaxAdds Adds each.
//
// A counter of size 2 shows a multiplier >= 2^32 within 2^30 / 2^31 / 2^32 Adds
// with probability 0.06 / 0.18 / 0.41 (exact law of the algorithm, see
// TestLawTable; with probability 0.28 the buffer is empty when the 32nd pass
// has been made, and the multiplier stays invisible until the next admission,
// some 2^32 Adds later), so 16 counters with 3*2^30 Adds each almost always
// (99.7 %) get there, typically after 10^9 Adds.
type MarathonCase struct {
	Size    int   `json:"size"`
	Passes  int   `json:"passes"`
	W       int   `json:"w,omitempty"`
	MaxAdds int64 `json:"max_adds"`
}

func runMarathon(c MarathonCase, o *vk.Obs) string { return marathon(c, o, nil) }

// marathon runs the case; tick (if not nil) is called from one of the workers
// every 2^24 of its Adds (the leg re-arms its watchdog slot there: the case is
// supposed to run for a minute).
func marathon(c MarathonCase, o *vk.Obs, tick func()) string {
	size := clampSize(c.Size)
	passes := min(max(c.Passes, 1), 62)
	w := min(max(c.W, 1), 64)
	maxAdds := min(max(c.MaxAdds, 1<<16), 1<<36)
	target := uint64(1) << passes
	var stop atomic.Bool
	var reached atomic.Int64 // Adds of the first counter to show the target
	var firstMsg atomic.Value
	var total atomic.Int64
	one := func(k int) string {
		ctr := distinct.NewCounter[int](size)
		prevQ := uint64(1)
		var v int64
		defer func() { total.Add(v) }()
		for v < maxAdds && !stop.Load() {
			for end := v + 1<<16; v < end; v++ {
				ctr.Add(int(v))
			}
			l, n := ctr.Len(), ctr.Count()
			q, msg := powerOfTwoStep(l, n, size, prevQ)
			if msg != "" {
				return fmt.Sprintf("counter of size %d after %d distinct values: %s", size, v, msg)
			}
			prevQ = q
			if l > 0 && q >= target {
				reached.CompareAndSwap(0, v)
				stop.Store(true)
			}
			if k == 0 && tick != nil && v&(1<<24-1) == 0 {
				tick()
			}
		}
		return ""
	}
	var wg sync.WaitGroup
	for k := 0; k < w; k++ {
		wg.Add(1)
		go func(k int) {
			defer wg.Done()
			if m := vk.Guard(func() string { return one(k) }); m != "" {
				firstMsg.CompareAndSwap(nil, m)
				stop.Store(true)
			}
		}(k)
	}
	wg.Wait()
	if m, bad := firstMsg.Load().(string); bad {
		return m
	}
	if reached.Load() > 0 {
		o.NonTrivial()
		o.Class(fmt.Sprintf("marathon: multiplier >= 2^%d observed", passes))
	} else {
		o.Class(fmt.Sprintf("marathon: multiplier 2^%d not reached", passes))
	}
	o.Class(fmt.Sprintf("marathon size=%d", size))
	marathonAdds.Add(total.Load())
	return ""
}

// marathonAdds counts the Adds of all marathon cases of this process (evidence).
var marathonAdds atomic.Int64

// IndepCase: N counters constructed one after the other in this process, each
// fed the same stream of D distinct values through a buffer of Size (D far
// above Size, so every counter makes dozens of coin flips).  The property
// speaks of "repeated independent runs ... independent random seeds": the
// trajectories of two counters must not be copies of one another.  With fair
// independent coins two given counters agree on the whole (Len, Count)
// trajectory with probability far below 2^-40; a construction scheme whose
// seeds repeat with some period p makes counter i and counter i+p agree for
// every i.  The check looks for a period: some p in 1..N/2 such that every
// pair (i, i+p) has identical trajectories.
type IndepCase struct {
	N    int `json:"n"`
	Size int `json:"size"`
	D    int `json:"d"`
}

func runIndep(c IndepCase, o *vk.Obs) string {
	n, size, d := min(max(c.N, 4), 4096), clampSize(c.Size), max(c.D, 64)
	traj := make([]string, n)
	for i := range traj {
		ctr := distinct.NewCounter[int](size)
		var sb strings.Builder
		for v := 0; v < d; v++ {
			ctr.Add(v)
			if v%8 == 7 {
				fmt.Fprintf(&sb, "%d/%d,", ctr.Len(), ctr.Count())
			}
		}
		traj[i] = sb.String()
	}
	for p := 1; p <= n/2; p++ {
		all := true
		for i := 0; i+p < n && all; i++ {
			all = traj[i] == traj[i+p]
		}
		if all {
			return fmt.Sprintf("%d counters of size %d constructed one after the other and fed the same %d distinct values: counter i and counter i+%d have identical (Len, Count) trajectories for every i - the runs are not independent (their coin sequences repeat with period %d)", n, size, d, p, p)
		}
	}
	distinctTraj := map[string]bool{}
	for _, t := range traj {
		distinctTraj[t] = true
	}
	if len(distinctTraj) > n/2 {
		o.NonTrivial()
	}
	return ""
}
