package pdistinct

import (
	"math"
	"os"
	"testing"

	"verif/elem"
	"verif/vk"
)

func init() {
	vk.Register("C19", "long", runLong)
	vk.Register("C19", "marathon", runMarathon)
	vk.Register("C19", "indep", runIndep)
}

// longKinds are the element kinds of the long leg (a stream of 2^19 .. 2^21
// elements is materialised once per case).
var longKinds = []string{"", elem.Int, elem.Str, elem.F64}

// TestC19Long: R independent counters of size 3..8 fed 2^19 .. 2^21 distinct
// values (16 to 19 eviction passes each); the mean of Count against the true
// count (lower side, see longThreshold) and the deterministic clauses every
// 1024 Adds.  Quick tier: one case, size 3 or 4 by the seed.
func TestC19Long(t *testing.T) {
	h := vk.Start(t, "C19", "long")
	slot := h.Slot()
	rng := h.RNG("long")
	rot := rng.Intn(1 << 16)
	var cases []LongCase
	if h.Thorough() {
		for i, size := range []int{3, 4, 5, 6, 7, 8} {
			cases = append(cases, LongCase{Size: size, N: 1 << (19 + (i+rot)%3), R: 1024, Elem: longKinds[(i+rot/4)%len(longKinds)]})
		}
	} else {
		c := LongCase{Size: 3, N: 1 << 19, R: 384, Elem: longKinds[(rot/2)%len(longKinds)]}
		if rot%2 == 1 {
			c.Size, c.R = 4, 256
		}
		cases = append(cases, c)
	}
	for _, c := range cases {
		if h.Failed() {
			break
		}
		if msg := vk.One(h, slot, c, runLong); msg != "" {
			p := h.Fail(c, msg)
			t.Fatalf("VK-VIOLATION property=C19 leg=long replay=%s\n%s", p, msg)
		}
		T, _ := longThreshold(c.Size, c.R)
		h.Count("counter_runs", int64(c.R))
		h.Note("long: size %d, elem %s, %d distinct values, %d counters: mean Count must exceed %.3f n (false-alarm bound %.0e)", c.Size, kindName(c.Elem), c.N, c.R, T, longAlpha)
	}
}

// TestC19Marathon: the deterministic clauses far beyond the pass counts of the
// other legs: up to a multiplier of 2^24 in the quick tier, 2^32 (some 10^9
// Adds on each of 16 counters of size 2) in the thorough tier.
func TestC19Marathon(t *testing.T) {
	h := vk.Start(t, "C19", "marathon")
	h.Patience(8) // a case (and its replay) may run for minutes
	slot := h.Slot()
	tl := vk.NewTally()
	var cases []MarathonCase
	if h.Thorough() {
		cases = []MarathonCase{
			{Size: 3, Passes: 26, W: 8, MaxAdds: 1 << 30},
			{Size: 2, Passes: 32, W: 16, MaxAdds: 3 << 30},
		}
	} else {
		cases = []MarathonCase{
			{Size: 2, Passes: 24, W: 4, MaxAdds: 1 << 26},
			{Size: 3, Passes: 22, W: 4, MaxAdds: 1 << 26},
		}
	}
	for i := 0; i < len(cases) && !h.Failed(); i++ {
		c := cases[i]
		o := &vk.Obs{}
		slot.Enter(c)
		msg := vk.Guard(func() string { return marathon(c, o, func() { slot.Enter(c) }) })
		slot.Leave()
		if msg != "" {
			p := h.Fail(c, msg)
			t.Fatalf("VK-VIOLATION property=C19 leg=marathon replay=%s\n%s", p, msg)
		}
		tl.AddObs(o)
		h.Sample(c, o.NT)
		if !o.NT && h.Thorough() && c.Passes >= 32 && len(cases) < 4 {
			cases = append(cases, c) // not reached (0.3 %): once more
		}
	}
	h.Count("marathon_adds", marathonAdds.Load())
	h.MergeTally(tl)
}

// cvmLaw returns the exact law P[k][len] of the CVM algorithm with buffer
// size `size` after n distinct values: a value is admitted with probability
// 2^-k; when the buffer is full every element is removed with probability 1/2
// and k is incremented, again if nothing was removed.
func cvmLaw(size, n int) [][]float64 {
	cur, nxt := make([][]float64, 64), make([][]float64, 64)
	for k := range cur {
		cur[k], nxt[k] = make([]float64, size), make([]float64, size)
	}
	binom := make([]float64, size+1) // P(j of size elements survive a pass)
	for j := range binom {
		b := 1.0
		for i := 0; i < j; i++ {
			b = b * float64(size-i) / float64(i+1)
		}
		binom[j] = b / math.Pow(2, float64(size))
	}
	cur[0][0] = 1
	lo, hi := 0, 0
	for step := 0; step < n; step++ {
		for k := lo; k < 64; k++ {
			clear(nxt[k])
		}
		newhi := hi
		for k := lo; k <= hi; k++ {
			a := math.Pow(2, -float64(k))
			for l, m := range cur[k] {
				if m == 0 {
					continue
				}
				nxt[k][l] += m * (1 - a)
				mv := m * a
				if l+1 < size {
					nxt[k][l+1] += mv
					continue
				}
				for kk := k + 1; kk < 64 && mv > 1e-300; kk++ {
					newhi = max(newhi, kk)
					for j := 0; j < size; j++ {
						nxt[kk][j] += mv * binom[j]
					}
					mv *= binom[size]
				}
			}
		}
		hi = newhi
		cur, nxt = nxt, cur
		for lo < hi { // rows whose mass has decayed away
			s := 0.0
			for _, x := range cur[lo] {
				s += x
			}
			if s > 1e-200 {
				break
			}
			clear(cur[lo])
			clear(nxt[lo])
			lo++
		}
	}
	return cur
}

// TestLawTable recomputes the constants quoted in long.go from the exact law
// (PDISTINCT_LAW=1; about a minute).
func TestLawTable(t *testing.T) {
	if os.Getenv("PDISTINCT_LAW") == "" {
		t.Skip("PDISTINCT_LAW not set")
	}
	for size := 3; size <= 8; size++ {
		for _, e := range []int{12, 16, 18} {
			n := float64(int(1) << e)
			var tot, mean, m2 float64
			for k, row := range cvmLaw(size, 1<<e) {
				for l, m := range row {
					x := float64(l) * math.Pow(2, float64(k))
					tot, mean, m2 = tot+m, mean+m*x, m2+m*x*x
				}
			}
			c := m2 / n / n
			t.Logf("size %d n 2^%d: total mass %.12f, E[Count]/n = %.6f, E[Count^2]/n^2 = %.4f (table %.2f)", size, e, tot, mean/n, c, cvmSecondMoment[size])
			if math.Abs(tot-1) > 1e-9 || math.Abs(mean/n-1) > 1e-6 || c > cvmSecondMoment[size] {
				t.Errorf("size %d n 2^%d: table value %.2f does not bound %.4f", size, e, cvmSecondMoment[size], c)
			}
		}
	}
	// size 2 after 2^20 values: P(k >= 20+j and Len = 1) is the probability that a
	// counter shows a multiplier >= 2^32 within 2^(32-j) Adds (the law depends on
	// n / 2^k only)
	p := cvmLaw(2, 1<<20)
	for j := 18; j <= 23; j++ {
		all, vis := 0.0, 0.0
		for k := j; k < 64; k++ {
			all += p[k][0] + p[k][1]
			vis += p[k][1]
		}
		t.Logf("size 2, n = 2^20: P(k >= %d) = %.4f, P(k >= %d and Len = 1) = %.4f", j, all, j, vis)
	}
}

// TestC19Indep: counters constructed in a row must not replay each other's coins.
func TestC19Indep(t *testing.T) {
	h := vk.Start(t, "C19", "indep")
	slot := h.Slot()
	tl := vk.NewTally()
	cases := []IndepCase{{N: 600, Size: 4, D: 400}, {N: 300, Size: 2, D: 200}}
	if h.Thorough() {
		cases = append(cases, IndepCase{N: 2600, Size: 5, D: 600}, IndepCase{N: 1100, Size: 16, D: 3000})
	}
	for _, c := range cases {
		o := &vk.Obs{}
		slot.Enter(c)
		msg := vk.Guard(func() string { return runIndep(c, o) })
		slot.Leave()
		if msg != "" {
			p := h.Fail(c, msg)
			t.Fatalf("VK-VIOLATION property=C19 leg=indep replay=%s\n%s", p, msg)
		}
		tl.AddObs(o)
		h.Sample(c, o.NT)
	}
	h.MergeTally(tl)
}
