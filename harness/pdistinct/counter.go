// Package pdistinct holds the checks for distinct.Counter (C19).
//
// The counter seeds itself from crypto/rand, so no run is reproducible bit
// for bit.  The deterministic clauses (exact below capacity, Len <= size,
// Count = Len * non-decreasing power of two, Reset) hold with probability 1
// and are checked after every Add of every stream.  The unbiasedness clause is
// statistical: R independent counters per stream, mean within a band of
// standard errors (see statVerdict for the band and its justification).
package pdistinct

import (
	"fmt"
	"math"
	"math/bits"
	"os"
	"runtime"
	"sync"
	"unsafe"

	"github.com/creachadair/mds/distinct"
	"verif/elem"
	"verif/vk"
)

// Reset is the op code of a Reset in a DetCase stream.
const Reset = -1

// DetCase is a stream for the deterministic leg: Ops[i] >= 0 adds that
// value, Ops[i] == -1 resets the counter.  The stream is fed to Reps (at
// least 1) independent fresh counters: the clauses must hold on every run,
// and a defect that shows only for some random choices of the counter (F8
// needed a halving pass that removes nothing) is hit, and reproduced by the
// replay, far more reliably.
//
// Elem is the element kind the counter is instantiated with (see kinds.go):
// "" is Counter[int] fed the stream values themselves, every other kind turns
// stream value v into an element of its own type.  For the kinds with few
// values (struct{}, [0]int, bool, ...) value v stands for v mod card and the
// oracle works on the stream reduced like that.
type DetCase struct {
	Size int    `json:"n"`
	Reps int    `json:"reps,omitempty"`
	Ops  []int  `json:"ops"`
	Elem string `json:"elem,omitempty"`
}

const maxReps = 256

func clampSize(n int) int {
	if n < 2 {
		return 2
	}
	return n
}

// runDet interprets a DetCase: oracle after every single Add / Reset, on
// each of the Reps independent counters.
func runDet(c DetCase, o *vk.Obs) string {
	c.Ops = collapse(c.Elem, c.Ops) // kinds with few values: what the reference has to see
	switch c.Elem {
	case "":
		return detKind(c, o, plainInts())
	case elem.Int:
		return detKind(c, o, intElems())
	case elem.Str:
		return detKind(c, o, strElems())
	case elem.I16:
		return detKind(c, o, i16Elems())
	case elem.Wide:
		return detKind(c, o, wideElems())
	case elem.Ptr:
		return detKind(c, o, ptrElems())
	case elem.Any:
		return detKind(c, o, anyElems())
	case elem.F64:
		return detKind(c, o, f64Elems())
	case kindA64:
		return detKind(c, o, a64Elems())
	case kindA512:
		return detKind(c, o, a512Elems())
	case kindUnit:
		return detKind(c, o, unitElems())
	case kindZArr:
		return detKind(c, o, zarrElems())
	case kindZNest:
		return detKind(c, o, znestElems())
	case kindBool:
		return detKind(c, o, boolElems())
	case kindU8:
		return detKind(c, o, u8Elems())
	}
	return badKind(c.Elem)
}

// detKind runs the stream with the elements of one kind; the elements are
// made once and shared by the Reps counters.
func detKind[T comparable](c DetCase, o *vk.Obs, es *elems[T]) string {
	elts, bad := es.stream(c.Ops)
	if bad != "" {
		return bad
	}
	reps := min(max(c.Reps, 1), maxReps)
	if os.Getenv("VK_REPLAY") != "" && len(c.Ops) <= 4000 {
		// The counter draws its coins from a source the harness cannot seed: a
		// replay tries many more fresh counters, so that a failure that needs
		// particular coin flips shows up again (a correct tree passes them all).
		reps = max(reps, 64) * 64
	}
	for r := 0; r < reps; r++ {
		ob := o
		if r > 0 {
			ob = &vk.Obs{} // classify once
		}
		if msg := runDetOnce(c, ob, es, elts); msg != "" {
			if reps > 1 {
				return fmt.Sprintf("%s [counter %d of %d]", msg, r+1, reps)
			}
			return msg
		}
	}
	o.ClassIf(reps > 1, "several_counters_per_stream")
	o.Class("elem=" + kindName(c.Elem))
	return ""
}

func runDetOnce[T comparable](c DetCase, o *vk.Obs, es *elems[T], elts []T) string {
	size := clampSize(c.Size)
	ctr := distinct.NewCounter[T](size)
	if l, n := ctr.Len(), ctr.Count(); l != 0 || n != 0 {
		return fmt.Sprintf("new counter(size %d): Len = %d, Count = %d, want 0, 0", size, l, n)
	}
	maxV := 0
	for _, v := range c.Ops {
		if v > maxV {
			maxV = v
		}
	}
	seen := make([]bool, maxV+1) // reference: which values were added since the last Reset
	distinctSoFar := 0
	prevQ := uint64(1) // last observed Count/Len since the last Reset
	halved := false    // a halving was observed since the last Reset
	// measurements
	var (
		maxDistinct, resets, resetsAfterHalving, repeatAfterHalving, repeats int
		lenZeroAfterHalving, halvings, exactSteps, nanResets                 int
	)
	for i, v := range c.Ops {
		o.Step() // interleaved execution (vk.Interleave) switches to the other case here
		if v < 0 {
			buffered := ""
			if es.nan != nil && !halved && distinctSoFar+1 < size {
				// an element that differs from itself is buffered at the Reset
				// (exact regime before and after it: no halving pass meets it)
				ctr.Add(*es.nan)
				nanResets++
				buffered = fmt.Sprintf(" with %d values and a NaN buffered", distinctSoFar)
			}
			ctr.Reset()
			resets++
			if halved {
				resetsAfterHalving++
			}
			for j := range seen {
				seen[j] = false
			}
			distinctSoFar, prevQ, halved = 0, 1, false
			if l, n := ctr.Len(), ctr.Count(); l != 0 || n != 0 {
				return fmt.Sprintf("op#%d Reset%s (size %d): Len = %d, Count = %d afterwards, want 0, 0", i, buffered, size, l, n)
			}
			continue
		}
		if seen[v] {
			repeats++
			if halved {
				repeatAfterHalving++
			}
		} else {
			seen[v] = true
			distinctSoFar++
			if distinctSoFar > maxDistinct {
				maxDistinct = distinctSoFar
			}
		}
		ctr.Add(elts[i])
		l, n := ctr.Len(), ctr.Count()
		where := func() string {
			return fmt.Sprintf("op#%d Add(%d)%s (size %d, %d distinct values since the last Reset)", i, v, show(es, elts[i]), size, distinctSoFar)
		}
		if l < 0 || l > size {
			return fmt.Sprintf("%s: Len = %d exceeds the buffer size", where(), l)
		}
		if l == 0 {
			if n != 0 {
				return fmt.Sprintf("%s: Len = 0 but Count = %d", where(), n)
			}
		} else {
			if n%uint64(l) != 0 {
				return fmt.Sprintf("%s: Count = %d is not a multiple of Len = %d", where(), n, l)
			}
			q := n / uint64(l)
			if q == 0 || bits.OnesCount64(q) != 1 {
				return fmt.Sprintf("%s: Count/Len = %d/%d = %d is not a power of two", where(), n, l, q)
			}
			if q < prevQ {
				return fmt.Sprintf("%s: Count/Len = %d decreased from %d without a Reset", where(), q, prevQ)
			}
			if q > prevQ {
				halvings++
			}
			prevQ = q
		}
		if distinctSoFar < size {
			exactSteps++
			if l != distinctSoFar || n != uint64(distinctSoFar) {
				return fmt.Sprintf("%s: below capacity Len = %d, Count = %d, want both = %d", where(), l, n, distinctSoFar)
			}
		} else {
			// the buffer filled at least once, so at least one halving pass ran
			if !halved && l == 0 {
				lenZeroAfterHalving++
			}
			halved = true
		}
	}
	if repeatAfterHalving > 0 {
		o.NonTrivial()
	}
	o.ClassIf(repeatAfterHalving > 0, "repeat_after_halving")
	o.ClassIf(repeats > 0, "has_repeats")
	o.ClassIf(resets > 0, "has_reset")
	o.ClassIf(resetsAfterHalving > 0, "reset_after_halving")
	o.ClassIf(lenZeroAfterHalving > 0, "first_halving_emptied_buffer")
	o.ClassIf(halvings >= 3, "observed_halvings>=3")
	o.ClassIf(nanResets > 0, "Reset_with_NaN_buffered")
	switch {
	case maxDistinct < size:
		o.Class("d<size")
	case maxDistinct == size:
		o.Class("d==size")
	case maxDistinct <= 4*size:
		o.Class("size<d<=4size")
	case maxDistinct < 20*size:
		o.Class("4size<d<20size")
	default:
		o.Class("d>=20size")
	}
	switch {
	case size <= 4:
		o.Class("size 2..4")
	case size <= 64:
		o.Class("size 5..64")
	case size <= 256:
		o.Class("size 65..256")
	case size < 1<<31:
		o.Class("size 257..2^31-1")
	default:
		o.Class("size>=2^31")
	}
	return ""
}

// ---------------------------------------------------------------------------
// statistical leg

// StatCase is a stream for the statistical leg: R independent counters of
// the given size are fed Vals; the mean of Count is compared with the number
// of distinct values at the end of the stream and, if Mid > 0, after the
// first Mid values as well.  Replaying it draws fresh entropy.
// Elem is the element kind as in DetCase; the law of Count depends on the
// stream through the equalities between its values only, so the statistics
// are those of Counter[int] for every kind.
//
// A stream of several hundred thousand values (buffers of 2^10 .. 2^16
// elements) is given by its descriptor instead of Vals: D > 0 distinct values,
// each repeated 1..K times in the interleaving Order, built by buildStream from
// Seed.
type StatCase struct {
	Size  int    `json:"n"`
	Vals  []int  `json:"v"`
	Mid   int    `json:"mid,omitempty"`
	R     int    `json:"r"`
	Elem  string `json:"elem,omitempty"`
	D     int    `json:"d,omitempty"`
	K     int    `json:"k,omitempty"`
	Order string `json:"order,omitempty"`
	Seed  uint64 `json:"seed,omitempty"`
}

// maxStatD bounds the descriptor of a stat stream (memory of a replay).
const maxStatD = 1 << 22

// expand returns the case with the explicit stream the interpreter works on:
// built from the descriptor if there is one, and reduced to the values of the
// element kind if that has only a few (see collapse).
func (c StatCase) expand() StatCase {
	if len(c.Vals) == 0 && c.D > 0 {
		c.Vals = buildStream(min(c.D, maxStatD), min(max(c.K, 1), 8), c.Order, vk.NewRNG(c.Seed))
	}
	c.Vals = collapse(c.Elem, c.Vals)
	return c
}

// buildStream makes a stream over the values 0..d-1 in which value v occurs
// 1..k times, in one of three interleavings.
func buildStream(d, k int, order string, rng *vk.RNG) []int {
	if k < 1 {
		k = 1
	}
	reps := make([]int, d)
	total := 0
	for v := range reps {
		reps[v] = 1 + rng.Intn(k)
		total += reps[v]
	}
	out := make([]int, 0, total)
	switch order {
	case "adjacent": // v v v w w x …: a repeat follows its original immediately
		for v, r := range reps {
			for j := 0; j < r; j++ {
				out = append(out, v)
			}
		}
	case "rounds": // every value once, then every value with a 2nd occurrence, …: repeats far apart
		for j := 0; j < k; j++ {
			for v, r := range reps {
				if r > j {
					out = append(out, v)
				}
			}
		}
	default: // "shuffle": uniformly interleaved
		for v, r := range reps {
			for j := 0; j < r; j++ {
				out = append(out, v)
			}
		}
		for i := len(out) - 1; i > 0; i-- {
			j := rng.Intn(i + 1)
			out[i], out[j] = out[j], out[i]
		}
	}
	return out
}

// distinctIn counts the distinct values of vs (values are small non-negative ints).
func distinctIn(vs []int) int {
	maxV := 0
	for _, v := range vs {
		if v > maxV {
			maxV = v
		}
	}
	seen := make([]bool, maxV+1)
	d := 0
	for _, v := range vs {
		if v >= 0 && !seen[v] {
			seen[v] = true
			d++
		}
	}
	return d
}

// statRunner prepares the stream for the element kind of the case and
// returns oneCounter, which may be called from several goroutines at once, or
// a message if the case cannot be run.
func statRunner(c StatCase) (oneCounter func() (mid, end float64), bad string) {
	switch c.Elem {
	case "":
		return statKind(c, plainInts())
	case elem.Int:
		return statKind(c, intElems())
	case elem.Str:
		return statKind(c, strElems())
	case elem.I16:
		return statKind(c, i16Elems())
	case elem.Wide:
		return statKind(c, wideElems())
	case elem.Ptr:
		return statKind(c, ptrElems())
	case elem.Any:
		return statKind(c, anyElems())
	case elem.F64:
		return statKind(c, f64Elems())
	case kindA64:
		return statKind(c, a64Elems())
	case kindA512:
		return statKind(c, a512Elems())
	case kindUnit:
		return statKind(c, unitElems())
	case kindZArr:
		return statKind(c, zarrElems())
	case kindZNest:
		return statKind(c, znestElems())
	case kindBool:
		return statKind(c, boolElems())
	case kindU8:
		return statKind(c, u8Elems())
	}
	return nil, badKind(c.Elem)
}

func statKind[T comparable](c StatCase, es *elems[T]) (func() (mid, end float64), string) {
	elts, bad := es.stream(c.Vals)
	if bad != "" {
		return nil, bad
	}
	// oneCounter feeds the stream to one fresh counter and returns Count at
	// the checkpoint (0 if there is none) and at the end.
	return func() (mid, end float64) {
		ctr := distinct.NewCounter[T](clampSize(c.Size))
		for i, v := range c.Vals {
			if v < 0 {
				continue
			}
			ctr.Add(elts[i])
			if i+1 == c.Mid {
				mid = float64(ctr.Count())
			}
		}
		return mid, float64(ctr.Count())
	}, ""
}

// Acceptance band, in standard errors of the mean (s/sqrt(R), s the sample
// standard deviation).
//
// Count is Len * 2^k.  A halving pass that removes nothing (probability
// 2^-size) is repeated, so P(Count > x) decays like x^-size.  For size >= 8
// the law is light-tailed (measured over 200 000 counters per stream, d up to
// 40*size: skewness <= 1.5, kurtosis <= 9) and the 8-standard-error band of
// DESIGN.md applies on both sides: normal tail 6e-16 per side, skewness
// correction exp(8^3*skew/(3*sqrt(R))) <= 50, i.e. < 1e-13 per checkpoint.
//
// For sizes 2, 3 and 4 the law of Count has infinite variance, skewness and
// kurtosis respectively (the estimator is still exactly unbiased).  The
// Student statistic then keeps a lighter-than-normal UPPER tail (a rare huge
// Count inflates s together with the mean; simulated P(t > 3) <= 5e-4 against
// 1.35e-3) but its LOWER tail is heavier than normal (absent rare values lower
// the mean and s together).  Simulated on the unchanged tree (20 000 to 400 000
// replicates of the whole R = 4000 experiment per stream) the lower tail
// follows N(0, sigma^2) with sigma = 1.35..1.41 for size 2, 1.08..1.16 for
// size 3 and 1.03 for size 4 out to the 1e-5 level, which puts P(t < -8) near
// 1e-9 for size 2: not acceptable.  The lower side therefore uses 16 standard
// errors for sizes 2 and 3 and 12 for sizes 4..7; even with sigma = 1.9 that
// is beyond 8.4 (6.3) normal deviations, < 1e-9 with a wide margin.  The price
// is sensitivity to under-estimation at tiny sizes, which is poor anyway.
//
// Few counters (large buffers: R = 128 .. 512).  For a buffer of >= 1024
// elements Count is a thinned count of several hundred elements times 2^k with
// k all but fixed by the stream: skewness <= sqrt(2/size) <= 0.05, i.e. normal
// for the purpose.  What matters then is that s is estimated from R values
// only, so that the statistic is Student's t with nu = R-1 degrees of freedom
// and not normal.  Its tail is bounded through Wallace's inequality (1959):
// P(t_nu > b) <= Q(z) with z = sqrt((nu - 1/2) ln(1 + b^2/nu)), Q the normal
// tail.  studentBand returns the b for which z = 7 (Q = 1.3e-12 per side,
// which leaves a factor 50 for the skewness correction above, and some 20
// checkpoints per run, below 1e-9): 7.99 for R = 100, 7.75 for R = 128, 7.2
// for R = 512.  The band in force is the larger of 8 and studentBand(R): 8
// for every R >= 100, wider for the few counters a hand-made replay may ask
// for.
const bandUpper = 8.0

// studentZ is the normal deviate the band has to keep for few counters.
const studentZ = 7.0

// studentBand returns b such that P(t > b) <= Q(studentZ) for Student's t with
// R-1 degrees of freedom (+Inf for R < 3).
func studentBand(R int) float64 {
	nu := float64(R - 1)
	if nu < 2 {
		return math.Inf(1)
	}
	return math.Sqrt(nu * math.Expm1(studentZ*studentZ/(nu-0.5)))
}

func bandLower(size int) float64 {
	switch {
	case size >= 8:
		return 8
	case size >= 4:
		return 12
	}
	return 16
}

// stat is mean and sample standard deviation of one checkpoint.
type stat struct {
	Mean, SD float64
	N        int
}

func meanSD(xs []float64) stat {
	n := float64(len(xs))
	var sum float64
	for _, x := range xs {
		sum += x
	}
	m := sum / n
	var ss float64
	for _, x := range xs {
		ss += (x - m) * (x - m)
	}
	sd := 0.0
	if len(xs) > 1 {
		sd = math.Sqrt(ss / (n - 1))
	}
	return stat{Mean: m, SD: sd, N: len(xs)}
}

// verdict compares one checkpoint with the true distinct count d.
// It returns the t statistic (0 when SD == 0) and a violation message.
func verdict(what string, size, d int, st stat) (float64, string) {
	if st.SD == 0 {
		// all counters agree (e.g. below capacity): the mean must be exact
		if st.Mean != float64(d) {
			return math.Inf(1), fmt.Sprintf("%s: all %d counters report Count = %v, true distinct count is %d", what, st.N, st.Mean, d)
		}
		return 0, ""
	}
	se := st.SD / math.Sqrt(float64(st.N))
	t := (st.Mean - float64(d)) / se
	few := studentBand(st.N)
	lo, up := math.Max(bandLower(size), few), math.Max(bandUpper, few)
	if t > up || t < -lo {
		return t, fmt.Sprintf("%s: mean Count over %d independent counters (size %d) = %.4f, true distinct count %d: off by %+.2f standard errors (s = %.4f, band -%.4g..+%.4g s.e.), relative bias %+.2f%%",
			what, st.N, size, st.Mean, d, t, st.SD, lo, up, 100*(st.Mean-float64(d))/math.Max(1, float64(d)))
	}
	return t, ""
}

// statResult is what one evaluated stream reports to the leg.
type statResult struct {
	D, DMid    int
	TEnd, TMid float64
	End, Mid   stat
}

// evalStat turns the R pairs of counts into a verdict.
func evalStat(c StatCase, mids, ends []float64) (statResult, string) {
	var res statResult
	res.D = distinctIn(c.Vals)
	res.End = meanSD(ends)
	var msg string
	res.TEnd, msg = verdict(fmt.Sprintf("end of stream (%d values)", len(c.Vals)), clampSize(c.Size), res.D, res.End)
	if msg != "" {
		return res, msg
	}
	if c.Mid > 0 && c.Mid <= len(c.Vals) {
		res.DMid = distinctIn(c.Vals[:c.Mid])
		res.Mid = meanSD(mids)
		res.TMid, msg = verdict(fmt.Sprintf("after the first %d of %d values", c.Mid, len(c.Vals)), clampSize(c.Size), res.DMid, res.Mid)
	}
	return res, msg
}

func clampR(r int) int {
	if r < 2 {
		return 2
	}
	return r
}

// runStat is the replay entry: it runs the R counters on all cores itself.
func runStat(c StatCase, o *vk.Obs) string {
	c = c.expand()
	R := clampR(c.R)
	oneCounter, bad := statRunner(c)
	if bad != "" {
		return bad
	}
	mids, ends := make([]float64, R), make([]float64, R)
	w := runtime.GOMAXPROCS(0)
	var wg sync.WaitGroup
	for k := 0; k < w; k++ {
		wg.Add(1)
		go func(k int) {
			defer wg.Done()
			for i := k; i < R; i += w {
				mids[i], ends[i] = oneCounter()
			}
		}(k)
	}
	wg.Wait()
	_, msg := evalStat(c, mids, ends)
	return msg
}

// ---------------------------------------------------------------------------
// Repeated runs through Reset on ONE counter (leg reuse).
//
// "Over repeated independent runs on any stream the mean of Count converges to
// the true number of distinct values": a user who reuses a counter through
// Reset performs such repeated runs.  The stream has D distinct values with D
// chosen so that no value Len*2^k equals D; then a counter whose M runs all
// return the same Count has a mean that is stuck away from D and can never
// converge.  For independent runs far above capacity and buffer sizes >= 16
// (Len takes at least 8 values) two runs agree with probability < 0.2, so the
// probability that 24 runs all return the same value is below 1e-15: the check
// cannot fire on a correct counter.

// ReuseCase is one stream replayed M times on one counter with Reset between.
type ReuseCase struct {
	Size int    `json:"size"`
	D    int    `json:"d"` // distinct values 0..D-1, each added once per run
	M    int    `json:"m"`
	Elem string `json:"elem,omitempty"` // element kind as in DetCase
}

func runReuse(c ReuseCase, o *vk.Obs) string {
	switch c.Elem {
	case "":
		return reuseKind(c, o, plainInts())
	case elem.Int:
		return reuseKind(c, o, intElems())
	case elem.Str:
		return reuseKind(c, o, strElems())
	case elem.I16:
		return reuseKind(c, o, i16Elems())
	case elem.Wide:
		return reuseKind(c, o, wideElems())
	case elem.Ptr:
		return reuseKind(c, o, ptrElems())
	case elem.Any:
		return reuseKind(c, o, anyElems())
	case elem.F64:
		return reuseKind(c, o, f64Elems())
	case kindA64:
		return reuseKind(c, o, a64Elems())
	case kindA512:
		return reuseKind(c, o, a512Elems())
	}
	return badKind(c.Elem)
}

func reuseKind[T comparable](c ReuseCase, o *vk.Obs, es *elems[T]) string {
	size, d, m := clampSize(c.Size), c.D, c.M
	if m < 24 {
		m = 24
	}
	if d < 20*size {
		d = 20*size + 1
	}
	elts, bad := es.upto(d)
	if bad != "" {
		return bad
	}
	ctr := distinct.NewCounter[T](size)
	counts := map[uint64]int{}
	var first uint64
	var sum float64
	for run := 0; run < m; run++ {
		ctr.Reset()
		if ctr.Len() != 0 || ctr.Count() != 0 {
			return fmt.Sprintf("after Reset (run %d) Len = %d, Count = %d, want 0", run, ctr.Len(), ctr.Count())
		}
		for v := 0; v < d; v++ {
			ctr.Add(elts[v])
		}
		got := ctr.Count()
		if run == 0 {
			first = got
		}
		counts[got]++
		sum += float64(got)
	}
	representable := false
	for k := uint64(1); k <= uint64(d); k <<= 1 {
		if uint64(d)%k == 0 && uint64(d)/k <= uint64(size) {
			representable = true
		}
	}
	if len(counts) == 1 && !representable {
		return fmt.Sprintf("size %d, stream of %d distinct values: %d runs on ONE counter separated by Reset all returned Count = %d; the mean over repeated runs is stuck at %d and cannot converge to %d (runs through Reset are not independent)", size, d, m, first, first, d)
	}
	if len(counts) > 1 {
		o.NonTrivial()
	}
	o.ClassIf(len(counts) >= 5, "runs_gave>=5_distinct_counts")
	o.Class("elem=" + kindName(c.Elem))
	return ""
}

// HugeCase: one counter with a buffer of several hundred thousand elements:
// Fill distinct values (exact regime when Fill < Size, otherwise the buffer
// has been halved at least once), Reset, then After distinct values.
//
// Elem is the element kind as in DetCase.  With the kinds of big elements
// (wide 88 bytes, a64 64 bytes, a512 512 bytes) the buffered elements take
// more than 4, 16 or 64 MiB while their number stays below Size.  Size may
// also be far beyond anything a stream can fill (2^31 .. MaxInt): such a
// counter is exact for ever.
type HugeCase struct {
	Size  int    `json:"size"`
	Fill  int    `json:"fill"`
	After int    `json:"after"`
	Elem  string `json:"elem,omitempty"`
}

func runHuge(c HugeCase, o *vk.Obs) string {
	switch c.Elem {
	case "":
		return hugeKind(c, o, plainInts())
	case elem.Int:
		return hugeKind(c, o, intElems())
	case elem.Str:
		return hugeKind(c, o, strElems())
	case elem.I16:
		return hugeKind(c, o, i16Elems())
	case elem.Wide:
		return hugeKind(c, o, wideElems())
	case elem.Ptr:
		return hugeKind(c, o, ptrElems())
	case elem.Any:
		return hugeKind(c, o, anyElems())
	case elem.F64:
		return hugeKind(c, o, f64Elems())
	case kindA64:
		return hugeKind(c, o, a64Elems())
	case kindA512:
		return hugeKind(c, o, a512Elems())
	case kindUnit:
		return hugeKind(c, o, unitElems())
	case kindZArr:
		return hugeKind(c, o, zarrElems())
	case kindZNest:
		return hugeKind(c, o, znestElems())
	case kindBool:
		return hugeKind(c, o, boolElems())
	case kindU8:
		return hugeKind(c, o, u8Elems())
	}
	return badKind(c.Elem)
}

func hugeKind[T comparable](c HugeCase, o *vk.Obs, es *elems[T]) string {
	size := clampSize(c.Size)
	// val is the element of stream value x.  The values after the Reset are
	// negative; for the kinds other than "" they stand for the stream values
	// that follow those of the fill, so they are new to the counter as well.
	val := es.of
	if es.kind != "" {
		base := max(c.Fill, 0)
		if most := base + max(min(c.After, size-1), 0); most-1 > es.max {
			return fmt.Sprintf("VK-INFRA %d distinct values do not fit the element kind %q (at most %d)", most, es.kind, es.max+1)
		}
		val = func(x int) T {
			if x < 0 {
				x = base + (-1 - x)
			}
			return es.of(x)
		}
	}
	// dist is the number of distinct elements among n consecutive stream values
	dist := func(n int) int {
		if es.card > 0 {
			return min(n, es.card)
		}
		return n
	}
	ctr := distinct.NewCounter[T](size)
	for v := 0; v < c.Fill; v++ {
		ctr.Add(val(v))
		if v%4096 == 0 || v == c.Fill-1 {
			if l := ctr.Len(); l > size {
				return fmt.Sprintf("size %d: after %d distinct values Len = %d exceeds the buffer size", size, dist(v+1), l)
			}
			if d := dist(v + 1); d < size {
				if l, n := ctr.Len(), ctr.Count(); l != d || n != uint64(d) {
					return fmt.Sprintf("size %d%s: after %d Adds of %d distinct values (fewer than the buffer size) Len = %d, Count = %d, want both %d", size, hugeElem(es), v+1, d, l, n, d)
				}
			}
		}
	}
	if l, n := ctr.Len(), ctr.Count(); l > 0 && (n%uint64(l) != 0 || (n/uint64(l))&(n/uint64(l)-1) != 0) {
		return fmt.Sprintf("size %d: after %d distinct values Count = %d is not Len = %d times a power of two", size, c.Fill, n, l)
	}
	ctr.Reset()
	if l, n := ctr.Len(), ctr.Count(); l != 0 || n != 0 {
		return fmt.Sprintf("size %d: Reset with %d values buffered leaves Len = %d, Count = %d, want 0, 0", size, min(c.Fill, size), l, n)
	}
	after := min(c.After, size-1)
	for v := 0; v < after; v++ {
		ctr.Add(val(-1 - v))
		ctr.Add(val(-1 - v/2))
	}
	if l, n := ctr.Len(), ctr.Count(); l != dist(after) || n != uint64(dist(after)) {
		return fmt.Sprintf("size %d%s: after Reset and %d distinct values (fewer than the buffer size) Len = %d, Count = %d, want both %d", size, hugeElem(es), dist(after), l, n, dist(after))
	}
	// bytes of element storage held at the Reset while the counter was exact
	var zero T
	var held uint64
	if c.Fill > 0 && c.Fill < size {
		held = uint64(dist(c.Fill)) * uint64(unsafe.Sizeof(zero))
	}
	if (c.Fill > 1<<18 && es.card == 0) || held > 4<<20 || (es.card > 0 && c.Fill > es.card) {
		o.NonTrivial()
	}
	o.ClassIf(unsafe.Sizeof(zero) == 0, "zero_size_element_type")
	o.ClassIf(dist(c.Fill) >= size, "buffer_halved_before_Reset")
	o.ClassIf(dist(c.Fill) > 1<<18, "more_than_2^18_values_buffered_at_Reset")
	o.ClassIf(held > 4<<20, "exact_with>4MiB_of_elements")
	o.ClassIf(held > 16<<20, "exact_with>16MiB_of_elements")
	o.ClassIf(held > 64<<20, "exact_with>64MiB_of_elements")
	o.ClassIf(size >= 1<<31, "size>=2^31")
	o.Class("elem=" + kindName(c.Elem))
	return ""
}

// hugeElem names the element type in the messages of the huge leg.
func hugeElem[T comparable](es *elems[T]) string {
	if es.kind == "" {
		return ""
	}
	var zero T
	return fmt.Sprintf(", %s elements of %d bytes", es.kind, unsafe.Sizeof(zero))
}
