package pdistinct

import (
	"fmt"
	"math"

	"github.com/creachadair/mds/distinct"
	"verif/vk"
)

// NaNCase: a Counter[float64] of buffer size Size receives N NaN values
// interleaved with the numbers 0, 1, 2, ...  A Go map can neither find nor
// delete a NaN key, so nothing is asserted about Len or Count here; the one
// thing every caller relies on is that Add RETURNS (the repair of F8 repeats
// the eviction pass "until the buffer has room", which undeletable keys never
// give it), and that Reset empties the counter whatever it holds.  A call
// that does not return is reported by the kit's watchdog.
type NaNCase struct {
	Size int `json:"size"`
	N    int `json:"n"`
	// Every Mix-th value is a number instead of a NaN (0 = NaNs only).
	Mix int `json:"mix,omitempty"`
}

func runNaN(c NaNCase, o *vk.Obs) string {
	size := clampSize(c.Size)
	n := min(max(c.N, 1), 1<<16)
	ctr := distinct.NewCounter[float64](size)
	for i := 0; i < n; i++ {
		if c.Mix > 0 && i%c.Mix == c.Mix-1 {
			ctr.Add(float64(i))
		} else {
			ctr.Add(math.NaN())
		}
	}
	ctr.Reset()
	if l, cnt := ctr.Len(), ctr.Count(); l != 0 || cnt != 0 {
		return fmt.Sprintf("Counter[float64] of size %d after %d values (NaNs among them) and Reset: Len = %d, Count = %d, want 0, 0", size, n, l, cnt)
	}
	if n >= size {
		o.NonTrivial()
	}
	o.ClassIf(n >= size, "as_many_NaN_values_as_the_buffer_holds")
	return ""
}
