package pseq

import (
	"fmt"
	"math"
	"strings"

	"github.com/creachadair/mds/mlink"
	"verif/elem"
	"verif/vk"
)

// ---------------------------------------------------------------------------
// mlink.List edited through several live cursors.
//
// Model: the list is a sequence of entry ids (each with a value); a cursor is
// modelled by the identity of its predecessor entry (0 = the list head, i.e.
// the cursor is at position 0).  A cursor denotes whatever follows its
// predecessor.  When the predecessor entry leaves the list - removed through
// another cursor, truncated away, or cleared - the cursor is STALE: that is
// exactly the set the documentation declares invalid ("cursors to the location
// after the element that was removed", "cursors to locations after c", "all
// cursors") minus the one case the implementation cannot and the property
// does not require to refuse: a cursor at position 0 after Clear (see clear).

// ListCase is a history for one list and up to nSlots cursors.
type ListCase struct {
	Ctor string `json:"ctor"`           // "zero" or "new"
	Elem string `json:"elem,omitempty"` // element kind (see kinds.go); "" = int
	Init int    `json:"init,omitempty"` // elements added up front through At(0).Add(vs...)
	Ops  []Op   `json:"ops"`
}

const (
	nSlots     = 5
	maxListLen = 160
	keyShift   = 12
	nKeys      = 6
)

type lcur[T any] struct {
	real  *mlink.Cursor[T]
	pred  int // id of the predecessor entry; 0 = list head
	stale bool
	why   string
}

type listRun[T any] struct {
	b      *bound[T]
	c      ListCase
	l      *mlink.List[T]
	ids    []int
	val    map[int]int
	nextID int
	serial int
	cur    [nSlots]*lcur[T]
	step   int

	// measurements
	staleUsed   int
	staleOps    map[string]int
	staleBy     map[string]int
	atEndOps    map[string]int
	sharedEdit  int // a structural edit was made where another valid cursor shares the location
	downstream  int // a structural edit upstream of another valid cursor that must survive it
	clearLimbo  map[string]int
	emptySlot   int
	reSet       int // Set of a NEW element whose value equals the one it replaces
	skippedFull int
	maxLen      int
	bigPeeks    int // bigPeek ops (seqbig.go)
}

func (r *listRun[T]) vals() []int {
	out := make([]int, len(r.ids))
	for i, id := range r.ids {
		out[i] = r.val[id]
	}
	return out
}

func vstr(v int) string {
	if v == 0 {
		return "0"
	}
	return fmt.Sprintf("k%d#%d", v>>keyShift, v&(1<<keyShift-1))
}

func vsstr(vs []int) string {
	var sb strings.Builder
	sb.WriteByte('[')
	for i, v := range vs {
		if i > 0 {
			sb.WriteByte(' ')
		}
		if i >= 24 {
			fmt.Fprintf(&sb, "…(%d)", len(vs))
			break
		}
		sb.WriteString(vstr(v))
	}
	sb.WriteByte(']')
	return sb.String()
}

func (r *listRun[T]) errf(format string, args ...any) string {
	var cs []string
	for i, c := range r.cur {
		switch {
		case c == nil:
		case c.stale:
			cs = append(cs, fmt.Sprintf("c%d:stale(%s)", i, c.why))
		default:
			cs = append(cs, fmt.Sprintf("c%d@%d", i, r.pos(c)))
		}
	}
	return fmt.Sprintf("mlink.List %s: %s  [reference list %s; cursors %s]%s", opCtx(r.step, r.c.Ops),
		fmt.Sprintf(format, args...), r.b.wants(r.vals()), strings.Join(cs, " "), r.b.note())
}

func (r *listRun[T]) newValue(key int) int {
	r.serial++
	return (abs(key)%nKeys)<<keyShift | r.serial
}

func (r *listRun[T]) idx(id int) int {
	for i, x := range r.ids {
		if x == id {
			return i
		}
	}
	return -1
}

// pos is the index of the cursor's target (len(ids) = end of list).
func (r *listRun[T]) pos(c *lcur[T]) int {
	if c.pred == 0 {
		return 0
	}
	return r.idx(c.pred) + 1
}

func (r *listRun[T]) atEnd(c *lcur[T]) bool { return r.pos(c) == len(r.ids) }

// target returns the id at the cursor's location (0 at the end).
func (r *listRun[T]) target(c *lcur[T]) int {
	p := r.pos(c)
	if p == len(r.ids) {
		return 0
	}
	return r.ids[p]
}

func (r *listRun[T]) insertAt(p int, v int) int {
	r.nextID++
	id := r.nextID
	r.val[id] = v
	r.ids = append(r.ids, 0)
	copy(r.ids[p+1:], r.ids[p:])
	r.ids[p] = id
	return id
}

// noteEdit classifies a structural edit made through c at its location.
func (r *listRun[T]) noteEdit(c *lcur[T]) {
	p := r.pos(c)
	for _, d := range r.cur {
		if d == nil || d == c || d.stale {
			continue
		}
		if d.pred == c.pred {
			r.sharedEdit++
		} else if r.pos(d) > p {
			r.downstream++
		}
	}
}

// markStale flags every live cursor whose predecessor is one of removed.
func (r *listRun[T]) markStale(removed []int, why string) {
	for _, d := range r.cur {
		if d == nil || d.stale || d.pred == 0 {
			continue
		}
		for _, id := range removed {
			if d.pred == id {
				d.stale, d.why = true, why
				r.staleBy[why]++
				break
			}
		}
	}
	for _, id := range removed {
		delete(r.val, id)
	}
}

func isInvalidCursor(pv any) bool {
	return pv != nil && strings.Contains(fmt.Sprint(pv), "invalid cursor")
}

// mustRefuse runs one method of a stale cursor: it has to panic with "invalid
// cursor".  (That it returns at all is the watchdog's business; that the list
// is unchanged is checked by after.)
func (r *listRun[T]) mustRefuse(slot int, c *lcur[T], name string, f func()) string {
	pv := vk.PanicValue(f)
	if pv == nil {
		return r.errf("%s on cursor c%d returned normally although the cursor is invalid (its predecessor entry left the list by %s); every use must panic with \"invalid cursor\"", name, slot, c.why)
	}
	if !isInvalidCursor(pv) {
		return r.errf("%s on invalid cursor c%d (stale by %s) panicked with %q, want a panic mentioning \"invalid cursor\"", name, slot, c.why, fmt.Sprint(pv))
	}
	return ""
}

// after is the oracle run after every operation.
func (r *listRun[T]) after() string {
	n := len(r.ids)
	if n > r.maxLen {
		r.maxLen = n
	}
	// 1. stale cursors refuse the two read-only methods (the mutating ones are
	// exercised as operations of the history).
	for i, c := range r.cur {
		if c == nil || !c.stale {
			continue
		}
		if msg := r.mustRefuse(i, c, "AtEnd", func() { c.real.AtEnd() }); msg != "" {
			return msg
		}
		if msg := r.mustRefuse(i, c, "Get", func() { c.real.Get() }); msg != "" {
			return msg
		}
	}
	// 2. the list itself
	want := r.vals()
	if got := r.l.IsEmpty(); got != (n == 0) {
		return r.errf("IsEmpty = %v, reference has %d elements", got, n)
	}
	got := make([]T, 0, n)
	r.l.Each(func(v T) bool { got = append(got, v); return len(got) < n+8 })
	if !r.b.eq(got, want) {
		return r.errf("Each lists %s, want the reference list", r.b.list(got))
	}
	if got := r.l.Len(); got != n {
		return r.errf("Len = %d, reference has %d elements", got, n)
	}
	for _, k := range []int{0, n - 1, n, n + 1} {
		if k >= 0 {
			if msg := r.checkPeek(k); msg != "" {
				return msg
			}
		}
	}
	// 3. every valid cursor: AtEnd, Get, and its position (the rest of the
	// list as seen by walking a copy of the cursor to the end).
	for i, c := range r.cur {
		if c == nil || c.stale {
			continue
		}
		p := r.pos(c)
		if got := c.real.AtEnd(); got != (p == n) {
			return r.errf("cursor c%d: AtEnd = %v, want %v (cursor is at index %d of %d)", i, got, p == n, p, n)
		}
		wantV := 0
		if p < n {
			wantV = want[p]
		}
		if got := c.real.Get(); !r.b.is(got, wantV) {
			return r.errf("cursor c%d: Get = %s, want %s (cursor is at index %d)", i, r.b.show(got), r.b.want(wantV), p)
		}
		walk := *c.real
		rest := make([]T, 0, n-p)
		for !walk.AtEnd() && len(rest) < n+8 {
			rest = append(rest, walk.Get())
			walk.Next()
		}
		if !r.b.eq(rest, want[p:]) {
			return r.errf("cursor c%d: walking Next to the end from its position (index %d) lists %s, want %s", i, p, r.b.list(rest), r.b.wants(want[p:]))
		}
	}
	return ""
}

func (r *listRun[T]) checkPeek(k int) string {
	got, ok := r.l.Peek(k)
	if k >= len(r.ids) {
		if ok {
			return r.errf("Peek(%d) = (%s, true) on a list of %d elements, want ok = false", k, r.b.show(got), len(r.ids))
		}
		return ""
	}
	want := r.val[r.ids[k]]
	if !ok || !r.b.is(got, want) {
		return r.errf("Peek(%d) = (%s, %v), want (%s, true)", k, r.b.show(got), ok, r.b.want(want))
	}
	return ""
}

// ---- cursor operations -------------------------------------------------------

func (r *listRun[T]) modelAdd(c *lcur[T], vs []int) {
	for _, v := range vs {
		c.pred = r.insertAt(r.pos(c), v)
	}
}

// cursorOp applies op to the cursor in its slot.
func (r *listRun[T]) cursorOp(op Op) string {
	slot := abs(op.C) % nSlots
	c := r.cur[slot]
	if c == nil {
		r.emptySlot++
		return ""
	}
	a := abs(op.A)
	if c.stale {
		// Every method must refuse.  Values that would be inserted are fresh
		// so that an insertion that does happen is visible in the list.
		var msg string
		switch op.K {
		case "get":
			msg = r.mustRefuse(slot, c, "Get", func() { c.real.Get() })
		case "atend":
			msg = r.mustRefuse(slot, c, "AtEnd", func() { c.real.AtEnd() })
		case "next":
			msg = r.mustRefuse(slot, c, "Next", func() { c.real.Next() })
		case "set":
			msg = r.mustRefuse(slot, c, "Set", func() { c.real.Set(r.b.in(r.newValue(op.B))) })
		case "push":
			msg = r.mustRefuse(slot, c, "Push", func() { c.real.Push(r.b.in(r.newValue(op.B))) })
		case "add":
			k := a%3 + 1
			vs := make([]int, k)
			for i := range vs {
				vs[i] = r.newValue(op.B + i)
			}
			msg = r.mustRefuse(slot, c, fmt.Sprintf("Add(%d values)", k), func() { c.real.Add(r.b.ins(vs)...) })
		case "remove":
			msg = r.mustRefuse(slot, c, "Remove", func() { c.real.Remove() })
		case "trunc":
			msg = r.mustRefuse(slot, c, "Truncate", func() { c.real.Truncate() })
		default:
			return r.errf("VK-INFRA unknown cursor op %q", op.K)
		}
		r.staleUsed++
		r.staleOps[op.K]++
		return msg
	}
	end := r.atEnd(c)
	if end {
		r.atEndOps[op.K]++
	}
	switch op.K {
	case "get", "atend":
		// part of the comparison after every step
	case "next":
		moved := !end
		if moved {
			c.pred = r.target(c)
		}
		want := moved && !r.atEnd(c)
		if got := c.real.Next(); got != want {
			return r.errf("cursor c%d: Next = %v, want %v", slot, got, want)
		}
	case "set":
		v := r.newValue(op.B)
		if end {
			if len(r.ids) >= maxListLen {
				r.skippedFull++
				return ""
			}
			r.noteEdit(c)
			r.insertAt(len(r.ids), v) // Set at the end is Push
		} else {
			if a%2 == 1 {
				// Set of an element that equals the one it replaces in value but
				// is a different element (for the pointer-like kinds: a new
				// allocation with the same contents).  The list must hold the
				// element that was set, not the one that was there.
				v = r.val[r.target(c)]
				r.reSet++
			}
			r.val[r.target(c)] = v
		}
		c.real.Set(r.b.in(v))
	case "push":
		if len(r.ids) >= maxListLen {
			r.skippedFull++
			return ""
		}
		v := r.newValue(op.B)
		r.noteEdit(c)
		r.insertAt(r.pos(c), v)
		c.real.Push(r.b.in(v))
	case "add":
		k := a % 4    // 0..3 values; Add() with no values inserts nothing
		if a >= 180 { // one call with dozens of values (variadic arity around 16/32/64)
			k = []int{15, 16, 17, 31, 32, 33, 40, 64, 65}[a%9]
		}
		if len(r.ids)+k > maxListLen {
			r.skippedFull++
			return ""
		}
		vs := make([]int, k)
		for i := range vs {
			vs[i] = r.newValue(op.B + i)
		}
		if k > 0 {
			r.noteEdit(c)
		}
		r.modelAdd(c, vs)
		c.real.Add(r.b.ins(vs)...)
	case "remove":
		want := 0
		if !end {
			r.noteEdit(c)
			t := r.target(c)
			want = r.val[t]
			p := r.pos(c)
			r.ids = append(r.ids[:p], r.ids[p+1:]...)
			r.markStale([]int{t}, "Remove")
		}
		if got := c.real.Remove(); !r.b.is(got, want) {
			return r.errf("cursor c%d: Remove returned %s, want %s", slot, r.b.show(got), r.b.want(want))
		}
	case "trunc":
		if !end {
			r.noteEdit(c)
			p := r.pos(c)
			removed := append([]int(nil), r.ids[p:]...)
			r.ids = r.ids[:p]
			r.markStale(removed, "Truncate")
		}
		c.real.Truncate()
	default:
		return r.errf("VK-INFRA unknown cursor op %q", op.K)
	}
	return ""
}

// place records a freshly obtained cursor in slot.
func (r *listRun[T]) place(slot int, real *mlink.Cursor[T], p int) string {
	if real == nil {
		return r.errf("the list returned a nil cursor")
	}
	c := &lcur[T]{real: real}
	if p > len(r.ids) {
		p = len(r.ids)
	}
	if p > 0 {
		c.pred = r.ids[p-1]
	}
	r.cur[slot] = c
	return ""
}

func (r *listRun[T]) clear() {
	removed := append([]int(nil), r.ids...)
	r.l.Clear()
	r.ids = nil
	r.markStale(removed, "Clear")
	// A cursor at position 0 hangs off the list head, which Clear cannot mark.
	// The documentation says Clear invalidates ALL cursors; the property only
	// requires refusal of cursors positioned AFTER a removed element.  So for
	// these cursors both behaviours are accepted, decided once by a probe:
	// refuse (then it is stale from now on) or keep working (then it must
	// behave as a valid cursor at position 0 of the now empty list).
	for _, d := range r.cur {
		if d == nil || d.stale || d.pred != 0 {
			continue
		}
		if pv := vk.PanicValue(func() { d.real.AtEnd() }); isInvalidCursor(pv) {
			d.stale, d.why = true, "Clear"
			r.clearLimbo["front_cursor_refuses_after_Clear"]++
		} else {
			r.clearLimbo["front_cursor_survives_Clear"]++
		}
	}
}

func (r *listRun[T]) apply(op Op) string {
	a := abs(op.A)
	n := len(r.ids)
	slot := abs(op.C) % nSlots
	switch op.K {
	case "at":
		p := a % (n + 3)
		return r.place(slot, r.l.At(p), p)
	case "find":
		key := a % nKeys
		p := n
		for i, id := range r.ids {
			if r.val[id]>>keyShift == key {
				p = i
				break
			}
		}
		return r.place(slot, r.l.Find(func(v T) bool { return r.b.out(v)>>keyShift == key }), p)
	case "last":
		p := n - 1
		if n == 0 {
			p = 0
		}
		return r.place(slot, r.l.Last(), p)
	case "end":
		return r.place(slot, r.l.End(), n)
	case "drop":
		r.cur[slot] = nil
		return ""
	case "clear":
		r.clear()
		return ""
	case "bigPeek":
		return r.bigPeek(a, abs(op.B), abs(op.C))
	case "peek":
		if a >= 190 { // offsets at the end of the int range
			ext := []int{math.MaxInt, math.MaxInt - 1, math.MaxInt - n, 1 << 31, 1 << 32}
			return r.checkPeek(ext[a%len(ext)])
		}
		return r.checkPeek(a % (n + 3))
	case "peekNeg":
		k := -(a%3 + 1)
		if a >= 190 {
			k = []int{math.MinInt, math.MinInt + 1, -1 << 32, -math.MaxInt}[a%4]
		}
		if pv := vk.PanicValue(func() { r.l.Peek(k) }); pv == nil {
			return r.errf("Peek(%d) returned; the documentation says Peek panics if n < 0", k)
		}
		return ""
	case "atNeg":
		k := -(a%3 + 1)
		if a >= 190 {
			k = []int{math.MinInt, math.MinInt + 1, -1 << 32, -math.MaxInt}[a%4]
		}
		if pv := vk.PanicValue(func() { r.l.At(k) }); pv == nil {
			return r.errf("At(%d) returned; the documentation says At panics if n < 0", k)
		}
		return ""
	case "len":
		return "" // Len, IsEmpty, Each are compared after every step
	case "each":
		if n == 0 {
			return ""
		}
		j := a%n + 1
		var got []T
		r.l.Each(func(v T) bool { got = append(got, v); return len(got) < j })
		if len(got) != j {
			return r.errf("Each made %d callbacks although the callback returned false at #%d", len(got), j)
		}
		if !r.b.eq(got, r.vals()[:j]) {
			return r.errf("Each (stopped at %d) lists %s", j, r.b.list(got))
		}
		// a second Each from inside the callback of the first, at element j
		var outer, inner []T
		r.l.Each(func(v T) bool {
			if outer = append(outer, v); len(outer) == j {
				r.l.Each(func(w T) bool { inner = append(inner, w); return true })
			}
			return true
		})
		if !r.b.eq(outer, r.vals()) || !r.b.eq(inner, r.vals()) {
			return r.errf("Each with a second Each run inside its callback (at element %d) lists %s and %s", j, r.b.list(outer), r.b.list(inner))
		}
		return ""
	}
	return r.cursorOp(op)
}

// runList instantiates the interpreter with the case's element kind.
func runList(c ListCase, o *vk.Obs) string {
	elem.ResetPtr()
	switch c.Elem {
	case "", elem.Int:
		return runListOf(c, o, cmpBound(elem.IntKit()))
	case elem.Str:
		return runListOf(c, o, cmpBound(elem.StrKit()))
	case elem.I16:
		return runListOf(c, o, cmpBound(elem.I16Kit()))
	case elem.Wide:
		return runListOf(c, o, cmpBound(elem.WideKit()))
	case elem.Ptr:
		return runListOf(c, o, cmpBound(elem.PtrKit()))
	case elem.Any:
		return runListOf(c, o, cmpBound(elem.AnyKit()))
	case elem.Bytes:
		return runListOf(c, o, bytesBound())
	}
	return badKind(c.Elem)
}

func runListOf[T any](c ListCase, o *vk.Obs, b *bound[T]) string {
	b.fmtV, b.fmtVs = vstr, vsstr
	r := &listRun[T]{b: b, c: c, step: -1, val: map[int]int{}, staleOps: map[string]int{}, staleBy: map[string]int{},
		atEndOps: map[string]int{}, clearLimbo: map[string]int{}}
	switch c.Ctor {
	case "zero":
		var l mlink.List[T]
		r.l = &l
	case "new":
		r.l = mlink.NewList[T]()
	default:
		return r.errf("VK-INFRA unknown constructor %q", c.Ctor)
	}
	ctx := r.errf
	if msg := guarded(ctx, func() string {
		if k := min(abs(c.Init), maxListLen); k > 0 {
			vs := make([]int, k)
			for i := range vs {
				vs[i] = r.newValue(i)
			}
			tmp := &lcur[T]{real: r.l.At(0)}
			r.modelAdd(tmp, vs)
			tmp.real.Add(r.b.ins(vs)...)
		}
		return r.after()
	}); msg != "" {
		return msg
	}
	for i, op := range c.Ops {
		o.Step() // interleaved execution (vk.Interleave) switches to the other case here
		r.step = i
		if msg := guarded(ctx, func() string {
			if m := r.apply(op); m != "" {
				return m
			}
			return r.after()
		}); msg != "" {
			return msg
		}
	}
	if r.staleUsed > 0 {
		o.NonTrivial()
	}
	o.Class("ctor=" + c.Ctor)
	o.Class("elem=" + kindName(c.Elem))
	o.ClassIf(r.reSet > 0, "set_of_new_element_with_the_value_it_replaces")
	for k, v := range r.staleBy {
		o.ClassIf(v > 0, "cursor_made_stale_by_"+k)
	}
	for k, v := range r.staleOps {
		o.ClassIf(v > 0, "stale_cursor_used:"+k)
	}
	for k, v := range r.atEndOps {
		o.ClassIf(v > 0, "valid_cursor_at_end:"+k)
	}
	for k, v := range r.clearLimbo {
		o.ClassIf(v > 0, k)
	}
	o.ClassIf(r.sharedEdit > 0, "edit_where_another_cursor_shares_the_location")
	o.ClassIf(r.downstream > 0, "edit_upstream_of_a_cursor_that_stays_valid")
	o.ClassIf(r.maxLen >= 16, "len>=16")
	o.ClassIf(r.bigPeeks > 0, "big_container_Peek_probes")
	o.ClassIf(r.skippedFull > 0, "insert_skipped_at_len_64")
	return ""
}
