package pseq

import (
	"fmt"
	"strconv"
	"strings"

	"verif/elem"
)

// ---------------------------------------------------------------------------
// Element kinds.  The four interpreters keep their reference models in ints,
// exactly as they did when the containers were instantiated with int only; a
// bound converts at the library boundary.  Every model value v != 0 stands for
// ONE element: the one made for it most recently (in).  Model value 0 stands
// for the zero value of T (what Top/Front/Get/Remove return when there is
// nothing, and what ring.New puts into its elements).  An element that comes
// back from the library is compared with is: same V, and - for the kinds that
// carry an identity - the very element that was handed in (Kit.Same: the
// pointer for "ptr"/"any", the backing array for "bytes", V and ID for
// "string"/"wide").

// elemKinds are the kinds the generators draw besides "" (= int).
var elemKinds = []string{elem.Ptr, elem.Bytes, elem.Str, elem.Any, elem.Wide, elem.I16}

type made[T any] struct {
	e  T
	id int
}

type bound[T any] struct {
	k        elem.Kit[T]
	zero     func(T) bool    // is x the zero value of T
	held     map[int]made[T] // model value -> the element made for it most recently
	nid      int
	immut    bool               // equal (==) elements of T cannot differ in V: "string", "wide"
	scribble T                  // what the stack leg writes over a returned Slice
	fmtV     func(int) string   // how a model value is shown in messages
	fmtVs    func([]int) string // ... and a list of them (kinds without identity)
}

func isZeroCmp[T comparable](x T) bool { var z T; return x == z }

func newBound[T any](k elem.Kit[T], zero func(T) bool) *bound[T] {
	return &bound[T]{k: k, zero: zero, held: map[int]made[T]{}, immut: k.Kind == elem.Str || k.Kind == elem.Wide,
		scribble: k.Make(-777, 0), fmtV: strconv.Itoa, fmtVs: brief}
}

func cmpBound[T comparable](k elem.Kit[T]) *bound[T] { return newBound(k, isZeroCmp[T]) }

func bytesBound() *bound[[]byte] {
	return newBound(elem.BytesKit(), func(b []byte) bool { return b == nil })
}

// kindName is the label of the elem=<kind> class.
func kindName(e string) string {
	if e == "" {
		return elem.Int
	}
	return e
}

func badKind(e string) string {
	return fmt.Sprintf("VK-INFRA unknown element kind %q", e)
}

// in makes the element that stands for model value v from now on.  Every call
// gives it a new identity: for "ptr"/"any"/"bytes" a new allocation whose
// contents equal those of any earlier element of the same v.
func (b *bound[T]) in(v int) T {
	b.nid++
	e := b.k.Make(v, b.nid)
	b.held[v] = made[T]{e, b.nid}
	return e
}

func (b *bound[T]) ins(vs []int) []T {
	out := make([]T, len(vs))
	for i, v := range vs {
		out[i] = b.in(v)
	}
	return out
}

// out is the model value of an element that came back (0 for a zero T).
func (b *bound[T]) out(x T) int {
	if b.zero(x) {
		return 0
	}
	return b.k.V(x)
}

func (b *bound[T]) outs(xs []T) []int {
	out := make([]int, len(xs))
	for i, x := range xs {
		out[i] = b.out(x)
	}
	return out
}

// is reports whether x is the element that stands for model value want.
func (b *bound[T]) is(x T, want int) bool {
	if want == 0 || b.zero(x) {
		return want == 0 && b.zero(x)
	}
	if !b.k.HasID {
		return b.k.V(x) == want
	}
	h, ok := b.held[want]
	if !ok || !b.k.Same(x, h.e) {
		return false
	}
	// the same element; its contents can only differ from what was made if
	// they are reachable through it ("ptr", "any", "bytes")
	return b.immut || b.k.V(x) == want
}

func (b *bound[T]) eq(xs []T, want []int) bool {
	if len(xs) != len(want) {
		return false
	}
	for i, x := range xs {
		if !b.is(x, want[i]) {
			return false
		}
	}
	return true
}

// same reports whether x and y are one and the same element (or both zero).
func (b *bound[T]) same(x, y T) bool {
	if b.zero(x) || b.zero(y) {
		return b.zero(x) && b.zero(y)
	}
	return b.k.Same(x, y)
}

func (b *bound[T]) sameAll(xs, ys []T) bool {
	if len(xs) != len(ys) {
		return false
	}
	for i := range xs {
		if !b.same(xs[i], ys[i]) {
			return false
		}
	}
	return true
}

// show renders an element for a message: its V, and "@ID" for the kinds with
// an identity ("@?" = not an element the harness made).
func (b *bound[T]) show(x T) string {
	if b.zero(x) {
		if b.k.HasID {
			return "zero"
		}
		return b.fmtV(0)
	}
	v := b.k.V(x)
	s := b.fmtV(v)
	if b.k.HasID {
		id := b.k.ID(x)
		if id >= 0 {
			s += "@" + strconv.Itoa(id)
		} else {
			s += "@?"
		}
		if h, ok := b.held[v]; ok && h.id == id && !b.k.Same(x, h.e) {
			s += "(a copy of it, not the element itself)"
		}
	}
	return s
}

// want renders the element that stands for model value v.
func (b *bound[T]) want(v int) string {
	if v == 0 && b.k.HasID {
		return "zero"
	}
	s := b.fmtV(v)
	if b.k.HasID {
		s += "@" + strconv.Itoa(b.held[v].id)
	}
	return s
}

func joinBrief(n int, f func(i int) string) string {
	var sb strings.Builder
	sb.WriteByte('[')
	for i := 0; i < n; i++ {
		if i > 0 {
			sb.WriteByte(' ')
		}
		if i >= 24 {
			fmt.Fprintf(&sb, "…(%d)", n)
			break
		}
		sb.WriteString(f(i))
	}
	sb.WriteByte(']')
	return sb.String()
}

func (b *bound[T]) list(xs []T) string {
	if !b.k.HasID {
		return b.fmtVs(b.outs(xs))
	}
	return joinBrief(len(xs), func(i int) string { return b.show(xs[i]) })
}

func (b *bound[T]) wants(vs []int) string {
	if !b.k.HasID {
		return b.fmtVs(vs)
	}
	return joinBrief(len(vs), func(i int) string { return b.want(vs[i]) })
}

func (b *bound[T]) note() string {
	if b.k.HasID {
		return " [element kind " + b.k.Kind + ": shown as value@identity]"
	}
	if b.k.Kind != elem.Int {
		return " [element kind " + b.k.Kind + "]"
	}
	return ""
}
