package pseq

import (
	"testing"

	"pgregory.net/rapid"
	"verif/elem"
	"verif/vk"
)

func init() {
	vk.Register("C10", "stack", runStack)
	vk.Register("C10", "mqueue", runMQueue)
	vk.Register("C10", "list", runList)
	vk.Register("C10", "ring", runRing)
	vk.Register("C10", "ringbig", runRing)
	vk.Register("C10", "listbig", runListBig)
}

func genCtor(t *rapid.T) string { return rapid.SampledFrom([]string{"zero", "new"}).Draw(t, "ctor") }

// genElem draws the element kind: half of the cases keep int (""), the rest
// are spread over the other kinds (all four containers admit any type).  A
// failing case shrinks towards int, so a counterexample that names another
// kind needs that kind.
func genElem(t *rapid.T) string {
	if !rapid.Bool().Draw(t, "otherElem") {
		return ""
	}
	return rapid.SampledFrom(elemKinds).Draw(t, "elem")
}

// hasIdentity: equal-valued elements of this kind can be told apart.
func hasIdentity(kind string) bool { return kind != "" && kind != elem.Int && kind != elem.I16 }

func genOps(t *rapid.T, kinds []string, maxOps int, fill func(t *rapid.T, op *Op)) []Op {
	return rapid.SliceOfN(rapid.Custom(func(t *rapid.T) Op {
		op := Op{K: rapid.SampledFrom(kinds).Draw(t, "kind")}
		fill(t, &op)
		return op
	}), 0, maxOps).Draw(t, "ops")
}

// bigPeekOp is the rare large shape of the stack, queue and list legs: Peek at
// large offsets of one long container beside the one under test (seqbig.go).
func bigPeekOp(t *rapid.T) Op {
	size := rapid.OneOf(rapid.SampledFrom(bigSizes), rapid.SampledFrom(bigSizes), rapid.IntRange(1, 6000)).Draw(t, "bigPeekSize")
	return Op{K: "bigPeek", A: size, B: rapid.IntRange(0, 1<<30).Draw(t, "bigPeekSeed"), C: rapid.IntRange(0, 3).Draw(t, "bigPeekExtra")}
}

// ---- stack -------------------------------------------------------------------

var stackKinds = []string{
	"push", "push", "push", "add", "add", "pop", "pop", "pop", "top", "peek", "peek", "peekNeg",
	"each", "len", "slice", "clear", "pushRun", "pushRun", "popRun",
}

// splice inserts blk as a contiguous block at a drawn position of ops.
func splice(t *rapid.T, ops []Op, blk ...Op) []Op {
	pos := rapid.IntRange(0, len(ops)).Draw(t, "pos")
	return append(ops[:pos:pos], append(blk, ops[pos:]...)...)
}

func genStackCase(t *rapid.T) SeqCase {
	c := SeqCase{Ctor: genCtor(t), Elem: genElem(t), Ops: genOps(t, stackKinds, 60, func(t *rapid.T, op *Op) {
		switch op.K {
		case "peek", "peekNeg", "each", "pushRun", "popRun":
			op.A = rapid.IntRange(0, 200).Draw(t, "a")
		}
	})}
	if rapid.IntRange(0, 3).Draw(t, "structured") > 0 {
		// grow, pop part of it, push onto the vacated slots, then look beyond both ends
		k := rapid.IntRange(2, 11).Draw(t, "grow")
		c.Ops = splice(t, c.Ops,
			Op{K: "pushRun", A: k}, Op{K: "popRun", A: rapid.IntRange(0, k-2).Draw(t, "shrink")},
			Op{K: rapid.SampledFrom([]string{"push", "add"}).Draw(t, "again")},
			Op{K: rapid.SampledFrom([]string{"peek", "peekNeg"}).Draw(t, "look"), A: rapid.IntRange(0, 200).Draw(t, "la")})
	}
	if vk.Rare(t, "bigPeek", 16) {
		c.Ops = splice(t, c.Ops, bigPeekOp(t))
	}
	return c
}

func TestC10Stack(t *testing.T) {
	h := vk.Start(t, "C10", "stack")
	vk.Rapid(h, t, genStackCase, runStack)
}

// ---- mlink.Queue -------------------------------------------------------------

var mqKinds = []string{
	"add", "add", "add", "add", "pop", "pop", "pop", "front", "peek", "peek", "peekNeg",
	"each", "len", "clear", "addRun", "addRun", "popAll", "popAll",
}

func genMQueueCase(t *rapid.T) SeqCase {
	c := SeqCase{Ctor: genCtor(t), Elem: genElem(t), Ops: genOps(t, mqKinds, 60, func(t *rapid.T, op *Op) {
		switch op.K {
		case "peek", "peekNeg", "each", "addRun", "popAll":
			op.A = rapid.IntRange(0, 200).Draw(t, "a")
		}
	})}
	if rapid.IntRange(0, 3).Draw(t, "structured") > 1 {
		// the queue caches a cursor at its tail: empty it (by popping or by
		// Clear), then Add again and read everything back
		empty := Op{K: rapid.SampledFrom([]string{"popAll", "popAll", "clear"}).Draw(t, "empty"), A: rapid.IntRange(0, 1).Draw(t, "extraPop")}
		c.Ops = splice(t, c.Ops, Op{K: "addRun", A: rapid.IntRange(0, 6).Draw(t, "fill")}, empty,
			Op{K: "add"}, Op{K: "add"}, Op{K: "pop"})
	}
	if vk.Rare(t, "bigPeek", 16) {
		c.Ops = splice(t, c.Ops, bigPeekOp(t))
	}
	return c
}

func TestC10MQueue(t *testing.T) {
	h := vk.Start(t, "C10", "mqueue")
	vk.Rapid(h, t, genMQueueCase, runMQueue)
}

// ---- mlink.List ----------------------------------------------------------------

var cursorOps = []string{"get", "set", "push", "add", "remove", "trunc", "next", "atend"}

var listKinds = []string{
	"at", "at", "at", "at", "find", "find", "last", "end", "drop",
	"get", "set", "set", "push", "push", "add", "add", "add", "remove", "remove", "remove", "trunc", "next", "next", "next", "atend",
	"clear", "peek", "peekNeg", "atNeg", "len", "each",
}

// fillListOp draws the arguments of op; reSet is the chance (out of 8) that a
// Set supplies a new element equal in value to the one it replaces.
func fillListOp(t *rapid.T, op *Op, reSet int) {
	switch op.K {
	case "at", "find", "last", "end", "drop", "get", "set", "push", "add", "remove", "trunc", "next", "atend":
		op.C = rapid.IntRange(0, nSlots-1).Draw(t, "slot")
	}
	switch op.K {
	case "at", "peek":
		// small offsets are meaningful positions; large ones hit the end
		op.A = rapid.OneOf(rapid.IntRange(0, 9), rapid.IntRange(0, 200)).Draw(t, "a")
	case "find":
		op.A = rapid.IntRange(0, nKeys-1).Draw(t, "key")
	case "add", "peekNeg", "atNeg", "each":
		op.A = rapid.IntRange(0, 200).Draw(t, "a")
	case "set":
		if rapid.IntRange(0, 7).Draw(t, "reSet") < reSet {
			op.A = 1
		}
	}
	switch op.K {
	case "set", "push", "add":
		op.B = rapid.IntRange(0, nKeys-1).Draw(t, "key")
	}
}

func genListCase(t *rapid.T) ListCase {
	c := ListCase{Ctor: genCtor(t), Elem: genElem(t), Init: rapid.IntRange(0, 9).Draw(t, "init")}
	// With a kind that has an identity, half of the Sets replace an element by
	// a different one of the same value (pointer kinds: a new allocation with
	// equal contents); with int that Set is unobservable, so it is rare there.
	reSet := 1
	if hasIdentity(c.Elem) {
		reSet = 4
	}
	c.Ops = genOps(t, listKinds, 50, func(t *rapid.T, op *Op) { fillListOp(t, op, reSet) })
	// Construction instead of rejection: splice in the three ways a cursor
	// becomes stale (another cursor's Remove, an upstream Truncate, Clear),
	// each followed by a use of the stale cursor.  Positions are small so they
	// are real positions of the initial list in most cases.
	for k := rapid.IntRange(0, 2).Draw(t, "scenarios"); k > 0; k-- {
		a := rapid.IntRange(0, nSlots-1).Draw(t, "sa")
		b := (a + rapid.IntRange(1, nSlots-1).Draw(t, "sb")) % nSlots
		i := rapid.IntRange(0, 6).Draw(t, "si")
		use := Op{K: rapid.SampledFrom(cursorOps).Draw(t, "use"), C: b}
		fillUse := func() Op {
			u := use
			if u.K == "add" {
				u.A = rapid.IntRange(0, 200).Draw(t, "ua")
			}
			return u
		}
		var blk []Op
		switch rapid.IntRange(0, 3).Draw(t, "how") {
		case 0: // b sits just after the element that a removes
			blk = []Op{{K: "at", C: a, A: i}, {K: "at", C: b, A: i + 1}, {K: "remove", C: a}, fillUse()}
		case 1: // b sits somewhere after the point where a truncates
			blk = []Op{{K: "at", C: a, A: i}, {K: "at", C: b, A: i + 1 + rapid.IntRange(0, 3).Draw(t, "gap")}, {K: "trunc", C: a}, fillUse()}
		case 2: // the list is cleared under b
			blk = []Op{{K: "at", C: b, A: i + 1}, {K: "clear"}, fillUse()}
		default: // b was moved there by Next, a was obtained by Find/Last
			blk = []Op{{K: "last", C: a}, {K: "last", C: b}, {K: "next", C: b}, {K: "remove", C: a}, fillUse()}
		}
		if rapid.Bool().Draw(t, "twice") {
			blk = append(blk, Op{K: rapid.SampledFrom(cursorOps).Draw(t, "use2"), C: b})
		}
		c.Ops = splice(t, c.Ops, blk...)
	}
	// Likewise by construction: a cursor at a real element (a small index, the
	// last element, or a found key) and a Set through it of a new element with
	// the value of the one it replaces; sometimes twice, or followed by a Set of
	// a fresh value.
	maxReSets := 1
	if hasIdentity(c.Elem) {
		maxReSets = 2
	}
	for k := rapid.IntRange(0, maxReSets).Draw(t, "reSets"); k > 0; k-- {
		s := rapid.IntRange(0, nSlots-1).Draw(t, "rs")
		var blk []Op
		switch rapid.IntRange(0, 2).Draw(t, "rhow") {
		case 0:
			blk = []Op{{K: "at", C: s, A: rapid.IntRange(0, 6).Draw(t, "ri")}}
		case 1:
			blk = []Op{{K: "last", C: s}}
		default:
			blk = []Op{{K: "find", C: s, A: rapid.IntRange(0, nKeys-1).Draw(t, "rkey")}}
		}
		blk = append(blk, Op{K: "set", C: s, A: 1})
		switch rapid.IntRange(0, 3).Draw(t, "rthen") {
		case 0:
			blk = append(blk, Op{K: "set", C: s, A: 1})
		case 1:
			blk = append(blk, Op{K: "set", C: s, B: rapid.IntRange(0, nKeys-1).Draw(t, "rkey2")})
		}
		c.Ops = splice(t, c.Ops, blk...)
	}
	if vk.Rare(t, "bigPeek", 16) {
		c.Ops = splice(t, c.Ops, bigPeekOp(t))
	}
	return c
}

func TestC10List(t *testing.T) {
	h := vk.Start(t, "C10", "list")
	vk.Rapid(h, t, genListCase, runList)
}

// ---- ring ------------------------------------------------------------------------

var ringKinds = []string{
	"new", "of", "of", "of", "join", "join", "joinSame", "joinSame", "joinSame", "joinDiff", "joinDiff", "joinDiff",
	"pop", "pop", "nil", "each",
}

func genRingCase(t *rapid.T) RingCase {
	c := RingCase{Elem: genElem(t)}
	// start with a few rings so that pairs of every kind exist early
	for k := rapid.IntRange(0, 3).Draw(t, "seedRings"); k > 0; k-- {
		c.Ops = append(c.Ops, Op{K: rapid.SampledFrom([]string{"of", "of", "new"}).Draw(t, "mk"), A: rapid.IntRange(0, 6).Draw(t, "n")})
	}
	if rapid.IntRange(0, 7).Draw(t, "big") == 0 {
		c.Ops = append(c.Ops, Op{K: rapid.SampledFrom([]string{"newBig", "ofBig", "ofBig"}).Draw(t, "bigKind"), A: rapid.IntRange(0, 15).Draw(t, "bigSize")})
	}
	nSeed := len(c.Ops)
	c.Ops = append(c.Ops, genOps(t, ringKinds, 40, func(t *rapid.T, op *Op) {
		switch op.K {
		case "new", "of":
			op.A = rapid.IntRange(0, 6).Draw(t, "n")
		case "nil":
			op.A = rapid.IntRange(0, 4).Draw(t, "n")
		default:
			op.A = rapid.IntRange(0, 100).Draw(t, "a")
			op.B = rapid.IntRange(0, 100).Draw(t, "b")
		}
	})...)
	if rapid.IntRange(0, 3).Draw(t, "structured") > 0 {
		// Construction instead of rejection: one join inside a ring (any
		// distance) and one across two rings, at drawn positions after two
		// fresh rings of drawn sizes.
		ab := func(kind string) Op {
			return Op{K: kind, A: rapid.IntRange(0, 100).Draw(t, "ja"), B: rapid.IntRange(0, 100).Draw(t, "jb")}
		}
		rest := splice(t, c.Ops[nSeed:], ab("joinSame"))
		rest = splice(t, rest, ab("joinDiff"))
		c.Ops = append(append(c.Ops[:nSeed:nSeed],
			Op{K: "of", A: rapid.IntRange(3, 5).Draw(t, "k1")}, Op{K: "of", A: rapid.IntRange(1, 5).Draw(t, "k2")}), rest...)
	}
	if vk.Rare(t, "bigAt", 16) {
		// one large ring beside the pool, probed by At/Peek at both signs of
		// offsets around 0, Len/2, Len, 2*Len and powers of two (ringbig.go)
		size := rapid.OneOf(rapid.SampledFrom(bigSizes), rapid.SampledFrom(bigSizes), rapid.IntRange(1, 6000)).Draw(t, "bigAtSize")
		c.Ops = splice(t, c.Ops, Op{K: "bigAt", A: size, B: rapid.IntRange(0, 1<<30).Draw(t, "bigAtSeed"), C: rapid.IntRange(0, bigVariants-1).Draw(t, "bigAtBuild")})
	}
	return c
}

func TestC10Ring(t *testing.T) {
	h := vk.Start(t, "C10", "ring")
	vk.Rapid(h, t, genRingCase, runRing)
}

// TestC10RingBig is the directed sweep of At/Peek offsets on large rings: the
// favoured sizes (powers of two and their neighbours, round and odd sizes)
// with every build variant (sizes above 2100 in the quick tier: one variant
// each); sizes up to 2^16+2 (quick) or 2^20+2 (thorough).
func TestC10RingBig(t *testing.T) {
	h := vk.Start(t, "C10", "ringbig")
	slot := h.Slot()
	tl := vk.NewTally()
	for i, c := range bigSweepCases(h.Pick(16, 20), h.Pick(2100, 10000), h.Mix("ringbig")) {
		if h.Failed() {
			break
		}
		slot.Enter(c)
		o := &vk.Obs{}
		msg := vk.Guard(func() string { return runRing(c, o) })
		slot.Leave()
		if msg != "" {
			p := h.Fail(c, msg)
			t.Fatalf("VK-VIOLATION property=C10 leg=ringbig replay=%s\n%s", p, msg)
		}
		tl.Evals++
		for _, cl := range o.Classes() {
			tl.Classes[cl]++
		}
		if c.Ops[0].A >= 1024 {
			tl.NT++ // a ring long enough for offsets beyond 1024 in both directions
		}
		if i%37 == 5 {
			h.Sample(c, c.Ops[0].A >= 1024)
		}
	}
	h.MergeTally(tl)
}

// TestC10ListBig: stale cursors far behind the cut of one long list
// (listbig.go): lengths around powers of two up to 2^20+3 (thorough: 2^22+3),
// cut at the front, one element in, the middle or near the end, by Truncate or
// Clear, three ways of building the list.
func TestC10ListBig(t *testing.T) {
	h := vk.Start(t, "C10", "listbig")
	slot := h.Slot()
	tl := vk.NewTally()
	rng := h.RNG("listbig")
	top := h.Pick(20, 22)
	var cases []ListBigCase
	builds := []string{"add1", "addv", "push"}
	for k := 6; k <= top; k += 2 {
		if k > 16 && k < top {
			k = top - 2 // 2^18 and then the top size
			if k%2 == 1 {
				k++
			}
		}
		for _, d := range []int{-1, 3} {
			n := 1<<k + d
			for _, cut := range []int{0, 1, rng.Intn(n/2 + 1), n - 1<<(k-1) - 2} {
				cases = append(cases, ListBigCase{N: n, Cut: cut, Build: builds[rng.Intn(3)]})
			}
			cases = append(cases, ListBigCase{N: n, Clear: true, Build: builds[rng.Intn(3)]})
		}
	}
	// the top size itself, every build, cut at the very front and Clear
	for _, b := range builds {
		n := 1<<top + 3
		cases = append(cases, ListBigCase{N: n, Cut: rng.Intn(3), Build: b}, ListBigCase{N: n + rng.Intn(1000), Clear: true, Build: b})
	}
	for i, c := range cases {
		if h.Failed() {
			break
		}
		slot.Enter(c)
		o := &vk.Obs{}
		msg := vk.Guard(func() string { return runListBig(c, o) })
		slot.Leave()
		if msg != "" {
			p := h.Fail(c, msg)
			t.Fatalf("VK-VIOLATION property=C10 leg=listbig replay=%s\n%s", p, msg)
		}
		tl.Evals++
		for _, cl := range o.Classes() {
			tl.Classes[cl]++
		}
		if o.NT {
			tl.NT++
		}
		if i%7 == 3 {
			h.Sample(c, o.NT)
		}
	}
	h.MergeTally(tl)
}

func TestReplay(t *testing.T) { vk.ReplayMain(t) }
