package pseq

import (
	"fmt"
	"math"

	"github.com/creachadair/mds/mlink"
	"verif/vk"
)

// ---------------------------------------------------------------------------
// mlink.Queue

type mqRun struct {
	c      SeqCase
	q      *mlink.Queue[int]
	ref    []int // front first
	serial int
	step   int
	sub    int

	justEmptied   bool // emptied by Pop, nothing added since
	justCleared   bool // non-empty queue cleared, nothing added since
	addAfterEmpty int
	addAfterClear int
	peekOut       int
	peekNeg       int
	popEmpty      int
	maxLen        int
}

func (r *mqRun) errf(format string, args ...any) string {
	return fmt.Sprintf("mlink.Queue %s (sub-step %d, ctor %s): %s", opCtx(r.step, r.c.Ops), r.sub, r.c.Ctor, fmt.Sprintf(format, args...))
}

func (r *mqRun) checkPeek(n int) string {
	got, ok := r.q.Peek(n)
	if n >= len(r.ref) {
		if ok {
			return r.errf("Peek(%d) = (%d, true) on a queue of %d elements, want ok = false", n, got, len(r.ref))
		}
		return ""
	}
	if !ok || got != r.ref[n] {
		return r.errf("Peek(%d) = (%d, %v), want (%d, true) (reference %s)", n, got, ok, r.ref[n], brief(r.ref))
	}
	return ""
}

func (r *mqRun) check() string {
	n := len(r.ref)
	if n > r.maxLen {
		r.maxLen = n
	}
	if got := r.q.Len(); got != n {
		return r.errf("Len = %d, reference has %d elements %s", got, n, brief(r.ref))
	}
	if got := r.q.IsEmpty(); got != (n == 0) {
		return r.errf("IsEmpty = %v, reference has %d elements", got, n)
	}
	wantFront := 0
	if n > 0 {
		wantFront = r.ref[0]
	}
	if got := r.q.Front(); got != wantFront {
		return r.errf("Front = %d, want %d (reference %s)", got, wantFront, brief(r.ref))
	}
	var got []int
	r.q.Each(func(v int) bool { got = append(got, v); return len(got) < n+8 })
	if !eqInts(got, r.ref) {
		return r.errf("Each lists %s, reference %s", brief(got), brief(r.ref))
	}
	for _, k := range []int{0, n - 1, n, n + 1} {
		if k >= 0 {
			if msg := r.checkPeek(k); msg != "" {
				return msg
			}
		}
	}
	return ""
}

func (r *mqRun) doAdd() string {
	r.serial++
	r.q.Add(r.serial)
	r.ref = append(r.ref, r.serial)
	if r.justEmptied {
		r.addAfterEmpty++
	}
	if r.justCleared {
		r.addAfterClear++
	}
	r.justEmptied, r.justCleared = false, false
	return r.check()
}

func (r *mqRun) doPop() string {
	got, ok := r.q.Pop()
	if len(r.ref) == 0 {
		r.popEmpty++
		if ok {
			return r.errf("Pop on an empty queue = (%d, true), want ok = false", got)
		}
	} else {
		want := r.ref[0]
		r.ref = r.ref[1:]
		if !ok || got != want {
			return r.errf("Pop = (%d, %v), want (%d, true); rest of the reference %s", got, ok, want, brief(r.ref))
		}
		if len(r.ref) == 0 {
			r.justEmptied = true
		}
	}
	return r.check()
}

func (r *mqRun) apply(op Op) string {
	r.sub = 0
	a := abs(op.A)
	switch op.K {
	case "add":
		return r.doAdd()
	case "pop":
		return r.doPop()
	case "front", "len":
		return r.check()
	case "peek":
		n := a % (len(r.ref) + 3)
		if a >= 190 { // offsets at the end of the int range
			ext := []int{math.MaxInt, math.MaxInt - 1, math.MaxInt - len(r.ref), 1 << 31, 1 << 32, 1<<63 - 1<<10}
			n = ext[a%len(ext)]
		}
		if n >= len(r.ref) {
			r.peekOut++
		}
		return r.checkPeek(n)
	case "peekNeg":
		n := -(a%3 + 1)
		if a >= 190 {
			n = []int{math.MinInt, math.MinInt + 1, -1 << 32, -math.MaxInt}[a%4]
		}
		r.peekNeg++
		var got int
		var ok bool
		if pv := vk.PanicValue(func() { got, ok = r.q.Peek(n) }); pv == nil {
			return r.errf("Peek(%d) returned (%d, %v); the documentation says Peek panics if n < 0", n, got, ok)
		}
		return r.check()
	case "each":
		n := len(r.ref)
		if n == 0 {
			return r.check()
		}
		j := a%n + 1
		var got []int
		r.q.Each(func(v int) bool { got = append(got, v); return len(got) < j })
		if len(got) != j {
			return r.errf("Each made %d callbacks although the callback returned false at #%d", len(got), j)
		}
		if !eqInts(got, r.ref[:j]) {
			return r.errf("Each (stopped at %d) lists %s, reference %s", j, brief(got), brief(r.ref))
		}
		return ""
	case "clear":
		if len(r.ref) > 0 {
			r.justCleared = true
		}
		r.q.Clear()
		r.ref = nil
		return r.check()
	case "addRun":
		for i, n := 0, runLen(a); i <= n; i++ {
			r.sub = i
			if msg := r.doAdd(); msg != "" {
				return msg
			}
		}
		return ""
	case "popAll": // pop to empty, and once more on the empty queue
		for i := 0; len(r.ref) > 0; i++ {
			r.sub = i
			if msg := r.doPop(); msg != "" {
				return msg
			}
		}
		if a%2 == 1 {
			return r.doPop()
		}
		return ""
	}
	return r.errf("VK-INFRA unknown op kind %q", op.K)
}

func runMQueue(c SeqCase, o *vk.Obs) string {
	r := &mqRun{c: c, step: -1}
	switch c.Ctor {
	case "zero":
		var q mlink.Queue[int]
		r.q = &q
	case "new":
		r.q = mlink.NewQueue[int]()
	default:
		return r.errf("VK-INFRA unknown constructor %q", c.Ctor)
	}
	ctx := r.errf
	if msg := guarded(ctx, r.check); msg != "" {
		return msg
	}
	for i, op := range c.Ops {
		r.step = i
		if msg := guarded(ctx, func() string { return r.apply(op) }); msg != "" {
			return msg
		}
	}
	r.step, r.sub = len(c.Ops), 0
	if msg := guarded(ctx, r.check); msg != "" {
		return msg
	}
	if r.addAfterEmpty+r.addAfterClear > 0 {
		o.NonTrivial()
	}
	o.Class("ctor=" + c.Ctor)
	o.ClassIf(r.addAfterEmpty > 0, "add_after_pop_to_empty")
	o.ClassIf(r.addAfterClear > 0, "add_after_clear_of_nonempty")
	o.ClassIf(r.peekOut > 0, "peek_out_of_range")
	o.ClassIf(r.peekNeg > 0, "peek_negative")
	o.ClassIf(r.popEmpty > 0, "pop_on_empty")
	o.ClassIf(r.maxLen >= 8, "len>=8")
	return ""
}
