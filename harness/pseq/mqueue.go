package pseq

import (
	"fmt"
	"math"

	"github.com/creachadair/mds/mlink"
	"verif/elem"
	"verif/vk"
)

// ---------------------------------------------------------------------------
// mlink.Queue

type mqRun[T any] struct {
	b      *bound[T]
	c      SeqCase
	q      *mlink.Queue[T]
	ref    []int // front first
	serial int
	step   int
	sub    int

	justEmptied   bool // emptied by Pop, nothing added since
	justCleared   bool // non-empty queue cleared, nothing added since
	addAfterEmpty int
	addAfterClear int
	peekOut       int
	peekNeg       int
	bigPeeks      int // bigPeek ops (seqbig.go)
	popEmpty      int
	maxLen        int
}

func (r *mqRun[T]) errf(format string, args ...any) string {
	return fmt.Sprintf("mlink.Queue %s (sub-step %d, ctor %s): %s%s", opCtx(r.step, r.c.Ops), r.sub, r.c.Ctor, fmt.Sprintf(format, args...), r.b.note())
}

func (r *mqRun[T]) checkPeek(n int) string {
	got, ok := r.q.Peek(n)
	if n >= len(r.ref) {
		if ok {
			return r.errf("Peek(%d) = (%s, true) on a queue of %d elements, want ok = false", n, r.b.show(got), len(r.ref))
		}
		return ""
	}
	if !ok || !r.b.is(got, r.ref[n]) {
		return r.errf("Peek(%d) = (%s, %v), want (%s, true) (reference %s)", n, r.b.show(got), ok, r.b.want(r.ref[n]), r.b.wants(r.ref))
	}
	return ""
}

func (r *mqRun[T]) check() string {
	n := len(r.ref)
	if n > r.maxLen {
		r.maxLen = n
	}
	if got := r.q.Len(); got != n {
		return r.errf("Len = %d, reference has %d elements %s", got, n, r.b.wants(r.ref))
	}
	if got := r.q.IsEmpty(); got != (n == 0) {
		return r.errf("IsEmpty = %v, reference has %d elements", got, n)
	}
	wantFront := 0
	if n > 0 {
		wantFront = r.ref[0]
	}
	if got := r.q.Front(); !r.b.is(got, wantFront) {
		return r.errf("Front = %s, want %s (reference %s)", r.b.show(got), r.b.want(wantFront), r.b.wants(r.ref))
	}
	got := make([]T, 0, n)
	r.q.Each(func(v T) bool { got = append(got, v); return len(got) < n+8 })
	if !r.b.eq(got, r.ref) {
		return r.errf("Each lists %s, reference %s", r.b.list(got), r.b.wants(r.ref))
	}
	for _, k := range []int{0, n - 1, n, n + 1} {
		if k >= 0 {
			if msg := r.checkPeek(k); msg != "" {
				return msg
			}
		}
	}
	return ""
}

func (r *mqRun[T]) doAdd() string {
	r.serial++
	r.q.Add(r.b.in(r.serial))
	r.ref = append(r.ref, r.serial)
	if r.justEmptied {
		r.addAfterEmpty++
	}
	if r.justCleared {
		r.addAfterClear++
	}
	r.justEmptied, r.justCleared = false, false
	return r.check()
}

func (r *mqRun[T]) doPop() string {
	got, ok := r.q.Pop()
	if len(r.ref) == 0 {
		r.popEmpty++
		if ok {
			return r.errf("Pop on an empty queue = (%s, true), want ok = false", r.b.show(got))
		}
	} else {
		want := r.ref[0]
		r.ref = r.ref[1:]
		if !ok || !r.b.is(got, want) {
			return r.errf("Pop = (%s, %v), want (%s, true); rest of the reference %s", r.b.show(got), ok, r.b.want(want), r.b.wants(r.ref))
		}
		if len(r.ref) == 0 {
			r.justEmptied = true
		}
	}
	return r.check()
}

func (r *mqRun[T]) apply(op Op) string {
	r.sub = 0
	a := abs(op.A)
	switch op.K {
	case "add":
		return r.doAdd()
	case "pop":
		return r.doPop()
	case "front", "len":
		return r.check()
	case "bigPeek":
		return r.bigPeek(a, abs(op.B), abs(op.C))
	case "peek":
		n := a % (len(r.ref) + 3)
		if a >= 190 { // offsets at the end of the int range
			ext := []int{math.MaxInt, math.MaxInt - 1, math.MaxInt - len(r.ref), 1 << 31, 1 << 32, 1<<63 - 1<<10}
			n = ext[a%len(ext)]
		}
		if n >= len(r.ref) {
			r.peekOut++
		}
		return r.checkPeek(n)
	case "peekNeg":
		n := -(a%3 + 1)
		if a >= 190 {
			n = []int{math.MinInt, math.MinInt + 1, -1 << 32, -math.MaxInt}[a%4]
		}
		r.peekNeg++
		var got T
		var ok bool
		if pv := vk.PanicValue(func() { got, ok = r.q.Peek(n) }); pv == nil {
			return r.errf("Peek(%d) returned (%s, %v); the documentation says Peek panics if n < 0", n, r.b.show(got), ok)
		}
		return r.check()
	case "each":
		n := len(r.ref)
		if n == 0 {
			return r.check()
		}
		j := a%n + 1
		var got []T
		r.q.Each(func(v T) bool { got = append(got, v); return len(got) < j })
		if len(got) != j {
			return r.errf("Each made %d callbacks although the callback returned false at #%d", len(got), j)
		}
		if !r.b.eq(got, r.ref[:j]) {
			return r.errf("Each (stopped at %d) lists %s, reference %s", j, r.b.list(got), r.b.wants(r.ref))
		}
		// a second Each from inside the callback of the first, at element j
		var outer, inner []T
		r.q.Each(func(v T) bool {
			if outer = append(outer, v); len(outer) == j {
				r.q.Each(func(w T) bool { inner = append(inner, w); return true })
			}
			return true
		})
		if !r.b.eq(outer, r.ref) || !r.b.eq(inner, r.ref) {
			return r.errf("Each with a second Each run inside its callback (at element %d) lists %s and %s, reference %s", j, r.b.list(outer), r.b.list(inner), r.b.wants(r.ref))
		}
		return ""
	case "clear":
		if len(r.ref) > 0 {
			r.justCleared = true
		}
		r.q.Clear()
		r.ref = nil
		return r.check()
	case "addRun":
		for i, n := 0, runLen(a); i <= n; i++ {
			r.sub = i
			if msg := r.doAdd(); msg != "" {
				return msg
			}
		}
		return ""
	case "popAll": // pop to empty, and once more on the empty queue
		for i := 0; len(r.ref) > 0; i++ {
			r.sub = i
			if msg := r.doPop(); msg != "" {
				return msg
			}
		}
		if a%2 == 1 {
			return r.doPop()
		}
		return ""
	}
	return r.errf("VK-INFRA unknown op kind %q", op.K)
}

// runMQueue instantiates the interpreter with the case's element kind.
func runMQueue(c SeqCase, o *vk.Obs) string {
	elem.ResetPtr()
	switch c.Elem {
	case "", elem.Int:
		return runMQueueOf(c, o, cmpBound(elem.IntKit()))
	case elem.Str:
		return runMQueueOf(c, o, cmpBound(elem.StrKit()))
	case elem.I16:
		return runMQueueOf(c, o, cmpBound(elem.I16Kit()))
	case elem.Wide:
		return runMQueueOf(c, o, cmpBound(elem.WideKit()))
	case elem.Ptr:
		return runMQueueOf(c, o, cmpBound(elem.PtrKit()))
	case elem.Any:
		return runMQueueOf(c, o, cmpBound(elem.AnyKit()))
	case elem.Bytes:
		return runMQueueOf(c, o, bytesBound())
	}
	return badKind(c.Elem)
}

func runMQueueOf[T any](c SeqCase, o *vk.Obs, b *bound[T]) string {
	r := &mqRun[T]{b: b, c: c, step: -1}
	switch c.Ctor {
	case "zero":
		var q mlink.Queue[T]
		r.q = &q
	case "new":
		r.q = mlink.NewQueue[T]()
	default:
		return r.errf("VK-INFRA unknown constructor %q", c.Ctor)
	}
	ctx := r.errf
	if msg := guarded(ctx, r.check); msg != "" {
		return msg
	}
	for i, op := range c.Ops {
		o.Step() // interleaved execution (vk.Interleave) switches to the other case here
		r.step = i
		if msg := guarded(ctx, func() string { return r.apply(op) }); msg != "" {
			return msg
		}
	}
	r.step, r.sub = len(c.Ops), 0
	if msg := guarded(ctx, r.check); msg != "" {
		return msg
	}
	if r.addAfterEmpty+r.addAfterClear > 0 {
		o.NonTrivial()
	}
	o.Class("ctor=" + c.Ctor)
	o.Class("elem=" + kindName(c.Elem))
	o.ClassIf(r.addAfterEmpty > 0, "add_after_pop_to_empty")
	o.ClassIf(r.addAfterClear > 0, "add_after_clear_of_nonempty")
	o.ClassIf(r.peekOut > 0, "peek_out_of_range")
	o.ClassIf(r.bigPeeks > 0, "big_container_Peek_probes")
	o.ClassIf(r.peekNeg > 0, "peek_negative")
	o.ClassIf(r.popEmpty > 0, "pop_on_empty")
	o.ClassIf(r.maxLen >= 8, "len>=8")
	return ""
}
