package pseq

import (
	"fmt"
	"math"
	"sort"

	"github.com/creachadair/mds/ring"
	"verif/vk"
)

// ---------------------------------------------------------------------------
// "bigAt": the offset arithmetic of Ring.At / Ring.Peek on ONE large ring.
//
// The pool of the history interpreter holds small rings and checks them from
// every element after every operation; that costs O(elements^2) per step and
// cannot hold thousands of elements.  A bigAt op is therefore self-contained:
// it builds a ring of op.A elements beside the pool (one of several documented
// ways: Of, New, Join of two rings, Pop of some elements, a run spliced out by
// a Join within the ring), checks the cycle once by a Next walk, a Prev walk,
// Len and Each, then probes At and Peek at both signs of a set of offsets
// chosen around 0, Len/2, Len, 2*Len, powers of two and round numbers, from
// two or three starting elements, and lets the ring go.
//
// Oracle (documentation of At and Peek): the element |n| Next (n > 0) or Prev
// (n < 0) steps from the receiver while |n| < Len; nil / (zero, false) when
// |n| > Len; at |n| == Len nil or the receiver itself (see ringRun.check).
// math.MinInt is never probed (its negation is not representable).

const (
	maxBigRing  = 1 << 21
	bigValBase  = 1000  // values of big-ring elements: bigValBase + position%bigValMod
	bigValMod   = 30000 // (fits the int16 element kind; At is compared by pointer)
	bigVariants = 5
)

// bigSizes are the sizes the generator favours: around powers of two and a
// few round and odd numbers.  Any size in [1, maxBigRing] is a valid op.A.
var bigSizes = func() []int {
	out := []int{1, 2, 3, 5, 7, 100, 1000, 1500, 3000, 5000}
	for k := 6; k <= 12; k++ {
		out = append(out, 1<<k-1, 1<<k, 1<<k+1, 1<<k+2)
	}
	sort.Ints(out)
	return out
}()

type bigRing[T any] struct {
	what string
	el   []*ring.Ring[T] // in Next order
}

func (r *ringRun[T]) mk(pos int) T { return r.b.mkBig(pos) }

// bigOf builds Of(n values) and checks that Next visits n distinct elements
// holding exactly the values supplied, in order.
func (r *ringRun[T]) bigOf(n, valueFrom int, useNew bool) ([]*ring.Ring[T], string) {
	vs := make([]T, n)
	for i := range vs {
		vs[i] = r.mk(valueFrom + i)
	}
	var head *ring.Ring[T]
	what := fmt.Sprintf("Of(%d values)", n)
	if useNew {
		what = fmt.Sprintf("New(%d)", n)
		head = ring.New[T](n)
	} else {
		head = ring.Of(vs...)
	}
	if head == nil {
		return nil, r.errf("%s returned nil, want a ring of %d elements", what, n)
	}
	el := make([]*ring.Ring[T], 0, n)
	cur := head
	for i := 0; i < n; i++ {
		if cur == nil {
			return nil, r.errf("%s: Next is nil after %d of %d elements", what, i, n)
		}
		if i > 0 && cur == head {
			return nil, r.errf("%s: walking Next is back at the start after %d steps, want a ring of %d elements", what, i, n)
		}
		if useNew {
			if !r.b.zero(cur.Value) {
				return nil, r.errf("%s: element #%d in Next order holds %s, want the zero value", what, i, r.b.show(cur.Value))
			}
			cur.Value = vs[i]
		} else if !r.b.same(cur.Value, vs[i]) {
			return nil, r.errf("%s: element #%d in Next order holds %s, want %s (the value #%d given to Of)", what, i, r.b.show(cur.Value), r.b.show(vs[i]), i)
		}
		el = append(el, cur)
		cur = cur.Next()
	}
	if cur != head {
		return nil, r.errf("%s: after %d Next steps the walk is not back at the start (ring of exactly %d elements wanted)", what, n, n)
	}
	return el, ""
}

// bigOffsets returns the magnitudes probed on a ring of L elements.
func bigOffsets(L int, rng *vk.RNG, full bool) []int {
	set := map[int]bool{}
	add := func(ks ...int) {
		for _, k := range ks {
			if k >= 0 {
				set[k] = true
			}
		}
	}
	add(0, 1, 2, L/2-1, L/2, L/2+1, L-2, L-1, L, L+1, 2*L-1, 2*L, 2*L+1)
	add(rng.Intn(L+1), rng.Intn(L+1), L/2+rng.Intn(L/2+1), rng.Intn(2*L+3))
	if full {
		add(3, L/3, L-L/3, L-3, 3*L, math.MaxInt, math.MaxInt-1, 1<<31, 1<<32)
		lo := 64
		if L > 16384 {
			lo = L / 4 // very large rings: only the thresholds in their own range
		}
		for t := 64; t/2 <= 2*L; t *= 2 {
			if t >= lo {
				add(t-1, t, t+1, L-t, t+L)
			}
		}
		for _, t := range []int{100, 1000, 10000, 100000, 1000000} {
			if t >= lo && t/2 <= 2*L {
				add(t-1, t, t+1)
			}
		}
	}
	out := make([]int, 0, len(set))
	for k := range set {
		out = append(out, k)
	}
	sort.Ints(out)
	return out
}

// bigCheck validates the cycle g.el once and then probes At/Peek.
func (r *ringRun[T]) bigCheck(g bigRing[T], rng *vk.RNG) string {
	el := g.el
	L := len(el)
	idx := func(p *ring.Ring[T]) string {
		if p == nil {
			return "nil"
		}
		for i, e := range el {
			if e == p {
				return fmt.Sprintf("element #%d (Value %s)", i, r.b.show(p.Value))
			}
		}
		return fmt.Sprintf("an element outside this ring (Value %s)", r.b.show(p.Value))
	}
	for i, e := range el {
		if got, want := e.Next(), el[(i+1)%L]; got != want {
			return r.errf("big ring %s, %d elements: #%d.Next() = %s, want #%d", g.what, L, i, idx(got), (i+1)%L)
		}
		if got, want := e.Prev(), el[(i+L-1)%L]; got != want {
			return r.errf("big ring %s, %d elements: #%d.Prev() = %s, want #%d", g.what, L, i, idx(got), (i+L-1)%L)
		}
	}
	starts := []int{0, rng.Intn(L)}
	if L <= 4096 {
		starts = append(starts, L-1)
	}
	for si, p := range starts {
		e := el[p]
		if got := e.Len(); got != L {
			return r.errf("big ring %s: #%d.Len() = %d, want %d", g.what, p, got, L)
		}
		if si == 0 {
			n := 0
			bad := -1
			e.Each(func(v T) bool {
				if n < L && bad < 0 && !r.b.same(v, el[(p+n)%L].Value) {
					bad = n
				}
				n++
				return n < L+8
			})
			if n != L || bad >= 0 {
				return r.errf("big ring %s, %d elements: #%d.Each made %d callbacks, first wrong value at callback %d (-1 = none)", g.what, L, p, n, bad)
			}
		}
		for _, k := range bigOffsets(L, rng, si == 0) {
			for _, n := range []int{k, -k} {
				if k == 0 && n != k {
					continue
				}
				var want *ring.Ring[T]
				if k < L {
					want = el[((p+n%L)%L+L)%L]
				}
				gotE := e.At(n)
				gotV, gotOK := e.Peek(n)
				if k == L {
					// see ringRun.check: nil (what the code does) or the receiver
					if gotE != nil && gotE != e {
						return r.errf("big ring %s: #%d.At(%d) = %s on a ring of %d, want nil or #%d itself", g.what, p, n, idx(gotE), L, p)
					}
					if gotOK != (gotE != nil) || (gotOK && !r.b.same(gotV, e.Value)) || (!gotOK && !r.b.zero(gotV)) {
						return r.errf("big ring %s: #%d.Peek(%d) = (%s, %v) on a ring of %d while At(%d) = %s", g.what, p, n, r.b.show(gotV), gotOK, L, n, idx(gotE))
					}
					continue
				}
				if gotE != want {
					if want == nil {
						return r.errf("big ring %s: #%d.At(%d) = %s on a ring of %d, want nil (|n| exceeds the length)", g.what, p, n, idx(gotE), L)
					}
					return r.errf("big ring %s: #%d.At(%d) = %s, want %s: %d %s steps from #%d on a ring of %d", g.what, p, n, idx(gotE), idx(want), k, dirName(n), p, L)
				}
				if want == nil {
					if gotOK || !r.b.zero(gotV) {
						return r.errf("big ring %s: #%d.Peek(%d) = (%s, %v) on a ring of %d, want (zero, false)", g.what, p, n, r.b.show(gotV), gotOK, L)
					}
				} else if !gotOK || !r.b.same(gotV, want.Value) {
					return r.errf("big ring %s: #%d.Peek(%d) = (%s, %v), want (%s, true): the value of %s, %d %s steps away on a ring of %d", g.what, p, n, r.b.show(gotV), gotOK, r.b.show(want.Value), idx(want), k, dirName(n), L)
				}
			}
		}
	}
	r.bigProbes++
	if L >= 1024 {
		r.bigProbes1k++
	}
	return ""
}

func dirName(n int) string {
	if n < 0 {
		return "Prev"
	}
	return "Next"
}

// bigAt interprets one bigAt op: size op.A, seed op.B, build variant op.C.
func (r *ringRun[T]) bigAt(size, seed, variant int) string {
	n := min(max(size, 1), maxBigRing)
	rng := vk.NewRNG(uint64(seed)*0x9e3779b97f4a7c15 + uint64(n))
	if n < 2 && variant%bigVariants >= 2 {
		variant = 0
	}
	var rings []bigRing[T]
	switch variant % bigVariants {
	case 0, 1:
		el, msg := r.bigOf(n, 0, variant%bigVariants == 1)
		if msg != "" {
			return msg
		}
		what := "Of"
		if variant%bigVariants == 1 {
			what = "New"
		}
		rings = append(rings, bigRing[T]{fmt.Sprintf("%s(%d)", what, n), el})
	case 2:
		// different rings [r1 ... ra] and [s1 ... sm]: [r1 s1 ... sm r2 ... ra]
		a := 1 + rng.Intn(n-1)
		if rng.Intn(4) == 0 {
			a = []int{1, n - 1}[rng.Intn(2)]
		}
		R, msg := r.bigOf(a, 0, false)
		if msg != "" {
			return msg
		}
		S, msg := r.bigOf(n-a, a, false)
		if msg != "" {
			return msg
		}
		// the receiver and the argument may be any elements of their rings
		ri, si := rng.Intn(len(R)), rng.Intn(len(S))
		what := fmt.Sprintf("Of(%d)#%d.Join(Of(%d)#%d)", a, ri, n-a, si)
		got := R[ri].Join(S[si])
		res := []*ring.Ring[T]{R[ri]}
		res = append(res, S[si:]...)
		res = append(res, S[:si]...)
		res = append(res, R[ri+1:]...)
		res = append(res, R[:ri]...)
		if want := res[(1+len(S))%len(res)]; got != want {
			gotS := "nil"
			if got != nil {
				gotS = "a ring starting at Value " + r.b.show(got.Value)
			}
			return r.errf("big ring %s returned %s, want the ring that starts after sm (Value %s)", what, gotS, r.b.show(want.Value))
		}
		rings = append(rings, bigRing[T]{what, res})
	case 3:
		// a few elements popped out of a ring of n+k
		k := 1 + rng.Intn(4)
		el, msg := r.bigOf(n+k, 0, false)
		if msg != "" {
			return msg
		}
		what := fmt.Sprintf("Of(%d) with %d elements popped", n+k, k)
		for ; k > 0; k-- {
			p := rng.Intn(len(el))
			if rng.Intn(3) == 0 {
				p = []int{0, len(el) - 1}[rng.Intn(2)]
			}
			e := el[p]
			if got := e.Pop(); got != e {
				return r.errf("big ring %s: #%d.Pop() did not return its receiver", what, p)
			}
			el = append(el[:p:p], el[p+1:]...)
			rings = append(rings, bigRing[T]{what + " (a popped element)", []*ring.Ring[T]{e}})
		}
		rings = append(rings, bigRing[T]{what, el})
	default:
		// same ring [r1 r2 ... ri s1 ...]: r2 ... ri is spliced out and returned
		m := 1 + rng.Intn(5)
		if rng.Intn(2) == 0 {
			m = 1 + rng.Intn(n)
		}
		total := n + m
		el, msg := r.bigOf(total, 0, false)
		if msg != "" {
			return msg
		}
		p := rng.Intn(total)
		rot := append(append([]*ring.Ring[T](nil), el[p:]...), el[:p]...) // r1 first
		what := fmt.Sprintf("Of(%d)#%d.Join(#%d), which splices out %d elements", total, p, (p+m+1)%total, m)
		got := rot[0].Join(rot[m+1])
		if got != rot[1] {
			return r.errf("big ring %s: Join did not return the ring starting at r2", what)
		}
		rings = append(rings,
			bigRing[T]{what + " (the ring that remains)", append([]*ring.Ring[T]{rot[0]}, rot[m+1:]...)},
			bigRing[T]{what + " (the ring spliced out)", rot[1 : m+1]})
	}
	for _, g := range rings {
		if msg := r.bigCheck(g, rng); msg != "" {
			return msg
		}
	}
	return ""
}

// bigSweepCases is the directed sweep: every favoured size (and the sizes
// around larger powers of two up to 2^maxPow) with every build variant while
// the size is at most allVariants and one variant (cycling) above, the element
// kind cycling.
func bigSweepCases(maxPow, allVariants int, seed uint64) []RingCase {
	sizes := append([]int(nil), bigSizes...)
	for k := 13; k <= maxPow; k++ {
		sizes = append(sizes, 1<<k-1, 1<<k, 1<<k+1, 1<<k+2)
	}
	sizes = append(sizes, 10000, 100000)
	rng := vk.NewRNG(seed)
	for i := 0; i < 12; i++ {
		sizes = append(sizes, 2+rng.Intn(6000))
	}
	kinds := append([]string{"", "", ""}, elemKinds...)
	var out []RingCase
	for i, n := range sizes {
		if n > 1<<maxPow+2 {
			continue
		}
		for v := 0; v < bigVariants; v++ {
			if n > allVariants && v != i%bigVariants {
				continue // the larger sizes: one build variant each
			}
			c := RingCase{Ops: []Op{{K: "bigAt", A: n, B: rng.Intn(1 << 30), C: v}}}
			if n <= 10000 {
				c.Elem = kinds[(i+v)%len(kinds)]
			}
			out = append(out, c)
		}
	}
	return out
}
