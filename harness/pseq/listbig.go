package pseq

import (
	"fmt"
	"sort"

	"github.com/creachadair/mds/mlink"
	"verif/vk"
)

// ---------------------------------------------------------------------------
// "listbig": stale cursors FAR behind the cut.  The histories of leg "list"
// keep their lists short; here ONE list of N elements (up to 2^20+3 in the
// quick tier, 2^22+3 in the thorough tier) is built, cursors are saved at
// positions around the cut, at cut+2^k+-1, N/2, N-1 and N (the end), then the
// list is cleared or truncated at Cut, and
//   - every saved cursor at a position > Cut (> 0 for Clear) must refuse every
//     method with a panic mentioning "invalid cursor" (documentation: Truncate
//     "invalidates any cursors to locations after c", Clear likewise), however
//     long the discarded tail is, and none of the refused calls may alter the
//     list;
//   - every saved cursor at a position <= Cut still works: Get is the element
//     at its position, the one at Cut is at the end;
//   - Len/Each/Peek of the remaining list are elements 0..Cut-1.

type ListBigCase struct {
	N     int    `json:"n"`
	Cut   int    `json:"cut"`
	Clear bool   `json:"clear,omitempty"`
	Build string `json:"build"` // "add1": Add per element at the end cursor; "addv": one variadic Add; "push": Push at the front in reverse
}

func listBigProbes(n, cut int) []int {
	set := map[int]bool{}
	add := func(ps ...int) {
		for _, p := range ps {
			if p >= 0 && p <= n {
				set[p] = true
			}
		}
	}
	add(0, 1, 2, cut-1, cut, cut+1, cut+2, cut+3, n/2, n-2, n-1, n, (cut+n)/2)
	for t := 4; t <= n; t *= 2 {
		add(cut+t-1, cut+t, cut+t+1, cut+t+2, t, n-t)
	}
	for _, t := range []int{1000, 10000, 100000, 1000000} {
		add(cut+t, cut+t+1)
	}
	out := make([]int, 0, len(set))
	for p := range set {
		out = append(out, p)
	}
	sort.Ints(out)
	return out
}

func runListBig(c ListBigCase, o *vk.Obs) string {
	n := min(max(c.N, 0), 1<<23)
	cut := min(max(c.Cut, 0), n)
	lst := mlink.NewList[int]()
	switch c.Build {
	case "addv":
		vs := make([]int, n)
		for i := range vs {
			vs[i] = i
		}
		lst.At(0).Add(vs...)
	case "push":
		cur := lst.At(0)
		for i := n - 1; i >= 0; i-- {
			cur.Push(i)
		}
	default:
		cur := lst.At(0)
		for i := 0; i < n; i++ {
			cur.Add(i)
		}
	}
	probes := listBigProbes(n, cut)
	saved := make([]*mlink.Cursor[int], len(probes))
	var cutCur *mlink.Cursor[int]
	walk := lst.At(0)
	for pos, j := 0, 0; pos <= n; pos++ {
		if j < len(probes) && probes[j] == pos {
			cp := *walk
			saved[j] = &cp
			j++
		}
		if pos == cut {
			cp := *walk
			cutCur = &cp
		}
		if pos < n {
			if walk.AtEnd() {
				return fmt.Sprintf("a list built by %q of %d elements ends after %d elements", c.Build, n, pos)
			}
			if g := walk.Get(); g != pos {
				return fmt.Sprintf("a list built by %q of 0..%d has %d at position %d", c.Build, n-1, g, pos)
			}
			walk.Next()
		}
	}
	what := fmt.Sprintf("Truncate at position %d of a list of %d elements (built by %q)", cut, n, c.Build)
	keep := cut
	if c.Clear {
		what = fmt.Sprintf("Clear of a list of %d elements (built by %q)", n, c.Build)
		keep = 0
		lst.Clear()
	} else {
		cutCur.Truncate()
	}
	checkList := func(when string) string {
		if l := lst.Len(); l != keep {
			return fmt.Sprintf("%s: %s: Len = %d, want %d", what, when, l, keep)
		}
		i, bad := 0, ""
		lst.Each(func(v int) bool {
			if v != i {
				bad = fmt.Sprintf("%s: %s: Each yields %d at position %d", what, when, v, i)
				return false
			}
			i++
			return true
		})
		if bad == "" && i != keep {
			bad = fmt.Sprintf("%s: %s: Each yields %d elements, want %d", what, when, i, keep)
		}
		if bad == "" {
			if v, ok := lst.Peek(keep); ok {
				bad = fmt.Sprintf("%s: %s: Peek(%d) = (%d, true) beyond the end", what, when, keep, v)
			}
		}
		return bad
	}
	if msg := checkList("afterwards"); msg != "" {
		return msg
	}
	refuse := func(pos int, name string, f func()) string {
		pv := vk.PanicValue(f)
		if pv == nil {
			return fmt.Sprintf("%s: %s on a cursor saved at position %d (%d positions behind the cut) returned normally; the cursor is invalid and every use must panic with \"invalid cursor\"", what, name, pos, pos-keep)
		}
		if !isInvalidCursor(pv) {
			return fmt.Sprintf("%s: %s on the invalid cursor saved at position %d panicked with %q, want a panic mentioning \"invalid cursor\"", what, name, pos, fmt.Sprint(pv))
		}
		return ""
	}
	stale, far := 0, 0
	for j, pos := range probes {
		cur := saved[j]
		if pos > keep {
			stale++
			if pos-keep > 1<<16 {
				far++
			}
			for _, m := range []struct {
				name string
				f    func()
			}{
				{"Get", func() { cur.Get() }}, {"AtEnd", func() { cur.AtEnd() }}, {"Next", func() { cur.Next() }},
				{"Set", func() { cur.Set(-1) }}, {"Push", func() { cur.Push(-2) }}, {"Add", func() { cur.Add(-3, -4) }},
				{"Remove", func() { cur.Remove() }}, {"Truncate", func() { cur.Truncate() }},
				{"Get (again)", func() { cur.Get() }},
			} {
				if msg := refuse(pos, m.name, m.f); msg != "" {
					return msg
				}
			}
			continue
		}
		if c.Clear && pos == 0 || !c.Clear && pos == keep {
			if !cur.AtEnd() {
				return fmt.Sprintf("%s: the cursor saved at position %d is not at the end afterwards", what, pos)
			}
			continue
		}
		if c.Clear {
			continue
		}
		if g := cur.Get(); g != pos {
			return fmt.Sprintf("%s: the cursor saved at position %d (before the cut) reads %d afterwards", what, pos, g)
		}
	}
	if msg := checkList("after the refused calls on invalid cursors"); msg != "" {
		return msg
	}
	o.NT = far > 0
	o.Class(fmt.Sprintf("build_%s", c.Build))
	o.ClassIf(c.Clear, "clear")
	o.ClassIf(!c.Clear, "truncate")
	o.ClassIf(far > 0, "stale_cursor_more_than_2^16_behind_the_cut")
	o.ClassIf(n-keep > 1<<20, "discarded_tail_longer_than_2^20")
	o.ClassIf(stale == 0, "nothing_discarded")
	return ""
}
