// Package pseq holds the checks of property C10: stack.Stack, mlink.Queue,
// mlink.List edited through several live cursors, and ring.Ring.  Each
// structure has its own case type, interpreter (this file and its siblings)
// and rapid leg (seq_test.go).
package pseq

import (
	"fmt"
	"math"
	"runtime/debug"
	"strings"

	"github.com/creachadair/mds/stack"
	"verif/elem"
	"verif/vk"
)

// Op is one step of a history; which of the integer arguments are used depends
// on the kind.  All arguments are state-independent and are resolved by the
// interpreter against the current state.
type Op struct {
	K string `json:"k"`
	C int    `json:"c,omitempty"` // cursor slot (list) / second element (ring)
	A int    `json:"a,omitempty"`
	B int    `json:"b,omitempty"`
}

// SeqCase is a history for a stack or an mlink.Queue.
type SeqCase struct {
	Ctor string `json:"ctor"`           // "zero" or "new"
	Elem string `json:"elem,omitempty"` // element kind (see kinds.go); "" = int
	Ops  []Op   `json:"ops"`
}

func abs(x int) int {
	if x < 0 {
		return -x
	}
	return x
}

func brief(vs []int) string {
	if len(vs) > 24 {
		return fmt.Sprintf("%v…(%d)", vs[:24], len(vs))
	}
	return fmt.Sprint(vs)
}

func eqInts(a, b []int) bool {
	if len(a) != len(b) {
		return false
	}
	for i := range a {
		if a[i] != b[i] {
			return false
		}
	}
	return true
}

// guarded runs f; an unexpected panic becomes a violation message that names
// the operation (through the interpreter's errf) in its first line.
func guarded(errf func(string, ...any) string, f func() string) (msg string) {
	defer func() {
		if p := recover(); p != nil {
			lines := strings.Split(string(debug.Stack()), "\n")
			if len(lines) > 24 {
				lines = lines[:24]
			}
			msg = errf("unexpected panic: %v", p) + "\n" + strings.Join(lines, "\n")
		}
	}()
	return f()
}

func opCtx(step int, ops []Op) string {
	switch {
	case step < 0:
		return "constructor"
	case step >= len(ops):
		return "final check"
	}
	return fmt.Sprintf("op#%d %+v", step, ops[step])
}

// ---------------------------------------------------------------------------
// stack.Stack

type stackRun[T any] struct {
	b                   *bound[T]
	keptSlice, keptCopy []T // an earlier Slice() result and a private copy of it
	c                   SeqCase
	s                   *stack.Stack[T]
	ref                 []int // bottom first
	serial              int
	step                int
	sub                 int

	maxDepth    int
	popThenPush int // a Push/Add after a Pop that left the stack non-empty
	poppedDeep  bool
	peekOut     int
	peekNeg     int
	bigPeeks    int // bigPeek ops (seqbig.go)
	clears      int
	popEmpty    int
}

func (r *stackRun[T]) errf(format string, args ...any) string {
	return fmt.Sprintf("stack %s (sub-step %d, ctor %s): %s%s", opCtx(r.step, r.c.Ops), r.sub, r.c.Ctor, fmt.Sprintf(format, args...), r.b.note())
}

// topFirst returns the reference in the order Each and Slice must use.
func (r *stackRun[T]) topFirst() []int {
	out := make([]int, len(r.ref))
	for i, v := range r.ref {
		out[len(r.ref)-1-i] = v
	}
	return out
}

func (r *stackRun[T]) checkPeek(n int) string {
	got, ok := r.s.Peek(n)
	if n >= len(r.ref) {
		if ok {
			return r.errf("Peek(%d) = (%s, true) on a stack of %d elements, want ok = false", n, r.b.show(got), len(r.ref))
		}
		return ""
	}
	want := r.ref[len(r.ref)-1-n]
	if !ok || !r.b.is(got, want) {
		return r.errf("Peek(%d) = (%s, %v), want (%s, true) (top first: %s)", n, r.b.show(got), ok, r.b.want(want), r.b.wants(r.topFirst()))
	}
	return ""
}

func (r *stackRun[T]) check() string {
	n := len(r.ref)
	if n > r.maxDepth {
		r.maxDepth = n
	}
	want := r.topFirst()
	if got := r.s.Len(); got != n {
		return r.errf("Len = %d, reference has %d elements", got, n)
	}
	if got := r.s.IsEmpty(); got != (n == 0) {
		return r.errf("IsEmpty = %v, reference has %d elements", got, n)
	}
	wantTop := 0
	if n > 0 {
		wantTop = want[0]
	}
	if got := r.s.Top(); !r.b.is(got, wantTop) {
		return r.errf("Top = %s, want %s (top first: %s)", r.b.show(got), r.b.want(wantTop), r.b.wants(want))
	}
	sl := r.s.Slice()
	if n == 0 && sl != nil {
		return r.errf("Slice of an empty stack = %s, want nil", r.b.list(sl))
	}
	if !r.b.eq(sl, want) {
		return r.errf("Slice = %s, reference (newest first) %s", r.b.list(sl), r.b.wants(want))
	}
	if r.keptSlice != nil && !r.b.sameAll(r.keptSlice, r.keptCopy) {
		return r.errf("a slice returned by an earlier Slice() call changed afterwards: now %s, was %s", r.b.list(r.keptSlice), r.b.list(r.keptCopy))
	}
	if n > 0 && (r.keptSlice == nil || n%3 == 0) {
		r.keptSlice = r.s.Slice()
		r.keptCopy = append([]T(nil), r.keptSlice...)
	}
	for i := range sl { // Slice is a copy: scribbling on it must not reach the stack
		sl[i] = r.b.scribble
	}
	got := make([]T, 0, n)
	r.s.Each(func(v T) bool { got = append(got, v); return len(got) < n+8 })
	if !r.b.eq(got, want) {
		return r.errf("Each lists %s, reference (newest first) %s", r.b.list(got), r.b.wants(want))
	}
	for _, k := range []int{0, n - 1, n, n + 1} {
		if k >= 0 {
			if msg := r.checkPeek(k); msg != "" {
				return msg
			}
		}
	}
	return ""
}

func (r *stackRun[T]) doPush(viaAdd bool) string {
	r.serial++
	if viaAdd {
		r.s.Add(r.b.in(r.serial))
	} else {
		r.s.Push(r.b.in(r.serial))
	}
	if r.poppedDeep {
		r.popThenPush++
		r.poppedDeep = false
	}
	r.ref = append(r.ref, r.serial)
	return r.check()
}

func (r *stackRun[T]) doPop() string {
	got, ok := r.s.Pop()
	if len(r.ref) == 0 {
		r.popEmpty++
		if ok {
			return r.errf("Pop on an empty stack = (%s, true), want ok = false", r.b.show(got))
		}
	} else {
		want := r.ref[len(r.ref)-1]
		r.ref = r.ref[:len(r.ref)-1]
		if !ok || !r.b.is(got, want) {
			return r.errf("Pop = (%s, %v), want (%s, true)", r.b.show(got), ok, r.b.want(want))
		}
		if len(r.ref) > 0 {
			r.poppedDeep = true
		}
	}
	return r.check()
}

func (r *stackRun[T]) apply(op Op) string {
	r.sub = 0
	a := abs(op.A)
	switch op.K {
	case "push":
		return r.doPush(false)
	case "add":
		return r.doPush(true)
	case "pop":
		return r.doPop()
	case "top", "len", "slice":
		return r.check()
	case "bigPeek":
		return r.bigPeek(a, abs(op.B), abs(op.C))
	case "peek":
		n := a % (len(r.ref) + 3)
		if a >= 190 { // offsets at the end of the int range
			ext := []int{math.MaxInt, math.MaxInt - 1, math.MaxInt - len(r.ref), 1 << 31, 1 << 32, 1<<63 - 1<<10}
			n = ext[a%len(ext)]
		}
		if n >= len(r.ref) {
			r.peekOut++
		}
		return r.checkPeek(n)
	case "peekNeg":
		n := -(a%3 + 1)
		if a >= 190 {
			n = []int{math.MinInt, math.MinInt + 1, -1 << 32, -math.MaxInt}[a%4]
		}
		r.peekNeg++
		var got T
		var ok bool
		if pv := vk.PanicValue(func() { got, ok = r.s.Peek(n) }); pv == nil {
			return r.errf("Peek(%d) returned (%s, %v); the documentation says Peek panics if n < 0", n, r.b.show(got), ok)
		}
		return r.check()
	case "each":
		n := len(r.ref)
		if n == 0 {
			return r.check()
		}
		j := a%n + 1
		var got []T
		r.s.Each(func(v T) bool { got = append(got, v); return len(got) < j })
		if len(got) != j {
			return r.errf("Each made %d callbacks although the callback returned false at #%d", len(got), j)
		}
		if !r.b.eq(got, r.topFirst()[:j]) {
			return r.errf("Each (stopped at %d) lists %s, reference (newest first) %s", j, r.b.list(got), r.b.wants(r.topFirst()))
		}
		// a second Each from inside the callback of the first, at element j
		var outer, inner []T
		r.s.Each(func(v T) bool {
			if outer = append(outer, v); len(outer) == j {
				r.s.Each(func(w T) bool { inner = append(inner, w); return true })
			}
			return true
		})
		if !r.b.eq(outer, r.topFirst()) || !r.b.eq(inner, r.topFirst()) {
			return r.errf("Each with a second Each run inside its callback (at element %d) lists %s and %s, reference (newest first) %s", j, r.b.list(outer), r.b.list(inner), r.b.wants(r.topFirst()))
		}
		return ""
	case "clear":
		r.s.Clear()
		r.ref = nil
		r.clears++
		r.poppedDeep = false
		return r.check()
	case "pushRun":
		for i, n := 0, runLen(a); i <= n; i++ {
			r.sub = i
			if msg := r.doPush(i%2 == 1); msg != "" {
				return msg
			}
		}
		return ""
	case "popRun":
		for i, n := 0, runLen(a); i <= n; i++ {
			r.sub = i
			if msg := r.doPop(); msg != "" {
				return msg
			}
		}
		return ""
	}
	return r.errf("VK-INFRA unknown op kind %q", op.K)
}

// runStack instantiates the interpreter with the case's element kind.
func runStack(c SeqCase, o *vk.Obs) string {
	elem.ResetPtr()
	switch c.Elem {
	case "", elem.Int:
		return runStackOf(c, o, cmpBound(elem.IntKit()))
	case elem.Str:
		return runStackOf(c, o, cmpBound(elem.StrKit()))
	case elem.I16:
		return runStackOf(c, o, cmpBound(elem.I16Kit()))
	case elem.Wide:
		return runStackOf(c, o, cmpBound(elem.WideKit()))
	case elem.Ptr:
		return runStackOf(c, o, cmpBound(elem.PtrKit()))
	case elem.Any:
		return runStackOf(c, o, cmpBound(elem.AnyKit()))
	case elem.Bytes:
		return runStackOf(c, o, bytesBound())
	}
	return badKind(c.Elem)
}

func runStackOf[T any](c SeqCase, o *vk.Obs, b *bound[T]) string {
	r := &stackRun[T]{b: b, c: c, step: -1}
	switch c.Ctor {
	case "zero":
		var s stack.Stack[T]
		r.s = &s
	case "new":
		r.s = stack.New[T]()
	default:
		return r.errf("VK-INFRA unknown constructor %q", c.Ctor)
	}
	ctx := r.errf
	if msg := guarded(ctx, r.check); msg != "" {
		return msg
	}
	for i, op := range c.Ops {
		o.Step() // interleaved execution (vk.Interleave) switches to the other case here
		r.step = i
		if msg := guarded(ctx, func() string { return r.apply(op) }); msg != "" {
			return msg
		}
	}
	r.step, r.sub = len(c.Ops), 0
	if msg := guarded(ctx, r.check); msg != "" {
		return msg
	}
	if r.popThenPush > 0 && r.peekOut+r.peekNeg > 0 {
		o.NonTrivial()
	}
	o.Class("ctor=" + c.Ctor)
	o.Class("elem=" + kindName(c.Elem))
	o.ClassIf(r.popThenPush > 0, "push_after_pop_on_nonempty")
	o.ClassIf(r.peekOut > 0, "peek_out_of_range")
	o.ClassIf(r.bigPeeks > 0, "big_container_Peek_probes")
	o.ClassIf(r.peekNeg > 0, "peek_negative")
	o.ClassIf(r.clears > 0, "has_clear")
	o.ClassIf(r.popEmpty > 0, "pop_on_empty")
	o.ClassIf(r.maxDepth >= 8, "depth>=8")
	return ""
}

// runLen maps a run argument to a length: mostly 0..11, one argument in eight
// gives a long run (60..260 elements: several growth steps of the backing store).
func runLen(a int) int {
	if a%8 == 7 {
		return 60 + a%201
	}
	return a % 12
}
