package pseq

import (
	"fmt"
	"math"
	"sort"

	"github.com/creachadair/mds/mlink"
	"github.com/creachadair/mds/stack"
	"verif/vk"
)

// ---------------------------------------------------------------------------
// "bigPeek": Peek (and List.At) at large offsets of ONE long stack, queue or
// list.  The histories keep their containers short because the oracle reads
// the whole container after every step; a bigPeek op is self-contained: it
// builds a second container of op.A elements (after op.C%4 extra elements
// that are popped / removed again) beside the one under test, checks Len and
// Each once, probes Peek at offsets around 0, Len/2, Len, 2*Len, powers of
// two, round numbers and the end of the int range, and lets it go.
//
// Oracle (documentation): Peek(n) = (the element n positions from the top /
// front, true) while 0 <= n < Len, ok = false from Len on; List.At(n) is a
// cursor at element n, and the end cursor from Len on.

// mkBig makes an element for position pos of a big container or ring.
func (b *bound[T]) mkBig(pos int) T {
	b.nid++
	return b.k.Make(bigValBase+pos%bigValMod, b.nid)
}

func (b *bound[T]) mkBigs(n int) []T {
	out := make([]T, n)
	for i := range out {
		out[i] = b.mkBig(i)
	}
	return out
}

func bigPeekOffsets(L int, rng *vk.RNG) []int {
	set := map[int]bool{}
	add := func(ks ...int) {
		for _, k := range ks {
			if k >= 0 {
				set[k] = true
			}
		}
	}
	add(0, 1, 2, 3, L/2-1, L/2, L/2+1, L/3, L-L/3, L-3, L-2, L-1, L, L+1, 2*L-1, 2*L, 2*L+1)
	add(rng.Intn(L+1), rng.Intn(L+1), L/2+rng.Intn(L/2+1), rng.Intn(2*L+3))
	add(math.MaxInt, math.MaxInt-1, math.MaxInt-L, 1<<31, 1<<32)
	for t := 16; t/2 <= 2*L; t *= 2 {
		add(t-1, t, t+1, L-t)
	}
	for _, t := range []int{100, 1000, 10000, 100000} {
		if t/2 <= 2*L {
			add(t-1, t, t+1)
		}
	}
	out := make([]int, 0, len(set))
	for k := range set {
		out = append(out, k)
	}
	sort.Ints(out)
	return out
}

// bigSeq is what bigPeekCheck reads; want[k] is the element Peek(k) must report.
type bigSeq[T any] struct {
	what   string
	want   []T
	length func() int
	each   func(func(T) bool)
	peek   func(int) (T, bool)
	at     func(int) (v T, atEnd bool) // List.At(n): Get and AtEnd of the cursor; nil for the others
}

func bigPeekCheck[T any](b *bound[T], errf func(string, ...any) string, g bigSeq[T], rng *vk.RNG) string {
	L := len(g.want)
	if got := g.length(); got != L {
		return errf("big %s: Len = %d, want %d", g.what, got, L)
	}
	n, bad := 0, -1
	g.each(func(v T) bool {
		if n < L && bad < 0 && !b.same(v, g.want[n]) {
			bad = n
		}
		n++
		return n < L+8
	})
	if n != L || bad >= 0 {
		return errf("big %s of %d elements: Each made %d callbacks, first wrong value at callback %d (-1 = none)", g.what, L, n, bad)
	}
	for _, k := range bigPeekOffsets(L, rng) {
		got, ok := g.peek(k)
		switch {
		case k >= L:
			if ok {
				return errf("big %s: Peek(%d) = (%s, true) with %d elements, want ok = false", g.what, k, b.show(got), L)
			}
		case !ok || !b.same(got, g.want[k]):
			return errf("big %s: Peek(%d) = (%s, %v) with %d elements, want (%s, true)", g.what, k, b.show(got), ok, L, b.show(g.want[k]))
		}
		if g.at == nil {
			continue
		}
		v, atEnd := g.at(k)
		switch {
		case k >= L:
			if !atEnd {
				return errf("big %s: At(%d).AtEnd() = false with %d elements (Get = %s), want the end cursor", g.what, k, L, b.show(v))
			}
		case atEnd || !b.same(v, g.want[k]):
			return errf("big %s: At(%d) has AtEnd = %v, Get = %s with %d elements, want a cursor at %s", g.what, k, atEnd, b.show(v), L, b.show(g.want[k]))
		}
	}
	return ""
}

func bigArgs(size, seed, extra int) (n, k int, rng *vk.RNG) {
	n = min(max(size, 1), maxBigRing)
	return n, extra % 4, vk.NewRNG(uint64(seed)*0x9e3779b97f4a7c15 + uint64(n))
}

// bigPeek for stack.Stack: n+k pushes (Push or Add), k pops.
func (r *stackRun[T]) bigPeek(size, seed, extra int) string {
	n, k, rng := bigArgs(size, seed, extra)
	s := stack.New[T]()
	if r.c.Ctor == "zero" {
		s = new(stack.Stack[T])
	}
	vs := r.b.mkBigs(n + k)
	for i, v := range vs {
		if (seed+i)%5 == 0 {
			s.Add(v)
		} else {
			s.Push(v)
		}
	}
	for i := 0; i < k; i++ {
		if got, ok := s.Pop(); !ok || !r.b.same(got, vs[n+k-1-i]) {
			return r.errf("big stack of %d: Pop #%d = (%s, %v), want (%s, true)", n+k, i, r.b.show(got), ok, r.b.show(vs[n+k-1-i]))
		}
	}
	want := make([]T, n)
	for i := range want {
		want[i] = vs[n-1-i]
	}
	r.bigPeeks++
	return bigPeekCheck(r.b, r.errf, bigSeq[T]{what: fmt.Sprintf("stack (%d pushes, %d pops)", n+k, k), want: want,
		length: s.Len, each: s.Each, peek: s.Peek}, rng)
}

// bigPeek for mlink.Queue: n+k adds, k pops.
func (r *mqRun[T]) bigPeek(size, seed, extra int) string {
	n, k, rng := bigArgs(size, seed, extra)
	q := mlink.NewQueue[T]()
	if r.c.Ctor == "zero" {
		q = new(mlink.Queue[T])
	}
	vs := r.b.mkBigs(n + k)
	for _, v := range vs {
		q.Add(v)
	}
	for i := 0; i < k; i++ {
		if got, ok := q.Pop(); !ok || !r.b.same(got, vs[i]) {
			return r.errf("big queue of %d: Pop #%d = (%s, %v), want (%s, true)", n+k, i, r.b.show(got), ok, r.b.show(vs[i]))
		}
	}
	r.bigPeeks++
	return bigPeekCheck(r.b, r.errf, bigSeq[T]{what: fmt.Sprintf("queue (%d adds, %d pops)", n+k, k), want: vs[k:],
		length: q.Len, each: q.Each, peek: q.Peek}, rng)
}

// bigPeek for mlink.List: n+k elements inserted in one of three ways (one Add
// call at the front, one Add per element through a cursor kept at the end,
// Push at the front in reverse order), then k removed at the front.
func (r *listRun[T]) bigPeek(size, seed, extra int) string {
	n, k, rng := bigArgs(size, seed, extra)
	l := mlink.NewList[T]()
	if r.c.Ctor == "zero" {
		l = new(mlink.List[T])
	}
	vs := r.b.mkBigs(n + k)
	var how string
	switch abs(seed) % 3 {
	case 0:
		how = "one Add call"
		l.At(0).Add(vs...)
	case 1:
		how = "one Add per element at the end cursor"
		c := l.End()
		for _, v := range vs {
			c.Add(v)
		}
	default:
		how = "Push at the front in reverse order"
		c := l.At(0)
		for i := len(vs) - 1; i >= 0; i-- {
			c.Push(vs[i])
		}
	}
	c := l.At(0)
	for i := 0; i < k; i++ {
		if got := c.Remove(); !r.b.same(got, vs[i]) {
			return r.errf("big list of %d (%s): Remove #%d at the front = %s, want %s", n+k, how, i, r.b.show(got), r.b.show(vs[i]))
		}
	}
	r.bigPeeks++
	return bigPeekCheck(r.b, r.errf, bigSeq[T]{what: fmt.Sprintf("list (%d elements by %s, %d removed at the front)", n+k, how, k), want: vs[k:],
		length: l.Len, each: l.Each, peek: l.Peek,
		at: func(i int) (T, bool) { cur := l.At(i); return cur.Get(), cur.AtEnd() }}, rng)
}
