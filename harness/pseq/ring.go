package pseq

import (
	"fmt"

	"github.com/creachadair/mds/ring"
	"verif/elem"
	"verif/vk"
)

// ---------------------------------------------------------------------------
// ring.Ring.  Model: a set of cycles of element ids (in Next order).  Every
// element carries its id (1,2,...) as its Value, so Each/Peek are informative.
// (With an element kind other than int the Value is the element that stands
// for the id: the one handed to Of, or the one stored after New.)

// RingCase is a history over a pool of ring elements.
type RingCase struct {
	Elem string `json:"elem,omitempty"` // element kind (see kinds.go); "" = int
	Ops  []Op   `json:"ops"`
}

const maxElems = 24 // small rings; "newBig"/"ofBig" may add one large ring on top (up to 24+300 elements)

type ringRun[T any] struct {
	b    *bound[T]
	c    RingCase
	el   []*ring.Ring[T] // el[id-1]
	ids  map[*ring.Ring[T]]int
	cyc  [][]int
	step int

	joinIdentical, joinAdjacent, joinSameFar, joinSamePred, joinDiff int
	joinDiffSingleR, joinDiffSingleS                                 int
	popSingle, popMulti, nilOps, newNil, skipped                     int
	maxCycle                                                         int
	bigProbes, bigProbes1k                                           int // bigAt ops (ringbig.go)
}

func (r *ringRun[T]) errf(format string, args ...any) string {
	return fmt.Sprintf("ring %s: %s  [reference cycles %v]%s", opCtx(r.step, r.c.Ops), fmt.Sprintf(format, args...), r.cyc, r.b.note())
}

func (r *ringRun[T]) name(p *ring.Ring[T]) string {
	if p == nil {
		return "nil"
	}
	if id, ok := r.ids[p]; ok {
		return fmt.Sprintf("e%d", id)
	}
	return fmt.Sprintf("an unknown element (Value %s)", r.b.show(p.Value))
}

func (r *ringRun[T]) find(id int) (ci, pos int) {
	for ci, c := range r.cyc {
		for pos, x := range c {
			if x == id {
				return ci, pos
			}
		}
	}
	panic(fmt.Sprintf("VK-INFRA element %d is in no reference cycle", id))
}

// rot returns the cycle of id rotated so that it starts at id (a copy).
func (r *ringRun[T]) rot(id int) []int {
	ci, pos := r.find(id)
	c := r.cyc[ci]
	out := make([]int, 0, len(c))
	out = append(out, c[pos:]...)
	return append(out, c[:pos]...)
}

func (r *ringRun[T]) dropCycle(ci int) {
	r.cyc = append(r.cyc[:ci], r.cyc[ci+1:]...)
}

// register walks the n elements of a freshly built ring and gives them ids.
// wantZero: the elements must hold zero values (New); otherwise they must hold
// the ids they are about to get, in order (Of was called with those).
func (r *ringRun[T]) register(what string, head *ring.Ring[T], n int, wantZero bool) string {
	if n <= 0 {
		if head != nil {
			return r.errf("%s returned a non-empty ring, want nil (the empty ring)", what)
		}
		r.newNil++
		return ""
	}
	if head == nil {
		return r.errf("%s returned nil, want a ring of %d elements", what, n)
	}
	var cyc []int
	cur := head
	for i := 0; i < n; i++ {
		if cur == nil {
			return r.errf("%s: Next is nil after %d of %d elements", what, i, n)
		}
		if _, dup := r.ids[cur]; dup {
			return r.errf("%s: walking Next reaches %s after %d steps, want %d distinct new elements", what, r.name(cur), i, n)
		}
		id := len(r.el) + 1
		want := id
		if wantZero {
			want = 0
		}
		if !r.b.is(cur.Value, want) {
			return r.errf("%s: element #%d in Next order holds %s, want %s", what, i, r.b.show(cur.Value), r.b.want(want))
		}
		if wantZero {
			cur.Value = r.b.in(id)
		}
		r.el = append(r.el, cur)
		r.ids[cur] = id
		cyc = append(cyc, id)
		cur = cur.Next()
	}
	if cur != head {
		return r.errf("%s: after %d Next steps the walk is at %s, want back at the start (ring of exactly %d elements)", what, n, r.name(cur), n)
	}
	r.cyc = append(r.cyc, cyc)
	return ""
}

// check is the oracle run after every operation: from every element.
func (r *ringRun[T]) check() string {
	total := 0
	for _, c := range r.cyc {
		total += len(c)
		if len(c) > r.maxCycle {
			r.maxCycle = len(c)
		}
	}
	if total != len(r.el) {
		return r.errf("VK-INFRA reference cycles hold %d ids for %d elements", total, len(r.el))
	}
	for i, e := range r.el {
		id := i + 1
		c := r.rot(id)
		L := len(c)
		at := func(k int) *ring.Ring[T] { return r.el[c[((k%L)+L)%L]-1] }
		if got := e.Next(); got != at(1) {
			return r.errf("e%d.Next() = %s, want %s", id, r.name(got), r.name(at(1)))
		}
		if got := e.Prev(); got != at(-1) {
			return r.errf("e%d.Prev() = %s, want %s", id, r.name(got), r.name(at(-1)))
		}
		if got := e.Next().Prev(); got != e {
			return r.errf("e%d.Next().Prev() = %s, want e%d (Next and Prev must be mutually inverse)", id, r.name(got), id)
		}
		if got := e.Prev().Next(); got != e {
			return r.errf("e%d.Prev().Next() = %s, want e%d (Next and Prev must be mutually inverse)", id, r.name(got), id)
		}
		if !r.b.is(e.Value, id) {
			return r.errf("e%d.Value = %s, want %s", id, r.b.show(e.Value), r.b.want(id))
		}
		if e.IsEmpty() {
			return r.errf("e%d.IsEmpty() = true for a ring element", id)
		}
		// With a large ring in the pool the O(n) walks are made from a sample of
		// its elements (every 7th, plus both ends of the creation order); small
		// rings are always checked from every element.
		if L > 40 && i%7 != 0 && i != len(r.el)-1 {
			continue
		}
		got := make([]T, 0, L)
		e.Each(func(v T) bool { got = append(got, v); return len(got) < len(r.el)+8 })
		if !r.b.eq(got, c) {
			return r.errf("e%d.Each lists %s, want %s", id, r.b.list(got), r.b.wants(c))
		}
		if got := e.Len(); got != L {
			return r.errf("e%d.Len() = %d, want %d", id, got, L)
		}
		for n := -L - 1; n <= L+1; n++ {
			if L > 40 && abs(n) > 3 && abs(abs(n)-L) > 1 && n != L/2 && n != -L/3 {
				continue // large ring: offsets near 0, near +-Len and two interior ones
			}
			gotE := e.At(n)
			gotV, gotOK := e.Peek(n)
			switch {
			case abs(n) < L:
				if gotE != at(n) {
					return r.errf("e%d.At(%d) = %s, want %s (ring of %d)", id, n, r.name(gotE), r.name(at(n)), L)
				}
				if !gotOK || !r.b.same(gotV, at(n).Value) {
					return r.errf("e%d.Peek(%d) = (%s, %v), want (%s, true) (ring of %d)", id, n, r.b.show(gotV), gotOK, r.b.show(at(n).Value), L)
				}
			case abs(n) == L:
				// The comment says "greater than the length"; the code (and
				// TestRing) return nil at exactly |n| == Len.  Both accepted.
				if gotE != nil && gotE != e {
					return r.errf("e%d.At(%d) = %s on a ring of %d, want nil or e%d itself", id, n, r.name(gotE), L, id)
				}
				if gotOK != (gotE != nil) || (gotOK && !r.b.is(gotV, id)) || (!gotOK && !r.b.zero(gotV)) {
					return r.errf("e%d.Peek(%d) = (%s, %v) on a ring of %d while At(%d) = %s", id, n, r.b.show(gotV), gotOK, L, n, r.name(gotE))
				}
			default:
				if gotE != nil {
					return r.errf("e%d.At(%d) = %s on a ring of %d, want nil (|n| exceeds the length)", id, n, r.name(gotE), L)
				}
				if gotOK || !r.b.zero(gotV) {
					return r.errf("e%d.Peek(%d) = (%s, %v) on a ring of %d, want (%s, false)", id, n, r.b.show(gotV), gotOK, L, r.b.want(0))
				}
			}
		}
	}
	return ""
}

func (r *ringRun[T]) doJoin(rid, sid int) string {
	re, se := r.el[rid-1], r.el[sid-1]
	rc, _ := r.find(rid)
	sc, _ := r.find(sid)
	R := r.rot(rid)
	wantRet := 0 // id of the element Join must return, 0 = nil
	var descr string
	switch {
	case rid == sid:
		r.joinIdentical++
		descr = "r == s: nothing lies between them, the ring is unchanged and nil is returned"
	case rc == sc:
		i := 0
		for k, x := range R {
			if x == sid {
				i = k
			}
		}
		switch {
		case i == 1:
			r.joinAdjacent++
		case i == len(R)-1:
			r.joinSamePred++
		default:
			r.joinSameFar++
		}
		descr = fmt.Sprintf("same ring, s is %d steps after r: [r2..ri] = %v is spliced out and returned", i, R[1:i])
		if i > 1 {
			removed := append([]int(nil), R[1:i]...)
			remain := append([]int{rid}, R[i:]...)
			r.dropCycle(rc)
			r.cyc = append(r.cyc, remain, removed)
			wantRet = removed[0]
		}
	default:
		S := r.rot(sid)
		r.joinDiff++
		if len(R) == 1 {
			r.joinDiffSingleR++
		}
		if len(S) == 1 {
			r.joinDiffSingleS++
		}
		res := append([]int{rid}, S...)
		res = append(res, R[1:]...)
		descr = fmt.Sprintf("different rings %v and %v: result %v, returned ring starts after sm", R, S, res)
		wantRet = res[(1+len(S))%len(res)]
		if rc < sc {
			rc, sc = sc, rc
		}
		r.dropCycle(rc)
		r.dropCycle(sc)
		r.cyc = append(r.cyc, res)
	}
	got := re.Join(se)
	var want *ring.Ring[T]
	if wantRet != 0 {
		want = r.el[wantRet-1]
	}
	if got != want {
		return r.errf("e%d.Join(e%d) returned %s, want %s (%s)", rid, sid, r.name(got), r.name(want), descr)
	}
	return ""
}

func (r *ringRun[T]) apply(op Op) string {
	a, b := abs(op.A), abs(op.B)
	E := len(r.el)
	switch op.K {
	case "new":
		n := a%7 - 1
		if n > 0 && E+n > maxElems {
			r.skipped++
			return ""
		}
		return r.register(fmt.Sprintf("New(%d)", n), ring.New[T](n), n, true)
	case "of":
		k := a % 6
		if E+k > maxElems {
			r.skipped++
			return ""
		}
		vs := make([]int, k)
		for i := range vs {
			vs[i] = E + 1 + i
		}
		return r.register(fmt.Sprintf("Of(%d values)", k), ring.Of(r.b.ins(vs)...), k, false)
	case "newBig", "ofBig":
		// one large ring (sizes around internal block sizes); allowed once per history
		if E > maxElems {
			r.skipped++
			return ""
		}
		sizes := []int{31, 32, 33, 63, 64, 65, 70, 96, 97, 127, 128, 129, 200, 256, 257, 300}
		n := sizes[a%len(sizes)]
		if op.K == "newBig" {
			return r.register(fmt.Sprintf("New(%d)", n), ring.New[T](n), n, true)
		}
		vs := make([]int, n)
		for i := range vs {
			vs[i] = E + 1 + i
		}
		return r.register(fmt.Sprintf("Of(%d values)", n), ring.Of(r.b.ins(vs)...), n, false)
	case "bigAt":
		return r.bigAt(a, b, abs(op.C))
	case "nil":
		r.nilOps++
		var z *ring.Ring[T]
		if got := z.Len(); got != 0 {
			return r.errf("nil ring: Len = %d, want 0", got)
		}
		if !z.IsEmpty() {
			return r.errf("nil ring: IsEmpty = false")
		}
		calls := 0
		z.Each(func(T) bool { calls++; return true })
		if calls != 0 {
			return r.errf("nil ring: Each made %d callbacks", calls)
		}
		n := a%5 - 2
		if got := z.At(n); got != nil {
			return r.errf("nil ring: At(%d) = %s, want nil", n, r.name(got))
		}
		if v, ok := z.Peek(n); ok || !r.b.zero(v) {
			return r.errf("nil ring: Peek(%d) = (%s, %v), want (%s, false)", n, r.b.show(v), ok, r.b.want(0))
		}
		if got := z.Pop(); got != nil {
			return r.errf("nil ring: Pop = %s, want nil", r.name(got))
		}
		return ""
	}
	if E == 0 {
		r.skipped++
		return ""
	}
	rid := a%E + 1
	switch op.K {
	case "join":
		return r.doJoin(rid, b%E+1)
	case "joinSame":
		R := r.rot(rid)
		return r.doJoin(rid, R[b%len(R)])
	case "joinDiff":
		rc, _ := r.find(rid)
		var others []int
		for id := 1; id <= E; id++ {
			if ci, _ := r.find(id); ci != rc {
				others = append(others, id)
			}
		}
		if len(others) == 0 {
			r.skipped++
			return ""
		}
		return r.doJoin(rid, others[b%len(others)])
	case "pop":
		ci, pos := r.find(rid)
		c := r.cyc[ci]
		if len(c) == 1 {
			r.popSingle++
		} else {
			r.popMulti++
			rest := append(append([]int(nil), c[:pos]...), c[pos+1:]...)
			r.cyc[ci] = rest
			r.cyc = append(r.cyc, []int{rid})
		}
		if got := r.el[rid-1].Pop(); got != r.el[rid-1] {
			return r.errf("e%d.Pop() returned %s, want e%d itself", rid, r.name(got), rid)
		}
		return ""
	case "each":
		c := r.rot(rid)
		j := b%len(c) + 1
		var got []T
		r.el[rid-1].Each(func(v T) bool { got = append(got, v); return len(got) < j })
		if len(got) != j {
			return r.errf("e%d.Each made %d callbacks although the callback returned false at #%d", rid, len(got), j)
		}
		if !r.b.eq(got, c[:j]) {
			return r.errf("e%d.Each (stopped at %d) lists %s, want %s", rid, j, r.b.list(got), r.b.wants(c[:j]))
		}
		// a second Each (and Len) from inside the callback of the first, at element j
		var outer, inner []T
		r.el[rid-1].Each(func(v T) bool {
			if outer = append(outer, v); len(outer) == j {
				r.el[rid-1].Each(func(w T) bool { inner = append(inner, w); return true })
				_ = r.el[rid-1].Len()
			}
			return true
		})
		if !r.b.eq(outer, c) || !r.b.eq(inner, c) {
			return r.errf("e%d.Each with a second Each run inside its callback (at element %d) lists %s and %s, want %s", rid, j, r.b.list(outer), r.b.list(inner), r.b.wants(c))
		}
		return ""
	}
	return r.errf("VK-INFRA unknown op kind %q", op.K)
}

// runRing instantiates the interpreter with the case's element kind.
func runRing(c RingCase, o *vk.Obs) string {
	elem.ResetPtr()
	switch c.Elem {
	case "", elem.Int:
		return runRingOf(c, o, cmpBound(elem.IntKit()))
	case elem.Str:
		return runRingOf(c, o, cmpBound(elem.StrKit()))
	case elem.I16:
		return runRingOf(c, o, cmpBound(elem.I16Kit()))
	case elem.Wide:
		return runRingOf(c, o, cmpBound(elem.WideKit()))
	case elem.Ptr:
		return runRingOf(c, o, cmpBound(elem.PtrKit()))
	case elem.Any:
		return runRingOf(c, o, cmpBound(elem.AnyKit()))
	case elem.Bytes:
		return runRingOf(c, o, bytesBound())
	}
	return badKind(c.Elem)
}

func runRingOf[T any](c RingCase, o *vk.Obs, b *bound[T]) string {
	r := &ringRun[T]{b: b, c: c, step: -1, ids: map[*ring.Ring[T]]int{}}
	ctx := r.errf
	for i, op := range c.Ops {
		o.Step() // interleaved execution (vk.Interleave) switches to the other case here
		r.step = i
		if msg := guarded(ctx, func() string {
			if m := r.apply(op); m != "" {
				return m
			}
			return r.check()
		}); msg != "" {
			return msg
		}
	}
	if r.joinSameFar+r.joinSamePred > 0 && r.joinDiff > 0 {
		o.NonTrivial()
	}
	o.Class("elem=" + kindName(c.Elem))
	o.ClassIf(r.joinIdentical > 0, "join_identical")
	o.ClassIf(r.joinAdjacent > 0, "join_same_ring_adjacent")
	o.ClassIf(r.joinSameFar > 0, "join_same_ring_distance>=2")
	o.ClassIf(r.joinSamePred > 0, "join_same_ring_s_is_predecessor_of_r")
	o.ClassIf(r.joinDiff > 0, "join_different_rings")
	o.ClassIf(r.joinDiffSingleR > 0, "join_different_r_single")
	o.ClassIf(r.joinDiffSingleS > 0, "join_different_s_single")
	o.ClassIf(r.popSingle > 0, "pop_single")
	o.ClassIf(r.popMulti > 0, "pop_from_longer_ring")
	o.ClassIf(r.nilOps > 0, "nil_receiver_ops")
	o.ClassIf(r.newNil > 0, "New/Of_empty")
	o.ClassIf(r.maxCycle >= 8, "cycle_len>=8")
	o.ClassIf(len(r.el) == 0, "no_elements")
	o.ClassIf(r.bigProbes > 0, "big_ring_At/Peek_probes")
	o.ClassIf(r.bigProbes1k > 0, "big_ring_At/Peek_probes_len>=1024")
	return ""
}
