package pstree

import (
	"fmt"

	"github.com/creachadair/mds/omap"
	"verif/vk"
)

// DeepMapCase: omap.Map[int,int] filled with N keys in ascending (or
// descending) order.  omap fixes the balance factor of its tree, so only a
// map of millions of entries has search paths of 32 nodes and more - longer
// than a fixed-size path buffer sized for "any realistic tree".  Afterwards
// Seek, GetOK and iteration are checked on the keys inserted last (the deepest
// ones), on the first ones and on a spread of others.
type DeepMapCase struct {
	N    int  `json:"n"`
	Desc bool `json:"desc,omitempty"`
}

func runDeepMap(c DeepMapCase, o *vk.Obs) string {
	n := min(max(c.N, 10), 1<<23)
	m := omap.New[int, int]()
	key := func(i int) int { // i-th key in insertion order
		if c.Desc {
			return n - 1 - i
		}
		return i
	}
	for i := 0; i < n; i++ {
		if i&0xfffff == 0 {
			o.Step()
		}
		if !m.Set(key(i), i) {
			return fmt.Sprintf("Set(%d) reported an existing key while filling %d distinct keys", key(i), n)
		}
		if i >= n-300_000 {
			// the key just inserted is the deepest of its path; how deep that is
			// swings with every rebuild, so each of the last 300 000 insertions is
			// followed by a Seek of its key
			if it := m.Seek(key(i)); !it.IsValid() || it.Key() != key(i) || it.Value() != i {
				return fmt.Sprintf("map of %d keys (inserted in %s order): Seek(%d) right after Set(%d) is valid=%v, want an iterator at that key", i+1, map[bool]string{false: "ascending", true: "descending"}[c.Desc], key(i), key(i), it.IsValid())
			}
		}
	}
	if m.Len() != n {
		return fmt.Sprintf("Len = %d after %d distinct Sets", m.Len(), n)
	}
	probe := func(i int) string {
		k := key(i)
		if v, ok := m.GetOK(k); !ok || v != i {
			return fmt.Sprintf("map of %d keys: GetOK(%d) = (%d, %v), want (%d, true)", n, k, v, ok, i)
		}
		it := m.Seek(k)
		if !it.IsValid() || it.Key() != k || it.Value() != i {
			return fmt.Sprintf("map of %d keys (inserted in %s order): Seek(%d) is valid=%v, want an iterator at the present key %d", n, map[bool]string{false: "ascending", true: "descending"}[c.Desc], k, it.IsValid(), k)
		}
		// neighbours through the iterator
		if it.Next(); k+1 < n && (!it.IsValid() || it.Key() != k+1) {
			return fmt.Sprintf("map of %d keys: Seek(%d).Next() does not arrive at %d", n, k, k+1)
		}
		return ""
	}
	for j := 0; j < 80; j++ {
		for _, i := range []int{n - 1 - j, j, (j*7919 + 13) % n, n/2 + j} {
			if msg := probe(i); msg != "" {
				return msg
			}
		}
	}
	if it := m.Last(); !it.IsValid() || it.Key() != n-1 {
		return fmt.Sprintf("map of %d keys: Last is not at key %d", n, n-1)
	}
	if it := m.First(); !it.IsValid() || it.Key() != 0 {
		return fmt.Sprintf("map of %d keys: First is not at key 0", n)
	}
	if n >= 3_450_000 {
		o.NonTrivial()
	}
	o.ClassIf(n >= 3_450_000, "map_of>=3.45M_keys(paths_of>=33_nodes)")
	return ""
}
