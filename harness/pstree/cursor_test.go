package pstree

import (
	"testing"

	"pgregory.net/rapid"
	"verif/vk"
)

var opKindsCursorTree = []string{
	"add", "add", "add", "add", "add", "replace", "remove", "removeI", "removeI",
	"asc", "asc", "desc", "desc", "zig", "zig", "drain", "rm2", "bulkremove", "prune", "deep", "deep",
	"cursor", "cursorI", "cursorI", "clone", "switch", "switch",
}

var moveKinds = []string{
	"left", "left", "right", "right", "up", "up", "min", "max", "next", "next", "next", "prev", "prev", "prev",
	"goto", "goto", "clone", "switch", "switch", "inorder", "inorder", "hasnext", "hasnext", "hasprev", "hasprev",
	"root", "root",
}

func genCursorCase(t *rapid.T) CursorCase {
	var c CursorCase
	c.Tree.Beta = rapid.OneOf(
		rapid.SampledFrom([]int{0, 250, 500, 500, 900, 900, 1000, 1000}),
		rapid.IntRange(0, 1000),
	).Draw(t, "beta")
	c.Tree.Mag = rapid.SampledFrom([]int{0, 0, 1, 2}).Draw(t, "mag")
	genElem(t, &c.Tree)
	c.Tree.Init = rapid.SliceOfN(rapid.IntRange(0, 47), 0, 40).Draw(t, "init")
	c.Tree.Ops = rapid.SliceOfN(genOp(opKindsCursorTree), 0, 25).Draw(t, "ops")
	if rapid.IntRange(0, 3).Draw(t, "skew") > 0 {
		// skewed shapes: a run, then scattered inserts that land deep
		run := rapid.SampledFrom([]string{"asc", "desc", "zig"}).Draw(t, "runKind")
		c.Tree.Ops = append(c.Tree.Ops, Op{Kind: run, A: rapid.IntRange(7, 39).Draw(t, "runLen")},
			Op{Kind: "deep", A: rapid.IntRange(0, 5).Draw(t, "dn"), B: rapid.IntRange(0, 400).Draw(t, "db")})
	}
	if rapid.IntRange(0, 2).Draw(t, "cloneScenario") == 0 {
		// look a key up, clone, edit one side near that key, look the same key up on the other side
		x := rapid.IntRange(0, 47).Draw(t, "cx")
		near := Op{Kind: rapid.SampledFrom([]string{"remove", "add", "replace", "rm2"}).Draw(t, "cedit"), A: (x + rapid.IntRange(-1, 1).Draw(t, "cdx") + 48) % 48}
		c.Tree.Ops = append(c.Tree.Ops, Op{Kind: "add", A: x}, Op{Kind: "cursor", A: x, B: rapid.IntRange(0, 9).Draw(t, "cb1")},
			Op{Kind: "clone", A: rapid.IntRange(0, 1).Draw(t, "cside")}, near, Op{Kind: "switch", A: rapid.IntRange(0, 1).Draw(t, "csw")},
			Op{Kind: "cursor", A: x, B: rapid.IntRange(0, 9).Draw(t, "cb2")}, Op{Kind: "switch", A: 0}, Op{Kind: "cursor", A: x, B: rapid.IntRange(0, 9).Draw(t, "cb3")})
	}
	if rapid.IntRange(0, 3).Draw(t, "shrinkScenario") == 0 {
		// a tree that shrank by removals but not far enough for the rebuild
		// (keys deeper than a fresh tree of that size would have them), then
		// cursors held across read-only calls - among them Add of present keys
		c.Tree.Beta = rapid.SampledFrom([]int{0, 0, 0, 50, 250, 500}).Draw(t, "shrinkBeta")
		l := rapid.IntRange(8, 39).Draw(t, "shrinkLen")
		c.Tree.Ops = append(c.Tree.Ops, Op{Kind: "clear"}, Op{Kind: rapid.SampledFrom([]string{"asc", "desc", "zig"}).Draw(t, "shrinkRun"), A: l - 1})
		for m := rapid.IntRange(l/4, l/2-1).Draw(t, "shrinkRemovals"); m > 0; m-- {
			c.Tree.Ops = append(c.Tree.Ops, Op{Kind: "removeI", A: rapid.IntRange(0, 400).Draw(t, "shrinkRm")})
		}
		for j := 0; j < 3; j++ {
			c.Tree.Ops = append(c.Tree.Ops, Op{Kind: "cursorI", A: rapid.IntRange(0, 400).Draw(t, "shrinkCur"), B: 2 * rapid.IntRange(0, 4).Draw(t, "shrinkSel")})
		}
	}
	c.Moves = rapid.SliceOfN(rapid.Custom(func(t *rapid.T) Move {
		mv := Move{Kind: rapid.SampledFrom(moveKinds).Draw(t, "mk"), A: rapid.IntRange(0, 500).Draw(t, "ma")}
		if mv.Kind == "inorder" {
			// most Inorder moves also move a cursor from inside the loop body
			mv.B = rapid.IntRange(0, 3000).Draw(t, "mb")
		}
		return mv
	}), 0, 60).Draw(t, "moves")
	return c
}

func init() { vk.Register("C03", "cursor", runC03) }

func TestC03Cursor(t *testing.T) {
	h := vk.Start(t, "C03", "cursor")
	vk.Rapid(h, t, genCursorCase, runC03)
}
