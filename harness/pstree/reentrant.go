package pstree

import (
	"fmt"
	"iter"
	"slices"
)

// This file holds the checks about the TIME at which a reader looks at the
// tree: calls that are documented not to change the tree made from inside the
// loop body of an iteration over that very tree (readOnly, checkReentrant),
// cursors held across such calls (checkHeldCursor), and sequences that are
// stored and ranged after the tree has changed (seqKeep, seqRange).

// roNames are the groups of calls readOnly knows.  None of them is documented
// to change the tree it is applied to: Clone "returns a deep copy", Get
// "reports whether key is present", Len/IsEmpty/Min/Max/String report,
// Cursor/Root "construct a cursor", cursor moves move the cursor, the
// iterators "visit" keys, and Add of a present key "returns false without
// modifying the tree".
var roNames = []string{
	"Clone", "Clone+edit the clone", "Get", "Len/IsEmpty", "Min/Max", "Cursor(key)+moves", "Root+moves",
	"Inorder", "InorderAfter", "String", "Inorder stopped early", "Cursor.Inorder",
	"Add(present key)",
}

func equalKeys(got, want []Key) bool { return slices.Equal(got, want) }

// readOnly performs calls that do not change the tree on the tree of in, and
// checks each against the reference.  Two cases out of three perform every
// group, the third performs the single group sel selects.  It returns the
// description of what it did and the violation (if any).
func (r *treeRun[T]) readOnly(in *inst[T], sel int) (what, msg string) {
	if sel < 0 {
		sel = -sel
	}
	t, ks := in.t, in.m.ks
	n := len(ks)
	all := sel%3 != 0
	one := sel / 3 % len(roNames)
	what = "every read-only call"
	if !all {
		what = roNames[one]
	}
	do := func(i int) bool { return all || one == i }
	collect := func(seq iter.Seq[T], lim int) []Key {
		var out []Key
		for x := range seq {
			if out = append(out, r.key(x)); len(out) >= lim {
				break
			}
		}
		return out
	}
	if do(0) {
		cl := t.Clone()
		if got := collect(cl.Inorder, n+2); !equalKeys(got, ks) || cl.Len() != n {
			return what, r.errf("a Clone holds %v (Len %d), the reference holds %v", brief(got), cl.Len(), brief(ks))
		}
	}
	if do(1) && (!all || sel%2 == 0) {
		// "Operations on the clone do not affect t"
		cl := t.Clone()
		cl.Add(r.mk(Key{K: in.absentNear(sel), Tag: -8}))
		if n > 0 {
			cl.Replace(r.mk(Key{K: ks[sel/2%n].K, Tag: -9}))
			cl.Remove(r.mk(Key{K: ks[sel%n].K}))
			cl.Remove(r.mk(Key{K: ks[0].K}))
		}
		if sel%5 == 0 {
			cl.Clear()
		}
	}
	if do(2) {
		if n > 0 {
			if msg := r.checkGet(in, ks[sel%n].K); msg != "" {
				return what, msg
			}
		}
		if msg := r.checkGet(in, in.absentNear(sel/2)); msg != "" {
			return what, msg
		}
	}
	if do(3) {
		if t.Len() != n || t.IsEmpty() != (n == 0) {
			return what, r.errf("Len/IsEmpty = %d/%v, reference has %d", t.Len(), t.IsEmpty(), n)
		}
	}
	if do(4) {
		if got, want := r.key(t.Min()), in.m.min(); got != want {
			return what, r.errf("Min = %+v, want %+v", got, want)
		}
		if got, want := r.key(t.Max()), in.m.max(); got != want {
			return what, r.errf("Max = %+v, want %+v", got, want)
		}
	}
	if do(5) {
		k := in.absentNear(sel)
		if n > 0 && sel%4 != 3 {
			k = ks[sel/4%n].K
		}
		if msg := r.probeCursor(in, k, sel/3); msg != "" {
			return what, msg
		}
	}
	if do(6) {
		c := t.Root()
		if c.Valid() != (n > 0) {
			return what, r.errf("Root().Valid() = %v with %d keys", c.Valid(), n)
		}
		if n > 0 {
			lo, hi := c.Clone().Min(), c.Clone().Max()
			if r.key(lo.Key()) != ks[0] || r.key(hi.Key()) != ks[n-1] {
				return what, r.errf("Root().Min()/Max() are at %v/%v, the set's ends are %v/%v", r.key(lo.Key()), r.key(hi.Key()), ks[0], ks[n-1])
			}
			if lo.HasPrev() || hi.HasNext() || c.HasParent() {
				return what, r.errf("Root: HasParent %v, its Min HasPrev %v, its Max HasNext %v", c.HasParent(), lo.HasPrev(), hi.HasNext())
			}
			if n > 1 {
				if got := r.key(lo.Next().Key()); got != ks[1] {
					return what, r.errf("Root().Min().Next() is at %v, want %v", got, ks[1])
				}
				if got := r.key(hi.Prev().Key()); got != ks[n-2] {
					return what, r.errf("Root().Max().Prev() is at %v, want %v", got, ks[n-2])
				}
			}
			// the root itself moved about (Left, Right, Up)
			c.Left()
			c.Up()
			c.Right()
			c.Up()
		}
	}
	if do(7) {
		if got := collect(t.Inorder, n+2); !equalKeys(got, ks) {
			return what, r.errf("Inorder lists %v, reference %v", brief(got), brief(ks))
		}
	}
	if do(8) {
		k := in.absentNear(sel / 2)
		if n > 0 && sel%2 == 0 {
			k = ks[sel/2%n].K
		}
		i, _ := in.m.find(k)
		if got := collect(t.InorderAfter(r.mk(Key{K: k, Tag: -10})), n+2); !equalKeys(got, ks[i:]) {
			return what, r.errf("InorderAfter(%s) lists %v, reference %v", kstr(k), brief(got), brief(ks[i:]))
		}
	}
	if do(9) {
		if s := t.String(); s == "" {
			return what, r.errf("String() is empty")
		}
	}
	if do(10) && n > 0 {
		lim := sel/5%n + 1
		if got := collect(t.Inorder, lim); !equalKeys(got, ks[:lim]) {
			return what, r.errf("Inorder stopped after %d lists %v, reference %v", lim, brief(got), brief(ks[:lim]))
		}
		if got := collect(t.InorderAfter(r.mk(Key{K: ks[0].K - 1})), lim); !equalKeys(got, ks[:lim]) {
			return what, r.errf("InorderAfter(below the minimum) stopped after %d lists %v, reference %v", lim, brief(got), brief(ks[:lim]))
		}
	}
	if do(11) && n > 0 {
		if got := collect(t.Root().Inorder, n+2); !equalKeys(got, ks) {
			return what, r.errf("Root().Inorder lists %v, reference %v", brief(got), brief(ks))
		}
	}
	if do(12) && n > 0 {
		// "If key is already present, Add returns false without modifying the
		// tree": every key of a small tree, eight spread keys of a large one
		// (the deep ones of a tree that shrank without a rebuild among them)
		stride := 1
		if n > 40 {
			stride = n / 8
		}
		for i := sel % stride; i < n; i += stride {
			if t.Add(r.mk(Key{K: ks[i].K, Tag: -14})) {
				return what, r.errf("Add(%v) = true although the key is present", ks[i])
			}
		}
		if msg := r.checkGet(in, ks[sel%n].K); msg != "" {
			return what, msg
		}
	}
	return what, ""
}

// checkReentrant iterates over the tree (Inorder, or InorderAfter(k)) with a
// loop body that performs read-only calls on the tree being iterated - at one
// element (first, last or the j-th) or at every element.  The calls must see
// the reference, and the iteration must list exactly what it lists with an
// empty loop body.
func (r *treeRun[T]) checkReentrant(in *inst[T], after bool, k int64, j, sel int) string {
	if sel < 0 {
		sel = -sel
	}
	want := in.m.ks
	name := "Inorder"
	var seq iter.Seq[T] = in.t.Inorder
	if after {
		i, _ := in.m.find(k)
		want = in.m.ks[i:]
		name = fmt.Sprintf("InorderAfter(%s)", kstr(k))
		seq = in.t.InorderAfter(r.mk(Key{K: k, Tag: -11}))
	}
	if len(want) == 0 {
		return ""
	}
	j %= len(want)
	switch sel % 6 {
	case 1:
		j = 0
	case 2:
		j = len(want) - 1
	}
	// one case in four: at every element of a small tree, at the first, the
	// j-th and the last element of a larger one
	every := sel/6%4 == 0
	small := len(want) <= 12
	sel /= 24
	var got []Key
	var what, msg string
	at := j
	for x := range seq {
		idx := len(got)
		got = append(got, r.key(x))
		if idx == j || every && (small || idx == 0 || idx == len(want)-1) {
			if what, msg = r.readOnly(in, sel+idx*(sel%7)); msg != "" {
				at = idx
				break
			}
		}
		if len(got) > len(want) {
			break
		}
	}
	where := fmt.Sprintf("at element %d", j)
	if every && small {
		where = "at every element"
	} else if every {
		where += ", the first and the last"
	}
	if msg != "" {
		return fmt.Sprintf("inside the loop body of %s (element %d; calls: %s): %s", name, at, what, msg)
	}
	if !equalKeys(got, want) {
		return r.errf("%s whose loop body makes read-only calls on the same tree (%s; last calls: %s) lists %v, want %v", name, where, what, brief(got), brief(want))
	}
	r.reentrant++
	return ""
}

// checkHeldCursor obtains a cursor, makes read-only calls on the tree, and
// then goes on using the cursor: it must still stand where it stood and walk
// the set in order.
func (r *treeRun[T]) checkHeldCursor(in *inst[T], k int64, sel int) string {
	i, present := in.m.find(k)
	if !present {
		return ""
	}
	ks := in.m.ks
	c := in.t.Cursor(r.mk(Key{K: k, Tag: -12}))
	root := in.t.Root()
	what, msg := r.readOnly(in, sel)
	if msg != "" {
		return msg
	}
	if !c.Valid() || r.key(c.Key()) != ks[i] {
		return r.errf("a cursor at %v is at %v (valid=%v) after read-only calls on its tree (%s)", ks[i], r.key(c.Key()), c.Valid(), what)
	}
	var whole []Key
	root.Inorder(func(x T) bool { whole = append(whole, r.key(x)); return len(whole) <= len(ks) })
	if !equalKeys(whole, ks) {
		return r.errf("the Inorder of a Root() cursor obtained before read-only calls (%s) lists %v, want %v", what, brief(whole), brief(ks))
	}
	fw := sel%2 == 0
	for j, s := i, 0; s < 6; s++ {
		if fw {
			c.Next()
			j++
		} else {
			c.Prev()
			j--
		}
		if j < 0 || j >= len(ks) {
			if c.Valid() {
				return r.errf("a cursor from %v held across read-only calls (%s) is still valid at %v after walking off the end", ks[i], what, r.key(c.Key()))
			}
			break
		}
		if !c.Valid() || r.key(c.Key()) != ks[j] {
			return r.errf("a cursor from %v held across read-only calls (%s) is at %v (valid=%v) after %d steps (forward=%v), reference has %v", ks[i], what, r.key(c.Key()), c.Valid(), s+1, fw, ks[j])
		}
	}
	return ""
}

// seqKeep stores a sequence in slot b%3: InorderAfter(k) for a key chosen by
// a (present, absent, below the minimum), or the method value t.Inorder.
func (r *treeRun[T]) seqKeep(in *inst[T], a, b int) string {
	s := &keptSeq[T]{in: in, madeT: r.step}
	n := len(in.m.ks)
	switch a % 8 {
	case 0, 1:
		if n > 0 {
			s.k = in.m.ks[a/8%n].K
		}
	case 2:
		if n > 0 {
			s.k = in.m.ks[0].K
		}
	case 3:
		s.k = in.absentNear(a / 8)
	case 4:
		s.k = in.absentNear(0) // below the minimum (or any key if empty)
	case 5, 6:
		s.k = baseKey(a / 8 % 48)
	case 7:
		s.all = true
	}
	if s.all {
		s.seq = in.t.Inorder
		s.snap = slices.Clone(in.m.ks)
	} else {
		s.seq = in.t.InorderAfter(r.mk(Key{K: s.k, Tag: -13}))
		i, _ := in.m.find(s.k)
		s.snap = slices.Clone(in.m.ks[i:])
	}
	r.kept[b%3] = s
	return ""
}

// seqRange ranges a stored sequence (the one in slot b%3, or the next stored
// one) - completely, twice, partially with an early break and then completely,
// or through the callback form.  The documentation does not say whether a
// stored sequence is a snapshot of the moment it was obtained or a view of the
// tree at the moment it is ranged; each pass must list one or the other.
func (r *treeRun[T]) seqRange(a, b int) string {
	var s *keptSeq[T]
	for d := 0; d < 3 && s == nil; d++ {
		s = r.kept[(b+d)%3]
	}
	if s == nil {
		return ""
	}
	live := s.in.m.ks
	if !s.all {
		i, _ := s.in.m.find(s.k)
		live = live[i:]
	}
	name := "the stored method value Inorder"
	if !s.all {
		name = fmt.Sprintf("the stored sequence InorderAfter(%s)", kstr(s.k))
	}
	pass := func(lim int, raw bool) string {
		var got []Key
		if raw {
			s.seq(func(x T) bool { got = append(got, r.key(x)); return len(got) < lim })
		} else {
			for x := range s.seq {
				if got = append(got, r.key(x)); len(got) >= lim {
					break
				}
			}
		}
		for _, want := range [][]Key{live, s.snap} {
			if len(want) > lim {
				want = want[:lim]
			}
			if equalKeys(got, want) {
				return ""
			}
		}
		return r.errf("%s obtained at op#%d and ranged now (stopping after %d) lists %v; that is neither what the tree holds now, %v, nor what it held then, %v", name, s.madeT, lim, brief(got), brief(live), brief(s.snap))
	}
	whole := len(live) + len(s.snap) + 2
	part := a/4%(len(live)+1) + 1
	if !equalKeys(live, s.snap) {
		r.keptStale++
	}
	switch a % 4 {
	case 0:
		return pass(whole, false)
	case 1:
		if msg := pass(whole, false); msg != "" {
			return msg
		}
		return pass(whole, a/4%2 == 1)
	case 2:
		if msg := pass(part, false); msg != "" {
			return msg
		}
		return pass(whole, false)
	}
	if msg := pass(part, true); msg != "" {
		return msg
	}
	return pass(whole, true)
}
