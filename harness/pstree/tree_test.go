package pstree

import (
	"fmt"
	"testing"
	"time"

	"pgregory.net/rapid"
	"verif/vk"
)

var opKindsModel = []string{
	"add", "add", "add", "add", "replace", "replace", "addI", "replaceI", "replaceI",
	"remove", "remove", "removeI", "removeI", "removeI", "removeAbsent",
	"get", "getI", "getAbsent", "clear", "clone", "clone", "switch", "switch",
	"inorder", "after", "afterI", "afterI", "afterAbsent", "afterAbsent", "cursor", "cursorI", "cursorI",
	"asc", "asc", "desc", "desc", "zig", "zig", "combA", "combD", "drain", "drain", "rm2", "rm2", "rm2", "bulkremove", "prune",
	"seqKeep", "seqRange", "seqRange",
}

var opKindsDepth = []string{
	"add", "add", "add", "addI", "replaceI",
	"remove", "removeI", "removeI", "removeI", "removeAbsent",
	"getI", "getAbsent", "clear",
	"asc", "asc", "asc", "desc", "desc", "zig", "zig", "combA", "combD", "drain", "drain", "rm2",
	"deep", "deep", "deep", "deep", "deep", "deep", "bulkremove", "prune", "clone", "switch", "switch",
}

func genOp(kinds []string) *rapid.Generator[Op] {
	return rapid.Custom(func(t *rapid.T) Op {
		k := rapid.SampledFrom(kinds).Draw(t, "kind")
		op := Op{Kind: k}
		switch k {
		case "add", "replace", "remove", "get", "after":
			op.A = rapid.IntRange(0, 47).Draw(t, "x")
		case "clear":
		case "ascL", "descL", "combAL", "combDL":
			op.A = rapid.IntRange(0, 1399).Draw(t, "a")
		default:
			op.A = rapid.IntRange(0, 400).Draw(t, "a")
		}
		switch k {
		case "after", "afterI", "afterAbsent", "drain", "deep", "cursor", "cursorI", "asc", "desc", "zig", "ascL", "descL", "combA", "combD", "combAL", "combDL", "shape",
			"inorder", "seqKeep", "seqRange":
			op.B = rapid.IntRange(0, 400).Draw(t, "b")
		}
		return op
	})
}

func genBeta(depth bool) *rapid.Generator[int] {
	if depth {
		return rapid.OneOf(
			rapid.SampledFrom([]int{0, 1, 100, 250, 250, 500, 500, 750, 900, 950, 981, 985, 990, 999}),
			rapid.IntRange(0, 999),
		)
	}
	return rapid.OneOf(
		rapid.SampledFrom([]int{0, 0, 1, 50, 250, 250, 500, 999, 1000, 1000}),
		rapid.IntRange(0, 1000),
	)
}

// genElem draws the element kind of a tree into c: about half of the cases
// keep the original element type, the others are spread over the kinds
// stree.New admits; for the kinds with a natural order, half of the cases use
// a comparison that runs against it.
func genElem(t *rapid.T, c *TreeCase) {
	if rapid.Bool().Draw(t, "elemDefault") {
		return
	}
	c.Elem = rapid.SampledFrom(treeKinds).Draw(t, "elem")
	if c.Elem == "int" || c.Elem == "string" {
		c.Rev = rapid.Bool().Draw(t, "rev")
	}
}

func genTreeCase(depth bool) func(t *rapid.T) TreeCase {
	return func(t *rapid.T) TreeCase {
		c := TreeCase{Beta: genBeta(depth).Draw(t, "beta"), Mag: rapid.SampledFrom([]int{0, 0, 1, 1, 2}).Draw(t, "mag")}
		genElem(t, &c)
		if depth {
			switch rapid.IntRange(0, 3).Draw(t, "initKind") {
			case 0:
			case 1:
				c.Init = rapid.SliceOfNDistinct(rapid.IntRange(0, 4095), 1, 300, rapid.ID[int]).Draw(t, "init")
			default:
				c.Init = rapid.SliceOfN(rapid.IntRange(0, 47), 0, 40).Draw(t, "init")
			}
			c.Ops = rapid.SliceOfN(genOp(opKindsDepth), 0, 40).Draw(t, "ops")
		} else {
			c.Init = rapid.SliceOfN(rapid.IntRange(0, 47), 0, 30).Draw(t, "init")
			c.Ops = rapid.SliceOfN(genOp(opKindsModel), 0, vk.MaxOps(t, 60, 400)).Draw(t, "ops")
		}
		if rapid.IntRange(0, 7).Draw(t, "dupInit") == 0 {
			// bulk construction from a few distinct keys given many times over
			// (the count of arguments and the count of keys differ by a large
			// factor), with a removal or a path-extending run as the first operations
			base := rapid.SliceOfN(rapid.IntRange(0, 47), 1, 8).Draw(t, "dupBase")
			reps := rapid.SampledFrom([]int{3, 4, 5, 9, 17, 40}).Draw(t, "dupReps")
			c.Init = c.Init[:0]
			for j := 0; j < reps; j++ {
				c.Init = append(c.Init, base...)
			}
			first := []Op{{Kind: "removeI", A: rapid.IntRange(0, 400).Draw(t, "dupRm")}}
			if rapid.Bool().Draw(t, "dupRun") {
				first = append(first, Op{Kind: rapid.SampledFrom([]string{"asc", "desc"}).Draw(t, "dupRunKind"), A: rapid.IntRange(0, 39).Draw(t, "dupRunLen")})
			}
			if rapid.Bool().Draw(t, "dupRunFirst") {
				first[0], first[len(first)-1] = first[len(first)-1], first[0]
			}
			c.Ops = append(first, c.Ops...)
		}
		if rapid.IntRange(0, 7).Draw(t, "cloneGrow") == 0 {
			// a tree of hundreds of keys (at ANY balance factor), a Clone that
			// becomes the active tree, and path-extending Adds on the clone: the
			// clone has to balance by the same factor as its source
			grp := []Op{
				{Kind: rapid.SampledFrom([]string{"ascL", "descL"}).Draw(t, "cgFill"), A: rapid.IntRange(0, 1399).Draw(t, "cgLen"), B: rapid.IntRange(0, 2).Draw(t, "cgVia")},
				{Kind: "clone", A: 1},
				{Kind: rapid.SampledFrom([]string{"asc", "desc", "zig"}).Draw(t, "cgRun"), A: rapid.IntRange(7, 39).Draw(t, "cgRunLen"), B: rapid.IntRange(0, 2).Draw(t, "cgRunVia")},
			}
			c.Ops = append(grp, c.Ops...)
		}
		// Construction instead of rejection: most cases get the shapes the
		// non-triviality rule asks for spliced in at drawn positions.
		if rapid.IntRange(0, 3).Draw(t, "structured") > 0 {
			ins := func(op Op) {
				i := rapid.IntRange(0, len(c.Ops)).Draw(t, "pos")
				c.Ops = append(c.Ops[:i], append([]Op{op}, c.Ops[i:]...)...)
			}
			run := rapid.SampledFrom([]string{"asc", "desc", "zig"}).Draw(t, "runKind")
			ins(Op{Kind: run, A: rapid.IntRange(7, 39).Draw(t, "runLen"), B: rapid.IntRange(0, 2).Draw(t, "runVia")})
			if depth && c.Beta >= 800 && rapid.Bool().Draw(t, "long") {
				// loose factors: only a long path-extending run gets near the bound
				ins(Op{Kind: rapid.SampledFrom([]string{"ascL", "descL", "ascL", "descL", "combAL", "combDL"}).Draw(t, "longKind"), A: rapid.IntRange(0, 1399).Draw(t, "longLen"), B: rapid.IntRange(0, 2).Draw(t, "longVia")})
			}
			if depth && c.Beta <= 300 && rapid.IntRange(0, 3).Draw(t, "shaped") == 0 {
				// tight factors: a lopsided but nowhere badly split shape
				ins(Op{Kind: "shape", A: rapid.IntRange(0, 14).Draw(t, "shapeA"), B: rapid.IntRange(0, 400).Draw(t, "shapeB")})
			}
			if depth {
				ins(Op{Kind: "deep", A: rapid.IntRange(0, 5).Draw(t, "deepN"), B: rapid.IntRange(0, 400).Draw(t, "deepB")})
				ins(Op{Kind: "drain", A: rapid.IntRange(0, 3).Draw(t, "dk"), B: rapid.IntRange(0, 3).Draw(t, "dkeep")})
			} else {
				// the two-child removal goes after the run so the tree is big enough
				c.Ops = append(c.Ops, Op{Kind: "rm2", A: rapid.IntRange(0, 400).Draw(t, "rm2")})
				if rapid.Bool().Draw(t, "tailGet") {
					c.Ops = append(c.Ops, Op{Kind: "getI", A: rapid.IntRange(0, 400).Draw(t, "g")})
				}
			}
		}
		if !depth && rapid.Bool().Draw(t, "kept") {
			// a stored sequence that stays alive across runs of insertions and
			// removals (root rebuilds), ranged in between and afterwards
			insAt := func(lo int, op Op) int {
				i := rapid.IntRange(min(lo, len(c.Ops)), len(c.Ops)).Draw(t, "kpos")
				c.Ops = append(c.Ops[:i], append([]Op{op}, c.Ops[i:]...)...)
				return i
			}
			p := insAt(0, Op{Kind: "seqKeep", A: rapid.IntRange(0, 400).Draw(t, "keepA"), B: rapid.IntRange(0, 2).Draw(t, "keepSlot")})
			for range rapid.IntRange(1, 2).Draw(t, "keptRuns") {
				// the drawn history in between changes the tree; half of the time a
				// (short) run or a mass removal is put there as well
				if rapid.Bool().Draw(t, "keptRunToo") {
					kind := rapid.SampledFrom([]string{"asc", "desc", "zig", "drain", "drain", "bulkremove", "removeI", "add"}).Draw(t, "keptRun")
					p = insAt(p+1, Op{Kind: kind, A: rapid.IntRange(0, 19).Draw(t, "keptRunA"), B: rapid.IntRange(0, 400).Draw(t, "keptRunB")})
				}
				p = insAt(p+1, Op{Kind: "seqRange", A: rapid.IntRange(0, 400).Draw(t, "rangeA"), B: rapid.IntRange(0, 2).Draw(t, "rangeSlot")})
			}
		}
		return c
	}
}

func runC01(c TreeCase, o *vk.Obs) string {
	r, msg := runTree(c, mode{model: true}, o)
	if msg != "" {
		return msg
	}
	if (r.monoRun > 0 || r.drained > 0) && r.twoChild > 0 {
		o.NonTrivial()
	}
	o.ClassIf(r.monoRun > 0, "has_monotone_run>=8")
	o.ClassIf(r.drained > 0, "drained_below_half_peak")
	o.ClassIf(r.drainEmpty > 0, "drained_to_empty")
	o.ClassIf(r.clones > 0, "has_clone")
	o.ClassIf(r.twoChild > 0, "two_child_removal")
	o.ClassIf(r.reentrant > 0, "read_only_calls_inside_iteration")
	o.ClassIf(r.keptStale > 0, "stored_sequence_ranged_after_change")
	o.ClassIf(c.Beta == 0, "beta=0")
	o.ClassIf(c.Beta == 1000, "beta=1000")
	o.ClassIf(len(c.Init) > 0, "bulk_init")
	o.ClassIf(c.Mag%3 != 0, "comparator_returns_magnitudes")
	classElem(o, c.Elem, c.Rev)
	return ""
}

func runC02(c TreeCase, o *vk.Obs) string {
	if c.Beta >= 1000 {
		c.Beta = 999
	}
	r, msg := runTree(c, mode{depth: true, model: true}, o) // contents are checked too (large trees)
	if msg != "" {
		return msg
	}
	if r.minSlack <= 1 || r.delRebuild {
		o.NonTrivial()
	}
	switch {
	case r.minSlack <= 0:
		o.Class("slack=0")
	case r.minSlack == 1:
		o.Class("slack=1")
	case r.minSlack <= 3:
		o.Class("slack=2..3")
	case r.minSlack < 1<<30:
		o.Class("slack>=4")
	default:
		o.Class("never_nonempty")
	}
	o.ClassIf(r.delRebuild, "delete_side_rebuild(shadow)")
	o.ClassIf(r.maxHeight >= 8, "height>=8")
	o.ClassIf(len(c.Init) > 47, "bulk_init_large")
	o.ClassIf(c.Beta >= 900, "beta>=900")
	classElem(o, c.Elem, c.Rev)
	for _, op := range c.Ops {
		if op.Kind == "ascL" || op.Kind == "descL" || op.Kind == "combAL" || op.Kind == "combDL" {
			o.Class("long_monotone_run(300..1700)")
			break
		}
	}
	return ""
}

func init() {
	vk.Register("C01", "hist", runC01)
	vk.Register("C02", "bound", runC02)
}

func TestC01Hist(t *testing.T) {
	h := vk.Start(t, "C01", "hist")
	vk.Rapid(h, t, genTreeCase(false), runC01)
}

func TestC02Bound(t *testing.T) {
	h := vk.Start(t, "C02", "bound")
	vk.Rapid(h, t, genTreeCase(true), runC02)
}

// TestC02NewHeights enumerates New(n distinct keys) for every n up to a bound
// and every beta of a small set: height must be floor(log2 n).
func TestC02NewHeights(t *testing.T) {
	h := vk.Start(t, "C02", "newheight")
	maxN := h.Pick(600, 3000)
	slot := h.Slot()
	tl := vk.NewTally()
	for n := 1; n <= maxN && !h.Failed(); n++ {
		// every n with the original element type at the three betas, and once
		// more with one of the other element kinds (cycling with n)
		for bi, beta := range []int{0, 250, 999, 0} {
			// keys in a scrambled order (deterministic)
			c := TreeCase{Beta: beta}
			if bi == 3 {
				c.Beta = []int{0, 250, 999}[n/len(treeKinds)%3]
				c.Elem = treeKinds[n%len(treeKinds)]
				c.Rev = (c.Elem == "int" || c.Elem == "string") && n/(3*len(treeKinds))%2 == 1
			}
			for i := 0; i < n; i++ {
				c.Init = append(c.Init, (i*7919+n)%n)
			}
			slot.Enter(c)
			msg := vk.Guard(func() string { _, m := runTree(c, mode{depth: true}, &vk.Obs{}); return m })
			slot.Leave()
			if msg != "" {
				p := h.Fail(c, msg)
				t.Fatalf("VK-VIOLATION property=C02 leg=newheight replay=%s\n%s", p, msg)
			}
			tl.Evals++
			el := c.Elem
			if el == "" {
				el = "default"
			}
			tl.Classes["elem="+el]++
			if n&(n-1) == 0 || (n+1)&n == 0 {
				tl.NT++ // sizes at a power of two (or one below) are where an off-by-one shows
			}
		}
		if n == 5 || n == 64 {
			h.Sample(map[string]any{"beta": 250, "n_distinct_keys": n, "order": fmt.Sprintf("(i*7919+%d) mod %d", n, n)}, n == 64)
		}
	}
	h.MergeTally(tl)
	h.Exhaustive()
}

func init() {
	vk.Register("C02", "newheight", runC02)
}

func TestReplay(t *testing.T) { vk.ReplayMain(t) }

// preOrders are creation orders of balance factors for the trees made before
// the tree of a case (LongTreeCase.Pre): the first case of every shard of leg
// long - the first trees of a process - uses one of them.
var preOrders = [][]int{{1000}, {999, 1000}, {0, 1000}, {1000, 1, 500}, {500}, {1, 0}, {999}, {1000, 1000, 2}}

// TestC02Long: insertion-only trees of thousands to millions of keys in
// patterned orders (see LongTreeCase).
func TestC02Long(t *testing.T) {
	h := vk.Start(t, "C02", "long")
	slot := h.Slot()
	tl := vk.NewTally()
	var cases []LongTreeCase
	// first in the process: small trees after trees of other factors
	po := preOrders[(h.Shard+int(h.Seed))%len(preOrders)]
	for _, b := range []int{0, 999, 250, 1} {
		cases = append(cases, LongTreeCase{Beta: b, N: 300, Order: "asc", Pre: po})
	}
	var all []LongTreeCase
	sizes := []int{5500, 20000, 1 << 16}
	if h.Thorough() {
		sizes = []int{5500, 20000, 1 << 16, 300000, 1 << 20}
	}
	rng := h.RNG("long")
	for _, n := range sizes {
		for _, order := range []string{"asc", "desc", "zig", "zag", "organ", "rand"} {
			for _, b := range []int{0, 250, 999, 1 + rng.Intn(998)} {
				if b > 700 && n > 6500 {
					b = 700 - b%300 // loose factors make trees of linear depth: a long run would cost n^2
				}
				// strict factors rebuild large subtrees on nearly every insertion of a
				// non-ascending run (measured: beta 0, 70 000 descending keys: 45 s)
				if b < 50 && n > 8000 {
					b += 50
				}
				if b < 250 && n > 100000 {
					b = 250 + b%100
				}
				all = append(all, LongTreeCase{Beta: b, N: n + rng.Intn(1+n/8), Order: order, Seed: rng.Intn(1 << 30)})
			}
		}
	}
	for i, c := range all {
		if i%max(h.NShards, 1) == h.Shard%max(h.NShards, 1) {
			cases = append(cases, c)
		}
	}
	for _, c := range cases {
		if h.Failed() {
			break
		}
		o := &vk.Obs{}
		slot.Enter(c)
		t0 := time.Now()
		msg := vk.Guard(func() string { return runLongTree(c, o) })
		slot.Leave()
		if d := time.Since(t0); d > 2*time.Second {
			t.Logf("slow long case %+v: %v", c, d)
		}
		if msg != "" {
			p := h.Fail(c, msg)
			t.Fatalf("VK-VIOLATION property=C02 leg=long replay=%s\n%s", p, msg)
		}
		tl.AddObs(o)
		h.Sample(c, o.NT)
	}
	h.MergeTally(tl)
}

func init() {
	vk.Register("C02", "long", runLongTree)
}
