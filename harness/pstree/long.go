package pstree

import (
	"cmp"
	"fmt"

	"github.com/creachadair/mds/stree"
	"verif/vk"
)

// LongTreeCase: a tree of N keys (int elements) grown by insertions only, in a
// patterned order - far more keys than the histories of leg bound can afford,
// which measure the whole tree after every operation.  Here the depth of the
// key JUST inserted is measured after every Add (a cursor to it, then Up to
// the root: O(depth)); it is a consequence of the property that no key ever
// lies deeper than the bound, and with insertions only P == Len.  The whole
// tree is measured every 4096 insertions and at the end.  The scapegoat of a
// too-deep insertion into such a tree lies many levels above the new leaf
// (monotone orders: near the root), where a search that gives up after a fixed
// number of levels, or counts sizes in a narrow type, goes wrong.
//
// Pre lists balance factors of other trees that are created (and given a few
// keys) BEFORE the tree of the case: trees are independent of one another,
// whatever their factors and the order they are made in.  In a replay (a new
// process) they are the first trees of the process, as in the first case of a
// test process.
type LongTreeCase struct {
	Beta  int    `json:"beta"`
	N     int    `json:"n"`
	Order string `json:"order"` // asc, desc, zig (outside in), zag (inside out), organ (two interleaved ascending runs), rand
	Seed  int    `json:"seed,omitempty"`
	Pre   []int  `json:"pre,omitempty"`
}

// preTrees creates trees with the given balance factors (0..1000) and adds a
// few keys to each; it returns them so that they stay alive during the case.
func preTrees(pre []int) []*stree.Tree[int] {
	var out []*stree.Tree[int]
	for _, b := range pre {
		b = min(max(b, 0), 1000)
		t := stree.New(b, cmp.Compare[int])
		for k := 0; k < 6; k++ {
			t.Add(k)
		}
		out = append(out, t)
	}
	return out
}

func longKey(c LongTreeCase, n, i int) int {
	switch c.Order {
	case "desc":
		return n - 1 - i
	case "zig": // 0, n-1, 1, n-2, ...
		if i%2 == 0 {
			return i / 2
		}
		return n - 1 - i/2
	case "zag": // from the middle outwards
		if i%2 == 0 {
			return n/2 + i/2
		}
		return n/2 - 1 - i/2
	case "organ": // two ascending runs, interleaved
		if i%2 == 0 {
			return i / 2
		}
		return n + i/2
	case "rand": // a permutation of 0..m-1, m the power of two >= n (odd multiplier)
		m := 1
		for m < n {
			m <<= 1
		}
		return int((uint64(i)*0x9E3779B97F4A7C15 + uint64(c.Seed)) & uint64(m-1))
	}
	return i
}

func runLongTree(c LongTreeCase, o *vk.Obs) string {
	n := min(max(c.N, 1), 1<<22)
	beta := min(max(c.Beta, 0), 999)
	pre := preTrees(c.Pre)
	t := stree.New(beta, cmp.Compare[int])
	desc := fmt.Sprintf("beta %d, %d keys in order %q, trees made before it: %v", beta, n, c.Order, c.Pre)
	minSlack, okDepth, maxSeen := 1<<30, 1, 0
	for i := 0; i < n; i++ {
		if i&0xffff == 0 {
			o.Step()
		}
		k := longKey(c, n, i)
		if !t.Add(k) {
			return fmt.Sprintf("%s: Add(%d) (insertion %d) reported an existing key", desc, k, i+1)
		}
		cur := t.Cursor(k)
		if !cur.Valid() || cur.Key() != k {
			return fmt.Sprintf("%s: Cursor(%d) right after Add(%d) is not at that key", desc, k, k)
		}
		d := 0
		for cur.Up().Valid() {
			if d++; d > i+2 {
				return fmt.Sprintf("%s: walking Up from key %d does not reach the root within %d steps", desc, k, d)
			}
		}
		P := i + 1
		// a depth within the bound for an earlier (smaller) P is within it now
		if d > okDepth {
			if !withinBound(d, beta, P) {
				return fmt.Sprintf("%s: after insertion %d (Len = P = %d) the new key %d lies %d levels below the root; bound log_{2000/%d}(%d)+1 allows %d",
					desc, i+1, P, k, d, 1000+beta, P, maxDepthAllowed(beta, P))
			}
			okDepth = d
		}
		maxSeen = max(maxSeen, d)
		if (i+1)%4096 == 0 || i == n-1 {
			if sl := maxDepthAllowed(beta, P) - maxSeen; sl < minSlack {
				minSlack = sl
			}
			maxSeen = 0
			if t.Len() != P {
				return fmt.Sprintf("%s: Len = %d after %d distinct Adds", desc, t.Len(), P)
			}
			if h := height(t); !withinBound(h, beta, P) {
				return fmt.Sprintf("%s: after insertion %d (Len = P = %d) a key lies %d levels below the root; the bound allows %d", desc, i+1, P, h, maxDepthAllowed(beta, P))
			}
		}
	}
	// contents: ascending iteration lists n distinct keys
	cnt, prev, first := 0, 0, true
	for k := range t.Inorder {
		if !first && k <= prev {
			return fmt.Sprintf("%s: Inorder is not strictly ascending at %d after %d", desc, k, prev)
		}
		prev, first = k, false
		cnt++
	}
	if cnt != n {
		return fmt.Sprintf("%s: Inorder lists %d keys, %d were added", desc, cnt, n)
	}
	for _, p := range pre {
		if p.Len() != 6 {
			return fmt.Sprintf("%s: a tree made before the case has Len %d, want 6", desc, p.Len())
		}
	}
	if n >= 4096 && minSlack <= 1 {
		o.NonTrivial()
	}
	o.ClassIf(n >= 4096, "long_insertion_only_tree>=4096")
	o.ClassIf(n >= 1<<16, "long_insertion_only_tree>=65536")
	o.ClassIf(len(c.Pre) > 0, "other_trees_made_first")
	o.Class("order=" + c.Order)
	return ""
}
