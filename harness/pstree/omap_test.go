package pstree

import (
	"testing"

	"pgregory.net/rapid"
	"verif/vk"
)

var mopKinds = []string{
	"set", "set", "set", "set", "setI", "setI", "del", "delI", "delI", "delAbsent", "clear",
	"get", "getI", "getAbsent", "first", "last", "seek", "seekI", "seekAbsent", "seekAbsent", "seekAbsent",
	"itseek", "itseekI", "itseekAbsent", "next", "next", "next", "prev", "prev", "prev", "prev", "delseek", "delseek",
	"staleProbe", "staleProbe",
}

func genMapCase(t *rapid.T) MapCase {
	c := MapCase{
		Cmp:  rapid.SampledFrom([]string{"nat", "nat", "rev", "half"}).Draw(t, "cmp"),
		Zero: rapid.IntRange(0, 19).Draw(t, "zero") == 0,
		Mag:  rapid.SampledFrom([]int{0, 0, 1, 1, 2}).Draw(t, "mag"),
	}
	// Key and value types: about half of the cases keep int keys (and,
	// independently, int values) as before; the others are spread over the
	// kinds.  Half of the cases with another key kind put their keys at the
	// ends of the key type's range.
	if !rapid.Bool().Draw(t, "elemDefault") {
		c.Elem = rapid.SampledFrom(mapKeyKinds).Draw(t, "elem")
		if rapid.Bool().Draw(t, "span") {
			c.Span = 1
		}
	}
	if !rapid.Bool().Draw(t, "valDefault") {
		c.Val = rapid.SampledFrom(mapValKinds).Draw(t, "val")
	}
	gop := rapid.Custom(func(t *rapid.T) MOp {
		return MOp{Kind: rapid.SampledFrom(mopKinds).Draw(t, "k"), A: rapid.IntRange(0, 600).Draw(t, "a"), B: rapid.IntRange(0, 1).Draw(t, "b"), I: rapid.IntRange(0, 2).Draw(t, "slot")}
	})
	c.Ops = rapid.SliceOfN(gop, 0, vk.MaxOps(t, 50, 400)).Draw(t, "ops")
	if !c.Zero && rapid.IntRange(0, 2).Draw(t, "structured") > 0 {
		// prefix: a few sets and a delete; suffix: seek to an absent inner key, then prev
		var pre []MOp
		for i, n := 0, rapid.SampledFrom([]int{5, 5, 12, 20, 40}).Draw(t, "prefill"); i < n; i++ {
			pre = append(pre, MOp{Kind: "set", A: rapid.IntRange(0, 99).Draw(t, "pk")})
		}
		pre = append(pre, MOp{Kind: "delI", A: rapid.IntRange(0, 99).Draw(t, "pd")})
		c.Ops = append(pre, c.Ops...)
		c.Ops = append(c.Ops, MOp{Kind: "seekAbsent", A: 2 + 3*rapid.IntRange(0, 60).Draw(t, "sa")}, MOp{Kind: "prev"}, MOp{Kind: "prev"})
	}
	if !c.Zero && vk.Rare(t, "spine", 12) {
		// a sorted fill, then everything is deleted except the last few keys and
		// a thinning sample of their ancestors: the survivors sit on one long
		// path (the map is as deep as its peak size allowed) - then Seek each
		n := rapid.SampledFrom([]int{32, 33, 64, 100}).Draw(t, "spineN")
		up := rapid.Bool().Draw(t, "spineUp")
		key := func(i int) int {
			if up {
				return i
			}
			return n - 1 - i
		}
		blk := []MOp{{Kind: "clear"}}
		for i := 0; i < n; i++ {
			blk = append(blk, MOp{Kind: "set", A: key(i)})
		}
		keep := map[int]bool{}
		for _, d := range []int{0, 1, 2, 3, 5, 9, 17, 25, 33, 65} {
			if n-1-d >= 0 {
				keep[n-1-d] = true
			}
		}
		for i := 0; i < n; i++ {
			if !keep[i] {
				blk = append(blk, MOp{Kind: "del", A: key(i)})
			}
		}
		for i := n - 1; i >= 0; i-- {
			if keep[i] {
				blk = append(blk, MOp{Kind: "seek", A: key(i)}, MOp{Kind: "get", A: key(i)})
			}
		}
		c.Ops = append(c.Ops, blk...)
	}
	return c
}

func init() {
	vk.Register("C04", "hist", runC04)
	vk.Register("C04", "float", runC04Float)
	vk.Register("C04", "str", runC04Str)
	vk.Register("C04", "deep", runDeepMap)
}

func TestC04Float(t *testing.T) {
	h := vk.Start(t, "C04", "float")
	vk.Rapid(h, t, func(t *rapid.T) FloatMapCase {
		gop := rapid.Custom(func(t *rapid.T) MOp {
			return MOp{Kind: rapid.SampledFrom([]string{"set", "set", "set", "del", "get", "seek"}).Draw(t, "k"), A: rapid.IntRange(0, 11).Draw(t, "key")}
		})
		return FloatMapCase{Ops: rapid.SliceOfN(gop, 1, 30).Draw(t, "ops")}
	}, runC04Float)
}

// TestC04Deep: maps of millions of keys (see DeepMapCase).
func TestC04Deep(t *testing.T) {
	h := vk.Start(t, "C04", "deep")
	slot := h.Slot()
	tl := vk.NewTally()
	cases := []DeepMapCase{{N: 3_460_000}}
	if h.Thorough() {
		cases = append(cases, DeepMapCase{N: 3_460_000, Desc: true}, DeepMapCase{N: 6_000_000}, DeepMapCase{N: 1 << 20})
	}
	for _, c := range cases {
		if h.Failed() {
			break
		}
		o := &vk.Obs{}
		slot.Enter(c)
		msg := vk.Guard(func() string { return runDeepMap(c, o) })
		slot.Leave()
		if msg != "" {
			p := h.Fail(c, msg)
			t.Fatalf("VK-VIOLATION property=C04 leg=deep replay=%s\n%s", p, msg)
		}
		tl.AddObs(o)
		h.Sample(c, o.NT)
	}
	h.MergeTally(tl)
}

func TestC04Str(t *testing.T) {
	h := vk.Start(t, "C04", "str")
	vk.Rapid(h, t, func(t *rapid.T) StrMapCase {
		gop := rapid.Custom(func(t *rapid.T) MOp {
			return MOp{Kind: rapid.SampledFrom([]string{"set", "set", "set", "set", "del", "get", "seek", "last", "clear"}).Draw(t, "k"),
				A: rapid.IntRange(0, len(strKeys)-1).Draw(t, "key"), B: rapid.IntRange(0, len(strKeys)-1).Draw(t, "val")}
		})
		return StrMapCase{Func: rapid.Bool().Draw(t, "func"), Zero: rapid.IntRange(0, 3).Draw(t, "zero") == 0,
			Ops: rapid.SliceOfN(gop, 1, 30).Draw(t, "ops")}
	}, runC04Str)
}

func TestC04Hist(t *testing.T) {
	h := vk.Start(t, "C04", "hist")
	vk.Rapid(h, t, genMapCase, runC04)
}
