package pstree

import (
	"cmp"
	"fmt"
	"math"
	"sort"

	"github.com/creachadair/mds/omap"
	"verif/vk"
)

// FloatMapCase exercises omap.New (the natural order of an ordered key type)
// with float64 keys: NaN (which the natural order places before everything
// and equal to itself), infinities and signed zeros.
type FloatMapCase struct {
	Ops []MOp `json:"ops"` // Kind set/del/get/seek; A selects the key, see floatKeys
}

var floatKeys = []float64{math.NaN(), math.Inf(-1), -2.5, -1, math.Copysign(0, -1), 0, 1, 2.5, math.Inf(1), math.Float64frombits(0x7ff8000000000001), 1e300, -1e-300}

type fkv struct {
	k float64
	v int
}

func runC04Float(c FloatMapCase, o *vk.Obs) string {
	m := omap.New[float64, int]()
	var ref []fkv
	lower := func(k float64) int {
		return sort.Search(len(ref), func(i int) bool { return cmp.Compare(ref[i].k, k) >= 0 })
	}
	find := func(k float64) (int, bool) {
		i := lower(k)
		return i, i < len(ref) && cmp.Compare(ref[i].k, k) == 0
	}
	sawNaN := false
	for i, op := range c.Ops {
		o.Step() // interleaved execution (vk.Interleave) switches to the other case here
		k := floatKeys[op.A%len(floatKeys)]
		errf := func(format string, args ...any) string {
			return fmt.Sprintf("op#%d %s(%v) on omap.New[float64,int]: %s", i, op.Kind, k, fmt.Sprintf(format, args...))
		}
		if k != k {
			sawNaN = true
		}
		switch op.Kind {
		case "set":
			j, found := find(k)
			if got := m.Set(k, 100+i); got != !found {
				return errf("Set = %v, reference says key new = %v", got, !found)
			}
			if found {
				ref[j].v = 100 + i
			} else {
				ref = append(ref, fkv{})
				copy(ref[j+1:], ref[j:])
				ref[j] = fkv{k, 100 + i}
			}
		case "del":
			j, found := find(k)
			if got := m.Delete(k); got != found {
				return errf("Delete = %v, reference says present = %v", got, found)
			}
			if found {
				ref = append(ref[:j], ref[j+1:]...)
			}
		case "get":
			j, found := find(k)
			v, ok := m.GetOK(k)
			if ok != found || (found && v != ref[j].v) {
				return errf("GetOK = (%v,%v), reference found=%v", v, ok, found)
			}
		case "seek":
			it := m.Seek(k)
			j := lower(k)
			if it.IsValid() != (j < len(ref)) || (j < len(ref) && (cmp.Compare(it.Key(), ref[j].k) != 0 || it.Value() != ref[j].v)) {
				return errf("Seek lands on valid=%v key=%v, reference index %d of %d", it.IsValid(), it.Key(), j, len(ref))
			}
		default:
			return errf("VK-INFRA unknown op")
		}
		if m.Len() != len(ref) {
			return errf("Len = %d, reference %d", m.Len(), len(ref))
		}
		keys := m.Keys()
		if len(keys) != len(ref) {
			return errf("Keys = %v, reference has %d entries", keys, len(ref))
		}
		j := 0
		for it := m.First(); it.IsValid(); it.Next() {
			if j >= len(ref) || cmp.Compare(it.Key(), ref[j].k) != 0 || it.Value() != ref[j].v || cmp.Compare(keys[j], ref[j].k) != 0 {
				return errf("iteration entry %d = %v:%v (Keys %v), reference %v", j, it.Key(), it.Value(), keys, ref)
			}
			j++
		}
		if j != len(ref) {
			return errf("iteration yields %d entries, reference %d", j, len(ref))
		}
	}
	if sawNaN && len(c.Ops) >= 4 {
		o.NonTrivial()
	}
	o.ClassIf(sawNaN, "NaN_key_used")
	return ""
}
