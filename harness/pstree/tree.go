// Package pstree holds the checks for stree.Tree (C01, C02), stree.Cursor
// (C03) and omap.Map (C04).
package pstree

import (
	"fmt"
	"iter"
	"math"
	"math/big"
	"slices"
	"sort"
	"strings"
	"sync"

	"github.com/creachadair/mds/stree"
	"verif/elem"
	"verif/vk"
)

// Key is the original element type of the trees under test, and the form in
// which the reference model holds the elements of every other element kind
// (see TreeCase.Elem).  Only K takes part in the comparison, so which
// representative of an equivalence class is stored is observable through Tag.
type Key struct {
	K   int64
	Tag int
}

// String prints base keys (multiples of 2^40) by their small number.
func (k Key) String() string {
	if k.K%(1<<keyShift) == 0 {
		return fmt.Sprintf("k%d#%d", k.K>>keyShift, k.Tag)
	}
	return fmt.Sprintf("k(%d+%d/2^40)#%d", k.K>>keyShift, k.K&(1<<keyShift-1), k.Tag)
}

func kstr(k int64) string { return Key{K: k}.String() }

func cmpKey(a, b Key) int {
	switch {
	case a.K < b.K:
		return -1
	case a.K > b.K:
		return 1
	}
	return 0
}

const keyShift = 40 // base keys are x<<40 so that 40 midpoints fit in any gap

// Op is one step of a tree history.  Arguments are state-independent; the
// interpreter resolves them against the current state.
type Op struct {
	Kind string `json:"k"`
	A    int    `json:"a,omitempty"`
	B    int    `json:"b,omitempty"`
}

// TreeCase is a history for one tree (and its clones).
type TreeCase struct {
	// Mag selects the magnitude of the comparator's non-zero results: 0 gives
	// -1/+1, 1 gives the key difference (any non-zero int), 2 gives +-MaxInt32.
	// The documentation only promises the sign to matter.
	Mag  int   `json:"mag,omitempty"`
	Beta int   `json:"beta"`
	Init []int `json:"init,omitempty"` // base key numbers for New; tags are -(i+1)
	Ops  []Op  `json:"ops"`
	// Elem selects the element type the tree is instantiated with: "" is Key;
	// "int", "string", "wide", "ptr", "any" and "bytes" are the kinds of package
	// elem.  The reference model stays in Keys (K = value, Tag = identity)
	// whatever the kind; elements are converted where they enter and leave the
	// library.
	Elem string `json:"elem,omitempty"`
	// Rev negates the value on its way into the element, so that the order the
	// comparison function defines is the reverse of the element type's natural
	// order (for the kinds that have one).
	Rev bool `json:"rev,omitempty"`
}

// keyKit is the element kit of the original element type, Key.
func keyKit() elem.Kit[Key] {
	return elem.Kit[Key]{Kind: "", HasID: true,
		Make: func(v, id int) Key { return Key{K: int64(v), Tag: id} },
		V:    func(k Key) int { return int(k.K) },
		ID:   func(k Key) int { return k.Tag },
		Same: func(a, b Key) bool { return a == b },
		Cmp:  func(a, b Key) int { return cmpKey(a, b) },
	}
}

// model is the reference sorted set: keys ascending by K.
type model struct{ ks []Key }

func (m *model) find(k int64) (int, bool) {
	i := sort.Search(len(m.ks), func(i int) bool { return m.ks[i].K >= k })
	return i, i < len(m.ks) && m.ks[i].K == k
}
func (m *model) clone() *model { return &model{ks: append([]Key(nil), m.ks...)} }
func (m *model) add(k Key, replace bool) bool {
	i, ok := m.find(k.K)
	if ok {
		if replace {
			m.ks[i] = k
		}
		return false
	}
	m.ks = append(m.ks, Key{})
	copy(m.ks[i+1:], m.ks[i:])
	m.ks[i] = k
	return true
}
func (m *model) remove(k int64) bool {
	i, ok := m.find(k)
	if !ok {
		return false
	}
	m.ks = append(m.ks[:i], m.ks[i+1:]...)
	return true
}
func (m *model) min() Key {
	if len(m.ks) == 0 {
		return Key{}
	}
	return m.ks[0]
}
func (m *model) max() Key {
	if len(m.ks) == 0 {
		return Key{}
	}
	return m.ks[len(m.ks)-1]
}

// inst is one tree under test with its model and balance bookkeeping.
type inst[T any] struct {
	t    *stree.Tree[T]
	m    *model
	peak int // P: largest Len since creation, Clear or last empty
	// for C01's NT rule
	hiWater int
	// shadow of the documented rebuild rule, used ONLY to label cases
	smax int
}

type mode struct {
	model bool // compare with the reference set after every step (C01)
	depth bool // check the height bound after every single operation (C02)
}

// treeStats are the measurements of one run (for the NT rule and the classes).
type treeStats struct {
	monoRun, drained, twoChild, clones, drainEmpty, pruned, shaped, nested int
	reentrant, keptStale                                                   int
	minSlack                                                               int
	delRebuild                                                             bool
	maxHeight                                                              int
	succUp2                                                                bool
}

// treeRun interprets a TreeCase on a tree of element type T.
type treeRun[T any] struct {
	c        TreeCase
	kit      elem.Kit[T]
	md       mode
	o        *vk.Obs
	insts    []*inst[T]
	act      int
	step     int // op index (for tags and messages)
	sub      int // sub-step inside a macro op
	tag      int
	cmps     int    // comparator call counter
	cheapKey *int64 // see after()
	kept     [3]*keptSeq[T]

	treeStats
}

// keptSeq is a sequence obtained from a tree and STORED (ops "seqKeep" and
// "seqRange"): ranged later, after the tree has changed.
type keptSeq[T any] struct {
	seq   iter.Seq[T]
	in    *inst[T]
	k     int64
	all   bool  // the method value t.Inorder instead of t.InorderAfter(k)
	snap  []Key // what the reference held (>= k) when the sequence was obtained
	madeT int   // op index
}

// mk converts a key of the model into an element for the library.  For the
// "ptr" and "any" kinds every call allocates a new cell.
func (r *treeRun[T]) mk(k Key) T {
	v := int(k.K)
	if r.c.Rev {
		v = -v
	}
	return r.kit.Make(v, k.Tag)
}

// isZero reports whether x is the zero value of the element type.
func (r *treeRun[T]) isZero(x T) bool {
	var zero T
	return r.kit.Same(x, zero)
}

// key converts an element that came out of the library into the model's
// terms: K is its value and Tag its identity (0 for kinds that carry none).
// The zero element gives the zero Key.
func (r *treeRun[T]) key(x T) Key {
	if r.kit.Kind != "" && r.isZero(x) {
		return Key{}
	}
	v := r.kit.V(x)
	if r.c.Rev {
		v = -v
	}
	return Key{K: int64(v), Tag: r.kit.ID(x)}
}

// ref returns the Key the model stores for (k, tag): kinds that cannot carry
// an identity store tag 0, so which of several equal-valued elements is held
// is not compared for them.
func (r *treeRun[T]) ref(k int64, tag int) Key {
	if !r.kit.HasID {
		tag = 0
	}
	return Key{K: k, Tag: tag}
}

// val is the value of an element alone (the comparison's view of it).
func (r *treeRun[T]) val(x T) int64 {
	if r.kit.Kind != "" && r.isZero(x) {
		return 0
	}
	v := r.kit.V(x)
	if r.c.Rev {
		v = -v
	}
	return int64(v)
}

func (r *treeRun[T]) compare(x, y T) int {
	r.cmps++
	a, b := Key{K: r.val(x)}, Key{K: r.val(y)}
	c := cmpKey(a, b)
	switch r.c.Mag % 3 {
	case 1:
		d := (a.K - b.K) >> (keyShift - 3)
		if d == 0 {
			d = int64(c)
		}
		if d > 1<<30 {
			d = 1 << 30
		} else if d < -(1 << 30) {
			d = -(1 << 30)
		}
		return int(d)
	case 2: // the extreme values of int
		if c < 0 {
			return math.MinInt
		} else if c > 0 {
			return math.MaxInt
		}
	}
	return c
}

func (r *treeRun[T]) cur() *inst[T] { return r.insts[r.act] }

func (r *treeRun[T]) errf(format string, args ...any) string {
	op := "init"
	if r.step >= len(r.c.Ops) {
		op = "final check"
	} else if r.step >= 0 {
		op = fmt.Sprintf("op#%d %+v", r.step, r.c.Ops[r.step])
	}
	el := ""
	if r.c.Elem != "" || r.c.Rev {
		el = fmt.Sprintf(", elem %q rev %v", r.c.Elem, r.c.Rev)
	}
	return fmt.Sprintf("%s (sub-step %d, tree %d, beta %d%s): %s", op, r.sub, r.act, r.c.Beta, el, fmt.Sprintf(format, args...))
}

func baseKey(x int) int64 { return int64(x) << keyShift }

// lopsidedOrder returns the level order of the in-order indices 0..n-1 of a
// lopsided shape (see op "shape"): a selects the sibling fraction and the
// side of the spine, b the number of spine levels; at most maxN nodes.
func lopsidedOrder(a, b, maxN int) []int {
	type shp struct {
		size  int
		l, r  *shp
		index int
	}
	var perfect func(n int) *shp
	perfect = func(n int) *shp {
		if n <= 0 {
			return nil
		}
		l := (n - 1) / 2
		return &shp{size: n, l: perfect(l), r: perfect(n - 1 - l)}
	}
	fr := [][2]int{{2, 3}, {1, 2}, {3, 4}, {1, 1}, {9, 10}}[a%5]
	side := a / 5 % 3 // 0 spine to the left, 1 to the right, 2 alternating
	depth := b%14 + 3
	cur := &shp{size: 1}
	for d := 1; d <= depth; d++ {
		sib := perfect((fr[0]*cur.size + fr[1] - 1) / fr[1])
		n := 1 + cur.size
		if sib != nil {
			n += sib.size
		}
		if n > maxN {
			break
		}
		if side == 0 || side == 2 && d%2 == 0 {
			cur = &shp{size: n, l: cur, r: sib}
		} else {
			cur = &shp{size: n, l: sib, r: cur}
		}
	}
	next := 0
	var label func(s *shp)
	label = func(s *shp) {
		if s != nil {
			label(s.l)
			s.index = next
			next++
			label(s.r)
		}
	}
	label(cur)
	var out []int
	for q := []*shp{cur}; len(q) > 0; q = q[1:] {
		if c := q[0]; c != nil {
			out = append(out, c.index)
			q = append(q, c.l, c.r)
		}
	}
	return out
}

func (r *treeRun[T]) nextTag() int { r.tag++; return r.tag }

// start builds the initial tree.
func (r *treeRun[T]) start() string {
	r.step = -1
	r.minSlack = 1 << 30
	var keys []Key
	for i, x := range r.c.Init {
		keys = append(keys, r.ref(baseKey(x), -(i+1)))
	}
	var t *stree.Tree[T]
	arg := make([]T, len(keys))
	for i, k := range keys {
		arg[i] = r.mk(k)
	}
	if pv := vk.PanicValue(func() { t = stree.New(r.c.Beta, r.compare, arg...) }); pv != nil {
		return r.errf("New(beta=%d, %d keys) panicked: %v", r.c.Beta, len(keys), pv)
	}
	for i := range arg { // the caller may reuse its slice: the tree must not depend on it afterwards
		arg[i] = r.mk(Key{K: -1 << 50, Tag: -1 << 30})
	}
	// Reference: one representative per K; any of the supplied tags is allowed.
	allowed := map[int64]map[int]bool{}
	for _, k := range keys {
		if allowed[k.K] == nil {
			allowed[k.K] = map[int]bool{}
		}
		allowed[k.K][k.Tag] = true
	}
	m := &model{}
	var got []Key
	t.Inorder(func(x T) bool { got = append(got, r.key(x)); return true })
	if len(got) != len(allowed) {
		return r.errf("New: tree lists %d keys, want %d distinct", len(got), len(allowed))
	}
	for i, k := range got {
		if !allowed[k.K][k.Tag] {
			return r.errf("New: stored %+v is not one of the supplied keys", k)
		}
		if i > 0 && got[i-1].K >= k.K {
			return r.errf("New: Inorder not strictly ascending at %d: %+v then %+v", i, got[i-1], k)
		}
		m.ks = append(m.ks, k)
	}
	in := &inst[T]{t: t, m: m, peak: len(m.ks), hiWater: len(m.ks), smax: len(m.ks)}
	r.insts = []*inst[T]{in}
	if msg := r.after(in, true); msg != "" {
		return msg
	}
	if r.md.depth && len(m.ks) > 0 {
		// A tree built by New from n distinct keys has height floor(log2 n).
		h := height(t)
		want := 0
		for n := len(m.ks); n > 1; n >>= 1 {
			want++
		}
		if h != want {
			return r.errf("New(%d distinct keys): height %d, want floor(log2 n) = %d", len(m.ks), h, want)
		}
	}
	return ""
}

// height measures the height (edges on the longest root-leaf path) through
// the public cursor API; an empty tree has height -1.
func height[T any](t *stree.Tree[T]) int {
	c := t.Root()
	if !c.Valid() {
		return -1
	}
	return heightAt(c, 0, t.Len())
}

// walkGuard stops a structure walk that descends deeper than the tree has
// keys (only possible if Left/Right/Up misbehave); the kit reports the panic.
func walkGuard(depth, n int) {
	if depth > n+1 {
		panic(fmt.Sprintf("structure walk through Left/Right/Up reached depth %d in a tree of %d keys", depth, n))
	}
}

func heightAt[T any](c *stree.Cursor[T], depth, n int) int {
	walkGuard(depth, n)
	h := 0
	if c.HasLeft() {
		c.Left()
		if x := heightAt(c, depth+1, n) + 1; x > h {
			h = x
		}
		c.Up()
	}
	if c.HasRight() {
		c.Right()
		if x := heightAt(c, depth+1, n) + 1; x > h {
			h = x
		}
		c.Up()
	}
	return h
}

// deepestLeaf returns the key of a deepest node and its depth.
func deepestLeaf[T any](t *stree.Tree[T]) (T, int, bool) {
	c := t.Root()
	var best T
	if !c.Valid() {
		return best, 0, false
	}
	bestD := -1
	var walk func(d int)
	n := t.Len()
	walk = func(d int) {
		walkGuard(d, n)
		if d > bestD {
			bestD, best = d, c.Key()
		}
		if c.HasLeft() {
			c.Left()
			walk(d + 1)
			c.Up()
		}
		if c.HasRight() {
			c.Right()
			walk(d + 1)
			c.Up()
		}
	}
	walk(0)
	return best, bestD, true
}

var (
	bigMu    sync.Mutex
	bigCache = map[[2]int]*big.Int{}
)

// pow returns base^e (cached; safe for concurrent use: cases may run on
// several goroutines at once).
func pow(base, e int) *big.Int {
	k := [2]int{base, e}
	bigMu.Lock()
	defer bigMu.Unlock()
	if v, ok := bigCache[k]; ok {
		return v
	}
	v := new(big.Int).Exp(big.NewInt(int64(base)), big.NewInt(int64(e)), nil)
	bigCache[k] = v
	return v
}

// withinBound reports whether d <= log_{2000/(1000+beta)}(P) + 1, exactly.
func withinBound(d, beta, P int) bool {
	if d <= 1 {
		return true
	}
	if beta >= 1000 {
		return true // no bound is claimed for beta = 1000
	}
	if P <= 0 {
		return false
	}
	lhs := pow(2000, d-1)
	rhs := new(big.Int).Mul(big.NewInt(int64(P)), pow(1000+beta, d-1))
	return lhs.Cmp(rhs) <= 0
}

// maxDepthAllowed returns the largest d satisfying withinBound.  It is used
// for messages and for the slack histogram only (the oracle itself is the
// exact withinBound test on the measured depth), so it starts from a floating
// point estimate and adjusts it with a few exact tests, and falls back to the
// estimate where the exact numbers would be huge (very loose factors).
func maxDepthAllowed(beta, P int) int {
	if P <= 0 {
		return 1
	}
	if beta >= 1000 {
		return 1 << 30
	}
	b := 2000.0 / float64(1000+beta)
	est := int(math.Log(float64(P))/math.Log(b)) + 1
	if est > 3000 {
		return est
	}
	d := est + 2
	for d > 1 && !withinBound(d, beta, P) {
		d--
	}
	for withinBound(d+1, beta, P) {
		d++
	}
	return d
}

// after is the oracle run after every single operation on in.
func (r *treeRun[T]) after(in *inst[T], full bool) string {
	t, m := in.t, in.m
	n := len(m.ks)
	if n == 0 {
		in.peak = 0
	} else if n > in.peak {
		in.peak = n
	}
	if n > in.hiWater {
		in.hiWater = n
	}
	if got := t.Len(); got != n {
		return r.errf("Len = %d, reference has %d", got, n)
	}
	if got := t.IsEmpty(); got != (n == 0) {
		return r.errf("IsEmpty = %v with reference size %d", got, n)
	}
	if r.md.model {
		if got, want := r.key(t.Min()), m.min(); got != want {
			return r.errf("Min = %+v, want %+v", got, want)
		}
		if got, want := r.key(t.Max()), m.max(); got != want {
			return r.errf("Max = %+v, want %+v", got, want)
		}
		if full || n <= 64 || (r.step+r.sub)%8 == 0 {
			if msg := r.checkContents(in); msg != "" {
				return msg
			}
		}
	}
	if r.md.depth && r.cheapKey != nil {
		// inside a long monotone run: the full O(n) height walk is done every
		// 16th element; in between only the depth of the key just inserted is
		// measured (comparisons of a successful lookup = depth + 1)
		r.cmps = 0
		if _, ok := t.Get(r.mk(Key{K: *r.cheapKey})); ok && n > 0 {
			if d := r.cmps - 1; !withinBound(d, r.c.Beta, in.peak) {
				return r.errf("key %s lies at depth %d, but log_{2000/%d}(P=%d)+1 allows at most %d (Len %d)", kstr(*r.cheapKey), d, 1000+r.c.Beta, in.peak, maxDepthAllowed(r.c.Beta, in.peak), n)
			}
		}
	} else if r.md.depth {
		h := height(t)
		if h > r.maxHeight {
			r.maxHeight = h
		}
		if n > 0 {
			if !withinBound(h, r.c.Beta, in.peak) {
				return r.errf("a key lies at depth %d, but log_{2000/%d}(P=%d)+1 allows at most %d (Len %d)", h, 1000+r.c.Beta, in.peak, maxDepthAllowed(r.c.Beta, in.peak), n)
			}
			if r.c.Beta < 1000 {
				if s := maxDepthAllowed(r.c.Beta, in.peak) - h; s < r.minSlack {
					r.minSlack = s
				}
			}
		}
	}
	return ""
}

func (r *treeRun[T]) checkContents(in *inst[T]) string {
	var got []Key
	in.t.Inorder(func(x T) bool { got = append(got, r.key(x)); return true })
	if len(got) != len(in.m.ks) {
		return r.errf("Inorder lists %d keys, reference has %d: got %v want %v", len(got), len(in.m.ks), brief(got), brief(in.m.ks))
	}
	for i := range got {
		if got[i] != in.m.ks[i] {
			return r.errf("Inorder[%d] = %+v, reference has %+v", i, got[i], in.m.ks[i])
		}
	}
	return ""
}

func brief(ks []Key) string {
	if len(ks) > 12 {
		return fmt.Sprintf("%v…(%d)", ks[:12], len(ks))
	}
	return fmt.Sprint(ks)
}

// checkGet looks k up and compares with the reference, and (C02) counts
// comparisons.
func (r *treeRun[T]) checkGet(in *inst[T], k int64) string {
	i, present := in.m.find(k)
	probe := r.mk(Key{K: k, Tag: 1 << 30})
	r.cmps = 0
	gotX, ok := in.t.Get(probe)
	used := r.cmps
	got := r.key(gotX)
	if ok != present {
		return r.errf("Get(%d) ok = %v, reference says %v", k, ok, present)
	}
	if present && got != in.m.ks[i] {
		return r.errf("Get(%d) = %+v, reference holds %+v", k, got, in.m.ks[i])
	}
	if !present && (got != (Key{}) || !r.isZero(gotX)) {
		return r.errf("Get(%d) of an absent key returned %+v, want the zero key", k, got)
	}
	if r.md.depth && r.c.Beta < 1000 && len(in.m.ks) > 0 {
		// comparisons <= (log_b P + 1) + 1
		if !withinBound(used-1, r.c.Beta, in.peak) {
			return r.errf("Get(%d) needed %d comparisons, bound log_b(P=%d)+2 = %d", k, used, in.peak, maxDepthAllowed(r.c.Beta, in.peak)+1)
		}
	}
	return ""
}

// ith returns the key number of the (i mod Len)-th smallest key.
func (in *inst[T]) ith(i int) (int64, bool) {
	if len(in.m.ks) == 0 {
		return 0, false
	}
	if i < 0 {
		i = -i
	}
	return in.m.ks[i%len(in.m.ks)].K, true
}

// absentNear returns a key number that is not in the set, chosen by sel:
// between two neighbours, below the minimum or above the maximum.
func (in *inst[T]) absentNear(sel int) int64 {
	n := len(in.m.ks)
	if n == 0 {
		return baseKey(sel%7) + 5
	}
	switch sel % 4 {
	case 0:
		return in.m.ks[0].K - 1 - int64(sel%3)
	case 1:
		return in.m.ks[n-1].K + 1 + int64(sel%3)
	}
	i := (sel / 4) % n
	k := in.m.ks[i].K + 1
	if _, ok := in.m.find(k); ok {
		return in.m.ks[n-1].K + 7
	}
	return k
}

func (r *treeRun[T]) doAdd(in *inst[T], k int64, replace bool) string {
	key := r.ref(k, r.nextTag())
	want := in.m.add(key, replace)
	var got bool
	name := "Add"
	// For the "ptr" and "any" kinds x is a new cell: when k is present, its
	// pointee is deeply equal to the stored element's and only the pointer
	// (and the identity recorded for it) differs.
	x := r.mk(key)
	if replace {
		name = "Replace"
		got = in.t.Replace(x)
	} else {
		got = in.t.Add(x)
	}
	if got != want {
		return r.errf("%s(%d) = %v, reference says %v", name, k, got, want)
	}
	if want && len(in.m.ks) > in.smax {
		in.smax = len(in.m.ks)
	}
	if msg := r.after(in, false); msg != "" {
		return msg
	}
	if r.md.model {
		if r.kit.Kind != "" && r.kit.HasID && (want || replace) {
			// the element supplied by a successful Add or by the latest Replace is the one held
			if g, ok := in.t.Get(r.mk(Key{K: k, Tag: 1 << 30})); !ok || !r.kit.Same(g, x) {
				return r.errf("%s(%d): Get afterwards returns %+v (ok=%v), which is not the element just supplied (%+v)", name, k, r.key(g), ok, key)
			}
		}
		return r.checkGet(in, k)
	}
	return ""
}

func (r *treeRun[T]) doRemove(in *inst[T], k int64) string {
	peakBefore := in.peak
	want := in.m.remove(k)
	got := in.t.Remove(r.mk(Key{K: k, Tag: -999}))
	if got != want {
		return r.errf("Remove(%d) = %v, reference says %v", k, got, want)
	}
	_ = peakBefore
	if want && len(in.m.ks) < (in.smax*r.c.Beta+1000)/2000 {
		in.smax = len(in.m.ks)
		r.delRebuild = true
	}
	if msg := r.after(in, false); msg != "" {
		return msg
	}
	if r.md.model {
		return r.checkGet(in, k)
	}
	return ""
}

// checkInorderStop verifies that iteration stops after exactly j callbacks.
func (r *treeRun[T]) checkInorderStop(in *inst[T], j int) string {
	n := len(in.m.ks)
	if n == 0 {
		calls := 0
		in.t.Inorder(func(T) bool { calls++; return true })
		if calls != 0 {
			return r.errf("Inorder on an empty tree made %d callbacks", calls)
		}
		return ""
	}
	j = j%n + 1
	var got []Key
	in.t.Inorder(func(x T) bool { got = append(got, r.key(x)); return len(got) < j })
	if len(got) != j {
		return r.errf("Inorder stopped after %d callbacks, want exactly %d (callback returned false at %d)", len(got), j, j)
	}
	for i := range got {
		if got[i] != in.m.ks[i] {
			return r.errf("Inorder[%d] = %+v, reference has %+v", i, got[i], in.m.ks[i])
		}
	}
	return ""
}

// checkAfter verifies InorderAfter(k), complete and stopped after j.
func (r *treeRun[T]) checkAfter(in *inst[T], k int64, j int) string {
	i, _ := in.m.find(k)
	want := in.m.ks[i:]
	var got []Key
	for x := range in.t.InorderAfter(r.mk(Key{K: k, Tag: -5})) {
		got = append(got, r.key(x))
	}
	if len(got) != len(want) {
		return r.errf("InorderAfter(%d) lists %d keys, reference %d: got %v want %v", k, len(got), len(want), brief(got), brief(want))
	}
	for x := range got {
		if got[x] != want[x] {
			return r.errf("InorderAfter(%d)[%d] = %+v, reference %+v", k, x, got[x], want[x])
		}
	}
	if len(want) > 0 {
		j = j%len(want) + 1
		calls := 0
		for range in.t.InorderAfter(r.mk(Key{K: k})) {
			calls++
			if calls == j {
				break
			}
		}
		if calls != j {
			return r.errf("InorderAfter(%d) stopped after %d, want %d", k, calls, j)
		}
		// the raw callback form must also stop exactly
		calls = 0
		in.t.InorderAfter(r.mk(Key{K: k}))(func(T) bool { calls++; return calls < j })
		if calls != j {
			return r.errf("InorderAfter(%d): %d callbacks after the callback returned false at %d", k, calls, j)
		}
		// two iterations alive at once: at the j-th element of an iteration from
		// k, a second one (from another key, or a whole Inorder) runs to its end
		// or is abandoned after a few elements; the first then continues.  Both
		// must list what they list alone (the tree is not modified).
		n := len(in.m.ks)
		i2 := (i + 3*j + 1) % n
		k2 := in.m.ks[i2].K
		var outer, inner []Key
		calls = 0
		for x := range in.t.InorderAfter(r.mk(Key{K: k, Tag: -6})) {
			outer = append(outer, r.key(x))
			if calls++; calls == j {
				lim := n + 1
				if j%3 == 2 {
					lim = j%5 + 1 // abandoned early
				}
				if j%2 == 0 {
					for y := range in.t.InorderAfter(r.mk(Key{K: k2, Tag: -7})) {
						if inner = append(inner, r.key(y)); len(inner) >= lim {
							break
						}
					}
				} else {
					i2 = 0
					for y := range in.t.Inorder {
						if inner = append(inner, r.key(y)); len(inner) >= lim {
							break
						}
					}
				}
				wantIn := in.m.ks[i2:]
				if len(wantIn) > lim {
					wantIn = wantIn[:lim]
				}
				if !slices.Equal(inner, wantIn) {
					return r.errf("an iteration started inside the loop body of InorderAfter(%d) (at its element %d) lists %v, want %v", k, j, brief(inner), brief(wantIn))
				}
			}
		}
		if !slices.Equal(outer, want) {
			return r.errf("InorderAfter(%d) with a second iteration run inside its loop body (at element %d) lists %v, want %v", k, j, brief(outer), brief(want))
		}
		r.nested++
	}
	return ""
}

// probeCursor checks a cursor obtained by key against the reference order.
func (r *treeRun[T]) probeCursor(in *inst[T], k int64, sel int) string {
	i, present := in.m.find(k)
	c := in.t.Cursor(r.mk(Key{K: k, Tag: -3}))
	if c.Valid() != present {
		return r.errf("Cursor(%s).Valid() = %v, reference says present = %v", kstr(k), c.Valid(), present)
	}
	if !present {
		if !r.isZero(c.Key()) {
			return r.errf("Cursor(%s) of an absent key has Key() = %v", kstr(k), r.key(c.Key()))
		}
		return ""
	}
	ks := in.m.ks
	if r.key(c.Key()) != ks[i] {
		return r.errf("Cursor(%s).Key() = %v, reference holds %v", kstr(k), r.key(c.Key()), ks[i])
	}
	if c.HasNext() != (i+1 < len(ks)) || c.HasPrev() != (i > 0) {
		return r.errf("Cursor(%s): HasNext/HasPrev = %v/%v at rank %d of %d", kstr(k), c.HasNext(), c.HasPrev(), i, len(ks))
	}
	// the subtree below the cursor is a contiguous ascending window containing k
	var win []Key
	c.Inorder(func(x T) bool { win = append(win, r.key(x)); return true })
	lo := -1
	for j, x := range win {
		if x == ks[i] {
			lo = i - j
		}
	}
	if lo < 0 || lo+len(win) > len(ks) {
		return r.errf("Cursor(%s).Inorder = %s does not contain the key at a position consistent with the set", kstr(k), brief(win))
	}
	for j, x := range win {
		if x != ks[lo+j] {
			return r.errf("Cursor(%s).Inorder[%d] = %v, the set has %v there", kstr(k), j, x, ks[lo+j])
		}
	}
	if got := r.key(c.Clone().Min().Key()); got != ks[lo] {
		return r.errf("Cursor(%s).Min() = %v, subtree minimum is %v", kstr(k), got, ks[lo])
	}
	// walk a few steps in one direction
	steps := sel%5 + 1
	w := c.Clone()
	for s, j := 0, i; s < steps; s++ {
		if sel%2 == 0 {
			w.Next()
			j++
		} else {
			w.Prev()
			j--
		}
		if j < 0 || j >= len(ks) {
			if w.Valid() {
				return r.errf("cursor from %s is still valid at %v after walking off the end", kstr(k), r.key(w.Key()))
			}
			break
		}
		if !w.Valid() || r.key(w.Key()) != ks[j] {
			return r.errf("cursor from %s after %d steps (forward=%v) is at %v (valid=%v), reference has %v", kstr(k), s+1, sel%2 == 0, r.key(w.Key()), w.Valid(), ks[j])
		}
	}
	if r.key(c.Key()) != ks[i] {
		return r.errf("moving a Clone moved the original cursor to %v", r.key(c.Key()))
	}
	return ""
}

// twoChildKeys lists (in order) the keys of nodes having both children.
func (r *treeRun[T]) twoChildKeys(t *stree.Tree[T]) []int64 {
	var out []int64
	c := t.Root()
	if !c.Valid() {
		return nil
	}
	n := t.Len()
	var walk func(d int)
	walk = func(d int) {
		walkGuard(d, n)
		l, rr := c.HasLeft(), c.HasRight()
		if l {
			c.Left()
			walk(d + 1)
			c.Up()
		}
		if l && rr {
			out = append(out, r.key(c.Key()).K)
		}
		if rr {
			c.Right()
			walk(d + 1)
			c.Up()
		}
	}
	walk(0)
	return out
}

const maxTreeSize = 2000

// apply executes one op.
func (r *treeRun[T]) apply(op Op) string {
	in := r.cur()
	r.sub = 0
	switch op.Kind {
	case "add":
		return r.doAdd(in, baseKey(op.A), false)
	case "replace":
		return r.doAdd(in, baseKey(op.A), true)
	case "addI", "replaceI": // an existing key
		k, ok := in.ith(op.A)
		if !ok {
			k = baseKey(op.A % 48)
		}
		return r.doAdd(in, k, op.Kind == "replaceI")
	case "remove":
		return r.doRemove(in, baseKey(op.A))
	case "removeI":
		k, ok := in.ith(op.A)
		if !ok {
			k = baseKey(op.A % 48)
		}
		return r.doRemove(in, k)
	case "removeAbsent":
		return r.doRemove(in, in.absentNear(op.A))
	case "get":
		return r.checkGet(in, baseKey(op.A))
	case "getI":
		if k, ok := in.ith(op.A); ok {
			return r.checkGet(in, k)
		}
		return r.checkGet(in, 3)
	case "getAbsent":
		return r.checkGet(in, in.absentNear(op.A))
	case "clear":
		in.t.Clear()
		in.m.ks = nil
		in.smax = 0
		return r.after(in, true)
	case "shape":
		// Clear, then insert the keys of a LOPSIDED shape level by level: every
		// node on one spine has a perfectly balanced sibling subtree holding a
		// fixed fraction of the spine child's size (2/3, 1/2, 3/4, 1/1, 9/10), so
		// no node is badly split and yet the spine is deeper than the bound
		// allows for tight balance factors: only rebuilding keeps the bound
		in.t.Clear()
		in.m.ks = nil
		in.smax = 0
		if msg := r.after(in, true); msg != "" {
			return msg
		}
		order := lopsidedOrder(op.A, op.B, maxTreeSize-10)
		r.shaped++
		for i, idx := range order {
			r.sub = i
			k := int64(idx+1) << keyShift
			if i%16 != 0 && i != len(order)-1 {
				r.cheapKey = &k
			}
			msg := r.doAdd(in, k, op.B%5 == 4)
			r.cheapKey = nil
			if msg != "" {
				return msg
			}
		}
		return ""
	case "clone":
		if len(r.insts) >= 3 {
			return ""
		}
		r.clones++
		cp := &inst[T]{t: in.t.Clone(), m: in.m.clone(), peak: in.peak, hiWater: in.hiWater, smax: in.smax}
		r.insts = append(r.insts, cp)
		if msg := r.after(cp, true); msg != "" {
			return msg
		}
		if op.A%2 == 1 {
			r.act = len(r.insts) - 1
		}
		return ""
	case "switch":
		r.act = op.A % len(r.insts)
		return ""
	case "inorder":
		if msg := r.checkInorderStop(in, op.A); msg != "" {
			return msg
		}
		return r.checkReentrant(in, false, 0, op.A, op.A*401+op.B)
	case "after", "afterI", "afterAbsent":
		k := baseKey(op.A)
		switch op.Kind {
		case "afterI":
			var ok bool
			if k, ok = in.ith(op.A); !ok {
				k = 1
			}
		case "afterAbsent":
			k = in.absentNear(op.A)
		}
		if msg := r.checkAfter(in, k, op.B); msg != "" {
			return msg
		}
		return r.checkReentrant(in, true, k, op.B, op.B*401+op.A)
	case "seqKeep":
		return r.seqKeep(in, op.A, op.B)
	case "seqRange":
		return r.seqRange(op.A, op.B)
	case "cursor", "cursorI":
		// a light cursor probe in the middle of a history (clones and edits
		// around it): Cursor(key), then Next / Prev / Min / Inorder against the
		// reference order.  The thorough structural checks live in C03.
		k := baseKey(op.A % 48)
		if op.Kind == "cursorI" {
			if kk, ok := in.ith(op.A); ok {
				k = kk
			}
		}
		if msg := r.probeCursor(in, k, op.B); msg != "" {
			return msg
		}
		if op.B%2 == 0 {
			return r.checkHeldCursor(in, k, op.A*401+op.B)
		}
		return ""
	case "asc", "desc", "zig", "ascL", "descL", "combA", "combD", "combAL", "combDL":
		// comb: a monotone spine whose every node gets a single leaf as its other
		// child (new extreme two units out, then the key between it and the old
		// extreme): siblings of size one high up on the insertion path
		n := op.A%40 + 1
		kind := op.Kind
		if strings.HasSuffix(kind, "L") { // long monotone run: loose balance factors need hundreds of keys to show
			n = op.A%1400 + 300
			kind = kind[:len(kind)-1]
		}
		if n >= 8 {
			r.monoRun++
		}
		for i := 0; i < n && len(in.m.ks) < maxTreeSize; i++ {
			r.sub = i
			lo, hi := baseKey(0), baseKey(0)
			if len(in.m.ks) > 0 {
				lo, hi = in.m.ks[0].K, in.m.ks[len(in.m.ks)-1].K
			}
			var k int64
			switch {
			case kind == "combA" && i%2 == 0:
				k = hi + int64(2)<<keyShift
			case kind == "combA":
				k = hi - int64(1)<<keyShift
			case kind == "combD" && i%2 == 0:
				k = lo - int64(2)<<keyShift
			case kind == "combD":
				k = lo + int64(1)<<keyShift
			case kind == "asc", kind == "zig" && i%2 == 0:
				k = hi + int64(1)<<keyShift
			default:
				k = lo - int64(1)<<keyShift
			}
			if n > 60 && i%16 != 0 && i != n-1 {
				r.cheapKey = &k
			}
			// op.B selects how the run inserts: Add, Replace, or alternating
			msg := r.doAdd(in, k, op.B%3 == 1 || op.B%3 == 2 && i%2 == 1)
			r.cheapKey = nil
			if msg != "" {
				return msg
			}
		}
		return ""
	case "drain":
		// remove min / max / median repeatedly until a fraction remains
		n := len(in.m.ks)
		if n == 0 {
			return ""
		}
		keep := 0
		switch op.B % 4 {
		case 1:
			keep = n / 4
		case 2:
			keep = n / 2
		case 3:
			keep = n - 1 - (n-1)/3
		}
		for i := 0; len(in.m.ks) > keep; i++ {
			r.sub = i
			var k int64
			switch op.A % 4 {
			case 0:
				k = in.m.ks[0].K
			case 1:
				k = in.m.ks[len(in.m.ks)-1].K
			case 2:
				k = in.m.ks[len(in.m.ks)/2].K
			default:
				k = in.m.ks[(i*7)%len(in.m.ks)].K
			}
			if msg := r.doRemove(in, k); msg != "" {
				return msg
			}
		}
		if len(in.m.ks)*2 < in.hiWater {
			r.drained++
		}
		if len(in.m.ks) == 0 {
			r.drainEmpty++
		}
		return ""
	case "rm2":
		// remove a node with two children, then look its successor up
		tk := r.twoChildKeys(in.t)
		if len(tk) == 0 {
			return ""
		}
		k := tk[op.A%len(tk)]
		i, ok := in.m.find(k)
		if !ok {
			return r.errf("cursor walk reports key %d with two children, but it is not in the reference", k)
		}
		var succ, pred int64
		hasSucc, hasPred := i+1 < len(in.m.ks), i > 0
		if hasSucc {
			succ = in.m.ks[i+1].K
		}
		if hasPred {
			pred = in.m.ks[i-1].K
		}
		if msg := r.doRemove(in, k); msg != "" {
			return msg
		}
		r.twoChild++
		if hasSucc {
			if msg := r.checkGet(in, succ); msg != "" {
				return msg
			}
		}
		if hasPred {
			if msg := r.checkGet(in, pred); msg != "" {
				return msg
			}
		}
		return r.checkContents(in)
	case "deep":
		// adaptive adversary: insert a fresh key directly beneath a deepest leaf
		n := op.A%6 + 1
		for i := 0; i < n && len(in.m.ks) < maxTreeSize; i++ {
			r.sub = i
			leafX, _, ok := deepestLeaf(in.t)
			leaf := r.key(leafX)
			if !ok {
				if msg := r.doAdd(in, baseKey(op.B%48), false); msg != "" {
					return msg
				}
				continue
			}
			idx, found := in.m.find(leaf.K)
			if !found {
				return r.errf("cursor walk reports leaf key %d which is not in the reference", leaf.K)
			}
			// gaps on either side of the leaf
			var lo, hi int64 = leaf.K - 2<<keyShift, leaf.K + 2<<keyShift
			if idx > 0 {
				lo = in.m.ks[idx-1].K
			}
			if idx+1 < len(in.m.ks) {
				hi = in.m.ks[idx+1].K
			}
			var k int64
			left, right := leaf.K-lo, hi-leaf.K
			pickRight := right >= left
			if (op.B+i)%3 == 0 && left >= 2 && right >= 2 {
				pickRight = !pickRight
			}
			if pickRight {
				if right < 2 {
					break
				}
				k = leaf.K + right/2
			} else {
				if left < 2 {
					break
				}
				k = leaf.K - left/2
			}
			if msg := r.doAdd(in, k, (op.B/3)%3 == 1 || (op.B/3)%3 == 2 && i%2 == 1); msg != "" {
				return msg
			}
		}
		return ""
	case "prune":
		// remove the keys that do NOT lie on the path from the root to a deepest
		// leaf (all of them, or every other one): the tree shrinks while its
		// height stays what the peak size allowed, until a rebuild happens
		leafX, _, ok := deepestLeaf(in.t)
		if !ok {
			return ""
		}
		leaf := r.key(leafX)
		onPath := map[int64]bool{}
		var pathKeys []int64
		for c, d := in.t.Root(), 0; c.Valid(); d++ {
			walkGuard(d, in.t.Len())
			k := r.key(c.Key()).K
			onPath[k] = true
			pathKeys = append(pathKeys, k)
			if leaf.K < k {
				c.Left()
			} else if leaf.K > k {
				c.Right()
			} else {
				break
			}
		}
		if op.A/4%3 == 2 && len(pathKeys) >= 5 {
			// also keep the whole subtree of the path node a few levels above the
			// leaf's parent's parent: a deep interior key with a sizeable subtree
			// survives (the keys of a subtree are the contiguous range between the
			// nearest smaller and larger path keys above it)
			top := pathKeys[len(pathKeys)-1-min(3+op.A/12%3, len(pathKeys)-2)]
			lo, hi := int64(math.MinInt64), int64(math.MaxInt64)
			for _, k := range pathKeys {
				if k == top {
					break
				}
				if k < top && k > lo {
					lo = k
				}
				if k > top && k < hi {
					hi = k
				}
			}
			for _, k := range in.m.ks {
				if k.K > lo && k.K < hi {
					onPath[k.K] = true
				}
			}
		}
		ks := append([]Key(nil), in.m.ks...)
		if op.A%2 == 1 { // from the top end first
			slices.Reverse(ks)
		}
		skip := op.A % 4 / 2 // 0: all off-path keys, 1: every other one
		for i, k := range ks {
			if onPath[k.K] || (skip == 1 && i%2 == 1) {
				continue
			}
			r.sub = i
			if msg := r.doRemove(in, k.K); msg != "" {
				return msg
			}
		}
		if len(in.m.ks)*2 < in.hiWater {
			r.drained++
		}
		r.pruned++
		// the surviving keys sit as deep as the peak size allowed: Add / Replace
		// of such a PRESENT key must leave the shape within the bound too
		j := 0
		for _, k := range ks {
			if onPath[k.K] {
				r.sub = len(ks) + j
				if msg := r.doAdd(in, k.K, j%2 == 1); msg != "" {
					return msg
				}
				j++
			}
		}
		return ""
	case "bulkremove":
		// remove every (A+2)-th key: scattered removals
		stride := op.A%5 + 2
		ks := append([]Key(nil), in.m.ks...)
		for i := 0; i < len(ks); i += stride {
			r.sub = i
			if msg := r.doRemove(in, ks[i].K); msg != "" {
				return msg
			}
		}
		if len(in.m.ks)*2 < in.hiWater {
			r.drained++
		}
		return ""
	}
	return r.errf("VK-INFRA unknown op kind %q", op.Kind)
}

// treeKinds lists the values of TreeCase.Elem besides "" (stree.New accepts
// any element type together with a comparison function).
var treeKinds = []string{elem.Int, elem.Str, elem.Wide, elem.Ptr, elem.Any, elem.Bytes}

// runTree interprets c on a tree of the element type c.Elem names and returns
// the run's measurements.
func runTree(c TreeCase, md mode, o *vk.Obs) (*treeStats, string) {
	switch c.Elem {
	case "":
		return treeStatsOf(runTreeOn(c, md, o, keyKit()))
	case elem.Int:
		return treeStatsOf(runTreeOn(c, md, o, elem.IntKit()))
	case elem.Str:
		return treeStatsOf(runTreeOn(c, md, o, elem.StrKit()))
	case elem.Wide:
		return treeStatsOf(runTreeOn(c, md, o, elem.WideKit()))
	case elem.Ptr:
		return treeStatsOf(runTreeOn(c, md, o, elem.PtrKit()))
	case elem.Any:
		return treeStatsOf(runTreeOn(c, md, o, elem.AnyKit()))
	case elem.Bytes:
		return treeStatsOf(runTreeOn(c, md, o, elem.BytesKit()))
	}
	return &treeStats{}, fmt.Sprintf("VK-INFRA unknown element kind %q", c.Elem)
}

func treeStatsOf[T any](r *treeRun[T], msg string) (*treeStats, string) { return &r.treeStats, msg }

// classElem reports the element kind of a case for the distribution histogram.
func classElem(o *vk.Obs, kind string, rev bool) {
	if kind == "" {
		kind = "default"
	}
	o.Class("elem=" + kind)
	o.ClassIf(rev, "order_reverse_of_natural")
}

// runTreeOn is the interpreter behind C01, C02 and (for building the tree) C03.
func runTreeOn[T any](c TreeCase, md mode, o *vk.Obs, kit elem.Kit[T]) (*treeRun[T], string) {
	elem.ResetPtr()
	r := &treeRun[T]{c: c, kit: kit, md: md, o: o}
	if msg := r.start(); msg != "" {
		return r, msg
	}
	for i, op := range c.Ops {
		o.Step() // interleaved execution (vk.Interleave) switches to the other case here
		r.step = i
		if msg := r.apply(op); msg != "" {
			return r, msg
		}
		// every other tree (clone or original) must be unaffected
		if md.model && len(r.insts) > 1 {
			for j, in := range r.insts {
				if j == r.act {
					continue
				}
				if len(in.m.ks) <= 64 || i%8 == 0 || i == len(c.Ops)-1 {
					save := r.act
					r.act = j
					msg := r.after(in, true)
					r.act = save
					if msg != "" {
						return r, "clone independence: " + msg
					}
				}
			}
		}
	}
	r.step = len(c.Ops)
	r.sub = 0
	for slot, s := range r.kept { // sequences still stored at the end
		if s != nil {
			if msg := r.seqRange(slot%2, slot); msg != "" {
				return r, msg
			}
		}
	}
	for j, in := range r.insts {
		r.act = j
		if msg := r.after(in, true); msg != "" {
			return r, msg
		}
	}
	return r, ""
}
