package pstree

import (
	"fmt"
	"slices"

	"github.com/creachadair/mds/stree"
	"verif/elem"
	"verif/vk"
)

// Move is one cursor operation of a C03 case.
type Move struct {
	Kind string `json:"k"`
	A    int    `json:"a,omitempty"`
	// B (for "inorder", 0 = none) selects moves that the loop body of the
	// cursor's Inorder applies to a cursor while keys are being delivered: to
	// the iterated cursor itself or to a Clone of it, at the first, a middle,
	// the last or every visit.
	B int `json:"b,omitempty"`
}

// bodyMoveKinds are the moves a loop body applies (see Move.B).
var bodyMoveKinds = []string{"min", "next", "up", "left", "max", "prev", "right", "next", "prev", "up"}

// step applies one plain move to cc and returns the position the reference
// model gives for it (p is the position before).
func (r *cursorRun[T]) step(cc *stree.Cursor[T], p int, kind string) (ret *stree.Cursor[T], np int) {
	np = p
	switch kind {
	case "left":
		ret = cc.Left()
		if p >= 0 {
			np = r.sh.nodes[p].left
		}
	case "right":
		ret = cc.Right()
		if p >= 0 {
			np = r.sh.nodes[p].right
		}
	case "up":
		ret = cc.Up()
		if p >= 0 {
			np = r.sh.nodes[p].parent
		}
	case "min":
		ret = cc.Min()
		if p >= 0 {
			np = r.sh.byK[r.keys[r.sh.nodes[p].lo].K]
		}
	case "max":
		ret = cc.Max()
		if p >= 0 {
			np = r.sh.byK[r.keys[r.sh.nodes[p].hi-1].K]
		}
	case "next":
		ret = cc.Next()
		if p >= 0 {
			np = r.succ(p)
		}
	case "prev":
		ret = cc.Prev()
		if p >= 0 {
			np = r.pred(p)
		}
	}
	return ret, np
}

// inorderMoving ranges over cc.Inorder with a loop body that MOVES a cursor
// while keys are delivered: cc itself, or (sel bit) a Clone of cc while cc is
// iterated, or cc while its Clone is iterated.  Inorder lists the subtree of
// the position the iterated cursor had when Inorder was called, whatever
// happens to the cursor afterwards ("Inorder is a range function over each key
// of the subtree at c"); the moved cursor ends where the reference model of
// the moves says.  It returns the new model position of cc.
func (r *cursorRun[T]) inorderMoving(cc *stree.Cursor[T], p int, sel int, what string) (int, string) {
	if sel <= 0 || p < 0 {
		return p, ""
	}
	want := r.keys[r.sh.nodes[p].lo:r.sh.nodes[p].hi]
	n := len(want)
	iterated, moved := cc, cc
	who := "the iterated cursor itself"
	switch sel % 5 {
	case 3:
		moved = cc.Clone()
		who = "a Clone of the iterated cursor"
	case 4:
		iterated = cc.Clone()
		who = "the cursor whose Clone is iterated"
	}
	sel /= 5
	// visits at which the body moves: first, middle (left part / own key /
	// right part), last, or every one
	at, every := 0, false
	left := r.leftSize(p)
	switch sel % 8 {
	case 0:
		at = 0
	case 1:
		at = n - 1
	case 2:
		at = left // the visit of the cursor's own key
	case 3:
		at = max(left-1, 0) // the last key of the left part
	case 4:
		at = sel / 8 % n
	case 5:
		at = sel / 8 % (left + 1) // inside the left part
	default:
		every = true
	}
	sel /= 8
	nMoves := sel%3 + 1
	sel /= 3
	mp := p
	var got []Key
	var did []string
	var msg string
	idx := 0
	for x := range iterated.Inorder {
		got = append(got, r.tr.key(x))
		if every || idx == at {
			for m := 0; m < nMoves && (m == 0 || !every); m++ {
				kind := bodyMoveKinds[(sel+idx*3+m*7)%len(bodyMoveKinds)]
				did = append(did, kind)
				var ret *stree.Cursor[T]
				ret, mp = r.step(moved, mp, kind)
				if ret != moved {
					msg = r.errf("%s: %s inside the loop body did not return its receiver", what, kind)
				}
			}
		}
		idx++
		if len(got) > n || msg != "" {
			break
		}
	}
	if msg != "" {
		return p, msg
	}
	if len(did) > 12 {
		did = append(did[:12], "...")
	}
	if !slices.Equal(got, want) {
		return p, r.errf("%s: Inorder of a cursor at %v whose loop body moves %s (%v, first at visit %d) yields %v, want the subtree's keys %v", what, r.sh.nodes[p].key, who, did, at, got, want)
	}
	if msg := r.checkAt(moved, mp, fmt.Sprintf("%s: %s after the moves %v made inside the loop body of Inorder", what, who, did)); msg != "" {
		return p, msg
	}
	if moved != cc {
		// the other one of the pair has not moved
		if msg := r.checkAt(cc, p, fmt.Sprintf("%s: the iterated cursor, after its Clone was moved (%v) inside the loop body", what, did)); msg != "" {
			return p, msg
		}
		return p, ""
	}
	if iterated != cc {
		if msg := r.checkAt(iterated, p, fmt.Sprintf("%s: the iterated Clone, after the original was moved (%v) inside the loop body", what, did)); msg != "" {
			return p, msg
		}
	}
	return mp, ""
}

// CursorCase builds a tree by a history and then exercises cursors on it.
// The element type of the tree (and so of its cursors) is Tree.Elem.
type CursorCase struct {
	Tree  TreeCase `json:"tree"`
	Moves []Move   `json:"moves"`
}

type shapeNode struct {
	key                 Key
	left, right, parent int // indices into shape.nodes, -1 if none
	lo, hi              int // window [lo,hi) of the sorted key list covered by the subtree
	depth               int
}

type shape struct {
	nodes []shapeNode
	byK   map[int64]int
	root  int
}

type cursorRun[T any] struct {
	c     CursorCase
	tr    *treeRun[T] // the run that built the tree: element conversions
	t     *stree.Tree[T]
	keys  []Key // sorted reference
	sh    shape
	phase string
}

func (r *cursorRun[T]) errf(format string, args ...any) string {
	el := ""
	if r.c.Tree.Elem != "" || r.c.Tree.Rev {
		el = fmt.Sprintf(", elem %q rev %v", r.c.Tree.Elem, r.c.Tree.Rev)
	}
	return fmt.Sprintf("cursor check [%s] (beta %d, %d keys%s): %s", r.phase, r.c.Tree.Beta, len(r.keys), el, fmt.Sprintf(format, args...))
}

// key is the cursor's Key() in the model's terms.
func (r *cursorRun[T]) key(c *stree.Cursor[T]) Key { return r.tr.key(c.Key()) }

func (r *cursorRun[T]) inorderOf(c *stree.Cursor[T]) []Key {
	var out []Key
	c.Inorder(func(x T) bool { out = append(out, r.tr.key(x)); return true })
	return out
}

// build reconstructs the tree shape through Clone/Left/Right only and checks
// every structural clause of the property on the way.
func (r *cursorRun[T]) build(c *stree.Cursor[T], parent, depth int) (int, string) {
	idx := len(r.sh.nodes)
	r.sh.nodes = append(r.sh.nodes, shapeNode{key: r.key(c), left: -1, right: -1, parent: parent, depth: depth})
	if depth > len(r.keys) {
		return idx, r.errf("descending through Left/Right reached depth %d in a tree of %d keys (cycle?)", depth, len(r.keys))
	}
	k := r.key(c)
	if _, dup := r.sh.byK[k.K]; dup {
		return idx, r.errf("key %v reachable through two different paths", k)
	}
	r.sh.byK[k.K] = idx
	win := r.inorderOf(c)
	if len(win) == 0 {
		return idx, r.errf("Inorder of a valid cursor at %v is empty", k)
	}
	// the window must be a contiguous, ascending run of the reference list
	lo := -1
	for i, x := range r.keys {
		if x == win[0] {
			lo = i
			break
		}
	}
	if lo < 0 || lo+len(win) > len(r.keys) {
		return idx, r.errf("Inorder at %v starts with %v which is not where a contiguous window of the set could start", k, win[0])
	}
	for i := range win {
		if win[i] != r.keys[lo+i] {
			return idx, r.errf("Inorder at %v is not a contiguous ascending window of the set: position %d holds %v, set has %v", k, i, win[i], r.keys[lo+i])
		}
	}
	hi := lo + len(win)
	r.sh.nodes[idx].lo, r.sh.nodes[idx].hi = lo, hi
	// Min / Max of the subtree are the window's ends and must not disturb the origin.
	if got := r.key(c.Clone().Min()); got != win[0] {
		return idx, r.errf("Min from %v gives %v, subtree minimum is %v", k, got, win[0])
	}
	if got := r.key(c.Clone().Max()); got != win[len(win)-1] {
		return idx, r.errf("Max from %v gives %v, subtree maximum is %v", k, got, win[len(win)-1])
	}
	if r.key(c) != k {
		return idx, r.errf("moving a Clone changed the original cursor from %v to %v", k, r.key(c))
	}
	var lw, rw []Key
	l := c.Clone().Left()
	if l.Valid() != c.HasLeft() {
		return idx, r.errf("HasLeft = %v at %v but Left gives valid=%v", c.HasLeft(), k, l.Valid())
	}
	if l.Valid() {
		li, msg := r.build(l, idx, depth+1)
		if msg != "" {
			return idx, msg
		}
		r.sh.nodes[idx].left = li
		lw = r.keys[r.sh.nodes[li].lo:r.sh.nodes[li].hi]
		for _, x := range lw {
			if x.K >= k.K {
				return idx, r.errf("key %v is reachable through Left of %v but is not smaller", x, k)
			}
		}
		if up := l.Clone().Up(); !up.Valid() || r.key(up) != k {
			return idx, r.errf("Left then Up from %v arrives at %v (valid=%v)", k, r.key(up), up.Valid())
		}
		if !l.HasParent() {
			return idx, r.errf("HasParent is false on the left child of %v", k)
		}
	} else if !r.tr.isZero(l.Key()) {
		return idx, r.errf("Left from %v (no left child) is invalid but Key() = %v, want zero", k, r.key(l))
	}
	rc := c.Clone().Right()
	if rc.Valid() != c.HasRight() {
		return idx, r.errf("HasRight = %v at %v but Right gives valid=%v", c.HasRight(), k, rc.Valid())
	}
	if rc.Valid() {
		ri, msg := r.build(rc, idx, depth+1)
		if msg != "" {
			return idx, msg
		}
		r.sh.nodes[idx].right = ri
		rw = r.keys[r.sh.nodes[ri].lo:r.sh.nodes[ri].hi]
		for _, x := range rw {
			if x.K <= k.K {
				return idx, r.errf("key %v is reachable through Right of %v but is not larger", x, k)
			}
		}
		if up := rc.Clone().Up(); !up.Valid() || r.key(up) != k {
			return idx, r.errf("Right then Up from %v arrives at %v (valid=%v)", k, r.key(up), up.Valid())
		}
		if !rc.HasParent() {
			return idx, r.errf("HasParent is false on the right child of %v", k)
		}
	}
	// Inorder(c) == Inorder(left) ++ key ++ Inorder(right)
	if len(lw)+1+len(rw) != len(win) || win[len(lw)] != k {
		return idx, r.errf("Inorder at %v has %d keys but left has %d and right has %d (own key at %d is %v)", k, len(win), len(lw), len(rw), len(lw), win[min(len(lw), len(win)-1)])
	}
	return idx, ""
}

// pos is the model of a cursor: index into shape.nodes or -1 (invalid).
func (r *cursorRun[T]) succ(p int) int {
	i := r.sh.nodes[p].lo + r.leftSize(p) + 1 // rank+1 in the sorted list
	if i >= len(r.keys) {
		return -1
	}
	return r.sh.byK[r.keys[i].K]
}
func (r *cursorRun[T]) pred(p int) int {
	i := r.sh.nodes[p].lo + r.leftSize(p) - 1
	if i < 0 {
		return -1
	}
	return r.sh.byK[r.keys[i].K]
}
func (r *cursorRun[T]) leftSize(p int) int {
	if l := r.sh.nodes[p].left; l >= 0 {
		return r.sh.nodes[l].hi - r.sh.nodes[l].lo
	}
	return 0
}
func (r *cursorRun[T]) rank(p int) int { return r.sh.nodes[p].lo + r.leftSize(p) }

// checkAt compares every observer of cursor c with model position p.
func (r *cursorRun[T]) checkAt(c *stree.Cursor[T], p int, what string) string {
	if p < 0 {
		if c.Valid() {
			return r.errf("%s: cursor should be invalid but is valid at %v", what, r.key(c))
		}
		if !r.tr.isZero(c.Key()) {
			return r.errf("%s: invalid cursor Key() = %v, want the zero key", what, r.key(c))
		}
		if c.HasLeft() || c.HasRight() || c.HasParent() || c.HasNext() || c.HasPrev() {
			return r.errf("%s: invalid cursor reports HasLeft/Right/Parent/Next/Prev = %v/%v/%v/%v/%v", what, c.HasLeft(), c.HasRight(), c.HasParent(), c.HasNext(), c.HasPrev())
		}
		if got := r.inorderOf(c); len(got) != 0 {
			return r.errf("%s: Inorder of an invalid cursor yields %d keys", what, len(got))
		}
		return ""
	}
	n := r.sh.nodes[p]
	if !c.Valid() {
		return r.errf("%s: cursor is invalid, should be at %v", what, n.key)
	}
	if r.key(c) != n.key {
		return r.errf("%s: cursor is at %v, should be at %v", what, r.key(c), n.key)
	}
	if c.HasLeft() != (n.left >= 0) || c.HasRight() != (n.right >= 0) || c.HasParent() != (n.parent >= 0) {
		return r.errf("%s: at %v HasLeft/HasRight/HasParent = %v/%v/%v, tree shape says %v/%v/%v", what, n.key, c.HasLeft(), c.HasRight(), c.HasParent(), n.left >= 0, n.right >= 0, n.parent >= 0)
	}
	if c.HasNext() != (r.succ(p) >= 0) || c.HasPrev() != (r.pred(p) >= 0) {
		return r.errf("%s: at %v HasNext/HasPrev = %v/%v, set order says %v/%v", what, n.key, c.HasNext(), c.HasPrev(), r.succ(p) >= 0, r.pred(p) >= 0)
	}
	return ""
}

// checkKeyOnly compares Valid and Key only (no Has* predicate is called).
func (r *cursorRun[T]) checkKeyOnly(c *stree.Cursor[T], p int, what string) string {
	if p < 0 {
		if c.Valid() || !r.tr.isZero(c.Key()) {
			return r.errf("%s: cursor should be invalid but Valid=%v Key=%v", what, c.Valid(), r.key(c))
		}
		return ""
	}
	if !c.Valid() || r.key(c) != r.sh.nodes[p].key {
		return r.errf("%s: cursor is at %v (valid=%v), should be at %v", what, r.key(c), c.Valid(), r.sh.nodes[p].key)
	}
	return ""
}

// runC03 is the RunFunc of C03; it switches on the element kind of the tree.
func runC03(c CursorCase, o *vk.Obs) string {
	switch c.Tree.Elem {
	case "":
		return runCursorOn(c, o, keyKit())
	case elem.Int:
		return runCursorOn(c, o, elem.IntKit())
	case elem.Str:
		return runCursorOn(c, o, elem.StrKit())
	case elem.Wide:
		return runCursorOn(c, o, elem.WideKit())
	case elem.Ptr:
		return runCursorOn(c, o, elem.PtrKit())
	case elem.Any:
		return runCursorOn(c, o, elem.AnyKit())
	case elem.Bytes:
		return runCursorOn(c, o, elem.BytesKit())
	}
	return fmt.Sprintf("VK-INFRA unknown element kind %q", c.Tree.Elem)
}

func runCursorOn[T any](c CursorCase, o *vk.Obs, kit elem.Kit[T]) string {
	tr, msg := runTreeOn(c.Tree, mode{model: true}, &vk.Obs{}, kit)
	if msg != "" {
		return "while building the tree: " + msg
	}
	in := tr.insts[tr.act]
	r := &cursorRun[T]{c: c, tr: tr, t: in.t, keys: in.m.ks}
	r.sh.byK = map[int64]int{}
	r.sh.root = -1

	// (e) nil cursor: every method is a harmless no-op
	r.phase = "nil cursor"
	var nilc *stree.Cursor[T]
	if msg := r.checkAt(nilc, -1, "nil cursor"); msg != "" {
		return msg
	}
	for _, f := range []func(*stree.Cursor[T]) *stree.Cursor[T]{
		(*stree.Cursor[T]).Next, (*stree.Cursor[T]).Prev, (*stree.Cursor[T]).Left, (*stree.Cursor[T]).Right,
		(*stree.Cursor[T]).Up, (*stree.Cursor[T]).Min, (*stree.Cursor[T]).Max, (*stree.Cursor[T]).Clone,
	} {
		if got := f(nilc); got != nil {
			return r.errf("a move on a nil cursor returned a non-nil cursor")
		}
	}

	root := r.t.Root()
	if len(r.keys) == 0 {
		r.phase = "empty tree"
		if root.Valid() {
			return r.errf("Root() of an empty tree is valid")
		}
		if cc := r.t.Cursor(tr.mk(Key{K: 5})); cc.Valid() {
			return r.errf("Cursor(key) on an empty tree is valid")
		}
		return r.checkAt(root, -1, "Root of empty tree")
	}

	// (b) structural recursion
	r.phase = "structure"
	if !root.Valid() {
		return r.errf("Root() of a non-empty tree is invalid")
	}
	if root.HasParent() {
		return r.errf("Root().HasParent() is true")
	}
	ri, msg := r.build(root.Clone(), -1, 0)
	if msg != "" {
		return msg
	}
	r.sh.root = ri
	if n := r.sh.nodes[ri]; n.lo != 0 || n.hi != len(r.keys) {
		return r.errf("Root's Inorder covers window [%d,%d) of %d keys", n.lo, n.hi, len(r.keys))
	}
	if len(r.sh.nodes) != len(r.keys) {
		return r.errf("structure walk found %d nodes for %d keys", len(r.sh.nodes), len(r.keys))
	}
	if up := root.Clone().Up(); up.Valid() {
		return r.errf("Up from the root stays valid at %v", r.key(up))
	}

	// NT measurement: height >= 4 and a node whose successor is an ancestor >= 2 levels up
	height, farSucc := 0, false
	for i, n := range r.sh.nodes {
		if n.depth > height {
			height = n.depth
		}
		if n.right < 0 {
			if s := r.succ(i); s >= 0 && n.depth-r.sh.nodes[s].depth >= 2 {
				farSucc = true
			}
		}
	}
	if height >= 4 && farSucc {
		o.NonTrivial()
	}
	o.ClassIf(height >= 4, "height>=4")
	o.ClassIf(height >= 8, "height>=8")
	o.ClassIf(farSucc, "successor_is_far_ancestor")
	o.ClassIf(c.Tree.Beta >= 900, "beta>=900")
	classElem(o, c.Tree.Elem, c.Tree.Rev)

	// (a) Cursor(key) for every key, and for absent keys
	r.phase = "Cursor(key)"
	for i, k := range r.keys {
		cc := r.t.Cursor(tr.mk(Key{K: k.K, Tag: -77}))
		if msg := r.checkAt(cc, r.sh.byK[k.K], fmt.Sprintf("Cursor(%v)", kstr(k.K))); msg != "" {
			return msg
		}
		// (c) Next chain to the end and Prev chain to the start
		if len(r.keys) <= 80 || i%7 == 0 || i == len(r.keys)-1 || i == 0 {
			fw := cc.Clone()
			for j := i + 1; j <= len(r.keys); j++ {
				want := -1
				if j < len(r.keys) {
					want = r.sh.byK[r.keys[j].K]
				}
				ret := fw.Next()
				if ret != fw {
					return r.errf("Next does not return its receiver")
				}
				if msg := r.checkAt(fw, want, fmt.Sprintf("Next chain from %v, step %d", k, j-i)); msg != "" {
					return msg
				}
			}
			fw.Next() // stays invalid
			if msg := r.checkAt(fw, -1, "Next past the end, again"); msg != "" {
				return msg
			}
			bw := cc.Clone()
			for j := i - 1; j >= -1; j-- {
				want := -1
				if j >= 0 {
					want = r.sh.byK[r.keys[j].K]
				}
				bw.Prev()
				if msg := r.checkAt(bw, want, fmt.Sprintf("Prev chain from %v, step %d", k, i-j)); msg != "" {
					return msg
				}
			}
			bw.Prev()
			if msg := r.checkAt(bw, -1, "Prev past the start, again"); msg != "" {
				return msg
			}
			if msg := r.checkAt(cc, r.sh.byK[k.K], "origin after its clones moved"); msg != "" {
				return msg
			}
		}
	}
	for sel := 0; sel < 12; sel++ {
		ak := in.absentNear(sel*5 + 1)
		if _, present := in.m.find(ak); present {
			continue
		}
		cc := r.t.Cursor(tr.mk(Key{K: ak}))
		if msg := r.checkAt(cc, -1, fmt.Sprintf("Cursor(absent %s)", kstr(ak))); msg != "" {
			return msg
		}
	}

	// (d) random move sequences on two cursors (the second is a Clone)
	r.phase = "moves"
	curs := []*stree.Cursor[T]{root.Clone()}
	pos := []int{r.sh.root}
	act := 0
	for mi, mv := range c.Moves {
		cc, p := curs[act], pos[act]
		np := p
		what := fmt.Sprintf("move#%d %s on cursor %d", mi, mv.Kind, act)
		var ret *stree.Cursor[T]
		switch mv.Kind {
		case "left", "right", "up", "min", "max", "next", "prev":
			ret, np = r.step(cc, p, mv.Kind)
		case "hasnext", "hasprev":
			// the predicate alone (an implementation may remember what it found)
			want := false
			if p >= 0 {
				if mv.Kind == "hasnext" {
					want = r.succ(p) >= 0
				} else {
					want = r.pred(p) >= 0
				}
			}
			got := cc.HasNext()
			if mv.Kind == "hasprev" {
				got = cc.HasPrev()
			}
			if got != want {
				return r.errf("%s = %v, set order says %v", what, got, want)
			}
			ret = cc
		case "goto": // re-anchor this cursor at the (A mod n)-th key
			k := r.keys[mv.A%len(r.keys)]
			curs[act] = r.t.Cursor(tr.mk(Key{K: k.K}))
			pos[act] = r.sh.byK[k.K]
			cc, np, ret = curs[act], pos[act], curs[act]
		case "root": // this cursor and (when A is odd) the other one start afresh from Tree.Root
			curs[act], pos[act] = r.t.Root(), r.sh.root
			if mv.A%2 == 1 {
				if len(curs) < 2 {
					curs, pos = append(curs, r.t.Root()), append(pos, r.sh.root)
				} else {
					curs[1-act], pos[1-act] = r.t.Root(), r.sh.root
				}
			}
			cc, np, ret = curs[act], pos[act], curs[act]
		case "clone":
			cl := cc.Clone()
			if !cc.Valid() {
				// Clone of an invalid cursor may be the cursor itself: keep a fresh one instead
				cl = r.t.Cursor(tr.mk(Key{K: -12345}))
				if cl.Valid() {
					return r.errf("Cursor(absent) valid")
				}
			}
			if len(curs) < 2 {
				curs = append(curs, cl)
				pos = append(pos, p)
			} else {
				curs[1-act], pos[1-act] = cl, p
			}
			ret = cc
		case "switch":
			act = (act + 1) % len(curs)
			continue
		case "inorder":
			got := r.inorderOf(cc)
			var want []Key
			if p >= 0 {
				want = r.keys[r.sh.nodes[p].lo:r.sh.nodes[p].hi]
			}
			if len(got) != len(want) {
				return r.errf("%s: Inorder yields %d keys, subtree has %d", what, len(got), len(want))
			}
			for i := range got {
				if got[i] != want[i] {
					return r.errf("%s: Inorder[%d] = %v, want %v", what, i, got[i], want[i])
				}
			}
			if len(want) > 1 { // stoppable
				j := mv.A%len(want) + 1
				calls := 0
				cc.Inorder(func(T) bool { calls++; return calls < j })
				if calls != j {
					return r.errf("%s: Inorder made %d callbacks after being told to stop at %d", what, calls, j)
				}
				// the same cursor iterated again from inside its own iteration (at
				// element j): both listings must be the subtree's keys (reading a
				// cursor does not move it, so this is two reads of one cursor)
				var outer, inner []Key
				calls = 0
				for x := range cc.Inorder {
					outer = append(outer, r.tr.key(x))
					if calls++; calls == j {
						for y := range cc.Inorder {
							inner = append(inner, r.tr.key(y))
							if mv.A%3 == 2 && len(inner) >= 2 {
								break
							}
						}
					}
				}
				if !slices.Equal(outer, want) {
					return r.errf("%s: Inorder with a second Inorder of the same cursor run inside its loop body (at element %d) yields %v, want %v", what, j, outer, want)
				}
				if wantIn := want[:len(inner)]; !slices.Equal(inner, wantIn) || (mv.A%3 != 2 && len(inner) != len(want)) {
					return r.errf("%s: an Inorder started inside the loop body of the same cursor's Inorder yields %v, want %v", what, inner, want)
				}
			}
			if np, msg = r.inorderMoving(cc, p, mv.B, what); msg != "" {
				return msg
			}
			ret = cc
		default:
			return r.errf("VK-INFRA unknown move %q", mv.Kind)
		}
		if ret != cc {
			return r.errf("%s: the move did not return its receiver", what)
		}
		pos[act] = np
		for i := range curs { // the other cursor must not have moved
			// Every third move is followed by the full set of observers; the
			// others only by Valid/Key, so that sequences such as HasNext, Max,
			// Next run without any predicate call in between.
			var msg string
			if mv.A%3 == 0 {
				msg = r.checkAt(curs[i], pos[i], fmt.Sprintf("%s (observing cursor %d)", what, i))
			} else {
				msg = r.checkKeyOnly(curs[i], pos[i], fmt.Sprintf("%s (observing cursor %d)", what, i))
			}
			if msg != "" {
				return msg
			}
		}
	}
	return ""
}
