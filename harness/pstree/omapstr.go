package pstree

import (
	"cmp"
	"fmt"
	"sort"
	"strings"

	"github.com/creachadair/mds/omap"
	"verif/vk"
)

// StrMapCase exercises omap with string keys and string values: empty
// strings, leading / trailing / inner blanks and other white space, invalid
// UTF-8, strings that differ only in such characters.  A selects the key and
// B the value of an operation.  Func selects NewFunc(strings.Compare) instead
// of New; Zero starts from the zero Map (read-only operations and Clear only,
// then it is replaced by a constructed one at the first write).
type StrMapCase struct {
	Func bool  `json:"func,omitempty"`
	Zero bool  `json:"zero,omitempty"`
	Ops  []MOp `json:"ops"`
}

var strKeys = []string{"", " ", "a", " a", "a ", "\t", "b\n", "\nb", "é", "\xff", "a b", "z", "zz ", " x", "0", "00", "\r", "z\v", "~ ", "  ", "%", "97%", "%d", "%!v(MISSING)", "%%", "%[1]v %s", "%!(NOVERB)", "\\", "{}"}

type skv struct{ k, v string }

func runC04Str(c StrMapCase, o *vk.Obs) string {
	var m omap.Map[string, string]
	built := false
	build := func() {
		if c.Func {
			m = omap.NewFunc[string, string](strings.Compare)
		} else {
			m = omap.New[string, string]()
		}
		built = true
	}
	if !c.Zero {
		build()
	}
	var ref []skv
	lower := func(k string) int {
		return sort.Search(len(ref), func(i int) bool { return cmp.Compare(ref[i].k, k) >= 0 })
	}
	find := func(k string) (int, bool) {
		i := lower(k)
		return i, i < len(ref) && ref[i].k == k
	}
	edgeWS := false
	for i, op := range c.Ops {
		o.Step() // interleaved execution (vk.Interleave) switches to the other case here
		k := strKeys[op.A%len(strKeys)]
		v := strKeys[op.B%len(strKeys)]
		errf := func(format string, args ...any) string {
			return fmt.Sprintf("op#%d %s(%q,%q) on omap.Map[string,string] (zero start %v, NewFunc %v): %s", i, op.Kind, k, v, c.Zero, c.Func, fmt.Sprintf(format, args...))
		}
		switch op.Kind {
		case "set":
			if !built {
				build()
			}
			j, found := find(k)
			if got := m.Set(k, v); got != !found {
				return errf("Set = %v, reference says key new = %v", got, !found)
			}
			if found {
				ref[j].v = v
			} else {
				ref = append(ref, skv{})
				copy(ref[j+1:], ref[j:])
				ref[j] = skv{k, v}
			}
		case "del":
			j, found := find(k)
			if got := m.Delete(k); got != found {
				return errf("Delete = %v, reference says present = %v", got, found)
			}
			if found {
				ref = append(ref[:j], ref[j+1:]...)
			}
		case "get":
			j, found := find(k)
			got, ok := m.GetOK(k)
			if ok != found || (found && got != ref[j].v) || (!found && got != "") {
				return errf("GetOK = (%q,%v), reference found=%v", got, ok, found)
			}
			if g := m.Get(k); g != got {
				return errf("Get = %q but GetOK = %q", g, got)
			}
		case "seek":
			if !built {
				continue // not among the operations documented for a zero Map
			}
			it := m.Seek(k)
			j := lower(k)
			if it.IsValid() != (j < len(ref)) || (j < len(ref) && (it.Key() != ref[j].k || it.Value() != ref[j].v)) {
				return errf("Seek lands on valid=%v, reference index %d of %d", it.IsValid(), j, len(ref))
			}
		case "last":
			it := m.Last()
			if it.IsValid() != (len(ref) > 0) || (len(ref) > 0 && (it.Key() != ref[len(ref)-1].k || it.Value() != ref[len(ref)-1].v)) {
				return errf("Last is valid=%v, reference has %d entries", it.IsValid(), len(ref))
			}
			n := 0
			for ; it.IsValid(); it.Prev() {
				n++
				if n > len(ref) {
					return errf("walking back from Last visits more than %d entries", len(ref))
				}
				if w := ref[len(ref)-n]; it.Key() != w.k || it.Value() != w.v {
					return errf("walking back from Last: entry %d from the end is %q:%q, reference %q:%q", n, it.Key(), it.Value(), w.k, w.v)
				}
			}
			if n != len(ref) {
				return errf("walking back from Last visits %d entries, reference %d", n, len(ref))
			}
		case "clear":
			m.Clear()
			ref = ref[:0]
		default:
			return errf("VK-INFRA unknown op")
		}
		if !built {
			// zero Map: "Clear, Delete, Get, Keys, Len, First, and Last will work"
			if m.Len() != 0 || len(m.Keys()) != 0 || m.First().IsValid() || m.Last().IsValid() {
				return errf("zero Map: Len = %d Keys = %q First valid = %v Last valid = %v", m.Len(), m.Keys(), m.First().IsValid(), m.Last().IsValid())
			}
			continue
		}
		if m.Len() != len(ref) {
			return errf("Len = %d, reference %d", m.Len(), len(ref))
		}
		keys := m.Keys()
		if len(keys) != len(ref) {
			return errf("Keys = %q, reference has %d entries", keys, len(ref))
		}
		var sb strings.Builder
		sb.WriteString("omap[")
		j := 0
		for it := m.First(); it.IsValid(); it.Next() {
			if j >= len(ref) || it.Key() != ref[j].k || it.Value() != ref[j].v || keys[j] != ref[j].k {
				return errf("iteration entry %d = %q:%q (Keys %q), reference %q", j, it.Key(), it.Value(), keys, ref)
			}
			if j > 0 {
				sb.WriteByte(' ')
			}
			fmt.Fprintf(&sb, "%v:%v", ref[j].k, ref[j].v)
			j++
		}
		if j != len(ref) {
			return errf("iteration yields %d entries, reference %d", j, len(ref))
		}
		sb.WriteByte(']')
		if got := m.String(); got != sb.String() {
			return errf("String = %q, want %q (\"omap[\" + the k:v pairs in key order separated by one space + \"]\")", got, sb.String())
		}
		if n := len(ref); n > 0 {
			first, last := ref[0].k, ref[n-1].v
			if strings.TrimSpace(first) != first || strings.TrimSpace(last) != last || first == "" || last == "" {
				edgeWS = true
			}
		}
	}
	if edgeWS && len(c.Ops) >= 3 {
		o.NonTrivial()
	}
	o.ClassIf(edgeWS, "first_key_or_last_value_has_outer_whitespace_or_is_empty")
	o.ClassIf(c.Zero, "starts_from_zero_Map")
	o.ClassIf(c.Func, "NewFunc(strings.Compare)")
	return ""
}
