package pstree

import (
	"fmt"
	"sort"
	"strings"

	"github.com/creachadair/mds/omap"
	"verif/vk"
)

// MOp is one step of an omap history.
type MOp struct {
	Kind string `json:"k"`
	A    int    `json:"a,omitempty"`
	B    int    `json:"b,omitempty"`
}

// MapCase is a history for one omap.Map.
type MapCase struct {
	Mag  int    `json:"mag,omitempty"` // 0: comparator returns -1/0/+1; 1: the difference; 2: +-MaxInt32
	Cmp  string `json:"cmp"`           // "nat", "rev", "half" (compare k/2: equivalence classes of two keys)
	Zero bool   `json:"zero"`          // use the zero Map (read-only empty map)
	Ops  []MOp  `json:"ops"`
}

func mapCmp(kind string, mag int) func(a, b int) int {
	c3 := func(a, b int) int {
		switch mag % 3 {
		case 1:
			return a - b
		case 2:
			if a != b {
				return (a - b) / max(a-b, b-a) * (1<<31 - 1)
			}
			return 0
		}
		switch {
		case a < b:
			return -1
		case a > b:
			return 1
		}
		return 0
	}
	switch kind {
	case "rev":
		return func(a, b int) int { return c3(b, a) }
	case "half":
		return func(a, b int) int { return c3(a/2, b/2) }
	}
	return c3
}

type kv struct{ k, v int }

type mapRun struct {
	c    MapCase
	cmp  func(a, b int) int
	m    [2]omap.Map[int, int] // two copies of the same Map value
	ref  []kv                  // sorted under cmp
	it   *omap.Iter[int, int]
	pos  int  // model position of it: index in ref, or -1 invalid
	sync bool // it is synchronised with the map (no edit since it was positioned)
	step int

	deletes                  int
	seekInside, seekThenPrev bool
	lastSeekInside           bool
}

func (r *mapRun) errf(format string, args ...any) string {
	op := "start"
	if r.step >= 0 && r.step < len(r.c.Ops) {
		op = fmt.Sprintf("op#%d %+v", r.step, r.c.Ops[r.step])
	}
	return fmt.Sprintf("%s (cmp %s, zero %v): %s", op, r.c.Cmp, r.c.Zero, fmt.Sprintf(format, args...))
}

// lower returns the index of the first reference entry with key >= k under cmp.
func (r *mapRun) lower(k int) int {
	return sort.Search(len(r.ref), func(i int) bool { return r.cmp(r.ref[i].k, k) >= 0 })
}
func (r *mapRun) find(k int) (int, bool) {
	i := r.lower(k)
	return i, i < len(r.ref) && r.cmp(r.ref[i].k, k) == 0
}

func (r *mapRun) checkIter(what string) string {
	it := r.it
	if it == nil {
		return ""
	}
	if r.pos < 0 || r.pos >= len(r.ref) {
		if it.IsValid() {
			return r.errf("%s: iterator should be invalid but is at key %v", what, it.Key())
		}
		if it.Key() != 0 || it.Value() != 0 {
			return r.errf("%s: invalid iterator yields key %v value %v, want zeros", what, it.Key(), it.Value())
		}
		return ""
	}
	want := r.ref[r.pos]
	if !it.IsValid() {
		return r.errf("%s: iterator is invalid, should be at key %d", what, want.k)
	}
	if r.cmp(it.Key(), want.k) != 0 || it.Value() != want.v {
		return r.errf("%s: iterator at %v:%v, reference entry %d is %d:%d", what, it.Key(), it.Value(), r.pos, want.k, want.v)
	}
	return ""
}

func (r *mapRun) checkAll() string {
	for ci := 0; ci < 2; ci++ {
		m := r.m[ci]
		if got := m.Len(); got != len(r.ref) {
			return r.errf("copy %d: Len = %d, reference %d", ci, got, len(r.ref))
		}
		keys := m.Keys()
		if len(keys) != len(r.ref) {
			return r.errf("copy %d: Keys has %d entries, reference %d: %v", ci, len(keys), len(r.ref), keys)
		}
		if len(r.ref) == 0 && keys != nil && r.c.Zero {
			return r.errf("zero map Keys() = %v, want none", keys)
		}
		var sb strings.Builder
		sb.WriteString("omap[")
		for i, k := range keys {
			if r.cmp(k, r.ref[i].k) != 0 {
				return r.errf("copy %d: Keys[%d] = %d, reference %d", ci, i, k, r.ref[i].k)
			}
			if i > 0 {
				sb.WriteString(" ")
			}
			fmt.Fprintf(&sb, "%v:%v", k, r.ref[i].v)
		}
		sb.WriteString("]")
		if got := m.String(); got != sb.String() {
			return r.errf("copy %d: String = %q, want %q", ci, got, sb.String())
		}
	}
	// full forward and backward iteration
	m := r.m[r.step&1]
	i := 0
	for it := m.First(); it.IsValid(); it.Next() {
		if i >= len(r.ref) {
			return r.errf("First/Next iteration yields more than %d entries", len(r.ref))
		}
		if r.cmp(it.Key(), r.ref[i].k) != 0 || it.Value() != r.ref[i].v {
			return r.errf("First/Next iteration entry %d = %v:%v, reference %d:%d", i, it.Key(), it.Value(), r.ref[i].k, r.ref[i].v)
		}
		i++
	}
	if i != len(r.ref) {
		return r.errf("First/Next iteration yields %d entries, reference %d", i, len(r.ref))
	}
	i = len(r.ref) - 1
	for it := m.Last(); it.IsValid(); it.Prev() {
		if i < 0 {
			return r.errf("Last/Prev iteration yields more than %d entries", len(r.ref))
		}
		if r.cmp(it.Key(), r.ref[i].k) != 0 || it.Value() != r.ref[i].v {
			return r.errf("Last/Prev iteration entry %d = %v:%v, reference %d:%d", i, it.Key(), it.Value(), r.ref[i].k, r.ref[i].v)
		}
		i--
	}
	if i != -1 {
		return r.errf("Last/Prev iteration stopped with %d entries unvisited", i+1)
	}
	return ""
}

// absentKey picks a key not in the map: below all, above all or strictly inside.
func (r *mapRun) absentKey(sel int) (int, bool) {
	// candidate universe: -4..103; find one that is absent in the requested region
	n := len(r.ref)
	var cands []int
	for k := -4; k <= 103; k++ {
		if _, ok := r.find(k); ok {
			continue
		}
		i := r.lower(k)
		switch sel % 3 {
		case 0: // before every key in iteration order
			if i == 0 {
				cands = append(cands, k)
			}
		case 1: // after every key
			if i == n {
				cands = append(cands, k)
			}
		default: // strictly inside
			if i > 0 && i < n {
				cands = append(cands, k)
			}
		}
	}
	if len(cands) == 0 {
		return 0, false
	}
	return cands[(sel/3)%len(cands)], true
}

func runC04(c MapCase, o *vk.Obs) string {
	r := &mapRun{c: c, cmp: mapCmp(c.Cmp, c.Mag), pos: -1, step: -1}
	if !c.Zero {
		r.m[0] = omap.NewFunc[int, int](r.cmp)
		if c.Cmp == "nat" && c.Mag%3 == 0 {
			r.m[0] = omap.New[int, int]()
		}
	}
	r.m[1] = r.m[0] // copies share contents
	if msg := r.checkAll(); msg != "" {
		return msg
	}
	for i, op := range c.Ops {
		r.step = i
		m := r.m[op.B&1]
		edit := false
		switch op.Kind {
		case "set", "setI":
			k := op.A % 100
			if op.Kind == "setI" && len(r.ref) > 0 {
				k = r.ref[op.A%len(r.ref)].k
				if c.Cmp == "half" {
					k ^= (op.A / 7) & 1 // the other member of the equivalence class, sometimes
				}
			}
			v := 1000 + i
			if c.Zero {
				// Set on a zero Map is documented to panic; nothing else may change.
				if pv := vk.PanicValue(func() { m.Set(k, v) }); pv == nil {
					return r.errf("Set on a zero Map did not panic")
				}
				break
			}
			j, found := r.find(k)
			got := m.Set(k, v)
			if got != !found {
				return r.errf("Set(%d) = %v, reference says key new = %v", k, got, !found)
			}
			if found {
				r.ref[j] = kv{k, v}
			} else {
				r.ref = append(r.ref, kv{})
				copy(r.ref[j+1:], r.ref[j:])
				r.ref[j] = kv{k, v}
			}
			edit = true
		case "del", "delI", "delAbsent":
			k := op.A % 100
			if op.Kind == "delI" && len(r.ref) > 0 {
				k = r.ref[op.A%len(r.ref)].k
			} else if op.Kind == "delAbsent" {
				if ak, ok := r.absentKey(op.A); ok {
					k = ak
				}
			}
			j, found := r.find(k)
			if got := m.Delete(k); got != found {
				return r.errf("Delete(%d) = %v, reference says present = %v", k, got, found)
			}
			if found {
				r.ref = append(r.ref[:j], r.ref[j+1:]...)
				r.deletes++
			}
			edit = true
		case "clear":
			m.Clear()
			r.ref = nil
			edit = true
		case "get", "getI", "getAbsent":
			k := op.A % 100
			if op.Kind == "getI" && len(r.ref) > 0 {
				k = r.ref[op.A%len(r.ref)].k
			} else if op.Kind == "getAbsent" {
				if ak, ok := r.absentKey(op.A); ok {
					k = ak
				}
			}
			j, found := r.find(k)
			v, ok := m.GetOK(k)
			v2 := m.Get(k)
			want := 0
			if found {
				want = r.ref[j].v
			}
			if ok != found || v != want || v2 != want {
				return r.errf("GetOK(%d) = (%v,%v), Get = %v; reference (%v,%v)", k, v, ok, v2, want, found)
			}
		case "first":
			r.it, r.pos, r.sync = m.First(), 0, true
			if len(r.ref) == 0 {
				r.pos = -1
			}
		case "last":
			r.it, r.pos, r.sync = m.Last(), len(r.ref)-1, true
		case "seek", "seekI", "seekAbsent", "itseek", "itseekI", "itseekAbsent":
			k := op.A % 100
			inside := false
			switch op.Kind {
			case "seekI", "itseekI":
				if len(r.ref) > 0 {
					k = r.ref[op.A%len(r.ref)].k
				}
			case "seekAbsent", "itseekAbsent":
				if ak, ok := r.absentKey(op.A); ok {
					k = ak
					j := r.lower(k)
					inside = j > 0 && j < len(r.ref)
				}
			}
			if strings.HasPrefix(op.Kind, "it") && r.it != nil {
				if ret := r.it.Seek(k); ret != r.it {
					return r.errf("Iter.Seek does not return its receiver")
				}
			} else {
				r.it = m.Seek(k)
			}
			r.pos = r.lower(k)
			if r.pos >= len(r.ref) {
				r.pos = -1
			}
			r.sync = true
			r.lastSeekInside = inside
			if inside {
				r.seekInside = true
			}
			if msg := r.checkIter(fmt.Sprintf("Seek(%d)", k)); msg != "" {
				return msg
			}
		case "next", "prev":
			if r.it == nil || !r.sync {
				break // an iterator is only used while synchronised with the map
			}
			var ret *omap.Iter[int, int]
			if op.Kind == "next" {
				ret = r.it.Next()
				if r.pos >= 0 {
					r.pos++
					if r.pos >= len(r.ref) {
						r.pos = -1
					}
				}
			} else {
				ret = r.it.Prev()
				if r.pos >= 0 {
					r.pos--
				}
				if r.lastSeekInside && r.deletes > 0 {
					r.seekThenPrev = true
				}
			}
			if ret != r.it {
				return r.errf("Iter.%s does not return its receiver", op.Kind)
			}
			r.lastSeekInside = r.lastSeekInside && op.Kind == "prev"
		case "delseek":
			// the documented delete-while-iterating idiom
			if r.it == nil || !r.sync || r.pos < 0 || c.Zero {
				break
			}
			key := r.it.Key()
			j, found := r.find(key)
			if !found {
				return r.errf("iterator key %d is not in the reference", key)
			}
			if !m.Delete(key) {
				return r.errf("Delete(%d) of the iterator's current key reports false", key)
			}
			r.ref = append(r.ref[:j], r.ref[j+1:]...)
			r.deletes++
			r.it.Seek(key)
			r.pos = j
			if r.pos >= len(r.ref) {
				r.pos = -1
			}
		default:
			return r.errf("VK-INFRA unknown op %q", op.Kind)
		}
		if edit {
			r.sync = false
		}
		if r.sync {
			if msg := r.checkIter(op.Kind); msg != "" {
				return msg
			}
		}
		if msg := r.checkAll(); msg != "" {
			return msg
		}
	}
	if r.seekThenPrev {
		o.NonTrivial()
	}
	o.ClassIf(r.seekInside, "seek_absent_inside_range")
	o.ClassIf(r.deletes > 0, "has_delete")
	o.ClassIf(c.Zero, "zero_map")
	o.Class("cmp=" + c.Cmp)
	o.ClassIf(c.Mag%3 != 0, "comparator_returns_magnitudes")
	return ""
}
