package pstree

import (
	"fmt"
	"math"
	"sort"
	"strings"

	"github.com/creachadair/mds/omap"
	"verif/vk"
)

// MOp is one step of an omap history.
type MOp struct {
	Kind string `json:"k"`
	A    int    `json:"a,omitempty"`
	B    int    `json:"b,omitempty"`
	I    int    `json:"i,omitempty"` // iterator slot
}

// MapCase is a history for one omap.Map.
type MapCase struct {
	Mag  int    `json:"mag,omitempty"` // 0: comparator returns -1/0/+1; 1: the difference; 2: +-MaxInt32
	Cmp  string `json:"cmp"`           // "nat", "rev", "half" (compare k/2: equivalence classes of two keys)
	Zero bool   `json:"zero"`          // use the zero Map (read-only empty map)
	Ops  []MOp  `json:"ops"`
}

func mapCmp(kind string, mag int) func(a, b int) int {
	c3 := func(a, b int) int {
		switch mag % 3 {
		case 1:
			return a - b
		case 2:
			if a < b {
				return math.MinInt
			} else if a > b {
				return math.MaxInt
			}
			return 0
		}
		switch {
		case a < b:
			return -1
		case a > b:
			return 1
		}
		return 0
	}
	switch kind {
	case "rev":
		return func(a, b int) int { return c3(b, a) }
	case "half":
		return func(a, b int) int { return c3(a/2, b/2) }
	}
	return c3
}

type kv struct{ k, v int }

type mapRun struct {
	c   MapCase
	cmp func(a, b int) int
	m   [2]omap.Map[int, int] // two copies of the same Map value
	ref []kv                  // sorted under cmp
	// three iterator slots that are alive at the same time
	its   [3]*omap.Iter[int, int]
	poss  [3]int  // model position of each: index in ref, or -1 invalid
	syncs [3]bool // the iterator is synchronised with the map (no edit since it was positioned)
	cur   int     // slot addressed by the current op
	step  int

	deletes                  int
	seekInside, seekThenPrev bool
	lastSeekInside           bool
}

func (r *mapRun) errf(format string, args ...any) string {
	op := "start"
	if r.step >= 0 && r.step < len(r.c.Ops) {
		op = fmt.Sprintf("op#%d %+v", r.step, r.c.Ops[r.step])
	}
	return fmt.Sprintf("%s (cmp %s, zero %v): %s", op, r.c.Cmp, r.c.Zero, fmt.Sprintf(format, args...))
}

// lower returns the index of the first reference entry with key >= k under cmp.
func (r *mapRun) lower(k int) int {
	return sort.Search(len(r.ref), func(i int) bool { return r.cmp(r.ref[i].k, k) >= 0 })
}
func (r *mapRun) find(k int) (int, bool) {
	i := r.lower(k)
	return i, i < len(r.ref) && r.cmp(r.ref[i].k, k) == 0
}

func (r *mapRun) checkIter(what string) string {
	for slot := range r.its {
		if m := r.checkIterSlot(slot, what); m != "" {
			return m
		}
	}
	return ""
}

func (r *mapRun) checkIterSlot(slot int, what string) string {
	it, pos := r.its[slot], r.poss[slot]
	if it == nil || !r.syncs[slot] {
		return ""
	}
	what = fmt.Sprintf("%s (iterator slot %d)", what, slot)
	if pos < 0 || pos >= len(r.ref) {
		if it.IsValid() {
			return r.errf("%s: iterator should be invalid but is at key %v", what, it.Key())
		}
		if it.Key() != 0 || it.Value() != 0 {
			return r.errf("%s: invalid iterator yields key %v value %v, want zeros", what, it.Key(), it.Value())
		}
		return ""
	}
	want := r.ref[pos]
	if !it.IsValid() {
		return r.errf("%s: iterator is invalid, should be at key %d", what, want.k)
	}
	if r.cmp(it.Key(), want.k) != 0 || it.Value() != want.v {
		return r.errf("%s: iterator at %v:%v, reference entry %d is %d:%d", what, it.Key(), it.Value(), pos, want.k, want.v)
	}
	return ""
}

func (r *mapRun) checkAll() string {
	for ci := 0; ci < 2; ci++ {
		m := r.m[ci]
		if got := m.Len(); got != len(r.ref) {
			return r.errf("copy %d: Len = %d, reference %d", ci, got, len(r.ref))
		}
		keys := m.Keys()
		if len(keys) != len(r.ref) {
			return r.errf("copy %d: Keys has %d entries, reference %d: %v", ci, len(keys), len(r.ref), keys)
		}
		if len(r.ref) == 0 && keys != nil && r.c.Zero {
			return r.errf("zero map Keys() = %v, want none", keys)
		}
		var sb strings.Builder
		sb.WriteString("omap[")
		for i, k := range keys {
			if r.cmp(k, r.ref[i].k) != 0 {
				return r.errf("copy %d: Keys[%d] = %d, reference %d", ci, i, k, r.ref[i].k)
			}
			if i > 0 {
				sb.WriteString(" ")
			}
			fmt.Fprintf(&sb, "%v:%v", k, r.ref[i].v)
		}
		sb.WriteString("]")
		if got := m.String(); got != sb.String() {
			return r.errf("copy %d: String = %q, want %q", ci, got, sb.String())
		}
		for i := range keys { // Keys returns a fresh slice: scribbling on it must not reach the map
			keys[i] = -31337
		}
	}
	// full forward and backward iteration
	m := r.m[r.step&1]
	i := 0
	for it := m.First(); it.IsValid(); it.Next() {
		if i >= len(r.ref) {
			return r.errf("First/Next iteration yields more than %d entries", len(r.ref))
		}
		if r.cmp(it.Key(), r.ref[i].k) != 0 || it.Value() != r.ref[i].v {
			return r.errf("First/Next iteration entry %d = %v:%v, reference %d:%d", i, it.Key(), it.Value(), r.ref[i].k, r.ref[i].v)
		}
		i++
	}
	if i != len(r.ref) {
		return r.errf("First/Next iteration yields %d entries, reference %d", i, len(r.ref))
	}
	i = len(r.ref) - 1
	for it := m.Last(); it.IsValid(); it.Prev() {
		if i < 0 {
			return r.errf("Last/Prev iteration yields more than %d entries", len(r.ref))
		}
		if r.cmp(it.Key(), r.ref[i].k) != 0 || it.Value() != r.ref[i].v {
			return r.errf("Last/Prev iteration entry %d = %v:%v, reference %d:%d", i, it.Key(), it.Value(), r.ref[i].k, r.ref[i].v)
		}
		i--
	}
	if i != -1 {
		return r.errf("Last/Prev iteration stopped with %d entries unvisited", i+1)
	}
	return ""
}

// absentKey picks a key not in the map: below all, above all or strictly inside.
func (r *mapRun) absentKey(sel int) (int, bool) {
	// candidate universe: -4..103; find one that is absent in the requested region
	n := len(r.ref)
	var cands []int
	for k := -4; k <= 103; k++ {
		if _, ok := r.find(k); ok {
			continue
		}
		i := r.lower(k)
		switch sel % 3 {
		case 0: // before every key in iteration order
			if i == 0 {
				cands = append(cands, k)
			}
		case 1: // after every key
			if i == n {
				cands = append(cands, k)
			}
		default: // strictly inside
			if i > 0 && i < n {
				cands = append(cands, k)
			}
		}
	}
	if len(cands) == 0 {
		return 0, false
	}
	return cands[(sel/3)%len(cands)], true
}

func runC04(c MapCase, o *vk.Obs) string {
	r := &mapRun{c: c, cmp: mapCmp(c.Cmp, c.Mag), poss: [3]int{-1, -1, -1}, step: -1}
	if !c.Zero {
		r.m[0] = omap.NewFunc[int, int](r.cmp)
		if c.Cmp == "nat" && c.Mag%3 == 0 {
			r.m[0] = omap.New[int, int]()
		}
	}
	r.m[1] = r.m[0] // copies share contents
	if msg := r.checkAll(); msg != "" {
		return msg
	}
	for i, op := range c.Ops {
		r.step = i
		m := r.m[op.B&1]
		r.cur = op.I % 3
		edit := false
		switch op.Kind {
		case "set", "setI":
			k := op.A % 100
			if op.Kind == "setI" && len(r.ref) > 0 {
				k = r.ref[op.A%len(r.ref)].k
				if c.Cmp == "half" {
					k ^= (op.A / 7) & 1 // the other member of the equivalence class, sometimes
				}
			}
			v := 1000 + i
			if c.Zero {
				// Set on a zero Map is documented to panic; nothing else may change.
				if pv := vk.PanicValue(func() { m.Set(k, v) }); pv == nil {
					return r.errf("Set on a zero Map did not panic")
				}
				break
			}
			j, found := r.find(k)
			got := m.Set(k, v)
			if got != !found {
				return r.errf("Set(%d) = %v, reference says key new = %v", k, got, !found)
			}
			if found {
				r.ref[j] = kv{k, v}
			} else {
				r.ref = append(r.ref, kv{})
				copy(r.ref[j+1:], r.ref[j:])
				r.ref[j] = kv{k, v}
			}
			edit = true
		case "del", "delI", "delAbsent":
			k := op.A % 100
			if op.Kind == "delI" && len(r.ref) > 0 {
				k = r.ref[op.A%len(r.ref)].k
			} else if op.Kind == "delAbsent" {
				if ak, ok := r.absentKey(op.A); ok {
					k = ak
				}
			}
			j, found := r.find(k)
			if got := m.Delete(k); got != found {
				return r.errf("Delete(%d) = %v, reference says present = %v", k, got, found)
			}
			if found {
				r.ref = append(r.ref[:j], r.ref[j+1:]...)
				r.deletes++
			}
			edit = true
		case "staleProbe":
			// read a key, delete its neighbour, write the key, read it again:
			// a lookup shortcut that survives a structural change nearby shows here
			if c.Zero || len(r.ref) < 2 {
				break
			}
			j := op.A % len(r.ref)
			s := r.ref[j]
			if v, ok := m.GetOK(s.k); !ok || v != s.v {
				return r.errf("GetOK(%d) = (%v,%v), reference (%v,true)", s.k, v, ok, s.v)
			}
			nb := j - 1
			if op.A/len(r.ref)%2 == 1 || nb < 0 {
				nb = j + 1
			}
			if nb >= 0 && nb < len(r.ref) {
				if !m.Delete(r.ref[nb].k) {
					return r.errf("Delete(%d) of a present key reports false", r.ref[nb].k)
				}
				r.ref = append(r.ref[:nb], r.ref[nb+1:]...)
				r.deletes++
				if nb < j {
					j--
				}
			}
			nv := 5000 + i
			if m.Set(s.k, nv) {
				return r.errf("Set(%d) of a present key reports it as new", s.k)
			}
			r.ref[j].v = nv
			if v, ok := m.GetOK(s.k); !ok || v != nv {
				return r.errf("GetOK(%d) = (%v,%v) after Set(%d,%d) (a neighbouring key was deleted in between), want (%d,true)", s.k, v, ok, s.k, nv, nv)
			}
			edit = true
		case "clear":
			m.Clear()
			r.ref = nil
			edit = true
		case "get", "getI", "getAbsent":
			k := op.A % 100
			if op.Kind == "getI" && len(r.ref) > 0 {
				k = r.ref[op.A%len(r.ref)].k
			} else if op.Kind == "getAbsent" {
				if ak, ok := r.absentKey(op.A); ok {
					k = ak
				}
			}
			j, found := r.find(k)
			v, ok := m.GetOK(k)
			v2 := m.Get(k)
			want := 0
			if found {
				want = r.ref[j].v
			}
			if ok != found || v != want || v2 != want {
				return r.errf("GetOK(%d) = (%v,%v), Get = %v; reference (%v,%v)", k, v, ok, v2, want, found)
			}
		case "first":
			r.its[r.cur], r.poss[r.cur], r.syncs[r.cur] = m.First(), 0, true
			if len(r.ref) == 0 {
				r.poss[r.cur] = -1
			}
		case "last":
			r.its[r.cur], r.poss[r.cur], r.syncs[r.cur] = m.Last(), len(r.ref)-1, true
		case "seek", "seekI", "seekAbsent", "itseek", "itseekI", "itseekAbsent":
			k := op.A % 100
			inside := false
			switch op.Kind {
			case "seekI", "itseekI":
				if len(r.ref) > 0 {
					k = r.ref[op.A%len(r.ref)].k
				}
			case "seekAbsent", "itseekAbsent":
				if ak, ok := r.absentKey(op.A); ok {
					k = ak
					j := r.lower(k)
					inside = j > 0 && j < len(r.ref)
				}
			}
			if strings.HasPrefix(op.Kind, "it") && r.its[r.cur] != nil {
				if ret := r.its[r.cur].Seek(k); ret != r.its[r.cur] {
					return r.errf("Iter.Seek does not return its receiver")
				}
			} else {
				r.its[r.cur] = m.Seek(k)
			}
			r.poss[r.cur] = r.lower(k)
			if r.poss[r.cur] >= len(r.ref) {
				r.poss[r.cur] = -1
			}
			r.syncs[r.cur] = true
			r.lastSeekInside = inside
			if inside {
				r.seekInside = true
			}
			if msg := r.checkIter(fmt.Sprintf("Seek(%d)", k)); msg != "" {
				return msg
			}
		case "next", "prev":
			if r.its[r.cur] == nil || !r.syncs[r.cur] {
				break // an iterator is only used while synchronised with the map
			}
			var ret *omap.Iter[int, int]
			if op.Kind == "next" {
				ret = r.its[r.cur].Next()
				if r.poss[r.cur] >= 0 {
					r.poss[r.cur]++
					if r.poss[r.cur] >= len(r.ref) {
						r.poss[r.cur] = -1
					}
				}
			} else {
				ret = r.its[r.cur].Prev()
				if r.poss[r.cur] >= 0 {
					r.poss[r.cur]--
				}
				if r.lastSeekInside && r.deletes > 0 {
					r.seekThenPrev = true
				}
			}
			if ret != r.its[r.cur] {
				return r.errf("Iter.%s does not return its receiver", op.Kind)
			}
			r.lastSeekInside = r.lastSeekInside && op.Kind == "prev"
		case "delseek":
			// the documented delete-while-iterating idiom
			if r.its[r.cur] == nil || !r.syncs[r.cur] || r.poss[r.cur] < 0 || c.Zero {
				break
			}
			key := r.its[r.cur].Key()
			j, found := r.find(key)
			if !found {
				return r.errf("iterator key %d is not in the reference", key)
			}
			if !m.Delete(key) {
				return r.errf("Delete(%d) of the iterator's current key reports false", key)
			}
			r.ref = append(r.ref[:j], r.ref[j+1:]...)
			r.deletes++
			for k := range r.syncs { // the map was edited: every other iterator is out of date
				if k != r.cur {
					r.syncs[k] = false
				}
			}
			r.its[r.cur].Seek(key)
			r.poss[r.cur] = j
			if r.poss[r.cur] >= len(r.ref) {
				r.poss[r.cur] = -1
			}
		default:
			return r.errf("VK-INFRA unknown op %q", op.Kind)
		}
		if edit {
			r.syncs = [3]bool{}
		}
		if msg := r.checkIter(op.Kind); msg != "" { // every live, synchronised iterator
			return msg
		}
		if msg := r.checkAll(); msg != "" {
			return msg
		}
	}
	if r.seekThenPrev {
		o.NonTrivial()
	}
	o.ClassIf(r.seekInside, "seek_absent_inside_range")
	o.ClassIf(r.deletes > 0, "has_delete")
	o.ClassIf(c.Zero, "zero_map")
	o.Class("cmp=" + c.Cmp)
	o.ClassIf(c.Mag%3 != 0, "comparator_returns_magnitudes")
	return ""
}
