package pstree

import (
	"cmp"
	"fmt"
	"math"
	"sort"
	"strconv"
	"strings"

	"github.com/creachadair/mds/omap"
	"verif/elem"
	"verif/vk"
)

// MOp is one step of an omap history.
type MOp struct {
	Kind string `json:"k"`
	A    int    `json:"a,omitempty"`
	B    int    `json:"b,omitempty"`
	I    int    `json:"i,omitempty"` // iterator slot
}

// MapCase is a history for one omap.Map.
type MapCase struct {
	Mag  int    `json:"mag,omitempty"` // 0: comparator returns -1/0/+1; 1: the difference; 2: +-MaxInt32
	Cmp  string `json:"cmp"`           // "nat", "rev", "half" (compare k/2: equivalence classes of two keys)
	Zero bool   `json:"zero"`          // use the zero Map (read-only empty map)
	Ops  []MOp  `json:"ops"`
	// Elem selects the key type: "" is int as before; "int", "string", "i16",
	// "wide", "ptr", "any" and "bytes" are the kinds of package elem.  The reference and
	// every argument stay key numbers (-4..103); a key is converted where it
	// enters or leaves the library.  The ordered kinds are constructed by
	// omap.New when Cmp is "nat" and Mag is 0, all others by NewFunc.
	Elem string `json:"elem,omitempty"`
	// Val selects the value type: "" is int as before; "int", "string" and
	// "ptr" (kinds of package elem), "label" (*Label, a String method on the
	// pointer receiver) and "fmt" (Dual, a fmt.Formatter that is also a
	// fmt.Stringer).  With a kind other than "" some Sets store the zero value
	// of the type (a nil pointer, "", 0) and some store a new value equal to
	// the one already held.
	Val string `json:"val,omitempty"`
	// Span 1 spreads the key numbers over the whole range of the key type: the
	// lowest numbers sit at its minimum, the highest at its maximum, the others
	// around 0 (the order of the numbers is kept).
	Span int `json:"span,omitempty"`
}

func mapCmp(kind string, mag int) func(a, b int) int {
	c3 := func(a, b int) int {
		switch mag % 3 {
		case 1:
			return a - b
		case 2:
			if a < b {
				return math.MinInt
			} else if a > b {
				return math.MaxInt
			}
			return 0
		}
		switch {
		case a < b:
			return -1
		case a > b:
			return 1
		}
		return 0
	}
	switch kind {
	case "rev":
		return func(a, b int) int { return c3(b, a) }
	case "half":
		return func(a, b int) int { return c3(a/2, b/2) }
	}
	return c3
}

// Label is a map value with a String method on the pointer receiver that
// reads the pointee.  A nil *Label is a legitimate value of a map; fmt prints
// it as <nil>.
type Label struct{ N int }

func (l *Label) String() string { return "L" + strconv.Itoa(l.N) }

// labelKit: U = *Label.  Like elem.PtrKit every Make gives a new pointer and
// pointees of equal value are deeply equal; the identities live in a table
// that belongs to the kit (one kit per run).
func labelKit() elem.Kit[*Label] {
	ids := map[*Label]int{}
	return elem.Kit[*Label]{Kind: "label", HasID: true,
		Make: func(v, id int) *Label { l := &Label{N: v}; ids[l] = id; return l },
		V:    func(l *Label) int { return l.N },
		ID: func(l *Label) int {
			if id, ok := ids[l]; ok {
				return id
			}
			return -1 << 40 // a pointer the harness never made
		},
		Same: func(a, b *Label) bool { return a == b },
	}
}

// Dual is a map value that implements fmt.Formatter and fmt.Stringer with
// different texts: the verb %v uses Format.
type Dual struct{ N, ID int }

func (d Dual) String() string                { return "S" + strconv.Itoa(d.N) }
func (d Dual) Format(s fmt.State, verb rune) { fmt.Fprintf(s, "F%d/%d", d.N, d.ID) }

func dualKit() elem.Kit[Dual] {
	return elem.Kit[Dual]{Kind: "fmt", HasID: true,
		Make: func(v, id int) Dual { return Dual{N: v, ID: id} },
		V:    func(d Dual) int { return d.N },
		ID:   func(d Dual) int { return d.ID },
		Same: func(a, b Dual) bool { return a == b },
	}
}

// valueKit adapts an element kit to map values: value number 0 stands for the
// zero value of U (what Get returns for an absent key, and a value a caller
// may store as well).
func valueKit[U any](k elem.Kit[U]) elem.Kit[U] {
	mk, val, id, same := k.Make, k.V, k.ID, k.Same
	var zero U
	k.Make = func(v, i int) U {
		if v == 0 {
			return zero
		}
		return mk(v, i)
	}
	k.V = func(x U) int {
		if same(x, zero) {
			return 0
		}
		return val(x)
	}
	k.ID = func(x U) int {
		if same(x, zero) {
			return 0
		}
		return id(x)
	}
	return k
}

// kv is one entry of the reference: key number, value number, and the value
// as it was handed to Set (for the kinds where equal-valued values can be
// told apart).
type kv[U any] struct {
	k, v int
	u    U
}

// noKey is the key number reported for a key element that is none of the
// universe's (the zero value of a pointer or string key, an invented key).
const noKey = 1 << 20

// spreadKey maps key number k (-4..103) to the value its element carries when
// Span is 1: the numbers up to 24 count up from lo, those from 75 count down
// to hi, the others lie around 0.  unspreadKey is the inverse.
func spreadKey(k, lo, hi int) int {
	switch {
	case k <= 24:
		return lo + (k + 4)
	case k >= 75:
		return hi - (103 - k)
	}
	return k - 50
}

func unspreadKey(v, lo, hi int) int {
	switch {
	case v <= lo+28:
		return v - lo - 4
	case v >= hi-28:
		return 103 - (hi - v)
	case v >= -25 && v <= 24:
		return v + 50
	}
	return noKey
}

type mapRun[K, U any] struct {
	c    MapCase
	kkit elem.Kit[K]
	vkit elem.Kit[U]
	nat  bool // built by omap.New: the key type's own order and equality apply, so keys carry no identity
	cmp  func(a, b int) int
	m    [2]omap.Map[K, U] // two copies of the same Map value
	ref  []kv[U]           // sorted under cmp
	// three iterator slots that are alive at the same time
	its   [3]*omap.Iter[K, U]
	poss  [3]int  // model position of each: index in ref, or -1 invalid
	syncs [3]bool // the iterator is synchronised with the map (no edit since it was positioned)
	cur   int     // slot addressed by the current op
	step  int
	kid   int // identity given to the key elements of the current op

	deletes                  int
	seekInside, seekThenPrev bool
	lastSeekInside           bool
	zeroVals, sameVals       int
}

func (r *mapRun[K, U]) errf(format string, args ...any) string {
	op := "start"
	if r.step >= 0 && r.step < len(r.c.Ops) {
		op = fmt.Sprintf("op#%d %+v", r.step, r.c.Ops[r.step])
	}
	el := ""
	if r.c.Elem != "" || r.c.Val != "" || r.c.Span != 0 {
		el = fmt.Sprintf(", key %q value %q span %d", r.c.Elem, r.c.Val, r.c.Span)
	}
	return fmt.Sprintf("%s (cmp %s, zero %v%s): %s", op, r.c.Cmp, r.c.Zero, el, fmt.Sprintf(format, args...))
}

// keyRange is the range of values a key element can carry.
func (r *mapRun[K, U]) keyRange() (lo, hi int) {
	if r.kkit.Kind == elem.I16 {
		return math.MinInt16, math.MaxInt16
	}
	return math.MinInt, math.MaxInt
}

// mkKey converts key number k into a key element.  For the "ptr" and "any"
// kinds every call allocates a new cell.
func (r *mapRun[K, U]) mkKey(k int) K {
	if r.c.Span%2 == 1 {
		lo, hi := r.keyRange()
		k = spreadKey(k, lo, hi)
	}
	return r.kkit.Make(k, r.kid)
}

func (r *mapRun[K, U]) keyIsZero(x K) bool {
	var zero K
	return r.kkit.Same(x, zero)
}

// kn is the key number of a key element that came out of the library (or is
// handed to the comparison function).
func (r *mapRun[K, U]) kn(x K) int {
	if r.kkit.Kind != elem.Int && r.kkit.Kind != elem.I16 && r.keyIsZero(x) {
		return noKey // the zero value of these kinds is not a key of the universe
	}
	v := r.kkit.V(x)
	if r.c.Span%2 == 1 {
		lo, hi := r.keyRange()
		return unspreadKey(v, lo, hi)
	}
	return v
}

func (r *mapRun[K, U]) kns(xs []K) []int {
	out := make([]int, len(xs))
	for i, x := range xs {
		out[i] = r.kn(x)
	}
	return out
}

func (r *mapRun[K, U]) valIsZero(x U) bool {
	var zero U
	return r.vkit.Same(x, zero)
}

// entry makes the reference entry (and with it the value element) for a Set.
func (r *mapRun[K, U]) entry(k, v, id int) kv[U] {
	return kv[U]{k: k, v: v, u: r.vkit.Make(v, id)}
}

// veq reports whether a value that came out of the library is the one the
// reference entry holds: the same value number and, for the kinds that can
// tell equal-valued values apart, the very value handed to Set.
func (r *mapRun[K, U]) veq(got U, want kv[U]) bool {
	if r.vkit.V(got) != want.v {
		return false
	}
	return !r.vkit.HasID || r.vkit.Same(got, want.u)
}

// vs prints a value: its number, and its identity where the kind has one.
func (r *mapRun[K, U]) vs(x U) string {
	if !r.vkit.HasID {
		return strconv.Itoa(r.vkit.V(x))
	}
	return fmt.Sprintf("%d#%d", r.vkit.V(x), r.vkit.ID(x))
}

// lower returns the index of the first reference entry with key >= k under cmp.
func (r *mapRun[K, U]) lower(k int) int {
	return sort.Search(len(r.ref), func(i int) bool { return r.cmp(r.ref[i].k, k) >= 0 })
}
func (r *mapRun[K, U]) find(k int) (int, bool) {
	i := r.lower(k)
	return i, i < len(r.ref) && r.cmp(r.ref[i].k, k) == 0
}

func (r *mapRun[K, U]) checkIter(what string) string {
	for slot := range r.its {
		if m := r.checkIterSlot(slot, what); m != "" {
			return m
		}
	}
	return ""
}

func (r *mapRun[K, U]) checkIterSlot(slot int, what string) string {
	it, pos := r.its[slot], r.poss[slot]
	if it == nil || !r.syncs[slot] {
		return ""
	}
	what = fmt.Sprintf("%s (iterator slot %d)", what, slot)
	if pos < 0 || pos >= len(r.ref) {
		if it.IsValid() {
			return r.errf("%s: iterator should be invalid but is at key %v", what, r.kn(it.Key()))
		}
		if !r.keyIsZero(it.Key()) || !r.valIsZero(it.Value()) {
			return r.errf("%s: invalid iterator yields key %v value %v, want zeros", what, it.Key(), it.Value())
		}
		return ""
	}
	want := r.ref[pos]
	if !it.IsValid() {
		return r.errf("%s: iterator is invalid, should be at key %d", what, want.k)
	}
	if r.cmp(r.kn(it.Key()), want.k) != 0 || !r.veq(it.Value(), want) {
		return r.errf("%s: iterator at %v:%v, reference entry %d is %d:%v", what, r.kn(it.Key()), r.vs(it.Value()), pos, want.k, r.vs(want.u))
	}
	return ""
}

func (r *mapRun[K, U]) checkAll() string {
	for ci := 0; ci < 2; ci++ {
		m := r.m[ci]
		if got := m.Len(); got != len(r.ref) {
			return r.errf("copy %d: Len = %d, reference %d", ci, got, len(r.ref))
		}
		keys := m.Keys()
		if len(keys) != len(r.ref) {
			return r.errf("copy %d: Keys has %d entries, reference %d: %v", ci, len(keys), len(r.ref), r.kns(keys))
		}
		if len(r.ref) == 0 && keys != nil && r.c.Zero {
			return r.errf("zero map Keys() = %v, want none", r.kns(keys))
		}
		var sb strings.Builder
		sb.WriteString("omap[")
		for i, k := range keys {
			if r.cmp(r.kn(k), r.ref[i].k) != 0 {
				return r.errf("copy %d: Keys[%d] = %d, reference %d", ci, i, r.kn(k), r.ref[i].k)
			}
			if i > 0 {
				sb.WriteString(" ")
			}
			// the key as Keys returned it and the value as it was handed to Set
			fmt.Fprintf(&sb, "%v:%v", k, r.ref[i].u)
		}
		sb.WriteString("]")
		var got string
		if pv := vk.PanicValue(func() { got = m.String() }); pv != nil {
			return r.errf("copy %d: String panicked: %v (the map should print as %q)", ci, pv, sb.String())
		}
		if got != sb.String() {
			return r.errf("copy %d: String = %q, want %q", ci, got, sb.String())
		}
		for i := range keys { // Keys returns a fresh slice: scribbling on it must not reach the map
			keys[i] = r.kkit.Make(-31337, 0)
		}
	}
	// full forward and backward iteration
	m := r.m[r.step&1]
	i := 0
	for it := m.First(); it.IsValid(); it.Next() {
		if i >= len(r.ref) {
			return r.errf("First/Next iteration yields more than %d entries", len(r.ref))
		}
		if r.cmp(r.kn(it.Key()), r.ref[i].k) != 0 || !r.veq(it.Value(), r.ref[i]) {
			return r.errf("First/Next iteration entry %d = %v:%v, reference %d:%v", i, r.kn(it.Key()), r.vs(it.Value()), r.ref[i].k, r.vs(r.ref[i].u))
		}
		i++
	}
	if i != len(r.ref) {
		return r.errf("First/Next iteration yields %d entries, reference %d", i, len(r.ref))
	}
	i = len(r.ref) - 1
	for it := m.Last(); it.IsValid(); it.Prev() {
		if i < 0 {
			return r.errf("Last/Prev iteration yields more than %d entries", len(r.ref))
		}
		if r.cmp(r.kn(it.Key()), r.ref[i].k) != 0 || !r.veq(it.Value(), r.ref[i]) {
			return r.errf("Last/Prev iteration entry %d = %v:%v, reference %d:%v", i, r.kn(it.Key()), r.vs(it.Value()), r.ref[i].k, r.vs(r.ref[i].u))
		}
		i--
	}
	if i != -1 {
		return r.errf("Last/Prev iteration stopped with %d entries unvisited", i+1)
	}
	return ""
}

// absentKey picks a key not in the map: below all, above all or strictly inside.
func (r *mapRun[K, U]) absentKey(sel int) (int, bool) {
	// candidate universe: -4..103; find one that is absent in the requested region
	n := len(r.ref)
	var cands []int
	for k := -4; k <= 103; k++ {
		if _, ok := r.find(k); ok {
			continue
		}
		i := r.lower(k)
		switch sel % 3 {
		case 0: // before every key in iteration order
			if i == 0 {
				cands = append(cands, k)
			}
		case 1: // after every key
			if i == n {
				cands = append(cands, k)
			}
		default: // strictly inside
			if i > 0 && i < n {
				cands = append(cands, k)
			}
		}
	}
	if len(cands) == 0 {
		return 0, false
	}
	return cands[(sel/3)%len(cands)], true
}

// mapKeyKinds and mapValKinds list the values of MapCase.Elem and MapCase.Val
// besides "".
var (
	mapKeyKinds = []string{elem.Int, elem.Str, elem.I16, elem.Wide, elem.Ptr, elem.Any, elem.Bytes}
	mapValKinds = []string{elem.Int, elem.Str, elem.Ptr, "label", "fmt"}
)

// naturalMaps holds omap.New instantiated for one ordered key type and every
// value type (nil functions for a key type without a natural order).
type naturalMaps[K any] struct {
	ints   func() omap.Map[K, int]
	strs   func() omap.Map[K, string]
	ptrs   func() omap.Map[K, *elem.Cell]
	labels func() omap.Map[K, *Label]
	duals  func() omap.Map[K, Dual]
}

func naturalOf[K cmp.Ordered]() naturalMaps[K] {
	return naturalMaps[K]{omap.New[K, int], omap.New[K, string], omap.New[K, *elem.Cell], omap.New[K, *Label], omap.New[K, Dual]}
}

// runC04 is the RunFunc of C04's leg hist; it switches on the key kind, and
// runMapKey on the value kind.
func runC04(c MapCase, o *vk.Obs) string {
	switch c.Elem {
	case "", elem.Int:
		return runMapKey(c, o, elem.IntKit(), naturalOf[int]())
	case elem.Str:
		return runMapKey(c, o, elem.StrKit(), naturalOf[string]())
	case elem.I16:
		return runMapKey(c, o, elem.I16Kit(), naturalOf[int16]())
	case elem.Wide:
		return runMapKey(c, o, elem.WideKit(), naturalMaps[elem.WideElem]{})
	case elem.Ptr:
		return runMapKey(c, o, elem.PtrKit(), naturalMaps[*elem.Cell]{})
	case elem.Any:
		return runMapKey(c, o, elem.AnyKit(), naturalMaps[any]{})
	case elem.Bytes:
		return runMapKey(c, o, elem.BytesKit(), naturalMaps[[]byte]{})
	}
	return fmt.Sprintf("VK-INFRA unknown key kind %q", c.Elem)
}

func runMapKey[K any](c MapCase, o *vk.Obs, kk elem.Kit[K], nat naturalMaps[K]) string {
	switch c.Val {
	case "", elem.Int:
		return runMapOn(c, o, kk, valueKit(elem.IntKit()), nat.ints)
	case elem.Str:
		return runMapOn(c, o, kk, valueKit(elem.StrKit()), nat.strs)
	case elem.Ptr:
		return runMapOn(c, o, kk, valueKit(elem.PtrKit()), nat.ptrs)
	case "label":
		return runMapOn(c, o, kk, valueKit(labelKit()), nat.labels)
	case "fmt":
		return runMapOn(c, o, kk, valueKit(dualKit()), nat.duals)
	}
	return fmt.Sprintf("VK-INFRA unknown value kind %q", c.Val)
}

// runMapOn interprets c on an omap.Map[K, U]; natural is omap.New for these
// types, or nil if K has no natural order.
func runMapOn[K, U any](c MapCase, o *vk.Obs, kk elem.Kit[K], vkit elem.Kit[U], natural func() omap.Map[K, U]) string {
	elem.ResetPtr()
	r := &mapRun[K, U]{c: c, kkit: kk, vkit: vkit, cmp: mapCmp(c.Cmp, c.Mag), poss: [3]int{-1, -1, -1}, step: -1}
	r.nat = natural != nil && c.Cmp == "nat" && c.Mag%3 == 0
	if !c.Zero {
		if r.nat {
			r.m[0] = natural()
		} else {
			r.m[0] = omap.NewFunc[K, U](func(a, b K) int { return r.cmp(r.kn(a), r.kn(b)) })
		}
	}
	r.m[1] = r.m[0] // copies share contents
	if msg := r.checkAll(); msg != "" {
		return msg
	}
	for i, op := range c.Ops {
		o.Step() // interleaved execution (vk.Interleave) switches to the other case here
		r.step = i
		m := r.m[op.B&1]
		r.cur = op.I % 3
		// Keys of kinds that carry an identity get one of three per op, so that a
		// probe is sometimes the very key element stored and sometimes only
		// equivalent to it under the comparison function; under omap.New the
		// type's own equality decides, so every key element has identity 0.
		r.kid = 0
		if c.Elem != "" && kk.HasID && !r.nat {
			r.kid = (op.A/2 + i) % 3
		}
		edit := false
		switch op.Kind {
		case "set", "setI":
			k := op.A % 100
			if op.Kind == "setI" && len(r.ref) > 0 {
				k = r.ref[op.A%len(r.ref)].k
				if c.Cmp == "half" {
					k ^= (op.A / 7) & 1 // the other member of the equivalence class, sometimes
				}
			}
			v := 1000 + i
			if c.Zero {
				// Set on a zero Map is documented to panic; nothing else may change.
				if pv := vk.PanicValue(func() { m.Set(r.mkKey(k), r.vkit.Make(v, i+1)) }); pv == nil {
					return r.errf("Set on a zero Map did not panic")
				}
				break
			}
			j, found := r.find(k)
			if c.Val != "" {
				switch sel := (op.A + i) % 6; {
				case sel == 5: // the zero value of the value type (a nil pointer, "", 0)
					v = 0
					r.zeroVals++
				case sel == 4 && found && r.ref[j].v != 0:
					// a new value equal to the one held: for pointers a new cell
					// whose pointee is deeply equal, only the pointer differs
					v = r.ref[j].v
					r.sameVals++
				}
			}
			e := r.entry(k, v, i+1)
			got := m.Set(r.mkKey(k), e.u)
			if got != !found {
				return r.errf("Set(%d) = %v, reference says key new = %v", k, got, !found)
			}
			if found {
				r.ref[j] = e
			} else {
				r.ref = append(r.ref, kv[U]{})
				copy(r.ref[j+1:], r.ref[j:])
				r.ref[j] = e
			}
			edit = true
		case "del", "delI", "delAbsent":
			k := op.A % 100
			if op.Kind == "delI" && len(r.ref) > 0 {
				k = r.ref[op.A%len(r.ref)].k
			} else if op.Kind == "delAbsent" {
				if ak, ok := r.absentKey(op.A); ok {
					k = ak
				}
			}
			j, found := r.find(k)
			if got := m.Delete(r.mkKey(k)); got != found {
				return r.errf("Delete(%d) = %v, reference says present = %v", k, got, found)
			}
			if found {
				r.ref = append(r.ref[:j], r.ref[j+1:]...)
				r.deletes++
			}
			edit = true
		case "staleProbe":
			// read a key, delete its neighbour, write the key, read it again:
			// a lookup shortcut that survives a structural change nearby shows here
			if c.Zero || len(r.ref) < 2 {
				break
			}
			j := op.A % len(r.ref)
			s := r.ref[j]
			if v, ok := m.GetOK(r.mkKey(s.k)); !ok || !r.veq(v, s) {
				return r.errf("GetOK(%d) = (%v,%v), reference (%v,true)", s.k, r.vs(v), ok, r.vs(s.u))
			}
			nb := j - 1
			if op.A/len(r.ref)%2 == 1 || nb < 0 {
				nb = j + 1
			}
			if nb >= 0 && nb < len(r.ref) {
				if !m.Delete(r.mkKey(r.ref[nb].k)) {
					return r.errf("Delete(%d) of a present key reports false", r.ref[nb].k)
				}
				r.ref = append(r.ref[:nb], r.ref[nb+1:]...)
				r.deletes++
				if nb < j {
					j--
				}
			}
			nv := 5000 + i
			if c.Val != "" && (op.A+i)%3 == 1 && s.v != 0 {
				nv = s.v // a new value equal to the one held
				r.sameVals++
			}
			e := r.entry(s.k, nv, i+1)
			if m.Set(r.mkKey(s.k), e.u) {
				return r.errf("Set(%d) of a present key reports it as new", s.k)
			}
			r.ref[j].v, r.ref[j].u = e.v, e.u
			if v, ok := m.GetOK(r.mkKey(s.k)); !ok || !r.veq(v, e) {
				return r.errf("GetOK(%d) = (%v,%v) after Set(%d,%v) (a neighbouring key was deleted in between), want (%v,true)", s.k, r.vs(v), ok, s.k, r.vs(e.u), r.vs(e.u))
			}
			edit = true
		case "clear":
			m.Clear()
			r.ref = nil
			edit = true
		case "get", "getI", "getAbsent":
			k := op.A % 100
			if op.Kind == "getI" && len(r.ref) > 0 {
				k = r.ref[op.A%len(r.ref)].k
			} else if op.Kind == "getAbsent" {
				if ak, ok := r.absentKey(op.A); ok {
					k = ak
				}
			}
			j, found := r.find(k)
			v, ok := m.GetOK(r.mkKey(k))
			v2 := m.Get(r.mkKey(k))
			var want kv[U] // absent: the zero value
			if found {
				want = r.ref[j]
			}
			if ok != found || !r.veq(v, want) || !r.veq(v2, want) || !found && !(r.valIsZero(v) && r.valIsZero(v2)) {
				return r.errf("GetOK(%d) = (%v,%v), Get = %v; reference (%v,%v)", k, r.vs(v), ok, r.vs(v2), r.vs(want.u), found)
			}
		case "first":
			r.its[r.cur], r.poss[r.cur], r.syncs[r.cur] = m.First(), 0, true
			if len(r.ref) == 0 {
				r.poss[r.cur] = -1
			}
		case "last":
			r.its[r.cur], r.poss[r.cur], r.syncs[r.cur] = m.Last(), len(r.ref)-1, true
		case "seek", "seekI", "seekAbsent", "itseek", "itseekI", "itseekAbsent":
			k := op.A % 100
			inside := false
			switch op.Kind {
			case "seekI", "itseekI":
				if len(r.ref) > 0 {
					k = r.ref[op.A%len(r.ref)].k
				}
			case "seekAbsent", "itseekAbsent":
				if ak, ok := r.absentKey(op.A); ok {
					k = ak
					j := r.lower(k)
					inside = j > 0 && j < len(r.ref)
				}
			}
			if strings.HasPrefix(op.Kind, "it") && r.its[r.cur] != nil {
				if ret := r.its[r.cur].Seek(r.mkKey(k)); ret != r.its[r.cur] {
					return r.errf("Iter.Seek does not return its receiver")
				}
			} else {
				r.its[r.cur] = m.Seek(r.mkKey(k))
			}
			r.poss[r.cur] = r.lower(k)
			if r.poss[r.cur] >= len(r.ref) {
				r.poss[r.cur] = -1
			}
			r.syncs[r.cur] = true
			r.lastSeekInside = inside
			if inside {
				r.seekInside = true
			}
			if msg := r.checkIter(fmt.Sprintf("Seek(%d)", k)); msg != "" {
				return msg
			}
		case "next", "prev":
			if r.its[r.cur] == nil || !r.syncs[r.cur] {
				break // an iterator is only used while synchronised with the map
			}
			var ret *omap.Iter[K, U]
			if op.Kind == "next" {
				ret = r.its[r.cur].Next()
				if r.poss[r.cur] >= 0 {
					r.poss[r.cur]++
					if r.poss[r.cur] >= len(r.ref) {
						r.poss[r.cur] = -1
					}
				}
			} else {
				ret = r.its[r.cur].Prev()
				if r.poss[r.cur] >= 0 {
					r.poss[r.cur]--
				}
				if r.lastSeekInside && r.deletes > 0 {
					r.seekThenPrev = true
				}
			}
			if ret != r.its[r.cur] {
				return r.errf("Iter.%s does not return its receiver", op.Kind)
			}
			r.lastSeekInside = r.lastSeekInside && op.Kind == "prev"
		case "delseek":
			// the documented delete-while-iterating idiom
			if r.its[r.cur] == nil || !r.syncs[r.cur] || r.poss[r.cur] < 0 || c.Zero {
				break
			}
			key := r.its[r.cur].Key()
			j, found := r.find(r.kn(key))
			if !found {
				return r.errf("iterator key %d is not in the reference", r.kn(key))
			}
			if !m.Delete(key) {
				return r.errf("Delete(%d) of the iterator's current key reports false", r.kn(key))
			}
			r.ref = append(r.ref[:j], r.ref[j+1:]...)
			r.deletes++
			for k := range r.syncs { // the map was edited: every other iterator is out of date
				if k != r.cur {
					r.syncs[k] = false
				}
			}
			r.its[r.cur].Seek(key)
			r.poss[r.cur] = j
			if r.poss[r.cur] >= len(r.ref) {
				r.poss[r.cur] = -1
			}
		default:
			return r.errf("VK-INFRA unknown op %q", op.Kind)
		}
		if edit {
			r.syncs = [3]bool{}
		}
		if msg := r.checkIter(op.Kind); msg != "" { // every live, synchronised iterator
			return msg
		}
		if msg := r.checkAll(); msg != "" {
			return msg
		}
	}
	if r.seekThenPrev {
		o.NonTrivial()
	}
	o.ClassIf(r.seekInside, "seek_absent_inside_range")
	o.ClassIf(r.deletes > 0, "has_delete")
	o.ClassIf(c.Zero, "zero_map")
	o.Class("cmp=" + c.Cmp)
	o.ClassIf(c.Mag%3 != 0, "comparator_returns_magnitudes")
	classElem(o, c.Elem, false)
	if c.Val == "" {
		o.Class("val=default")
	} else {
		o.Class("val=" + c.Val)
	}
	o.ClassIf(r.nat && !c.Zero, "natural_order(omap.New)")
	o.ClassIf(c.Span%2 == 1, "keys_at_the_ends_of_the_type's_range")
	o.ClassIf(r.zeroVals > 0, "zero_value_stored")
	o.ClassIf(r.sameVals > 0, "equal_value_stored_again")
	return ""
}
