// Package elem provides the element types with which the harnesses
// instantiate the generic containers of mds.  The library's code is generic,
// so a property that holds for one element type has to hold for all of them;
// a change that special-cases a type (a type switch, reflect, unsafe.Sizeof,
// reflect.DeepEqual, fmt) breaks that for some instantiations only.  Every
// harness keeps its reference model in ints and converts at the API boundary
// through a Kit.
//
// A value of the element type carries two ints: V, the value the reference
// model works with, and ID, an identity that distinguishes equal-valued
// elements (0 when the kind cannot carry one).
package elem

import (
	"fmt"
	"runtime"
	"strconv"
	"sync"
	"unsafe"
)

// Kind names, as stored in the Elem field of a case ("" = the harness's
// original element type).
const (
	Int   = "int"    // plain int; cannot carry an ID
	Str   = "string" // fixed-width decimal text, ordered like the ints (ID appended when non-zero)
	I16   = "i16"    // int16: a 2-byte element; V must lie in [-32768, 32767]; cannot carry an ID
	Wide  = "wide"   // comparable struct of 88 bytes (> 64) holding a string and arrays
	Ptr   = "ptr"    // *Cell: every Make returns a NEW pointer; pointees of equal V are deeply equal
	Bytes = "bytes"  // []byte (not comparable): only for APIs whose element constraint is any
	Any   = "any"    // interface type any holding a *Cell: == is pointer identity, reflect.DeepEqual is not
	F64   = "f64"    // float64 holding an integer of magnitude < 2^53; cannot carry an ID
)

// Kit converts between (V, ID) pairs and the element type T.
type Kit[T any] struct {
	Kind string
	// HasID reports whether ID survives the round trip through T.
	HasID bool
	// Make returns an element for (v, id).  For Ptr it allocates a new cell on
	// every call, so two calls with the same arguments give distinguishable
	// elements whose contents are deeply equal.
	Make func(v, id int) T
	// V and ID recover the two ints.
	V  func(T) int
	ID func(T) int
	// Same reports whether a and b are the very same element as far as a
	// caller can tell: == for the comparable kinds, pointer identity for Ptr,
	// identity of the backing array for Bytes.
	Same func(a, b T) bool
	// Cmp orders elements by V alone (the comparison the harnesses hand to
	// the …Func constructors).
	Cmp func(a, b T) int
}

func cmpInt(a, b int) int {
	switch {
	case a < b:
		return -1
	case a > b:
		return 1
	}
	return 0
}

func finish[T any](k Kit[T]) Kit[T] {
	k.Cmp = func(a, b T) int { return cmpInt(k.V(a), k.V(b)) }
	return k
}

// IntKit: T = int.
func IntKit() Kit[int] {
	return finish(Kit[int]{Kind: Int,
		Make: func(v, _ int) int { return v },
		V:    func(x int) int { return x },
		ID:   func(int) int { return 0 },
		Same: func(a, b int) bool { return a == b },
	})
}

// I16Kit: T = int16.  V outside the int16 range panics (a harness error).
func I16Kit() Kit[int16] {
	return finish(Kit[int16]{Kind: I16,
		Make: func(v, _ int) int16 {
			if v < -32768 || v > 32767 {
				panic(fmt.Sprintf("harness error: value %d does not fit the i16 element kind", v))
			}
			return int16(v)
		},
		V:    func(x int16) int { return int(x) },
		ID:   func(int16) int { return 0 },
		Same: func(a, b int16) bool { return a == b },
	})
}

// EncodeStr writes v as 20 decimal digits of v's offset-binary value, so that
// the natural order of the strings is the order of the ints over the whole
// int range; a non-zero id is appended after '#'.
func EncodeStr(v, id int) string {
	s := fmt.Sprintf("%020d", uint64(v)^(1<<63))
	if id != 0 {
		s += "#" + strconv.Itoa(id)
	}
	return s
}

// DecodeStr is the inverse of EncodeStr.
func DecodeStr(s string) (v, id int) {
	if len(s) < 20 {
		panic(fmt.Sprintf("harness error: %q is not an encoded element", s))
	}
	u, err := strconv.ParseUint(s[:20], 10, 64)
	if err != nil {
		panic(fmt.Sprintf("harness error: %q is not an encoded element", s))
	}
	v = int(u ^ (1 << 63))
	if len(s) > 21 {
		id, _ = strconv.Atoi(s[21:])
	}
	return v, id
}

// StrKit: T = string.
func StrKit() Kit[string] {
	return finish(Kit[string]{Kind: Str, HasID: true,
		Make: EncodeStr,
		V:    func(s string) int { v, _ := DecodeStr(s); return v },
		ID:   func(s string) int { _, id := DecodeStr(s); return id },
		Same: func(a, b string) bool { return a == b },
	})
}

// WideElem is a comparable struct of 88 bytes.
type WideElem struct {
	Pad0 [3]int64
	Val  int
	Name string // decimal text of Val: a second field a shallow copy must carry along
	Tag  int
	Pad1 [4]int64
}

// WideKit: T = WideElem.
func WideKit() Kit[WideElem] {
	return finish(Kit[WideElem]{Kind: Wide, HasID: true,
		Make: func(v, id int) WideElem {
			return WideElem{Pad0: [3]int64{1, 2, 3}, Val: v, Name: strconv.Itoa(v), Tag: id, Pad1: [4]int64{4, 5, 6, 7}}
		},
		V:    func(x WideElem) int { return x.Val },
		ID:   func(x WideElem) int { return x.Tag },
		Same: func(a, b WideElem) bool { return a == b },
	})
}

// Cell is the pointee of the Ptr kind.  It holds V only: two cells of equal V
// are deeply equal whatever their IDs, which live in a side table keyed by
// the pointer's address.
type Cell struct{ V int }

// The side table is keyed by the cell's address and does not keep the cell
// alive; a finalizer removes the entry when the cell is collected.  It is safe
// for concurrent use and never needs resetting, so parallel workers cannot
// disturb one another.
var (
	cellMu  sync.Mutex
	cellIDs = map[uintptr]int{}
)

// PtrKit: T = *Cell.
func PtrKit() Kit[*Cell] {
	return finish(Kit[*Cell]{Kind: Ptr, HasID: true,
		Make: func(v, id int) *Cell {
			c := &Cell{V: v}
			cellMu.Lock()
			cellIDs[uintptr(unsafe.Pointer(c))] = id
			cellMu.Unlock()
			runtime.SetFinalizer(c, func(c *Cell) {
				cellMu.Lock()
				delete(cellIDs, uintptr(unsafe.Pointer(c)))
				cellMu.Unlock()
			})
			return c
		},
		V: func(c *Cell) int {
			if c == nil {
				panic("harness error: nil *Cell where an element was expected")
			}
			return c.V
		},
		ID: func(c *Cell) int {
			cellMu.Lock()
			defer cellMu.Unlock()
			id, ok := cellIDs[uintptr(unsafe.Pointer(c))]
			if !ok {
				return -1 << 40 // a pointer the harness never made
			}
			return id
		},
		Same: func(a, b *Cell) bool { return a == b },
	})
}

// ResetPtr is kept for callers written against the first version of this
// package, whose identity table had to be dropped between cases; it does
// nothing now.
func ResetPtr() {}

// BytesKit: T = []byte holding EncodeStr(v, id).  Same compares the backing
// arrays (and lengths).
func BytesKit() Kit[[]byte] {
	return finish(Kit[[]byte]{Kind: Bytes, HasID: true,
		Make: func(v, id int) []byte { return []byte(EncodeStr(v, id)) },
		V:    func(b []byte) int { v, _ := DecodeStr(string(b)); return v },
		ID:   func(b []byte) int { _, id := DecodeStr(string(b)); return id },
		Same: func(a, b []byte) bool {
			return len(a) == len(b) && (len(a) == 0 || &a[0] == &b[0])
		},
	})
}

// AnyKit: T = any, every element a freshly allocated *Cell (see PtrKit).
func AnyKit() Kit[any] {
	pk := PtrKit()
	return finish(Kit[any]{Kind: Any, HasID: true,
		Make: func(v, id int) any { return pk.Make(v, id) },
		V:    func(x any) int { return pk.V(x.(*Cell)) },
		ID:   func(x any) int { return pk.ID(x.(*Cell)) },
		Same: func(a, b any) bool { return a == b },
	})
}

// F64Kit: T = float64.  V of magnitude 2^53 or more panics (a harness error).
func F64Kit() Kit[float64] {
	return finish(Kit[float64]{Kind: F64,
		Make: func(v, _ int) float64 {
			if v <= -1<<53 || v >= 1<<53 {
				panic(fmt.Sprintf("harness error: value %d is not exactly representable in the f64 element kind", v))
			}
			return float64(v)
		},
		V:    func(x float64) int { return int(x) },
		ID:   func(float64) int { return 0 },
		Same: func(a, b float64) bool { return a == b },
	})
}

// Kinds lists the kind names for generators: the comparable ones, and all.
var (
	Comparable = []string{Int, Str, I16, Wide, Ptr, Any, F64}
	Ordered    = []string{Int, Str, I16, F64}
	All        = []string{Int, Str, I16, Wide, Ptr, Any, F64, Bytes}
)
