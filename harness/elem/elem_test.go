package elem

import (
	"math"
	"reflect"
	"sort"
	"testing"
	"unsafe"
)

func TestKits(t *testing.T) {
	vals := []int{math.MinInt, -5, -1, 0, 1, 7, 32767, math.MaxInt}
	var enc []string
	for _, v := range vals {
		for _, id := range []int{0, 3, -2} {
			s := EncodeStr(v, id)
			if gv, gid := DecodeStr(s); gv != v || gid != id {
				t.Fatalf("string round trip (%d,%d) -> %q -> (%d,%d)", v, id, s, gv, gid)
			}
		}
		enc = append(enc, EncodeStr(v, 0))
	}
	if !sort.StringsAreSorted(enc) {
		t.Fatalf("string encoding is not order-preserving: %q", enc)
	}
	if unsafe.Sizeof(WideElem{}) <= 64 {
		t.Fatalf("WideElem has only %d bytes", unsafe.Sizeof(WideElem{}))
	}
	pk := PtrKit()
	a, b := pk.Make(5, 1), pk.Make(5, 2)
	if a == b || !reflect.DeepEqual(a, b) || pk.Same(a, b) || pk.ID(a) != 1 || pk.ID(b) != 2 || pk.V(b) != 5 || pk.Cmp(a, b) != 0 {
		t.Fatalf("ptr kit: %v %v", a, b)
	}
	wk := WideKit()
	if w := wk.Make(-3, 9); wk.V(w) != -3 || wk.ID(w) != 9 || !wk.Same(w, wk.Make(-3, 9)) {
		t.Fatalf("wide kit")
	}
	bk := BytesKit()
	x := bk.Make(4, 2)
	if bk.V(x) != 4 || bk.ID(x) != 2 || bk.Same(x, bk.Make(4, 2)) || !bk.Same(x, x) {
		t.Fatalf("bytes kit")
	}
}
