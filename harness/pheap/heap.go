// Package pheap holds the checks for heapq.Queue (C05 minimality and
// conservation, C06 position reports).
package pheap

import (
	"fmt"
	"math"
	"reflect"
	"sort"
	"strconv"
	"strings"

	"github.com/creachadair/mds/heapq"
	"verif/devheap"
	"verif/elem"
	"verif/vk"
)

// Elem is the element type of the reference model and, for the element kind
// "", of the real queue: ordered by V only, identified by ID, so the
// conservation oracle tracks exact identities while V has many duplicates.
type Elem struct {
	V  int `json:"v"`
	ID int `json:"id"`
}

func (e Elem) String() string { return fmt.Sprintf("%d#%d", e.V, e.ID) }

func asc(a, b Elem) int {
	switch {
	case a.V < b.V:
		return -1
	case a.V > b.V:
		return 1
	}
	return 0
}
func desc(a, b Elem) int { return asc(b, a) }

// Comparators that return magnitudes (only the sign is promised to matter).
func ascMag(a, b Elem) int {
	d := a.V - b.V
	if d != 0 && (a.V+b.V)%2 == 0 { // for half of the pairs: the extreme values of int
		if d < 0 {
			return math.MinInt
		}
		return math.MaxInt
	}
	return d * 7
}
func descMag(a, b Elem) int { return ascMag(b, a) }

// ElemKinds lists the element kinds for the queue and for Sort besides "".
// The comparison always is the caller's function, so every kind of package
// elem that can stand for the harness's values is admitted (int16 and float64
// add nothing to code that never looks into its elements).
var ElemKinds = []string{elem.Int, elem.Str, elem.Wide, elem.Ptr, elem.Bytes, elem.Any}

// ownKit is the kit of the element kind "": the queue holds the Elems of the
// reference model themselves.
func ownKit() elem.Kit[Elem] {
	return elem.Kit[Elem]{Kind: "", HasID: true,
		Make: func(v, id int) Elem { return Elem{V: v, ID: id} },
		V:    func(e Elem) int { return e.V },
		ID:   func(e Elem) int { return e.ID },
		Same: func(a, b Elem) bool { return a == b },
		Cmp:  asc,
	}
}

func kindLabel(kind string) string {
	if kind == "" {
		return "elem=own"
	}
	return "elem=" + kind
}

// conv converts what came out of the library back to an Elem of the model
// (ID only on request: it costs a table lookup for the pointer kinds).  ok is
// false when x is nothing the harness could have supplied (a nil pointer, an
// empty interface, foreign bytes); the kits treat those as harness errors.
func conv[T any](k elem.Kit[T], x T, withID bool) (e Elem, ok bool) {
	defer func() {
		if recover() != nil {
			e, ok = Elem{}, false
		}
	}()
	e.V = k.V(x)
	if withID && k.HasID {
		e.ID = k.ID(x)
	}
	return e, true
}

// show renders an element for messages (never a raw pointer or raw bytes).
func show[T any](k elem.Kit[T], x T) string {
	e, ok := conv(k, x, true)
	switch {
	case !ok && isZero(x):
		return "<the zero value of the element type>"
	case !ok:
		return fmt.Sprintf("<%v: not an element the harness supplied>", x)
	case !k.HasID:
		return strconv.Itoa(e.V)
	}
	return e.String()
}

func isZero[T any](x T) bool { return reflect.ValueOf(&x).Elem().IsZero() }

// HOp is one step of a heap history.
type HOp struct {
	Kind string `json:"k"`
	A    int    `json:"a,omitempty"`
	Vs   []int  `json:"vs,omitempty"`
}

// HeapCase is a history for one heapq.Queue.
type HeapCase struct {
	Mode    string `json:"mode"`           // generator mode label: "A", "B" or "G"
	Desc    bool   `json:"desc,omitempty"` // initial comparison is descending
	UseData bool   `json:"useData,omitempty"`
	Data    []int  `json:"data,omitempty"` // NewWithData contents (IDs are -(i+1))
	Spare   int    `json:"spare,omitempty"`
	Update  bool   `json:"update,omitempty"` // install an update callback from the start
	Mag     bool   `json:"mag,omitempty"`    // comparators return scaled differences instead of -1/0/+1
	Elem    string `json:"elem,omitempty"`   // element kind of the real queue ("" = Elem itself), see ElemKinds
	Ops     []HOp  `json:"ops"`
}

// devHeap couples a deviation model with its liveness flag.
type devHeap struct {
	*devheap.Heap[Elem]
	alive bool // still coincides with the real queue on everything observed
}

// sameSeq compares two array orders; a kind without identity shows values only.
func sameSeq(a, b []Elem, ident bool) bool {
	if len(a) != len(b) {
		return false
	}
	for i := range a {
		if a[i] != b[i] && (ident || a[i].V != b[i].V) {
			return false
		}
	}
	return true
}

// heapBook is the part of a run that does not depend on the queue's element
// type: the reference model in Elems, the exposure of the known findings with
// their deviation models, and the bookkeeping for NT and the classes.
type heapBook struct {
	c        HeapCase
	checkPos bool // C06 clauses
	o        *vk.Obs
	ident    bool // the element kind carries identities (Kit.HasID)
	cmp      func(a, b Elem) int
	descNow  bool
	custom   bool         // the current comparison is one of the custom orders of "reorderTo"
	held     map[int]Elem // by ID (for a kind without identity the IDs stay on the harness's side)
	nextID   int
	step     int

	// exposure of the known findings
	expF1, expF2 bool
	devs         []*devHeap // deviation models, see runHeap
	knownHits    map[string]int

	// position tracking (C06)
	cbOn    bool
	lastPos map[int]int
	tracked map[int]bool
	moves   map[int]int
	shadow  map[int]int // kinds without identity: the value named by the last report for each position
	cbBad   string
	ntPos   bool

	// NT bookkeeping (C05)
	maxLen           int
	pendingDisturb   bool
	popsSinceDisturb int
	nt               bool
	interiorRemoves  int
	reorders         int
	twins            int // elements supplied while an equal-valued one was held
}

// heapRun is the interpreter for one element type T: every element that
// crosses the library boundary goes through the kit.
type heapRun[T any] struct {
	*heapBook
	kit   elem.Kit[T]
	q     *heapq.Queue[T]
	heldT map[int]T // by ID: the very elements handed to the queue (kinds with identity)
}

func (r *heapBook) errf(format string, args ...any) string {
	op := "start"
	if r.step >= 0 && r.step < len(r.c.Ops) {
		op = fmt.Sprintf("op#%d %s(a=%d,vs=%v)", r.step, r.c.Ops[r.step].Kind, r.c.Ops[r.step].A, r.c.Ops[r.step].Vs)
	} else if r.step >= len(r.c.Ops) {
		op = "final drain"
	}
	if r.c.Elem != "" {
		op += " [" + kindLabel(r.c.Elem) + "]"
	}
	return fmt.Sprintf("%s: %s", op, fmt.Sprintf(format, args...))
}

func (r *heapRun[T]) contents() []T {
	var out []T
	r.q.Each(func(e T) bool { out = append(out, e); return true })
	return out
}

func (r *heapRun[T]) show(x T) string { return show(r.kit, x) }

// heldWithValue returns the smallest ID among the held elements of value v.
func (r *heapBook) heldWithValue(v int) (int, bool) {
	id, ok := 0, false
	for _, h := range r.held {
		if h.V == v && (!ok || h.ID < id) {
			id, ok = h.ID, true
		}
	}
	return id, ok
}

// known converts x and reports whether it is held: for a kind with identity
// the very element that was handed in under that ID (Kit.Same), otherwise
// some element of that value.
func (r *heapRun[T]) known(x T) (Elem, bool) {
	e, ok := conv(r.kit, x, true)
	if !ok {
		return e, false
	}
	if !r.ident {
		_, ok := r.heldWithValue(e.V)
		return e, ok
	}
	h, held := r.held[e.ID]
	return e, held && h == e && r.kit.Same(r.heldT[e.ID], x)
}

// whyNot says in which way x fails known.
func (r *heapRun[T]) whyNot(x T) string {
	e, ok := conv(r.kit, x, true)
	switch {
	case !ok:
		return "nothing the harness supplied"
	case !r.ident:
		return "no held value"
	}
	if h, held := r.held[e.ID]; !held || h != e {
		return "not held"
	}
	return "equal in content to the held element of that identity, but not the element that was handed in (a copy?)"
}

// sameNote explains a failed Kit.Same between two elements that render alike.
func (r *heapRun[T]) sameNote(a, b T) string {
	if r.show(a) == r.show(b) {
		return " [equal in content, but not the same element: a copy?]"
	}
	return ""
}

// hold and drop keep the reference model in step.
func (r *heapRun[T]) hold(e Elem, x T) {
	r.held[e.ID] = e
	if r.ident {
		r.heldT[e.ID] = x
	}
}

func (r *heapRun[T]) dropAll() {
	r.held = map[int]Elem{}
	r.heldT = map[int]T{}
}

// newElem makes the next element: the model's Elem and what the queue is
// given.  The pointer kinds get a NEW pointer every time, so an element of a
// value that is already held (a "twin") is deeply equal to the held one and
// still a different element.
func (r *heapRun[T]) newElem(v int) (Elem, T) {
	r.nextID++
	e := Elem{V: v, ID: r.nextID}
	if _, twin := r.heldWithValue(v); twin {
		r.twins++
	}
	return e, r.kit.Make(e.V, e.ID)
}

// libCmp wraps the current comparison for the queue's element type.
func (r *heapRun[T]) libCmp() func(a, b T) int {
	c, k := r.cmp, r.kit
	return func(a, b T) int {
		ea, oka := conv(k, a, false)
		eb, okb := conv(k, b, false)
		if !oka || !okb {
			if r.cbBad == "" {
				r.cbBad = fmt.Sprintf("the comparison function was called with (%s, %s)", show(k, a), show(k, b))
			}
			return 0
		}
		return c(ea, eb)
	}
}

// minimal reports whether e is minimal among the held elements (e included).
func (r *heapBook) minimalAmong(e Elem, held map[int]Elem) (Elem, bool) {
	for _, x := range held {
		if r.cmp(x, e) < 0 {
			// report the smallest witness deterministically
			best := x
			for _, y := range held {
				if r.cmp(y, best) < 0 || (r.cmp(y, best) == 0 && y.ID < best.ID) {
					best = y
				}
			}
			return best, false
		}
	}
	return Elem{}, true
}

// beyondMax returns a value that orders at or after every held element under
// the current comparison (for "safe" adds that cannot swap).
func (r *heapBook) beyondMax(delta int) int {
	if r.custom {
		for v := -3000; v <= 3000; v++ {
			ok := true
			for _, x := range r.held {
				if r.cmp(Elem{V: v}, x) < 0 {
					ok = false
					break
				}
			}
			if ok {
				return v
			}
		}
		return 3000
	}
	first := true
	var m int
	for _, x := range r.held {
		if first || (!r.descNow && x.V > m) || (r.descNow && x.V < m) {
			m, first = x.V, false
		}
	}
	if first {
		return delta
	}
	if r.descNow {
		return m - delta
	}
	return m + delta
}

func isPow2Minus1(n int) bool { return (n+1)&n == 0 }

// orderFailure handles a failure of the minimality clause: strict outside the
// exposure of a known finding, otherwise explained by a deviation model or not.
func (r *heapBook) orderFailure(msg string) string {
	if r.o.NoTriage || (!r.expF1 && !r.expF2) {
		return msg
	}
	// A deviation model is eligible when it still coincides with the real
	// queue on everything observed so far and at least one of its deviations
	// is exposed by this history; the hit is attributed to the exposed ones.
	for _, d := range r.devs {
		if !d.alive {
			continue
		}
		has1, has2 := d.F1, d.F2
		name := ""
		if has1 && r.expF1 {
			name = "F1"
		}
		if has2 && r.expF2 {
			if name != "" {
				name += "+"
			}
			name += "F2"
		}
		if name == "" {
			continue
		}
		r.knownHits[name]++
		return ""
	}
	return msg + " [history is exposed to a known finding, but no deviation model (F1, F2, F1+F2) reproduces the queue's behaviour: this is a different defect]"
}

// syncDevs compares every deviation model with the real queue's array order.
func (r *heapBook) syncDevs(real []Elem) {
	for _, d := range r.devs {
		if d.alive && !sameSeq(d.Data, real, r.ident) {
			d.alive = false
		}
	}
}

// census checks that xs (what Each has yielded, or Peek at every offset) are
// exactly the held elements, each once, and returns them as Elems.  The
// caller has compared the lengths.
func (r *heapRun[T]) census(what string, xs []T) ([]Elem, string) {
	out := make([]Elem, len(xs))
	if !r.ident {
		left := make(map[int]int, len(xs))
		for _, h := range r.held {
			left[h.V]++
		}
		for i, x := range xs {
			e, ok := conv(r.kit, x, false)
			if !ok || left[e.V] == 0 {
				return nil, r.errf("%s shows %s at offset %d, which is not held or not that often (held: %s)", what, r.show(x), i, r.heldStr())
			}
			left[e.V]--
			out[i] = e
		}
		return out, ""
	}
	seen := make(map[int]bool, len(xs))
	for i, x := range xs {
		e, ok := r.known(x)
		if !ok || seen[e.ID] {
			why := "already shown at another offset"
			if !ok {
				why = r.whyNot(x)
			}
			return nil, r.errf("%s shows %s at offset %d, which is %s (held: %s)", what, r.show(x), i, why, r.heldStr())
		}
		seen[e.ID] = true
		out[i] = e
	}
	return out, ""
}

// after is the oracle run after every op.
func (r *heapRun[T]) after() string {
	realT := r.contents()
	if r.cbBad != "" {
		return r.errf("%s", r.cbBad)
	}
	if got := r.q.Len(); got != len(r.held) || len(realT) != len(r.held) {
		return r.errf("Len = %d, Each yields %d, reference holds %d", got, len(realT), len(r.held))
	}
	if r.q.IsEmpty() != (len(r.held) == 0) {
		return r.errf("IsEmpty = %v with %d elements held", r.q.IsEmpty(), len(r.held))
	}
	real, msg := r.census("Each", realT)
	if msg != "" {
		return msg
	}
	// Peek(0..Len-1) enumerates exactly the held elements, each once (the
	// order at offsets > 0 is unspecified, so it is not compared with Each).
	peeked := make([]T, len(realT))
	for i := range realT {
		p, ok := r.q.Peek(i)
		if !ok {
			return r.errf("Peek(%d) reports false with Len %d", i, len(realT))
		}
		peeked[i] = p
	}
	sameOrder := true // the usual case: Peek walks the array as Each does, one census covers both
	for i := range peeked {
		if !r.kit.Same(peeked[i], realT[i]) {
			sameOrder = false
			break
		}
	}
	if !sameOrder {
		if _, msg := r.census("Peek", peeked); msg != "" {
			return msg
		}
	}
	if p, ok := r.q.Peek(len(realT)); ok {
		return r.errf("Peek(Len) = (%s,true), want false", r.show(p))
	}
	r.syncDevs(real)
	if len(real) > r.maxLen {
		r.maxLen = len(real)
	}
	// Front is minimal
	f := r.q.Front()
	if len(real) == 0 {
		if !isZero(f) {
			return r.errf("Front of an empty queue = %s, want zero", r.show(f))
		}
	} else {
		if !r.kit.Same(f, peeked[0]) {
			return r.errf("Front = %s but Peek(0) = %s%s", r.show(f), r.show(peeked[0]), r.sameNote(f, peeked[0]))
		}
		fe, _ := r.known(f)
		if w, ok := r.minimalAmong(fe, r.held); !ok {
			if m := r.orderFailure(r.errf("Front = %s is not minimal: %s is held and orders before it (desc=%v)", r.show(f), r.vstr(w), r.descNow)); m != "" {
				return m
			}
		}
	}
	if r.checkPos && r.cbOn && r.ident {
		for id := range r.held {
			if !r.tracked[id] {
				continue
			}
			p := r.lastPos[id]
			if x, ok := r.q.Peek(p); !ok || r.idOf(x) != id {
				return r.errf("element #%d was last reported at position %d, but Peek(%d) = (%s,%v); real order %s", id, p, p, r.show(x), ok, r.seqStr(real))
			}
		}
	}
	if r.checkPos && r.cbOn && !r.ident {
		// Without identities the clause is read by position: every placement
		// of an element is reported, so the last report that named a position
		// (since reports are on and the position exists) is about the element
		// that is there now.
		for p, e := range real {
			if v, ok := r.shadow[p]; ok && v != e.V {
				return r.errf("the last report for position %d named the value %d, but Peek(%d) = %d; real order %s", p, v, p, e.V, r.seqStr(real))
			}
		}
	}
	return ""
}

// idOf is the ID of x, or one that no element has.
func (r *heapRun[T]) idOf(x T) int {
	if e, ok := conv(r.kit, x, true); ok {
		return e.ID
	}
	return math.MinInt
}

func (r *heapBook) heldStr() string {
	var xs []Elem
	for _, e := range r.held {
		xs = append(xs, e)
	}
	sort.Slice(xs, func(i, j int) bool { return xs[i].ID < xs[j].ID })
	if len(xs) > 16 {
		return fmt.Sprintf("%v…(%d)", xs[:16], len(xs))
	}
	return fmt.Sprint(xs)
}

func (r *heapRun[T]) callback(x T, pos int) {
	e, ok := conv(r.kit, x, true)
	if !r.cbOn {
		r.cbBad = fmt.Sprintf("update callback invoked for %s after it was removed with Update(nil)", r.show(x))
		return
	}
	if !ok {
		r.cbBad = fmt.Sprintf("update callback invoked for %s at position %d", r.show(x), pos)
		return
	}
	if !r.ident {
		r.shadow[pos] = e.V
		return
	}
	r.lastPos[e.ID] = pos
	r.tracked[e.ID] = true
	r.moves[e.ID]++
}

// customOrder returns one of the less regular total preorders used by the
// "reorderTo" op: by distance from a pivot, by (value mod 3, value), or "the
// current front (value f, if there is one) stays in front and everything else
// is reversed".
func customOrder(sel int, f int, hasFront bool) func(a, b Elem) int {
	c3 := func(x, y int) int {
		switch {
		case x < y:
			return -1
		case x > y:
			return 1
		}
		return 0
	}
	abs := func(x int) int {
		if x < 0 {
			return -x
		}
		return x
	}
	mod3 := func(x int) int { return ((x % 3) + 3) % 3 }
	switch sel % 3 {
	case 0:
		p := sel/3%9 - 4
		return func(a, b Elem) int { return c3(abs(a.V-p), abs(b.V-p)) }
	case 1:
		return func(a, b Elem) int {
			if c := c3(mod3(a.V), mod3(b.V)); c != 0 {
				return c
			}
			return c3(a.V, b.V)
		}
	}
	return func(a, b Elem) int {
		if hasFront {
			switch {
			case a.V == f && b.V == f:
				return 0
			case a.V == f:
				return -1
			case b.V == f:
				return 1
			}
		}
		return c3(b.V, a.V)
	}
}

func (r *heapBook) setCmp(descending bool) {
	r.custom = false
	r.descNow = descending
	switch {
	case descending && r.c.Mag:
		r.cmp = descMag
	case descending:
		r.cmp = desc
	case r.c.Mag:
		r.cmp = ascMag
	default:
		r.cmp = asc
	}
}

func (r *heapRun[T]) doPop(i int, viaRemove bool) string {
	n := len(r.held)
	var want T
	var wantOK bool
	if i < n {
		want, wantOK = r.q.Peek(i)
		if !wantOK {
			return r.errf("Peek(%d) false with Len %d", i, n)
		}
	}
	if viaRemove && i >= 3 && i < n-1 && n >= 6 {
		r.expF2 = true
	}
	if viaRemove && i > 0 && i < n-1 {
		r.interiorRemoves++
		r.pendingDisturb, r.popsSinceDisturb = true, 0
	}
	var got T
	var ok bool
	if viaRemove {
		got, ok = r.q.Remove(i)
	} else {
		got, ok = r.q.Pop()
	}
	if ok != (i < n) {
		return r.errf("reports ok=%v with Len %d, offset %d", ok, n, i)
	}
	if !ok {
		if !isZero(got) {
			return r.errf("returned %s with ok=false, want zero", r.show(got))
		}
		return ""
	}
	if !r.kit.Same(got, want) {
		return r.errf("removed %s but Peek(%d) had shown %s%s", r.show(got), i, r.show(want), r.sameNote(got, want))
	}
	ge, held := r.known(got)
	if !held {
		return r.errf("returned %s which is %s (held: %s)", r.show(got), r.whyNot(got), r.heldStr())
	}
	if i == 0 {
		if w, ok := r.minimalAmong(ge, r.held); !ok {
			if m := r.orderFailure(r.errf("returned %s, but %s is held and orders before it (desc=%v)", r.show(got), r.vstr(w), r.descNow)); m != "" {
				return m
			}
		}
		if r.pendingDisturb {
			r.popsSinceDisturb++
			if r.popsSinceDisturb >= 3 && r.maxLen >= 4 {
				r.nt = true
			}
		}
	}
	if r.ident {
		delete(r.held, ge.ID)
		delete(r.heldT, ge.ID)
		delete(r.tracked, ge.ID)
	} else {
		id, _ := r.heldWithValue(ge.V)
		delete(r.held, id)
		for p := range r.shadow { // the positions from the new length on are gone
			if p >= n-1 {
				delete(r.shadow, p)
			}
		}
	}
	for _, d := range r.devs {
		if d.alive && i < len(d.Data) {
			d.Pop(i)
		}
	}
	return ""
}

func (r *heapRun[T]) doAdd(v int) string {
	e, x := r.newElem(v)
	n := len(r.held)
	// F1 exposure: the add can swap through an even slot unless it is a new
	// maximum (no swap at all) or lands in slot 2^k-1 (path of odd slots).
	isMax := true
	for _, h := range r.held {
		if r.cmp(e, h) < 0 {
			isMax = false
			break
		}
	}
	if !isMax && !isPow2Minus1(n) {
		r.expF1 = true
	}
	pos := r.q.Add(x)
	r.hold(e, x)
	if got, ok := r.q.Peek(pos); !ok || !r.kit.Same(got, x) {
		return r.errf("Add(%s) returned position %d, but Peek(%d) = (%s,%v)%s", r.vstr(e), pos, pos, r.show(got), ok, r.sameNote(got, x))
	}
	if r.cbOn && r.checkPos {
		if r.ident {
			if !r.tracked[e.ID] || r.lastPos[e.ID] != pos {
				return r.errf("Add(%s) returned %d but the last reported position is %d (reported=%v)", r.vstr(e), pos, r.lastPos[e.ID], r.tracked[e.ID])
			}
		} else if sv, ok := r.shadow[pos]; !ok || sv != v {
			return r.errf("Add(%d) returned %d but the last report for that position names %d (reported=%v)", v, pos, sv, ok)
		}
	}
	for _, d := range r.devs {
		if d.alive {
			d.Add(e)
		}
	}
	return ""
}

// doSet replaces the contents with new elements of the values vs.
func (r *heapRun[T]) doSet(vs []int) string {
	n := len(r.held)
	var es []Elem
	var xs []T
	for _, v := range vs {
		e, x := r.newElem(v)
		es, xs = append(es, e), append(xs, x)
	}
	for id := range r.tracked {
		delete(r.tracked, id)
	}
	r.shadow = map[int]int{}
	arg := append([]T(nil), xs...)
	if ret := r.q.Set(arg); ret != r.q {
		return r.errf("Set does not return its receiver")
	}
	for i := range arg { // Set must copy, not alias: scribble on the argument
		arg[i] = r.kit.Make(-1<<40, -1<<40)
	}
	r.dropAll()
	for i, e := range es {
		r.hold(e, xs[i])
	}
	if r.cbOn && r.checkPos {
		for p, e := range es {
			if r.ident && !r.tracked[e.ID] {
				return r.errf("Set did not report a position for %v", e)
			}
			if _, ok := r.shadow[p]; !r.ident && !ok {
				return r.errf("Set of %d elements did not report any element at position %d", len(es), p)
			}
		}
	}
	for _, d := range r.devs {
		if d.alive {
			d.Set(es)
		}
	}
	if n > 0 {
		r.pendingDisturb, r.popsSinceDisturb = true, 0
	}
	return ""
}

func (r *heapRun[T]) apply(op HOp) string {
	n := len(r.held)
	switch op.Kind {
	case "add":
		return r.doAdd(op.A)
	case "addRun", "popRun": // bulk growth / shrinkage: sizes across many heap levels
		k := op.A%97 + 3
		for i := 0; i < k; i++ {
			var msg string
			if op.Kind == "addRun" {
				msg = r.doAdd((op.A*7 + i*13) % 11)
			} else {
				if len(r.held) == 0 {
					break
				}
				msg = r.doPop(0, false)
			}
			if msg == "" {
				msg = r.after()
			}
			if msg != "" {
				return msg
			}
		}
		return ""
	case "addMax": // never swaps
		return r.doAdd(r.beyondMax(op.A % 3))
	case "addSafe": // arbitrary value only when the new slot is 2^k-1
		if isPow2Minus1(n) {
			return r.doAdd(op.A)
		}
		return r.doAdd(r.beyondMax(op.A % 3))
	case "pop":
		return r.doPop(0, false)
	case "remove":
		if op.A < 0 {
			if pv := vk.PanicValue(func() { r.q.Remove(op.A) }); pv == nil {
				return r.errf("Remove(%d) did not panic", op.A)
			}
			return ""
		}
		return r.doPop(op.A%(n+2), true)
	case "removeEdge": // offset 0 or last
		if n == 0 {
			return r.doPop(0, true)
		}
		return r.doPop([]int{0, n - 1}[op.A%2], true)
	case "removeSafe": // interior only where no sift-up can be needed
		if n == 0 {
			return r.doPop(0, true)
		}
		if n <= 5 {
			return r.doPop(op.A%n, true)
		}
		return r.doPop([]int{0, 1, 2, n - 1}[op.A%4], true)
	case "removeElem": // by the reported position of a tracked element (C06)
		if !r.ident { // by a position that a report has named
			var ps []int
			for p := range r.shadow {
				ps = append(ps, p)
			}
			if len(ps) == 0 || !r.cbOn {
				return ""
			}
			sort.Ints(ps)
			p := ps[op.A%len(ps)]
			x, ok := r.q.Peek(p)
			if e, isElem := conv(r.kit, x, false); !ok || !isElem || e.V != r.shadow[p] {
				return r.errf("the value %d was reported at %d, Peek shows (%s,%v)", r.shadow[p], p, r.show(x), ok)
			}
			return r.doPop(p, true)
		}
		var ids []int
		for id := range r.held {
			if r.tracked[id] {
				ids = append(ids, id)
			}
		}
		if len(ids) == 0 || !r.cbOn {
			return ""
		}
		sort.Ints(ids)
		id := ids[op.A%len(ids)]
		p := r.lastPos[id]
		if x, ok := r.q.Peek(p); !ok || r.idOf(x) != id {
			return r.errf("element #%d reported at %d, Peek shows (%s,%v)", id, p, r.show(x), ok)
		}
		if r.moves[id] >= 2 {
			r.ntPos = true
		}
		return r.doPop(p, true)
	case "peek":
		if op.A < 0 {
			if pv := vk.PanicValue(func() { r.q.Peek(op.A) }); pv == nil {
				return r.errf("Peek(%d) did not panic", op.A)
			}
			return ""
		}
		i := op.A % (n + 3)
		x, ok := r.q.Peek(i)
		if ok != (i < n) {
			return r.errf("Peek(%d) ok=%v with Len %d", i, ok, n)
		}
		if ok {
			if _, held := r.known(x); !held {
				return r.errf("Peek(%d) = %s which is %s", i, r.show(x), r.whyNot(x))
			}
		} else if !isZero(x) {
			return r.errf("Peek(%d) = (%s,false), want zero", i, r.show(x))
		}
		return ""
	case "set":
		return r.doSet(op.Vs)
	case "setRm":
		// Set, then Peek(i) and Remove(i) at an offset > 0 as the very first
		// calls after it (no Front / Each / Len in between): a queue that puts
		// off the reordering until the next call must still remove the element
		// Peek showed
		if msg := r.doSet(op.Vs); msg != "" {
			return msg
		}
		if m := len(r.held); m >= 2 {
			a := op.A
			if a < 0 {
				a = -a
			}
			return r.doPop(1+a%(m-1), true)
		}
		return ""
	case "setSame": // new elements with the values of the current contents, slot by slot (or mirrored)
		var vs []int
		for _, x := range r.contents() {
			e, _ := conv(r.kit, x, false)
			vs = append(vs, e.V)
		}
		if op.A%3 == 2 {
			for i, j := 0, len(vs)-1; i < j; i, j = i+1, j-1 {
				vs[i], vs[j] = vs[j], vs[i]
			}
		}
		return r.doSet(vs)
	case "reorder", "reorderTo":
		if op.Kind == "reorderTo" {
			f, hasFront := 0, false
			if top, ok := r.q.Peek(0); ok {
				if e, ok := conv(r.kit, top, false); ok {
					f, hasFront = e.V, true
				}
			}
			r.cmp = customOrder(op.A, f, hasFront)
			r.custom = true
		} else {
			r.setCmp(!r.descNow)
		}
		r.q.Reorder(r.libCmp())
		for _, d := range r.devs {
			d.Cmp = r.cmp
			if d.alive {
				d.Heapify()
			}
		}
		if n > 0 {
			r.reorders++
			r.pendingDisturb, r.popsSinceDisturb = true, 0
		}
		return ""
	case "clear":
		r.q.Clear()
		r.dropAll()
		r.tracked = map[int]bool{}
		r.shadow = map[int]int{}
		for _, d := range r.devs {
			d.Data = d.Data[:0]
		}
		return ""
	case "each": // early stop
		if n == 0 {
			return ""
		}
		j := op.A%n + 1
		calls := 0
		r.q.Each(func(T) bool { calls++; return calls < j })
		if calls != j {
			return r.errf("Each made %d callbacks after being told to stop at %d", calls, j)
		}
		// a second Each from inside the callback of the first, at element j:
		// both must make one callback per element
		outer, inner := 0, 0
		r.q.Each(func(T) bool {
			if outer++; outer == j {
				r.q.Each(func(T) bool { inner++; return true })
			}
			return true
		})
		if outer != n || inner != n {
			return r.errf("Each with a second Each run inside its callback (at element %d) made %d and %d callbacks, the queue holds %d", j, outer, inner, n)
		}
		return ""
	case "update":
		if op.A%2 == 0 {
			r.cbOn = false
			r.tracked = map[int]bool{}
			r.shadow = map[int]int{}
			if ret := r.q.Update(nil); ret != r.q {
				return r.errf("Update does not return its receiver")
			}
		} else {
			r.cbOn = true
			r.q.Update(r.callback)
		}
		return ""
	case "drain":
		return r.drain(op.A%(n+1), false)
	}
	return r.errf("VK-INFRA unknown op %q", op.Kind)
}

// drain pops k elements (all when final) and checks the sequence is
// non-decreasing under the current comparison.
func (r *heapRun[T]) drain(k int, final bool) string {
	var prev Elem
	havePrev := false
	for i := 0; (final && len(r.held) > 0) || (!final && i < k); i++ {
		before := len(r.held)
		topT, ok := r.q.Peek(0)
		if msg := r.doPop(0, false); msg != "" {
			return msg
		}
		if before == 0 {
			break
		}
		if !ok {
			return r.errf("drain: Peek(0) false with %d held", before)
		}
		top, _ := conv(r.kit, topT, true) // doPop has vetted it
		if havePrev && r.cmp(top, prev) < 0 {
			if m := r.orderFailure(r.errf("drain yields %s after %s: not non-decreasing (desc=%v)", r.show(topT), r.vstr(prev), r.descNow)); m != "" {
				return m
			}
		}
		prev, havePrev = top, true
		if msg := r.after(); msg != "" {
			return msg
		}
	}
	return ""
}

// vstr renders an Elem that came out of the queue the way show does.
func (r *heapBook) vstr(e Elem) string {
	if !r.ident {
		return strconv.Itoa(e.V)
	}
	return e.String()
}

// seqStr renders an array order (the beginning of a long one).
func (r *heapBook) seqStr(es []Elem) string {
	var sb strings.Builder
	sb.WriteByte('[')
	for i, e := range es {
		if i == 40 {
			fmt.Fprintf(&sb, " …(%d)", len(es))
			break
		}
		if i > 0 {
			sb.WriteByte(' ')
		}
		sb.WriteString(r.vstr(e))
	}
	sb.WriteByte(']')
	return sb.String()
}

// runHeap runs the history on a queue of the case's element kind.
func runHeap(c HeapCase, checkPos bool, o *vk.Obs) (*heapBook, string) {
	switch c.Elem {
	case "":
		return runHeapT(c, checkPos, o, ownKit())
	case elem.Int:
		return runHeapT(c, checkPos, o, elem.IntKit())
	case elem.Str:
		return runHeapT(c, checkPos, o, elem.StrKit())
	case elem.Wide:
		return runHeapT(c, checkPos, o, elem.WideKit())
	case elem.Ptr:
		elem.ResetPtr()
		return runHeapT(c, checkPos, o, elem.PtrKit())
	case elem.Bytes:
		return runHeapT(c, checkPos, o, elem.BytesKit())
	case elem.Any:
		elem.ResetPtr()
		return runHeapT(c, checkPos, o, elem.AnyKit())
	}
	return nil, fmt.Sprintf("VK-INFRA unknown element kind %q", c.Elem)
}

func runHeapT[T any](c HeapCase, checkPos bool, o *vk.Obs, kit elem.Kit[T]) (*heapBook, string) {
	b := &heapBook{c: c, checkPos: checkPos, o: o, ident: kit.HasID, held: map[int]Elem{}, knownHits: map[string]int{},
		lastPos: map[int]int{}, tracked: map[int]bool{}, moves: map[int]int{}, shadow: map[int]int{}, step: -1}
	r := &heapRun[T]{heapBook: b, kit: kit, heldT: map[int]T{}}
	r.setCmp(c.Desc)
	var init []Elem
	if c.UseData {
		spare := c.Spare % 8
		if c.Spare >= 1000 { // the documented preallocation idiom: a buffer with room for tens of thousands
			spare = min(c.Spare, 140000)
		}
		buf := make([]T, 0, len(c.Data)+spare)
		for i, v := range c.Data {
			e := Elem{V: v, ID: -(i + 1)}
			x := kit.Make(e.V, e.ID)
			buf = append(buf, x)
			init = append(init, e)
			r.hold(e, x)
		}
		r.q = heapq.NewWithData(r.libCmp(), buf)
	} else {
		r.q = heapq.New(r.libCmp())
	}
	for _, m := range devheap.Variants(r.cmp) {
		m.Data = append(m.Data, init...)
		m.Heapify()
		r.devs = append(r.devs, &devHeap{Heap: m, alive: true})
	}
	if c.Update {
		r.cbOn = true
		r.q.Update(r.callback)
	}
	if msg := r.after(); msg != "" {
		return b, msg
	}
	for i, op := range c.Ops {
		o.Step() // interleaved execution (vk.Interleave) switches to the other case here
		r.step = i
		if msg := r.apply(op); msg != "" {
			return b, msg
		}
		if msg := r.after(); msg != "" {
			return b, msg
		}
	}
	r.step = len(c.Ops)
	if msg := r.drain(0, true); msg != "" {
		return b, msg
	}
	return b, ""
}

func classify(r *heapBook, c HeapCase, o *vk.Obs) {
	o.Class("mode=" + c.Mode)
	o.Class(kindLabel(c.Elem))
	o.ClassIf(r.expF1, "exposed_F1")
	o.ClassIf(r.expF2, "exposed_F2")
	o.ClassIf(!r.expF1 && !r.expF2, "unexposed(strict)")
	o.ClassIf(r.maxLen >= 8, "levels>=4")
	o.ClassIf(r.maxLen >= 64, "levels>=7")
	o.ClassIf(r.maxLen >= 256, "levels>=9")
	o.ClassIf(r.maxLen >= 4, "levels>=3")
	o.ClassIf(r.interiorRemoves > 0, "interior_remove")
	o.ClassIf(r.reorders > 0, "midlife_reorder")
	o.ClassIf(c.UseData, "NewWithData")
	o.ClassIf(r.twins > 0 && (c.Elem == elem.Ptr || c.Elem == elem.Any), "new_pointer_to_equal_pointee")
	for k, v := range r.knownHits {
		if v > 0 {
			o.Class("known_hit_" + k)
			o.Known(k)
		}
	}
}

func runC05(c HeapCase, o *vk.Obs) string {
	r, msg := runHeap(c, false, o)
	if msg != "" {
		return msg
	}
	classify(r, c, o)
	if r.nt {
		o.NonTrivial()
	}
	return ""
}

func runC06(c HeapCase, o *vk.Obs) string {
	c.Update = true
	// C06 is about positions only: minimality failures are C05's business.
	// They are routed through the same triage; an unexplained one still fails.
	r, msg := runHeap(c, true, o)
	if msg != "" {
		return msg
	}
	classify(r, c, o)
	if r.ntPos {
		o.NonTrivial()
	}
	return ""
}

// SortCase is an input for heapq.Sort.
type SortCase struct {
	Vs   []int `json:"vs"`
	Desc bool  `json:"desc,omitempty"`
	// Big > 0 appends Big generated values (i*7919 mod 1009 mod 37) to Vs;
	// Spare is the capacity beyond the length of the slice handed to Sort.
	Big   int `json:"big,omitempty"`
	Spare int `json:"spare,omitempty"`
	// Elem is the element kind of the slice ("" = Elem itself), see ElemKinds.
	Elem string `json:"elem,omitempty"`
}

func runSort(c SortCase, o *vk.Obs) string { return sortCase(c, o, true) }

// sortCase sorts a slice of the case's element kind.  reset says whether the
// identities of the pointer kinds may be forgotten first; the exhaustive leg
// runs its cases concurrently and must not.
func sortCase(c SortCase, o *vk.Obs, reset bool) string {
	if reset && (c.Elem == elem.Ptr || c.Elem == elem.Any) {
		elem.ResetPtr()
	}
	switch c.Elem {
	case "":
		return runSortT(c, o, ownKit())
	case elem.Int:
		return runSortT(c, o, elem.IntKit())
	case elem.Str:
		return runSortT(c, o, elem.StrKit())
	case elem.Wide:
		return runSortT(c, o, elem.WideKit())
	case elem.Ptr:
		return runSortT(c, o, elem.PtrKit())
	case elem.Bytes:
		return runSortT(c, o, elem.BytesKit())
	case elem.Any:
		return runSortT(c, o, elem.AnyKit())
	}
	return fmt.Sprintf("VK-INFRA unknown element kind %q", c.Elem)
}

func runSortT[T any](c SortCase, o *vk.Obs, kit elem.Kit[T]) string {
	vs := c.Vs
	for i := 0; i < c.Big; i++ {
		vs = append(vs[:len(vs):len(vs)], (i*7919%1009)%37)
	}
	in := make([]T, len(vs))
	for i, v := range vs {
		in[i] = kit.Make(v, i+1)
	}
	cmp := asc
	if c.Desc {
		cmp = desc
	}
	cmpBad := ""
	cmpT := func(a, b T) int {
		ea, oka := conv(kit, a, false)
		eb, okb := conv(kit, b, false)
		if !oka || !okb {
			if cmpBad == "" {
				cmpBad = fmt.Sprintf("the comparison function was called with (%s, %s)", show(kit, a), show(kit, b))
			}
			return 0
		}
		return cmp(ea, eb)
	}
	var arg []T
	if c.Vs != nil {
		arg = append(make([]T, 0, len(in)+2+c.Spare), in...)
	}
	heapq.Sort(cmpT, arg)
	what := fmt.Sprintf("Sort(%s desc=%v", briefInts(vs), c.Desc)
	if c.Elem != "" {
		what += " " + kindLabel(c.Elem)
	}
	if cmpBad != "" {
		return fmt.Sprintf("%s): %s", what, cmpBad)
	}
	if len(arg) != len(in) {
		return fmt.Sprintf("Sort changed the length from %d to %d", len(in), len(arg))
	}
	left := map[int]int{} // kinds without identity: the multiset of the values
	for _, v := range vs {
		left[v]++
	}
	seen := map[int]bool{}
	var prev Elem
	dups := false
	for i, x := range arg {
		e, ok := conv(kit, x, true)
		if kit.HasID {
			ok = ok && e.ID >= 1 && e.ID <= len(in) && e.V == vs[e.ID-1] && kit.Same(in[e.ID-1], x) && !seen[e.ID]
		} else {
			ok = ok && left[e.V] > 0
		}
		if !ok {
			return fmt.Sprintf("%s): output[%d] = %s is not a (fresh) input element; output %s", what, i, show(kit, x), briefOut(kit, arg))
		}
		seen[e.ID] = true
		left[e.V]--
		if i > 0 && cmp(prev, e) > 0 {
			return fmt.Sprintf("%s, cap %d): output not sorted at %d: %s then %s; output %s", what, cap(arg), i, show(kit, arg[i-1]), show(kit, x), briefOut(kit, arg))
		}
		if i > 0 && prev.V == e.V {
			dups = true
		}
		prev = e
	}
	if len(arg) >= 4 && dups {
		o.NonTrivial()
	}
	o.Class(kindLabel(c.Elem))
	o.ClassIf(len(arg) < 2, "len<2")
	o.ClassIf(cap(arg) >= 256, "cap>=256")
	o.ClassIf(dups, "has_duplicates")
	return ""
}

func briefInts(v []int) string {
	if len(v) > 24 {
		return fmt.Sprintf("%v…(%d)", v[:24], len(v))
	}
	return fmt.Sprint(v)
}

// briefOut renders Sort's output through show.
func briefOut[T any](k elem.Kit[T], v []T) string {
	var sb strings.Builder
	sb.WriteByte('[')
	for i, x := range v {
		if i == 24 {
			break
		}
		if i > 0 {
			sb.WriteByte(' ')
		}
		sb.WriteString(show(k, x))
	}
	sb.WriteByte(']')
	if len(v) > 24 {
		fmt.Fprintf(&sb, "…(%d)", len(v))
	}
	return sb.String()
}
