// Package pheap holds the checks for heapq.Queue (C05 minimality and
// conservation, C06 position reports).
package pheap

import (
	"fmt"
	"math"
	"sort"

	"github.com/creachadair/mds/heapq"
	"verif/devheap"
	"verif/vk"
)

// Elem is the element type: ordered by V only, identified by ID, so the
// conservation oracle tracks exact identities while V has many duplicates.
type Elem struct {
	V  int `json:"v"`
	ID int `json:"id"`
}

func (e Elem) String() string { return fmt.Sprintf("%d#%d", e.V, e.ID) }

func asc(a, b Elem) int {
	switch {
	case a.V < b.V:
		return -1
	case a.V > b.V:
		return 1
	}
	return 0
}
func desc(a, b Elem) int { return asc(b, a) }

// Comparators that return magnitudes (only the sign is promised to matter).
func ascMag(a, b Elem) int {
	d := a.V - b.V
	if d != 0 && (a.V+b.V)%2 == 0 { // for half of the pairs: the extreme values of int
		if d < 0 {
			return math.MinInt
		}
		return math.MaxInt
	}
	return d * 7
}
func descMag(a, b Elem) int { return ascMag(b, a) }

// HOp is one step of a heap history.
type HOp struct {
	Kind string `json:"k"`
	A    int    `json:"a,omitempty"`
	Vs   []int  `json:"vs,omitempty"`
}

// HeapCase is a history for one heapq.Queue.
type HeapCase struct {
	Mode    string `json:"mode"`           // generator mode label: "A", "B" or "G"
	Desc    bool   `json:"desc,omitempty"` // initial comparison is descending
	UseData bool   `json:"useData,omitempty"`
	Data    []int  `json:"data,omitempty"` // NewWithData contents (IDs are -(i+1))
	Spare   int    `json:"spare,omitempty"`
	Update  bool   `json:"update,omitempty"` // install an update callback from the start
	Mag     bool   `json:"mag,omitempty"`    // comparators return scaled differences instead of -1/0/+1
	Ops     []HOp  `json:"ops"`
}

// devHeap couples a deviation model with its liveness flag.
type devHeap struct {
	*devheap.Heap[Elem]
	alive bool // still coincides with the real queue on everything observed
}

func sameSeq(a, b []Elem) bool {
	if len(a) != len(b) {
		return false
	}
	for i := range a {
		if a[i] != b[i] {
			return false
		}
	}
	return true
}

type heapRun struct {
	c        HeapCase
	checkPos bool // C06 clauses
	o        *vk.Obs
	q        *heapq.Queue[Elem]
	cmp      func(a, b Elem) int
	descNow  bool
	custom   bool         // the current comparison is one of the custom orders of "reorderTo"
	held     map[int]Elem // by ID
	nextID   int
	step     int

	// exposure of the known findings
	expF1, expF2 bool
	devs         []*devHeap // deviation models, see runHeap
	knownHits    map[string]int

	// position tracking (C06)
	cbOn    bool
	lastPos map[int]int
	tracked map[int]bool
	moves   map[int]int
	cbBad   string
	ntPos   bool

	// NT bookkeeping (C05)
	maxLen           int
	pendingDisturb   bool
	popsSinceDisturb int
	nt               bool
	interiorRemoves  int
	reorders         int
}

func (r *heapRun) errf(format string, args ...any) string {
	op := "start"
	if r.step >= 0 && r.step < len(r.c.Ops) {
		op = fmt.Sprintf("op#%d %s(a=%d,vs=%v)", r.step, r.c.Ops[r.step].Kind, r.c.Ops[r.step].A, r.c.Ops[r.step].Vs)
	} else if r.step >= len(r.c.Ops) {
		op = "final drain"
	}
	return fmt.Sprintf("%s: %s", op, fmt.Sprintf(format, args...))
}

func (r *heapRun) contents() []Elem {
	var out []Elem
	r.q.Each(func(e Elem) bool { out = append(out, e); return true })
	return out
}

func (r *heapRun) newElem(v int) Elem { r.nextID++; return Elem{V: v, ID: r.nextID} }

// minimal reports whether e is minimal among the held elements (e included).
func (r *heapRun) minimalAmong(e Elem, held map[int]Elem) (Elem, bool) {
	for _, x := range held {
		if r.cmp(x, e) < 0 {
			// report the smallest witness deterministically
			best := x
			for _, y := range held {
				if r.cmp(y, best) < 0 || (r.cmp(y, best) == 0 && y.ID < best.ID) {
					best = y
				}
			}
			return best, false
		}
	}
	return Elem{}, true
}

// beyondMax returns a value that orders at or after every held element under
// the current comparison (for "safe" adds that cannot swap).
func (r *heapRun) beyondMax(delta int) int {
	if r.custom {
		for v := -3000; v <= 3000; v++ {
			ok := true
			for _, x := range r.held {
				if r.cmp(Elem{V: v}, x) < 0 {
					ok = false
					break
				}
			}
			if ok {
				return v
			}
		}
		return 3000
	}
	first := true
	var m int
	for _, x := range r.held {
		if first || (!r.descNow && x.V > m) || (r.descNow && x.V < m) {
			m, first = x.V, false
		}
	}
	if first {
		return delta
	}
	if r.descNow {
		return m - delta
	}
	return m + delta
}

func isPow2Minus1(n int) bool { return (n+1)&n == 0 }

// orderFailure handles a failure of the minimality clause: strict outside the
// exposure of a known finding, otherwise explained by a deviation model or not.
func (r *heapRun) orderFailure(msg string) string {
	if r.o.NoTriage || (!r.expF1 && !r.expF2) {
		return msg
	}
	// A deviation model is eligible when it still coincides with the real
	// queue on everything observed so far and at least one of its deviations
	// is exposed by this history; the hit is attributed to the exposed ones.
	for _, d := range r.devs {
		if !d.alive {
			continue
		}
		has1, has2 := d.F1, d.F2
		name := ""
		if has1 && r.expF1 {
			name = "F1"
		}
		if has2 && r.expF2 {
			if name != "" {
				name += "+"
			}
			name += "F2"
		}
		if name == "" {
			continue
		}
		r.knownHits[name]++
		return ""
	}
	return msg + " [history is exposed to a known finding, but no deviation model (F1, F2, F1+F2) reproduces the queue's behaviour: this is a different defect]"
}

// syncDevs compares every deviation model with the real queue's array order.
func (r *heapRun) syncDevs(real []Elem) {
	for _, d := range r.devs {
		if d.alive && !sameSeq(d.Data, real) {
			d.alive = false
		}
	}
}

// after is the oracle run after every op.
func (r *heapRun) after() string {
	real := r.contents()
	if r.cbBad != "" {
		return r.errf("%s", r.cbBad)
	}
	if got := r.q.Len(); got != len(r.held) || len(real) != len(r.held) {
		return r.errf("Len = %d, Each yields %d, reference holds %d", got, len(real), len(r.held))
	}
	if r.q.IsEmpty() != (len(r.held) == 0) {
		return r.errf("IsEmpty = %v with %d elements held", r.q.IsEmpty(), len(r.held))
	}
	seen := map[int]bool{}
	for i, e := range real {
		h, ok := r.held[e.ID]
		if !ok || h != e {
			return r.errf("Each yields %v at offset %d, which is not held (held: %s)", e, i, r.heldStr())
		}
		if seen[e.ID] {
			return r.errf("Each yields %v twice", e)
		}
		seen[e.ID] = true
	}
	// Peek(0..Len-1) enumerates exactly the held elements, each once (the
	// order at offsets > 0 is unspecified, so it is not compared with Each).
	pseen := map[int]bool{}
	for i := range real {
		p, ok := r.q.Peek(i)
		if !ok {
			return r.errf("Peek(%d) reports false with Len %d", i, len(real))
		}
		if h, held := r.held[p.ID]; !held || h != p || pseen[p.ID] {
			return r.errf("Peek(%d) = %v which is not held or was already shown at another offset (held: %s)", i, p, r.heldStr())
		}
		pseen[p.ID] = true
	}
	if p, ok := r.q.Peek(len(real)); ok {
		return r.errf("Peek(Len) = (%v,true), want false", p)
	}
	r.syncDevs(real)
	if len(real) > r.maxLen {
		r.maxLen = len(real)
	}
	// Front is minimal
	f := r.q.Front()
	if len(real) == 0 {
		if f != (Elem{}) {
			return r.errf("Front of an empty queue = %v, want zero", f)
		}
	} else {
		if p0, _ := r.q.Peek(0); f != p0 {
			return r.errf("Front = %v but Peek(0) = %v", f, p0)
		}
		if w, ok := r.minimalAmong(f, r.held); !ok {
			if m := r.orderFailure(r.errf("Front = %v is not minimal: %v is held and orders before it (desc=%v)", f, w, r.descNow)); m != "" {
				return m
			}
		}
	}
	if r.checkPos && r.cbOn {
		for id := range r.held {
			if !r.tracked[id] {
				continue
			}
			p := r.lastPos[id]
			if e, ok := r.q.Peek(p); !ok || e.ID != id {
				return r.errf("element #%d was last reported at position %d, but Peek(%d) = (%v,%v); real order %v", id, p, p, e, ok, real)
			}
		}
	}
	return ""
}

func (r *heapRun) heldStr() string {
	var xs []Elem
	for _, e := range r.held {
		xs = append(xs, e)
	}
	sort.Slice(xs, func(i, j int) bool { return xs[i].ID < xs[j].ID })
	if len(xs) > 16 {
		return fmt.Sprintf("%v…(%d)", xs[:16], len(xs))
	}
	return fmt.Sprint(xs)
}

func (r *heapRun) callback(e Elem, pos int) {
	if !r.cbOn {
		r.cbBad = fmt.Sprintf("update callback invoked for %v after it was removed with Update(nil)", e)
		return
	}
	r.lastPos[e.ID] = pos
	r.tracked[e.ID] = true
	r.moves[e.ID]++
}

// customOrder returns one of the less regular total preorders used by the
// "reorderTo" op: by distance from a pivot, by (value mod 3, value), or "the
// current front stays in front and everything else is reversed".
func (r *heapRun) customOrder(sel int) func(a, b Elem) int {
	c3 := func(x, y int) int {
		switch {
		case x < y:
			return -1
		case x > y:
			return 1
		}
		return 0
	}
	abs := func(x int) int {
		if x < 0 {
			return -x
		}
		return x
	}
	mod3 := func(x int) int { return ((x % 3) + 3) % 3 }
	switch sel % 3 {
	case 0:
		p := sel/3%9 - 4
		return func(a, b Elem) int { return c3(abs(a.V-p), abs(b.V-p)) }
	case 1:
		return func(a, b Elem) int {
			if c := c3(mod3(a.V), mod3(b.V)); c != 0 {
				return c
			}
			return c3(a.V, b.V)
		}
	}
	f, any := 0, false
	if top, ok := r.q.Peek(0); ok {
		f, any = top.V, true
	}
	return func(a, b Elem) int {
		if any {
			switch {
			case a.V == f && b.V == f:
				return 0
			case a.V == f:
				return -1
			case b.V == f:
				return 1
			}
		}
		return c3(b.V, a.V)
	}
}

func (r *heapRun) setCmp(descending bool) {
	r.custom = false
	r.descNow = descending
	switch {
	case descending && r.c.Mag:
		r.cmp = descMag
	case descending:
		r.cmp = desc
	case r.c.Mag:
		r.cmp = ascMag
	default:
		r.cmp = asc
	}
}

func (r *heapRun) doPop(i int, viaRemove bool) string {
	n := len(r.held)
	var want Elem
	var wantOK bool
	if i < n {
		want, wantOK = r.q.Peek(i)
		if !wantOK {
			return r.errf("Peek(%d) false with Len %d", i, n)
		}
	}
	if viaRemove && i >= 3 && i < n-1 && n >= 6 {
		r.expF2 = true
	}
	if viaRemove && i > 0 && i < n-1 {
		r.interiorRemoves++
		r.pendingDisturb, r.popsSinceDisturb = true, 0
	}
	var got Elem
	var ok bool
	if viaRemove {
		got, ok = r.q.Remove(i)
	} else {
		got, ok = r.q.Pop()
	}
	if ok != (i < n) {
		return r.errf("reports ok=%v with Len %d, offset %d", ok, n, i)
	}
	if !ok {
		if got != (Elem{}) {
			return r.errf("returned %v with ok=false, want zero", got)
		}
		return ""
	}
	if got != want {
		return r.errf("removed %v but Peek(%d) had shown %v", got, i, want)
	}
	h, held := r.held[got.ID]
	if !held || h != got {
		return r.errf("returned %v which is not held (held: %s)", got, r.heldStr())
	}
	if i == 0 {
		if w, ok := r.minimalAmong(got, r.held); !ok {
			if m := r.orderFailure(r.errf("returned %v, but %v is held and orders before it (desc=%v)", got, w, r.descNow)); m != "" {
				return m
			}
		}
		if r.pendingDisturb {
			r.popsSinceDisturb++
			if r.popsSinceDisturb >= 3 && r.maxLen >= 4 {
				r.nt = true
			}
		}
	}
	delete(r.held, got.ID)
	delete(r.tracked, got.ID)
	for _, d := range r.devs {
		if d.alive && i < len(d.Data) {
			d.Pop(i)
		}
	}
	return ""
}

func (r *heapRun) doAdd(v int) string {
	e := r.newElem(v)
	n := len(r.held)
	// F1 exposure: the add can swap through an even slot unless it is a new
	// maximum (no swap at all) or lands in slot 2^k-1 (path of odd slots).
	isMax := true
	for _, x := range r.held {
		if r.cmp(e, x) < 0 {
			isMax = false
			break
		}
	}
	if !isMax && !isPow2Minus1(n) {
		r.expF1 = true
	}
	pos := r.q.Add(e)
	r.held[e.ID] = e
	if got, ok := r.q.Peek(pos); !ok || got != e {
		return r.errf("Add(%v) returned position %d, but Peek(%d) = (%v,%v)", e, pos, pos, got, ok)
	}
	if r.cbOn && r.checkPos {
		if !r.tracked[e.ID] || r.lastPos[e.ID] != pos {
			return r.errf("Add(%v) returned %d but the last reported position is %d (reported=%v)", e, pos, r.lastPos[e.ID], r.tracked[e.ID])
		}
	}
	for _, d := range r.devs {
		if d.alive {
			d.Add(e)
		}
	}
	return ""
}

func (r *heapRun) apply(op HOp) string {
	n := len(r.held)
	switch op.Kind {
	case "add":
		return r.doAdd(op.A)
	case "addRun", "popRun": // bulk growth / shrinkage: sizes across many heap levels
		k := op.A%97 + 3
		for i := 0; i < k; i++ {
			var msg string
			if op.Kind == "addRun" {
				msg = r.doAdd((op.A*7 + i*13) % 11)
			} else {
				if len(r.held) == 0 {
					break
				}
				msg = r.doPop(0, false)
			}
			if msg == "" {
				msg = r.after()
			}
			if msg != "" {
				return msg
			}
		}
		return ""
	case "addMax": // never swaps
		return r.doAdd(r.beyondMax(op.A % 3))
	case "addSafe": // arbitrary value only when the new slot is 2^k-1
		if isPow2Minus1(n) {
			return r.doAdd(op.A)
		}
		return r.doAdd(r.beyondMax(op.A % 3))
	case "pop":
		return r.doPop(0, false)
	case "remove":
		if op.A < 0 {
			if pv := vk.PanicValue(func() { r.q.Remove(op.A) }); pv == nil {
				return r.errf("Remove(%d) did not panic", op.A)
			}
			return ""
		}
		return r.doPop(op.A%(n+2), true)
	case "removeEdge": // offset 0 or last
		if n == 0 {
			return r.doPop(0, true)
		}
		return r.doPop([]int{0, n - 1}[op.A%2], true)
	case "removeSafe": // interior only where no sift-up can be needed
		if n == 0 {
			return r.doPop(0, true)
		}
		if n <= 5 {
			return r.doPop(op.A%n, true)
		}
		return r.doPop([]int{0, 1, 2, n - 1}[op.A%4], true)
	case "removeElem": // by the reported position of a tracked element (C06)
		var ids []int
		for id := range r.held {
			if r.tracked[id] {
				ids = append(ids, id)
			}
		}
		if len(ids) == 0 || !r.cbOn {
			return ""
		}
		sort.Ints(ids)
		id := ids[op.A%len(ids)]
		p := r.lastPos[id]
		if e, ok := r.q.Peek(p); !ok || e.ID != id {
			return r.errf("element #%d reported at %d, Peek shows (%v,%v)", id, p, e, ok)
		}
		if r.moves[id] >= 2 {
			r.ntPos = true
		}
		return r.doPop(p, true)
	case "peek":
		if op.A < 0 {
			if pv := vk.PanicValue(func() { r.q.Peek(op.A) }); pv == nil {
				return r.errf("Peek(%d) did not panic", op.A)
			}
			return ""
		}
		i := op.A % (n + 3)
		e, ok := r.q.Peek(i)
		if ok != (i < n) {
			return r.errf("Peek(%d) ok=%v with Len %d", i, ok, n)
		}
		if ok {
			if h, held := r.held[e.ID]; !held || h != e {
				return r.errf("Peek(%d) = %v which is not held", i, e)
			}
		} else if e != (Elem{}) {
			return r.errf("Peek(%d) = (%v,false), want zero", i, e)
		}
		return ""
	case "set":
		var es []Elem
		for _, v := range op.Vs {
			es = append(es, r.newElem(v))
		}
		for id := range r.tracked {
			delete(r.tracked, id)
		}
		arg := append([]Elem(nil), es...)
		if ret := r.q.Set(arg); ret != r.q {
			return r.errf("Set does not return its receiver")
		}
		for i := range arg { // Set must copy, not alias: scribble on the argument
			arg[i] = Elem{V: -1 << 40, ID: -1 << 40}
		}
		r.held = map[int]Elem{}
		for _, e := range es {
			r.held[e.ID] = e
		}
		if r.cbOn && r.checkPos {
			for _, e := range es {
				if !r.tracked[e.ID] {
					return r.errf("Set did not report a position for %v", e)
				}
			}
		}
		for _, d := range r.devs {
			if d.alive {
				d.Set(es)
			}
		}
		if n > 0 {
			r.pendingDisturb, r.popsSinceDisturb = true, 0
		}
		return ""
	case "reorder", "reorderTo":
		if op.Kind == "reorderTo" {
			r.cmp = r.customOrder(op.A)
			r.custom = true
		} else {
			r.setCmp(!r.descNow)
		}
		r.q.Reorder(r.cmp)
		for _, d := range r.devs {
			d.Cmp = r.cmp
			if d.alive {
				d.Heapify()
			}
		}
		if n > 0 {
			r.reorders++
			r.pendingDisturb, r.popsSinceDisturb = true, 0
		}
		return ""
	case "clear":
		r.q.Clear()
		r.held = map[int]Elem{}
		r.tracked = map[int]bool{}
		for _, d := range r.devs {
			d.Data = d.Data[:0]
		}
		return ""
	case "each": // early stop
		if n == 0 {
			return ""
		}
		j := op.A%n + 1
		calls := 0
		r.q.Each(func(Elem) bool { calls++; return calls < j })
		if calls != j {
			return r.errf("Each made %d callbacks after being told to stop at %d", calls, j)
		}
		return ""
	case "update":
		if op.A%2 == 0 {
			r.cbOn = false
			r.tracked = map[int]bool{}
			if ret := r.q.Update(nil); ret != r.q {
				return r.errf("Update does not return its receiver")
			}
		} else {
			r.cbOn = true
			r.q.Update(r.callback)
		}
		return ""
	case "drain":
		return r.drain(op.A%(n+1), false)
	}
	return r.errf("VK-INFRA unknown op %q", op.Kind)
}

// drain pops k elements (all when final) and checks the sequence is
// non-decreasing under the current comparison.
func (r *heapRun) drain(k int, final bool) string {
	var prev Elem
	havePrev := false
	for i := 0; (final && len(r.held) > 0) || (!final && i < k); i++ {
		before := len(r.held)
		top, ok := r.q.Peek(0)
		if msg := r.doPop(0, false); msg != "" {
			return msg
		}
		if before == 0 {
			break
		}
		if !ok {
			return r.errf("drain: Peek(0) false with %d held", before)
		}
		if havePrev && r.cmp(top, prev) < 0 {
			if m := r.orderFailure(r.errf("drain yields %v after %v: not non-decreasing (desc=%v)", top, prev, r.descNow)); m != "" {
				return m
			}
		}
		prev, havePrev = top, true
		if msg := r.after(); msg != "" {
			return msg
		}
	}
	return ""
}

func runHeap(c HeapCase, checkPos bool, o *vk.Obs) (*heapRun, string) {
	r := &heapRun{c: c, checkPos: checkPos, o: o, held: map[int]Elem{}, knownHits: map[string]int{},
		lastPos: map[int]int{}, tracked: map[int]bool{}, moves: map[int]int{}, step: -1}
	r.setCmp(c.Desc)
	var init []Elem
	if c.UseData {
		buf := make([]Elem, 0, len(c.Data)+c.Spare%8)
		for i, v := range c.Data {
			e := Elem{V: v, ID: -(i + 1)}
			buf = append(buf, e)
			r.held[e.ID] = e
		}
		init = append([]Elem(nil), buf...)
		r.q = heapq.NewWithData(r.cmp, buf)
	} else {
		r.q = heapq.New(r.cmp)
	}
	for _, m := range devheap.Variants(r.cmp) {
		m.Data = append(m.Data, init...)
		m.Heapify()
		r.devs = append(r.devs, &devHeap{Heap: m, alive: true})
	}
	if c.Update {
		r.cbOn = true
		r.q.Update(r.callback)
	}
	if msg := r.after(); msg != "" {
		return r, msg
	}
	for i, op := range c.Ops {
		r.step = i
		if msg := r.apply(op); msg != "" {
			return r, msg
		}
		if msg := r.after(); msg != "" {
			return r, msg
		}
	}
	r.step = len(c.Ops)
	if msg := r.drain(0, true); msg != "" {
		return r, msg
	}
	return r, ""
}

func classify(r *heapRun, c HeapCase, o *vk.Obs) {
	o.Class("mode=" + c.Mode)
	o.ClassIf(r.expF1, "exposed_F1")
	o.ClassIf(r.expF2, "exposed_F2")
	o.ClassIf(!r.expF1 && !r.expF2, "unexposed(strict)")
	o.ClassIf(r.maxLen >= 8, "levels>=4")
	o.ClassIf(r.maxLen >= 64, "levels>=7")
	o.ClassIf(r.maxLen >= 256, "levels>=9")
	o.ClassIf(r.maxLen >= 4, "levels>=3")
	o.ClassIf(r.interiorRemoves > 0, "interior_remove")
	o.ClassIf(r.reorders > 0, "midlife_reorder")
	o.ClassIf(c.UseData, "NewWithData")
	for k, v := range r.knownHits {
		if v > 0 {
			o.Class("known_hit_" + k)
			o.Known(k)
		}
	}
}

func runC05(c HeapCase, o *vk.Obs) string {
	r, msg := runHeap(c, false, o)
	if msg != "" {
		return msg
	}
	classify(r, c, o)
	if r.nt {
		o.NonTrivial()
	}
	return ""
}

func runC06(c HeapCase, o *vk.Obs) string {
	c.Update = true
	// C06 is about positions only: minimality failures are C05's business.
	// They are routed through the same triage; an unexplained one still fails.
	r, msg := runHeap(c, true, o)
	if msg != "" {
		return msg
	}
	classify(r, c, o)
	if r.ntPos {
		o.NonTrivial()
	}
	return ""
}

// SortCase is an input for heapq.Sort.
type SortCase struct {
	Vs   []int `json:"vs"`
	Desc bool  `json:"desc,omitempty"`
	// Big > 0 appends Big generated values (i*7919 mod 1009 mod 37) to Vs;
	// Spare is the capacity beyond the length of the slice handed to Sort.
	Big   int `json:"big,omitempty"`
	Spare int `json:"spare,omitempty"`
}

func runSort(c SortCase, o *vk.Obs) string {
	vs := c.Vs
	for i := 0; i < c.Big; i++ {
		vs = append(vs[:len(vs):len(vs)], (i*7919%1009)%37)
	}
	in := make([]Elem, len(vs))
	for i, v := range vs {
		in[i] = Elem{V: v, ID: i + 1}
	}
	cmp := asc
	if c.Desc {
		cmp = desc
	}
	var arg []Elem
	if c.Vs != nil {
		arg = append(make([]Elem, 0, len(in)+2+c.Spare), in...)
	}
	heapq.Sort(cmp, arg)
	if len(arg) != len(in) {
		return fmt.Sprintf("Sort changed the length from %d to %d", len(in), len(arg))
	}
	seen := map[int]bool{}
	for i, e := range arg {
		if e.ID < 1 || e.ID > len(in) || in[e.ID-1] != e || seen[e.ID] {
			return fmt.Sprintf("Sort(%s desc=%v): output[%d] = %v is not a (fresh) input element; output %s", briefInts(vs), c.Desc, i, e, briefElems(arg))
		}
		seen[e.ID] = true
		if i > 0 && cmp(arg[i-1], e) > 0 {
			return fmt.Sprintf("Sort(%s desc=%v, cap %d): output not sorted at %d: %v then %v; output %s", briefInts(vs), c.Desc, cap(arg), i, arg[i-1], e, briefElems(arg))
		}
	}
	dups := false
	for i := 1; i < len(arg); i++ {
		if arg[i].V == arg[i-1].V {
			dups = true
		}
	}
	if len(arg) >= 4 && dups {
		o.NonTrivial()
	}
	o.ClassIf(len(arg) < 2, "len<2")
	o.ClassIf(cap(arg) >= 256, "cap>=256")
	o.ClassIf(dups, "has_duplicates")
	return ""
}

func briefInts(v []int) string {
	if len(v) > 24 {
		return fmt.Sprintf("%v…(%d)", v[:24], len(v))
	}
	return fmt.Sprint(v)
}

func briefElems(v []Elem) string {
	if len(v) > 24 {
		return fmt.Sprintf("%v…(%d)", v[:24], len(v))
	}
	return fmt.Sprint(v)
}
