package pheap

import (
	"fmt"

	"github.com/creachadair/mds/heapq"
	"verif/vk"
)

// BigPosCase: a queue of N (millions of) distinct ints with an update
// function.  Set(0..N-1), then Pops: every sink crosses about log2 N levels,
// more than any fixed-size scratch buffer sized for "deep enough" heaps.  Only
// Set and Pop are used: they never take the paths of the known findings F1
// (Add) and F2 (removal at an interior offset).  After every operation the
// position reported last for EVERY element must be its offset in Each, and Pop
// must return the minimum.
type BigPosCase struct {
	N    int  `json:"n"`
	Pops int  `json:"pops"`
	Desc bool `json:"desc,omitempty"` // Set receives the values in descending order
}

func runBigPos(c BigPosCase, o *vk.Obs) string {
	n := min(max(c.N, 2), 1<<24)
	pos := make([]int32, n)
	for i := range pos {
		pos[i] = -1
	}
	q := heapq.New(func(a, b int) int { return a - b }) // values are 0..n-1: no overflow
	q.Update(func(v int, p int) { pos[v] = int32(p) })
	vals := make([]int, n)
	for i := range vals {
		vals[i] = i
		if c.Desc {
			vals[i] = n - 1 - i
		}
	}
	verify := func(what string, want int) string {
		if q.Len() != want {
			return fmt.Sprintf("N=%d: after %s Len = %d, want %d", n, what, q.Len(), want)
		}
		i, bad := 0, ""
		q.Each(func(v int) bool {
			if v < 0 || v >= n || int(pos[v]) != i {
				p := -2
				if v >= 0 && v < n {
					p = int(pos[v])
				}
				bad = fmt.Sprintf("N=%d: after %s element %d is at offset %d of Each but its last reported position is %d", n, what, v, i, p)
				return false
			}
			i++
			return true
		})
		if bad == "" && i != want {
			bad = fmt.Sprintf("N=%d: after %s Each lists %d elements, want %d", n, what, i, want)
		}
		return bad
	}
	o.Step()
	q.Set(vals)
	if m := verify("Set(0..N-1)", n); m != "" {
		return m
	}
	for k := 0; k < c.Pops; k++ {
		o.Step()
		got, ok := q.Pop()
		if !ok || got != k {
			return fmt.Sprintf("N=%d: Pop #%d = (%d, %v), want (%d, true)", n, k+1, got, ok, k)
		}
		if m := verify(fmt.Sprintf("Pop #%d", k+1), n-k-1); m != "" {
			return m
		}
	}
	if n >= 1<<21 {
		o.NonTrivial()
	}
	o.ClassIf(n >= 1<<21, "heap_of>=2^21_elements(sinks_cross>=21_levels)")
	return ""
}
