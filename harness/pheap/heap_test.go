package pheap

import (
	"testing"

	"pgregory.net/rapid"
	"verif/elem"
	"verif/vk"
)

var kindsA = []string{"set", "set", "setSame", "reorder", "reorderTo", "pop", "pop", "pop", "removeEdge", "removeEdge", "peek", "each", "clear", "drain", "update"}
var kindsB = []string{"addSafe", "addSafe", "addSafe", "addSafe", "addMax", "addMax", "pop", "pop", "removeSafe", "removeSafe", "removeEdge",
	"set", "setSame", "reorder", "peek", "each", "clear", "drain", "update"}
var kindsG = []string{"add", "add", "add", "add", "add", "addMax", "pop", "pop", "pop", "remove", "remove", "remove", "removeEdge",
	"set", "setSame", "setRm", "reorder", "reorderTo", "peek", "each", "clear", "drain", "update", "removeElem"}
var kindsPos = []string{"add", "add", "add", "add", "addMax", "pop", "pop", "remove", "removeElem", "removeElem", "removeElem", "removeEdge",
	"set", "setSame", "setRm", "reorder", "reorder", "reorderTo", "reorderTo", "peek", "clear", "update", "update"}

// genElemKind draws the element kind: half of the cases keep the harness's
// own Elem (""), the rest are spread evenly over ElemKinds.
func genElemKind(t *rapid.T) string {
	if rapid.Bool().Draw(t, "elemOwn") {
		return ""
	}
	return rapid.SampledFrom(ElemKinds).Draw(t, "elem")
}

func genVal(t *rapid.T, label string) int {
	if rapid.Bool().Draw(t, label+"Small") {
		return rapid.IntRange(0, 3).Draw(t, label)
	}
	return rapid.IntRange(-50, 50).Draw(t, label)
}

// genVec draws n values.  Besides independent values it builds the orders a
// "nothing to do here" shortcut would key on: non-decreasing along the parent
// links (i-1)/2 (already a heap), along the WRONG parent links i/2 (looks
// ordered to a check written with that formula but need not be a heap),
// sorted either way, and constant - each also mirrored for the reverse order.
func genVec(t *rapid.T, label string, n int) []int {
	vs := make([]int, n)
	shape := rapid.IntRange(0, 9).Draw(t, label+"Shape")
	if shape >= 5 || n == 0 {
		for i := range vs {
			vs[i] = genVal(t, label)
		}
		return vs
	}
	dir := rapid.SampledFrom([]int{1, 1, -1}).Draw(t, label+"Dir")
	step := func() int { return dir * rapid.SampledFrom([]int{0, 0, 1, 1, 2, 5}).Draw(t, label+"Step") }
	vs[0] = rapid.IntRange(-5, 5).Draw(t, label+"Root")
	for i := 1; i < n; i++ {
		switch shape {
		case 0:
			vs[i] = vs[(i-1)/2] + step()
		case 1, 2:
			vs[i] = vs[i/2] + step()
		case 3:
			vs[i] = vs[i-1] + step()
		default:
			vs[i] = vs[0]
		}
	}
	return vs
}

func genHOp(kinds []string) *rapid.Generator[HOp] {
	return rapid.Custom(func(t *rapid.T) HOp {
		op := HOp{Kind: rapid.SampledFrom(kinds).Draw(t, "k")}
		switch op.Kind {
		case "add", "addSafe":
			op.A = genVal(t, "v")
		case "set", "setRm":
			if op.Kind == "setRm" {
				op.A = rapid.IntRange(0, 60).Draw(t, "rmAt")
			}
			n := rapid.OneOf(rapid.IntRange(0, 12), rapid.IntRange(0, 12), rapid.IntRange(0, 40), rapid.IntRange(0, 40),
				rapid.SampledFrom([]int{63, 64, 65, 100, 128, 129, 200, 257})).Draw(t, "n")
			op.Vs = genVec(t, "sv", n)
		case "remove", "peek":
			op.A = rapid.IntRange(-1, 60).Draw(t, "i")
		default:
			op.A = rapid.IntRange(0, 200).Draw(t, "a")
		}
		return op
	})
}

func genHeapCase(pos bool) func(t *rapid.T) HeapCase {
	return func(t *rapid.T) HeapCase {
		c := HeapCase{Desc: rapid.Bool().Draw(t, "desc"), Mag: rapid.IntRange(0, 2).Draw(t, "mag") == 0}
		kinds := kindsPos
		if pos {
			c.Mode = "G"
			c.Update = true
		} else {
			c.Mode = rapid.SampledFrom([]string{"A", "B", "B", "G", "G"}).Draw(t, "mode")
			c.Update = rapid.IntRange(0, 3).Draw(t, "upd") == 0
			switch c.Mode {
			case "A":
				kinds = kindsA
			case "B":
				kinds = kindsB
			default:
				kinds = kindsG
			}
		}
		if c.Mode == "A" || rapid.IntRange(0, 2).Draw(t, "useData") == 0 {
			c.UseData = true
			n := rapid.OneOf(rapid.IntRange(0, 15), rapid.IntRange(0, 40)).Draw(t, "dn")
			c.Data = genVec(t, "dv", n)
			c.Spare = rapid.IntRange(0, 7).Draw(t, "spare")
			if vk.Rare(t, "hugeCap", 25) {
				c.Spare = rapid.SampledFrom([]int{65536, 65537, 70000, 131073}).Draw(t, "hugeSpare")
			}
		}
		c.Ops = rapid.SliceOfN(genHOp(kinds), 0, vk.MaxOps(t, 60, 400)).Draw(t, "ops")
		if c.Mode == "G" && rapid.IntRange(0, 7).Draw(t, "big") == 0 {
			// big mode: hundreds of elements, bulk growth and shrinkage
			c.UseData = true
			n := rapid.IntRange(60, 300).Draw(t, "bigN")
			c.Data = make([]int, n)
			for i := range c.Data {
				c.Data[i] = genVal(t, "bv")
			}
			for j := rapid.IntRange(1, 4).Draw(t, "nruns"); j > 0; j-- {
				op := HOp{Kind: rapid.SampledFrom([]string{"addRun", "addRun", "popRun"}).Draw(t, "rk"), A: rapid.IntRange(0, 500).Draw(t, "ra")}
				i := rapid.IntRange(0, len(c.Ops)).Draw(t, "rpos")
				c.Ops = append(c.Ops[:i], append([]HOp{op}, c.Ops[i:]...)...)
			}
		}
		if rapid.IntRange(0, 2).Draw(t, "structured") > 0 {
			// construction: fill to >= 3 levels, disturb, then pop >= 3 times
			var pre []HOp
			nfill := rapid.IntRange(4, 16).Draw(t, "fill")
			for i := 0; i < nfill; i++ {
				k := "add"
				if c.Mode == "B" {
					k = "addSafe"
				}
				if c.Mode == "A" {
					break
				}
				pre = append(pre, HOp{Kind: k, A: genVal(t, "fv")})
			}
			if c.Mode == "A" {
				vs := genVec(t, "fsv", nfill)
				pre = append(pre, HOp{Kind: "set", Vs: vs})
			}
			var dist HOp
			switch {
			case pos:
				dist = HOp{Kind: "removeElem", A: rapid.IntRange(0, 200).Draw(t, "re")}
			case c.Mode == "G" && rapid.Bool().Draw(t, "distKind"):
				dist = HOp{Kind: "remove", A: rapid.IntRange(1, 14).Draw(t, "ri")}
			default:
				dist = HOp{Kind: "reorder"}
			}
			mid := rapid.IntRange(0, len(c.Ops)).Draw(t, "mid")
			ops := append([]HOp{}, pre...)
			ops = append(ops, c.Ops[:mid]...)
			ops = append(ops, dist, HOp{Kind: "pop"}, HOp{Kind: "pop"}, HOp{Kind: "pop"})
			ops = append(ops, c.Ops[mid:]...)
			c.Ops = ops
		}
		c.Elem = genElemKind(t)
		return c
	}
}

func init() {
	vk.Register("C05", "hist", runC05)
	vk.Register("C05", "sort", runSort)
	vk.Register("C05", "sortx", runSort)
	vk.Register("C06", "pos", runC06)
	vk.Register("C06", "bigpos", runBigPos)
}

func TestC05Hist(t *testing.T) {
	h := vk.Start(t, "C05", "hist")
	vk.Rapid(h, t, genHeapCase(false), runC05)
}

// TestC06BigPos: heaps of millions of elements (see BigPosCase).
func TestC06BigPos(t *testing.T) {
	h := vk.Start(t, "C06", "bigpos")
	slot := h.Slot()
	tl := vk.NewTally()
	cases := []BigPosCase{{N: 3 << 20, Pops: 3}, {N: 1<<21 + 5, Pops: 2, Desc: true}}
	if h.Thorough() {
		cases = append(cases, BigPosCase{N: 1<<22 + 3, Pops: 4}, BigPosCase{N: 1 << 23, Pops: 3, Desc: true}, BigPosCase{N: 1<<20 - 1, Pops: 5},
			BigPosCase{N: 5 << 20, Pops: 3}, BigPosCase{N: 1 << 24, Pops: 2})
	}
	for i, c := range cases {
		if h.Failed() {
			break
		}
		o := &vk.Obs{}
		slot.Enter(c)
		msg := vk.Guard(func() string { return runBigPos(c, o) })
		slot.Leave()
		if msg != "" {
			p := h.Fail(c, msg)
			t.Fatalf("VK-VIOLATION property=C06 leg=bigpos replay=%s\n%s", p, msg)
		}
		tl.AddObs(o)
		if i < 2 {
			h.Sample(c, o.NT)
		}
	}
	h.MergeTally(tl)
}

func TestC06Pos(t *testing.T) {
	h := vk.Start(t, "C06", "pos")
	vk.Rapid(h, t, genHeapCase(true), runC06)
}

// genNearSorted draws a run that is monotone in one direction (steps 0..2,
// 0..1500 values) with up to three values out of place: positions biased to
// the ends, replacement values biased to the run's own extremes and to values
// just inside and outside them (the input of "append one value and sort
// again", or of any shortcut for inputs that look sorted already).
func genNearSorted(t *rapid.T) []int {
	n := rapid.OneOf(rapid.IntRange(0, 70), rapid.IntRange(0, 1500)).Draw(t, "nsN")
	vs := make([]int, n)
	if n == 0 {
		return vs
	}
	dir := rapid.SampledFrom([]int{1, -1}).Draw(t, "nsDir")
	stepMax := rapid.IntRange(0, 2).Draw(t, "nsStepMax")
	period := rapid.IntRange(1, 4).Draw(t, "nsPeriod")
	for i := 1; i < n; i++ {
		st := 0
		if i%period == 0 {
			st = stepMax
		}
		vs[i] = vs[i-1] + dir*st
	}
	lo, hi := min(vs[0], vs[n-1]), max(vs[0], vs[n-1])
	for k := rapid.IntRange(0, 3).Draw(t, "nsOut"); k > 0; k-- {
		at := rapid.OneOf(rapid.SampledFrom([]int{0, 1, n - 2, n - 1, n / 2}), rapid.IntRange(0, n-1)).Draw(t, "nsAt")
		if at < 0 || at >= n {
			at = n - 1
		}
		vs[at] = rapid.OneOf(rapid.SampledFrom([]int{lo, lo - 1, lo + 1, hi, hi - 1, hi + 1, (lo + hi) / 2}), rapid.IntRange(lo-1, hi+1)).Draw(t, "nsVal")
	}
	return vs
}

func TestC05Sort(t *testing.T) {
	h := vk.Start(t, "C05", "sort")
	vk.Rapid(h, t, func(t *rapid.T) SortCase {
		c := SortCase{Desc: rapid.Bool().Draw(t, "desc")}
		if rapid.IntRange(0, 9).Draw(t, "nil") > 0 {
			n := rapid.OneOf(rapid.IntRange(0, 10), rapid.IntRange(0, 200)).Draw(t, "n")
			c.Vs = genVec(t, "v", n)
			if rapid.IntRange(0, 3).Draw(t, "near") == 0 {
				c.Vs = genNearSorted(t)
			}
			if rapid.IntRange(0, 5).Draw(t, "big") == 0 {
				c.Big = rapid.SampledFrom([]int{50, 130, 254, 255, 256, 257, 300, 511, 512, 513, 700, 1100}).Draw(t, "bigN")
			}
			if rapid.IntRange(0, 5).Draw(t, "spare") == 0 {
				c.Spare = rapid.SampledFrom([]int{1, 62, 254, 1000, 4000}).Draw(t, "spareN")
			}
		}
		c.Elem = genElemKind(t)
		return c
	}, runSort)
}

// sortxKinds are the element kinds the exhaustive leg cycles through; the
// kinds behind the split keep their identities in a table that is shared by
// the workers and only grows, so they are left to the shorter sequences.
var sortxKinds = []string{elem.Int, elem.Str, elem.Wide, elem.Bytes, elem.Ptr, elem.Any}

const sortxTableFree = 4

// TestC05SortExhaustive: every sequence over {0,1,2} up to a length bound,
// both directions, as a slice of Elems and once more as a slice of another
// element kind (cycling with the case index).
func TestC05SortExhaustive(t *testing.T) {
	h := vk.Start(t, "C05", "sortx")
	maxLen := h.Pick(8, 11)
	total := 0
	for l, p := 0, 1; l <= maxLen; l, p = l+1, p*3 {
		total += p
	}
	// index -> sequence in size order
	starts := []int{0}
	for l, p := 0, 1; l <= maxLen; l, p = l+1, p*3 {
		starts = append(starts, starts[len(starts)-1]+p)
	}
	nw := vk.Workers(total)
	tallies := make([]*vk.Tally, nw)
	slots := make([]interface {
		Enter(any)
		Leave()
	}, nw)
	for i := range tallies {
		tallies[i] = vk.NewTally()
		slots[i] = h.Slot()
	}
	vk.Parallel(h, total, func(w, idx int) {
		l := 0
		for idx >= starts[l+1] {
			l++
		}
		x := idx - starts[l]
		vs := make([]int, l)
		for i := range vs {
			vs[i] = x % 3
			x /= 3
		}
		kinds := sortxKinds
		if l > 8 {
			kinds = kinds[:sortxTableFree]
		}
		for _, kind := range []string{"", kinds[idx%len(kinds)]} {
			for _, d := range []bool{false, true} {
				c := SortCase{Vs: vs, Desc: d, Elem: kind}
				o := &vk.Obs{}
				slots[w].Enter(c)
				msg := vk.Guard(func() string { return sortCase(c, o, false) })
				slots[w].Leave()
				if msg != "" {
					h.Fail(c, msg)
					return
				}
				tallies[w].AddObs(o)
				if idx%5000 == 77 && !d {
					h.Sample(c, o.NT)
				}
			}
		}
	})
	for _, tl := range tallies {
		h.MergeTally(tl)
	}
	h.Exhaustive()
	if h.Failed() {
		t.Fatalf("VK-VIOLATION property=C05 leg=sortx (see replay)")
	}
}

func TestReplay(t *testing.T) { vk.ReplayMain(t) }
