// Package devheap is an executable model of the documented array-heap
// algorithm of heapq with optional, explicitly listed deviations.  It is the
// "explanation model" of DESIGN.md 2.1 for the known findings F1 and F2, and
// with no deviation enabled it is a correct binary heap.
package devheap

// Heap is the model.  Data is the heap array in heap order.
type Heap[T any] struct {
	// F1: Add sifts up through slot i/2 instead of the parent (i-1)/2.
	F1 bool
	// F2: removal at an interior offset never sifts the relocated element up.
	F2 bool
	// F1Pop: when F2 is absent, the sift-up after removal also goes through
	// slot i/2.  NOT among the Variants: on the pinned tree the wrong parent is
	// only ever used by Add, so a removal that sifts up through i/2 is a
	// failure at a new call site and has to be reported (seeded change
	// C05-r5-pop-pushup-after-pushdown).
	F1Pop bool
	Data  []T
	Cmp   func(a, b T) int
}

func (h *Heap[T]) pushUp(i int, buggy bool) {
	for i > 0 {
		par := (i - 1) / 2
		if buggy {
			par = i / 2
		}
		if h.Cmp(h.Data[i], h.Data[par]) >= 0 {
			break
		}
		h.Data[i], h.Data[par] = h.Data[par], h.Data[i]
		i = par
	}
}

func (h *Heap[T]) pushDown(i int) int {
	lc := 2*i + 1
	for lc < len(h.Data) {
		m := i
		if h.Cmp(h.Data[lc], h.Data[m]) < 0 {
			m = lc
		}
		if rc := lc + 1; rc < len(h.Data) && h.Cmp(h.Data[rc], h.Data[m]) < 0 {
			m = rc
		}
		if m == i {
			break
		}
		h.Data[i], h.Data[m] = h.Data[m], h.Data[i]
		i, lc = m, 2*m+1
	}
	return i
}

// Heapify restores heap order as NewWithData and Reorder do.
func (h *Heap[T]) Heapify() {
	for i := len(h.Data) / 2; i >= 0; i-- {
		h.pushDown(i)
	}
}

// Add appends e and sifts it up.
func (h *Heap[T]) Add(e T) { h.Data = append(h.Data, e); h.pushUp(len(h.Data)-1, h.F1) }

// Pop removes and returns the element at offset i (i < len).
func (h *Heap[T]) Pop(i int) T {
	out := h.Data[i]
	n := len(h.Data) - 1
	if n == 0 {
		h.Data = h.Data[:0]
		return out
	}
	h.Data[i] = h.Data[n]
	h.Data = h.Data[:n]
	if i < n {
		if j := h.pushDown(i); j == i && !h.F2 {
			h.pushUp(i, h.F1Pop)
		}
	}
	return out
}

// Set replaces the contents as Queue.Set does.
func (h *Heap[T]) Set(vs []T) {
	h.Data = append(h.Data[:0], vs...)
	for i := len(h.Data) - 1; i >= 0; i-- {
		h.pushDown(i)
	}
}

// Variants returns the deviation models tried by the triage: {F1,F2} (the
// pinned tree) and the two trees in which exactly one of the findings has been
// repaired correctly: {F2} and {F1}.
func Variants[T any](cmp func(a, b T) int) []*Heap[T] {
	return []*Heap[T]{
		{F2: true, Cmp: cmp},
		{F1: true, F2: true, Cmp: cmp},
		{F1: true, Cmp: cmp},
	}
}
