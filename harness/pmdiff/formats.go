package pmdiff

import (
	"bufio"
	"bytes"
	"fmt"
	"io"
	"slices"
	"strings"
	"time"

	"github.com/creachadair/mds/mdiff"
	"github.com/creachadair/mds/slice"
	"verif/vk"
)

// FI is the JSON form of an mdiff.FileInfo (times as unix seconds, micros and
// a zone offset in minutes; Sec < 0 means the zero time).
type FI struct {
	Left   string `json:"left"`
	Right  string `json:"right"`
	LSec   int64  `json:"lsec"`
	LMicro int    `json:"lus,omitempty"`
	LZone  int    `json:"lzone,omitempty"`
	RSec   int64  `json:"rsec"`
	RMicro int    `json:"rus,omitempty"`
	RZone  int    `json:"rzone,omitempty"`
	// TFmt is FileInfo.TimeFormat ("": the default layout).  With a layout of
	// the caller's own the readers, which know the default layout only, need
	// not recover the times; the names must come back all the same.
	TFmt string `json:"tfmt,omitempty"`
}

func mkTime(sec int64, micro, zoneMin int) time.Time {
	if sec < 0 {
		return time.Time{}
	}
	return time.Unix(sec, int64(micro)*1000).In(time.FixedZone("", zoneMin*60))
}

func (f *FI) info() *mdiff.FileInfo {
	if f == nil {
		return nil
	}
	return &mdiff.FileInfo{Left: f.Left, Right: f.Right,
		LeftTime: mkTime(f.LSec, f.LMicro, f.LZone), RightTime: mkTime(f.RSec, f.RMicro, f.RZone), TimeFormat: f.TFmt}
}

// customLayout reports whether the header's timestamps are written in a layout
// other than the default one.
func customLayout(fi *mdiff.FileInfo) bool {
	return fi != nil && fi.TimeFormat != "" && fi.TimeFormat != mdiff.TimeFormat
}

// reformatInfo is the FileInfo with which re-formatting a parsed patch is
// compared: the one that was written - except that with a custom layout, which
// a parsed patch does not carry, the names are as written and the times are
// whatever the reader made of them (rendered in the default layout).
func reformatInfo(fi, parsed *mdiff.FileInfo) *mdiff.FileInfo {
	if !customLayout(fi) || parsed == nil {
		return fi
	}
	return &mdiff.FileInfo{Left: fi.Left, Right: fi.Right, LeftTime: parsed.LeftTime, RightTime: parsed.RightTime}
}

// FmtCase is one diff to be rendered in every format.
type FmtCase struct {
	L  []string `json:"l"`
	R  []string `json:"r"`
	N  int      `json:"n"`            // -1: plain New; >=0: New.AddContext(n).Unify()
	FI *FI      `json:"fi,omitempty"` // nil: no file header
	// Poison > 0: directly before every parse of a rendering, a malformed
	// variant of the renderings (see poisonText) is given to one of the readers
	// and whatever that returns is ignored.  Every call of a reader stands for
	// itself: a rejected input must not change what the next call returns.
	Poison int `json:"poison,omitempty"`
}

// strays are lines that belong to no hunk: text after the patch, other tools'
// markers, the next file of a multi-file patch.
var strays = []string{"stray line", "\\ No newline at end of file", "diff --git a/x b/x", "Only in x: y", "index 83db48f..bf269f4 100644", "Binary files a and b differ", "1c1", "*** 1,2 ****"}

const poisonKinds = 9

// insertLine puts line before line number at (0-based) of text; at or after
// the end it is appended.
func insertLine(text string, at int, line string) string {
	ls := strings.SplitAfter(text, "\n")
	if at = max(at, 0); at >= len(ls) {
		return text + line + "\n"
	}
	return strings.Join(ls[:at], "") + line + "\n" + strings.Join(ls[at:], "")
}

// poisonText builds malformed input number shape (> 0) from the Normal and
// Unified renderings of some chunks, and says which reader gets it: 'u'
// ReadUnified, 'n' Read, 'g' ReadGitPatch.
func poisonText(shape int, cs []*mdiff.Chunk, ntext, utext string) (byte, string) {
	stray := strays[((shape-1)/poisonKinds)%len(strays)]
	firstBody := 1 // line number of the first body line of the first hunk
	for i, ln := range strings.SplitAfter(utext, "\n") {
		if strings.HasPrefix(ln, "@@ ") {
			firstBody = i + 1
			break
		}
	}
	switch (shape - 1) % poisonKinds {
	case 0: // text after the last hunk
		return 'u', utext + stray + "\n"
	case 1: // a stray line inside the first hunk's body
		return 'u', insertLine(utext, firstBody+1, stray)
	case 2: // ... inside the last hunk's body
		return 'u', insertLine(utext, strings.Count(utext, "\n")-1, stray)
	case 3: // two files in one text
		return 'u', utext + "diff -u a b\n" + utext
	case 4: // a stray line inside the first change command's lines
		return 'n', insertLine(ntext, 2, stray)
	case 5:
		return 'n', ntext + stray + "\n"
	case 6: // a git patch whose second file section breaks off in its header
		hunks, _ := render(mdiff.Unified, cs, nil)
		return 'g', "diff --git a/f b/f\n--- a/f\n+++ b/f\n" + hunks + stray + "\ndiff --git a/g b/g\n--- a/g\n" + stray + "\n"
	case 7: // cut off in the middle
		return 'u', utext[:len(utext)*2/3]
	default: // the other format
		if shape%2 == 0 {
			return 'u', ntext
		}
		return 'n', utext
	}
}

// poisonParse gives malformed text to a reader and ignores the outcome (it
// reports a panic, which is not this property's business either).
func poisonParse(shape int, cs []*mdiff.Chunk, ntext, utext string) (panicked bool) {
	if shape <= 0 {
		return false
	}
	rd, text := poisonText(shape, cs, ntext, utext)
	return vk.PanicValue(func() {
		switch rd {
		case 'u':
			mdiff.ReadUnified(strings.NewReader(text))
		case 'n':
			mdiff.Read(strings.NewReader(text))
		default:
			mdiff.ReadGitPatch(strings.NewReader(text))
		}
	}) != nil
}

func (c FmtCase) String() string {
	s := fmt.Sprintf("L=%s R=%s n=%d", showLines(c.L), showLines(c.R), c.N)
	if c.FI != nil {
		s += fmt.Sprintf(" header names %q / %q", c.FI.Left, c.FI.Right)
		if c.FI.TFmt != "" {
			s += fmt.Sprintf(" FileInfo.TimeFormat %q", c.FI.TFmt)
		}
	}
	if c.Poison > 0 {
		s += fmt.Sprintf(" [before each parse, a reader is given malformed text (shape %d) and rejects or accepts it]", c.Poison)
	}
	return s
}

func (c FmtCase) diff() *mdiff.Diff {
	d := mdiff.New(expandLines(c.L), expandLines(c.R))
	if c.N >= 0 {
		d.AddContext(c.N).Unify()
	}
	return d
}

// lineOp is one line of a chunk with its operation ('-', '=', '+').
type lineOp struct {
	op   byte
	text string
}

func flatten(es []mdiff.Edit) []lineOp {
	var out []lineOp
	for _, e := range es {
		switch e.Op {
		case slice.OpDrop:
			for _, x := range e.X {
				out = append(out, lineOp{'-', x})
			}
		case slice.OpEmit:
			for _, x := range e.X {
				out = append(out, lineOp{'=', x})
			}
		case slice.OpCopy:
			for _, y := range e.Y {
				out = append(out, lineOp{'+', y})
			}
		case slice.OpReplace:
			for _, x := range e.X {
				out = append(out, lineOp{'-', x})
			}
			for _, y := range e.Y {
				out = append(out, lineOp{'+', y})
			}
		default:
			out = append(out, lineOp{'?', fmt.Sprint(e)})
		}
	}
	return out
}

type wantChunk struct {
	ls, le, rs, re int
	ops            []lineOp
}

// plainWriter offers Write only (no WriteString, ReadFrom ...): a pipe, a hash,
// a compressor or a user's wrapper look like this to the formatters.
type plainWriter struct{ w io.Writer }

func (p plainWriter) Write(b []byte) (int, error) { return p.w.Write(b) }

// render formats into a bytes.Buffer, directly or - chosen by the shape of
// the diff, so that it is a function of the case - through a writer that
// offers Write only, or through a bufio.Writer that is flushed afterwards.
func render(f mdiff.FormatFunc, cs []*mdiff.Chunk, fi *mdiff.FileInfo) (string, string) {
	var buf bytes.Buffer
	kind := len(cs)
	for _, c := range cs {
		kind += len(c.Edits)
	}
	var err error
	switch kind % 3 {
	case 1:
		err = f(plainWriter{&buf}, cs, fi)
	case 2:
		bw := bufio.NewWriterSize(&buf, 16)
		if err = f(bw, cs, fi); err == nil {
			err = bw.Flush()
		}
	default:
		err = f(&buf, cs, fi)
	}
	if err != nil {
		return "", fmt.Sprintf("formatter returned error %v", err)
	}
	return buf.String(), ""
}

// compareChunks compares parsed chunks with expectations.  With f5 set, a
// side of exactly one line may come back collapsed to zero length (known
// finding F5); it reports whether that happened.
func compareChunks(got []*mdiff.Chunk, want []wantChunk, f5 bool) (collapsed bool, msg string) {
	if len(got) != len(want) {
		return false, fmt.Sprintf("parsed %d chunks, want %d", len(got), len(want))
	}
	for i, w := range want {
		g := got[i]
		okL := g.LStart == w.ls && g.LEnd == w.le
		okR := g.RStart == w.rs && g.REnd == w.re
		if f5 {
			if !okL && w.le-w.ls == 1 && g.LStart == w.ls && g.LEnd == w.ls {
				okL, collapsed = true, true
			}
			if !okR && w.re-w.rs == 1 && g.RStart == w.rs && g.REnd == w.rs {
				okR, collapsed = true, true
			}
		}
		if !okL || !okR {
			return collapsed, fmt.Sprintf("chunk %d parsed with ranges left [%d,%d) right [%d,%d), want left [%d,%d) right [%d,%d)", i, g.LStart, g.LEnd, g.RStart, g.REnd, w.ls, w.le, w.rs, w.re)
		}
		if gf := flatten(g.Edits); !slices.Equal(gf, w.ops) {
			return collapsed, fmt.Sprintf("chunk %d parsed with line operations %v, want %v", i, showOps(gf), showOps(w.ops))
		}
	}
	return collapsed, ""
}

func showOps(ops []lineOp) string {
	var sb strings.Builder
	for i, o := range ops {
		if i > 0 {
			sb.WriteByte(' ')
		}
		fmt.Fprintf(&sb, "%c%q", o.op, o.text)
	}
	return "[" + sb.String() + "]"
}

func wantUnified(cs []*mdiff.Chunk) []wantChunk {
	var out []wantChunk
	for _, c := range cs {
		out = append(out, wantChunk{c.LStart, c.LEnd, c.RStart, c.REnd, flatten(c.Edits)})
	}
	return out
}

// wantNormal: one parsed chunk per change command.
func wantNormal(cs []*mdiff.Chunk) []wantChunk {
	var out []wantChunk
	for _, c := range cs {
		lp, rp := c.LStart, c.RStart
		for _, e := range c.Edits {
			switch e.Op {
			case slice.OpEmit:
				lp += len(e.X)
				rp += len(e.X)
			case slice.OpDrop:
				out = append(out, wantChunk{lp, lp + len(e.X), rp, rp, flatten([]mdiff.Edit{e})})
				lp += len(e.X)
			case slice.OpCopy:
				out = append(out, wantChunk{lp, lp, rp, rp + len(e.Y), flatten([]mdiff.Edit{e})})
				rp += len(e.Y)
			case slice.OpReplace:
				out = append(out, wantChunk{lp, lp + len(e.X), rp, rp + len(e.Y), flatten([]mdiff.Edit{e})})
				lp += len(e.X)
				rp += len(e.Y)
			}
		}
	}
	return out
}

func sameTime(a, b time.Time) bool {
	if a.IsZero() || b.IsZero() {
		return a.IsZero() && b.IsZero()
	}
	_, oa := a.Zone()
	_, ob := b.Zone()
	return a.Equal(b) && oa == ob
}

func checkInfo(got, want *mdiff.FileInfo) string {
	if want == nil {
		if got != nil {
			return fmt.Sprintf("a FileInfo %+v was parsed although no header was written", *got)
		}
		return ""
	}
	if got == nil {
		return "no FileInfo was parsed although a header was written"
	}
	// an empty name is written as a placeholder (undocumented): only non-empty
	// names are required to come back as they were
	if (want.Left != "" && got.Left != want.Left) || (want.Right != "" && got.Right != want.Right) {
		return fmt.Sprintf("file names parsed as %q / %q, written as %q / %q", got.Left, got.Right, want.Left, want.Right)
	}
	if customLayout(want) {
		return "" // only default-format timestamps are promised to survive
	}
	if !sameTime(got.LeftTime, want.LeftTime) || !sameTime(got.RightTime, want.RightTime) {
		return fmt.Sprintf("timestamps parsed as %v / %v, written as %v / %v", got.LeftTime, got.RightTime, want.LeftTime, want.RightTime)
	}
	return ""
}

// f5Exposed reports whether some chunk side has exactly one line.
func f5Exposed(cs []*mdiff.Chunk) bool {
	for _, c := range cs {
		if c.LEnd-c.LStart == 1 || c.REnd-c.RStart == 1 {
			return true
		}
	}
	return false
}

type fmtStats struct {
	emptyRange, oneLine, hostile, f5hits bool
	poison                               int
	poisonPanic                          bool
	o                                    *vk.Obs // for Step and Retain; may be nil
}

func hostileLine(s string) bool {
	return s == "" || strings.ContainsAny(s[:1], "-+<>@ \\*!d0123456789")
}

// checkRoundTrip is oracle O1 for one set of chunks.
func checkRoundTrip(cs []*mdiff.Chunk, fi *mdiff.FileInfo, noTriage bool, st *fmtStats) string {
	// ---- normal ------------------------------------------------------------
	ntext, m := render(mdiff.Normal, cs, fi)
	if m != "" {
		return "Normal: " + m
	}
	var utext string
	if st.poison > 0 {
		if utext, m = render(mdiff.Unified, cs, fi); m != "" {
			return "Unified: " + m
		}
		st.poisonPanic = poisonParse(st.poison, cs, ntext, utext) || st.poisonPanic
	}
	np, err := mdiff.Read(strings.NewReader(ntext))
	if err != nil {
		return fmt.Sprintf("Read of the Normal rendering fails: %v\n%s", err, ntext)
	}
	if _, m := compareChunks(np.Chunks, wantNormal(cs), false); m != "" {
		return fmt.Sprintf("Normal -> Read: %s\nrendering:\n%s", m, ntext)
	}
	if again, m := render(mdiff.Normal, np.Chunks, np.FileInfo); m != "" || again != ntext {
		return fmt.Sprintf("Normal -> Read -> Format(Normal) does not reproduce the text (%s):\nfirst:\n%s\nagain:\n%s", m, ntext, again)
	}
	wantN := wantNormal(cs)
	st.o.Retain(func() string {
		// a parsed patch is the caller's; later parses must not reach into it
		if _, m := compareChunks(np.Chunks, wantN, false); m != "" {
			return fmt.Sprintf("Normal -> Read: %s\nrendering:\n%s", m, ntext)
		}
		return ""
	})
	st.o.Step()
	// ---- unified -----------------------------------------------------------
	utext, m = render(mdiff.Unified, cs, fi)
	if m != "" {
		return "Unified: " + m
	}
	st.poisonPanic = poisonParse(st.poison, cs, ntext, utext) || st.poisonPanic
	up, err := mdiff.ReadUnified(strings.NewReader(utext))
	if len(cs) == 0 {
		// the empty rendering: zero chunks or an error are both acceptable
		if utext != "" {
			return fmt.Sprintf("Unified rendering of an empty diff is %q, want empty", utext)
		}
		if err == nil && len(up.Chunks) != 0 {
			return fmt.Sprintf("ReadUnified of the empty rendering yields %d chunks", len(up.Chunks))
		}
		return ""
	}
	if err != nil {
		return fmt.Sprintf("ReadUnified of the Unified rendering fails: %v\n%s", err, utext)
	}
	exposed := f5Exposed(cs)
	wantU := wantUnified(cs)
	collapsed, m := compareChunks(up.Chunks, wantU, exposed && !noTriage)
	if m != "" {
		return fmt.Sprintf("Unified -> ReadUnified: %s\nrendering:\n%s", m, utext)
	}
	if m := checkInfo(up.FileInfo, fi); m != "" {
		return fmt.Sprintf("Unified -> ReadUnified: %s\nrendering:\n%s", m, utext)
	}
	st.o.Retain(func() string {
		_, m := compareChunks(up.Chunks, wantU, exposed && !noTriage)
		if m == "" {
			m = checkInfo(up.FileInfo, fi)
		}
		if m != "" {
			return fmt.Sprintf("Unified -> ReadUnified: %s\nrendering:\n%s", m, utext)
		}
		return ""
	})
	again, m := render(mdiff.Unified, up.Chunks, up.FileInfo)
	if m != "" {
		return "re-format: " + m
	}
	if collapsed {
		st.f5hits = true
		// Known finding F5: the re-rendering must be exactly the rendering of
		// the patch with those one-line sides collapsed to zero length.
		var cc []*mdiff.Chunk
		for i, c := range cs {
			x := *c // ranges as parsed (validated above: equal, or a one-line side collapsed)
			x.LStart, x.LEnd, x.RStart, x.REnd = up.Chunks[i].LStart, up.Chunks[i].LEnd, up.Chunks[i].RStart, up.Chunks[i].REnd
			cc = append(cc, &x)
		}
		wantAgain, _ := render(mdiff.Unified, cc, reformatInfo(fi, up.FileInfo))
		if again != wantAgain {
			return fmt.Sprintf("Unified -> ReadUnified -> Format: beyond known finding F5 (one-line ranges read as empty) the text differs:\nfirst:\n%s\nagain:\n%s\nexpected under F5:\n%s", utext, again, wantAgain)
		}
	} else if customLayout(fi) {
		if wantAgain, _ := render(mdiff.Unified, cs, reformatInfo(fi, up.FileInfo)); again != wantAgain {
			return fmt.Sprintf("Unified (custom time layout %q) -> ReadUnified -> Format(Unified) does not reproduce the hunks and the header names:\nfirst:\n%s\nagain:\n%s\nexpected:\n%s", fi.TimeFormat, utext, again, wantAgain)
		}
	} else if again != utext {
		return fmt.Sprintf("Unified -> ReadUnified -> Format(Unified) does not reproduce the text:\nfirst:\n%s\nagain:\n%s", utext, again)
	}
	return ""
}

// checkMeaning is oracle O2: each rendering, interpreted by the published
// rules of its format, turns Left into Right.
func checkMeaning(cs []*mdiff.Chunk, fi *mdiff.FileInfo, L, R []string) string {
	for _, f := range []struct {
		name  string
		ff    mdiff.FormatFunc
		apply func([]string, string) ([]string, string)
	}{
		{"Normal", mdiff.Normal, applyNormal},
		{"Unified", mdiff.Unified, applyUnified},
		{"Context", mdiff.Context, applyContext},
	} {
		text, m := render(f.ff, cs, fi)
		if m != "" {
			return f.name + ": " + m
		}
		got, m := f.apply(L, text)
		if m != "" {
			return fmt.Sprintf("%s rendering cannot be applied to Left by the published rules: %s\nrendering:\n%s", f.name, m, text)
		}
		if !slices.Equal(got, R) {
			return fmt.Sprintf("%s rendering applied to Left yields %q, want Right %q\nrendering:\n%s", f.name, got, R, text)
		}
	}
	return ""
}

func runC14(c FmtCase, o *vk.Obs) string {
	c.L, c.R = expandLines(c.L), expandLines(c.R)
	d := c.diff()
	fi := c.FI.info()
	st := fmtStats{poison: c.Poison, o: o}
	if m := checkRoundTrip(d.Chunks, fi, o.NoTriage, &st); m != "" {
		return c.String() + ": " + m
	}
	o.Step()
	if m := checkMeaning(d.Chunks, fi, c.L, c.R); m != "" {
		return c.String() + ": " + m
	}
	classifyFmt(d.Chunks, c.L, c.R, &st, o)
	o.ClassIf(len(d.Chunks) > 0 && customLayout(fi) && !(fi.LeftTime.IsZero() && fi.RightTime.IsZero()), "header_time_in_custom_layout")
	return ""
}

func classifyFmt(cs []*mdiff.Chunk, L, R []string, st *fmtStats, o *vk.Obs) {
	for _, ch := range cs {
		if ch.LEnd == ch.LStart || ch.REnd == ch.RStart {
			st.emptyRange = true
		}
		if ch.LEnd-ch.LStart == 1 || ch.REnd-ch.RStart == 1 {
			st.oneLine = true
		}
		for _, lo := range flatten(ch.Edits) {
			if hostileLine(lo.text) {
				st.hostile = true
			}
		}
	}
	if len(cs) > 0 && (st.emptyRange || st.oneLine || st.hostile) {
		o.NonTrivial()
	}
	o.ClassIf(st.emptyRange, "empty_range")
	o.ClassIf(st.oneLine, "one_line_range(F5 exposed)")
	o.ClassIf(st.hostile, "hostile_line")
	o.ClassIf(len(cs) == 0, "empty_diff")
	o.ClassIf(len(cs) >= 2, "chunks>=2")
	o.ClassIf(st.poison > 0, "malformed_text_parsed_before_each_parse")
	o.ClassIf(st.poisonPanic, "reader_panicked_on_malformed_text")
	if st.f5hits {
		o.Class("known_hit_F5")
		o.Known("F5")
	}
}

// ---------------------------------------------------------------------------
// git-style wrappers

// GitCase is a patch of several files in "git diff -p" style.
type GitCase struct {
	Files   []FmtCase `json:"files"`
	Names   []string  `json:"names"`
	Extra   int       `json:"extra"`            // selects optional header lines per file
	HunkCtx bool      `json:"hunkctx"`          // append function context after the second @@
	Poison  int       `json:"poison,omitempty"` // see FmtCase.Poison (built from the first file section)
	// Heads, when present, says how the ---/+++ lines of file section i are
	// written (Heads[i%len]); absent: "--- a/<name>" and "+++ b/<name>".
	Heads []GitHead `json:"heads,omitempty"`
}

// GitHead is the ---/+++ header of one file section.  An empty name in FI
// stands for git's usual a/<name> (left) or b/<name> (right); git spells the
// missing side of a created or deleted file "/dev/null".  Tab&1 (&2) appends
// a tab to the left (right) header line when that line has no timestamp, as
// git does after a name with blanks: the tab ends the name.
type GitHead struct {
	FI  FI  `json:"fi"`
	Tab int `json:"tab,omitempty"`
}

// head returns the FileInfo and the tab bits for file section i.
func (g GitCase) head(i int, name string) (*mdiff.FileInfo, int) {
	fi := &mdiff.FileInfo{Left: "a/" + name, Right: "b/" + name}
	if len(g.Heads) == 0 {
		return fi, 0
	}
	h := g.Heads[i%len(g.Heads)]
	hi := h.FI.info()
	if hi.Left == "" {
		hi.Left = fi.Left
	}
	if hi.Right == "" {
		hi.Right = fi.Right
	}
	tab := h.Tab
	if !hi.LeftTime.IsZero() {
		tab &^= 1
	}
	if !hi.RightTime.IsZero() {
		tab &^= 2
	}
	return hi, tab
}

// tabHeader appends a tab to the first (bit 1) and second (bit 2) line.
func tabHeader(u string, tab int) string {
	if tab&3 == 0 {
		return u
	}
	lines := strings.SplitAfterN(u, "\n", 3)
	for j := 0; j < 2 && j < len(lines); j++ {
		if tab&(1<<j) != 0 {
			lines[j] = strings.TrimSuffix(lines[j], "\n") + "\t\n"
		}
	}
	return strings.Join(lines, "")
}

func runGit(g GitCase, o *vk.Obs) string {
	var text strings.Builder
	type exp struct {
		name string
		fi   *mdiff.FileInfo
		own  string // the library's own rendering of the section
		cs   []*mdiff.Chunk
	}
	var want []exp
	var st fmtStats
	devnull, tabbed, timed := false, false, false
	for i, f := range g.Files {
		d := f.diff()
		if len(d.Chunks) == 0 {
			continue // a section without hunks has no ---/+++ header: not generated
		}
		name := g.Names[i%len(g.Names)]
		fmt.Fprintf(&text, "diff --git a/%s b/%s\n", name, name)
		switch (g.Extra + i) % 4 {
		case 1:
			text.WriteString("old mode 100644\nnew mode 100755\n")
		case 2:
			text.WriteString("new file mode 100644\n")
		case 3:
			text.WriteString("similarity index 90%\n")
		}
		text.WriteString("index 83db48f..bf269f4 100644\n")
		fi, tab := g.head(i, name)
		own, m := render(mdiff.Unified, d.Chunks, fi)
		if m != "" {
			return m
		}
		u := tabHeader(own, tab)
		if g.HunkCtx {
			lines := strings.SplitAfter(u, "\n")
			for j, ln := range lines {
				if strings.HasPrefix(ln, "@@ ") {
					lines[j] = strings.TrimSuffix(ln, "\n") + " func hostile() { @@ -1 +1 @@\n"
				}
			}
			u = strings.Join(lines, "")
		}
		text.WriteString(u)
		want = append(want, exp{name, fi, own, d.Chunks})
		classifyFmt(d.Chunks, f.L, f.R, &st, &vk.Obs{})
		devnull = devnull || fi.Left == "/dev/null" || fi.Right == "/dev/null"
		tabbed = tabbed || tab&3 != 0
		timed = timed || !fi.LeftTime.IsZero() || !fi.RightTime.IsZero()
	}
	o.Step()
	if g.Poison > 0 && len(want) > 0 {
		nt, _ := render(mdiff.Normal, want[0].cs, nil)
		ut, _ := render(mdiff.Unified, want[0].cs, &mdiff.FileInfo{Left: "a/" + want[0].name, Right: "b/" + want[0].name})
		o.ClassIf(poisonParse(g.Poison, want[0].cs, nt, ut), "reader_panicked_on_malformed_text")
		o.Class("malformed_text_parsed_before_each_parse")
	}
	ps, err := mdiff.ReadGitPatch(strings.NewReader(text.String()))
	if len(want) == 0 {
		if err == nil && len(ps) != 0 {
			return fmt.Sprintf("ReadGitPatch of a patch without file sections yields %d patches", len(ps))
		}
		return ""
	}
	if err != nil {
		return fmt.Sprintf("ReadGitPatch fails: %v\ninput:\n%s", err, text.String())
	}
	if len(ps) != len(want) {
		return fmt.Sprintf("ReadGitPatch yields %d patches for %d file sections\ninput:\n%s", len(ps), len(want), text.String())
	}
	f5 := false
	for i, w := range want {
		p := ps[i]
		if p.FileInfo == nil || p.FileInfo.Left != w.fi.Left || p.FileInfo.Right != w.fi.Right {
			return fmt.Sprintf("file section %d parsed with FileInfo %+v, want names %q %q\ninput:\n%s", i, p.FileInfo, w.fi.Left, w.fi.Right, text.String())
		}
		if m := checkInfo(p.FileInfo, w.fi); m != "" {
			return fmt.Sprintf("file section %d (%s): %s\ninput:\n%s", i, w.name, m, text.String())
		}
		exposed := f5Exposed(w.cs)
		collapsed, m := compareChunks(p.Chunks, wantUnified(w.cs), exposed && !o.NoTriage)
		if m != "" {
			return fmt.Sprintf("file section %d (%s): %s\ninput:\n%s", i, w.name, m, text.String())
		}
		f5 = f5 || collapsed
		if !collapsed {
			// re-formatting the parsed section reproduces the library's own text
			// of it (which the wrapper embeds, give or take git's decorations)
			wantAgain := w.own
			if customLayout(w.fi) {
				wantAgain, _ = render(mdiff.Unified, w.cs, reformatInfo(w.fi, p.FileInfo))
			}
			if again, m := render(mdiff.Unified, p.Chunks, p.FileInfo); m != "" || again != wantAgain {
				return fmt.Sprintf("file section %d (%s): ReadGitPatch -> Format(Unified) does not reproduce the section (%s):\nfirst:\n%s\nagain:\n%s\ninput:\n%s", i, w.name, m, wantAgain, again, text.String())
			}
		}
	}
	if len(want) >= 2 {
		o.NonTrivial()
	}
	o.ClassIf(len(want) >= 2, "files>=2")
	o.ClassIf(g.HunkCtx, "hunk_function_context")
	o.ClassIf(st.hostile, "hostile_line")
	o.ClassIf(devnull, "header_name_/dev/null")
	o.ClassIf(tabbed, "header_name_followed_by_tab")
	o.ClassIf(timed, "header_with_timestamp")
	if f5 {
		o.Class("known_hit_F5")
		o.Known("F5")
	}
	return ""
}
