// Package pmdiff holds the checks for mdiff: chunk structure (C13) and the
// text formats (C14).
package pmdiff

import (
	"bytes"
	"fmt"
	"math"
	"regexp"
	"slices"
	"strconv"
	"strings"

	"github.com/creachadair/mds/mdiff"
	"github.com/creachadair/mds/slice"
	"verif/vk"
)

// DiffCase is an input for mdiff.New followed by AddContext(N).Unify().
type DiffCase struct {
	L []string `json:"l"`
	R []string `json:"r"`
	N int      `json:"n"`
	// Lay is how the two arguments lie in memory: 0 separate slices; 1 where
	// one is a prefix of the other it is passed as that prefix of the other's
	// memory (text, text[:k]); 2 the same for a suffix (text, text[k:]); 3
	// adjacent windows L|R of one buffer.  1 and 2 fall back to 0 when neither
	// input is a prefix / suffix of the other.
	Lay int `json:"lay,omitempty"`
	// Share makes lines share string storage the way text processing does
	// (rhs[i] = strings.TrimRight(lhs[i], " ")): every line that is a proper
	// prefix of another line of the two inputs becomes a re-slice of that
	// longer line, so the two strings start at the same address.
	Share bool `json:"share,omitempty"`
	// Pre, Mid and Post are further steps performed after New (Pre), between
	// AddContext(N) and the final Unify (Mid) and after that Unify (Post); the
	// chunk oracle runs after every step.
	Pre  []Step `json:"pre,omitempty"`
	Mid  []Step `json:"mid,omitempty"`
	Post []Step `json:"post,omitempty"`
	// Again > 0: afterwards New is called on one pair of slices repeatedly,
	// with in-place updates of their contents in between (up to 3 rounds).
	Again int `json:"again,omitempty"`
	// Big, when set, stands for L and R (which are then empty in the case):
	// two long inputs over a small alphabet, so that very many pairs of equal
	// lines exist (see BigSpec).
	Big *BigSpec `json:"big,omitempty"`
}

// BigSpec describes a pair of long, dense inputs: LN and RN lines drawn from
// K different lines by a generator seeded with Seed.  Mode 0: both sides are
// drawn independently (about LN*RN/K pairs of equal lines); mode 1: Right is
// Left with about one line in eight dropped, replaced or preceded by a new
// line (RN is not used).
type BigSpec struct {
	LN   int    `json:"ln"`
	RN   int    `json:"rn"`
	K    int    `json:"k"`
	Seed uint64 `json:"seed"`
	Mode int    `json:"mode,omitempty"`
}

func (b *BigSpec) String() string {
	if b.Mode == 1 {
		return fmt.Sprintf("%d lines over %d different lines, Right a copy with about 1 line in 8 edited (seed %d)", b.LN, b.K, b.Seed)
	}
	return fmt.Sprintf("%d and %d lines drawn from %d different lines (seed %d)", b.LN, b.RN, b.K, b.Seed)
}

func (b *BigSpec) lines() (l, r []string) {
	k := max(b.K, 1)
	alpha := make([]string, k)
	for i := range alpha {
		alpha[i] = fmt.Sprintf("line %d", i)
	}
	rng := vk.NewRNG(b.Seed)
	l = make([]string, 0, max(b.LN, 0))
	for len(l) < b.LN {
		l = append(l, alpha[rng.Intn(k)])
	}
	if b.Mode == 1 {
		for _, s := range l {
			switch rng.Intn(24) {
			case 0: // dropped
			case 1:
				r = append(r, alpha[rng.Intn(k)])
			case 2:
				r = append(r, alpha[rng.Intn(k)], s)
			default:
				r = append(r, s)
			}
		}
		return l, r
	}
	r = make([]string, 0, max(b.RN, 0))
	for len(r) < b.RN {
		r = append(r, alpha[rng.Intn(k)])
	}
	return l, r
}

// Step is one further operation on a Diff.  Op "ctx" is AddContext(N) (it may
// be called repeatedly: every call adds up to N more lines to each chunk),
// "unify" is Unify, and "normal", "unified", "context" render the diff as it
// is at that point with Diff.Format into a scratch buffer: formatting is
// rendering only, so the chunks must describe as correct a patch afterwards
// as they did before.
type Step struct {
	Op string `json:"op"`
	N  int    `json:"n,omitempty"`
}

func (s Step) String() string {
	switch s.Op {
	case "ctx":
		return fmt.Sprintf("AddContext(%d)", s.N)
	case "unify":
		return "Unify"
	}
	return "Format(" + s.Op + ")"
}

// steps is the whole pipeline after New.
func (c DiffCase) steps() []Step {
	out := append(make([]Step, 0, len(c.Pre)+len(c.Mid)+len(c.Post)+2), c.Pre...)
	out = append(append(out, Step{Op: "ctx", N: c.N}), c.Mid...)
	return append(append(out, Step{Op: "unify"}), c.Post...)
}

// shareStorage re-slices prefixes out of the longer lines (see DiffCase.Share).
func shareStorage(ls ...[]string) {
	var all []string
	for _, l := range ls {
		all = append(all, l...)
	}
	for _, l := range ls {
		for i, s := range l {
			for _, m := range all {
				if len(m) > len(s) && len(s) > 0 && strings.HasPrefix(m, s) {
					l[i] = m[:len(s)]
					break
				}
			}
		}
	}
}

func (c DiffCase) String() string {
	lay := ""
	if c.Lay != 0 {
		lay = fmt.Sprintf(" memory layout %d (1: shared prefix memory, 2: shared suffix memory, 3: adjacent windows)", c.Lay)
	}
	if len(c.Pre)+len(c.Mid)+len(c.Post) > 0 {
		lay += " steps New"
		for _, st := range c.steps() {
			lay += "." + st.String()
		}
	}
	if c.Big != nil {
		return fmt.Sprintf("L, R = %s n=%d%s", c.Big, c.N, lay)
	}
	return fmt.Sprintf("L=%s R=%s n=%d%s", showLines(c.L), showLines(c.R), c.N, lay)
}

// Long lines are written symbolically in cases: "<<L4096x>>" stands for a
// line of 4096 'x' bytes (a real line never has this form in the generators).
var longLine = regexp.MustCompile(`^<<L(\d+)(.)>>$`)

func expandLines(ls []string) []string {
	if ls == nil {
		return nil
	}
	out := make([]string, len(ls))
	for i, l := range ls {
		if m := longLine.FindStringSubmatch(l); m != nil {
			n, _ := strconv.Atoi(m[1])
			l = strings.Repeat(m[2], n)
		}
		out[i] = l
	}
	return out
}

func showLines(ls []string) string {
	var sb strings.Builder
	sb.WriteByte('[')
	for i, l := range ls {
		if i > 0 {
			sb.WriteByte(' ')
		}
		if len(l) > 40 {
			fmt.Fprintf(&sb, "%q…(%d bytes)", l[:12], len(l))
		} else {
			fmt.Fprintf(&sb, "%q", l)
		}
	}
	sb.WriteByte(']')
	return sb.String()
}

type edit struct {
	Op   slice.EditOp
	X, Y []string
}

func copyEdits(es []mdiff.Edit) []edit {
	out := make([]edit, len(es))
	for i, e := range es {
		out[i] = edit{Op: e.Op, X: slices.Clone(e.X), Y: slices.Clone(e.Y)}
	}
	return out
}

func sameEdits(a []edit, b []mdiff.Edit) bool {
	if len(a) != len(b) {
		return false
	}
	for i := range a {
		if a[i].Op != b[i].Op || !slices.Equal(a[i].X, b[i].X) || !slices.Equal(a[i].Y, b[i].Y) {
			return false
		}
	}
	return true
}

type span struct{ ls, le, rs, re int }

// checkChunk verifies that the chunk's edits consume exactly Left[LStart,LEnd)
// and produce exactly Right[RStart,REnd); it returns the produced lines.
func checkChunk(c *mdiff.Chunk, L, R []string) ([]string, string) {
	if c.LStart < 1 || c.LEnd < c.LStart || c.LEnd > len(L)+1 || c.RStart < 1 || c.REnd < c.RStart || c.REnd > len(R)+1 {
		return nil, fmt.Sprintf("range out of bounds: left [%d,%d) of %d lines, right [%d,%d) of %d lines", c.LStart, c.LEnd, len(L), c.RStart, c.REnd, len(R))
	}
	lp, rp := c.LStart-1, c.RStart-1
	var out []string
	takeL := func(x []string, what string) string {
		if lp+len(x) > c.LEnd-1 || !slices.Equal(x, L[lp:lp+len(x)]) {
			return fmt.Sprintf("%s %q does not match Left at line %d (chunk left range [%d,%d))", what, x, lp+1, c.LStart, c.LEnd)
		}
		lp += len(x)
		return ""
	}
	takeR := func(y []string, what string) string {
		if rp+len(y) > c.REnd-1 || !slices.Equal(y, R[rp:rp+len(y)]) {
			return fmt.Sprintf("%s %q does not match Right at line %d (chunk right range [%d,%d))", what, y, rp+1, c.RStart, c.REnd)
		}
		rp += len(y)
		out = append(out, y...)
		return ""
	}
	for i, e := range c.Edits {
		var m string
		switch e.Op {
		case slice.OpDrop:
			m = takeL(e.X, "Drop")
		case slice.OpEmit:
			if m = takeL(e.X, "Emit"); m == "" {
				m = takeR(e.X, "Emit")
			}
		case slice.OpCopy:
			m = takeR(e.Y, "Copy")
		case slice.OpReplace:
			if m = takeL(e.X, "Replace"); m == "" {
				m = takeR(e.Y, "Replace")
			}
		default:
			m = fmt.Sprintf("invalid opcode %q", e.Op)
		}
		if m != "" {
			return nil, fmt.Sprintf("edit %d: %s", i, m)
		}
		if (e.Op == slice.OpDrop || e.Op == slice.OpEmit) && len(e.X) == 0 || e.Op == slice.OpCopy && len(e.Y) == 0 {
			return nil, fmt.Sprintf("edit %d is empty", i)
		}
	}
	if lp != c.LEnd-1 || rp != c.REnd-1 {
		return nil, fmt.Sprintf("edits consume left lines [%d,%d) and produce right lines [%d,%d), but the chunk claims [%d,%d) and [%d,%d)", c.LStart, lp+1, c.RStart, rp+1, c.LStart, c.LEnd, c.RStart, c.REnd)
	}
	return out, ""
}

// checkChunks verifies every chunk, and (when disjoint is set) order,
// disjointness and that splicing the chunks over Left yields Right.
func checkChunks(cs []*mdiff.Chunk, L, R []string, disjoint, notAdjacent bool) string {
	var res []string
	lp := 0
	for i, c := range cs {
		out, m := checkChunk(c, L, R)
		if m != "" {
			return fmt.Sprintf("chunk %d/%d: %s", i, len(cs), m)
		}
		if !disjoint {
			continue
		}
		if i > 0 {
			p := cs[i-1]
			if p.LEnd > c.LStart || p.REnd > c.RStart {
				return fmt.Sprintf("chunks %d and %d overlap or are out of order: left [%d,%d) then [%d,%d), right [%d,%d) then [%d,%d)", i-1, i, p.LStart, p.LEnd, c.LStart, c.LEnd, p.RStart, p.REnd, c.RStart, c.REnd)
			}
			if notAdjacent && p.LEnd == c.LStart {
				return fmt.Sprintf("chunks %d and %d are adjacent after Unify: left [%d,%d) then [%d,%d)", i-1, i, p.LStart, p.LEnd, c.LStart, c.LEnd)
			}
		}
		res = append(res, L[lp:c.LStart-1]...)
		res = append(res, out...)
		lp = c.LEnd - 1
	}
	if disjoint {
		res = append(res, L[lp:]...)
		if !slices.Equal(res, R) {
			return fmt.Sprintf("replacing each chunk's left range by its output gives %q, want Right %q", res, R)
		}
	}
	return ""
}

// applyScript executes a full edit script.
func applyScript(es []mdiff.Edit, L, R []string) string {
	if len(es) == 0 { // documented: the script is empty when the inputs are equal
		if !slices.Equal(L, R) {
			return fmt.Sprintf("Diff.Edits is empty but Left %q differs from Right %q", L, R)
		}
		return ""
	}
	lp := 0
	var out []string
	for i, e := range es {
		switch e.Op {
		case slice.OpDrop, slice.OpEmit, slice.OpReplace:
			if lp+len(e.X) > len(L) || !slices.Equal(e.X, L[lp:lp+len(e.X)]) {
				return fmt.Sprintf("Edits[%d] %v does not match Left at offset %d", i, e, lp)
			}
			lp += len(e.X)
		}
		switch e.Op {
		case slice.OpEmit:
			out = append(out, e.X...)
		case slice.OpCopy, slice.OpReplace:
			out = append(out, e.Y...)
		}
	}
	if lp != len(L) || !slices.Equal(out, R) {
		return fmt.Sprintf("Diff.Edits consumes %d of %d left lines and produces %q, want %q", lp, len(L), out, R)
	}
	return ""
}

func hasRepeat(xs ...[]string) bool {
	for _, x := range xs {
		seen := map[string]bool{}
		for _, s := range x {
			if seen[s] {
				return true
			}
			seen[s] = true
		}
	}
	return false
}

func runC13(c DiffCase, o *vk.Obs) string {
	c.L, c.R = expandLines(c.L), expandLines(c.R)
	if c.Big != nil {
		c.L, c.R = c.Big.lines()
		o.Class("long_dense_inputs")
		o.ClassIf(len(c.L)*len(c.R)/max(c.Big.K, 1) > 1<<16, "long_dense_inputs_over_65536_equal_pairs")
	}
	L, R := slices.Clone(c.L), slices.Clone(c.R)
	if c.L == nil {
		L = nil
	}
	if c.R == nil {
		R = nil
	}
	if c.Share {
		shareStorage(L, R)
		o.Class("lines_share_string_storage")
	}
	shared := false
	switch c.Lay {
	case 1:
		if len(R) <= len(L) && len(R) > 0 && slices.Equal(L[:len(R)], R) {
			R, shared = L[:len(R)], true
		} else if len(L) <= len(R) && len(L) > 0 && slices.Equal(R[:len(L)], L) {
			L, shared = R[:len(L)], true
		}
	case 2:
		if len(R) <= len(L) && len(R) > 0 && slices.Equal(L[len(L)-len(R):], R) {
			R, shared = L[len(L)-len(R):], true
		} else if len(L) <= len(R) && len(L) > 0 && slices.Equal(R[len(R)-len(L):], L) {
			L, shared = R[len(R)-len(L):], true
		}
	case 3:
		if len(L) > 0 && len(R) > 0 {
			buf := append(slices.Clone(L), R...)
			L, R, shared = buf[:len(L)], buf[len(L):], true
		}
	}
	o.ClassIf(shared, "arguments_share_memory")
	o.Step()
	d := mdiff.New(L, R)
	fail := func(stage, m string) string { return fmt.Sprintf("%s, after %s: %s", c, stage, m) }

	// ---- after New -------------------------------------------------------------
	if !slices.Equal(d.Left, c.L) || !slices.Equal(d.Right, c.R) {
		return fail("New", fmt.Sprintf("Left/Right were changed to %q / %q", d.Left, d.Right))
	}
	if m := applyScript(d.Edits, c.L, c.R); m != "" {
		return fail("New", m)
	}
	if m := checkChunks(d.Chunks, c.L, c.R, true, false); m != "" {
		return fail("New", m)
	}
	if slices.Equal(c.L, c.R) != (len(d.Chunks) == 0) {
		return fail("New", fmt.Sprintf("%d chunks for inputs that are equal=%v", len(d.Chunks), slices.Equal(c.L, c.R)))
	}
	for i, ch := range d.Chunks {
		for _, e := range ch.Edits {
			if e.Op == slice.OpEmit {
				return fail("New", fmt.Sprintf("chunk %d of a context-free diff contains an Emit", i))
			}
		}
	}
	snapEdits := copyEdits(d.Edits)
	snapshot := func() ([]span, [][]edit) {
		sp, ed := make([]span, len(d.Chunks)), make([][]edit, len(d.Chunks))
		for i, ch := range d.Chunks {
			sp[i] = span{ch.LStart, ch.LEnd, ch.RStart, ch.REnd}
			ed[i] = copyEdits(ch.Edits)
		}
		return sp, ed
	}
	base, baseEdits := snapshot()
	undisturbed := func(stage string) string {
		if !sameEdits(snapEdits, d.Edits) {
			return fail(stage, fmt.Sprintf("Diff.Edits was disturbed: now %v", d.Edits))
		}
		if !slices.Equal(d.Left, c.L) || !slices.Equal(d.Right, c.R) {
			return fail(stage, fmt.Sprintf("Left/Right were changed to %q / %q", d.Left, d.Right))
		}
		return ""
	}

	// State of the pipeline: cur/curEdits is the snapshot of the chunks as the
	// last New / AddContext / Unify left them (nil: not taken yet); total is
	// the context requested so far, n the size of the latest request; disjoint
	// and notAdjacent say what the chunk oracle may demand at this point.
	cur, curEdits := base, baseEdits
	total, n := 0, 0
	disjoint, notAdjacent := true, false
	formatted, stacked := false, false
	nctx := 0
	var scratch bytes.Buffer

	for si, st := range c.steps() {
		o.Step()
		stage := st.String()
		if len(c.Pre)+len(c.Mid)+len(c.Post) > 0 {
			stage = fmt.Sprintf("step %d (%s)", si+1, stage)
		} else if st.Op == "ctx" {
			stage = "AddContext"
		}
		switch st.Op {
		// ---- AddContext(n) -----------------------------------------------------
		case "ctx":
			if cur == nil {
				cur, curEdits = snapshot()
			}
			if ret := d.AddContext(st.N); ret != d {
				return fail(stage, "AddContext does not return its receiver")
			}
			if m := undisturbed(stage); m != "" {
				return m
			}
			n = max(st.N, 0)
			if n > 0 {
				if nctx > 0 {
					stacked = true
				}
				nctx++
				disjoint, notAdjacent = false, false
			}
			if total += n; total < 0 {
				total = math.MaxInt
			}
			if m := checkChunks(d.Chunks, c.L, c.R, disjoint, notAdjacent); m != "" {
				return fail(stage, m)
			}
			if len(d.Chunks) != len(cur) {
				return fail(stage, fmt.Sprintf("number of chunks changed from %d to %d", len(cur), len(d.Chunks)))
			}
			for i, ch := range d.Chunks {
				b := cur[i]
				pre, post := b.ls-ch.LStart, ch.LEnd-b.le
				if pre < 0 || pre > n || post < 0 || post > n || b.rs-ch.RStart != pre || ch.REnd-b.re != post {
					return fail(stage, fmt.Sprintf("chunk %d: context of %d lines before and %d after (right side %d/%d) with n=%d; was left [%d,%d) right [%d,%d), now left [%d,%d) right [%d,%d)",
						i, pre, post, b.rs-ch.RStart, ch.REnd-b.re, n, b.ls, b.le, b.rs, b.re, ch.LStart, ch.LEnd, ch.RStart, ch.REnd))
				}
				es := ch.Edits
				if pre > 0 {
					if len(es) == 0 || es[0].Op != slice.OpEmit || len(es[0].X) != pre {
						return fail(stage, fmt.Sprintf("chunk %d: %d lines of leading context are not one Emit edit", i, pre))
					}
					es = es[1:]
				}
				if post > 0 {
					if len(es) == 0 || es[len(es)-1].Op != slice.OpEmit || len(es[len(es)-1].X) != post {
						return fail(stage, fmt.Sprintf("chunk %d: %d lines of trailing context are not one Emit edit", i, post))
					}
					es = es[:len(es)-1]
				}
				if !sameEdits(curEdits[i], es) {
					return fail(stage, fmt.Sprintf("chunk %d: the edits between the context are %v, were %v", i, es, curEdits[i]))
				}
			}
			cur, curEdits = nil, nil

		// ---- Unify -------------------------------------------------------------
		case "unify":
			if ret := d.Unify(); ret != d {
				return fail(stage, "Unify does not return its receiver")
			}
			if m := undisturbed(stage); m != "" {
				return m
			}
			disjoint, notAdjacent = true, true
			if m := checkChunks(d.Chunks, c.L, c.R, true, true); m != "" {
				return fail(stage, m)
			}
			// every original chunk lies in exactly one unified chunk, which extends at
			// most n lines (all AddContext calls together) beyond the first/last
			// original chunk it covers
			bi := 0
			for i, ch := range d.Chunks {
				first := bi
				for bi < len(base) && base[bi].le <= ch.LEnd && base[bi].ls >= ch.LStart {
					bi++
				}
				if bi == first {
					return fail(stage, fmt.Sprintf("unified chunk %d left [%d,%d) covers none of the original chunks (next original: %+v)", i, ch.LStart, ch.LEnd, base[min(first, len(base)-1)]))
				}
				if base[first].ls-ch.LStart > total || ch.LEnd-base[bi-1].le > total || base[first].rs-ch.RStart > total || ch.REnd-base[bi-1].re > total {
					return fail(stage, fmt.Sprintf("unified chunk %d left [%d,%d) extends more than n=%d lines beyond the changes it covers (left [%d,%d))", i, ch.LStart, ch.LEnd, total, base[first].ls, base[bi-1].le))
				}
			}
			if bi != len(base) {
				return fail(stage, fmt.Sprintf("original chunk %d (left [%d,%d)) is not covered by any unified chunk", bi, base[bi].ls, base[bi].le))
			}
			cur, curEdits = nil, nil

		// ---- Format: rendering only ---------------------------------------------
		case "normal", "unified", "context":
			ff := mdiff.Normal
			if st.Op == "unified" {
				ff = mdiff.Unified
			} else if st.Op == "context" {
				ff = mdiff.Context
			}
			var fi *mdiff.FileInfo
			if st.N != 0 {
				fi = &mdiff.FileInfo{Left: "old", Right: "new"}
			}
			scratch.Reset()
			if err := d.Format(&scratch, ff, fi); err != nil {
				return fail(stage, fmt.Sprintf("Format returned error %v", err))
			}
			formatted = true
			if m := undisturbed(stage); m != "" {
				return m
			}
			if m := checkChunks(d.Chunks, c.L, c.R, disjoint, notAdjacent); m != "" {
				return fail(stage, m+" [the chunks passed this check before the diff was rendered]")
			}
		default:
			return fail(stage, "unknown step in the case")
		}
	}
	n = total
	overlapOrMeet := false
	for i := 1; i < len(base); i++ {
		if n > 1<<30 || base[i].ls-base[i-1].le < 2*n {
			overlapOrMeet = true
		}
	}
	if c.Again > 0 && len(c.L)+len(c.R) > 0 {
		// New on the SAME two slices again after their contents were changed in
		// place (same storage, same lengths): each call must describe what the
		// slices hold when it is made
		l2, r2 := slices.Clone(c.L), slices.Clone(c.R)
		all := append(slices.Clone(c.L), c.R...)
		for round := 0; round <= min(c.Again, 3); round++ {
			if round > 0 {
				if len(l2) > 0 {
					l2[(round*3+c.N&7)%len(l2)] = all[(round*5+1)%len(all)]
				}
				if len(r2) > 0 {
					r2[(round*7+1)%len(r2)] = all[(round*11+c.N&3)%len(all)]
				}
				if round == 2 && len(l2) == len(r2) {
					copy(r2, l2) // now equal: the diff must be empty
				}
			}
			o.Step()
			d2 := mdiff.New(l2, r2)
			wl, wr := slices.Clone(l2), slices.Clone(r2)
			stage := fmt.Sprintf("New called again on the same slices after %d in-place update(s), now L=%s R=%s", round, showLines(wl), showLines(wr))
			if m := applyScript(d2.Edits, wl, wr); m != "" {
				return fail(stage, m)
			}
			if m := checkChunks(d2.Chunks, wl, wr, true, false); m != "" {
				return fail(stage, m)
			}
			if slices.Equal(wl, wr) != (len(d2.Chunks) == 0) {
				return fail(stage, fmt.Sprintf("%d chunks for inputs that are equal=%v", len(d2.Chunks), slices.Equal(wl, wr)))
			}
		}
		o.Class("New_again_after_in_place_update")
	}
	final := make([]span, len(d.Chunks))
	for i, ch := range d.Chunks {
		final[i] = span{ch.LStart, ch.LEnd, ch.RStart, ch.REnd}
	}
	o.Retain(func() string {
		// the finished diff is the caller's: later diffs must not reach into it
		if m := undisturbed("a later, unrelated New/AddContext/Unify"); m != "" {
			return m
		}
		if m := checkChunks(d.Chunks, c.L, c.R, disjoint, notAdjacent); m != "" {
			return fail("a later, unrelated New/AddContext/Unify", m)
		}
		if len(d.Chunks) != len(final) {
			return fail("a later, unrelated New/AddContext/Unify", "the number of chunks changed")
		}
		for i, ch := range d.Chunks {
			if final[i] != (span{ch.LStart, ch.LEnd, ch.RStart, ch.REnd}) {
				return fail("a later, unrelated New/AddContext/Unify", fmt.Sprintf("chunk %d has other ranges than when the pipeline ended", i))
			}
		}
		return ""
	})

	rep := hasRepeat(c.L, c.R)
	if len(base) >= 2 && overlapOrMeet && rep && n > 0 {
		o.NonTrivial()
	}
	o.ClassIf(len(base) >= 2, "chunks>=2")
	o.ClassIf(overlapOrMeet && n > 0, "contexts_meet_or_overlap")
	o.ClassIf(rep, "repeated_line")
	o.ClassIf(len(base) > len(d.Chunks), "unify_merged")
	o.ClassIf(n == 0, "n=0")
	o.ClassIf(stacked, "AddContext_called_repeatedly")
	o.ClassIf(formatted, "rendered_between_stages")
	return ""
}
