package pmdiff

import (
	"fmt"
	"regexp"
	"slices"
	"strconv"
	"strings"
)

// Reference appliers for the three diff output formats, written from the
// published rules (POSIX diff "Diff Default/Unified/Context Output Format" and
// the GNU diffutils manual), independent of mdiff's own readers.  Like patch,
// they locate a hunk by the line numbers of the OLD file only and verify the
// old lines they remove or keep.

func splitText(text string) ([]string, string) {
	if text == "" {
		return nil, ""
	}
	if !strings.HasSuffix(text, "\n") {
		return nil, "rendering does not end with a newline"
	}
	return strings.Split(strings.TrimSuffix(text, "\n"), "\n"), ""
}

var normalCmd = regexp.MustCompile(`^(\d+)(?:,(\d+))?([acd])(\d+)(?:,(\d+))?$`)

func atoi(s string) int { n, _ := strconv.Atoi(s); return n }

// applyNormal applies a "normal" diff to old.
func applyNormal(old []string, text string) ([]string, string) {
	lines, msg := splitText(text)
	if msg != "" {
		return nil, msg
	}
	var out []string
	pos := 0 // number of old lines already consumed
	copyTo := func(n int) string {
		if n < pos || n > len(old) {
			return fmt.Sprintf("command addresses old line %d but %d lines are consumed of %d", n, pos, len(old))
		}
		out = append(out, old[pos:n]...)
		pos = n
		return ""
	}
	i := 0
	for i < len(lines) {
		m := normalCmd.FindStringSubmatch(lines[i])
		if m == nil {
			return nil, fmt.Sprintf("line %d: %q is not a change command", i+1, lines[i])
		}
		i++
		f1, f2 := atoi(m[1]), atoi(m[1])
		if m[2] != "" {
			f2 = atoi(m[2])
		}
		t1, t2 := atoi(m[4]), atoi(m[4])
		if m[5] != "" {
			t2 = atoi(m[5])
		}
		var del, add []string
		for i < len(lines) && strings.HasPrefix(lines[i], "< ") {
			del = append(del, lines[i][2:])
			i++
		}
		if m[3] == "c" {
			if i >= len(lines) || lines[i] != "---" {
				return nil, fmt.Sprintf("line %d: change command without --- separator", i+1)
			}
			i++
		}
		for i < len(lines) && strings.HasPrefix(lines[i], "> ") {
			add = append(add, lines[i][2:])
			i++
		}
		switch m[3] {
		case "a": // append lines t1..t2 after old line f1
			if m[2] != "" || len(del) != 0 || len(add) != t2-t1+1 {
				return nil, fmt.Sprintf("malformed add command %q (%d < lines, %d > lines)", m[0], len(del), len(add))
			}
			if msg := copyTo(f1); msg != "" {
				return nil, msg
			}
			out = append(out, add...)
		case "d": // delete old lines f1..f2
			if m[5] != "" || len(add) != 0 || len(del) != f2-f1+1 {
				return nil, fmt.Sprintf("malformed delete command %q (%d < lines, %d > lines)", m[0], len(del), len(add))
			}
			if msg := copyTo(f1 - 1); msg != "" {
				return nil, msg
			}
			if f2 > len(old) || !slices.Equal(old[f1-1:f2], del) {
				return nil, fmt.Sprintf("command %q deletes %q but the old file has %q there", m[0], del, old[min(f1-1, len(old)):min(f2, len(old))])
			}
			pos = f2
		case "c":
			if len(del) != f2-f1+1 || len(add) != t2-t1+1 {
				return nil, fmt.Sprintf("malformed change command %q (%d < lines, %d > lines)", m[0], len(del), len(add))
			}
			if msg := copyTo(f1 - 1); msg != "" {
				return nil, msg
			}
			if f2 > len(old) || !slices.Equal(old[f1-1:f2], del) {
				return nil, fmt.Sprintf("command %q replaces %q but the old file has %q there", m[0], del, old[min(f1-1, len(old)):min(f2, len(old))])
			}
			pos = f2
			out = append(out, add...)
		}
		// the new-file line numbers must agree with where the lines land
		if m[3] != "d" && len(out) != t2 {
			return nil, fmt.Sprintf("command %q says the new lines end at line %d of the new file, but they end at %d", m[0], t2, len(out))
		}
		if m[3] == "d" && len(out) != t1 {
			return nil, fmt.Sprintf("command %q says the deletion follows new line %d, but %d new lines exist", m[0], t1, len(out))
		}
	}
	out = append(out, old[pos:]...)
	return out, ""
}

var unifiedHdr = regexp.MustCompile(`^@@ -(\d+)(?:,(\d+))? \+(\d+)(?:,(\d+))? @@`)

// applyUnified applies a unified diff (optional ---/+++ header) to old.
func applyUnified(old []string, text string) ([]string, string) {
	lines, msg := splitText(text)
	if msg != "" {
		return nil, msg
	}
	i := 0
	if len(lines) >= 2 && strings.HasPrefix(lines[0], "--- ") && strings.HasPrefix(lines[1], "+++ ") {
		i = 2
	}
	var out []string
	pos := 0
	for i < len(lines) {
		m := unifiedHdr.FindStringSubmatch(lines[i])
		if m == nil {
			return nil, fmt.Sprintf("line %d: %q is not a hunk header", i+1, lines[i])
		}
		i++
		os, oc, ns, nc := atoi(m[1]), 1, atoi(m[3]), 1
		if m[2] != "" {
			oc = atoi(m[2])
		}
		if m[4] != "" {
			nc = atoi(m[4])
		}
		// A range of zero lines names the line that precedes it.
		start := os - 1
		if oc == 0 {
			start = os
		}
		nstart := ns - 1
		if nc == 0 {
			nstart = ns
		}
		if start < pos || start > len(old) {
			return nil, fmt.Sprintf("hunk %q starts at old line %d but %d of %d old lines are consumed", m[0], start+1, pos, len(old))
		}
		out = append(out, old[pos:start]...)
		pos = start
		if len(out) != nstart {
			return nil, fmt.Sprintf("hunk %q claims new start %d (0-based %d) but %d new lines precede it", m[0], ns, nstart, len(out))
		}
		o, n := 0, 0
		for (o < oc || n < nc) && i < len(lines) {
			ln := lines[i]
			if ln == "" {
				return nil, fmt.Sprintf("line %d: empty line inside a hunk", i+1)
			}
			body := ln[1:]
			switch ln[0] {
			case ' ':
				if pos >= len(old) || old[pos] != body {
					return nil, fmt.Sprintf("hunk %q: context line %q does not match old line %d", m[0], body, pos+1)
				}
				out = append(out, body)
				pos++
				o++
				n++
			case '-':
				if pos >= len(old) || old[pos] != body {
					return nil, fmt.Sprintf("hunk %q: removed line %q does not match old line %d", m[0], body, pos+1)
				}
				pos++
				o++
			case '+':
				out = append(out, body)
				n++
			default:
				return nil, fmt.Sprintf("line %d: unexpected %q inside a hunk", i+1, ln)
			}
			i++
		}
		if o != oc || n != nc {
			return nil, fmt.Sprintf("hunk %q has %d old and %d new lines in its body", m[0], o, n)
		}
	}
	out = append(out, old[pos:]...)
	return out, ""
}

var (
	ctxOld = regexp.MustCompile(`^\*\*\* (\d+)(?:,(\d+))? \*\*\*\*$`)
	ctxNew = regexp.MustCompile(`^--- (\d+)(?:,(\d+))? ----$`)
)

// applyContext applies a context diff (optional ***/--- header) to old.
// A range "a,b" is inclusive; b = a-1 denotes an empty range before line a.
func applyContext(old []string, text string) ([]string, string) {
	lines, msg := splitText(text)
	if msg != "" {
		return nil, msg
	}
	i := 0
	if len(lines) >= 2 && strings.HasPrefix(lines[0], "*** ") && strings.HasPrefix(lines[1], "--- ") && !ctxOld.MatchString(lines[0]) {
		i = 2
	}
	var out []string
	pos := 0
	for i < len(lines) {
		if lines[i] != "***************" {
			return nil, fmt.Sprintf("line %d: %q is not a hunk separator", i+1, lines[i])
		}
		i++
		if i >= len(lines) {
			return nil, "truncated hunk"
		}
		m := ctxOld.FindStringSubmatch(lines[i])
		if m == nil {
			return nil, fmt.Sprintf("line %d: %q is not an old-range line", i+1, lines[i])
		}
		i++
		a, b := atoi(m[1]), atoi(m[1])
		if m[2] != "" {
			b = atoi(m[2])
		}
		var oldBody, oldKept []string
		for i < len(lines) && !ctxNew.MatchString(lines[i]) {
			ln := lines[i]
			if len(ln) < 2 {
				return nil, fmt.Sprintf("line %d: short line %q in old body", i+1, ln)
			}
			switch ln[:2] {
			case "  ":
				oldKept = append(oldKept, ln[2:])
			case "- ", "! ":
			default:
				return nil, fmt.Sprintf("line %d: unexpected %q in old body", i+1, ln)
			}
			oldBody = append(oldBody, ln[2:])
			i++
		}
		if i >= len(lines) {
			return nil, "hunk without new-range line"
		}
		m2 := ctxNew.FindStringSubmatch(lines[i])
		i++
		c, d := atoi(m2[1]), atoi(m2[1])
		if m2[2] != "" {
			d = atoi(m2[2])
		}
		var newBody, newKept []string
		for i < len(lines) && lines[i] != "***************" {
			ln := lines[i]
			if len(ln) < 2 {
				return nil, fmt.Sprintf("line %d: short line %q in new body", i+1, ln)
			}
			switch ln[:2] {
			case "  ":
				newKept = append(newKept, ln[2:])
			case "+ ", "! ":
			default:
				return nil, fmt.Sprintf("line %d: unexpected %q in new body", i+1, ln)
			}
			newBody = append(newBody, ln[2:])
			i++
		}
		// An omitted body means "no changes on this side": it consists of the
		// other side's context lines.
		if len(oldBody) == 0 && b-a+1 > 0 {
			oldBody = newKept
		}
		if len(newBody) == 0 && d-c+1 > 0 {
			newBody = oldKept
		}
		if len(oldBody) != b-a+1 || len(newBody) != d-c+1 {
			return nil, fmt.Sprintf("hunk *** %s **** / --- %s ----: bodies have %d and %d lines", m[0], m2[0], len(oldBody), len(newBody))
		}
		start := a - 1
		if start < pos || start+len(oldBody) > len(old) {
			return nil, fmt.Sprintf("hunk %q starts at old line %d but %d of %d old lines are consumed", m[0], a, pos, len(old))
		}
		if !slices.Equal(old[start:start+len(oldBody)], oldBody) {
			return nil, fmt.Sprintf("hunk %q: old lines %q do not match the old file %q", m[0], oldBody, old[start:start+len(oldBody)])
		}
		out = append(out, old[pos:start]...)
		if len(out) != c-1 {
			return nil, fmt.Sprintf("hunk %q claims new start %d but %d new lines precede it", m2[0], c, len(out))
		}
		out = append(out, newBody...)
		pos = start + len(oldBody)
	}
	out = append(out, old[pos:]...)
	return out, ""
}
