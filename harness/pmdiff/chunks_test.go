package pmdiff

import (
	"fmt"
	"math"
	"testing"

	"pgregory.net/rapid"
	"verif/vk"
)

// seqs enumerates every sequence over alphabet up to maxLen, in size order.
func seqs(alphabet []string, maxLen int) [][]string {
	out := [][]string{nil}
	prev := [][]string{nil}
	for l := 1; l <= maxLen; l++ {
		var cur [][]string
		for _, p := range prev {
			for _, a := range alphabet {
				s := append(append(make([]string, 0, l), p...), a)
				cur = append(cur, s)
			}
		}
		out = append(out, cur...)
		prev = cur
	}
	return out
}

var ctxSizes = []int{0, 1, 2, 3, 4, 50, math.MaxInt}

func init() {
	vk.Register("C13", "exh", runC13)
	vk.Register("C13", "rand", runC13)
}

// exhCases lists the cases of one enumerated pair: every context size, one
// case in three rendered between the stages, and (thorough: every pair; quick:
// one pair in four) one more case with the context added in two instalments.
func exhCases(l, r []string, idx, n int, thorough bool) []DiffCase {
	out := make([]DiffCase, 0, len(ctxSizes)+1)
	for ci, cn := range ctxSizes {
		c := DiffCase{L: l, R: r, N: cn, Lay: (idx/n + idx%n + cn&3) % 4}
		switch (idx*7 + ci*5) % 9 {
		case 0:
			c.Pre = []Step{{Op: "context"}}
		case 1:
			c.Pre, c.Post = []Step{{Op: "normal"}}, []Step{{Op: "unified", N: 1}}
		case 2:
			c.Pre, c.Mid, c.Post = []Step{{Op: "unified"}}, []Step{{Op: "context", N: 1}}, []Step{{Op: "context"}}
		}
		out = append(out, c)
	}
	if thorough || idx%4 == 1 {
		c := DiffCase{L: l, R: r, N: 1}
		switch (idx / 4) % 3 {
		case 0:
			c.Mid = []Step{{Op: "ctx", N: 2}}
		case 1:
			c.Mid = []Step{{Op: "ctx", N: 50}}
		case 2:
			c.N, c.Mid = 2, []Step{{Op: "unify"}, {Op: "ctx", N: 1}}
		}
		out = append(out, c)
	}
	return out
}

// bigSpecs lists the directed long dense inputs (seeds are filled in by the
// caller).
func bigSpecs(thorough bool) []BigSpec {
	out := []BigSpec{{LN: 150, RN: 150, K: 4}, {LN: 300, RN: 300, K: 3}, {LN: 1000, RN: 1100, K: 8}, {LN: 2000, RN: 500, K: 5},
		{LN: 1100, RN: 1000, K: 4}, {LN: 1500, K: 6, Mode: 1}, {LN: 260, RN: 4000, K: 3}, {LN: 2500, RN: 2500, K: 5}}
	if thorough {
		out = append(out, BigSpec{LN: 5000, RN: 5000, K: 5}, BigSpec{LN: 4000, RN: 3000, K: 16}, BigSpec{LN: 3000, RN: 3000, K: 2}, BigSpec{LN: 700, RN: 700, K: 3},
			BigSpec{LN: 6000, K: 3, Mode: 1}, BigSpec{LN: 8000, RN: 8000, K: 4}, BigSpec{LN: 257, RN: 256, K: 1}, BigSpec{LN: 20000, RN: 300, K: 7})
	}
	return out
}

func TestC13Exhaustive(t *testing.T) {
	h := vk.Start(t, "C13", "exh")
	all := seqs([]string{"a", "b", "c"}, h.Pick(5, 6))
	n := len(all)
	nw := vk.Workers(n * n)
	tallies := make([]*vk.Tally, nw)
	type slotT = interface {
		Enter(any)
		Leave()
	}
	slots := make([]slotT, nw)
	for i := range tallies {
		tallies[i] = vk.NewTally()
		slots[i] = h.Slot()
	}
	vk.Parallel(h, n*n, func(w, idx int) {
		l, r := all[idx/n], all[idx%n]
		for _, c := range exhCases(l, r, idx, n, h.Thorough()) {
			cn := c.N
			o := &vk.Obs{}
			slots[w].Enter(c)
			msg := vk.Guard(func() string { return runC13(c, o) })
			slots[w].Leave()
			if msg != "" {
				h.Fail(c, msg)
				return
			}
			tallies[w].AddObs(o)
			if idx%20011 == 17 && cn == 2 && len(c.Mid) == 0 {
				h.Sample(c, o.NT)
			}
		}
	})
	for _, tl := range tallies {
		h.MergeTally(tl)
	}
	// directed: long inputs over few different lines, so that the number of
	// pairs of equal lines passes 2^12 ... 2^20 (thorough: 2^24)
	bigSlot := h.Slot()
	for i, b := range bigSpecs(h.Thorough()) {
		if h.Failed() {
			break
		}
		b.Seed = h.Mix(fmt.Sprint("big", i))
		c := DiffCase{Big: &b, N: []int{3, 0, math.MaxInt, 1}[i%4]}
		if b.LN*b.RN > 4_000_000 {
			c.N = 3
		}
		vk.One(h, bigSlot, c, runC13)
	}
	h.Exhaustive()
	if h.Failed() {
		t.Fatalf("VK-VIOLATION property=C13 leg=exh (see replay)")
	}
}

// genLines draws a pair of line lists that share long common runs with point
// mutations, over a small alphabet so that lines repeat.
func genPair(t *rapid.T, alphabet []string, maxLen int) ([]string, []string) {
	if maxLen >= 40 && rapid.IntRange(0, 3).Draw(t, "nearIdentical") == 0 {
		// the everyday case: two long, nearly identical files (1-3 point edits),
		// with runs of identical lines around the edits
		n := rapid.IntRange(30, maxLen+30).Draw(t, "niLen")
		l := make([]string, 0, n)
		for len(l) < n {
			s := rapid.SampledFrom(alphabet).Draw(t, "niLine")
			for k := rapid.IntRange(1, 4).Draw(t, "niRun"); k > 0 && len(l) < n; k-- {
				l = append(l, s)
			}
		}
		r := append([]string(nil), l...)
		for e := rapid.IntRange(1, 3).Draw(t, "niEdits"); e > 0 && len(r) > 0; e-- {
			i := rapid.IntRange(0, len(r)-1).Draw(t, "niPos")
			switch rapid.IntRange(0, 2).Draw(t, "niKind") {
			case 0:
				r = append(r[:i], r[i+1:]...)
			case 1:
				r = append(r[:i], append([]string{rapid.SampledFrom(alphabet).Draw(t, "niIns")}, r[i:]...)...)
			default:
				r[i] = rapid.SampledFrom(alphabet).Draw(t, "niRep")
			}
		}
		if rapid.Bool().Draw(t, "niSwap") {
			l, r = r, l
		}
		return l, r
	}
	base := rapid.SliceOfN(rapid.SampledFrom(alphabet), 0, maxLen).Draw(t, "base")
	mutate := func(label string) []string {
		var out []string
		for _, s := range base {
			switch rapid.IntRange(0, 9).Draw(t, label) {
			case 0: // delete
			case 1: // replace
				out = append(out, rapid.SampledFrom(alphabet).Draw(t, label+"r"))
			case 2: // insert before
				out = append(out, rapid.SampledFrom(alphabet).Draw(t, label+"i"), s)
			default:
				out = append(out, s)
			}
		}
		if rapid.IntRange(0, 4).Draw(t, label+"tail") == 0 {
			out = append(out, rapid.SampledFrom(alphabet).Draw(t, label+"t"))
		}
		return out
	}
	return mutate("ml"), mutate("mr")
}

// collisionAlphabet: pairs of different lines of equal length with equal
// 32-bit FNV-1a, FNV-1 and Adler-32 checksums (found by search), for code that
// compares lines through a checksum.  prefixAlphabet: lines that are prefixes
// of one another (white space trimmed, a CR stripped, a column cut).
var (
	collisionAlphabet = []string{"yvivst", "csbxun", "mtbupt", "uiukfp", "yygpht", "ryxbtl", "vlfqzo", "iqoyrh"}
	prefixAlphabet    = []string{"abc  ", "abc", "abc ", "ab", "x\r", "x", ""}
)

var (
	fmtSteps = []Step{{Op: "normal"}, {Op: "unified"}, {Op: "context"}, {Op: "context"}, {Op: "unified", N: 1}, {Op: "context", N: 1}}
	anyStep  = rapid.Custom(func(t *rapid.T) Step {
		switch rapid.IntRange(0, 5).Draw(t, "stepKind") {
		case 0, 1:
			return Step{Op: "ctx", N: rapid.SampledFrom([]int{0, 1, 1, 2, 3, 5, 50, -1, math.MaxInt}).Draw(t, "stepN")}
		case 2:
			return Step{Op: "unify"}
		}
		return rapid.SampledFrom(fmtSteps).Draw(t, "stepFmt")
	})
)

// genSteps draws the further steps of the pipeline (see DiffCase.Pre): half of
// the cases are the plain New.AddContext(N).Unify().
func genSteps(t *rapid.T, c *DiffCase) {
	switch rapid.IntRange(0, 9).Draw(t, "pipeline") {
	case 5, 6:
		// context added in two or three instalments: a small one first, so that
		// neighbouring chunks do not meet yet, then one that closes the gaps
		c.N = rapid.SampledFrom([]int{1, 1, 2, 3}).Draw(t, "n1")
		if rapid.IntRange(0, 3).Draw(t, "unifyBetween") == 0 {
			c.Mid = append(c.Mid, Step{Op: "unify"})
		}
		c.Mid = append(c.Mid, Step{Op: "ctx", N: rapid.SampledFrom([]int{1, 2, 2, 3, 5, 8, 50, math.MaxInt}).Draw(t, "n2")})
		if rapid.IntRange(0, 3).Draw(t, "third") == 0 {
			c.Mid = append(c.Mid, Step{Op: "ctx", N: rapid.SampledFrom([]int{1, 2, 5, 50}).Draw(t, "n3")})
		}
	case 7, 8:
		// the diff is rendered between the stages, most often while it still
		// has no context (empty ranges)
		c.Pre = append(c.Pre, rapid.SampledFrom(fmtSteps).Draw(t, "fmtPre"))
		if rapid.Bool().Draw(t, "fmtMid?") {
			c.Mid = append(c.Mid, rapid.SampledFrom(fmtSteps).Draw(t, "fmtMid"))
		}
		if rapid.Bool().Draw(t, "fmtPost?") {
			c.Post = append(c.Post, rapid.SampledFrom(fmtSteps).Draw(t, "fmtPost"))
		}
	case 9:
		c.Pre = rapid.SliceOfN(anyStep, 0, 3).Draw(t, "pre")
		c.Mid = rapid.SliceOfN(anyStep, 0, 3).Draw(t, "mid")
		c.Post = rapid.SliceOfN(anyStep, 0, 3).Draw(t, "post")
	}
}

func TestC13Rand(t *testing.T) {
	h := vk.Start(t, "C13", "rand")
	vk.Rapid(h, t, func(t *rapid.T) DiffCase {
		if vk.Rare(t, "big", h.Pick(150, 100)) {
			// long inputs over few different lines: very many pairs of equal lines
			b := &BigSpec{LN: rapid.IntRange(257, 900).Draw(t, "bigL"), RN: rapid.IntRange(257, 900).Draw(t, "bigR"), K: rapid.IntRange(3, 12).Draw(t, "bigK"),
				Seed: rapid.Uint64().Draw(t, "bigSeed"), Mode: rapid.SampledFrom([]int{0, 0, 1}).Draw(t, "bigMode")}
			return DiffCase{Big: b, N: rapid.SampledFrom([]int{0, 1, 3, 50, math.MaxInt}).Draw(t, "n")}
		}
		alpha := rapid.SampledFrom([][]string{{"a", "b"}, {"a", "b", "c"}, {"a", "b", "c", "d", ""}, collisionAlphabet, prefixAlphabet}).Draw(t, "alpha")
		l, r := genPair(t, alpha, rapid.SampledFrom([]int{40, 40, 100}).Draw(t, "maxLen"))
		lay := rapid.SampledFrom([]int{0, 0, 0, 1, 2, 3}).Draw(t, "layout")
		if (lay == 1 || lay == 2) && len(l) > 0 {
			// a truncated copy: one input is a prefix / suffix of the other
			k := rapid.IntRange(0, len(l)).Draw(t, "cut")
			if lay == 1 {
				r = l[:k:k]
			} else {
				r = l[k:]
			}
			if rapid.Bool().Draw(t, "cutSwap") {
				l, r = r, l
			}
		}
		again := 0
		if rapid.IntRange(0, 3).Draw(t, "againP") == 0 {
			again = rapid.IntRange(1, 3).Draw(t, "again")
		}
		c := DiffCase{L: l, R: r, Lay: lay, Again: again, Share: rapid.IntRange(0, 2).Draw(t, "share") == 0, N: rapid.SampledFrom([]int{0, 1, 1, 2, 2, 3, 3, 5, 8, 50, -1, math.MaxInt, math.MaxInt - 2}).Draw(t, "n")}
		genSteps(t, &c)
		return c
	}, runC13)
}

func TestReplay(t *testing.T) { vk.ReplayMain(t) }
