package pmdiff

import (
	"testing"

	"pgregory.net/rapid"
	"verif/vk"
)

// seqs enumerates every sequence over alphabet up to maxLen, in size order.
func seqs(alphabet []string, maxLen int) [][]string {
	out := [][]string{nil}
	prev := [][]string{nil}
	for l := 1; l <= maxLen; l++ {
		var cur [][]string
		for _, p := range prev {
			for _, a := range alphabet {
				s := append(append(make([]string, 0, l), p...), a)
				cur = append(cur, s)
			}
		}
		out = append(out, cur...)
		prev = cur
	}
	return out
}

var ctxSizes = []int{0, 1, 2, 3, 4, 50}

func init() {
	vk.Register("C13", "exh", runC13)
	vk.Register("C13", "rand", runC13)
}

func TestC13Exhaustive(t *testing.T) {
	h := vk.Start(t, "C13", "exh")
	all := seqs([]string{"a", "b", "c"}, h.Pick(5, 6))
	n := len(all)
	nw := vk.Workers(n * n)
	tallies := make([]*vk.Tally, nw)
	type slotT = interface {
		Enter(any)
		Leave()
	}
	slots := make([]slotT, nw)
	for i := range tallies {
		tallies[i] = vk.NewTally()
		slots[i] = h.Slot()
	}
	vk.Parallel(h, n*n, func(w, idx int) {
		l, r := all[idx/n], all[idx%n]
		for _, cn := range ctxSizes {
			c := DiffCase{L: l, R: r, N: cn}
			o := &vk.Obs{}
			slots[w].Enter(c)
			msg := vk.Guard(func() string { return runC13(c, o) })
			slots[w].Leave()
			if msg != "" {
				h.Fail(c, msg)
				return
			}
			tallies[w].AddObs(o)
			if idx%20011 == 17 && cn == 2 {
				h.Sample(c, o.NT)
			}
		}
	})
	for _, tl := range tallies {
		h.MergeTally(tl)
	}
	h.Exhaustive()
	if h.Failed() {
		t.Fatalf("VK-VIOLATION property=C13 leg=exh (see replay)")
	}
}

// genLines draws a pair of line lists that share long common runs with point
// mutations, over a small alphabet so that lines repeat.
func genPair(t *rapid.T, alphabet []string, maxLen int) ([]string, []string) {
	base := rapid.SliceOfN(rapid.SampledFrom(alphabet), 0, maxLen).Draw(t, "base")
	mutate := func(label string) []string {
		var out []string
		for _, s := range base {
			switch rapid.IntRange(0, 9).Draw(t, label) {
			case 0: // delete
			case 1: // replace
				out = append(out, rapid.SampledFrom(alphabet).Draw(t, label+"r"))
			case 2: // insert before
				out = append(out, rapid.SampledFrom(alphabet).Draw(t, label+"i"), s)
			default:
				out = append(out, s)
			}
		}
		if rapid.IntRange(0, 4).Draw(t, label+"tail") == 0 {
			out = append(out, rapid.SampledFrom(alphabet).Draw(t, label+"t"))
		}
		return out
	}
	return mutate("ml"), mutate("mr")
}

func TestC13Rand(t *testing.T) {
	h := vk.Start(t, "C13", "rand")
	vk.Rapid(h, t, func(t *rapid.T) DiffCase {
		alpha := rapid.SampledFrom([][]string{{"a", "b"}, {"a", "b", "c"}, {"a", "b", "c", "d", ""}}).Draw(t, "alpha")
		l, r := genPair(t, alpha, 40)
		return DiffCase{L: l, R: r, N: rapid.SampledFrom([]int{0, 1, 1, 2, 2, 3, 3, 5, 8, 50, -1}).Draw(t, "n")}
	}, runC13)
}

func TestReplay(t *testing.T) { vk.ReplayMain(t) }
