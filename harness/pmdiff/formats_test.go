package pmdiff

import (
	"testing"
	"time"

	"github.com/creachadair/mds/mdiff"

	"pgregory.net/rapid"
	"verif/vk"
)

// hostileAlphabet: lines that look like diff syntax.
var hostileAlphabet = []string{"", "a", "b", "-x", "+y", " z", "-- q", "++ q", "- x", "-", "+", " ", "@ -1 +1 @@", "iff --git a/x b/x", "<", "> b", "< a", "---", "--- q", "+++ q",
	"@@ -1 +1 @@", "diff x", "***", "*** 1,2 ****", "***************", "1a2", "2,3c4", "\\", "\\ No newline at end of file", "! w", "- v", "+ u", "  t",
	// lines that, behind their one-byte marker, ARE a separator or header of some format ("-- " is the mail signature separator)
	"- ", "+ ", "-- ", "++ ", "--", "++", "-- \t", "> ", "< ", "! ", "* ", "\\ ", "--- ", "+++ ", "@@", "@@ ", "-@@ -1 +1 @@", "+@@ -1 +1 @@", "-- a/x", "++ b/x", "iff", "--git",
	// no newline inside, but bytes that line-trimming or text-mode handling would eat
	"b\r", "\r", "a\r\r", "\tq", "q\t", "q ", "\x00", "\xff\xfe", "\u2028", "\v", "q\f", "\u0085", "\u00a0", "a\rb"}

// quotedNames: file names that are, in full or in part, quoted literals of
// some language (the formatters write names as they are, so the readers must
// return them as they are).
var quotedNames = []string{"\"new notes\"", "`x`", "'a'", "\"a\\tb\"", "\"\"", "``", "''", "say \"hi\"", "\"old notes\".txt", "'\\n'", "\"\\u00e9\"",
	"\"a", "a\"", "\"a\"b\"", "'ab'", "\"\\x41\"", "\"\\101\"", "\"a\\\\b\"", "`a\\nb`", "\"é\"", "\"a b\" ", " \"a b\""}

var genQuoted = rapid.Custom(func(t *rapid.T) string {
	q := rapid.SampledFrom([]string{"\"", "\"", "`", "'"}).Draw(t, "quote")
	return q + rapid.StringMatching(`[a-z \\tnux0-9é]{0,6}`).Draw(t, "inner") + q
})

// timeLayouts: layouts a caller may put into FileInfo.TimeFormat (any layout
// time.Format accepts; no newline).  Some contain a tab or blanks, one is the
// default layout spelled out, some render to text the default layout can read.
var timeLayouts = []string{time.RFC3339, time.RFC3339Nano, time.Kitchen, "2006-01-02", time.UnixDate, time.ANSIC, time.RFC1123Z, time.RFC822, time.StampMicro, time.DateTime,
	mdiff.TimeFormat, "2006-01-02 15:04:05 -0700", "2006-01-02 15:04:05.000000 -0700", "2006-01-02T15:04:05", "15:04", "Jan _2", "02/01/06 15h04", "2006-01-02\t15:04:05", "\t2006", "2006\t",
	" ", "x", "at 3PM", "-0700", "MST", "2006-01-02 15:04:05.999999 -0700 MST", "2006-01-02 15:04:05.999999999 -0700", "--- 2006", "+++ b\t2006", "@@ -1 +1 @@", "1136239445"}

var genTFmt = rapid.Custom(func(t *rapid.T) string {
	if rapid.IntRange(0, 2).Draw(t, "customLayout") != 0 {
		return ""
	}
	return rapid.SampledFrom(timeLayouts).Draw(t, "layout")
})

var genFI = rapid.Custom(func(t *rapid.T) *FI {
	if rapid.IntRange(0, 3).Draw(t, "nofi") == 0 {
		return nil
	}
	name := rapid.OneOf(rapid.StringMatching(`[a-zA-Z0-9_./ -]{1,12}`),
		rapid.StringMatching(`[a-z%@+\\"'#:*?!~$&()é-]{1,8}`),
		rapid.SampledFrom([]string{"100%.txt", "%s", "%d%%", "a%!b", "@@ -1 +1 @@", "--- x", "+++", "a b c", "ü/ñ.go", "\\n", "x\ty"[:1]}),
		rapid.SampledFrom(quotedNames), genQuoted, rapid.Just(""))
	tm := func(label string) (int64, int, int) {
		if rapid.IntRange(0, 3).Draw(t, label+"zero") == 0 {
			return -1, 0, 0
		}
		return rapid.Int64Range(0, 4_000_000_000).Draw(t, label+"sec"),
			rapid.OneOf(rapid.Just(0), rapid.IntRange(0, 999999), rapid.SampledFrom([]int{1, 10, 100000, 999999, 500000})).Draw(t, label+"us"),
			rapid.OneOf(rapid.Just(0), rapid.IntRange(-14*60, 14*60)).Draw(t, label+"zone")
	}
	f := &FI{Left: name.Draw(t, "lname"), Right: name.Draw(t, "rname")}
	f.LSec, f.LMicro, f.LZone = tm("l")
	f.RSec, f.RMicro, f.RZone = tm("r")
	f.TFmt = genTFmt.Draw(t, "tfmt")
	return f
})

// gitHeadNames: how git and its users spell the two sides of a file section.
var gitHeadNames = []string{"/dev/null", "/dev/null", "/dev/null", "a/dev/null", "b/dev/null", "dev/null", "/dev/null ", " /dev/null", "/dev/nul", "/dev/null/x", "/dev/zero", "//dev/null", "/DEV/NULL", "a//dev/null",
	"NUL", "nul", "null", "/", "-", "a", "b", "a/", "b/", "a/x", "b/x", "x", "a/a", "b/b", "a/b/c", "b/a/x", "a/my file", "b/my file", "a/ b", "\"a/x y\"", "\"b/t\\tq\"", "a/é", "c/x", "i/x", "w/x", "./x", "../x", "a/x.orig"}

// genGitHead draws the header of one file section: in half of the sections
// the usual a/<name> b/<name>, otherwise names from gitHeadNames on either
// side or on both; now and then a tab after a name, or timestamps.
var genGitHead = rapid.Custom(func(t *rapid.T) GitHead {
	h := GitHead{FI: FI{LSec: -1, RSec: -1}}
	side := rapid.IntRange(0, 5).Draw(t, "headSides") // 0-2: none
	if side == 3 || side == 5 {
		h.FI.Left = rapid.SampledFrom(gitHeadNames).Draw(t, "headL")
	}
	if side == 4 || side == 5 {
		h.FI.Right = rapid.SampledFrom(gitHeadNames).Draw(t, "headR")
	}
	if rapid.IntRange(0, 3).Draw(t, "headTab?") == 0 {
		h.Tab = rapid.IntRange(1, 3).Draw(t, "headTab")
	}
	if rapid.IntRange(0, 5).Draw(t, "headTime?") == 0 {
		if rapid.Bool().Draw(t, "headTimeL") {
			h.FI.LSec, h.FI.LZone = rapid.Int64Range(1, 4_000_000_000).Draw(t, "hlsec"), rapid.SampledFrom([]int{0, 0, 60, -330}).Draw(t, "hlzone")
		}
		if rapid.Bool().Draw(t, "headTimeR") {
			h.FI.RSec, h.FI.RMicro = rapid.Int64Range(1, 4_000_000_000).Draw(t, "hrsec"), rapid.SampledFrom([]int{0, 0, 120000, 999999}).Draw(t, "hrus")
		}
		h.FI.TFmt = genTFmt.Draw(t, "headTFmt")
	}
	return h
})

func genFmtCase(t *rapid.T) FmtCase {
	var alpha []string
	if rapid.Bool().Draw(t, "hostile") {
		k := rapid.IntRange(2, 5).Draw(t, "k")
		alpha = rapid.SliceOfNDistinct(rapid.SampledFrom(hostileAlphabet), k, k, rapid.ID[string]).Draw(t, "alpha")
	} else {
		alpha = []string{"a", "b", "", "-x"}
	}
	l, r := genPair(t, alpha, rapid.SampledFrom([]int{14, 14, 14, 60}).Draw(t, "maxLen"))
	if rapid.IntRange(0, 11).Draw(t, "long") == 0 && len(l)+len(r) > 0 {
		// a line longer than bufio's 4096-byte buffer, somewhere in either input
		ll := rapid.SampledFrom([]string{"<<L4094x>>", "<<L4095x>>", "<<L4096y>>", "<<L4097x>>", "<<L8192z>>", "<<L5000->>", "<<L300 >>"}).Draw(t, "longLine")
		if len(l) > 0 && (len(r) == 0 || rapid.Bool().Draw(t, "longLeft")) {
			l[rapid.IntRange(0, len(l)-1).Draw(t, "longPosL")] = ll
		}
		if len(r) > 0 && rapid.Bool().Draw(t, "longRight") {
			r[rapid.IntRange(0, len(r)-1).Draw(t, "longPosR")] = ll
		}
	}
	c := FmtCase{L: l, R: r, N: rapid.SampledFrom([]int{-1, 0, 0, 1, 1, 2, 3, 3}).Draw(t, "n"), FI: genFI.Draw(t, "fi")}
	c.Poison = genPoison(t)
	return c
}

// genPoison: two cases in five parse malformed text before each real parse.
func genPoison(t *rapid.T) int {
	if rapid.IntRange(0, 4).Draw(t, "poison?") < 3 {
		return 0
	}
	return 1 + rapid.IntRange(0, poisonKinds-1).Draw(t, "poisonKind") + poisonKinds*rapid.IntRange(0, len(strays)-1).Draw(t, "stray")
}

func init() {
	vk.Register("C14", "exh", runC14)
	vk.Register("C14", "rand", runC14)
	vk.Register("C14", "git", runGit)
}

func TestC14Rand(t *testing.T) {
	h := vk.Start(t, "C14", "rand")
	vk.Rapid(h, t, genFmtCase, runC14)
}

func TestC14Git(t *testing.T) {
	h := vk.Start(t, "C14", "git")
	vk.Rapid(h, t, func(t *rapid.T) GitCase {
		g := GitCase{Extra: rapid.IntRange(0, 3).Draw(t, "extra"), HunkCtx: rapid.Bool().Draw(t, "hunkctx")}
		n := rapid.IntRange(1, 4).Draw(t, "nfiles")
		for i := 0; i < n; i++ {
			fc := genFmtCase(t)
			fc.FI = nil
			fc.Poison = 0
			g.Files = append(g.Files, fc)
		}
		g.Names = rapid.SliceOfN(rapid.StringMatching(`[a-z0-9_./-]{1,10}`), 1, 4).Draw(t, "names")
		g.Poison = genPoison(t)
		if rapid.IntRange(0, 2).Draw(t, "heads?") != 0 {
			g.Heads = rapid.SliceOfN(genGitHead, 1, n).Draw(t, "heads")
			for i := range g.Files {
				// a created (deleted) file has no lines on the /dev/null side
				h := g.Heads[i%len(g.Heads)]
				if h.FI.Left == "/dev/null" && len(g.Files[i].R) > 0 && rapid.Bool().Draw(t, "created") {
					g.Files[i].L = nil
				} else if h.FI.Right == "/dev/null" && len(g.Files[i].L) > 0 && rapid.Bool().Draw(t, "deleted") {
					g.Files[i].R = nil
				}
			}
		}
		return g
	}, runGit)
}

func TestC14Exhaustive(t *testing.T) {
	h := vk.Start(t, "C14", "exh")
	all := seqs([]string{"a", "b", "c"}, h.Pick(4, 5))
	n := len(all)
	nw := vk.Workers(n * n)
	tallies := make([]*vk.Tally, nw)
	type slotT = interface {
		Enter(any)
		Leave()
	}
	slots := make([]slotT, nw)
	for i := range tallies {
		tallies[i] = vk.NewTally()
		slots[i] = h.Slot()
	}
	fi := &FI{Left: "old name", Right: "new", LSec: 1234567890, LMicro: 120000, LZone: -330, RSec: -1}
	fiQ := &FI{Left: "\"old name\"", Right: "`new`", LSec: 1234567890, LMicro: 120000, LZone: -330, RSec: -1}
	// the caller's own time layouts (every 8th pair, the layouts in turn)
	fiT := make([]*FI, len(timeLayouts))
	for i, tf := range timeLayouts {
		fiT[i] = &FI{Left: "old name", Right: "new", LSec: 1234567890, LMicro: 120000, LZone: -330, RSec: 1709287200 + int64(i), TFmt: tf}
		if i%3 == 1 {
			fiT[i].LSec = -1
		} else if i%3 == 2 {
			fiT[i].RSec = -1
		}
	}
	vk.Parallel(h, n*n, func(w, idx int) {
		l, r := all[idx/n], all[idx%n]
		for ci, cn := range []int{-1, 0, 1, 2, 3} {
			c := FmtCase{L: l, R: r, N: cn}
			if idx%4 == 1 {
				c.FI = fi
			} else if idx%4 == 3 {
				c.FI = fiQ
			} else if idx%8 == 2 {
				c.FI = fiT[(idx/8+ci)%len(fiT)]
			}
			if (idx+ci)%3 == 0 {
				c.Poison = 1 + (idx/3+ci*11)%(poisonKinds*len(strays))
			}
			o := &vk.Obs{}
			slots[w].Enter(c)
			msg := vk.Guard(func() string { return runC14(c, o) })
			slots[w].Leave()
			if msg != "" {
				h.Fail(c, msg)
				return
			}
			tallies[w].AddObs(o)
			for _, k := range o.KnownIDs() {
				tallies[w].Classes["known_finding_"+k]++
			}
			if idx%3001 == 7 && cn == 1 {
				h.Sample(c, o.NT)
			}
		}
	})
	var f5 int64
	for _, tl := range tallies {
		f5 += tl.Classes["known_finding_F5"]
		delete(tl.Classes, "known_finding_F5")
		h.MergeTally(tl)
	}
	if f5 > 0 {
		h.KnownHit("F5", f5)
	}
	h.Exhaustive()
	if h.Failed() {
		t.Fatalf("VK-VIOLATION property=C14 leg=exh (see replay)")
	}
}
