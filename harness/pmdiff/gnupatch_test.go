package pmdiff

import (
	"bytes"
	"fmt"
	"io"
	"os"
	"os/exec"
	"path/filepath"
	"slices"
	"strings"
	"testing"

	"github.com/creachadair/mds/mdiff"
	"pgregory.net/rapid"
	"verif/vk"
)

// GNU patch differential (oracle O3): the renderings are applied by
// /usr/bin/patch --fuzz=0; any offset, fuzz, reject or differing result fails.

func fileText(lines []string) []byte {
	if len(lines) == 0 {
		return nil
	}
	return []byte(strings.Join(lines, "\n") + "\n")
}

type patchFmt struct {
	name, flag string
	ff         mdiff.FormatFunc
}

var patchFmts = []patchFmt{{"Unified", "-u", mdiff.Unified}, {"Context", "-c", mdiff.Context}, {"Normal", "-n", mdiff.Normal}}

// runPatchBatch applies one format's renderings of cases[lo:hi] in a single
// patch invocation; it returns the indices whose result is wrong and the
// tool's output.
func runPatchBatch(dir string, pf patchFmt, in []FmtCase) (bad []int, out string, err error) {
	cases := make([]FmtCase, len(in)) // long lines are symbolic in cases: expand them
	for i, c := range in {
		c.L, c.R = expandLines(c.L), expandLines(c.R)
		// GNU patch guesses "CRLF text" from carriage returns and then strips
		// them; that heuristic is the tool's, not the formats'.  The tool is
		// only asked about CR-free text (CR is covered by the reference appliers).
		for _, ls := range [][]string{c.L, c.R} {
			for j := range ls {
				ls[j] = strings.ReplaceAll(ls[j], "\r", "^M")
			}
		}
		cases[i] = c
	}
	os.RemoveAll(dir)
	if err := os.MkdirAll(dir, 0o755); err != nil {
		return nil, "", err
	}
	var patch bytes.Buffer
	applied := map[int]bool{}
	for i, c := range cases {
		name := fmt.Sprintf("f%d", i)
		if err := os.WriteFile(filepath.Join(dir, name), fileText(c.L), 0o644); err != nil {
			return nil, "", err
		}
		d := c.diff()
		if len(d.Chunks) == 0 {
			continue
		}
		applied[i] = true
		if pf.name == "Normal" {
			fmt.Fprintf(&patch, "Index: %s\n", name)
			pf.ff(&patch, d.Chunks, nil)
		} else {
			pf.ff(&patch, d.Chunks, &mdiff.FileInfo{Left: name, Right: name})
		}
	}
	pfile := filepath.Join(dir, "all.patch")
	if err := os.WriteFile(pfile, patch.Bytes(), 0o644); err != nil {
		return nil, "", err
	}
	if patch.Len() > 0 {
		cmd := exec.Command("patch", "-d", dir, "-p0", pf.flag, "--fuzz=0", "--no-backup-if-mismatch", "-i", pfile)
		cmd.Env = append(os.Environ(), "LC_ALL=C", "POSIXLY_CORRECT=")
		b, _ := cmd.CombinedOutput()
		out = string(b)
	}
	noisy := strings.Contains(out, "offset") || strings.Contains(out, "fuzz") || strings.Contains(out, "FAILED") || strings.Contains(out, "malformed") || strings.Contains(out, "Only garbage") || strings.Contains(out, "can't find file")
	for i, c := range cases {
		got, rerr := os.ReadFile(filepath.Join(dir, fmt.Sprintf("f%d", i)))
		if rerr != nil && !os.IsNotExist(rerr) {
			return nil, out, rerr
		}
		want := fileText(c.R)
		if !applied[i] {
			want = fileText(c.L)
		}
		if !bytes.Equal(got, want) {
			bad = append(bad, i)
		}
	}
	if noisy && len(bad) == 0 {
		// localise: every applied case is suspect
		for i := range cases {
			if applied[i] {
				bad = append(bad, i)
			}
		}
	}
	return bad, out, nil
}

// PatchCase is the replay form: one case and one format.
type PatchCase struct {
	FmtCase
	Format string `json:"format"`
}

var patchScratch = func() string { return filepath.Join(os.TempDir(), fmt.Sprintf("vk-gnupatch-%d", os.Getpid())) }

func runPatchOne(pc PatchCase, o *vk.Obs) string {
	if _, err := exec.LookPath("patch"); err != nil {
		return "" // tool absent: nothing to decide
	}
	dir := patchScratch()
	defer os.RemoveAll(dir)
	for _, pf := range patchFmts {
		if pf.name != pc.Format {
			continue
		}
		bad, out, err := runPatchBatch(dir, pf, []FmtCase{pc.FmtCase})
		if err != nil {
			return "VK-INFRA " + err.Error()
		}
		if len(bad) > 0 {
			got, _ := os.ReadFile(filepath.Join(dir, "f0"))
			var buf bytes.Buffer
			pf.ff(&buf, pc.diff().Chunks, &mdiff.FileInfo{Left: "f0", Right: "f0"})
			return fmt.Sprintf("%s: GNU patch --fuzz=0 applied to Left with the %s rendering gives %s, want Right %s; patch said: %q\nrendering:\n%.3000s",
				pc.FmtCase, pf.name, showLines(strings.Split(strings.TrimSuffix(string(got), "\n"), "\n")), showLines(expandLines(pc.R)), out, buf.String())
		}
	}
	return ""
}

func init() { vk.Register("C14", "gnupatch", runPatchOne) }

func TestC14GnuPatch(t *testing.T) {
	h := vk.Start(t, "C14", "gnupatch")
	if _, err := exec.LookPath("patch"); err != nil {
		h.Note("GNU patch not found: differential oracle O3 skipped")
		h.Count("skipped_no_patch_tool", 1)
		return
	}
	// cases: a deterministic sample of the exhaustive space + generated hostile cases
	var cases []FmtCase
	all := seqs([]string{"a", "b", "c"}, 4)
	rng := h.RNG("gnupatch")
	nExh, nRand := h.Pick(400, 10000), h.Pick(400, 10000)
	for i := 0; i < nExh; i++ {
		cases = append(cases, FmtCase{L: all[rng.Intn(len(all))], R: all[rng.Intn(len(all))], N: []int{-1, 0, 1, 2, 3}[rng.Intn(5)]})
	}
	base := int(h.Mix("gen") % (1 << 30))
	gen := rapid.Custom(genFmtCase)
	for i := 0; i < nRand; i++ {
		c := gen.Example(base + i)
		c.FI, c.Poison = nil, 0
		cases = append(cases, c)
	}
	dir := filepath.Join(h.OutDir, "patchwork")
	defer os.RemoveAll(dir)
	// Self-test of the external oracle: a rendering whose line numbers are
	// shifted by one must be reported (wrong result, offset or reject).
	{
		probe := []FmtCase{{L: []string{"a", "b", "c", "d", "e", "f"}, R: []string{"a", "b", "X", "c", "d", "e", "f"}, N: -1}}
		shifted := patchFmt{"Unified", "-u", func(w io.Writer, cs []*mdiff.Chunk, fi *mdiff.FileInfo) error {
			var cc []*mdiff.Chunk
			for _, c := range cs {
				x := *c
				x.LStart, x.LEnd, x.RStart, x.REnd = x.LStart+1, x.LEnd+1, x.RStart+1, x.REnd+1
				cc = append(cc, &x)
			}
			return mdiff.Unified(w, cc, fi)
		}}
		if bad, out, err := runPatchBatch(dir, shifted, probe); err != nil || len(bad) != 1 {
			t.Fatalf("VK-INFRA GNU patch oracle self-test failed: a shifted hunk was not reported (bad=%v err=%v output %q)", bad, err, out)
		}
		if bad, out, err := runPatchBatch(dir, patchFmts[0], probe); err != nil || len(bad) != 0 {
			t.Fatalf("VK-INFRA GNU patch oracle self-test failed: a correct hunk was reported (bad=%v err=%v output %q)", bad, err, out)
		}
	}
	tl := vk.NewTally()
	const batch = 200
	for lo := 0; lo < len(cases) && !h.Failed(); lo += batch {
		hi := min(lo+batch, len(cases))
		for _, pf := range patchFmts {
			bad, out, err := runPatchBatch(dir, pf, cases[lo:hi])
			if err != nil {
				t.Fatalf("VK-INFRA %v", err)
			}
			for _, bi := range bad {
				// re-run alone to localise (a malformed section can disturb its neighbours)
				pc := PatchCase{FmtCase: cases[lo+bi], Format: pf.name}
				if msg := runPatchOne(pc, &vk.Obs{}); msg != "" {
					p := h.Fail(pc, msg)
					t.Fatalf("VK-VIOLATION property=C14 leg=gnupatch replay=%s\n%s\n(batch output: %q)", p, msg, out)
				}
			}
			tl.Classes["patch_invocations_"+pf.name]++
		}
		for _, c := range cases[lo:hi] {
			o := &vk.Obs{}
			var st fmtStats
			classifyFmt(c.diff().Chunks, c.L, c.R, &st, o)
			o.NT = o.NT && len(c.diff().Chunks) > 0
			tl.AddObs(o)
			tl.Evals += 2 // three formats per case
		}
	}
	// NT is counted per case (distinct cases by construction of the sample are not guaranteed: report hashed)
	seen := map[string]bool{}
	var nt int64
	for _, c := range cases {
		k := fmt.Sprint(c.L, "|", c.R, "|", c.N)
		o := &vk.Obs{}
		var st fmtStats
		classifyFmt(c.diff().Chunks, c.L, c.R, &st, o)
		if o.NT && !seen[k] {
			seen[k] = true
			nt++
		}
	}
	tl.NT = nt
	delete(tl.Classes, "nontrivial")
	h.MergeTally(tl)
	for i := 0; i < len(cases); i += len(cases)/3 + 1 {
		h.Sample(PatchCase{FmtCase: cases[i], Format: "Unified"}, true)
	}
	_ = slices.Equal[[]string]
}
