package pmdiff

import (
	"testing"

	"verif/vk"
)

// FuzzUnifiedRoundTrip decodes the bytes into two line lists over the hostile
// alphabet and a context size, and runs the C13 and C14 oracles on them.
func FuzzUnifiedRoundTrip(f *testing.F) {
	f.Add([]byte{1, 1, 2, 3, 0xff, 1, 3, 3})
	f.Add([]byte{0, 0xff, 5})
	f.Add([]byte{3, 6, 6, 7, 1, 0xff, 6, 7, 7, 1, 1})
	f.Add([]byte{2, 10, 11, 12, 0xff, 12, 11, 10})
	f.Fuzz(func(t *testing.T, data []byte) {
		if len(data) == 0 {
			return
		}
		if len(data) > 48 {
			data = data[:48]
		}
		n := int(data[0]%6) - 1
		var l, r []string
		cur := &l
		for _, b := range data[1:] {
			if b == 0xff {
				cur = &r
				continue
			}
			*cur = append(*cur, hostileAlphabet[int(b)%len(hostileAlphabet)])
		}
		vk.FuzzCheck(t, "C14", "rand", FmtCase{L: l, R: r, N: n}, runC14)
		vk.FuzzCheck(t, "C13", "rand", DiffCase{L: l, R: r, N: max(n, 0)}, runC13)
	})
}
