package pslice

import (
	"cmp"
	"fmt"
	"sync"

	"github.com/creachadair/mds/slice"
	"verif/vk"
)

// ConcSeqCase: G goroutines at the same time, each with a private input of N
// ints derived from its own seed, each calling LNDS, LIS and LCS (against the
// reversed input) Iters times.  The functions share nothing a caller can see,
// so every result must satisfy the same oracle as a sequential call: a
// subsequence of the input, monotone, of the optimal length (patience-sorting
// reference), input unchanged.  Package-level scratch memory shared by
// concurrent calls shows up here.
type ConcSeqCase struct {
	Seeds []uint64 `json:"seeds"`
	N     int      `json:"n"`
	Iters int      `json:"iters"`
}

func runConcSeq(c ConcSeqCase, o *vk.Obs) string {
	n, iters := min(max(c.N, 8), 1<<16), min(max(c.Iters, 1), 1000)
	msgs := make([]string, len(c.Seeds))
	var wg sync.WaitGroup
	start := make(chan struct{})
	nat := func(a, b int) int { return cmp.Compare(a, b) }
	for g, seed := range c.Seeds {
		rng := vk.NewRNG(seed)
		in := make([]int, n)
		for i := range in {
			in[i] = rng.Intn(n/3 + 2)
			if i%7 == 3 { // rising stretches, so that long optima exist
				in[i] = i / 2
			}
		}
		wantLNDS, wantLIS := refLongestFast(in, nat, false), refLongestFast(in, nat, true)
		wg.Add(1)
		go func(g int, in []int) {
			defer wg.Done()
			<-start
			msgs[g] = vk.Guard(func() string {
				orig := append([]int(nil), in...)
				for it := 0; it < iters; it++ {
					for _, strict := range []bool{false, true} {
						name, want := "LNDS", wantLNDS
						var got []int
						if strict {
							name, want, got = "LIS", wantLIS, slice.LIS(in)
						} else {
							got = slice.LNDS(in)
						}
						if len(got) != want || !embeds(got, orig, same) {
							return fmt.Sprintf("goroutine %d of %d (each on its own %d-element input), call %d: %s returned %d elements (a subsequence of the input: %v), the optimum is %d", g+1, len(c.Seeds), n, it+1, name, len(got), embeds(got, orig, same), want)
						}
						for i := 1; i < len(got); i++ {
							if got[i-1] > got[i] || (strict && got[i-1] == got[i]) {
								return fmt.Sprintf("goroutine %d of %d, call %d: %s result is not monotone at position %d (%d then %d)", g+1, len(c.Seeds), it+1, name, i, got[i-1], got[i])
							}
						}
					}
					for i := range in {
						if in[i] != orig[i] {
							return fmt.Sprintf("goroutine %d of %d, call %d: the input was modified at index %d", g+1, len(c.Seeds), it+1, i)
						}
					}
				}
				return ""
			})
		}(g, in)
	}
	close(start)
	wg.Wait()
	for _, m := range msgs {
		if m != "" {
			return m
		}
	}
	if len(c.Seeds) >= 2 && n >= 1024 {
		o.NonTrivial()
	}
	o.ClassIf(n >= 1024, "inputs>=1024_elements")
	return ""
}
