// Package pslice holds the checks for package slice: EditScript (C11), LCS /
// LIS / LNDS (C12) and the slice utilities Partition, Rotate, Chunks, Batches,
// Head, Tail, Stripe, At, PtrAt (C17).
//
// Every case is plain data (the concrete inputs); the check functions are
// pure: they build fresh slices from the case, call the code under test and
// compare with reference implementations written here independently of it.
package pslice

import (
	"cmp"
	"fmt"
	"math"
	"slices"
	"sort"

	"github.com/creachadair/mds/slice"
	"verif/vk"
)

// info is what one check observed about its case: the non-triviality verdict
// and a bit set of class labels (index into the property's label table).
type info struct {
	nt  bool
	cls uint32
}

func (in *info) set(bit int) { in.cls |= 1 << uint(bit) }
func (in *info) setIf(c bool, bit int) {
	if c {
		in.cls |= 1 << uint(bit)
	}
}

// obs transfers an info into the kit's observation record.
func (in info) obs(o *vk.Obs, names []string) {
	if in.nt {
		o.NonTrivial()
	}
	for b, n := range names {
		if in.cls&(1<<uint(b)) != 0 {
			o.Class(n)
		}
	}
}

func brief(v []int) string {
	if len(v) > 80 {
		return fmt.Sprintf("%v...(%d elements)", v[:80], len(v))
	}
	return fmt.Sprint(v)
}

// ---------------------------------------------------------------------------
// Reference implementations (independent of the code under test).

// lcsTable is the textbook O(mn) dynamic programme in suffix form:
// S[i*(len(b)+1)+j] is the length of a longest common subsequence of a[i:] and
// b[j:].  Elements are compared with ==; callers map elements to equivalence
// classes first when a custom equality is in use.
func lcsTable(a, b []int) []int32 {
	m, n := len(a), len(b)
	w := n + 1
	S := make([]int32, (m+1)*w)
	for i := m - 1; i >= 0; i-- {
		for j := n - 1; j >= 0; j-- {
			switch {
			case a[i] == b[j]:
				S[i*w+j] = S[(i+1)*w+j+1] + 1
			case S[(i+1)*w+j] >= S[i*w+j+1]:
				S[i*w+j] = S[(i+1)*w+j]
			default:
				S[i*w+j] = S[i*w+j+1]
			}
		}
	}
	return S
}

// lcsCountCap saturates the number of distinct longest common subsequences.
const lcsCountCap = int64(1) << 40

// countDistinctLCS returns the number of distinct sequences (as sequences of
// values, not of index pairs) that are longest common subsequences of a and
// b, saturated at lcsCountCap.  S must be lcsTable(a, b).
//
// Method: a longest common subsequence of (a[i:], b[j:]) of length L > 0
// starts with some symbol x; matching x at its leftmost occurrences i' >= i in
// a and j' >= j in b loses nothing, and the remainder must be a longest common
// subsequence of (a[i'+1:], b[j'+1:]) of length exactly L-1.  Different first
// symbols give different sequences, so the count is a plain sum (no
// inclusion-exclusion).
func countDistinctLCS(a, b []int, S []int32) int64 {
	m, n := len(a), len(b)
	w := n + 1
	if S[0] == 0 {
		return 1
	}
	// symbols common to both inputs, ascending
	var syms []int
	for _, x := range a {
		if !slices.Contains(syms, x) && slices.Contains(b, x) {
			syms = append(syms, x)
		}
	}
	sort.Ints(syms)
	k := len(syms)
	next := func(s []int) []int32 {
		nx := make([]int32, (len(s)+1)*k)
		for q := 0; q < k; q++ {
			nx[len(s)*k+q] = -1
		}
		for i := len(s) - 1; i >= 0; i-- {
			copy(nx[i*k:(i+1)*k], nx[(i+1)*k:(i+2)*k])
			if q := slices.Index(syms, s[i]); q >= 0 {
				nx[i*k+q] = int32(i)
			}
		}
		return nx
	}
	na, nb := next(a), next(b)
	cnt := make([]int64, (m+1)*w)
	for i := m; i >= 0; i-- {
		for j := n; j >= 0; j-- {
			L := S[i*w+j]
			if L == 0 {
				cnt[i*w+j] = 1
				continue
			}
			var c int64
			for q := 0; q < k; q++ {
				ia, jb := int(na[i*k+q]), int(nb[j*k+q])
				if ia < 0 || jb < 0 {
					continue
				}
				if S[(ia+1)*w+jb+1]+1 == L {
					c += cnt[(ia+1)*w+jb+1]
					if c > lcsCountCap {
						c = lcsCountCap
					}
				}
			}
			cnt[i*w+j] = c
		}
	}
	return cnt[0]
}

// refLongest is the quadratic DP for the longest strictly increasing
// (strict) or non-decreasing (!strict) subsequence under cmpf.
func refLongest(vs []int, cmpf func(a, b int) int, strict bool) int {
	best := make([]int, len(vs))
	top := 0
	for i := range vs {
		best[i] = 1
		for j := 0; j < i; j++ {
			c := cmpf(vs[j], vs[i])
			if (c < 0 || (!strict && c == 0)) && best[j]+1 > best[i] {
				best[i] = best[j] + 1
			}
		}
		if best[i] > top {
			top = best[i]
		}
	}
	return top
}

// embeds reports whether sub is a subsequence of in, matching elements with
// eq (greedy leftmost embedding, which is complete for any match relation).
func embeds(sub, in []int, eq func(a, b int) bool) bool {
	j := 0
	for _, x := range sub {
		for j < len(in) && !eq(in[j], x) {
			j++
		}
		if j == len(in) {
			return false
		}
		j++
	}
	return true
}

func same(a, b int) bool { return a == b }

// ---------------------------------------------------------------------------
// C11: EditScript.

// EditCase is one input pair of EditScript.
type EditCase struct {
	Lhs []int `json:"lhs"`
	Rhs []int `json:"rhs"`
	// When Buf is set, lhs and rhs are the views Buf[LV[0]:LV[1]] and
	// Buf[RV[0]:RV[1]] of ONE shared backing array (callers diff a slice
	// against a prefix, a suffix or an appended version of itself).
	Buf []int  `json:"buf,omitempty"`
	LV  [2]int `json:"lv,omitempty"`
	RV  [2]int `json:"rv,omitempty"`
	// Big describes two long inputs compactly (used when BigN > 0): lhs is
	// 0..BigN-1 with every value v replaced by v mod BigMod when BigMod > 0
	// (repeats); rhs is lhs without the elements at the indices BigDel and with
	// the value -(j+1) inserted before index BigIns[j].  Swap exchanges the roles.
	BigN   int   `json:"bign,omitempty"`
	BigMod int   `json:"bigmod,omitempty"`
	BigDel []int `json:"bigdel,omitempty"`
	BigIns []int `json:"bigins,omitempty"`
	Swap   bool  `json:"swap,omitempty"`
}

// lcsLen is the two-row dynamic programme for the LCS length (long inputs).
func lcsLen(a, b []int) int {
	if len(b) > len(a) {
		a, b = b, a
	}
	prev, cur := make([]int32, len(b)+1), make([]int32, len(b)+1)
	for i := 1; i <= len(a); i++ {
		for j := 1; j <= len(b); j++ {
			if a[i-1] == b[j-1] {
				cur[j] = prev[j-1] + 1
			} else {
				cur[j] = max(prev[j], cur[j-1])
			}
		}
		prev, cur = cur, prev
	}
	return int(prev[len(b)])
}

var c11Names = []string{
	"inputs_equal", "an_input_empty", "lcs_len=0", "script_has_replace", "script_edits>=5",
	"distinct_lcs=1", "distinct_lcs=2..9", "distinct_lcs>=10", "len>=30", "len(lhs)*len(rhs)>2^20", "len(lhs)*len(rhs)>2^24",
}

const (
	c11Equal = iota
	c11Empty
	c11LCS0
	c11Replace
	c11Edits5
	c11One
	c11Few
	c11Many
	c11Long
	c11Big
	c11Big24
)

func opName(op slice.EditOp) string {
	switch op {
	case slice.OpDrop:
		return "Drop"
	case slice.OpEmit:
		return "Emit"
	case slice.OpCopy:
		return "Copy"
	case slice.OpReplace:
		return "Replace"
	}
	return fmt.Sprintf("Op(%d)", byte(op))
}

// spanOf reports whether s is exactly in[pos:pos+len(s)]: the same backing
// array at that offset and (therefore, and also checked against the pristine
// copy) the same contents.
func spanOf(s, in, pristine []int, pos int) string {
	if pos+len(s) > len(in) {
		return fmt.Sprintf("span of length %d at offset %d runs past the end of the input (length %d)", len(s), pos, len(in))
	}
	if len(s) > 0 && &s[0] != &in[pos] {
		return fmt.Sprintf("span %v does not share storage with the input at offset %d", brief(s), pos)
	}
	if !slices.Equal(s, pristine[pos:pos+len(s)]) {
		return fmt.Sprintf("span holds %v, the input at offset %d holds %v", brief(s), pos, brief(pristine[pos:pos+len(s)]))
	}
	return ""
}

func checkEdit(c EditCase) (in info, msg string) {
	if c.BigN > 0 {
		n := min(c.BigN, 9000)
		c.Lhs = make([]int, n)
		for i := range c.Lhs {
			c.Lhs[i] = i
			if c.BigMod > 0 {
				c.Lhs[i] = i % c.BigMod
			}
		}
		del := map[int]bool{}
		for _, d := range c.BigDel {
			del[d] = true
		}
		ins := map[int][]int{}
		for j, p := range c.BigIns {
			ins[p] = append(ins[p], -(j + 1))
		}
		c.Rhs = nil
		for i := 0; i <= n; i++ {
			c.Rhs = append(c.Rhs, ins[i]...)
			if i < n && !del[i] {
				c.Rhs = append(c.Rhs, c.Lhs[i])
			}
		}
		if c.Swap {
			c.Lhs, c.Rhs = c.Rhs, c.Lhs
		}
	}
	big := len(c.Lhs)*len(c.Rhs) > 1<<20
	lhs, rhs := slices.Clone(c.Lhs), slices.Clone(c.Rhs)
	if c.Buf != nil {
		buf := slices.Clone(c.Buf)
		lhs, rhs = buf[c.LV[0]:c.LV[1]], buf[c.RV[0]:c.RV[1]]
		c.Lhs, c.Rhs = slices.Clone(lhs), slices.Clone(rhs)
	}
	errf := func(format string, args ...any) string {
		return fmt.Sprintf("EditScript(lhs=%s, rhs=%s): ", brief(c.Lhs), brief(c.Rhs)) + fmt.Sprintf(format, args...)
	}
	var script []slice.Edit[int]
	if pv := vk.PanicValue(func() { script = slice.EditScript(lhs, rhs) }); pv != nil {
		return in, errf("panicked: %v", pv)
	}
	if !slices.Equal(lhs, c.Lhs) {
		return in, errf("lhs was modified, now %s", brief(lhs))
	}
	if !slices.Equal(rhs, c.Rhs) {
		return in, errf("rhs was modified, now %s", brief(rhs))
	}

	// (validity) execute the script.
	lpos, rpos, emitted := 0, 0, 0
	var out []int
	for k, e := range script {
		l0, r0 := lpos, rpos // offsets before this edit
		where := func(format string, args ...any) string {
			if len(script) > 40 || len(e.X)+len(e.Y) > 200 {
				return errf("script of %d edits, edit #%d %s with %d/%d elements (at lhs offset %d, rhs offset %d): ", len(script), k, opName(e.Op), len(e.X), len(e.Y), l0, r0) + fmt.Sprintf(format, args...)
			}
			return errf("script %v, edit #%d %v (at lhs offset %d, rhs offset %d): ", script, k, e, l0, r0) + fmt.Sprintf(format, args...)
		}
		useX, useY := false, false
		switch e.Op {
		case slice.OpDrop:
			useX = true
		case slice.OpEmit:
			useX = true
		case slice.OpCopy:
			useY = true
		case slice.OpReplace:
			useX, useY = true, true
		default:
			return in, where("unknown opcode %d", byte(e.Op))
		}
		if useX && len(e.X) == 0 {
			return in, where("%s with empty X (no empty edits / Replace needs both sides)", opName(e.Op))
		}
		if useY && len(e.Y) == 0 {
			return in, where("%s with empty Y (no empty edits / Replace needs both sides)", opName(e.Op))
		}
		if !useX && len(e.X) != 0 {
			return in, where("%s must have empty X, has %v", opName(e.Op), e.X)
		}
		if !useY && len(e.Y) != 0 {
			return in, where("%s must have empty Y, has %v", opName(e.Op), e.Y)
		}
		if useX {
			if m := spanOf(e.X, lhs, c.Lhs, lpos); m != "" {
				return in, where("X is not the span of lhs at the current offset: %s", m)
			}
		}
		if useY {
			if m := spanOf(e.Y, rhs, c.Rhs, rpos); m != "" {
				return in, where("Y is not the span of rhs at the current offset: %s", m)
			}
		}
		switch e.Op {
		case slice.OpDrop:
			lpos += len(e.X)
		case slice.OpEmit:
			// the emitted lhs elements must be the next rhs elements
			if rpos+len(e.X) > len(rhs) || !slices.Equal(e.X, c.Rhs[rpos:rpos+len(e.X)]) {
				return in, where("emitting %v does not produce the next elements of rhs %v", e.X, brief(c.Rhs[min(rpos, len(c.Rhs)):]))
			}
			out = append(out, e.X...)
			emitted += len(e.X)
			lpos += len(e.X)
			rpos += len(e.X)
		case slice.OpCopy:
			out = append(out, e.Y...)
			rpos += len(e.Y)
		case slice.OpReplace:
			out = append(out, e.Y...)
			lpos += len(e.X)
			rpos += len(e.Y)
		}
		// (canonical form) relations between neighbours
		if k > 0 {
			p := script[k-1].Op
			if p == e.Op {
				return in, where("two adjacent %s edits", opName(e.Op))
			}
			if (p == slice.OpDrop && e.Op == slice.OpCopy) || (p == slice.OpCopy && e.Op == slice.OpDrop) {
				return in, where("%s adjacent to %s is not fused into one Replace", opName(p), opName(e.Op))
			}
		}
		in.setIf(e.Op == slice.OpReplace, c11Replace)
	}
	if len(script) > 0 {
		if lpos != len(lhs) {
			return in, errf("script %v consumes %d of %d lhs elements", script, lpos, len(lhs))
		}
		if rpos != len(rhs) || !slices.Equal(out, c.Rhs) {
			return in, errf("script %v produces %s, want rhs", script, brief(out))
		}
	}
	eq := slices.Equal(c.Lhs, c.Rhs)
	if eq != (len(script) == 0) {
		if eq {
			return in, errf("inputs are equal but the script is not empty: %v", script)
		}
		return in, errf("inputs differ but the script is empty")
	}
	if len(script) == 0 {
		emitted = len(lhs) // the empty script means: output equals input
	}

	// (minimality) kept elements == LCS length by the reference table.
	if big {
		if want := lcsLen(c.Lhs, c.Rhs); emitted != want {
			return in, errf("script of %d edits keeps %d elements, a longest common subsequence has %d", len(script), emitted, want)
		}
		in.nt = c.BigMod > 0
		in.set(c11Long)
		in.set(c11Big)
		in.setIf(len(lhs)*len(rhs) > 1<<24, c11Big24)
		in.setIf(len(script) >= 5, c11Edits5)
		return in, ""
	}
	S := lcsTable(c.Lhs, c.Rhs)
	if want := int(S[0]); emitted != want {
		return in, errf("script %v keeps %d elements, a longest common subsequence has %d", script, emitted, want)
	}

	// classification
	n := countDistinctLCS(c.Lhs, c.Rhs, S)
	in.nt = n >= 2
	in.setIf(eq, c11Equal)
	in.setIf(len(lhs) == 0 || len(rhs) == 0, c11Empty)
	in.setIf(S[0] == 0, c11LCS0)
	in.setIf(len(script) >= 5, c11Edits5)
	in.setIf(n == 1, c11One)
	in.setIf(n >= 2 && n <= 9, c11Few)
	in.setIf(n >= 10, c11Many)
	in.setIf(len(lhs) >= 30 || len(rhs) >= 30, c11Long)
	return in, ""
}

func runC11(c EditCase, o *vk.Obs) string {
	in, msg := checkEdit(c)
	if msg == "" {
		in.obs(o, c11Names)
	}
	return msg
}

// ---------------------------------------------------------------------------
// C12, part 1: LIS / LNDS.

// SeqCase is one input of LIS and LNDS with the comparison to use: "" or
// "nat" (LIS/LNDS, natural order), "rev" (LISFunc/LNDSFunc with the reversed
// order), "half" (…Func comparing v>>1, so that distinct elements compare
// equal and the identity of the returned elements is observable).
type SeqCase struct {
	Vs  []int  `json:"vs"`
	Cmp string `json:"cmp,omitempty"`
	// Segs describes a long input compactly (used when Vs is empty): the
	// concatenation of arithmetic runs {start, step, length}.
	Segs [][3]int `json:"segs,omitempty"`
	// Wide stretches the values linearly over the whole int range, so that
	// differences of elements overflow.  The order of the elements is unchanged.
	Wide bool `json:"wide,omitempty"`
}

// widen maps the values linearly onto the whole int range: the smallest
// becomes math.MinInt, the largest (nearly) math.MaxInt; the order of the
// elements is unchanged.
func widen(vs []int) []int {
	if len(vs) == 0 {
		return vs
	}
	lo, hi := slices.Min(vs), slices.Max(vs)
	if lo == hi {
		return vs
	}
	step := math.MaxUint64 / uint64(hi-lo)
	out := make([]int, len(vs))
	for i, v := range vs {
		out[i] = int(uint64(1)<<63 + uint64(v-lo)*step) // two's complement: MinInt + offset
	}
	return out
}

// refLongestFast is the patience-sorting reference for long inputs: tails[l]
// is the smallest possible last element of a qualifying subsequence of
// length l+1; each element replaces the first tail it does not extend.
func refLongestFast(vs []int, cmpf func(a, b int) int, strict bool) int {
	var tails []int
	for _, v := range vs {
		// first tail t that v cannot follow: t >= v (strict) or t > v
		lo, hi := 0, len(tails)
		for lo < hi {
			mid := lo + (hi-lo)/2
			c := cmpf(tails[mid], v)
			if c < 0 || (!strict && c == 0) {
				lo = mid + 1
			} else {
				hi = mid
			}
		}
		if lo == len(tails) {
			tails = append(tails, v)
		} else {
			tails[lo] = v
		}
	}
	return len(tails)
}

var c12SeqNames = []string{
	"cmp=nat", "cmp=rev", "cmp=half", "empty", "all_equivalent", "whole_input_nondecreasing",
	"strictly_decreasing", "has_adjacent_equal_run", "lnds>lis", "lnds>=lis+3", "len>=50",
	"len>32768", "len>65536", "optimum>32768", "optimum>65536", "values_span_more_than_half_the_int_range",
}

const (
	c12Nat = iota
	c12Rev
	c12Half
	c12SeqEmpty
	c12AllEq
	c12Sorted
	c12Desc
	c12Run
	c12Diff
	c12Diff3
	c12SeqLong
	c12Seq15
	c12Seq16
	c12Opt15
	c12Opt16
	c12Wide
)

func checkSeq(c SeqCase) (in info, msg string) {
	if len(c.Vs) == 0 && len(c.Segs) > 0 {
		for _, sg := range c.Segs {
			for i := 0; i < sg[2]; i++ {
				c.Vs = append(c.Vs, sg[0]+i*sg[1])
			}
		}
	}
	if c.Wide && c.Cmp != "diff" && c.Cmp != "half" { // a-b is not an ordering once differences overflow
		c.Vs = widen(c.Vs)
	} else {
		c.Wide = false
	}
	var cmpf func(a, b int) int
	natural := false
	switch c.Cmp {
	case "rev":
		cmpf = func(a, b int) int { return cmp.Compare(b, a) }
		in.set(c12Rev)
	case "half":
		cmpf = func(a, b int) int { return cmp.Compare(a>>1, b>>1) }
		in.set(c12Half)
	case "extreme": // the documentation only promises the sign to matter
		cmpf = func(a, b int) int {
			switch {
			case a < b:
				return math.MinInt
			case a > b:
				return math.MaxInt
			}
			return 0
		}
		in.set(c12Rev) // counted with the custom comparisons
	case "diff":
		cmpf = func(a, b int) int { return a - b }
		in.set(c12Rev)
	default:
		cmpf = func(a, b int) int { return cmp.Compare(a, b) }
		natural = true
		in.set(c12Nat)
	}
	var wantLIS, wantLNDS int
	if len(c.Vs) <= 1500 {
		wantLIS = refLongest(c.Vs, cmpf, true)
		wantLNDS = refLongest(c.Vs, cmpf, false)
		// the two references are written independently; they must agree
		if f1, f2 := refLongestFast(c.Vs, cmpf, true), refLongestFast(c.Vs, cmpf, false); f1 != wantLIS || f2 != wantLNDS {
			panic(fmt.Sprintf("harness error: reference DP gives %d/%d, patience reference %d/%d for %v", wantLIS, wantLNDS, f1, f2, c.Vs))
		}
	} else {
		wantLIS = refLongestFast(c.Vs, cmpf, true)
		wantLNDS = refLongestFast(c.Vs, cmpf, false)
	}

	for _, strict := range []bool{true, false} {
		name, want := "LNDS", wantLNDS
		if strict {
			name, want = "LIS", wantLIS
		}
		if !natural {
			name += "Func[" + c.Cmp + "]"
		}
		errf := func(format string, args ...any) string {
			if len(c.Segs) > 0 {
				return fmt.Sprintf("%s(%d elements: arithmetic runs {start,step,len} %v): ", name, len(c.Vs), c.Segs) + fmt.Sprintf(format, args...)
			}
			return fmt.Sprintf("%s(%s): ", name, brief(c.Vs)) + fmt.Sprintf(format, args...)
		}
		vs := slices.Clone(c.Vs)
		var got []int
		pv := vk.PanicValue(func() {
			switch {
			case natural && strict:
				got = slice.LIS(vs)
			case natural:
				got = slice.LNDS(vs)
			case strict:
				got = slice.LISFunc(vs, cmpf)
			default:
				got = slice.LNDSFunc(vs, cmpf)
			}
		})
		if pv != nil {
			return in, errf("panicked: %v", pv)
		}
		got = slices.Clone(got) // the result may alias the input; freeze it before comparing
		if !slices.Equal(vs, c.Vs) {
			return in, errf("the input was modified, now %s", brief(vs))
		}
		if !embeds(got, c.Vs, same) {
			return in, errf("result %s is not a subsequence of the input", brief(got))
		}
		for i := 1; i < len(got); i++ {
			d := cmpf(got[i-1], got[i])
			if d > 0 || (strict && d == 0) {
				kind := "non-decreasing"
				if strict {
					kind = "strictly increasing"
				}
				return in, errf("result %s is not %s at position %d (%d then %d)", brief(got), kind, i, got[i-1], got[i])
			}
		}
		if len(got) != want {
			return in, errf("result %s has length %d, the optimum (reference DP / patience sorting) is %d", brief(got), len(got), want)
		}
	}

	// classification
	in.nt = wantLNDS > wantLIS
	n := len(c.Vs)
	in.setIf(n == 0, c12SeqEmpty)
	in.setIf(n > 1 && wantLIS == 1 && wantLNDS == n, c12AllEq)
	in.setIf(n > 1 && wantLNDS == n, c12Sorted)
	run := false
	for i := 1; i < n; i++ {
		if cmpf(c.Vs[i-1], c.Vs[i]) == 0 {
			run = true
		}
	}
	in.setIf(n > 1 && wantLNDS == 1, c12Desc)
	in.setIf(run, c12Run)
	in.setIf(wantLNDS > wantLIS, c12Diff)
	in.setIf(wantLNDS >= wantLIS+3, c12Diff3)
	in.setIf(n >= 50, c12SeqLong)
	in.setIf(n > 1<<15, c12Seq15)
	in.setIf(n > 1<<16, c12Seq16)
	in.setIf(wantLNDS > 1<<15, c12Opt15)
	in.setIf(wantLNDS > 1<<16, c12Opt16)
	if c.Wide && n > 0 {
		in.setIf(uint(slices.Max(c.Vs))-uint(slices.Min(c.Vs)) > math.MaxInt, c12Wide)
	}
	return in, ""
}

func runC12Seq(c SeqCase, o *vk.Obs) string {
	in, msg := checkSeq(c)
	if msg == "" {
		in.obs(o, c12SeqNames)
	}
	return msg
}

// ---------------------------------------------------------------------------
// C12, part 2: LCS / LCSFunc.

// LCSCase is one input pair of LCS.  With Fold the call is LCSFunc with the
// "case-folding" equality a>>1 == b>>1 (element = 2*letter + case bit).
type LCSCase struct {
	As   []int `json:"as"`
	Bs   []int `json:"bs"`
	Fold bool  `json:"fold,omitempty"`
	// Lay is the memory layout of the two arguments: 0 separate slices with
	// cap == len; 1 adjacent windows as|bs of one buffer; 2 adjacent windows
	// bs|as; 3 as|gap|bs with the gap inside as's capacity.  A function that
	// does not modify its inputs must leave both windows intact whichever way
	// they lie in memory.
	// Lay 4: bs is the window as[Win[0]:Win[1]] of the first argument's own
	// memory (Bs is ignored); Lay 5: as is the window bs[Win[0]:Win[1]] of the
	// second argument (As is ignored).  Win is clamped to the slice.
	Lay int    `json:"lay,omitempty"`
	Win [2]int `json:"win,omitempty"`
}

// window clamps w to a valid window of a slice of length n.
func window(w [2]int, n int) (lo, hi int) {
	lo = min(max(w[0], 0), n)
	hi = min(max(w[1], lo), n)
	return
}

var c12LCSNames = []string{
	"LCS(==)", "LCSFunc(fold)", "an_input_empty", "lcs_len=0", "len(as)>len(bs)", "len(as)<len(bs)",
	"len(as)==len(bs)", "distinct_lcs=1", "distinct_lcs=2..9", "distinct_lcs>=10", "len>=50",
	"fold_merges_distinct_elements", "inputs_are_adjacent_windows_of_one_buffer", "one_input_is_a_window_of_the_other",
	"inputs_start_at_the_same_element",
}

const (
	c12Plain = iota
	c12Fold
	c12LEmpty
	c12L0
	c12AGt
	c12ALt
	c12AEq
	c12LOne
	c12LFew
	c12LMany
	c12LLong
	c12FoldUsed
	c12Adjacent
	c12Window
	c12SameStart
)

func foldEq(a, b int) bool { return a>>1 == b>>1 }

func checkLCS(c LCSCase) (in info, msg string) {
	switch c.Lay {
	case 4:
		lo, hi := window(c.Win, len(c.As))
		c.Bs = slices.Clone(c.As[lo:hi])
	case 5:
		lo, hi := window(c.Win, len(c.Bs))
		c.As = slices.Clone(c.Bs[lo:hi])
	}
	name := "LCS"
	eq := same
	ca, cb := c.As, c.Bs // equivalence classes
	if c.Fold {
		name, eq = "LCSFunc[a>>1==b>>1]", foldEq
		ca, cb = make([]int, len(c.As)), make([]int, len(c.Bs))
		for i, v := range c.As {
			ca[i] = v >> 1
		}
		for i, v := range c.Bs {
			cb[i] = v >> 1
		}
	}
	errf := func(format string, args ...any) string {
		lay := ""
		switch c.Lay {
		case 1, 2, 3:
			lay = " [the arguments are adjacent windows of one buffer]"
		case 4:
			lo, hi := window(c.Win, len(c.As))
			lay = fmt.Sprintf(" [bs is as[%d:%d], the same memory]", lo, hi)
		case 5:
			lo, hi := window(c.Win, len(c.Bs))
			lay = fmt.Sprintf(" [as is bs[%d:%d], the same memory]", lo, hi)
		}
		return fmt.Sprintf("%s(as=%s, bs=%s)%s: ", name, brief(c.As), brief(c.Bs), lay) + fmt.Sprintf(format, args...)
	}
	as, bs := slices.Clone(c.As), slices.Clone(c.Bs)
	if c.Lay != 0 {
		na, nb := len(c.As), len(c.Bs)
		const gap = 3
		buf := make([]int, 0, na+nb+2*gap)
		switch c.Lay {
		case 4:
			lo, hi := window(c.Win, na)
			bs = as[lo:hi]
		case 5:
			lo, hi := window(c.Win, nb)
			as = bs[lo:hi]
		case 1:
			buf = append(append(buf, c.As...), c.Bs...)
			as, bs = buf[:na], buf[na:na+nb]
		case 2:
			buf = append(append(buf, c.Bs...), c.As...)
			bs, as = buf[:nb], buf[nb:nb+na]
		default:
			buf = append(append(append(buf, c.As...), -7, -7, -7), c.Bs...)
			as, bs = buf[:na], buf[na+gap:na+gap+nb]
		}
	}
	var got []int
	pv := vk.PanicValue(func() {
		if c.Fold {
			got = slice.LCSFunc(as, bs, foldEq)
		} else {
			got = slice.LCS(as, bs)
		}
	})
	if pv != nil {
		return in, errf("panicked: %v", pv)
	}
	got = slices.Clone(got)
	if !slices.Equal(as, c.As) {
		return in, errf("as was modified, now %s", brief(as))
	}
	if !slices.Equal(bs, c.Bs) {
		return in, errf("bs was modified, now %s", brief(bs))
	}
	if !embeds(got, c.As, eq) {
		return in, errf("result %s is not a subsequence of as", brief(got))
	}
	if !embeds(got, c.Bs, eq) {
		return in, errf("result %s is not a subsequence of bs", brief(got))
	}
	for i, x := range got {
		if !slices.Contains(c.As, x) && !slices.Contains(c.Bs, x) {
			return in, errf("result %s: element #%d = %d occurs in neither input", brief(got), i, x)
		}
	}
	S := lcsTable(ca, cb)
	if want := int(S[0]); len(got) != want {
		return in, errf("result %s has length %d, the optimum (textbook DP) is %d", brief(got), len(got), want)
	}

	n := countDistinctLCS(ca, cb, S)
	in.nt = n >= 2
	in.setIf(!c.Fold, c12Plain)
	in.setIf(c.Fold, c12Fold)
	in.setIf(len(as) == 0 || len(bs) == 0, c12LEmpty)
	in.setIf(S[0] == 0, c12L0)
	in.setIf(len(as) > len(bs), c12AGt)
	in.setIf(len(as) < len(bs), c12ALt)
	in.setIf(len(as) == len(bs), c12AEq)
	in.setIf(n == 1, c12LOne)
	in.setIf(n >= 2 && n <= 9, c12LFew)
	in.setIf(n >= 10, c12LMany)
	in.setIf(len(as) >= 50 || len(bs) >= 50, c12LLong)
	in.setIf(c.Lay >= 1 && c.Lay <= 3, c12Adjacent)
	in.setIf(c.Lay >= 4, c12Window)
	in.setIf(c.Lay >= 4 && len(as) > 0 && len(bs) > 0 && &as[0] == &bs[0], c12SameStart)
	if c.Fold {
		in.setIf(lcsTable(c.As, c.Bs)[0] < S[0], c12FoldUsed)
	}
	return in, ""
}

func runC12LCS(c LCSCase, o *vk.Obs) string {
	in, msg := checkLCS(c)
	if msg == "" {
		in.obs(o, c12LCSNames)
	}
	return msg
}

// ---------------------------------------------------------------------------
// C17: slice utilities.

// UtilCase is one call of a slice utility.  The slice has N distinct elements
// elemBase+i, Spare elements of spare capacity behind it (filled with filler
// values) and a sentinel after the capacity.  K is the numeric argument
// (Rotate k; Chunks/Batches/Head/Tail n; At/PtrAt/Stripe i).  Keep is the
// keep-pattern of Partition (element i is kept iff Keep[i] != 0; missing
// entries mean "drop"); Rows are the row lengths of Stripe.
type UtilCase struct {
	Fn    string `json:"fn"`
	N     int    `json:"n"`
	K     int    `json:"k"`
	Spare int    `json:"spare,omitempty"`
	Keep  []int  `json:"keep,omitempty"`
	Rows  []int  `json:"rows,omitempty"`
}

const (
	elemBase = 100
	fillBase = -1000
	sentinel = -7777
	maxUtilN = 100000
)

// batchesLargerFirst switches on the extra demand of DESIGN.md §5/C17 that
// the larger batches come first.  Neither the property statement nor the
// package documentation promises an order ("each having nearly as possible to
// equal length"), so it is off: only "lengths differ by at most one" is
// demanded, and the order is recorded as a class.
const batchesLargerFirst = false

var c17Names = []string{
	"fn=Partition", "fn=Rotate", "fn=Chunks", "fn=Batches", "fn=Head", "fn=Tail", "fn=Stripe", "fn=At", "fn=PtrAt",
	"empty_slice", "documented_panic_expected", "spare_capacity", "rotate_gcd>1", "at_boundary",
	"partition_needs_swaps", "uneven_pieces", "batches_larger_first", "batches_larger_last", "negative_index_valid",
	"n>=50",
}

const (
	c17FnPartition = iota
	c17FnRotate
	c17FnChunks
	c17FnBatches
	c17FnHead
	c17FnTail
	c17FnStripe
	c17FnAt
	c17FnPtrAt
	c17Empty
	c17Panic
	c17Spare
	c17Gcd
	c17Boundary
	c17Swaps
	c17Uneven
	c17LargerFirst
	c17LargerLast
	c17NegIdx
	c17Big
)

func gcdRef(a, b int) int {
	if a < 0 {
		a = -a
	}
	if b < 0 {
		b = -b
	}
	for b != 0 {
		a, b = b, a%b
	}
	return a
}

func near(x int, pts ...int) bool {
	for _, p := range pts {
		if x == p {
			return true
		}
	}
	return false
}

func checkUtil(c UtilCase) (in info, msg string) {
	n, spare := c.N, c.Spare
	if n < 0 {
		n = 0
	}
	if n > maxUtilN {
		n = maxUtilN
	}
	if spare < 0 {
		spare = 0
	}
	if spare > 64 {
		spare = 64
	}
	k := c.K
	arr := make([]int, n+spare+1)
	for i := 0; i < n; i++ {
		arr[i] = elemBase + i
	}
	for j := 0; j < spare; j++ {
		arr[n+j] = fillBase - j
	}
	arr[n+spare] = sentinel
	vs := arr[0 : n : n+spare]

	call := c.Fn
	errf := func(format string, args ...any) string {
		return call + ": " + fmt.Sprintf(format, args...)
	}
	// behind checks the memory behind the slice: spare capacity and sentinel.
	behind := func() string {
		for j := 0; j < spare; j++ {
			if arr[n+j] != fillBase-j {
				return errf("the spare capacity behind the slice was written: position len+%d holds %d, was %d", j, arr[n+j], fillBase-j)
			}
		}
		if arr[n+spare] != sentinel {
			return errf("the element after the slice's capacity was overwritten with %d", arr[n+spare])
		}
		return ""
	}
	// untouched checks that the slice still holds its original elements in order.
	untouched := func() string {
		for i := 0; i < n; i++ {
			if arr[i] != elemBase+i {
				return errf("the input slice was modified: element %d is now %d (was %d)", i, arr[i], elemBase+i)
			}
		}
		return behind()
	}
	// pieces checks a list of consecutive subslices covering vs.
	pieces := func(out [][]int) (minLen, maxLen int, m string) {
		off := 0
		minLen, maxLen = 1<<30, 0
		for idx, p := range out {
			if off+len(p) > n {
				return 0, 0, errf("piece #%d of length %d at offset %d runs past the end of the input; pieces have lengths %v", idx, len(p), off, lens(out))
			}
			if len(p) > 0 && &p[0] != &vs[off] {
				return 0, 0, errf("piece #%d %s does not alias the input at offset %d; pieces have lengths %v", idx, brief(p), off, lens(out))
			}
			for q := range p {
				if p[q] != elemBase+off+q {
					return 0, 0, errf("piece #%d holds %s, want the input elements from offset %d", idx, brief(p), off)
				}
			}
			if idx < len(out)-1 && cap(p) != len(p) {
				return 0, 0, errf("piece #%d (length %d) has capacity %d: it is followed by another piece, so appending to it would overwrite the input", idx, len(p), cap(p))
			}
			minLen, maxLen = min(minLen, len(p)), max(maxLen, len(p))
			off += len(p)
		}
		if off != n {
			return 0, 0, errf("the pieces cover %d of %d elements; pieces have lengths %v", off, n, lens(out))
		}
		return minLen, maxLen, ""
	}

	in.setIf(n == 0 && c.Fn != "Stripe", c17Empty)
	in.setIf(spare > 0 && c.Fn != "Stripe", c17Spare)
	in.setIf(n >= 50, c17Big)

	switch c.Fn {
	case "Partition":
		in.set(c17FnPartition)
		keepIdx := func(i int) bool { return i >= 0 && i < len(c.Keep) && c.Keep[i] != 0 }
		var want []int
		pat := make([]int, n)
		swaps, seenDrop := false, false
		for i := 0; i < n; i++ {
			if keepIdx(i) {
				want = append(want, elemBase+i)
				pat[i] = 1
				if seenDrop {
					swaps = true
				}
			} else {
				seenDrop = true
			}
		}
		call = fmt.Sprintf("Partition(%d distinct elements %d.., keep pattern %s, spare capacity %d)", n, elemBase, brief(pat), spare)
		var got []int
		if pv := vk.PanicValue(func() { got = slice.Partition(vs, func(v int) bool { return keepIdx(v - elemBase) }) }); pv != nil {
			return in, errf("panicked: %v", pv)
		}
		m := len(want)
		if len(got) != m {
			return in, errf("result %s has length %d, want the %d kept elements %s", brief(got), len(got), m, brief(want))
		}
		if !slices.Equal(got, want) {
			return in, errf("result %s, want the kept elements in their original order %s", brief(got), brief(want))
		}
		if n > 0 {
			if m > 0 && &got[0] != &vs[0] {
				return in, errf("result is not a prefix of the input slice (different storage)")
			}
			if cap(got) != m {
				return in, errf("result has length %d but capacity %d: not clipped, appending would overwrite what follows the kept elements", m, cap(got))
			}
		}
		sorted := slices.Clone(arr[:n])
		sort.Ints(sorted)
		for i := range sorted {
			if sorted[i] != elemBase+i {
				return in, errf("the slice is no longer a permutation of its original contents: now %s", brief(arr[:n]))
			}
		}
		if !slices.Equal(arr[:m], want) {
			return in, errf("the slice does not start with the kept elements: now %s", brief(arr[:n]))
		}
		if b := behind(); b != "" {
			return in, b
		}
		in.setIf(swaps, c17Swaps)
		in.nt = n == 0 || m == 0 || m == n || swaps
		in.setIf(n == 0 || m == 0 || m == n, c17Boundary)

	case "Rotate":
		in.set(c17FnRotate)
		call = fmt.Sprintf("Rotate(len %d, k=%d, spare capacity %d)", n, k, spare)
		allowed := k >= -n && k <= n
		pv := vk.PanicValue(func() { slice.Rotate(vs, k) })
		if allowed {
			if pv != nil {
				return in, errf("panicked for -len <= k <= len: %v", pv)
			}
			for i := 0; i < n; i++ {
				j := ((i+k)%n + n) % n
				if arr[j] != elemBase+i {
					return in, errf("the element originally at index %d must be at index %d, which holds the one from index %d; slice now %s", i, j, arr[j]-elemBase, brief(arr[:n]))
				}
			}
			if b := behind(); b != "" {
				return in, b
			}
		} else {
			in.set(c17Panic)
			if pv == nil {
				return in, errf("k is out of range [-len, len] but Rotate did not panic; slice now %s", brief(arr[:n]))
			}
		}
		g := 0 // number of cycles of a proper rotation (0 for the identity)
		if allowed && n > 0 {
			if kk := ((k % n) + n) % n; kk != 0 {
				g = gcdRef(kk, n)
			}
		}
		in.setIf(g > 1, c17Gcd)
		b := near(k, -n-1, -n, -n+1, -1, 0, 1, n-1, n, n+1)
		in.setIf(b, c17Boundary)
		in.nt = b || g > 1 || n == 0

	case "Chunks":
		in.set(c17FnChunks)
		call = fmt.Sprintf("Chunks(len %d, n=%d, spare capacity %d)", n, k, spare)
		var out [][]int
		pv := vk.PanicValue(func() { out = slice.Chunks(vs, k) })
		if k < 0 {
			in.set(c17Panic)
			if pv == nil {
				return in, errf("n < 0 but Chunks did not panic (returned pieces of lengths %v)", lens(out))
			}
		} else {
			if pv != nil {
				return in, errf("panicked for n >= 0: %v", pv)
			}
			if _, _, m := pieces(out); m != "" {
				return in, m
			}
			if k == 0 {
				if len(out) != 1 {
					return in, errf("n == 0 must give a single chunk with the entire input, got %d chunks of lengths %v", len(out), lens(out))
				}
			} else {
				for idx, p := range out {
					if idx < len(out)-1 && len(p) != k {
						return in, errf("chunk #%d has length %d, every chunk but the last must have length %d; lengths %v", idx, len(p), k, lens(out))
					}
					if len(p) > k {
						return in, errf("chunk #%d has length %d > n; lengths %v", idx, len(p), lens(out))
					}
				}
			}
			if u := untouched(); u != "" {
				return in, u
			}
			in.setIf(k > 0 && n%k != 0 && n > k, c17Uneven)
		}
		b := near(k, -1, 0, 1, n-1, n, n+1)
		in.setIf(b, c17Boundary)
		in.nt = b || n == 0

	case "Batches":
		in.set(c17FnBatches)
		call = fmt.Sprintf("Batches(len %d, n=%d, spare capacity %d)", n, k, spare)
		var out [][]int
		pv := vk.PanicValue(func() { out = slice.Batches(vs, k) })
		if k < 0 {
			in.set(c17Panic)
			if pv == nil {
				return in, errf("n < 0 but Batches did not panic (returned pieces of lengths %v)", lens(out))
			}
		} else {
			if pv != nil {
				return in, errf("panicked for n >= 0: %v", pv)
			}
			want := min(k, n)
			if len(out) != want {
				return in, errf("got %d batches of lengths %v, want exactly min(n, len) = %d", len(out), lens(out), want)
			}
			if want > 0 {
				lo, hi, m := pieces(out)
				if m != "" {
					return in, m
				}
				if hi-lo > 1 {
					return in, errf("batch lengths %v differ by more than one", lens(out))
				}
				if hi != lo {
					in.set(c17Uneven)
					first, last := len(out[0]) == hi, len(out[len(out)-1]) == hi
					sortedDesc := slices.IsSortedFunc(out, func(a, b []int) int { return cmp.Compare(len(b), len(a)) })
					in.setIf(first && sortedDesc, c17LargerFirst)
					in.setIf(last && !first, c17LargerLast)
					if batchesLargerFirst && !sortedDesc {
						return in, errf("batch lengths %v: the larger batches must come first", lens(out))
					}
				}
			}
			if u := untouched(); u != "" {
				return in, u
			}
		}
		b := near(k, -1, 0, 1, n-1, n, n+1)
		in.setIf(b, c17Boundary)
		in.nt = b || n == 0

	case "Head", "Tail":
		head := c.Fn == "Head"
		in.setIf(head, c17FnHead)
		in.setIf(!head, c17FnTail)
		if k < 0 {
			k = -k // only n >= 0 is a documented argument
			if k < 0 {
				k = math.MaxInt
			}
		}
		call = fmt.Sprintf("%s(len %d, n=%d, spare capacity %d)", c.Fn, n, k, spare)
		var got []int
		pv := vk.PanicValue(func() {
			if head {
				got = slice.Head(vs, k)
			} else {
				got = slice.Tail(vs, k)
			}
		})
		if pv != nil {
			return in, errf("panicked: %v", pv)
		}
		m := min(k, n)
		off := 0
		if !head {
			off = n - m
		}
		if len(got) != m {
			return in, errf("result %s has length %d, want min(n, len) = %d", brief(got), len(got), m)
		}
		if m > 0 && &got[0] != &vs[off] {
			return in, errf("result %s is not the subslice of the input starting at offset %d", brief(got), off)
		}
		for q := range got {
			if got[q] != elemBase+off+q {
				return in, errf("result %s, want the %d elements from offset %d", brief(got), m, off)
			}
		}
		if u := untouched(); u != "" {
			return in, u
		}
		b := near(k, 0, 1, n-1, n, n+1)
		in.setIf(b, c17Boundary)
		in.nt = b || n == 0

	case "Stripe":
		in.set(c17FnStripe)
		if k < 0 {
			k = -k // only i >= 0 is meaningful
		}
		rows := make([][]int, len(c.Rows))
		var lensR []int
		maxLen, have := 0, 0
		var want []int
		for r, l := range c.Rows {
			if l < 0 {
				l = 0
			}
			if l > 1000 {
				l = 1000
			}
			lensR = append(lensR, l)
			rows[r] = make([]int, l)
			for j := range rows[r] {
				rows[r][j] = 1000*(r+1) + j
			}
			maxLen = max(maxLen, l)
			if k < l {
				have++
				want = append(want, 1000*(r+1)+k)
			}
		}
		call = fmt.Sprintf("Stripe(rows of lengths %v, i=%d)", lensR, k)
		var got []int
		if pv := vk.PanicValue(func() { got = slice.Stripe(rows, k) }); pv != nil {
			return in, errf("panicked: %v", pv)
		}
		if !slices.Equal(got, want) {
			return in, errf("result %s, want %s (row r holds 1000*(r+1)+j at column j)", brief(got), brief(want))
		}
		for r := range rows {
			for j := range rows[r] {
				if rows[r][j] != 1000*(r+1)+j {
					return in, errf("row %d was modified at column %d", r, j)
				}
			}
		}
		ragged := have > 0 && have < len(rows)
		b := len(rows) == 0 || k >= maxLen-1
		in.setIf(b, c17Boundary)
		in.setIf(ragged, c17Uneven)
		in.setIf(len(rows) == 0, c17Empty)
		in.nt = b || ragged

	case "At", "PtrAt":
		at := c.Fn == "At"
		in.setIf(at, c17FnAt)
		in.setIf(!at, c17FnPtrAt)
		call = fmt.Sprintf("%s(len %d, i=%d)", c.Fn, n, k)
		valid := k >= -n && k < n
		idx := k
		if k < 0 {
			idx = k + n
		}
		if at {
			var got int
			pv := vk.PanicValue(func() { got = slice.At(vs, k) })
			if valid {
				if pv != nil {
					return in, errf("panicked for an index in range: %v", pv)
				}
				if got != elemBase+idx {
					return in, errf("returned the element of index %d, want index %d", got-elemBase, idx)
				}
			} else {
				in.set(c17Panic)
				if pv == nil {
					return in, errf("index out of range but At did not panic (returned %d)", got)
				}
			}
		} else {
			var p *int
			if pv := vk.PanicValue(func() { p = slice.PtrAt(vs, k) }); pv != nil {
				return in, errf("panicked (PtrAt never panics): %v", pv)
			}
			if valid {
				if p == nil {
					return in, errf("returned nil for an index in range")
				}
				if p != &vs[idx] {
					return in, errf("the pointer does not point at element %d of the slice (it points at a value %d)", idx, *p)
				}
			} else if p != nil {
				return in, errf("index out of range but PtrAt returned a non-nil pointer (to %d)", *p)
			}
		}
		if u := untouched(); u != "" {
			return in, u
		}
		in.setIf(valid && k < 0, c17NegIdx)
		b := near(k, -n-1, -n, -1, 0, n-1, n)
		in.setIf(b, c17Boundary)
		in.nt = b || n == 0

	default:
		return in, fmt.Sprintf("VK-INFRA unknown fn %q", c.Fn)
	}
	return in, ""
}

func lens(out [][]int) []int {
	l := make([]int, len(out))
	for i, p := range out {
		l[i] = len(p)
	}
	return l
}

func runC17(c UtilCase, o *vk.Obs) string {
	in, msg := checkUtil(c)
	if msg == "" {
		in.obs(o, c17Names)
	}
	return msg
}
