// Package pslice holds the checks for package slice: EditScript (C11), LCS /
// LIS / LNDS (C12) and the slice utilities Partition, Rotate, Chunks, Batches,
// Head, Tail, Stripe, At, PtrAt (C17).
//
// Every case is plain data (the concrete inputs); the check functions are
// pure: they build fresh slices from the case, call the code under test and
// compare with reference implementations written here independently of it.
//
// The functions under test are generic.  A case names the element type they
// are instantiated with (field Elem, "" = int); the inputs, the references
// and the messages stay in ints and kinds.go converts at the call.
package pslice

import (
	"cmp"
	"fmt"
	"math"
	"slices"
	"sort"

	"github.com/creachadair/mds/slice"
	"verif/elem"
	"verif/vk"
)

// info is what one check observed about its case: the non-triviality verdict
// and a bit set of class labels (index into the property's label table).
type info struct {
	nt  bool
	cls uint64
}

func (in *info) set(bit int) { in.cls |= 1 << uint(bit) }
func (in *info) setIf(c bool, bit int) {
	if c {
		in.cls |= 1 << uint(bit)
	}
}

// obs transfers an info into the kit's observation record.
func (in info) obs(o *vk.Obs, names []string) {
	if in.nt {
		o.NonTrivial()
	}
	for b, n := range names {
		if in.cls&(1<<uint(b)) != 0 {
			o.Class(n)
		}
	}
}

func brief(v []int) string {
	if len(v) > 80 {
		return fmt.Sprintf("%v...(%d elements)", v[:80], len(v))
	}
	return fmt.Sprint(v)
}

// ---------------------------------------------------------------------------
// Reference implementations (independent of the code under test).

// lcsTable is the textbook O(mn) dynamic programme in suffix form:
// S[i*(len(b)+1)+j] is the length of a longest common subsequence of a[i:] and
// b[j:].  Elements are compared with ==; callers map elements to equivalence
// classes first when a custom equality is in use.
func lcsTable(a, b []int) []int32 {
	m, n := len(a), len(b)
	w := n + 1
	S := make([]int32, (m+1)*w)
	for i := m - 1; i >= 0; i-- {
		for j := n - 1; j >= 0; j-- {
			switch {
			case a[i] == b[j]:
				S[i*w+j] = S[(i+1)*w+j+1] + 1
			case S[(i+1)*w+j] >= S[i*w+j+1]:
				S[i*w+j] = S[(i+1)*w+j]
			default:
				S[i*w+j] = S[i*w+j+1]
			}
		}
	}
	return S
}

// lcsCountCap saturates the number of distinct longest common subsequences.
const lcsCountCap = int64(1) << 40

// countDistinctLCS returns the number of distinct sequences (as sequences of
// values, not of index pairs) that are longest common subsequences of a and
// b, saturated at lcsCountCap.  S must be lcsTable(a, b).
//
// Method: a longest common subsequence of (a[i:], b[j:]) of length L > 0
// starts with some symbol x; matching x at its leftmost occurrences i' >= i in
// a and j' >= j in b loses nothing, and the remainder must be a longest common
// subsequence of (a[i'+1:], b[j'+1:]) of length exactly L-1.  Different first
// symbols give different sequences, so the count is a plain sum (no
// inclusion-exclusion).
func countDistinctLCS(a, b []int, S []int32) int64 {
	m, n := len(a), len(b)
	w := n + 1
	if S[0] == 0 {
		return 1
	}
	// symbols common to both inputs, ascending
	var syms []int
	for _, x := range a {
		if !slices.Contains(syms, x) && slices.Contains(b, x) {
			syms = append(syms, x)
		}
	}
	sort.Ints(syms)
	k := len(syms)
	next := func(s []int) []int32 {
		nx := make([]int32, (len(s)+1)*k)
		for q := 0; q < k; q++ {
			nx[len(s)*k+q] = -1
		}
		for i := len(s) - 1; i >= 0; i-- {
			copy(nx[i*k:(i+1)*k], nx[(i+1)*k:(i+2)*k])
			if q := slices.Index(syms, s[i]); q >= 0 {
				nx[i*k+q] = int32(i)
			}
		}
		return nx
	}
	na, nb := next(a), next(b)
	// The recurrence is evaluated top down, so that only the states (i, j) that
	// an optimal solution can pass through are visited (for inputs made of
	// mostly distinct elements these are few).  Every count is >= 1, so 0 marks
	// a state that has not been computed; the depth is bounded by S[0].
	cnt := make([]int64, (m+1)*w)
	var rec func(i, j int) int64
	rec = func(i, j int) int64 {
		at := i*w + j
		if c := cnt[at]; c != 0 {
			return c
		}
		L := S[at]
		if L == 0 {
			cnt[at] = 1
			return 1
		}
		var c int64
		for q := 0; q < k; q++ {
			ia, jb := int(na[i*k+q]), int(nb[j*k+q])
			if ia < 0 || jb < 0 {
				continue
			}
			if S[(ia+1)*w+jb+1]+1 == L {
				c += rec(ia+1, jb+1)
				if c > lcsCountCap {
					c = lcsCountCap
				}
			}
		}
		cnt[at] = c
		return c
	}
	return rec(0, 0)
}

// refLongest is the quadratic DP for the longest strictly increasing
// (strict) or non-decreasing (!strict) subsequence under cmpf.
func refLongest(vs []int, cmpf func(a, b int) int, strict bool) int {
	best := make([]int, len(vs))
	top := 0
	for i := range vs {
		best[i] = 1
		for j := 0; j < i; j++ {
			c := cmpf(vs[j], vs[i])
			if (c < 0 || (!strict && c == 0)) && best[j]+1 > best[i] {
				best[i] = best[j] + 1
			}
		}
		if best[i] > top {
			top = best[i]
		}
	}
	return top
}

// embeds reports whether sub is a subsequence of in, matching elements with
// eq (greedy leftmost embedding, which is complete for any match relation).
func embeds(sub, in []int, eq func(a, b int) bool) bool {
	j := 0
	for _, x := range sub {
		for j < len(in) && !eq(in[j], x) {
			j++
		}
		if j == len(in) {
			return false
		}
		j++
	}
	return true
}

func same(a, b int) bool { return a == b }

// ---------------------------------------------------------------------------
// C11: EditScript.

// EditCase is one input pair of EditScript.
type EditCase struct {
	Lhs []int `json:"lhs"`
	Rhs []int `json:"rhs"`
	// When Buf is set, lhs and rhs are the views Buf[LV[0]:LV[1]] and
	// Buf[RV[0]:RV[1]] of ONE shared backing array (callers diff a slice
	// against a prefix, a suffix or an appended version of itself).
	Buf []int  `json:"buf,omitempty"`
	LV  [2]int `json:"lv,omitempty"`
	RV  [2]int `json:"rv,omitempty"`
	// Big describes two long inputs compactly (used when BigN > 0): lhs is
	// 0..BigN-1 with every value v replaced by v mod BigMod when BigMod > 0
	// (repeats); rhs is lhs without the elements at the indices BigDel and with
	// the value -(j+1) inserted before index BigIns[j].  Swap exchanges the roles.
	BigN   int   `json:"bign,omitempty"`
	BigMod int   `json:"bigmod,omitempty"`
	BigDel []int `json:"bigdel,omitempty"`
	BigIns []int `json:"bigins,omitempty"`
	Swap   bool  `json:"swap,omitempty"`
	// Elem is the element kind EditScript is instantiated with ("" = int, see
	// kinds.go).  LID / RID / BID give the identities of the elements of Lhs /
	// Rhs / Buf by position (missing entries are 0): for the kinds with
	// identities two elements are == iff value AND identity agree, so the same
	// values with different identities are DIFFERENT inputs (for ptr / any:
	// distinct pointers to deeply equal pointees); for f64 an odd identity makes
	// a zero negative, which leaves it == to the other zero; other kinds ignore
	// them.
	Elem string `json:"elem,omitempty"`
	LID  []int  `json:"lid,omitempty"`
	RID  []int  `json:"rid,omitempty"`
	BID  []int  `json:"bid,omitempty"`
	// Share (kind "words" only): elements that are a prefix of another element
	// are re-slices of it, so different strings start at the same address.
	Share bool `json:"share,omitempty"`
	// Rounds: after the first call the inputs are updated IN PLACE (the same
	// backing arrays, the same lengths, other contents) and diffed again, once
	// per round; every call is checked in full against the contents of its
	// moment (a caller that keeps two buffers and refills them).
	Rounds []EditRound `json:"rounds,omitempty"`
	// Then is another input pair, diffed (and checked) after this one.  After
	// every later call of the case - a round or Then - the scripts returned by
	// the earlier calls are compared with copies taken when they were returned:
	// a returned script belongs to the caller.
	Then *EditCase `json:"then,omitempty"`
	// Poison: a call that panics inside the element comparison and is recovered
	// by the caller, made immediately before (or, After, behind) the calls of
	// this case, see Poison.
	Poison *Poison `json:"poison,omitempty"`
}

// Poison describes a call of LCSFunc / LCS / EditScript / LISFunc / LNDSFunc
// whose element comparison PANICS part of the way through, on inputs taken
// from the case it belongs to (its two sequences as ints, at most poisonMaxLen
// elements each).  The panic is the caller's own doing - a comparison function
// that panics, or interface elements that hold slices on both sides, for
// which Go's == panics - and no violation; the caller recovers it.  The
// functions are pure, so whatever the aborted call left behind (a pooled
// buffer handed back half-filled, a memo, a lock) must not matter: the
// ordinary calls of the case, made next in the same goroutine, and those of the
// following case must be right.
type Poison struct {
	// Fn: "lcsfunc" LCSFunc with an equality that panics when it is called for
	// the (J mod (total+1))+1-th time, total = len(a)*len(b) (so sometimes never);
	// "lis" / "lnds": LISFunc / LNDSFunc on the first sequence with a comparison
	// that panics likewise (total = 2*len); "editany" / "lcsany": EditScript /
	// LCS on []any holding the ints, with a[P mod len(a)] and b[Q mod len(b)]
	// replaced by slice values ([]int): comparing THOSE two panics with a
	// run-time error, every other pair of elements compares as usual.
	Fn      string `json:"fn"`
	J, P, Q int    `json:",omitempty"`
	// After: the poison call is made after the calls of the case instead of
	// before them (the next case runs in its wake).
	After bool `json:"after,omitempty"`
}

const poisonMaxLen = 300

type poisonPanic struct{}

// run makes the poison call on (a, b) and swallows ITS panic - the one raised
// by the comparison - and nothing else: a different panic value in the modes
// with a comparison function means that the function under test failed by
// itself on valid arguments, before the comparison gave up.
func (p *Poison) run(a, b []int) string {
	a, b = a[:min(len(a), poisonMaxLen)], b[:min(len(b), poisonMaxLen)]
	calls := 0
	limit := func(total int) int { return (p.J%(total+1) + (total + 1)) % (total + 1) }
	var pv any
	var what string
	switch p.Fn {
	case "lcsfunc":
		at := limit(len(a) * len(b))
		what = fmt.Sprintf("LCSFunc(%s, %s, eq) with an eq that panics in its call #%d", brief(a), brief(b), at+1)
		pv = vk.PanicValue(func() {
			slice.LCSFunc(slices.Clone(a), slices.Clone(b), func(x, y int) bool {
				if calls++; calls > at {
					panic(poisonPanic{})
				}
				return x == y
			})
		})
	case "lis", "lnds":
		at := limit(2 * len(a))
		what = fmt.Sprintf("%sFunc(%s, cmp) with a cmp that panics in its call #%d", map[bool]string{true: "LIS", false: "LNDS"}[p.Fn == "lis"], brief(a), at+1)
		cf := func(x, y int) int {
			if calls++; calls > at {
				panic(poisonPanic{})
			}
			return cmp.Compare(x, y)
		}
		pv = vk.PanicValue(func() {
			if p.Fn == "lis" {
				slice.LISFunc(slices.Clone(a), cf)
			} else {
				slice.LNDSFunc(slices.Clone(a), cf)
			}
		})
	case "editany", "lcsany":
		if len(a) == 0 || len(b) == 0 {
			return ""
		}
		xa, xb := make([]any, len(a)), make([]any, len(b))
		for i, v := range a {
			xa[i] = v
		}
		for i, v := range b {
			xb[i] = v
		}
		xa[(p.P%len(a)+len(a))%len(a)] = []int{1}
		xb[(p.Q%len(b)+len(b))%len(b)] = []int{1}
		vk.PanicValue(func() { // a run-time error of ==: the caller's doing, whatever it says
			if p.Fn == "editany" {
				slice.EditScript(xa, xb)
			} else {
				slice.LCS(xa, xb)
			}
		})
		return ""
	default:
		return fmt.Sprintf("VK-INFRA unknown poison fn %q", p.Fn)
	}
	if _, mine := pv.(poisonPanic); pv != nil && !mine {
		return what + fmt.Sprintf(": panicked by itself, before the comparison did (after %d calls of it): %v", calls, pv)
	}
	return ""
}

// poisoned wraps the check of a case with its poison call; a and b are the
// sequences of the case.
func poisoned(p *Poison, a, b []int, check func() (info, string)) (info, string) {
	if p == nil {
		return check()
	}
	if !p.After {
		if m := p.run(a, b); m != "" {
			return info{}, m
		}
	}
	in, m := check()
	if m != "" {
		if !p.After {
			m = fmt.Sprintf("[directly after a %s call on similar inputs whose element comparison panicked and was recovered by the caller (poison %+v)] ", p.Fn, *p) + m
		}
		return in, m
	}
	if p.After {
		m = p.run(a, b)
	}
	return in, m
}

// EditRound is one in-place update of the inputs of an EditCase.  Same copies
// lhs over rhs first (as far as the shorter of the two goes); L and R are
// writes {position modulo the length, value, identity} into lhs and rhs.
type EditRound struct {
	Same bool     `json:"same,omitempty"`
	L    [][3]int `json:"l,omitempty"`
	R    [][3]int `json:"r,omitempty"`
}

// lcsLen is the two-row dynamic programme for the LCS length (long inputs).
func lcsLen(a, b []int) int {
	if len(b) > len(a) {
		a, b = b, a
	}
	prev, cur := make([]int32, len(b)+1), make([]int32, len(b)+1)
	for i := 1; i <= len(a); i++ {
		for j := 1; j <= len(b); j++ {
			if a[i-1] == b[j-1] {
				cur[j] = prev[j-1] + 1
			} else {
				cur[j] = max(prev[j], cur[j-1])
			}
		}
		prev, cur = cur, prev
	}
	return int(prev[len(b)])
}

var c11Names = append([]string{
	"inputs_equal", "an_input_empty", "lcs_len=0", "script_has_replace", "script_edits>=5",
	"distinct_lcs=1", "distinct_lcs=2..9", "distinct_lcs>=10", "len>=30", "len(lhs)*len(rhs)>2^20", "len(lhs)*len(rhs)>2^24",
	"same_values_but_different_elements", "equal_elements_that_are_distinguishable(+0,-0)",
	"rediffed_after_in_place_update", "rediffed_in_place_with_len(lhs)*len(rhs)>=4096", "followed_by_another_input_pair",
	"len(lhs)+len(rhs)_or_product_is_64|100|128|200|256|512|1000|1024",
}, elemClassNames...)

const (
	c11Equal = iota
	c11Empty
	c11LCS0
	c11Replace
	c11Edits5
	c11One
	c11Few
	c11Many
	c11Long
	c11Big
	c11Big24
	c11Twins
	c11Zeros
	c11Rounds
	c11Rounds4096
	c11Then
	c11RoundSize
	c11Elem // first of the elem=<kind> classes
)

func opName(op slice.EditOp) string {
	switch op {
	case slice.OpDrop:
		return "Drop"
	case slice.OpEmit:
		return "Emit"
	case slice.OpCopy:
		return "Copy"
	case slice.OpReplace:
		return "Replace"
	}
	return fmt.Sprintf("Op(%d)", byte(op))
}

// spanOf reports whether s is exactly in[pos:pos+len(s)]: the same backing
// array at that offset and (therefore, and also checked against the pristine
// copy) the same contents.
func spanOf[T any](k *ek[T], s, in, pristine []T, pos int) string {
	if pos+len(s) > len(in) {
		return fmt.Sprintf("span of length %d at offset %d runs past the end of the input (length %d)", len(s), pos, len(in))
	}
	if len(s) > 0 && !k.flat && &s[0] != &in[pos] {
		return fmt.Sprintf("span %v does not share storage with the input at offset %d", k.brief(s), pos)
	}
	if !k.equal(s, pristine[pos:pos+len(s)]) {
		return fmt.Sprintf("span holds %v, the input at offset %d holds %v", k.brief(s), pos, k.brief(pristine[pos:pos+len(s)]))
	}
	return ""
}

// checkEdit instantiates the check with the element kind of the case.
func checkEdit(c EditCase) (info, string) { return checkEditObs(c, nil) }

// checkEditObs: o (may be nil) receives the re-validation of the returned
// scripts, see vk.Obs.Retain.
func checkEditObs(c EditCase, o *vk.Obs) (info, string) {
	if c.Poison == nil {
		return checkEditKind(c, o)
	}
	a, b := c.Lhs, c.Rhs
	if c.Buf != nil {
		l0, l1 := window(c.LV, len(c.Buf))
		r0, r1 := window(c.RV, len(c.Buf))
		a, b = c.Buf[l0:l1], c.Buf[r0:r1]
	}
	if c.BigN > 0 {
		a = make([]int, poisonMaxLen)
		for i := range a {
			a[i] = i
		}
		b = a[3:]
	}
	return poisoned(c.Poison, a, b, func() (info, string) { return checkEditKind(c, o) })
}

func checkEditKind(c EditCase, o *vk.Obs) (info, string) {
	switch c.Elem {
	case "", elem.Int:
		return checkEditOf(c, intKit(), o)
	case elem.Str:
		return checkEditOf(c, strKit(), o)
	case kindWords:
		return checkEditOf(c, wordsKit(c.Share), o)
	case elem.I16:
		return checkEditOf(c, i16Kit(), o)
	case elem.Wide:
		return checkEditOf(c, wideKit(), o)
	case elem.Ptr:
		return checkEditOf(c, ptrKit(), o)
	case elem.Any:
		return checkEditOf(c, anyKit(), o)
	case elem.F64:
		return checkEditOf(c, f64Kit(), o)
	case kindUnit:
		return checkEditOf(c, zeroKit[struct{}](kindUnit), o)
	case kindZarr:
		return checkEditOf(c, zeroKit[[0]int](kindZarr), o)
	}
	return info{}, badKind("EditScript", c.Elem)
}

// editHdr is what a caller can see of one edit without looking at the
// elements: the opcode and WHICH spans of lhs and rhs X and Y are.
type editHdr[T any] struct {
	op     slice.EditOp
	xp, yp *T
	xn, yn int
	l0, r0 int // the offsets of the spans in lhs and rhs
}

func (h editHdr[T]) String() string {
	return fmt.Sprintf("%s(X=lhs[%d:%d], Y=rhs[%d:%d])", opName(h.op), h.l0, h.l0+h.xn, h.r0, h.r0+h.yn)
}

func firstPtr[T any](s []T) *T {
	if len(s) == 0 {
		return nil
	}
	return &s[0]
}

// keptScript is a script as it was returned (and verified), with the copy it
// is compared with later.
type keptScript[T any] struct {
	call   int
	script []slice.Edit[T]
	hdr    []editHdr[T]
}

// changed reports the first edit of the script that is no longer what it was.
func (ks *keptScript[T]) changed() string {
	for i, e := range ks.script {
		h := ks.hdr[i]
		if e.Op != h.op || len(e.X) != h.xn || len(e.Y) != h.yn || firstPtr(e.X) != h.xp || firstPtr(e.Y) != h.yp {
			return fmt.Sprintf("edit #%d of %d was %v and is now %s with %d/%d elements (X %s, Y %s)", i, len(ks.script), h, opName(e.Op), len(e.X), len(e.Y),
				sameOrNot(firstPtr(e.X) == h.xp), sameOrNot(firstPtr(e.Y) == h.yp))
		}
	}
	return ""
}

func sameOrNot(same bool) string {
	if same {
		return "starts where it did"
	}
	return "starts somewhere else"
}

func fullIDs(ids []int, n int) []int {
	out := make([]int, n)
	for i := range out {
		out[i] = idAt(ids, i)
	}
	return out
}

func checkEditOf[T comparable](c EditCase, k *ek[T], o *vk.Obs) (in info, msg string) {
	if c.BigN > 0 {
		n := min(c.BigN, 9000)
		c.Lhs = make([]int, n)
		for i := range c.Lhs {
			c.Lhs[i] = i
			if c.BigMod > 0 {
				c.Lhs[i] = i % c.BigMod
			}
		}
		del := map[int]bool{}
		for _, d := range c.BigDel {
			del[d] = true
		}
		ins := map[int][]int{}
		for j, p := range c.BigIns {
			ins[p] = append(ins[p], -(j + 1))
		}
		c.Rhs = nil
		for i := 0; i <= n; i++ {
			c.Rhs = append(c.Rhs, ins[i]...)
			if i < n && !del[i] {
				c.Rhs = append(c.Rhs, c.Lhs[i])
			}
		}
		if c.Swap {
			c.Lhs, c.Rhs = c.Rhs, c.Lhs
		}
	}
	if k.flat {
		// one value: the sequences are their lengths (the case is shared data)
		if c.BigN > 0 {
			c.Lhs, c.Rhs = c.Lhs[:min(len(c.Lhs), 1200)], c.Rhs[:min(len(c.Rhs), 1200)]
		}
		c.Lhs, c.Rhs, c.LID, c.RID, c.BID = zeros(len(c.Lhs)), zeros(len(c.Rhs)), nil, nil, nil
		if c.Buf != nil {
			c.Buf = zeros(len(c.Buf))
		}
		rounds := make([]EditRound, len(c.Rounds))
		for i, rd := range c.Rounds {
			rounds[i] = EditRound{Same: rd.Same}
			for _, w := range rd.L {
				rounds[i].L = append(rounds[i].L, [3]int{w[0], 0, 0})
			}
			for _, w := range rd.R {
				rounds[i].R = append(rounds[i].R, [3]int{w[0], 0, 0})
			}
		}
		c.Rounds = rounds
	}
	if len(c.Rounds) > 0 {
		// the rounds rewrite the model of the inputs; the case itself is data
		// that other executions share
		if c.Buf != nil {
			c.Buf, c.BID = slices.Clone(c.Buf), fullIDs(c.BID, len(c.Buf))
		} else {
			c.Lhs, c.LID = slices.Clone(c.Lhs), fullIDs(c.LID, len(c.Lhs))
			c.Rhs, c.RID = slices.Clone(c.Rhs), fullIDs(c.RID, len(c.Rhs))
		}
	}
	// the values and identities of the two windows of Buf
	win := func(w [2]int) (vs, ids []int) {
		vs = slices.Clone(c.Buf[w[0]:w[1]])
		for i := range vs {
			ids = append(ids, idAt(c.BID, w[0]+i))
		}
		return
	}
	if c.Buf != nil {
		c.Lhs, c.LID = win(c.LV)
		c.Rhs, c.RID = win(c.RV)
	}
	if m := k.allFit(c.Lhs, c.Rhs, c.Buf); m != "" {
		return in, m
	}
	// The elements: the same (value, identity) is the same element wherever
	// it occurs in the two inputs.
	var lhs, rhs, buf []T
	if c.Buf != nil {
		buf = k.all(c.Buf, c.BID)
		lhs, rhs = buf[c.LV[0]:c.LV[1]], buf[c.RV[0]:c.RV[1]]
	} else {
		lhs, rhs = k.all(c.Lhs, c.LID), k.all(c.Rhs, c.RID)
	}
	name := "EditScript" + k.tag

	// the scripts returned so far, and their re-validation
	var kept []*keptScript[T]
	recheck := func(when string) string {
		for _, ks := range kept {
			if m := ks.changed(); m != "" {
				return fmt.Sprintf("%s(lhs=%s, rhs=%s): the script returned by call #%d of this case was valid when it was returned and has changed %s: %s", name, k.brief(lhs), k.brief(rhs), ks.call, when, m)
			}
		}
		return ""
	}

	// diff calls EditScript on the inputs as they are now and checks the
	// result; call counts from 1.  The classification is that of the first call.
	diff := func(call int) string {
		if c.Buf != nil && call > 1 {
			c.Lhs, c.LID = win(c.LV)
			c.Rhs, c.RID = win(c.RV)
		}
		big := len(c.Lhs)*len(c.Rhs) > 1<<20
		pl, pr := slices.Clone(lhs), slices.Clone(rhs) // the inputs as they were
		// cl and cr are what the references see
		cl, cr := k.codes(c.Lhs, c.LID), k.codes(c.Rhs, c.RID)
		errf := func(format string, args ...any) string {
			nth := ""
			if call > 1 {
				nth = fmt.Sprintf(" [call #%d of the case: the same two backing arrays as in the calls before, updated in place]", call)
			}
			return fmt.Sprintf("%s(lhs=%s, rhs=%s)%s: ", name, k.brief(pl), k.brief(pr), nth) + fmt.Sprintf(format, args...)
		}
		var script []slice.Edit[T]
		if pv := vk.PanicValue(func() { script = slice.EditScript(lhs, rhs) }); pv != nil {
			return errf("panicked: %v", pv)
		}
		if !k.equal(lhs, pl) {
			return errf("lhs was modified, now %s", k.brief(lhs))
		}
		if !k.equal(rhs, pr) {
			return errf("rhs was modified, now %s", k.brief(rhs))
		}
		// edits are printed through their elements' texts (for int: as before)
		disp := func(e slice.Edit[T]) slice.Edit[string] {
			return slice.Edit[string]{Op: e.Op, X: k.shows(e.X), Y: k.shows(e.Y)}
		}
		dispAll := func() []slice.Edit[string] {
			out := make([]slice.Edit[string], len(script))
			for i, e := range script {
				out[i] = disp(e)
			}
			return out
		}

		// (validity) execute the script.
		lpos, rpos, emitted := 0, 0, 0
		var out []T    // what the script produces
		var outC []int // ... as the references see it
		hdr := make([]editHdr[T], 0, len(script))
		for i, e := range script {
			l0, r0 := lpos, rpos // offsets before this edit
			where := func(format string, args ...any) string {
				if len(script) > 40 || len(e.X)+len(e.Y) > 200 {
					return errf("script of %d edits, edit #%d %s with %d/%d elements (at lhs offset %d, rhs offset %d): ", len(script), i, opName(e.Op), len(e.X), len(e.Y), l0, r0) + fmt.Sprintf(format, args...)
				}
				return errf("script %v, edit #%d %v (at lhs offset %d, rhs offset %d): ", dispAll(), i, disp(e), l0, r0) + fmt.Sprintf(format, args...)
			}
			useX, useY := false, false
			switch e.Op {
			case slice.OpDrop:
				useX = true
			case slice.OpEmit:
				useX = true
			case slice.OpCopy:
				useY = true
			case slice.OpReplace:
				useX, useY = true, true
			default:
				return where("unknown opcode %d", byte(e.Op))
			}
			if useX && len(e.X) == 0 {
				return where("%s with empty X (no empty edits / Replace needs both sides)", opName(e.Op))
			}
			if useY && len(e.Y) == 0 {
				return where("%s with empty Y (no empty edits / Replace needs both sides)", opName(e.Op))
			}
			if !useX && len(e.X) != 0 {
				return where("%s must have empty X, has %v", opName(e.Op), k.shows(e.X))
			}
			if !useY && len(e.Y) != 0 {
				return where("%s must have empty Y, has %v", opName(e.Op), k.shows(e.Y))
			}
			if useX {
				if m := spanOf(k, e.X, lhs, pl, lpos); m != "" {
					return where("X is not the span of lhs at the current offset: %s", m)
				}
			}
			if useY {
				if m := spanOf(k, e.Y, rhs, pr, rpos); m != "" {
					return where("Y is not the span of rhs at the current offset: %s", m)
				}
			}
			// from here on X is lhs[lpos:lpos+len(X)] and Y is rhs[rpos:rpos+len(Y)]
			hdr = append(hdr, editHdr[T]{op: e.Op, xp: firstPtr(e.X), yp: firstPtr(e.Y), xn: len(e.X), yn: len(e.Y), l0: l0, r0: r0})
			switch e.Op {
			case slice.OpDrop:
				lpos += len(e.X)
			case slice.OpEmit:
				// the emitted lhs elements must be (==) the next rhs elements
				if rpos+len(e.X) > len(rhs) || !slices.Equal(cl[lpos:lpos+len(e.X)], cr[rpos:rpos+len(e.X)]) {
					return where("emitting %v does not produce the next elements of rhs %v", k.shows(e.X), k.brief(pr[min(rpos, len(pr)):]))
				}
				out = append(out, e.X...)
				outC = append(outC, cl[lpos:lpos+len(e.X)]...)
				emitted += len(e.X)
				lpos += len(e.X)
				rpos += len(e.X)
			case slice.OpCopy:
				out = append(out, e.Y...)
				outC = append(outC, cr[rpos:rpos+len(e.Y)]...)
				rpos += len(e.Y)
			case slice.OpReplace:
				out = append(out, e.Y...)
				outC = append(outC, cr[rpos:rpos+len(e.Y)]...)
				lpos += len(e.X)
				rpos += len(e.Y)
			}
			// (canonical form) relations between neighbours
			if i > 0 {
				p := script[i-1].Op
				if p == e.Op {
					return where("two adjacent %s edits", opName(e.Op))
				}
				if (p == slice.OpDrop && e.Op == slice.OpCopy) || (p == slice.OpCopy && e.Op == slice.OpDrop) {
					return where("%s adjacent to %s is not fused into one Replace", opName(p), opName(e.Op))
				}
			}
			if call == 1 {
				in.setIf(e.Op == slice.OpReplace, c11Replace)
			}
		}
		if len(script) > 0 {
			if lpos != len(lhs) {
				return errf("script %v consumes %d of %d lhs elements", dispAll(), lpos, len(lhs))
			}
			if rpos != len(rhs) || !slices.Equal(outC, cr) {
				return errf("script %v produces %s, want rhs", dispAll(), k.brief(out))
			}
		}
		// lhs == rhs, by the equality of the element type: the same values AND
		// the same identities (which f64 does not have: +0 == -0)
		eq := slices.Equal(cl, cr)
		if eq != (len(script) == 0) {
			if eq {
				return errf("inputs are equal but the script is not empty: %v", dispAll())
			}
			return errf("inputs differ but the script is empty")
		}
		if len(script) == 0 {
			emitted = len(lhs) // the empty script means: output equals input
		} else {
			kept = append(kept, &keptScript[T]{call: call, script: script, hdr: hdr})
		}

		// (minimality) kept elements == LCS length by the reference table.
		if big {
			if want := lcsLen(cl, cr); emitted != want {
				return errf("script of %d edits keeps %d elements, a longest common subsequence has %d", len(script), emitted, want)
			}
			if call == 1 {
				in.nt = c.BigMod > 0
				in.set(c11Long)
				in.set(c11Big)
				in.setIf(len(lhs)*len(rhs) > 1<<24, c11Big24)
				in.setIf(len(script) >= 5, c11Edits5)
			}
			return ""
		}
		S := lcsTable(cl, cr)
		if want := int(S[0]); emitted != want {
			return errf("script %v keeps %d elements, a longest common subsequence has %d", dispAll(), emitted, want)
		}
		if call > 1 {
			return ""
		}

		// classification
		n := countDistinctLCS(cl, cr, S)
		in.nt = n >= 2
		in.setIf(eq, c11Equal)
		in.setIf(len(lhs) == 0 || len(rhs) == 0, c11Empty)
		in.setIf(S[0] == 0, c11LCS0)
		in.setIf(len(script) >= 5, c11Edits5)
		in.setIf(n == 1, c11One)
		in.setIf(n >= 2 && n <= 9, c11Few)
		in.setIf(n >= 10, c11Many)
		in.setIf(len(lhs) >= 30 || len(rhs) >= 30, c11Long)
		in.setIf(!eq && slices.Equal(c.Lhs, c.Rhs), c11Twins)
		in.setIf(roundNumber(len(lhs)+len(rhs)) || roundNumber(len(lhs)*len(rhs)), c11RoundSize)
		if k.kind == elem.F64 {
			in.setIf(hasNegZero(c.Lhs, c.LID) || hasNegZero(c.Rhs, c.RID), c11Zeros)
		}
		return ""
	}

	if m := diff(1); m != "" {
		return in, m
	}
	in.set(c11Elem + elemClass(k.kind))

	// the rounds: update in place, diff again
	for r, rd := range c.Rounds {
		// write puts the element (v, id) at position p of a side (0 lhs, 1 rhs)
		write := func(side, p, v, id int) string {
			if !k.fits(v) {
				return k.allFit([]int{v})
			}
			id &= 1<<idBits - 1
			x := k.get(v, id)
			switch {
			case c.Buf != nil:
				w := c.LV
				if side == 1 {
					w = c.RV
				}
				if n := w[1] - w[0]; n > 0 {
					i := w[0] + (p%n+n)%n
					c.Buf[i], c.BID[i], buf[i] = v, id, x
				}
			case side == 0 && len(lhs) > 0:
				i := (p%len(lhs) + len(lhs)) % len(lhs)
				c.Lhs[i], c.LID[i], lhs[i] = v, id, x
			case side == 1 && len(rhs) > 0:
				i := (p%len(rhs) + len(rhs)) % len(rhs)
				c.Rhs[i], c.RID[i], rhs[i] = v, id, x
			}
			return ""
		}
		if rd.Same {
			n := min(len(lhs), len(rhs))
			copy(rhs[:n], lhs[:n]) // (windows of one buffer may overlap: copy moves as memmove does)
			if c.Buf != nil {
				copy(c.Buf[c.RV[0]:c.RV[0]+n], c.Buf[c.LV[0]:c.LV[0]+n])
				copy(c.BID[c.RV[0]:c.RV[0]+n], c.BID[c.LV[0]:c.LV[0]+n])
			} else {
				copy(c.Rhs[:n], c.Lhs[:n])
				copy(c.RID[:n], c.LID[:n])
			}
		}
		for _, w := range rd.L {
			if m := write(0, w[0], w[1], w[2]); m != "" {
				return in, m
			}
		}
		for _, w := range rd.R {
			if m := write(1, w[0], w[1], w[2]); m != "" {
				return in, m
			}
		}
		if m := diff(r + 2); m != "" {
			return in, m
		}
		if m := recheck("after the inputs were updated in place and diffed again"); m != "" {
			return in, m
		}
		in.set(c11Rounds)
		in.setIf(len(lhs)*len(rhs) >= 4096, c11Rounds4096)
	}

	if c.Then != nil {
		if _, m := checkEditObs(*c.Then, o); m != "" {
			return in, "[the second input pair of the case] " + m
		}
		if m := recheck("after EditScript was called with another pair of inputs"); m != "" {
			return in, m
		}
		in.set(c11Then)
	}
	if len(kept) > 0 {
		o.Retain(func() string { return recheck("after the next case had run") })
	}
	return in, ""
}

// roundNumber: the sizes fixed-size buffers and thresholds tend to have.
func roundNumber(n int) bool {
	return near(n, 64, 100, 128, 200, 256, 512, 1000, 1024)
}

// hasNegZero: some zero of the f64 sequence (vs, ids) is negative.
func hasNegZero(vs, ids []int) bool {
	for i, v := range vs {
		if v == 0 && idAt(ids, i)&1 == 1 {
			return true
		}
	}
	return false
}

func runC11(c EditCase, o *vk.Obs) string {
	in, msg := checkEditObs(c, o)
	if msg == "" {
		in.obs(o, c11Names)
	}
	if msg == "" && c.Elem == elem.Any && c.BigN == 0 && c.Buf == nil && len(c.Lhs) > 0 && len(c.Lhs)+len(c.Rhs) <= 64 {
		if msg = checkEditUnhashable(c); msg == "" {
			o.Class("interface_elements_with_one_unhashable_value")
		}
	}
	return msg
}

// checkEditUnhashable: EditScript on []any whose elements are plain ints,
// except ONE element of lhs, which holds a slice (a dynamic type that can be
// neither hashed nor compared with ==).  Since no other element has that
// dynamic type, == never compares two slices, so the call is legitimate: the
// odd element simply equals nothing.  The script must exist (no panic), turn
// lhs into rhs, and keep as many elements as a longest common subsequence of
// the ints with the odd element replaced by a value that occurs nowhere else.
func checkEditUnhashable(c EditCase) string {
	p := (len(c.Lhs)*7 + len(c.Rhs)) % len(c.Lhs)
	lhs, rhs := make([]any, len(c.Lhs)), make([]any, len(c.Rhs))
	li := slices.Clone(c.Lhs)
	for i, v := range c.Lhs {
		lhs[i] = v
	}
	for i, v := range c.Rhs {
		rhs[i] = v
	}
	lhs[p], li[p] = []int{c.Lhs[p]}, math.MinInt+12345 // equals nothing
	errf := func(format string, args ...any) string {
		return fmt.Sprintf("EditScript[any](lhs=%v with element #%d replaced by the slice value %v, rhs=%v; all other elements are ints): ", c.Lhs, p, lhs[p], c.Rhs) + fmt.Sprintf(format, args...)
	}
	var script []slice.Edit[any]
	if pv := vk.PanicValue(func() { script = slice.EditScript(lhs, rhs) }); pv != nil {
		return errf("panicked: %v", pv)
	}
	lpos, kept := 0, 0
	var out []any
	for _, e := range script {
		switch e.Op {
		case slice.OpDrop:
			lpos += len(e.X)
		case slice.OpEmit:
			out = append(out, e.X...)
			kept += len(e.X)
			lpos += len(e.X)
		case slice.OpCopy:
			out = append(out, e.Y...)
		case slice.OpReplace:
			out = append(out, e.Y...)
			lpos += len(e.X)
		}
	}
	same := len(out) == len(rhs)
	for i := 0; same && i < len(out); i++ {
		v, ok := out[i].(int)
		same = ok && v == c.Rhs[i]
	}
	if len(script) > 0 && (!same || lpos != len(lhs)) {
		return errf("the script consumes %d of %d lhs elements and produces %v, want rhs", lpos, len(lhs), out)
	}
	if len(script) == 0 {
		return errf("the script is empty although lhs holds an element that rhs cannot hold")
	}
	if want := lcsLen(li, c.Rhs); kept != want {
		return errf("the script keeps %d elements, a longest common subsequence has %d", kept, want)
	}
	return ""
}

// ---------------------------------------------------------------------------
// C12, part 1: LIS / LNDS.

// SeqCase is one input of LIS and LNDS with the comparison to use: "" or
// "nat" (LIS/LNDS, natural order), "rev" (LISFunc/LNDSFunc with the reversed
// order), "half" (…Func comparing v>>1, so that distinct elements compare
// equal and the identity of the returned elements is observable).
type SeqCase struct {
	Vs  []int  `json:"vs"`
	Cmp string `json:"cmp,omitempty"`
	// Segs describes a long input compactly (used when Vs is empty): the
	// concatenation of arithmetic runs {start, step, length}.
	Segs [][3]int `json:"segs,omitempty"`
	// Wide stretches the values linearly over the whole int range, so that
	// differences of elements overflow.  The order of the elements is unchanged.
	Wide bool `json:"wide,omitempty"`
	// Elem is the element kind ("" = int, see kinds.go).  The natural order
	// (LIS / LNDS) needs an ordered kind: int, string, i16, f64; the …Func
	// variants take every kind, and with a kind that has identities every
	// position holds an element of its own (equal values, different elements).
	// Wide stretches over the value range of the kind.
	Elem string `json:"elem,omitempty"`
	// Neg and NaN (kind f64 only) are positions, taken modulo the length.  A
	// zero at a position of Neg is -0.0 (== +0.0: equal in every order used
	// here).  With the natural order the element at a position of NaN is a
	// NaN, whatever Vs holds there.
	Neg []int `json:"neg,omitempty"`
	NaN []int `json:"nan,omitempty"`
	// Poison: see EditCase (the sequences of the poison call are the first
	// elements of the input, twice).
	Poison *Poison `json:"poison,omitempty"`
}

// widen maps the values linearly onto the range [klo, khi] (the whole int
// range for int elements): the smallest becomes klo, the largest (nearly)
// khi; the order of the elements is unchanged.  Values that span more than
// the range are left alone.
func widen(vs []int, klo, khi int) []int {
	if len(vs) == 0 {
		return vs
	}
	lo, hi := slices.Min(vs), slices.Max(vs)
	if lo == hi {
		return vs
	}
	step := (uint64(khi) - uint64(klo)) / uint64(hi-lo)
	if step == 0 {
		return vs
	}
	out := make([]int, len(vs))
	for i, v := range vs {
		out[i] = int(uint64(klo) + uint64(v-lo)*step) // two's complement: klo + offset
	}
	return out
}

// refLongestFast is the patience-sorting reference for long inputs: tails[l]
// is the smallest possible last element of a qualifying subsequence of
// length l+1; each element replaces the first tail it does not extend.
func refLongestFast(vs []int, cmpf func(a, b int) int, strict bool) int {
	var tails []int
	for _, v := range vs {
		// first tail t that v cannot follow: t >= v (strict) or t > v
		lo, hi := 0, len(tails)
		for lo < hi {
			mid := lo + (hi-lo)/2
			c := cmpf(tails[mid], v)
			if c < 0 || (!strict && c == 0) {
				lo = mid + 1
			} else {
				hi = mid
			}
		}
		if lo == len(tails) {
			tails = append(tails, v)
		} else {
			tails[lo] = v
		}
	}
	return len(tails)
}

// minAtPow2 reports whether, reading vs from the left, an element strictly
// below everything before it arrives at a moment when the longest
// non-decreasing subsequence so far has exactly 2^k >= 32 elements.
func minAtPow2(vs []int, cmpf func(a, b int) int) bool {
	if len(vs) <= 32 {
		return false
	}
	var tails []int
	lowest := vs[0]
	for i, v := range vs {
		if l := len(tails); i > 0 && l >= 32 && l&(l-1) == 0 && cmpf(v, lowest) < 0 {
			return true
		}
		if i > 0 && cmpf(v, lowest) < 0 {
			lowest = v
		}
		lo := sort.Search(len(tails), func(j int) bool { return cmpf(tails[j], v) > 0 })
		if lo == len(tails) {
			tails = append(tails, v)
		} else {
			tails[lo] = v
		}
	}
	return false
}

var c12SeqNames = append([]string{
	"cmp=nat", "cmp=rev", "cmp=half", "empty", "all_equivalent", "whole_input_nondecreasing",
	"strictly_decreasing", "has_adjacent_equal_run", "lnds>lis", "lnds>=lis+3", "len>=50",
	"len>32768", "len>65536", "optimum>32768", "optimum>65536", "values_span_more_than_half_the_int_range",
	"f64_input_has_NaN", "f64_input_has_-0", "new_strict_minimum_arrives_when_the_lnds_optimum_is_2^k>=32",
}, elemClassNames...)

const (
	c12Nat = iota
	c12Rev
	c12Half
	c12SeqEmpty
	c12AllEq
	c12Sorted
	c12Desc
	c12Run
	c12Diff
	c12Diff3
	c12SeqLong
	c12Seq15
	c12Seq16
	c12Opt15
	c12Opt16
	c12Wide
	c12NaN
	c12NegZero
	c12MinPow2
	c12SeqElem // first of the elem=<kind> classes
)

// natural calls LIS / LNDS at an ordered element type.
func natural[T cmp.Ordered](vs []T, strict bool) []T {
	if strict {
		return slice.LIS(vs)
	}
	return slice.LNDS(vs)
}

// checkSeq instantiates the check with the element kind of the case.
func checkSeq(c SeqCase) (info, string) { return checkSeqObs(c, nil) }

// checkSeqObs: o (may be nil) receives the re-validation of the returned
// slices, see vk.Obs.Retain.
func checkSeqObs(c SeqCase, o *vk.Obs) (info, string) {
	if c.Poison == nil {
		return checkSeqKind(c, o)
	}
	a := slices.Clip(c.Vs)
	for _, sg := range c.Segs {
		for i := 0; i < sg[2] && len(a) < poisonMaxLen; i++ {
			a = append(a, sg[0]+i*sg[1])
		}
	}
	return poisoned(c.Poison, a, a, func() (info, string) { return checkSeqKind(c, o) })
}

func checkSeqKind(c SeqCase, o *vk.Obs) (info, string) {
	switch c.Elem {
	case "", elem.Int:
		return checkSeqOf(c, intKit(), natural[int], o)
	case elem.Str:
		return checkSeqOf(c, strKit(), natural[string], o)
	case elem.I16:
		return checkSeqOf(c, i16Kit(), natural[int16], o)
	case elem.F64:
		return checkSeqOf(c, f64Kit(), natural[float64], o)
	case elem.Wide:
		return checkSeqOf(c, wideKit(), nil, o)
	case elem.Ptr:
		return checkSeqOf(c, ptrKit(), nil, o)
	case elem.Any:
		return checkSeqOf(c, anyKit(), nil, o)
	case elem.Bytes:
		return checkSeqOf(c, bytesKit(), nil, o)
	case kindUnit:
		return checkSeqOf(c, zeroKit[struct{}](kindUnit), nil, o)
	case kindZarr:
		return checkSeqOf(c, zeroKit[[0]int](kindZarr), nil, o)
	case kindZfn:
		return checkSeqOf(c, zeroKit[[0]func()](kindZfn), nil, o)
	}
	return info{}, badKind("LIS/LNDS", c.Elem)
}

// embedsT is embeds on elements: the result must consist of the very
// elements of the input (k.strict), in their order.
func embedsT[T any](k *ek[T], sub, in []T) bool {
	j := 0
	for _, x := range sub {
		for j < len(in) && !k.strict(in[j], x) {
			j++
		}
		if j == len(in) {
			return false
		}
		j++
	}
	return true
}

// checkSeqOf: nat is nil when the kind has no natural order.
func checkSeqOf[T any](c SeqCase, k *ek[T], nat func(vs []T, strict bool) []T, o *vk.Obs) (in info, msg string) {
	if len(c.Vs) == 0 && len(c.Segs) > 0 {
		for _, sg := range c.Segs {
			for i := 0; i < sg[2]; i++ {
				c.Vs = append(c.Vs, sg[0]+i*sg[1])
			}
		}
	}
	if k.flat {
		c.Vs = zeros(len(c.Vs)) // one value: the input is its length
	}
	if c.Wide && c.Cmp != "diff" && c.Cmp != "half" { // a-b is not an ordering once differences overflow
		c.Vs = widen(c.Vs, k.lo, k.hi)
	} else {
		c.Wide = false
	}
	var cmpf func(a, b int) int
	natural := false
	switch c.Cmp {
	case "rev":
		cmpf = func(a, b int) int { return cmp.Compare(b, a) }
		in.set(c12Rev)
	case "half":
		cmpf = func(a, b int) int { return cmp.Compare(a>>1, b>>1) }
		in.set(c12Half)
	case "extreme": // the documentation only promises the sign to matter
		cmpf = func(a, b int) int {
			switch {
			case a < b:
				return math.MinInt
			case a > b:
				return math.MaxInt
			}
			return 0
		}
		in.set(c12Rev) // counted with the custom comparisons
	case "diff":
		cmpf = func(a, b int) int { return a - b }
		in.set(c12Rev)
	default:
		cmpf = func(a, b int) int { return cmp.Compare(a, b) }
		natural = true
		in.set(c12Nat)
	}
	if natural && nat == nil {
		return in, badKind("LIS/LNDS (natural order)", c.Elem)
	}
	if m := k.allFit(c.Vs); m != "" {
		return in, m
	}
	in.set(c12SeqElem + elemClass(k.kind))
	n := len(c.Vs)

	// The elements.  In the natural order equal values are equal elements; a
	// comparison function only looks at the values, so there every position
	// gets an element of its own where the kind has identities.  f64: the
	// zeros at the positions Neg are negative, and (natural order) the
	// positions NaN hold NaNs.  mv is what the references see: a NaN counts as
	// a value below all others, as in cmp.Compare; novs is the input without
	// its NaNs.
	neg := make([]bool, n)
	var isNaN []bool
	mv, novs, nanV := c.Vs, c.Vs, 0
	if k.kind == elem.F64 && n > 0 {
		for _, p := range c.Neg {
			i := (p%n + n) % n
			neg[i] = true
			in.setIf(c.Vs[i] == 0, c12NegZero)
		}
		if natural && len(c.NaN) > 0 {
			isNaN = make([]bool, n)
			for _, p := range c.NaN {
				isNaN[(p%n+n)%n] = true
			}
			nanV = slices.Min(c.Vs) - 1
			mv, novs = slices.Clone(c.Vs), nil
			for i, v := range c.Vs {
				if isNaN[i] {
					mv[i] = nanV
				} else {
					novs = append(novs, v)
				}
			}
			in.set(c12NaN)
		}
	}
	orig := make([]T, n)
	for i, v := range c.Vs {
		switch {
		case isNaN != nil && isNaN[i]:
			orig[i] = any(math.NaN()).(T)
		case k.hasID && !natural:
			orig[i] = k.mk(v, i+1)
		case neg[i]:
			orig[i] = k.get(v, 1)
		default:
			orig[i] = k.get(v, 0)
		}
	}
	// vOf is the model value of an element that came back.
	vOf := func(x T) int {
		if isNaN != nil && k.isNaN(x) {
			return nanV
		}
		return k.v(x)
	}
	cmpT := func(a, b T) int { return cmpf(k.v(a), k.v(b)) }

	longest := func(vs []int) (lis, lnds int) {
		if len(vs) <= 1500 {
			lis = refLongest(vs, cmpf, true)
			lnds = refLongest(vs, cmpf, false)
			// the two references are written independently; they must agree
			if f1, f2 := refLongestFast(vs, cmpf, true), refLongestFast(vs, cmpf, false); f1 != lis || f2 != lnds {
				panic(fmt.Sprintf("harness error: reference DP gives %d/%d, patience reference %d/%d for %v", lis, lnds, f1, f2, vs))
			}
			return lis, lnds
		}
		return refLongestFast(vs, cmpf, true), refLongestFast(vs, cmpf, false)
	}
	wantLIS, wantLNDS := longest(mv)
	// With NaNs in the input the documentation leaves open whether they take
	// part in the order (cmp.Compare: below everything, equal to each other)
	// or are incomparable (<): the length must reach the optimum of the
	// NaN-free elements and cannot exceed the optimum under cmp.Compare.
	lowLIS, lowLNDS := wantLIS, wantLNDS
	if isNaN != nil {
		lowLIS, lowLNDS = longest(novs)
	}

	// the results as they were returned (raw) and as they were then (frozen):
	// a returned slice belongs to the caller, later calls must leave it alone
	type keptResult struct {
		name        string
		raw, frozen []T
	}
	var kept []keptResult
	recheck := func(when string) string {
		for _, r := range kept {
			if !k.equal(r.raw, r.frozen) {
				return fmt.Sprintf("%s: the returned slice was verified as %s when it was returned and holds %s %s", r.name, k.brief(r.frozen), k.brief(r.raw), when)
			}
		}
		return ""
	}
	for _, strict := range []bool{true, false} {
		name, want, low := "LNDS", wantLNDS, lowLNDS
		if strict {
			name, want, low = "LIS", wantLIS, lowLIS
		}
		if !natural {
			name += "Func[" + c.Cmp + "]"
		}
		name += k.tag
		errf := func(format string, args ...any) string {
			if len(c.Segs) > 0 {
				return fmt.Sprintf("%s(%d elements: arithmetic runs {start,step,len} %v): ", name, len(c.Vs), c.Segs) + fmt.Sprintf(format, args...)
			}
			return fmt.Sprintf("%s(%s): ", name, k.brief(orig)) + fmt.Sprintf(format, args...)
		}
		vs := slices.Clone(orig)
		var got []T
		pv := vk.PanicValue(func() {
			switch {
			case natural:
				got = nat(vs, strict)
			case strict:
				got = slice.LISFunc(vs, cmpT)
			default:
				got = slice.LNDSFunc(vs, cmpT)
			}
		})
		if pv != nil {
			return in, errf("panicked: %v", pv)
		}
		raw := got
		got = slices.Clone(got) // the result may alias the input; freeze it before comparing
		if !k.equal(vs, orig) {
			return in, errf("the input was modified, now %s", k.brief(vs))
		}
		if m := recheck("after the call of " + name + " on a copy of the same input"); m != "" {
			return in, m
		}
		if len(raw) > 0 {
			kept = append(kept, keptResult{name, raw, got})
		}
		if !embedsT(k, got, orig) {
			return in, errf("result %s is not a subsequence of the input", k.brief(got))
		}
		for i := 1; i < len(got); i++ {
			d := cmpf(vOf(got[i-1]), vOf(got[i]))
			if d > 0 || (strict && d == 0) {
				kind := "non-decreasing"
				if strict {
					kind = "strictly increasing"
				}
				return in, errf("result %s is not %s at position %d (%s then %s)", k.brief(got), kind, i, k.show(got[i-1]), k.show(got[i]))
			}
		}
		if isNaN != nil {
			if len(got) < low || len(got) > want {
				return in, errf("result %s has length %d; the input holds NaNs, so the length must lie between the optimum of the elements that are not NaN (%d) and the optimum in the order of cmp.Compare, NaN below everything (%d)", k.brief(got), len(got), low, want)
			}
		} else if len(got) != want {
			return in, errf("result %s has length %d, the optimum (reference DP / patience sorting) is %d", k.brief(got), len(got), want)
		}
	}

	if len(kept) > 0 {
		o.Retain(func() string { return recheck("after the next case had run") })
	}

	// classification
	in.nt = wantLNDS > wantLIS
	in.setIf(n == 0, c12SeqEmpty)
	in.setIf(n > 1 && wantLIS == 1 && wantLNDS == n, c12AllEq)
	in.setIf(n > 1 && wantLNDS == n, c12Sorted)
	run := false
	for i := 1; i < n; i++ {
		if cmpf(mv[i-1], mv[i]) == 0 {
			run = true
		}
	}
	in.setIf(n > 1 && wantLNDS == 1, c12Desc)
	in.setIf(run, c12Run)
	in.setIf(wantLNDS > wantLIS, c12Diff)
	in.setIf(wantLNDS >= wantLIS+3, c12Diff3)
	in.setIf(n >= 50, c12SeqLong)
	in.setIf(n > 1<<15, c12Seq15)
	in.setIf(n > 1<<16, c12Seq16)
	in.setIf(wantLNDS > 1<<15, c12Opt15)
	in.setIf(wantLNDS > 1<<16, c12Opt16)
	in.setIf(wantLNDS >= 32 && minAtPow2(mv, cmpf), c12MinPow2)
	if c.Wide && n > 0 {
		in.setIf(uint(slices.Max(c.Vs))-uint(slices.Min(c.Vs)) > (uint(k.hi)-uint(k.lo))/2, c12Wide)
	}
	return in, ""
}

func runC12Seq(c SeqCase, o *vk.Obs) string {
	in, msg := checkSeqObs(c, o)
	if msg == "" {
		in.obs(o, c12SeqNames)
	}
	return msg
}

// ---------------------------------------------------------------------------
// C12, part 2: LCS / LCSFunc.

// LCSCase is one input pair of LCS.  With Fold the call is LCSFunc with the
// "case-folding" equality a>>1 == b>>1 (element = 2*letter + case bit).
type LCSCase struct {
	As   []int `json:"as"`
	Bs   []int `json:"bs"`
	Fold bool  `json:"fold,omitempty"`
	// Tol: LCSFunc on ints with the symmetric but NOT transitive relation
	// |a-b| <= 1 ("equal within a tolerance": fuzzy line matching).  The
	// documentation asks only for a function "to compare elements".  A common
	// subsequence is then a monotone matching of positions whose elements are
	// related, and the optimum the largest such matching.
	Tol bool `json:"tol,omitempty"`
	// Lay is the memory layout of the two arguments: 0 separate slices with
	// cap == len; 1 adjacent windows as|bs of one buffer; 2 adjacent windows
	// bs|as; 3 as|gap|bs with the gap inside as's capacity.  A function that
	// does not modify its inputs must leave both windows intact whichever way
	// they lie in memory.
	// Lay 4: bs is the window as[Win[0]:Win[1]] of the first argument's own
	// memory (Bs is ignored); Lay 5: as is the window bs[Win[0]:Win[1]] of the
	// second argument (As is ignored).  Win is clamped to the slice.
	Lay int    `json:"lay,omitempty"`
	Win [2]int `json:"win,omitempty"`
	// Elem is the element kind ("" = int, see kinds.go; LCS needs a comparable
	// one, LCSFunc takes all).  AID / BID are the identities of the elements of
	// As / Bs by position, as in EditCase: LCS matches elements by ==, that is
	// value AND identity; the folding equality of LCSFunc looks at the value
	// only.  Share: see EditCase.
	Elem  string `json:"elem,omitempty"`
	AID   []int  `json:"aid,omitempty"`
	BID   []int  `json:"bid,omitempty"`
	Share bool   `json:"share,omitempty"`
	// Poison: see EditCase.
	Poison *Poison `json:"poison,omitempty"`
}

// window clamps w to a valid window of a slice of length n.
func window(w [2]int, n int) (lo, hi int) {
	lo = min(max(w[0], 0), n)
	hi = min(max(w[1], lo), n)
	return
}

var c12LCSNames = append([]string{
	"LCS(==)", "LCSFunc(fold)", "an_input_empty", "lcs_len=0", "len(as)>len(bs)", "len(as)<len(bs)",
	"len(as)==len(bs)", "distinct_lcs=1", "distinct_lcs=2..9", "distinct_lcs>=10", "len>=50",
	"fold_merges_distinct_elements", "inputs_are_adjacent_windows_of_one_buffer", "one_input_is_a_window_of_the_other",
	"inputs_start_at_the_same_element", "equal_values_that_are_different_elements",
	"len(as)+len(bs)_or_product_is_64|100|128|200|256|512|1000|1024", "len(as)==len(bs)==64|100|128|200|256|512",
}, elemClassNames...)

const (
	c12Plain = iota
	c12Fold
	c12LEmpty
	c12L0
	c12AGt
	c12ALt
	c12AEq
	c12LOne
	c12LFew
	c12LMany
	c12LLong
	c12FoldUsed
	c12Adjacent
	c12Window
	c12SameStart
	c12Twins
	c12RoundSize
	c12RoundBoth
	c12LCSElem // first of the elem=<kind> classes
)

// plainLCS calls LCS at a comparable element type.
func plainLCS[T comparable](as, bs []T) []T { return slice.LCS(as, bs) }

// checkLCS instantiates the check with the element kind of the case.
func checkLCS(c LCSCase) (info, string) { return checkLCSObs(c, nil) }

// checkLCSTol: see LCSCase.Tol.
func checkLCSTol(c LCSCase) (in info, msg string) {
	rel := func(a, b int) bool { d := a - b; return d >= -1 && d <= 1 }
	as, bs := slices.Clone(c.As), slices.Clone(c.Bs)
	errf := func(format string, args ...any) string {
		return fmt.Sprintf("LCSFunc[|a-b|<=1](as=%s, bs=%s): ", brief(c.As), brief(c.Bs)) + fmt.Sprintf(format, args...)
	}
	var got []int
	if pv := vk.PanicValue(func() { got = slice.LCSFunc(as, bs, rel) }); pv != nil {
		return in, errf("panicked: %v", pv)
	}
	got = slices.Clone(got)
	if !slices.Equal(as, c.As) || !slices.Equal(bs, c.Bs) {
		return in, errf("an input was modified")
	}
	// optimum: largest monotone matching of related positions
	m, n := len(c.As), len(c.Bs)
	prev, cur := make([]int, n+1), make([]int, n+1)
	for i := 1; i <= m; i++ {
		for j := 1; j <= n; j++ {
			cur[j] = max(prev[j], cur[j-1])
			if rel(c.As[i-1], c.Bs[j-1]) {
				cur[j] = max(cur[j], prev[j-1]+1)
			}
		}
		prev, cur = cur, prev
		clear(cur)
	}
	want := prev[n]
	if len(got) != want {
		return in, errf("result %s has length %d, the largest monotone matching of related elements has %d", brief(got), len(got), want)
	}
	// validity: the result's elements are taken from one input, in order, and
	// each is related to an element of the other input, in order
	if !(embeds(got, c.As, same) && embeds(got, c.Bs, rel)) && !(embeds(got, c.Bs, same) && embeds(got, c.As, rel)) {
		return in, errf("result %s is not a subsequence of one input whose elements match, in order, elements of the other", brief(got))
	}
	in.nt = want >= 2
	in.set(c12Fold)
	return in, ""
}

// checkLCSObs: o (may be nil) receives the re-validation of the returned
// slice, see vk.Obs.Retain.
func checkLCSObs(c LCSCase, o *vk.Obs) (info, string) {
	if c.Poison == nil {
		return checkLCSKind(c, o)
	}
	a, b := c.As, c.Bs
	switch c.Lay {
	case 4:
		b = a
	case 5:
		a = b
	}
	return poisoned(c.Poison, a, b, func() (info, string) { return checkLCSKind(c, o) })
}

func checkLCSKind(c LCSCase, o *vk.Obs) (info, string) {
	if c.Tol {
		return checkLCSTol(c)
	}
	switch c.Elem {
	case "", elem.Int:
		return checkLCSOf(c, intKit(), plainLCS[int], o)
	case elem.Str:
		return checkLCSOf(c, strKit(), plainLCS[string], o)
	case kindWords:
		return checkLCSOf(c, wordsKit(c.Share), plainLCS[string], o)
	case elem.I16:
		return checkLCSOf(c, i16Kit(), plainLCS[int16], o)
	case elem.Wide:
		return checkLCSOf(c, wideKit(), plainLCS[elem.WideElem], o)
	case elem.Ptr:
		return checkLCSOf(c, ptrKit(), plainLCS[*elem.Cell], o)
	case elem.Any:
		return checkLCSOf(c, anyKit(), plainLCS[any], o)
	case elem.F64:
		return checkLCSOf(c, f64Kit(), plainLCS[float64], o)
	case elem.Bytes:
		return checkLCSOf(c, bytesKit(), nil, o)
	case kindUnit:
		return checkLCSOf(c, zeroKit[struct{}](kindUnit), plainLCS[struct{}], o)
	case kindZarr:
		return checkLCSOf(c, zeroKit[[0]int](kindZarr), plainLCS[[0]int], o)
	case kindZfn:
		return checkLCSOf(c, zeroKit[[0]func()](kindZfn), nil, o)
	}
	return info{}, badKind("LCS/LCSFunc", c.Elem)
}

// idWindow is the identity list of the window [lo, hi) of a sequence.
func idWindow(ids []int, lo, hi int) []int {
	if len(ids) == 0 {
		return nil
	}
	out := make([]int, hi-lo)
	for i := range out {
		out[i] = idAt(ids, lo+i)
	}
	return out
}

// checkLCSOf: plain is nil when the kind is not comparable (LCSFunc only).
func checkLCSOf[T any](c LCSCase, k *ek[T], plain func(as, bs []T) []T, o *vk.Obs) (in info, msg string) {
	switch c.Lay {
	case 4:
		lo, hi := window(c.Win, len(c.As))
		c.Bs, c.BID = slices.Clone(c.As[lo:hi]), idWindow(c.AID, lo, hi)
	case 5:
		lo, hi := window(c.Win, len(c.Bs))
		c.As, c.AID = slices.Clone(c.Bs[lo:hi]), idWindow(c.BID, lo, hi)
	}
	if !c.Fold && plain == nil {
		return in, badKind("LCS", c.Elem)
	}
	if k.flat {
		c.As, c.Bs, c.AID, c.BID = zeros(len(c.As)), zeros(len(c.Bs)), nil, nil // one value: lengths only
	}
	if m := k.allFit(c.As, c.Bs); m != "" {
		return in, m
	}
	// ca, cb: what the references see.  Without fold an element is its code
	// (value and identity: the == of the element type), with fold its letter.
	name := "LCS" + k.tag
	eq := same
	ca, cb := k.codes(c.As, c.AID), k.codes(c.Bs, c.BID)
	plainA, plainB := ca, cb
	foldT := func(a, b T) bool { return k.v(a)>>1 == k.v(b)>>1 }
	if c.Fold {
		name = "LCSFunc[a>>1==b>>1]" + k.tag
		sh := k.foldShift()
		eq = func(a, b int) bool { return a>>sh == b>>sh }
		ca, cb = make([]int, len(c.As)), make([]int, len(c.Bs))
		for i, v := range c.As {
			ca[i] = v >> 1
		}
		for i, v := range c.Bs {
			cb[i] = v >> 1
		}
	}
	// the arguments as they must be found afterwards
	pa, pb := k.all(c.As, c.AID), k.all(c.Bs, c.BID)
	errf := func(format string, args ...any) string {
		lay := ""
		switch c.Lay {
		case 1, 2, 3:
			lay = " [the arguments are adjacent windows of one buffer]"
		case 4:
			lo, hi := window(c.Win, len(c.As))
			lay = fmt.Sprintf(" [bs is as[%d:%d], the same memory]", lo, hi)
		case 5:
			lo, hi := window(c.Win, len(c.Bs))
			lay = fmt.Sprintf(" [as is bs[%d:%d], the same memory]", lo, hi)
		}
		return fmt.Sprintf("%s(as=%s, bs=%s)%s: ", name, k.brief(pa), k.brief(pb), lay) + fmt.Sprintf(format, args...)
	}
	as, bs := slices.Clone(pa), slices.Clone(pb)
	if c.Lay != 0 {
		na, nb := len(c.As), len(c.Bs)
		const gap = 3
		buf := make([]T, 0, na+nb+2*gap)
		switch c.Lay {
		case 4:
			lo, hi := window(c.Win, na)
			bs = as[lo:hi]
		case 5:
			lo, hi := window(c.Win, nb)
			as = bs[lo:hi]
		case 1:
			buf = append(append(buf, pa...), pb...)
			as, bs = buf[:na], buf[na:na+nb]
		case 2:
			buf = append(append(buf, pb...), pa...)
			bs, as = buf[:nb], buf[nb:nb+na]
		default:
			g := k.get(-7, 0)
			buf = append(append(append(buf, pa...), g, g, g), pb...)
			as, bs = buf[:na], buf[na+gap:na+gap+nb]
		}
	}
	var got []T
	pv := vk.PanicValue(func() {
		if c.Fold {
			got = slice.LCSFunc(as, bs, foldT)
		} else {
			got = plain(as, bs)
		}
	})
	if pv != nil {
		return in, errf("panicked: %v", pv)
	}
	raw := got
	got = slices.Clone(got)
	if len(raw) > 0 {
		// a returned slice belongs to the caller: later calls must leave it alone
		o.Retain(func() string {
			if !k.equal(raw, got) {
				return errf("the returned slice was verified as %s when it was returned and holds %s after the next case had run", k.brief(got), k.brief(raw))
			}
			return ""
		})
	}
	if !k.equal(as, pa) {
		return in, errf("as was modified, now %s", k.brief(as))
	}
	if !k.equal(bs, pb) {
		return in, errf("bs was modified, now %s", k.brief(bs))
	}
	gotC := k.codesOf(got)
	if !embeds(gotC, plainA, eq) {
		return in, errf("result %s is not a subsequence of as", k.brief(got))
	}
	if !embeds(gotC, plainB, eq) {
		return in, errf("result %s is not a subsequence of bs", k.brief(got))
	}
	for i, x := range got {
		if !k.contains(pa, x) && !k.contains(pb, x) {
			return in, errf("result %s: element #%d = %s occurs in neither input", k.brief(got), i, k.show(x))
		}
	}
	S := lcsTable(ca, cb)
	if want := int(S[0]); len(got) != want {
		return in, errf("result %s has length %d, the optimum (textbook DP) is %d", k.brief(got), len(got), want)
	}

	n := countDistinctLCS(ca, cb, S)
	in.nt = n >= 2
	in.set(c12LCSElem + elemClass(k.kind))
	in.setIf(!c.Fold, c12Plain)
	in.setIf(c.Fold, c12Fold)
	in.setIf(len(as) == 0 || len(bs) == 0, c12LEmpty)
	in.setIf(S[0] == 0, c12L0)
	in.setIf(len(as) > len(bs), c12AGt)
	in.setIf(len(as) < len(bs), c12ALt)
	in.setIf(len(as) == len(bs), c12AEq)
	in.setIf(n == 1, c12LOne)
	in.setIf(n >= 2 && n <= 9, c12LFew)
	in.setIf(n >= 10, c12LMany)
	in.setIf(len(as) >= 50 || len(bs) >= 50, c12LLong)
	in.setIf(roundNumber(len(as)+len(bs)) || roundNumber(len(as)*len(bs)), c12RoundSize)
	in.setIf(len(as) == len(bs) && roundNumber(len(as)) && len(as) < 1000, c12RoundBoth)
	in.setIf(c.Lay >= 1 && c.Lay <= 3, c12Adjacent)
	in.setIf(c.Lay >= 4, c12Window)
	in.setIf(c.Lay >= 4 && len(as) > 0 && len(bs) > 0 && &as[0] == &bs[0], c12SameStart)
	if c.Fold {
		in.setIf(lcsTable(c.As, c.Bs)[0] < S[0], c12FoldUsed)
	} else if k.hasID {
		in.setIf(lcsTable(c.As, c.Bs)[0] > S[0], c12Twins)
	}
	return in, ""
}

func runC12LCS(c LCSCase, o *vk.Obs) string {
	in, msg := checkLCSObs(c, o)
	if msg == "" {
		in.obs(o, c12LCSNames)
	}
	return msg
}

// ---------------------------------------------------------------------------
// C17: slice utilities.

// UtilCase is one call of a slice utility.  The slice has N distinct elements
// elemBase+i, Spare elements of spare capacity behind it (filled with filler
// values) and a sentinel after the capacity.  K is the numeric argument
// (Rotate k; Chunks/Batches/Head/Tail n; At/PtrAt/Stripe i).  Keep is the
// keep-pattern of Partition (element i is kept iff Keep[i] != 0; missing
// entries mean "drop"); Rows are the row lengths of Stripe.
type UtilCase struct {
	Fn    string `json:"fn"`
	N     int    `json:"n"`
	K     int    `json:"k"`
	Spare int    `json:"spare,omitempty"`
	Keep  []int  `json:"keep,omitempty"`
	Rows  []int  `json:"rows,omitempty"`
	// Elem is the element kind ("" = int, see kinds.go; all kinds, and the
	// 1-byte b8 except for Stripe).  Dup (Partition only) lists positions,
	// modulo N, whose elements are EQUAL-LOOKING but distinguishable, for the
	// kinds that have such elements: with ptr / any distinct pointers to deeply
	// equal pointees, with string / wide / bytes the value dupValue with
	// different identities, with f64 the zeros -0.0 (where Keep keeps) and +0.0
	// (where it drops), which are == although the predicate tells them apart.
	// The predicate stays a function of the element.
	// The zero-size kinds unit, zarr, zfn (kinds.go) are checked by lengths only
	// (checkUtilZero); for them N is not cut to maxUtilN: it may be anything up
	// to math.MaxInt, the slice takes no memory.
	Elem string `json:"elem,omitempty"`
	Dup  []int  `json:"dup,omitempty"`
	// Mega (Rotate with int elements only) lifts the bound on N from maxUtilN
	// to maxMegaN: slices of millions of elements, checked position by position
	// in linear time.
	Mega bool `json:"mega,omitempty"`
	// Before is another call, made (and checked) immediately before this one,
	// on a slice of its own: the functions are pure, so what was done to
	// another slice a moment ago must not matter.
	Before *UtilCase `json:"before,omitempty"`
}

const (
	maxMegaN = 1 << 23
	elemBase = 100
	fillBase = -1000
	sentinel = -7777
	maxUtilN = 100000
	dupValue = elemBase - 1
)

// batchesLargerFirst switches on the extra demand of DESIGN.md §5/C17 that
// the larger batches come first.  Neither the property statement nor the
// package documentation promises an order ("each having nearly as possible to
// equal length"), so it is off: only "lengths differ by at most one" is
// demanded, and the order is recorded as a class.
const batchesLargerFirst = false

var c17Names = append([]string{
	"fn=Partition", "fn=Rotate", "fn=Chunks", "fn=Batches", "fn=Head", "fn=Tail", "fn=Stripe", "fn=At", "fn=PtrAt",
	"empty_slice", "documented_panic_expected", "spare_capacity", "rotate_gcd>1", "at_boundary",
	"partition_needs_swaps", "uneven_pieces", "batches_larger_first", "batches_larger_last", "negative_index_valid",
	"n>=50", "partition_equal_looking_elements", "preceded_by_a_call_on_another_slice",
	"rotate_len>=2^20", "rotate_len>2^21", "rotate_len>2^21_preceded_by_rotate_of_len-2^21_or_len-2^22",
	"zero_size_elements_len>=2^62", "zero_size_elements_len>=MaxInt-64",
}, elemClassNames...)

const (
	c17FnPartition = iota
	c17FnRotate
	c17FnChunks
	c17FnBatches
	c17FnHead
	c17FnTail
	c17FnStripe
	c17FnAt
	c17FnPtrAt
	c17Empty
	c17Panic
	c17Spare
	c17Gcd
	c17Boundary
	c17Swaps
	c17Uneven
	c17LargerFirst
	c17LargerLast
	c17NegIdx
	c17Big
	c17Dups
	c17Before
	c17Mega20
	c17Mega21
	c17MegaPair
	c17Huge
	c17HugeTop
	c17Elem // first of the elem=<kind> classes
)

func gcdRef(a, b int) int {
	if a < 0 {
		a = -a
	}
	if b < 0 {
		b = -b
	}
	for b != 0 {
		a, b = b, a%b
	}
	return a
}

func near(x int, pts ...int) bool {
	for _, p := range pts {
		if x == p {
			return true
		}
	}
	return false
}

// checkUtil instantiates the check with the element kind of the case.
func checkUtil(c UtilCase) (info, string) { return checkUtilObs(c, nil) }

// checkUtilObs: o (may be nil) receives the re-validation of returned slices
// of slices, see vk.Obs.Retain.
func checkUtilObs(c UtilCase, o *vk.Obs) (info, string) {
	if c.Before != nil {
		if _, m := checkUtilObs(*c.Before, o); m != "" {
			return info{}, "[the call made before the one under test] " + m
		}
		in, m := checkUtil1(c, o)
		if m == "" {
			in.set(c17Before)
			b := c.Before
			if c.Mega && c.Fn == "Rotate" && b.Fn == "Rotate" && c.N > 1<<21 && (c.N-b.N == 1<<21 || c.N-b.N == 1<<22) {
				in.set(c17MegaPair)
			}
		}
		return in, m
	}
	return checkUtil1(c, o)
}

func checkUtil1(c UtilCase, o *vk.Obs) (info, string) {
	switch c.Elem {
	case "", elem.Int:
		if c.Mega && c.Fn == "Rotate" {
			return checkMegaRotate(c)
		}
		return checkUtilOf(c, intKit(), o)
	case elem.Str:
		return checkUtilOf(c, strKit(), o)
	case elem.I16:
		return checkUtilOf(c, i16Kit(), o)
	case elem.Wide:
		return checkUtilOf(c, wideKit(), o)
	case elem.Ptr:
		return checkUtilOf(c, ptrKit(), o)
	case elem.Any:
		return checkUtilOf(c, anyKit(), o)
	case elem.F64:
		return checkUtilOf(c, f64Kit(), o)
	case elem.Bytes:
		return checkUtilOf(c, bytesKit(), o)
	case kindB8:
		if c.Fn == "Stripe" {
			break // its row elements do not fit a byte
		}
		return checkUtilOf(c, b8Kit(), o)
	case kindUnit:
		return checkUtilZero[struct{}](c, o)
	case kindZarr:
		return checkUtilZero[[0]int](c, o)
	case kindZfn:
		return checkUtilZero[[0]func()](c, o)
	}
	return info{}, badKind(c.Fn, c.Elem)
}

// checkMegaRotate is the Rotate check for int slices of up to maxMegaN
// elements: the same demands as in checkUtilOf (every element at (i+k) mod
// len, nothing written behind the slice, panic exactly for k outside
// [-len, len]), verified in one linear pass without a copy of the slice.
func checkMegaRotate(c UtilCase) (in info, msg string) {
	n := min(max(c.N, 0), maxMegaN)
	spare := min(max(c.Spare, 0), 64)
	kk := c.K
	arr := make([]int, n+spare+1)
	for i := 0; i < n; i++ {
		arr[i] = elemBase + i
	}
	for j := 0; j < spare; j++ {
		arr[n+j] = fillBase - j
	}
	arr[n+spare] = sentinel
	vs := arr[0 : n : n+spare]
	call := fmt.Sprintf("Rotate(len %d, k=%d, spare capacity %d)", n, kk, spare)
	errf := func(format string, args ...any) string {
		return call + ": " + fmt.Sprintf(format, args...)
	}
	in.set(c17FnRotate)
	in.set(c17Elem + elemClass(elem.Int))
	in.setIf(n == 0, c17Empty)
	in.setIf(spare > 0, c17Spare)
	in.setIf(n >= 50, c17Big)
	in.setIf(n >= 1<<20, c17Mega20)
	in.setIf(n > 1<<21, c17Mega21)
	allowed := kk >= -n && kk <= n
	pv := vk.PanicValue(func() { slice.Rotate(vs, kk) })
	g := 0
	if allowed {
		if pv != nil {
			return in, errf("panicked for -len <= k <= len: %v", pv)
		}
		if n > 0 {
			r := ((kk % n) + n) % n
			// position j holds the element that was at index i = (j-k) mod len
			i := (n - r) % n
			for j := 0; j < n; j++ {
				if arr[j] != elemBase+i {
					return in, errf("the element originally at index %d must be at index %d, which holds the one from index %d; the slice from there on: %s", i, j, arr[j]-elemBase, brief(arr[j:min(n, j+12)]))
				}
				if i++; i == n {
					i = 0
				}
			}
			if r != 0 {
				g = gcdRef(r, n)
			}
		}
		for j := 0; j < spare; j++ {
			if arr[n+j] != fillBase-j {
				return in, errf("the spare capacity behind the slice was written: position len+%d holds %d, was %d", j, arr[n+j], fillBase-j)
			}
		}
		if arr[n+spare] != sentinel {
			return in, errf("the element after the slice's capacity was overwritten with %d", arr[n+spare])
		}
	} else {
		in.set(c17Panic)
		if pv == nil {
			return in, errf("k is out of range [-len, len] but Rotate did not panic")
		}
	}
	in.setIf(g > 1, c17Gcd)
	b := near(kk, -n-1, -n, -n+1, -1, 0, 1, n-1, n, n+1)
	in.setIf(b, c17Boundary)
	in.nt = b || g > 1 || n == 0
	return in, ""
}

// pieceHdr is what a caller sees of one returned piece without looking at
// the elements.
type pieceHdr[T any] struct {
	p      *T
	n, cap int
}

// retainPieces registers the re-validation of a slice of pieces as it was
// returned: the outer slice belongs to the caller, later calls must leave it
// alone.
func retainPieces[T any](o *vk.Obs, call string, out [][]T) {
	if o == nil || len(out) == 0 {
		return
	}
	hdr := make([]pieceHdr[T], len(out))
	for i, p := range out {
		hdr[i] = pieceHdr[T]{firstPtr(p), len(p), cap(p)}
	}
	o.Retain(func() string {
		for i, p := range out {
			if h := hdr[i]; firstPtr(p) != h.p || len(p) != h.n || cap(p) != h.cap {
				return fmt.Sprintf("%s: the returned slice of %d pieces was verified when it was returned and has changed after the next case had run: piece #%d had length %d and capacity %d, it now has length %d and capacity %d (%s)",
					call, len(out), i, h.n, h.cap, len(p), cap(p), sameOrNot(firstPtr(p) == h.p))
			}
		}
		return ""
	})
}

func checkUtilOf[T any](c UtilCase, k *ek[T], o *vk.Obs) (in info, msg string) {
	n, spare := c.N, c.Spare
	if n < 0 {
		n = 0
	}
	if n > maxUtilN {
		n = maxUtilN
	}
	switch k.kind { // the narrow kinds have fewer distinct elements
	case kindB8:
		n = min(n, b8MaxN)
	case elem.I16:
		n = min(n, 30000)
	}
	if spare < 0 {
		spare = 0
	}
	if spare > 64 {
		spare = 64
	}
	kk := c.K
	keepIdx := func(i int) bool { return i >= 0 && i < len(c.Keep) && c.Keep[i] != 0 }
	// dup[i]: element i is one of the equal-looking elements (Partition, and
	// only for the kinds that have distinguishable equal-looking elements)
	var dup []bool
	var dupPos []int
	if c.Fn == "Partition" && n > 0 && len(c.Dup) > 0 && (k.hasID || k.kind == elem.F64) {
		dup = make([]bool, n)
		for _, p := range c.Dup {
			dup[(p%n+n)%n] = true
		}
		for i, d := range dup {
			if d {
				dupPos = append(dupPos, i)
			}
		}
	}
	arr := make([]T, n+spare+1)
	for i := 0; i < n; i++ {
		switch {
		case dup == nil || !dup[i]:
			arr[i] = k.get(elemBase+i, 0)
		case k.kind == elem.F64:
			if keepIdx(i) {
				arr[i] = k.get(0, 1) // -0.0
			} else {
				arr[i] = k.get(0, 0)
			}
		default:
			arr[i] = k.mk(dupValue, i+1)
		}
	}
	for j := 0; j < spare; j++ {
		arr[n+j] = k.get(fillBase-j, 0)
	}
	arr[n+spare] = k.get(sentinel, 0)
	orig := slices.Clone(arr) // the memory as it was
	vs := arr[0 : n : n+spare]

	call := c.Fn + k.tag
	errf := func(format string, args ...any) string {
		return call + ": " + fmt.Sprintf(format, args...)
	}
	// behind checks the memory behind the slice: spare capacity and sentinel.
	behind := func() string {
		for j := 0; j < spare; j++ {
			if !k.strict(arr[n+j], orig[n+j]) {
				return errf("the spare capacity behind the slice was written: position len+%d holds %s, was %s", j, k.show(arr[n+j]), k.show(orig[n+j]))
			}
		}
		if !k.strict(arr[n+spare], orig[n+spare]) {
			return errf("the element after the slice's capacity was overwritten with %s", k.show(arr[n+spare]))
		}
		return ""
	}
	// untouched checks that the slice still holds its original elements in order.
	untouched := func() string {
		for i := 0; i < n; i++ {
			if !k.strict(arr[i], orig[i]) {
				return errf("the input slice was modified: element %d is now %s (was %s)", i, k.show(arr[i]), k.show(orig[i]))
			}
		}
		return behind()
	}
	// pieces checks a list of consecutive subslices covering vs.
	pieces := func(out [][]T) (minLen, maxLen int, m string) {
		off := 0
		minLen, maxLen = 1<<30, 0
		for idx, p := range out {
			if off+len(p) > n {
				return 0, 0, errf("piece #%d of length %d at offset %d runs past the end of the input; pieces have lengths %v", idx, len(p), off, lens(out))
			}
			if len(p) > 0 && &p[0] != &vs[off] {
				return 0, 0, errf("piece #%d %s does not alias the input at offset %d; pieces have lengths %v", idx, k.brief(p), off, lens(out))
			}
			for q := range p {
				if !k.strict(p[q], orig[off+q]) {
					return 0, 0, errf("piece #%d holds %s, want the input elements from offset %d", idx, k.brief(p), off)
				}
			}
			if idx < len(out)-1 && cap(p) != len(p) {
				return 0, 0, errf("piece #%d (length %d) has capacity %d: it is followed by another piece, so appending to it would overwrite the input", idx, len(p), cap(p))
			}
			minLen, maxLen = min(minLen, len(p)), max(maxLen, len(p))
			off += len(p)
		}
		if off != n {
			return 0, 0, errf("the pieces cover %d of %d elements; pieces have lengths %v", off, n, lens(out))
		}
		return minLen, maxLen, ""
	}

	in.setIf(n == 0 && c.Fn != "Stripe", c17Empty)
	in.setIf(spare > 0 && c.Fn != "Stripe", c17Spare)
	in.setIf(n >= 50, c17Big)
	in.set(c17Elem + elemClass(k.kind))

	switch c.Fn {
	case "Partition":
		in.set(c17FnPartition)
		// indexOf finds the original position of an element of the slice: by
		// its value, or (equal-looking elements) by what tells it apart.  The
		// +0.0 / -0.0 of f64 occur several times; any of their positions will
		// do, they share the keep decision.
		indexOf := func(x T, free []bool) int {
			v := k.v(x)
			if i := v - elemBase; i >= 0 && i < n && (dup == nil || !dup[i]) {
				if k.strict(x, orig[i]) && (free == nil || free[i]) {
					return i
				}
				return -1
			}
			for _, p := range dupPos {
				if k.strict(x, orig[p]) && (free == nil || free[p]) {
					return p
				}
			}
			return -1
		}
		keepT := func(x T) bool { return keepIdx(indexOf(x, nil)) }
		var want []T
		pat := make([]int, n)
		swaps, seenDrop := false, false
		for i := 0; i < n; i++ {
			if keepIdx(i) {
				want = append(want, orig[i])
				pat[i] = 1
				if seenDrop {
					swaps = true
				}
			} else {
				seenDrop = true
			}
		}
		call = fmt.Sprintf("Partition%s(%d distinct elements %d.., keep pattern %s, spare capacity %d)", k.tag, n, elemBase, brief(pat), spare)
		if dup != nil {
			call = fmt.Sprintf("Partition%s(%d elements %s, keep pattern %s, spare capacity %d)", k.tag, n, k.brief(orig[:n]), brief(pat), spare)
			in.set(c17Dups)
		}
		var got []T
		if pv := vk.PanicValue(func() { got = slice.Partition(vs, keepT) }); pv != nil {
			return in, errf("panicked: %v", pv)
		}
		m := len(want)
		if len(got) != m {
			return in, errf("result %s has length %d, want the %d kept elements %s", k.brief(got), len(got), m, k.brief(want))
		}
		if !k.equal(got, want) {
			return in, errf("result %s, want the kept elements in their original order %s", k.brief(got), k.brief(want))
		}
		if n > 0 {
			if m > 0 && &got[0] != &vs[0] {
				return in, errf("result is not a prefix of the input slice (different storage)")
			}
			if cap(got) != m {
				return in, errf("result has length %d but capacity %d: not clipped, appending would overwrite what follows the kept elements", m, cap(got))
			}
		}
		free := make([]bool, n)
		for i := range free {
			free[i] = true
		}
		for _, x := range arr[:n] {
			i := indexOf(x, free)
			if i < 0 {
				return in, errf("the slice is no longer a permutation of its original contents: now %s", k.brief(arr[:n]))
			}
			free[i] = false
		}
		if !k.equal(arr[:m], want) {
			return in, errf("the slice does not start with the kept elements: now %s", k.brief(arr[:n]))
		}
		if b := behind(); b != "" {
			return in, b
		}
		in.setIf(swaps, c17Swaps)
		in.nt = n == 0 || m == 0 || m == n || swaps
		in.setIf(n == 0 || m == 0 || m == n, c17Boundary)

	case "Rotate":
		in.set(c17FnRotate)
		call = fmt.Sprintf("Rotate%s(len %d, k=%d, spare capacity %d)", k.tag, n, kk, spare)
		allowed := kk >= -n && kk <= n
		pv := vk.PanicValue(func() { slice.Rotate(vs, kk) })
		if allowed {
			if pv != nil {
				return in, errf("panicked for -len <= k <= len: %v", pv)
			}
			for i := 0; i < n; i++ {
				j := ((i+kk)%n + n) % n
				if !k.strict(arr[j], orig[i]) {
					return in, errf("the element originally at index %d must be at index %d, which holds the one from index %d; slice now %s", i, j, k.v(arr[j])-elemBase, k.brief(arr[:n]))
				}
			}
			if b := behind(); b != "" {
				return in, b
			}
		} else {
			in.set(c17Panic)
			if pv == nil {
				return in, errf("k is out of range [-len, len] but Rotate did not panic; slice now %s", k.brief(arr[:n]))
			}
		}
		g := 0 // number of cycles of a proper rotation (0 for the identity)
		if allowed && n > 0 {
			if r := ((kk % n) + n) % n; r != 0 {
				g = gcdRef(r, n)
			}
		}
		in.setIf(g > 1, c17Gcd)
		b := near(kk, -n-1, -n, -n+1, -1, 0, 1, n-1, n, n+1)
		in.setIf(b, c17Boundary)
		in.nt = b || g > 1 || n == 0

	case "Chunks":
		in.set(c17FnChunks)
		call = fmt.Sprintf("Chunks%s(len %d, n=%d, spare capacity %d)", k.tag, n, kk, spare)
		var out [][]T
		pv := vk.PanicValue(func() { out = slice.Chunks(vs, kk) })
		if kk < 0 {
			in.set(c17Panic)
			if pv == nil {
				return in, errf("n < 0 but Chunks did not panic (returned pieces of lengths %v)", lens(out))
			}
		} else {
			if pv != nil {
				return in, errf("panicked for n >= 0: %v", pv)
			}
			if _, _, m := pieces(out); m != "" {
				return in, m
			}
			if kk == 0 {
				if len(out) != 1 {
					return in, errf("n == 0 must give a single chunk with the entire input, got %d chunks of lengths %v", len(out), lens(out))
				}
			} else {
				for idx, p := range out {
					if idx < len(out)-1 && len(p) != kk {
						return in, errf("chunk #%d has length %d, every chunk but the last must have length %d; lengths %v", idx, len(p), kk, lens(out))
					}
					if len(p) > kk {
						return in, errf("chunk #%d has length %d > n; lengths %v", idx, len(p), lens(out))
					}
				}
			}
			if u := untouched(); u != "" {
				return in, u
			}
			retainPieces(o, call, out)
			in.setIf(kk > 0 && n%kk != 0 && n > kk, c17Uneven)
		}
		b := near(kk, -1, 0, 1, n-1, n, n+1)
		in.setIf(b, c17Boundary)
		in.nt = b || n == 0

	case "Batches":
		in.set(c17FnBatches)
		call = fmt.Sprintf("Batches%s(len %d, n=%d, spare capacity %d)", k.tag, n, kk, spare)
		var out [][]T
		pv := vk.PanicValue(func() { out = slice.Batches(vs, kk) })
		if kk < 0 {
			in.set(c17Panic)
			if pv == nil {
				return in, errf("n < 0 but Batches did not panic (returned pieces of lengths %v)", lens(out))
			}
		} else {
			if pv != nil {
				return in, errf("panicked for n >= 0: %v", pv)
			}
			want := min(kk, n)
			if len(out) != want {
				return in, errf("got %d batches of lengths %v, want exactly min(n, len) = %d", len(out), lens(out), want)
			}
			if want > 0 {
				lo, hi, m := pieces(out)
				if m != "" {
					return in, m
				}
				if hi-lo > 1 {
					return in, errf("batch lengths %v differ by more than one", lens(out))
				}
				// every batch is capacity-clipped, the last one (and a single batch
				// covering the whole slice) included: appending to it must not write
				// into the spare capacity of the input
				if last := out[len(out)-1]; cap(last) != len(last) {
					return in, errf("the last batch (length %d) has capacity %d: not clipped, appending to it would write into the input's spare capacity", len(last), cap(last))
				}
				if hi != lo {
					in.set(c17Uneven)
					first, last := len(out[0]) == hi, len(out[len(out)-1]) == hi
					sortedDesc := slices.IsSortedFunc(out, func(a, b []T) int { return cmp.Compare(len(b), len(a)) })
					in.setIf(first && sortedDesc, c17LargerFirst)
					in.setIf(last && !first, c17LargerLast)
					if batchesLargerFirst && !sortedDesc {
						return in, errf("batch lengths %v: the larger batches must come first", lens(out))
					}
				}
			}
			if u := untouched(); u != "" {
				return in, u
			}
			retainPieces(o, call, out)
		}
		b := near(kk, -1, 0, 1, n-1, n, n+1)
		in.setIf(b, c17Boundary)
		in.nt = b || n == 0

	case "Head", "Tail":
		head := c.Fn == "Head"
		in.setIf(head, c17FnHead)
		in.setIf(!head, c17FnTail)
		if kk < 0 {
			kk = -kk // only n >= 0 is a documented argument
			if kk < 0 {
				kk = math.MaxInt
			}
		}
		call = fmt.Sprintf("%s%s(len %d, n=%d, spare capacity %d)", c.Fn, k.tag, n, kk, spare)
		var got []T
		pv := vk.PanicValue(func() {
			if head {
				got = slice.Head(vs, kk)
			} else {
				got = slice.Tail(vs, kk)
			}
		})
		if pv != nil {
			return in, errf("panicked: %v", pv)
		}
		m := min(kk, n)
		off := 0
		if !head {
			off = n - m
		}
		if len(got) != m {
			return in, errf("result %s has length %d, want min(n, len) = %d", k.brief(got), len(got), m)
		}
		if m > 0 && &got[0] != &vs[off] {
			return in, errf("result %s is not the subslice of the input starting at offset %d", k.brief(got), off)
		}
		for q := range got {
			if !k.strict(got[q], orig[off+q]) {
				return in, errf("result %s, want the %d elements from offset %d", k.brief(got), m, off)
			}
		}
		if u := untouched(); u != "" {
			return in, u
		}
		b := near(kk, 0, 1, n-1, n, n+1)
		in.setIf(b, c17Boundary)
		in.nt = b || n == 0

	case "Stripe":
		in.set(c17FnStripe)
		if kk < 0 {
			kk = -kk // only i >= 0 is meaningful
		}
		rows := make([][]T, len(c.Rows))
		var lensR []int
		maxLen, have := 0, 0
		var want []T
		for r, l := range c.Rows {
			if l < 0 {
				l = 0
			}
			if l > 1000 {
				l = 1000
			}
			lensR = append(lensR, l)
			if !k.fits(1000*(r+1) + l) {
				return in, k.allFit([]int{1000*(r+1) + l})
			}
			rows[r] = make([]T, l)
			for j := range rows[r] {
				rows[r][j] = k.get(1000*(r+1)+j, 0)
			}
			maxLen = max(maxLen, l)
			if kk < l {
				have++
				want = append(want, rows[r][kk])
			}
		}
		rows0 := make([][]T, len(rows)) // the rows as they were
		for r := range rows {
			rows0[r] = slices.Clone(rows[r])
		}
		call = fmt.Sprintf("Stripe%s(rows of lengths %v, i=%d)", k.tag, lensR, kk)
		var got []T
		if pv := vk.PanicValue(func() { got = slice.Stripe(rows, kk) }); pv != nil {
			return in, errf("panicked: %v", pv)
		}
		if !k.equal(got, want) {
			return in, errf("result %s, want %s (row r holds 1000*(r+1)+j at column j)", k.brief(got), k.brief(want))
		}
		for r := range rows {
			for j := range rows[r] {
				if !k.strict(rows[r][j], rows0[r][j]) {
					return in, errf("row %d was modified at column %d", r, j)
				}
			}
		}
		ragged := have > 0 && have < len(rows)
		b := len(rows) == 0 || kk >= maxLen-1
		in.setIf(b, c17Boundary)
		in.setIf(ragged, c17Uneven)
		in.setIf(len(rows) == 0, c17Empty)
		in.nt = b || ragged

	case "At", "PtrAt":
		at := c.Fn == "At"
		in.setIf(at, c17FnAt)
		in.setIf(!at, c17FnPtrAt)
		call = fmt.Sprintf("%s%s(len %d, i=%d)", c.Fn, k.tag, n, kk)
		valid := kk >= -n && kk < n
		idx := kk
		if kk < 0 {
			idx = kk + n
		}
		if at {
			var got T
			pv := vk.PanicValue(func() { got = slice.At(vs, kk) })
			if valid {
				if pv != nil {
					return in, errf("panicked for an index in range: %v", pv)
				}
				if !k.strict(got, orig[idx]) {
					if k.v(got)-elemBase == idx {
						return in, errf("returned %s, which looks like the element of index %d but is not that element (a copy)", k.show(got), idx)
					}
					return in, errf("returned the element of index %d, want index %d", k.v(got)-elemBase, idx)
				}
			} else {
				in.set(c17Panic)
				if pv == nil {
					return in, errf("index out of range but At did not panic (returned %s)", k.show(got))
				}
			}
		} else {
			var p *T
			if pv := vk.PanicValue(func() { p = slice.PtrAt(vs, kk) }); pv != nil {
				return in, errf("panicked (PtrAt never panics): %v", pv)
			}
			if valid {
				if p == nil {
					return in, errf("returned nil for an index in range")
				}
				if p != &vs[idx] {
					return in, errf("the pointer does not point at element %d of the slice (it points at a value %s)", idx, k.show(*p))
				}
			} else if p != nil {
				return in, errf("index out of range but PtrAt returned a non-nil pointer (to %s)", k.show(*p))
			}
		}
		if u := untouched(); u != "" {
			return in, u
		}
		in.setIf(valid && kk < 0, c17NegIdx)
		b := near(kk, -n-1, -n, -1, 0, n-1, n)
		in.setIf(b, c17Boundary)
		in.nt = b || n == 0

	default:
		return in, fmt.Sprintf("VK-INFRA unknown fn %q", c.Fn)
	}
	return in, ""
}

// chunksLenPlusNOverflow: whether the zero-size cases may ask Chunks for
// len(vs)+n-1 > math.MaxInt with 0 < n < len(vs).  The pinned tree computed
// the number of chunks as (len(vs)+n-1)/n and the end of a chunk as i+n; both
// overflowed there, and Chunks panicked (makeslice: cap out of range / slice
// bounds out of range) although n >= 0 - e.g. Chunks(make([]struct{},
// math.MaxInt), 1<<62).  That was defect F9 of the pinned tree, repaired by
// /repo commit 35bd10c (KNOWN_FINDINGS.txt), so the region is exercised.
const chunksLenPlusNOverflow = true

// zeroMaxPieces bounds the number of pieces a zero-size case may ask for (the
// outer slice is real memory).
const zeroMaxPieces = 4096

// checkUtilZero is checkUtilOf for an element type of size zero (Elem unit,
// zarr, zfn).  Such a type has one value, so nothing can be said about WHICH
// elements a function returns - but everything about HOW MANY: lengths,
// capacities, the number of pieces, panics.  The slice takes no memory, so N
// may be anything up to math.MaxInt (for the functions that do not walk over
// the elements: Chunks, Batches, Head, Tail, At, PtrAt; for Partition and
// Rotate N is cut to 4096): the index arithmetic of a function must hold up to
// the end of the int range, which only a zero-size slice can reach.  Only
// lengths are looked at, never the elements.  Partition: the predicate is a
// function of the element, so it keeps everything (Keep[0] != 0) or nothing.
func checkUtilZero[T any](c UtilCase, o *vk.Obs) (in info, msg string) {
	n, spare, kk := max(c.N, 0), min(max(c.Spare, 0), 64), c.K
	switch c.Fn {
	case "Partition", "Rotate":
		n = min(n, 4096)
	case "Chunks":
		if kk > 0 && kk < n {
			if !chunksLenPlusNOverflow && n > math.MaxInt-kk+1 {
				n = math.MaxInt - kk + 1
			}
			if n/kk > zeroMaxPieces {
				n = kk*zeroMaxPieces + n%kk
			}
		}
	case "Batches":
		if min(kk, n) > zeroMaxPieces {
			n = zeroMaxPieces
		}
	}
	spare = min(spare, math.MaxInt-n)
	vs := make([]T, n, n+spare)
	tag := tagOf(c.Elem)
	call := c.Fn + tag
	errf := func(format string, args ...any) string {
		return call + " [the element type has size zero: only lengths are checked]: " + fmt.Sprintf(format, args...)
	}
	in.set(c17Elem + elemClass(c.Elem))
	in.setIf(n == 0 && c.Fn != "Stripe", c17Empty)
	in.setIf(spare > 0 && c.Fn != "Stripe", c17Spare)
	in.setIf(n >= 50, c17Big)
	in.setIf(n >= 1<<62 && c.Fn != "Stripe", c17Huge)
	in.setIf(n >= math.MaxInt-64 && c.Fn != "Stripe", c17HugeTop)
	unchanged := func() string {
		if len(vs) != n || cap(vs) != n+spare {
			return errf("the caller's slice header changed?! len %d cap %d", len(vs), cap(vs))
		}
		return ""
	}
	// pieceLens checks that the pieces are capacity-clipped (all but the last)
	// and that their lengths sum to n; it returns the extreme lengths.
	pieceLens := func(out [][]T) (minLen, maxLen int, m string) {
		off := 0
		minLen, maxLen = math.MaxInt, 0
		for idx, p := range out {
			if len(p) > n-off {
				return 0, 0, errf("piece #%d of length %d at offset %d runs past the end of the input; pieces have lengths %v", idx, len(p), off, lens(out))
			}
			if idx < len(out)-1 && cap(p) != len(p) {
				return 0, 0, errf("piece #%d (length %d) has capacity %d: it is followed by another piece, so appending to it would overwrite the input", idx, len(p), cap(p))
			}
			minLen, maxLen = min(minLen, len(p)), max(maxLen, len(p))
			off += len(p)
		}
		if off != n {
			return 0, 0, errf("the pieces cover %d of %d elements; pieces have lengths %v", off, n, lens(out))
		}
		return minLen, maxLen, ""
	}

	switch c.Fn {
	case "Partition":
		in.set(c17FnPartition)
		keepAll := len(c.Keep) > 0 && c.Keep[0] != 0
		call = fmt.Sprintf("Partition%s(%d elements, keep = func(T) bool { return %v }, spare capacity %d)", tag, n, keepAll, spare)
		var got []T
		if pv := vk.PanicValue(func() { got = slice.Partition(vs, func(T) bool { return keepAll }) }); pv != nil {
			return in, errf("panicked: %v", pv)
		}
		m := 0
		if keepAll {
			m = n
		}
		if len(got) != m {
			return in, errf("result has length %d, want the %d kept elements", len(got), m)
		}
		if n > 0 && cap(got) != m {
			return in, errf("result has length %d but capacity %d: not clipped", m, cap(got))
		}
		in.nt = true
		in.set(c17Boundary)

	case "Rotate":
		in.set(c17FnRotate)
		call = fmt.Sprintf("Rotate%s(len %d, k=%d, spare capacity %d)", tag, n, kk, spare)
		allowed := kk >= -n && kk <= n
		pv := vk.PanicValue(func() { slice.Rotate(vs, kk) })
		if allowed && pv != nil {
			return in, errf("panicked for -len <= k <= len: %v", pv)
		}
		if !allowed {
			in.set(c17Panic)
			if pv == nil {
				return in, errf("k is out of range [-len, len] but Rotate did not panic")
			}
		}
		b := near(kk, -n-1, -n, -n+1, -1, 0, 1, n-1, n, n+1)
		in.setIf(b, c17Boundary)
		in.nt = b || n == 0

	case "Chunks":
		in.set(c17FnChunks)
		call = fmt.Sprintf("Chunks%s(len %d, n=%d, spare capacity %d)", tag, n, kk, spare)
		var out [][]T
		pv := vk.PanicValue(func() { out = slice.Chunks(vs, kk) })
		if kk < 0 {
			in.set(c17Panic)
			if pv == nil {
				return in, errf("n < 0 but Chunks did not panic (returned pieces of lengths %v)", lens(out))
			}
		} else {
			if pv != nil {
				return in, errf("panicked for n >= 0: %v", pv)
			}
			if _, _, m := pieceLens(out); m != "" {
				return in, m
			}
			if kk == 0 {
				if len(out) != 1 {
					return in, errf("n == 0 must give a single chunk with the entire input, got %d chunks of lengths %v", len(out), lens(out))
				}
			} else {
				for idx, p := range out {
					if idx < len(out)-1 && len(p) != kk {
						return in, errf("chunk #%d has length %d, every chunk but the last must have length %d; lengths %v", idx, len(p), kk, lens(out))
					}
					if len(p) > kk {
						return in, errf("chunk #%d has length %d > n; lengths %v", idx, len(p), lens(out))
					}
					if len(p) == 0 && n > 0 {
						return in, errf("chunk #%d is empty; lengths %v", idx, lens(out))
					}
				}
			}
			retainPieces(o, call, out)
			in.setIf(kk > 0 && n%kk != 0 && n > kk, c17Uneven)
		}
		b := near(kk, -1, 0, 1, n-1, n, n+1)
		in.setIf(b, c17Boundary)
		in.nt = b || n == 0 || n >= 1<<62

	case "Batches":
		in.set(c17FnBatches)
		call = fmt.Sprintf("Batches%s(len %d, n=%d, spare capacity %d)", tag, n, kk, spare)
		var out [][]T
		pv := vk.PanicValue(func() { out = slice.Batches(vs, kk) })
		if kk < 0 {
			in.set(c17Panic)
			if pv == nil {
				return in, errf("n < 0 but Batches did not panic (returned pieces of lengths %v)", lens(out))
			}
		} else {
			if pv != nil {
				return in, errf("panicked for n >= 0: %v", pv)
			}
			want := min(kk, n)
			if len(out) != want {
				return in, errf("got %d batches of lengths %v, want exactly min(n, len) = %d", len(out), lens(out), want)
			}
			if want > 0 {
				lo, hi, m := pieceLens(out)
				if m != "" {
					return in, m
				}
				if hi-lo > 1 {
					return in, errf("batch lengths %v differ by more than one", lens(out))
				}
				if last := out[len(out)-1]; cap(last) != len(last) {
					return in, errf("the last batch (length %d) has capacity %d: not clipped, appending to it would write into the input's spare capacity", len(last), cap(last))
				}
				if hi != lo {
					in.set(c17Uneven)
					first, last := len(out[0]) == hi, len(out[len(out)-1]) == hi
					sortedDesc := slices.IsSortedFunc(out, func(a, b []T) int { return cmp.Compare(len(b), len(a)) })
					in.setIf(first && sortedDesc, c17LargerFirst)
					in.setIf(last && !first, c17LargerLast)
					if batchesLargerFirst && !sortedDesc {
						return in, errf("batch lengths %v: the larger batches must come first", lens(out))
					}
				}
			}
			retainPieces(o, call, out)
		}
		b := near(kk, -1, 0, 1, n-1, n, n+1)
		in.setIf(b, c17Boundary)
		in.nt = b || n == 0 || n >= 1<<62

	case "Head", "Tail":
		head := c.Fn == "Head"
		in.setIf(head, c17FnHead)
		in.setIf(!head, c17FnTail)
		if kk < 0 {
			if kk = -kk; kk < 0 {
				kk = math.MaxInt
			}
		}
		call = fmt.Sprintf("%s%s(len %d, n=%d, spare capacity %d)", c.Fn, tag, n, kk, spare)
		var got []T
		pv := vk.PanicValue(func() {
			if head {
				got = slice.Head(vs, kk)
			} else {
				got = slice.Tail(vs, kk)
			}
		})
		if pv != nil {
			return in, errf("panicked: %v", pv)
		}
		if m := min(kk, n); len(got) != m {
			return in, errf("result has length %d, want min(n, len) = %d", len(got), m)
		}
		b := near(kk, 0, 1, n-1, n, n+1)
		in.setIf(b, c17Boundary)
		in.nt = b || n == 0 || n >= 1<<62

	case "Stripe":
		in.set(c17FnStripe)
		if kk < 0 {
			if kk = -kk; kk < 0 {
				kk = math.MaxInt
			}
		}
		rows := make([][]T, len(c.Rows))
		var lensR []int
		maxLen, have := 0, 0
		for r, l := range c.Rows {
			l = min(max(l, 0), 1000)
			lensR = append(lensR, l)
			rows[r] = make([]T, l)
			maxLen = max(maxLen, l)
			if kk < l {
				have++
			}
		}
		call = fmt.Sprintf("Stripe%s(rows of lengths %v, i=%d)", tag, lensR, kk)
		var got []T
		if pv := vk.PanicValue(func() { got = slice.Stripe(rows, kk) }); pv != nil {
			return in, errf("panicked: %v", pv)
		}
		if len(got) != have {
			return in, errf("result has %d elements, %d of the rows have an element at column %d", len(got), have, kk)
		}
		for r := range rows {
			if len(rows[r]) != lensR[r] {
				return in, errf("row %d has length %d now", r, len(rows[r]))
			}
		}
		ragged := have > 0 && have < len(rows)
		b := len(rows) == 0 || kk >= maxLen-1
		in.setIf(b, c17Boundary)
		in.setIf(ragged, c17Uneven)
		in.setIf(len(rows) == 0, c17Empty)
		in.nt = b || ragged

	case "At", "PtrAt":
		at := c.Fn == "At"
		in.setIf(at, c17FnAt)
		in.setIf(!at, c17FnPtrAt)
		call = fmt.Sprintf("%s%s(len %d, i=%d)", c.Fn, tag, n, kk)
		valid := kk >= -n && kk < n
		if at {
			pv := vk.PanicValue(func() { slice.At(vs, kk) })
			if valid && pv != nil {
				return in, errf("panicked for an index in range: %v", pv)
			}
			if !valid {
				in.set(c17Panic)
				if pv == nil {
					return in, errf("index out of range but At did not panic")
				}
			}
		} else {
			var p *T
			if pv := vk.PanicValue(func() { p = slice.PtrAt(vs, kk) }); pv != nil {
				return in, errf("panicked (PtrAt never panics): %v", pv)
			}
			if valid && p == nil {
				return in, errf("returned nil for an index in range")
			}
			if !valid && p != nil {
				return in, errf("index out of range but PtrAt returned a non-nil pointer")
			}
		}
		in.setIf(valid && kk < 0, c17NegIdx)
		b := near(kk, -n-1, -n, -1, 0, n-1, n)
		in.setIf(b, c17Boundary)
		in.nt = b || n == 0 || n >= 1<<62

	default:
		return in, fmt.Sprintf("VK-INFRA unknown fn %q", c.Fn)
	}
	return in, unchanged()
}

func lens[T any](out [][]T) []int {
	l := make([]int, len(out))
	for i, p := range out {
		l[i] = len(p)
	}
	return l
}

func runC17(c UtilCase, o *vk.Obs) string {
	in, msg := checkUtilObs(c, o)
	if msg == "" {
		in.obs(o, c17Names)
	}
	return msg
}
