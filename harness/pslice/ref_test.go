package pslice

import (
	"cmp"
	"fmt"
	"testing"
)

// TestRefSelf validates the reference implementations of this package against
// brute force (enumeration of all subsequences) on every small input.  It is
// not a leg; it guards the oracles themselves.
func TestRefSelf(t *testing.T) {
	// all subsequences of s, as strings, by length
	subseqs := func(s []int) map[string]int {
		out := map[string]int{}
		for mask := 0; mask < 1<<uint(len(s)); mask++ {
			var sub []int
			for i := range s {
				if mask&(1<<uint(i)) != 0 {
					sub = append(sub, s[i])
				}
			}
			out[fmt.Sprint(sub)] = len(sub)
		}
		return out
	}
	sp := pairSpace{k: 3, maxLen: 5, above: -1}
	for s := 0; s < sp.levels(); s++ {
		n, dec := sp.level(s)
		for i := 0; i < n; i++ {
			a, b, _ := dec(i)
			sa, sb := subseqs(a), subseqs(b)
			best, count := 0, 0
			for k, l := range sa {
				if _, ok := sb[k]; !ok {
					continue
				}
				if l > best {
					best, count = l, 0
				}
				if l == best {
					count++
				}
			}
			S := lcsTable(a, b)
			if int(S[0]) != best {
				t.Fatalf("lcsTable(%v,%v) = %d, brute force %d", a, b, S[0], best)
			}
			if got := countDistinctLCS(a, b, S); got != int64(count) {
				t.Fatalf("countDistinctLCS(%v,%v) = %d, brute force %d", a, b, got, count)
			}
		}
	}
	// LIS / LNDS
	for l := 0; l <= 8; l++ {
		for x := 0; x < ipow(3, l); x++ {
			vs := digits(x, 3, l)
			for _, strict := range []bool{true, false} {
				best := 0
				for mask := 0; mask < 1<<uint(l); mask++ {
					prev, ok, cnt := 0, true, 0
					for i := range vs {
						if mask&(1<<uint(i)) == 0 {
							continue
						}
						if cnt > 0 && (vs[i] < prev || (strict && vs[i] == prev)) {
							ok = false
							break
						}
						prev = vs[i]
						cnt++
					}
					if ok && cnt > best {
						best = cnt
					}
				}
				if got := refLongest(vs, cmp.Compare[int], strict); got != best {
					t.Fatalf("refLongest(%v, strict=%v) = %d, brute force %d", vs, strict, got, best)
				}
			}
		}
	}
	// embeds
	if !embeds([]int{1, 3}, []int{1, 2, 3}, same) || embeds([]int{3, 1}, []int{1, 2, 3}, same) || !embeds(nil, nil, same) || embeds([]int{1, 1}, []int{1}, same) {
		t.Fatal("embeds is wrong")
	}
}
