package pslice

import (
	"cmp"
	"fmt"
	"hash/adler32"
	"hash/fnv"
	"math"
	"reflect"
	"slices"
	"sort"
	"testing"
	"unsafe"

	"pgregory.net/rapid"
	"verif/elem"
)

// TestRefSelf validates the reference implementations of this package against
// brute force (enumeration of all subsequences) on every small input.  It is
// not a leg; it guards the oracles themselves.
func TestRefSelf(t *testing.T) {
	// all subsequences of s, as strings, by length
	subseqs := func(s []int) map[string]int {
		out := map[string]int{}
		for mask := 0; mask < 1<<uint(len(s)); mask++ {
			var sub []int
			for i := range s {
				if mask&(1<<uint(i)) != 0 {
					sub = append(sub, s[i])
				}
			}
			out[fmt.Sprint(sub)] = len(sub)
		}
		return out
	}
	sp := pairSpace{k: 3, maxLen: 5, above: -1}
	for s := 0; s < sp.levels(); s++ {
		n, dec := sp.level(s)
		for i := 0; i < n; i++ {
			a, b, _ := dec(i)
			sa, sb := subseqs(a), subseqs(b)
			best, count := 0, 0
			for k, l := range sa {
				if _, ok := sb[k]; !ok {
					continue
				}
				if l > best {
					best, count = l, 0
				}
				if l == best {
					count++
				}
			}
			S := lcsTable(a, b)
			if int(S[0]) != best {
				t.Fatalf("lcsTable(%v,%v) = %d, brute force %d", a, b, S[0], best)
			}
			if got := countDistinctLCS(a, b, S); got != int64(count) {
				t.Fatalf("countDistinctLCS(%v,%v) = %d, brute force %d", a, b, got, count)
			}
		}
	}
	// LIS / LNDS
	for l := 0; l <= 8; l++ {
		for x := 0; x < ipow(3, l); x++ {
			vs := digits(x, 3, l)
			for _, strict := range []bool{true, false} {
				best := 0
				for mask := 0; mask < 1<<uint(l); mask++ {
					prev, ok, cnt := 0, true, 0
					for i := range vs {
						if mask&(1<<uint(i)) == 0 {
							continue
						}
						if cnt > 0 && (vs[i] < prev || (strict && vs[i] == prev)) {
							ok = false
							break
						}
						prev = vs[i]
						cnt++
					}
					if ok && cnt > best {
						best = cnt
					}
				}
				if got := refLongest(vs, cmp.Compare[int], strict); got != best {
					t.Fatalf("refLongest(%v, strict=%v) = %d, brute force %d", vs, strict, got, best)
				}
			}
		}
	}
	// embeds
	if !embeds([]int{1, 3}, []int{1, 2, 3}, same) || embeds([]int{3, 1}, []int{1, 2, 3}, same) || !embeds(nil, nil, same) || embeds([]int{1, 1}, []int{1}, same) {
		t.Fatal("embeds is wrong")
	}
}

// TestKits validates the element kits of kinds.go: the round trip through
// every kind, the identities, the codes, the pool, and the shared storage and
// the checksum collisions of the "words" kind.
func TestKits(t *testing.T) {
	vals := []int{-7777, -1000, -7, 0, 1, 11, 12, 99, 100, 279, 9000, 32767}
	if !testKit(t, intKit(), vals) || !testKit(t, i16Kit(), vals) || !testKit(t, strKit(), vals) || !testKit(t, wideKit(), vals) ||
		!testKit(t, ptrKit(), vals) || !testKit(t, anyKit(), vals) || !testKit(t, f64Kit(), vals) || !testKit(t, bytesKit(), vals) ||
		!testKit(t, wordsKit(false), vals) || !testKit(t, wordsKit(true), vals) ||
		!testKit(t, b8Kit(), []int{sentinel, fillBase, fillBase - 64, elemBase, elemBase + 1, elemBase + b8MaxN - 1}) {
		return
	}
	// f64: the two zeros are == and not the same element; NaN is itself
	fk := f64Kit()
	pz, nz := fk.get(0, 0), fk.get(0, 1)
	if pz != nz || !math.Signbit(nz) || math.Signbit(pz) || fk.strict(pz, nz) || fk.codeOf(pz) != fk.codeOf(nz) || fk.show(nz) != "-0" {
		t.Fatalf("f64 zeros: %v %v", pz, nz)
	}
	if nan := math.NaN(); !fk.strict(nan, nan) || !fk.isNaN(nan) || fk.v(nan) != badV {
		t.Fatal("f64 NaN")
	}
	// ptr / any: equal values with different identities are distinct pointers
	// to deeply equal pointees
	pk := ptrKit()
	a, b := pk.get(5, 0), pk.get(5, 1)
	if a == b || !reflect.DeepEqual(a, b) || pk.get(5, 0) != a || pk.codeOf(a) == pk.codeOf(b) || pk.show(b) != "5#1" || pk.v(nil) != badV {
		t.Fatal("ptr kit")
	}
	ak := anyKit()
	x, y := ak.get(5, 0), ak.get(5, 1)
	if x == y || !reflect.DeepEqual(x, y) || ak.get(5, 0) != x || ak.v(nil) != badV || ak.v(7) != badV {
		t.Fatal("any kit")
	}
	// words: shared storage, and the collision pairs
	for _, share := range []bool{false, true} {
		wk := wordsKit(share)
		s0, s2 := wk.get(3, 0), wk.get(3, 2)
		if s0 == s2 || s0 != "uiukfp" || s2 != "uiukfp  " || (unsafe.StringData(s0) == unsafe.StringData(s2)) != share {
			t.Fatalf("words kit (share=%v): %q %q", share, s0, s2)
		}
	}
	sums := []func(string) uint32{
		func(s string) uint32 { h := fnv.New32a(); h.Write([]byte(s)); return h.Sum32() },
		func(s string) uint32 { h := fnv.New32(); h.Write([]byte(s)); return h.Sum32() },
		func(s string) uint32 { return adler32.Checksum([]byte(s)) },
	}
	for i := 0; i < len(collisionWords); i += 2 {
		u, v := collisionWords[i], collisionWords[i+1]
		if f := sums[i/2%3]; u == v || len(u) != len(v) || f(u) != f(v) {
			t.Fatalf("%q and %q do not collide", u, v)
		}
	}
	if len(c17Names) > 64 || len(c11Names) > 64 || len(c12SeqNames) > 64 || len(c12LCSNames) > 64 {
		t.Fatal("more than 64 classes in a label table (info.cls is a uint64)")
	}
	if c11Names[c11Elem] != "elem=int" || c12SeqNames[c12SeqElem] != "elem=int" || c12LCSNames[c12LCSElem] != "elem=int" || c17Names[c17Elem] != "elem=int" {
		t.Fatal("the elem=<kind> classes do not start where the constants say")
	}
}

func testKit[T any](t *testing.T, k *ek[T], vals []int) bool {
	for _, v := range vals {
		if !k.fits(v) {
			continue
		}
		for _, id := range []int{0, 1, 63} {
			x := k.get(v, id)
			wantID := 0
			if k.hasID {
				wantID = id
			}
			if k.v(x) != v || k.id(x) != wantID || !k.strict(x, k.get(v, id)) || k.codeOf(x) != k.code(v, wantID) || k.show(x) != showVID(v, wantID) && !(k.kind == elem.F64 && v == 0) {
				t.Errorf("kit %s: (%d,%d) -> %v -> (%d,%d) code %d show %s", k.kind, v, id, x, k.v(x), k.id(x), k.codeOf(x), k.show(x))
				return false
			}
			if k.hasID && id != 0 && (k.strict(x, k.get(v, 0)) || k.codeOf(x) == k.codeOf(k.get(v, 0))) {
				t.Errorf("kit %s: the identities %d and 0 of %d are the same element", k.kind, id, v)
				return false
			}
		}
	}
	// more than 24 distinct elements: the pool switches to its index
	for v := 0; v < 60; v++ {
		if k.fits(elemBase + v) {
			k.get(elemBase+v, 0)
		}
	}
	for v := 0; v < 60; v++ {
		if k.fits(elemBase+v) && !k.strict(k.get(elemBase+v, 0), k.get(elemBase+v, 0)) {
			t.Errorf("kit %s: the pool does not return the element made before", k.kind)
			return false
		}
	}
	var zero T
	if k.kind != elem.Int && k.kind != elem.I16 && k.kind != elem.F64 && k.kind != kindB8 && k.v(zero) != badV {
		t.Errorf("kit %s: the zero value passes for an element", k.kind)
		return false
	}
	return true
}

// countDistinctLCSTable is the bottom-up evaluation of the recurrence of
// countDistinctLCS over the whole table (the form it was first written and
// validated in); TestRefCountForms compares the two on larger inputs than
// brute force reaches.
func countDistinctLCSTable(a, b []int, S []int32) int64 {
	m, n := len(a), len(b)
	w := n + 1
	if S[0] == 0 {
		return 1
	}
	var syms []int
	for _, x := range a {
		if !slices.Contains(syms, x) && slices.Contains(b, x) {
			syms = append(syms, x)
		}
	}
	sort.Ints(syms)
	k := len(syms)
	next := func(s []int) []int32 {
		nx := make([]int32, (len(s)+1)*k)
		for q := 0; q < k; q++ {
			nx[len(s)*k+q] = -1
		}
		for i := len(s) - 1; i >= 0; i-- {
			copy(nx[i*k:(i+1)*k], nx[(i+1)*k:(i+2)*k])
			if q := slices.Index(syms, s[i]); q >= 0 {
				nx[i*k+q] = int32(i)
			}
		}
		return nx
	}
	na, nb := next(a), next(b)
	cnt := make([]int64, (m+1)*w)
	for i := m; i >= 0; i-- {
		for j := n; j >= 0; j-- {
			L := S[i*w+j]
			if L == 0 {
				cnt[i*w+j] = 1
				continue
			}
			var c int64
			for q := 0; q < k; q++ {
				ia, jb := int(na[i*k+q]), int(nb[j*k+q])
				if ia < 0 || jb < 0 {
					continue
				}
				if S[(ia+1)*w+jb+1]+1 == L {
					c += cnt[(ia+1)*w+jb+1]
					if c > lcsCountCap {
						c = lcsCountCap
					}
				}
			}
			cnt[i*w+j] = c
		}
	}
	return cnt[0]
}

func TestRefCountForms(t *testing.T) {
	rapid.Check(t, func(rt *rapid.T) {
		var a, b []int
		switch rapid.IntRange(0, 2).Draw(rt, "shape") {
		case 0:
			a, b = genBlockPair(rt)
		case 1:
			a, b = genRoundPair(rt)
		default:
			a, b = genPair(rt, rapid.IntRange(1, 5).Draw(rt, "k"), 200)
		}
		S := lcsTable(a, b)
		if x, y := countDistinctLCS(a, b, S), countDistinctLCSTable(a, b, S); x != y {
			rt.Fatalf("countDistinctLCS(%v, %v) = %d top down, %d over the whole table", a, b, x, y)
		}
	})
}
